#!/usr/bin/env python3
"""usage: tools/fill_caught.py <trymut log>  — fills seeded/<id>/meta.json caught_by from a log written by tools/trymut.sh runs
(blocks start with '#### <id>'; lines '== Cnn (tier): VIOLATION|OK …' followed by 'violation:'/'broken:' detail lines)."""
import sys, re, json, os
root = os.path.dirname(os.path.dirname(os.path.abspath(__file__)))
cur, res = None, {}
for line in open(sys.argv[1]):
    line = line.rstrip('\n')
    m = re.match(r'#### (\S+)', line)
    if m:
        cur = m.group(1); res[cur] = []; continue
    m = re.match(r'== (C\d+) \((\w+)\): (.*)', line)
    if m and cur:
        res[cur].append({'prop': m.group(1), 'tier': m.group(2), 'head': m.group(3), 'detail': []}); continue
    m = re.match(r'\s+(violation|broken): (.*)', line)
    if m and cur and res[cur]:
        res[cur][-1]['detail'].append(m.group(1) + ': ' + m.group(2)[:220])
for sid, runs in res.items():
    mp = os.path.join(root, 'seeded', sid, 'meta.json')
    if not os.path.exists(mp) or not runs:
        continue
    meta = json.load(open(mp))
    caught, missed = [], []
    for r in runs:
        if r['head'].startswith('VIOLATION'):
            kind = 'tie (no-failing-input-found)' if 'no-failing-input-found' in r['head'] else 'input (replay)'
            caught.append(f"./check {r['prop']} ({r['tier']}): {kind}: " + (r['detail'][0] if r['detail'] else r['head'][:160]))
        else:
            missed.append(f"{r['prop']} ({r['tier']})")
    if caught:
        prev = [c for c in (meta.get('caught_by') or []) if c.startswith('NOT CAUGHT') or c.startswith('initially')]
        if prev:
            caught = caught + ['initially MISSED (' + '; '.join(prev)[:200] + ')']
        meta['caught_by'] = caught + (['not reported by: ' + ', '.join(missed)] if missed else [])
        meta['status'] = 'caught'
    elif meta.get('status') == 'caught':
        continue                      # never downgrade an entry on a partial re-run
    else:
        meta['caught_by'] = ['NOT CAUGHT by ' + ', '.join(missed)]
        meta['status'] = 'MISSED'
    json.dump(meta, open(mp, 'w'), indent=1)
    print(sid, meta['status'])
