#!/usr/bin/env python3
"""Run /repo's pinned suite (guard OFF) and compare against BASELINE.json stable_pass."""
import json, subprocess, sys, os
base = json.load(open('/root/.vp/BASELINE.json'))
want = set(base['stable_pass'])
env = dict(os.environ); env['GOFLAGS'] = '-mod=mod'
p = subprocess.run(['go','test','-json','-vet=off','-count=1','-timeout','25m','./...'],cwd='/repo',env=env,capture_output=True,text=True)
status = {}
for line in p.stdout.splitlines():
    try: ev = json.loads(line)
    except Exception: continue
    if ev.get('Test') and ev.get('Action') in ('pass','fail','skip'):
        status[ev['Package']+'::'+ev['Test']] = ev['Action']
missing = sorted(t for t in want if status.get(t) != 'pass')
print(f"baseline: {len(want)} expected, {sum(1 for t in want if status.get(t)=='pass')} pass, {len(missing)} not passing")
for t in missing[:40]: print('  NOT PASS:', t, status.get(t))
sys.exit(1 if missing else 0)
