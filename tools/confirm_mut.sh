#!/bin/bash
# usage: tools/confirm_mut.sh <dir with patch.diff demo_test.go> <seeded-id> <property> "<needs>"
# Confirms in a scratch worktree of /repo: patch applies+builds, suite passes with it, demo fails with it and passes without.
set -u
src=$1; id=$2; prop=$3; needs=$4
wt=/tmp/confirm/$id
rm -rf "$wt"; git -C /repo worktree prune; git -C /repo worktree add -q --detach "$wt" HEAD || exit 2
cleanup() { git -C /repo worktree remove --force "$wt" 2>/dev/null; }
trap cleanup EXIT
export GOFLAGS=-mod=mod
cd "$wt"
cp "$src/demo_test.go" zz_demo_test.go
demo_without=$(go test -vet=off -count=1 -run "$(grep -o 'func Test[A-Za-z0-9_]*' zz_demo_test.go | sed 's/func //' | paste -sd'|')" . 2>&1 | tail -3)
git apply "$src/patch.diff" || { echo "patch does not apply"; exit 2; }
demo_with=$(go test -vet=off -count=1 -run "$(grep -o 'func Test[A-Za-z0-9_]*' zz_demo_test.go | sed 's/func //' | paste -sd'|')" . 2>&1 | tail -6)
rm zz_demo_test.go
suite=$(go test -vet=off -count=1 -timeout 25m ./... 2>&1 | tail -3)
echo "demo without change: $(echo "$demo_without" | tail -1)"
echo "demo with change   : $(echo "$demo_with" | grep -m1 -E 'FAIL|ok')"
echo "suite with change  : $(echo "$suite" | head -1)"
ok=1
echo "$demo_without" | tail -1 | grep -q '^ok' || ok=0
echo "$demo_with" | grep -q 'FAIL' || ok=0
echo "$suite" | head -1 | grep -q '^ok' || ok=0
if [ $ok = 1 ]; then
  d=/verif/seeded/$id; mkdir -p "$d"; cp "$src/patch.diff" "$src/demo_test.go" "$d/"; [ -f "$src/notes.md" ] && cp "$src/notes.md" "$d/"
  python3 - "$d" "$prop" "$needs" <<'PY'
import json,sys
d,prop,needs=sys.argv[1:4]
json.dump({"property":prop,"needs":needs,"confirmed":"scratch worktree of /repo HEAD: patch applies and builds; existing suite passes with it; demo_test.go fails with it and passes without it (tools/confirm_mut.sh)","caught_by":[]},open(d+"/meta.json","w"),indent=1)
PY
  echo "CONFIRMED -> $d"
else
  echo "NOT CONFIRMED"
fi
