"""Per-property configuration of ./check: which harness jobs tie the property's models to the code.
job keys: test (Go test function), comp (first token of its log lines), mode (scenario jobs: 3rd token of the
`new` line), scenario (replay = the `new` line only), env, quick/thorough (env overrides), seeds {tier: n}."""

RQ = {'test': 'TestVerifRQ', 'comp': 'rq', 'quick': {'VERIF_N': 150, 'VERIF_OPS': 150},
      'thorough': {'VERIF_N': 1500, 'VERIF_OPS': 300}, 'seeds': {'quick': 1, 'thorough': 8}}
GENF = {'test': 'TestVerifGenFuncs', 'comp': 'gen', 'quick': {'VERIF_N': 1500},
        'thorough': {'VERIF_N': 200000, 'VERIF_SNA16_ALL': 1}, 'seeds': {'quick': 1, 'thorough': 2}}
RTO = {'test': 'TestVerifRto', 'comp': 'rto', 'quick': {'VERIF_N': 120, 'VERIF_OPS': 60},
       'thorough': {'VERIF_N': 3000, 'VERIF_OPS': 80}, 'seeds': {'quick': 1, 'thorough': 4}, 'corpus_glob': 'rto_*.ops'}
TIMER = {'test': 'TestVerifTimer', 'comp': 'timer', 'quick': {'VERIF_N': 200, 'VERIF_OPS': 24},
         'thorough': {'VERIF_N': 4000, 'VERIF_OPS': 40}, 'seeds': {'quick': 1, 'thorough': 4}, 'corpus_glob': 'timer_*.ops'}


ASND = {'test': 'TestVerifAssocSender', 'comp': 'as', 'quick': {'VERIF_N': 150, 'VERIF_OPS': 200},
        'thorough': {'VERIF_N': 600, 'VERIF_OPS': 300}, 'seeds': {'quick': 1, 'thorough': 8}}


def e2e(mode, test, nq=300, nt=1500):
    return {'test': test, 'comp': 'e2e', 'mode': mode, 'scenario': True, 'quick': {'VERIF_N': nq},
            'thorough': {'VERIF_N': nt}, 'seeds': {'quick': 1, 'thorough': 8}}


E2E_T = e2e('transfer', 'TestVerifE2ETransfer')
E2E_PR = e2e('pr', 'TestVerifE2EPR')
E2E_SD = e2e('shutdown', 'TestVerifE2EShutdown')
E2E_HS = e2e('handshake', 'TestVerifE2EHandshake', nq=384, nt=3000)
E2E_RS = e2e('reset', 'TestVerifE2EReset')
E2E_API = e2e('api', 'TestVerifE2EAPI')
E2E_TD = e2e('teardown', 'TestVerifE2ETeardown', nq=400, nt=2000)

E2E_RULE = ('one case = one seeded scenario (options x initial TSNs x streams/policies x message sizes x per-packet fault schedule x heal time) run on a real '
            'association pair under testing/synctest virtual time; distinct by SHA-1 of its full API+wire log; non-trivial = at least 3 distinct event kinds and 5 events')

PROPS = {
    'C05': {'jobs': [RQ]},
    'C16': {'jobs': [GENF, RQ]},
    'C01': {'jobs': [E2E_T], 'rule': E2E_RULE},
    'C02': {'jobs': [E2E_T], 'rule': E2E_RULE},
    'C06': {'jobs': [E2E_PR, E2E_T], 'rule': E2E_RULE},
    'C07': {'jobs': [E2E_PR], 'rule': E2E_RULE},
    'C08': {'jobs': [E2E_SD], 'rule': E2E_RULE},
    'C04': {'jobs': [E2E_HS, E2E_T], 'rule': E2E_RULE},
    'C14': {'jobs': [E2E_RS], 'rule': E2E_RULE},
    'C10': {'jobs': [ASND, E2E_T], 'assumptions': [
        'L0 model Model/Sender.lean is hand-written; its window tests / updates / congestion formulas / chunk sizes are translator-generated Gen.* defs; the rest is tied by comparing every op of the direct-drive harness',
        'oracles (quantified over in the theorems, recorded from the real code in the harness): TLR burst budget, pending-queue selection, RACK/PTO loss marks, T3 expiries during a clock tick',
        'window theorems assume no uint32 wrap (ghost flag wrapWin: < 2^32 bytes in flight, cwnd + increment < 2^32) and MTU < 2^30',
        '"cut on loss" is formalised as the RFC 4960 7.2.3 formula at T3 expiry and at entry to fast recovery; RACK/PTO marks do not change cwnd in this implementation',
        'blockWrite, SHUTDOWN cumulative ack, RTT/RACK bookkeeping, timers and goroutines are outside the sender model',
    ]},
    'C15': {'jobs': [ASND, E2E_T, E2E_PR], 'assumptions': [
        'same model, oracles and ties as C10',
        'per-stream theorems carry the D9 hypothesis (a stream stays in the association table while it has data outstanding) and assume no uint64 wrap of bufferedAmount (ghost flag wrapBuf)',
        'callback-unlocked is decided on translator-extracted control-flow paths of onBufferReleased and the statements around its call site (syntactic), plus a dynamic TryLock probe in the harness',
    ]},
    'C18': {'jobs': [E2E_API, E2E_SD], 'rule': E2E_RULE},
    'C09': {'jobs': [E2E_TD, E2E_SD, E2E_HS], 'rule': E2E_RULE},
    'C19': {'jobs': [RTO, TIMER], 'assumptions': [
        'float64 arithmetic of rtoManager / calculateNextTimeout is proved over Rat; the Float instance is compared with the Go code bit for bit on sampled sequences',
        'timer automaton theorems assume fewer than 255 fired callbacks wait for the timer mutex at once (pending is a uint8; witness C19_pending_wrap_witness, known finding K19-pending-uint8)',
        'timeout() is modelled as atomic including the observer call; in Go the observer runs just after the timer mutex is released (with a zero interval consecutive reports can overtake each other)',
        'Go runtime timer semantics (Reset/Stop/AfterFunc) are the hand-written environment GoTimer; sampled under testing/synctest, callbacks delayed only through the harness gate',
        'retry-budget, Karn and start-uses-manager-RTO are syntactic facts about call sites (argument / guard text), not data-flow',
        'association level (SACK immediacy, 200 ms bound per DATA packet, heartbeat round trip) is not part of this check yet',
    ]},
}
