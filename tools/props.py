"""Per-property configuration of ./check: which harness jobs tie the property's models to the code.
job keys: test (Go test function), comp (first token of its log lines), env, quick/thorough (env overrides),
seeds {tier: number of seeds}."""

RQ = {'test': 'TestVerifRQ', 'comp': 'rq', 'quick': {'VERIF_N': 150, 'VERIF_OPS': 150},
      'thorough': {'VERIF_N': 1500, 'VERIF_OPS': 300}, 'seeds': {'quick': 1, 'thorough': 8}}
GENF = {'test': 'TestVerifGenFuncs', 'comp': 'gen', 'quick': {'VERIF_N': 1500},
        'thorough': {'VERIF_N': 200000, 'VERIF_SNA16_ALL': 1}, 'seeds': {'quick': 1, 'thorough': 2}}
RTO = {'test': 'TestVerifRto', 'comp': 'rto', 'quick': {'VERIF_N': 120, 'VERIF_OPS': 60},
       'thorough': {'VERIF_N': 3000, 'VERIF_OPS': 80}, 'seeds': {'quick': 1, 'thorough': 4}, 'corpus_glob': 'rto_*.ops'}
TIMER = {'test': 'TestVerifTimer', 'comp': 'timer', 'quick': {'VERIF_N': 200, 'VERIF_OPS': 24},
         'thorough': {'VERIF_N': 4000, 'VERIF_OPS': 40}, 'seeds': {'quick': 1, 'thorough': 4}, 'corpus_glob': 'timer_*.ops'}

PROPS = {
    'C05': {'jobs': [RQ], 'assumptions': []},
    'C16': {'jobs': [GENF, RQ], 'assumptions': []},
    'C19': {'jobs': [RTO, TIMER], 'assumptions': []},
}
