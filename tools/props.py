"""Per-property configuration of ./check: which harness jobs tie the property's models to the code.
job keys: test (Go test function), comp (first token of its log lines), mode (scenario jobs: 3rd token of the
`new` line), scenario (replay = the `new` line only), env, quick/thorough (env overrides), seeds {tier: n}."""

RQ = {'test': 'TestVerifRQ', 'comp': 'rq', 'quick': {'VERIF_N': 150, 'VERIF_OPS': 150},
      'thorough': {'VERIF_N': 1500, 'VERIF_OPS': 300}, 'seeds': {'quick': 1, 'thorough': 8}}
GENF = {'test': 'TestVerifGenFuncs', 'comp': 'gen', 'quick': {'VERIF_N': 1500},
        'thorough': {'VERIF_N': 200000, 'VERIF_SNA16_ALL': 1}, 'seeds': {'quick': 1, 'thorough': 2}}
RTO = {'test': 'TestVerifRto', 'comp': 'rto', 'quick': {'VERIF_N': 120, 'VERIF_OPS': 60},
       'thorough': {'VERIF_N': 3000, 'VERIF_OPS': 80}, 'seeds': {'quick': 1, 'thorough': 4}, 'corpus_glob': 'rto_*.ops'}
TIMER = {'test': 'TestVerifTimer', 'comp': 'timer', 'quick': {'VERIF_N': 200, 'VERIF_OPS': 24},
         'thorough': {'VERIF_N': 4000, 'VERIF_OPS': 40}, 'seeds': {'quick': 1, 'thorough': 4}, 'corpus_glob': 'timer_*.ops'}


ASND = {'test': 'TestVerifAssocSender', 'comp': 'as', 'pairs': True, 'quick': {'VERIF_N': 150, 'VERIF_OPS': 200},
        'thorough': {'VERIF_N': 600, 'VERIF_OPS': 300}, 'seeds': {'quick': 1, 'thorough': 8}}

ARCV = {'test': 'TestVerifAssocReceiver', 'comp': 'ar', 'pairs': True, 'quick': {'VERIF_N': 60, 'VERIF_OPS': 150},
        'thorough': {'VERIF_N': 400, 'VERIF_OPS': 250}, 'seeds': {'quick': 1, 'thorough': 8}}


# graceful shutdown, direct drive: two established real associations, model Sd replayed line by line (C08)
SDD = {'test': 'TestVerifShutdown', 'comp': 'sd', 'quick': {'VERIF_N': 400}, 'thorough': {'VERIF_N': 4000},
       'seeds': {'quick': 1, 'thorough': 8}, 'corpus_glob': 'sd_*.ops'}

# RACK / PTO / TLR scenario generator on the same direct-drive harness (go/harness/rack_test.go): every `as` op is followed by a
# white-box `as rk` snapshot that Driver/Rack.lean compares with Model/Rack.lean (also on the lines of ASND)
ARACK = {'test': 'TestVerifAssocRack', 'comp': 'as', 'pairs': True, 'quick': {'VERIF_N': 100, 'VERIF_OPS': 160},
         'thorough': {'VERIF_N': 400, 'VERIF_OPS': 260}, 'seeds': {'quick': 1, 'thorough': 8}, 'corpus_glob': 'rack_*.ops'}


HSD = {'test': 'TestVerifHandshake', 'comp': 'hs', 'quick': {'VERIF_N': 96},
       'thorough': {'VERIF_N': 960}, 'seeds': {'quick': 1, 'thorough': 8}}


def e2e(mode, test, nq=300, nt=1500):
    return {'test': test, 'comp': 'e2e', 'mode': mode, 'scenario': True, 'quick': {'VERIF_N': nq},
            'thorough': {'VERIF_N': nt}, 'seeds': {'quick': 1, 'thorough': 8}}


E2E_T = e2e('transfer', 'TestVerifE2ETransfer')
E2E_PR = e2e('pr', 'TestVerifE2EPR')
E2E_SD = e2e('shutdown', 'TestVerifE2EShutdown')
E2E_HS = e2e('handshake', 'TestVerifE2EHandshake', nq=384, nt=3000)
E2E_RS = dict(e2e('reset', 'TestVerifE2EReset'), corpus_glob='d*.ops')
# stream reset, direct drive: two real established associations, packet histories, object handles; L0 model Rs
RSD = {'test': 'TestVerifReset', 'comp': 'rs', 'quick': {'VERIF_N': 64}, 'thorough': {'VERIF_N': 400},
       'seeds': {'quick': 1, 'thorough': 8}, 'corpus_glob': 'rs_*.ops'}
E2E_API = e2e('api', 'TestVerifE2EAPI')
E2E_TD = e2e('teardown', 'TestVerifE2ETeardown', nq=400, nt=2000)
# concurrent API storms inside the bubble run on ONE P (cooperative scheduling: reproducible from the seed; with several Ps
# go1.26 synctest bubbles occasionally stall for tens of seconds with a runnable goroutine that no P picks up). Real
# parallelism is left to the native race-detector runs below.
E2E_ST = e2e('storm', 'TestVerifE2EStorm', nq=250, nt=1500)
# the storm / teardown programs outside the bubble under the race detector (thorough tier; bounded real time)
RACE_ST = {'test': 'TestVerifRaceStorm', 'comp': 'e2e', 'mode': 'storm', 'scenario': True, 'race': True, 'tiers': ['thorough'],
           'thorough': {'VERIF_N': 400, 'VERIF_RACE_BUDGET_S': 150}, 'seeds': {'thorough': 2}}
RACE_TD = {'test': 'TestVerifRaceTeardown', 'comp': 'e2e', 'mode': 'teardown', 'scenario': True, 'race': True, 'tiers': ['thorough'],
           'thorough': {'VERIF_N': 400, 'VERIF_RACE_BUDGET_S': 150}, 'seeds': {'thorough': 2}}

E2E_RULE = ('one case = one seeded scenario (options x initial TSNs x streams/policies x message sizes x per-packet fault schedule x heal time) run on a real '
            'association pair under testing/synctest virtual time; distinct by SHA-1 of its full API+wire log; non-trivial = at least 3 distinct event kinds and 5 events')

PEND = {'test': 'TestVerifPendQ', 'comp': 'pend', 'quick': {'VERIF_N': 150, 'VERIF_OPS': 150},
        'thorough': {'VERIF_N': 1500, 'VERIF_OPS': 300}, 'seeds': {'quick': 1, 'thorough': 8}}
# queue.go (generic ring buffer under payloadQueue): model RingQ + FIFO-list predicate. Not a C17 matter; attach this
# job to the properties served by the in-flight queue (C10/C15/C03) when their entries are added.
RINGQ = {'test': 'TestVerifRingQ', 'comp': 'ringq', 'quick': {'VERIF_N': 100, 'VERIF_OPS': 300},
         'thorough': {'VERIF_N': 1000, 'VERIF_OPS': 600}, 'seeds': {'quick': 1, 'thorough': 4}}

REASM = {'test': 'TestVerifReasm', 'comp': 'reasm', 'quick': {'VERIF_N': 300, 'VERIF_OPS': 300},
         'thorough': {'VERIF_N': 3000, 'VERIF_OPS': 400}, 'seeds': {'quick': 1, 'thorough': 8}}

# wire codec: packet.marshal / packet.unmarshal through the chunk interface; its predicate messages are
# tagged C12-/C13-/C03- and each property looks at its own
CODEC = {'test': 'TestVerifCodec', 'comp': 'codec', 'quick': {'VERIF_N': 1500}, 'thorough': {'VERIF_N': 25000},
         'seeds': {'quick': 1, 'thorough': 4}}

# stream API layer (WriteSCTP / packetize / sendPayloadData incl. blocking-write mode, Close, ReadSCTP / SetReadDeadline) on one
# real Association driven single-threaded: L0 model Sapi (on top of Sender + Reasm) replays every line; predicates tagged [C18] / [C06]
SAPI = {'test': 'TestVerifStreamAPI', 'comp': 'sa', 'corpus_glob': 'sapi_*.ops', 'quick': {'VERIF_N': 120, 'VERIF_OPS': 150},
        'thorough': {'VERIF_N': 600, 'VERIF_OPS': 220}, 'seeds': {'quick': 1, 'thorough': 8}}

PROPS = {
    'C05': {'jobs': [RQ, ARCV]},
    'C16': {'jobs': [GENF, RQ, ASND, ARACK, ARCV, RSD]},
    'C01': {'jobs': [REASM, ASND, ARCV, SAPI, E2E_T], 'assumptions': [
        'sender half (Props/C01wire.lean): payload BYTES are not in the sender model (lengths and fragment identity only); that a chunk carries the matching slice of the written buffer is observed by the e2e content hashes',
        'receive-side system theorem (C01_receiver_prefix): chunks are the fragments of the peer\'s messages (universe of Reasm.Sender per stream, fewer than 2^31 TSNs in all), reliable streams only (no FORWARD-TSN, no reset in the run)',
        'fewer than 2^15 ordered messages of a stream outstanding (SSN half-space; known finding D15); fewer than 2^31 TSNs/MIDs outstanding',
        'composition (Props/C01net.lean, Model/NetSys.lean): reliable ordered streams only (openS ordered, relType 0, no unreg; no FORWARD-TSN / reset operation in NetSys); fewer than 2^31 chunks written in all; '
        'D15 window stated on the run (messages written at most 2^31 / 2^15 ahead of messages read at every step); DATA only: the selection oracle of the sender model is message-contiguous and per-stream FIFO (SelContig; '
        'derived in Props/C01sel.lean from FIFO selection SelFifo - every gather takes the oldest pending chunk - which C17_ordered_only_fifo proves of the pending-queue model for ordered-only traffic; '
        'that the sender model\'s selection oracle is the real queue\'s answer is checked on the logged selections by the [C01,C17] predicate, not proved); toWire assumes a chunk carries the byte slice [i*mp, i*mp+len) of the written payload (the copy in packetize is observed by the e2e content hashes only)']},
    'C11': {'jobs': [REASM, ARCV], 'assumptions': [
        'sum of len(userData) over all chunks ever pushed < 2^63 (uint64 counter / int conversion in subtractNumBytes)',
        'association level: credit formula over the streams REGISTERED in the association table (deviation D13: unread bytes of a reset stream are not counted); '
        'C11_bytes_bound / C11_credit_formula_bounded assume buffer + 40000 x (largest chunk) < 2^32 (bytesQueued is a uint32) and fewer than 2^63 user bytes in total',
        'receive-half model Model/Receiver.lean is hand-written; its straight-line tests are translator-generated; tied by replaying every op of TestVerifAssocReceiver']},
    'C02': {'jobs': [E2E_T, ASND, ARACK], 'rule': E2E_RULE, 'assumptions': [
        'theorems (Props/C02rack.lean) are about the loss-recovery COMPONENT Model/Rack.lean (RACK, RACK timer, PTO, TLR gate), not about end-to-end liveness; the system-level claim stays with the e2e predicate',
        'Model/Rack.lean is hand-written control flow over translator-generated conditions and formulas (go/extract/exprs.go, block RACK / PTO / TLR); tied by comparing a white-box snapshot of the real Association with the model after EVERY op of the direct-drive harness (rk lines)',
        'environment of the component (quantified over in the theorems, computed from the sender model / RTO model in the driver): SRTT readings, inFastRecovery, t3RTX.isRunning() (taken from the log), pending-queue size, which chunks a gather (re)transmits and abandons; the clock is taken from the log',
        'reachable-state theorems (C02_rack_invariant, C02_rack_timer_inert) assume RunOK: a new chunk gets a TSN that is not in flight, only in-flight chunks are retransmitted, a valid SRTT reading is not negative (proved for the generated conversion over Rat)',
        'time.Time is modelled as Int nanoseconds with the zero Time = 0 and every real reading > 0; float64 SRTT enters through the generated conversion sites (Rat in theorems, Float in the driver)',
    ]},
    'C06': {'jobs': [SAPI, E2E_PR, E2E_T, E2E_API, REASM, ASND, ARACK, RQ], 'rule': E2E_RULE, 'assumptions': [
        '"at most once" rests on the duplicate filter of the association (receive bitmap, incl. the ranges a FORWARD-TSN clears): the rq correspondence job of C05 runs here too',
        'theorems (Props/C06rack.lean) cover ONE clause only: no loss-recovery path (RACK on SACK, RACK timer, PTO, T3 mark-all) flags an acknowledged or abandoned chunk for retransmission, on Model/Rack.lean (tied by the rk snapshots of the direct-drive harness); integrity / at-most-once / policy bounds remain e2e + Reasm + PolicySpec',
        'theorems cover the API-visible half (DCEP, abandonment decision, retransmission bounds); the receive half (at most once, intact, subsequence) rests on Reasm + e2e predicates',
        'L0 models Sender + Sapi (hand-written, Gen.* decision sites regenerated); oracles: burst budget, pending-queue selection, RACK/PTO marks, T3 expiries per tick, which parked writer wakes',
        'bounds hold while the policy is in force: FORWARD-TSN negotiated (prEnabled), stream in the association table, no openS/setRel on it during the run; MTU < 2^30',
        'nSent is the transmission count (stamped by the model on every chunk it puts in a packet; compared with the implementation per chunk per gather)',
        'known finding D14 (fragmented messages: bounds hold for the last fragment only; witness decided and replayed); D21 (abandoned chunk retransmitted through a stale mark) is fixed in /repo (6ddfdda), its witnesses are regression guards']},
    'C07': {'jobs': [E2E_PR, ASND, ARCV, dict(REASM, corpus_glob='reasm_*.ops')], 'rule': E2E_RULE},
    'C08': {'jobs': [SDD, dict(E2E_SD, corpus_glob='e2e_*.ops')], 'assumptions': [
        'theorems are about the L0 model Sd (two established endpoints + packet histories); the model is replayed line by line against two real established associations (TestVerifShutdown: real readLoop and real Shutdown call, write loop stepped explicitly, timers fired explicitly)',
        'which DATA chunks a write-loop pass sends (cwnd, rwnd, MTU bundling, burst budget, T3 / fast-retransmit / RACK marks, stream scheduler) is an input of the model, quantified over in the theorems and read off the emitted packets in the replay',
        'one DATA chunk per message; TSNs and acknowledgement points as offsets from the initial TSN (no wrap-around: C16); receive buffer never full, streams pre-opened, ackMode normal; ABORT only as sent by Abort(); no RECONFIG / FORWARD-TSN / HEARTBEAT traffic',
        'C08_shutdown_ok_implies_delivered is full strength since the fix of D22 (Shutdown returns ErrShutdownIncomplete unless SHUTDOWN-ACK or SHUTDOWN-COMPLETE was received); transport failure, Close and Abort at any moment are operations of the model; a peer closed by an inbound ABORT reports EOF on its streams in the harness (the ABORT error in the real read loop)',
        'liveness theorems are for the explicit schedules named in Props/C08.lean (every message count), not for arbitrary fair schedules; the e2e shutdown scenarios sample the rest under virtual time',
        'one case (sd job) = one operation sequence from `sd new` to the next; (e2e job) = ' + E2E_RULE,
    ]},
    'C04': {'jobs': [HSD, E2E_HS, E2E_T], 'assumptions': [
        'theorems are about the L0 model Hs (two endpoints + packet histories); the model is replayed line by line against two real associations driven by a packet shuffler (TestVerifHandshake)',
        'the blocking behaviour of Client/Server calls, T1 retry budget and connect failure are covered by the e2e handshake scenarios and by C19 theorems, not by the Hs model',
        'verification tags and ports are not part of the model (the implementation does not check inbound verification tags)']},
    'C14': {'jobs': [RSD, E2E_RS], 'assumptions': [
        'theorems are about the L0 model Rs (two established endpoints + packet histories, stream objects by handle); the model is replayed line by line against two real associations (TestVerifReset)',
        'oracles (quantified over in the theorems, recorded from the real code in the harness): which pending entries leave the queue in one gatherOutbound call (congestion / flow control, scheduler), which sent chunks are retransmitted (T3, fast retransmit, RACK), whether a SACK is due',
        'TSN / RSN / SSN / MID are natural numbers in Rs (no wrap-around; serial arithmetic is C16), initial TSNs are not 0, messages are unfragmented, the receive buffer is never full, fewer than 1000 deferred requests; where a run leaves this domain the model prints UNSUPPORTED',
        'Rs keeps every performed request number; the exact rememberPerformedReset (trim above 2048 entries) is modelled separately (PerfSet) and the driver flags disagreement',
        'C14_eof_after_data judges an identifier while the applications re-open it only in states where both directions were reset (Sys.quiet, evaluated on the real state by the harness as q=)',
        'association shutdown / abort and blocking calls are outside the model (e2e reset scenarios cover them by exploration)',
    ]},
    'C10': {'jobs': [ASND, ARACK, E2E_T], 'assumptions': [
        'TLR burst budget (Props/C10tlr.lean): theorems about tlrAllowSendLocked as generated (Model/Rack.lean), proved equal to the gate the sender model is replayed with; the budget/active oracle values of every gather are now CHECKED against Rack.tlrBudgetScaled, the RACK/PTO marks against the RACK model (rk lines); the bound is per gather - the code has no per-RTT accounting',
        'L0 model Model/Sender.lean is hand-written; its window tests / updates / congestion formulas / chunk sizes are translator-generated Gen.* defs; the rest is tied by comparing every op of the direct-drive harness',
        'oracles (quantified over in the theorems, recorded from the real code in the harness): TLR burst budget, pending-queue selection, RACK/PTO loss marks, T3 expiries during a clock tick',
        'window theorems assume no uint32 wrap (ghost flag wrapWin: < 2^32 bytes in flight, cwnd + increment < 2^32) and MTU < 2^30',
        '"cut on loss" is formalised as the RFC 4960 7.2.3 formula at T3 expiry and at entry to fast recovery; RACK/PTO marks do not change cwnd in this implementation',
        'blockWrite, SHUTDOWN cumulative ack, RTT/RACK bookkeeping, timers and goroutines are outside the sender model',
    ]},
    'C15': {'jobs': [ASND, E2E_T, E2E_PR, E2E_API], 'assumptions': [
        'same model, oracles and ties as C10',
        'per-stream theorems carry the D9 hypothesis (a stream stays in the association table while it has data outstanding) and assume no uint64 wrap of bufferedAmount (ghost flag wrapBuf)',
        'callback-unlocked is decided on translator-extracted control-flow paths of onBufferReleased and the statements around its call site (syntactic), plus a dynamic TryLock probe in the harness',
    ]},
    'C18': {'jobs': [SAPI, E2E_API, E2E_SD], 'rule': E2E_RULE, 'assumptions': [
        'L0 model Sapi on top of Sender and Reasm; conditions of WriteSCTP / sendPayloadData / notifyBlockWritable are regenerated Gen.* sites; structure tied by the direct-drive replay',
        'single-threaded abstraction: one API call at a time, everything runnable has run before the next op; a second write on a stream with a parked writer (write lock) and a second reader are not issued',
        'which parked writer a writeNotify token wakes is an oracle input; the token itself is not state (a parked writer has consumed any stale token and found writePending still up)',
        'run theorems start from any state satisfying WInv / GInv (initial state of every configuration with MTU < 2^30: C18_invariant_reachable)',
        'C18_parked_write_rollback: equality up to the two ghost id allocators nextWid / nextMsg',
        'observation (not a C18 clause): while a write is parked bufferedAmount includes its bytes, and the roll-back subtracts them without onBufferReleased - a low-threshold crossing can be skipped']},
    'C09': {'jobs': [E2E_TD, E2E_SD, E2E_HS, E2E_ST, TIMER], 'rule': E2E_RULE, 'assumptions': [
        '"all timers stop": the timer automaton correspondence of C19 (a closed or stopped timer reports nothing, even when its expiry is already in flight) runs here too',
        'theorems are about the hand-written transition system Model/Teardown.lean; its choreography is read off translator facts on every run (C09_choreography_matches_code)',
        'sync.Mutex / sync.Cond / channel / sync.Once semantics as specified by Go; one constructor call per association; API calls only after it returned; '
        'completeHandshake attempted at most once; stream identifiers not reused after a reset',
        '"promptly" = without further help from the environment; wall-clock bounds are not modelled',
        'real goroutine interleavings are sampled by the teardown scenarios (every goroutine of the package must be gone when the synctest bubble ends)']},
    'C20': {'jobs': [E2E_ST, E2E_TD, RACE_ST, RACE_TD], 'rule': E2E_RULE, 'assumptions': [
        'lock-order, callback, entry-point and blocking-site theorems are decided on facts the translator derives from the source on every run '
        '(syntactic, intra-package; mutexes identified by receiver type and field; interface calls resolved by method set)',
        'data-race freedom is NOT covered by any theorem (it cannot be expressed by an executable Lean model): the race-detector runs of the thorough tier are supporting evidence only',
        'goroutine interleavings are sampled (storm scenarios under testing/synctest with several Ps; native runs under -race), not enumerated',
        'the linearisation theorem is about ONE mutex; the per-stream lock and the timer mutexes guard state of their own']},
    'C19': {'jobs': [RTO, TIMER, ARCV], 'assumptions': [
        'float64 arithmetic of rtoManager / calculateNextTimeout is proved over Rat; the Float instance is compared with the Go code bit for bit on sampled sequences',
        'timer automaton theorems assume fewer than 255 fired callbacks wait for the timer mutex at once (pending is a uint8; witness C19_pending_wrap_witness, known finding K19-pending-uint8)',
        'timeout() is modelled as atomic including the observer call; in Go the observer runs just after the timer mutex is released (with a zero interval consecutive reports can overtake each other)',
        'Go runtime timer semantics (Reset/Stop/AfterFunc) are the hand-written environment GoTimer; sampled under testing/synctest, callbacks delayed only through the harness gate',
        'retry-budget, Karn and start-uses-manager-RTO are syntactic facts about call sites (argument / guard text), not data-flow',
        'association level (Props/C19recv.lean): theorems about the receive-half model Model/Receiver.lean with the ack-timer automaton embedded; in the single-threaded model the timer callback runs at its deadline; the RTT estimator is not modelled',
    ]},
    'C17': {'jobs': [PEND, ARCV, HSD, E2E_HS, E2E_T], 'assumptions': [
        'scheduler half (pending_queue.go, scheduler factories) plus the receive side of the negotiation half (wrong-kind chunk => protocol-violation ABORT, Props/C17recv.lean on Model/Receiver.lean); that each side SENDS the negotiated kind is C04/e2e',
        'WFQ theorems are over exact rationals; the Go code uses float64 (identical for power-of-two weights; X compares the Float instance bit for bit)',
        'a chunk pointer is never queued twice (fresh chunk per fragment), so chunkFinish[ptr] is modelled as a tag stored with the queue entry',
        'WFQ bound: statement = L_i/w_i + L_j/w_j; proved = that bound when no push falls between a peek and the pop of the chunk it selected '
        '(C17_wfq_fair_atomic_partial), and L_i/w_i + L_j/w_j + max_k L_k/w_k for every operation list (C17_wfq_fair_partial); the extra term is '
        'needed (C17_wfq_stated_bound_fails_with_stale_peek, known finding PQ1); the predicate on implementation traces uses the proved bound '
        'with delta = largest len/w of a chunk actually popped from a stale selection (0 in atomic traces)',
        'not proved: a pop-count starvation bound for WFQ (only checked on traces, clause STARV); float64 rounding',
    ]},
    'C12': {'jobs': [dict(CODEC, pviol_prefix=['C12-'])], 'assumptions': []},
    'C13': {'jobs': [dict(CODEC, pviol_prefix=['C13-']), HSD, E2E_HS, E2E_T], 'assumptions': [
        'the CRC is uninterpreted in the theorems; the driver recomputes every checksum with its own bitwise CRC32c, '
        'which the harness compares with hash/crc32 on random strings']},
    'C03': {'jobs': [dict(CODEC, pviol_prefix=['C03-']), ASND, ARCV, E2E_PR, HSD], 'assumptions': [
        'decoder part (Props/C03dec.lean) and receive half (Props/C03recv.lean): panics are the explicit panic outcomes of the L0 models; '
        'the harnesses run every decode / every inbound packet under recover()']},
}
