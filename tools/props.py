"""Per-property configuration of ./check: which harness jobs tie the property's models to the code.
job keys: test (Go test function), comp (first token of its log lines), env, quick/thorough (env overrides),
seeds {tier: number of seeds}."""

RQ = {'test': 'TestVerifRQ', 'comp': 'rq', 'quick': {'VERIF_N': 150, 'VERIF_OPS': 150},
      'thorough': {'VERIF_N': 1500, 'VERIF_OPS': 300}, 'seeds': {'quick': 1, 'thorough': 8}}
GENF = {'test': 'TestVerifGenFuncs', 'comp': 'gen', 'quick': {'VERIF_N': 1500},
        'thorough': {'VERIF_N': 200000, 'VERIF_SNA16_ALL': 1}, 'seeds': {'quick': 1, 'thorough': 2}}
PEND = {'test': 'TestVerifPendQ', 'comp': 'pend', 'quick': {'VERIF_N': 150, 'VERIF_OPS': 150},
        'thorough': {'VERIF_N': 1500, 'VERIF_OPS': 300}, 'seeds': {'quick': 1, 'thorough': 8}}
# queue.go (generic ring buffer under payloadQueue): model RingQ + FIFO-list predicate. Not a C17 matter; attach this
# job to the properties served by the in-flight queue (C10/C15/C03) when their entries are added.
RINGQ = {'test': 'TestVerifRingQ', 'comp': 'ringq', 'quick': {'VERIF_N': 100, 'VERIF_OPS': 300},
         'thorough': {'VERIF_N': 1000, 'VERIF_OPS': 600}, 'seeds': {'quick': 1, 'thorough': 4}}

PROPS = {
    'C05': {'jobs': [RQ], 'assumptions': []},
    'C16': {'jobs': [GENF, RQ], 'assumptions': []},
    'C17': {'jobs': [PEND], 'assumptions': [
        'scheduler half only (pending_queue.go, scheduler factories); the negotiation half (chunk kinds, wrong-kind ABORT) is tied elsewhere',
        'WFQ theorems are over exact rationals; the Go code uses float64 (identical for power-of-two weights; X compares the Float instance bit for bit)',
        'a chunk pointer is never queued twice (fresh chunk per fragment), so chunkFinish[ptr] is modelled as a tag stored with the queue entry',
        'WFQ bound: statement = L_i/w_i + L_j/w_j; proved = that bound when no push falls between a peek and the pop of the chunk it selected '
        '(C17_wfq_fair_atomic_partial), and L_i/w_i + L_j/w_j + max_k L_k/w_k for every operation list (C17_wfq_fair_partial); the extra term is '
        'needed (C17_wfq_stated_bound_fails_with_stale_peek, known finding PQ1); the predicate on implementation traces uses the proved bound '
        'with delta = largest len/w of a chunk actually popped from a stale selection (0 in atomic traces)',
        'not proved: a pop-count starvation bound for WFQ (only checked on traces, clause STARV); float64 rounding',
    ]},
}
