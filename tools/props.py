"""Per-property configuration of ./check: which harness jobs tie the property's models to the code.
job keys: test (Go test function), comp (first token of its log lines), mode (scenario jobs: 3rd token of the
`new` line), scenario (replay = the `new` line only), env, quick/thorough (env overrides), seeds {tier: n}."""

RQ = {'test': 'TestVerifRQ', 'comp': 'rq', 'quick': {'VERIF_N': 150, 'VERIF_OPS': 150},
      'thorough': {'VERIF_N': 1500, 'VERIF_OPS': 300}, 'seeds': {'quick': 1, 'thorough': 8}}
GENF = {'test': 'TestVerifGenFuncs', 'comp': 'gen', 'quick': {'VERIF_N': 1500},
        'thorough': {'VERIF_N': 200000, 'VERIF_SNA16_ALL': 1}, 'seeds': {'quick': 1, 'thorough': 2}}
RTO = {'test': 'TestVerifRto', 'comp': 'rto', 'quick': {'VERIF_N': 120, 'VERIF_OPS': 60},
       'thorough': {'VERIF_N': 3000, 'VERIF_OPS': 80}, 'seeds': {'quick': 1, 'thorough': 4}, 'corpus_glob': 'rto_*.ops'}
TIMER = {'test': 'TestVerifTimer', 'comp': 'timer', 'quick': {'VERIF_N': 200, 'VERIF_OPS': 24},
         'thorough': {'VERIF_N': 4000, 'VERIF_OPS': 40}, 'seeds': {'quick': 1, 'thorough': 4}, 'corpus_glob': 'timer_*.ops'}


ASND = {'test': 'TestVerifAssocSender', 'comp': 'as', 'pairs': True, 'quick': {'VERIF_N': 150, 'VERIF_OPS': 200},
        'thorough': {'VERIF_N': 600, 'VERIF_OPS': 300}, 'seeds': {'quick': 1, 'thorough': 8}}

# RACK / PTO / TLR scenario generator on the same direct-drive harness (go/harness/rack_test.go): every `as` op is followed by a
# white-box `as rk` snapshot that Driver/Rack.lean compares with Model/Rack.lean (also on the lines of ASND)
ARACK = {'test': 'TestVerifAssocRack', 'comp': 'as', 'pairs': True, 'quick': {'VERIF_N': 100, 'VERIF_OPS': 160},
         'thorough': {'VERIF_N': 400, 'VERIF_OPS': 260}, 'seeds': {'quick': 1, 'thorough': 8}, 'corpus_glob': 'rack_*.ops'}


HSD = {'test': 'TestVerifHandshake', 'comp': 'hs', 'quick': {'VERIF_N': 96},
       'thorough': {'VERIF_N': 960}, 'seeds': {'quick': 1, 'thorough': 8}}


def e2e(mode, test, nq=300, nt=1500):
    return {'test': test, 'comp': 'e2e', 'mode': mode, 'scenario': True, 'quick': {'VERIF_N': nq},
            'thorough': {'VERIF_N': nt}, 'seeds': {'quick': 1, 'thorough': 8}}


E2E_T = e2e('transfer', 'TestVerifE2ETransfer')
E2E_PR = e2e('pr', 'TestVerifE2EPR')
E2E_SD = e2e('shutdown', 'TestVerifE2EShutdown')
E2E_HS = e2e('handshake', 'TestVerifE2EHandshake', nq=384, nt=3000)
E2E_RS = e2e('reset', 'TestVerifE2EReset')
E2E_API = e2e('api', 'TestVerifE2EAPI')
E2E_TD = e2e('teardown', 'TestVerifE2ETeardown', nq=400, nt=2000)

E2E_RULE = ('one case = one seeded scenario (options x initial TSNs x streams/policies x message sizes x per-packet fault schedule x heal time) run on a real '
            'association pair under testing/synctest virtual time; distinct by SHA-1 of its full API+wire log; non-trivial = at least 3 distinct event kinds and 5 events')

PEND = {'test': 'TestVerifPendQ', 'comp': 'pend', 'quick': {'VERIF_N': 150, 'VERIF_OPS': 150},
        'thorough': {'VERIF_N': 1500, 'VERIF_OPS': 300}, 'seeds': {'quick': 1, 'thorough': 8}}
# queue.go (generic ring buffer under payloadQueue): model RingQ + FIFO-list predicate. Not a C17 matter; attach this
# job to the properties served by the in-flight queue (C10/C15/C03) when their entries are added.
RINGQ = {'test': 'TestVerifRingQ', 'comp': 'ringq', 'quick': {'VERIF_N': 100, 'VERIF_OPS': 300},
         'thorough': {'VERIF_N': 1000, 'VERIF_OPS': 600}, 'seeds': {'quick': 1, 'thorough': 4}}

REASM = {'test': 'TestVerifReasm', 'comp': 'reasm', 'quick': {'VERIF_N': 300, 'VERIF_OPS': 300},
         'thorough': {'VERIF_N': 3000, 'VERIF_OPS': 400}, 'seeds': {'quick': 1, 'thorough': 8}}

# wire codec: packet.marshal / packet.unmarshal through the chunk interface; its predicate messages are
# tagged C12-/C13-/C03- and each property looks at its own
CODEC = {'test': 'TestVerifCodec', 'comp': 'codec', 'quick': {'VERIF_N': 1500}, 'thorough': {'VERIF_N': 25000},
         'seeds': {'quick': 1, 'thorough': 4}}

PROPS = {
    'C05': {'jobs': [RQ]},
    'C16': {'jobs': [GENF, RQ, ASND, ARACK]},
    'C01': {'jobs': [REASM, ASND, E2E_T], 'assumptions': [
        'sender half (Props/C01wire.lean): payload BYTES are not in the sender model (lengths and fragment identity only); that a chunk carries the matching slice of the written buffer is observed by the e2e content hashes',
        'component theorem: the association hands each TSN to the stream at most once (C05) and chunks are the sender\'s fragments',
        'fewer than 2^15 ordered messages of a stream outstanding (SSN half-space; known finding D15); fewer than 2^31 TSNs/MIDs outstanding']},
    'C11': {'jobs': [REASM], 'assumptions': [
        'sum of len(userData) over all chunks ever pushed < 2^63 (uint64 counter / int conversion in subtractNumBytes)']},
    'C02': {'jobs': [E2E_T, ARACK], 'rule': E2E_RULE, 'assumptions': [
        'theorems (Props/C02rack.lean) are about the loss-recovery COMPONENT Model/Rack.lean (RACK, RACK timer, PTO, TLR gate), not about end-to-end liveness; the system-level claim stays with the e2e predicate',
        'Model/Rack.lean is hand-written control flow over translator-generated conditions and formulas (go/extract/exprs.go, block RACK / PTO / TLR); tied by comparing a white-box snapshot of the real Association with the model after EVERY op of the direct-drive harness (rk lines)',
        'environment of the component (quantified over in the theorems, computed from the sender model / RTO model in the driver): SRTT readings, inFastRecovery, t3RTX.isRunning() (taken from the log), pending-queue size, which chunks a gather (re)transmits and abandons; the clock is taken from the log',
        'reachable-state theorems (C02_rack_invariant, C02_rack_timer_inert) assume RunOK: a new chunk gets a TSN that is not in flight, only in-flight chunks are retransmitted, a valid SRTT reading is not negative (proved for the generated conversion over Rat)',
        'time.Time is modelled as Int nanoseconds with the zero Time = 0 and every real reading > 0; float64 SRTT enters through the generated conversion sites (Rat in theorems, Float in the driver)',
    ]},
    'C06': {'jobs': [E2E_PR, E2E_T, E2E_API, REASM, ASND, ARACK], 'rule': E2E_RULE, 'assumptions': [
        'theorems (Props/C06rack.lean) cover ONE clause only: no loss-recovery path (RACK on SACK, RACK timer, PTO, T3 mark-all) flags an acknowledged or abandoned chunk for retransmission, on Model/Rack.lean (tied by the rk snapshots of the direct-drive harness); integrity / at-most-once / policy bounds remain e2e + Reasm + PolicySpec',
    ]},
    'C07': {'jobs': [E2E_PR], 'rule': E2E_RULE},
    'C08': {'jobs': [E2E_SD], 'rule': E2E_RULE},
    'C04': {'jobs': [HSD, E2E_HS, E2E_T], 'assumptions': [
        'theorems are about the L0 model Hs (two endpoints + packet histories); the model is replayed line by line against two real associations driven by a packet shuffler (TestVerifHandshake)',
        'the blocking behaviour of Client/Server calls, T1 retry budget and connect failure are covered by the e2e handshake scenarios and by C19 theorems, not by the Hs model',
        'verification tags and ports are not part of the model (the implementation does not check inbound verification tags)']},
    'C14': {'jobs': [E2E_RS], 'rule': E2E_RULE},
    'C10': {'jobs': [ASND, ARACK, E2E_T], 'assumptions': [
        'TLR burst budget (Props/C10tlr.lean): theorems about tlrAllowSendLocked as generated (Model/Rack.lean), proved equal to the gate the sender model is replayed with; the budget/active oracle values of every gather are now CHECKED against Rack.tlrBudgetScaled, the RACK/PTO marks against the RACK model (rk lines); the bound is per gather - the code has no per-RTT accounting',
        'L0 model Model/Sender.lean is hand-written; its window tests / updates / congestion formulas / chunk sizes are translator-generated Gen.* defs; the rest is tied by comparing every op of the direct-drive harness',
        'oracles (quantified over in the theorems, recorded from the real code in the harness): TLR burst budget, pending-queue selection, RACK/PTO loss marks, T3 expiries during a clock tick',
        'window theorems assume no uint32 wrap (ghost flag wrapWin: < 2^32 bytes in flight, cwnd + increment < 2^32) and MTU < 2^30',
        '"cut on loss" is formalised as the RFC 4960 7.2.3 formula at T3 expiry and at entry to fast recovery; RACK/PTO marks do not change cwnd in this implementation',
        'blockWrite, SHUTDOWN cumulative ack, RTT/RACK bookkeeping, timers and goroutines are outside the sender model',
    ]},
    'C15': {'jobs': [ASND, E2E_T, E2E_PR, E2E_API], 'assumptions': [
        'same model, oracles and ties as C10',
        'per-stream theorems carry the D9 hypothesis (a stream stays in the association table while it has data outstanding) and assume no uint64 wrap of bufferedAmount (ghost flag wrapBuf)',
        'callback-unlocked is decided on translator-extracted control-flow paths of onBufferReleased and the statements around its call site (syntactic), plus a dynamic TryLock probe in the harness',
    ]},
    'C18': {'jobs': [E2E_API, E2E_SD], 'rule': E2E_RULE},
    'C09': {'jobs': [E2E_TD, E2E_SD, E2E_HS], 'rule': E2E_RULE},
    'C19': {'jobs': [RTO, TIMER], 'assumptions': [
        'float64 arithmetic of rtoManager / calculateNextTimeout is proved over Rat; the Float instance is compared with the Go code bit for bit on sampled sequences',
        'timer automaton theorems assume fewer than 255 fired callbacks wait for the timer mutex at once (pending is a uint8; witness C19_pending_wrap_witness, known finding K19-pending-uint8)',
        'timeout() is modelled as atomic including the observer call; in Go the observer runs just after the timer mutex is released (with a zero interval consecutive reports can overtake each other)',
        'Go runtime timer semantics (Reset/Stop/AfterFunc) are the hand-written environment GoTimer; sampled under testing/synctest, callbacks delayed only through the harness gate',
        'retry-budget, Karn and start-uses-manager-RTO are syntactic facts about call sites (argument / guard text), not data-flow',
        'association level (SACK immediacy, 200 ms bound per DATA packet, heartbeat round trip) is not part of this check yet',
    ]},
    'C17': {'jobs': [PEND, HSD, E2E_HS, E2E_T], 'assumptions': [
        'scheduler half only (pending_queue.go, scheduler factories); the negotiation half (chunk kinds, wrong-kind ABORT) is tied elsewhere',
        'WFQ theorems are over exact rationals; the Go code uses float64 (identical for power-of-two weights; X compares the Float instance bit for bit)',
        'a chunk pointer is never queued twice (fresh chunk per fragment), so chunkFinish[ptr] is modelled as a tag stored with the queue entry',
        'WFQ bound: statement = L_i/w_i + L_j/w_j; proved = that bound when no push falls between a peek and the pop of the chunk it selected '
        '(C17_wfq_fair_atomic_partial), and L_i/w_i + L_j/w_j + max_k L_k/w_k for every operation list (C17_wfq_fair_partial); the extra term is '
        'needed (C17_wfq_stated_bound_fails_with_stale_peek, known finding PQ1); the predicate on implementation traces uses the proved bound '
        'with delta = largest len/w of a chunk actually popped from a stale selection (0 in atomic traces)',
        'not proved: a pop-count starvation bound for WFQ (only checked on traces, clause STARV); float64 rounding',
    ]},
    'C12': {'jobs': [dict(CODEC, pviol_prefix=['C12-'])], 'assumptions': []},
    'C13': {'jobs': [dict(CODEC, pviol_prefix=['C13-']), HSD, E2E_HS, E2E_T], 'assumptions': [
        'the CRC is uninterpreted in the theorems; the driver recomputes every checksum with its own bitwise CRC32c, '
        'which the harness compares with hash/crc32 on random strings']},
    'C03': {'jobs': [dict(CODEC, pviol_prefix=['C03-']), ASND, E2E_PR], 'assumptions': [
        'decoder part only (Props/C03dec.lean): panics are the explicit panic outcomes of the L0 model; '
        'the harness runs every decode under recover() and a time box']},
}
