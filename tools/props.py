"""Per-property configuration of ./check: which harness jobs tie the property's models to the code.
job keys: test (Go test function), comp (first token of its log lines), env, quick/thorough (env overrides),
seeds {tier: number of seeds}."""

RQ = {'test': 'TestVerifRQ', 'comp': 'rq', 'quick': {'VERIF_N': 150, 'VERIF_OPS': 150},
      'thorough': {'VERIF_N': 1500, 'VERIF_OPS': 300}, 'seeds': {'quick': 1, 'thorough': 8}}
GENF = {'test': 'TestVerifGenFuncs', 'comp': 'gen', 'quick': {'VERIF_N': 1500},
        'thorough': {'VERIF_N': 200000, 'VERIF_SNA16_ALL': 1}, 'seeds': {'quick': 1, 'thorough': 2}}
REASM = {'test': 'TestVerifReasm', 'comp': 'reasm', 'quick': {'VERIF_N': 300, 'VERIF_OPS': 300},
         'thorough': {'VERIF_N': 3000, 'VERIF_OPS': 400}, 'seeds': {'quick': 1, 'thorough': 8}}

PROPS = {
    'C05': {'jobs': [RQ], 'assumptions': []},
    'C16': {'jobs': [GENF, RQ], 'assumptions': []},
    'C11': {'jobs': [REASM], 'assumptions': [
        'sum of len(userData) over all chunks ever pushed < 2^63 (uint64 counter / int conversion in subtractNumBytes)']},
    'C01': {'jobs': [REASM], 'assumptions': [
        'component level: the association hands each TSN to the stream at most once (C05) and chunks are the sender\'s fragments',
        'fewer than 2^15 ordered messages of a stream outstanding (SSN half-space); fewer than 2^31 TSNs/MIDs outstanding']},
    'C06': {'jobs': [REASM], 'assumptions': []},
}
