"""Per-property configuration of ./check: which harness jobs tie the property's models to the code.
job keys: test (Go test function), comp (first token of its log lines), env, quick/thorough (env overrides),
seeds {tier: number of seeds}."""

RQ = {'test': 'TestVerifRQ', 'comp': 'rq', 'quick': {'VERIF_N': 150, 'VERIF_OPS': 150},
      'thorough': {'VERIF_N': 1500, 'VERIF_OPS': 300}, 'seeds': {'quick': 1, 'thorough': 8}}
GENF = {'test': 'TestVerifGenFuncs', 'comp': 'gen', 'quick': {'VERIF_N': 1500},
        'thorough': {'VERIF_N': 200000, 'VERIF_SNA16_ALL': 1}, 'seeds': {'quick': 1, 'thorough': 2}}

# wire codec: packet.marshal / packet.unmarshal through the chunk interface; its predicate messages are
# tagged C12-/C13-/C03- and each property looks at its own
CODEC = {'test': 'TestVerifCodec', 'comp': 'codec', 'quick': {'VERIF_N': 1500}, 'thorough': {'VERIF_N': 25000},
         'seeds': {'quick': 1, 'thorough': 4}}

PROPS = {
    'C05': {'jobs': [RQ], 'assumptions': []},
    'C16': {'jobs': [GENF, RQ], 'assumptions': []},
    'C12': {'jobs': [dict(CODEC, pviol_prefix=['C12-'])], 'assumptions': []},
    'C13': {'jobs': [dict(CODEC, pviol_prefix=['C13-'])], 'assumptions': [
        'the CRC is uninterpreted in the theorems; the driver recomputes every checksum with its own bitwise CRC32c, '
        'which the harness compares with hash/crc32 on random strings']},
    'C03': {'jobs': [dict(CODEC, pviol_prefix=['C03-'])], 'assumptions': [
        'decoder part only (Props/C03dec.lean): panics are the explicit panic outcomes of the L0 model; '
        'the harness runs every decode under recover() and a time box']},
}
