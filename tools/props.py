"""Per-property configuration of ./check: which harness jobs tie the property's models to the code.
job keys: test (Go test function), comp (first token of its log lines), env, quick/thorough (env overrides),
seeds {tier: number of seeds}."""

RQ = {'test': 'TestVerifRQ', 'comp': 'rq', 'quick': {'VERIF_N': 150, 'VERIF_OPS': 150},
      'thorough': {'VERIF_N': 1500, 'VERIF_OPS': 300}, 'seeds': {'quick': 1, 'thorough': 8}}
GENF = {'test': 'TestVerifGenFuncs', 'comp': 'gen', 'quick': {'VERIF_N': 1500},
        'thorough': {'VERIF_N': 200000, 'VERIF_SNA16_ALL': 1}, 'seeds': {'quick': 1, 'thorough': 2}}
PEND = {'test': 'TestVerifPendQ', 'comp': 'pend', 'quick': {'VERIF_N': 150, 'VERIF_OPS': 150},
        'thorough': {'VERIF_N': 1500, 'VERIF_OPS': 300}, 'seeds': {'quick': 1, 'thorough': 8}}

PROPS = {
    'C05': {'jobs': [RQ], 'assumptions': []},
    'C16': {'jobs': [GENF, RQ], 'assumptions': []},
    'C17': {'jobs': [PEND], 'assumptions': [
        'scheduler half only (pending_queue.go, scheduler factories); the negotiation half (chunk kinds, wrong-kind ABORT) is tied elsewhere',
        'WFQ theorems are over exact rationals; the Go code uses float64 (identical for power-of-two weights; X compares the Float instance bit for bit)',
        'a chunk pointer is never queued twice (fresh chunk per fragment), so chunkFinish[ptr] is modelled as a tag stored with the queue entry',
    ]},
}
