"""Per-property configuration of ./check: which harness jobs tie the property's models to the code.
job keys: test (Go test function), comp (first token of its log lines), env, quick/thorough (env overrides),
seeds {tier: number of seeds}."""

RQ = {'test': 'TestVerifRQ', 'comp': 'rq', 'quick': {'VERIF_N': 150, 'VERIF_OPS': 150},
      'thorough': {'VERIF_N': 1500, 'VERIF_OPS': 300}, 'seeds': {'quick': 1, 'thorough': 8}}
GENF = {'test': 'TestVerifGenFuncs', 'comp': 'gen', 'quick': {'VERIF_N': 1500},
        'thorough': {'VERIF_N': 200000, 'VERIF_SNA16_ALL': 1}, 'seeds': {'quick': 1, 'thorough': 2}}
RTO = {'test': 'TestVerifRto', 'comp': 'rto', 'quick': {'VERIF_N': 120, 'VERIF_OPS': 60},
       'thorough': {'VERIF_N': 3000, 'VERIF_OPS': 80}, 'seeds': {'quick': 1, 'thorough': 4}, 'corpus_glob': 'rto_*.ops'}
TIMER = {'test': 'TestVerifTimer', 'comp': 'timer', 'quick': {'VERIF_N': 200, 'VERIF_OPS': 24},
         'thorough': {'VERIF_N': 4000, 'VERIF_OPS': 40}, 'seeds': {'quick': 1, 'thorough': 4}, 'corpus_glob': 'timer_*.ops'}

PROPS = {
    'C05': {'jobs': [RQ], 'assumptions': []},
    'C16': {'jobs': [GENF, RQ], 'assumptions': []},
    'C19': {'jobs': [RTO, TIMER], 'assumptions': [
        'float64 arithmetic of rtoManager / calculateNextTimeout is proved over Rat; the Float instance is compared with the Go code bit for bit on sampled sequences',
        'timer automaton theorems assume fewer than 255 fired callbacks wait for the timer mutex at once (pending is a uint8; witness C19_pending_wrap_witness, known finding K19-pending-uint8)',
        'timeout() is modelled as atomic including the observer call; in Go the observer runs just after the timer mutex is released (with a zero interval consecutive reports can overtake each other)',
        'Go runtime timer semantics (Reset/Stop/AfterFunc) are the hand-written environment GoTimer; sampled under testing/synctest, callbacks delayed only through the harness gate',
        'retry-budget, Karn and start-uses-manager-RTO are syntactic facts about call sites (argument / guard text), not data-flow',
        'association level (SACK immediacy, 200 ms bound per DATA packet, heartbeat round trip) is not part of this check yet',
    ]},
}
