"""Source of MANIFEST.json (run tools/mkmanifest.py after editing)."""
NOTE_COMMON = ('Trusted: Lean kernel; axioms propext/Classical.choice/Quot.sound only; translator T; harness X and its generators; '
               'L0 models are hand-written and tied to the code by differential runs (bounded by generator quality), not verified.')

CLAIMS_LATER = {
    'C05': {
        'text': 'Lean theorems over the L0 model of receivePayloadQueue (all op lists, all 2^32 cumulative points, every bitmap size the code can build) '
                'plus differential correspondence of that model with the Go struct and the ghost-history predicate S1-S4 evaluated on the implementation outputs.',
        'note': NOTE_COMMON,
        'technique': 'Lean 4 proof (invariant + induction over op lists) + model/implementation differential replay',
    },
}
CLAIMS = {
    'C16': {
        'text': 'Serial-number algebra proved in Lean on definitions regenerated from util.go on every run (both widths, all values); '
                'translator validated against the Go functions on boundary and random inputs; component shift-invariance by theorem on the L0 models.',
        'note': NOTE_COMMON,
        'technique': 'Lean 4 proof (bv_omega over BitVec) on translator-generated defs + differential replay',
    },
    'C17': {
        'text': 'Scheduler half proved, negotiation half not claimed here. Lean theorems over the L0 model of pending_queue.go (all three policies, '
                'the pendingQueue wrapper, the scheduler factories; every operation list): per-(stream, class) FIFO under every policy and across '
                'mode switches, fragments of a message adjacent without interleaving, policy switched only when empty, exact nBytes/nChunks, '
                'round-robin rounds and (d+1)*N starvation bound, WFQ tag invariants and least-(tag, stream id) service. WFQ fairness: the '
                "statement's bound L_i/w_i + L_j/w_j is proved when no push falls between a peek and the pop of the chunk it selected; for ALL "
                'operation lists the proved (and tight) bound is L_i/w_i + L_j/w_j + max_k L_k/w_k, and a kernel-checked witness shows the statement\'s '
                'bound is exceeded with a stale peek (replayed on the Go code from corpus/C17/known). Model tied to the code by differential replay '
                '(TestVerifPendQ, Float instance compared bit for bit) and executable predicates on the implementation\'s own pop sequence. '
                'The negotiation half (I-DATA/I-FORWARD-TSN exactly when both sides enabled it, wrong kind => protocol-violation ABORT) is tied elsewhere / pending.',
        'note': NOTE_COMMON + ' WFQ theorems are over exact rationals (float64 rounding not modelled in the theorems; identical for power-of-two weights).',
        'technique': 'Lean 4 proof (invariants + potential functions, induction over op lists) + model/implementation differential replay',
    },
}

_PENDING = 'check not built yet in this round (planned, see DESIGN.md §5/§8); not claimed until its theorems and correspondence run'
NOT_APPLICABLE = {p: _PENDING for p in ['C05', 'C01', 'C02', 'C03', 'C04', 'C06', 'C07', 'C08', 'C09', 'C10', 'C11', 'C12', 'C13', 'C14', 'C15', 'C18', 'C19', 'C20']}

NOTES = 'Family of technique: machine-checked proof in Lean 4. See DESIGN.md. Known findings: known_findings.jsonl.'
