"""Source of MANIFEST.json (run tools/mkmanifest.py after editing)."""
NOTE_COMMON = ('Trusted: Lean kernel; axioms propext/Classical.choice/Quot.sound only; translator T; harness X and its generators; '
               'L0 models are hand-written and tied to the code by differential runs (bounded by generator quality), not verified.')

CLAIMS_LATER = {
}
CLAIMS = {
    'C05': {
        'text': 'Lean theorems over the L0 model of receivePayloadQueue (all op lists, all 2^32 cumulative points, every bitmap size the code can build) '
                'plus differential correspondence of that model with the Go struct and the ghost-history predicate S1-S4 evaluated on the implementation outputs.',
        'note': NOTE_COMMON,
        'technique': 'Lean 4 proof (invariant + induction over op lists) + model/implementation differential replay',
    },
    'C16': {
        'text': 'Serial-number algebra proved in Lean on definitions regenerated from util.go on every run (both widths, all values); '
                'translator validated against the Go functions on boundary and random inputs; component shift-invariance by theorem on the L0 models.',
        'note': NOTE_COMMON,
        'technique': 'Lean 4 proof (bv_omega over BitVec) on translator-generated defs + differential replay',
    },
}

_PENDING = 'check not built yet in this round (planned, see DESIGN.md §5/§8); not claimed until its theorems and correspondence run'
NOT_APPLICABLE = {p: _PENDING for p in ['C01', 'C02', 'C03', 'C04', 'C06', 'C07', 'C08', 'C09', 'C10', 'C11', 'C12', 'C13', 'C14', 'C15', 'C17', 'C18', 'C19', 'C20']}

NOTES = 'Family of technique: machine-checked proof in Lean 4. See DESIGN.md. Known findings: known_findings.jsonl.'
