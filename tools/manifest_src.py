"""Source of MANIFEST.json (run tools/mkmanifest.py after editing)."""
NOTE_COMMON = ('Trusted: Lean kernel; axioms propext/Classical.choice/Quot.sound only; translator T; harness X and its generators; '
               'L0 models are hand-written and tied to the code by differential runs (bounded by generator quality), not verified.')

CLAIMS = {
    'C05': {
        'text': 'Lean theorems over the L0 model of receivePayloadQueue (all op lists, all 2^32 cumulative points, every bitmap size the code can build) '
                'plus differential correspondence of that model with the Go struct and the ghost-history predicate S1-S4 evaluated on the implementation outputs.',
        'note': NOTE_COMMON,
        'technique': 'Lean 4 proof (invariant + induction over op lists) + model/implementation differential replay',
    },
    'C16': {
        'text': 'Serial-number algebra proved in Lean on definitions regenerated from util.go on every run (both widths, all values); '
                'translator validated against the Go functions on boundary and random inputs; component shift-invariance by theorem on the L0 models. '
                'Loss recovery (Props/C16rack.lean): every function of the RACK / RACK-timer / PTO / TLR model (Model/Rack.lean) and every run commutes with adding a '
                'constant to all TSNs of state and inputs, marked TSNs shift along; the initial state shifts with the initial TSN (the RACK high-watermark starts at '
                'tsn-1: defect D20, fixed). The same is observed on the implementation: every direct-drive sequence runs as a shift pair and the white-box RACK/PTO/TLR '
                'snapshots (TSNs relative to the initial TSN) must be identical line by line.',
        'note': NOTE_COMMON,
        'technique': 'Lean 4 proof (bv_omega over BitVec) on translator-generated defs + differential replay',
    },
    'C19': {
        'text': 'Timer laws at component level. Proved in Lean: RTO clamp [RTO.Min, configured max] for every sample/reset sequence and the '
                'doubling/capping of the back-off, both on arithmetic regenerated from rtx_timer.go by the translator (over Rat); the rtxTimer and '
                'ackTimer automata with the Go runtime timer as environment (Stop may lose the race, callbacks run in any order): pending-counter '
                'invariant, stale expiries absorbed, nothing reaches the observer after stop/close, nRtos counts real expiries, failure exactly on '
                'expiry maxRetrans+1 and never with maxRetrans=0, ack timer one shot at start+200 ms and not pushed back by a restart. Decided on '
                'translator facts: T1-init/T1-cookie get maxInitRetrans=8, T2/T3/reconfig get 0; both data-path setNewRTT calls are guarded by '
                'nSent == 1; every rtxTimer.start passes rtoMgr.getRTO(). Correspondence: rtoManager bit for bit on float64 sample sequences; real '
                'rtxTimer/ackTimer under testing/synctest with scripted start/stop/close/sleep and held-back callbacks, callbacks compared with '
                'virtual timestamps; property predicates evaluated on the implementation outputs. '
                'NOT covered here (pending, association level): SACK sent at once on gap/duplicate and within 200 ms of every DATA packet '
                '(only the ack-timer law it rests on: C19_ack_delay_bound_partial), and the heartbeat echo / round-trip sample (DESIGN D1, D2, D11 live there).',
        'note': NOTE_COMMON + ' float64 rounding is outside the theorems (Rat). Timer theorems assume fewer than 255 fired callbacks wait for the timer mutex at once '
                '(pending is a uint8). timeout() is modelled as atomic including the observer call (in Go the observer runs just after the mutex is released). '
                'Karn and retry-budget site facts are syntactic (guard text / argument text at the call sites).',
        'technique': 'Lean 4 proof (invariants + induction over op lists; linear arithmetic over Rat) on translator-generated defs and facts + differential replay under virtual time',
    },
    'C17': {
        'text': 'Scheduler half proved, negotiation half not claimed here. Lean theorems over the L0 model of pending_queue.go (all three policies, '
                'the pendingQueue wrapper, the scheduler factories; every operation list): per-(stream, class) FIFO under every policy and across '
                'mode switches, fragments of a message adjacent without interleaving, policy switched only when empty, exact nBytes/nChunks, '
                'round-robin rounds and (d+1)*N starvation bound, WFQ tag invariants and least-(tag, stream id) service. WFQ fairness: the '
                "statement's bound L_i/w_i + L_j/w_j is proved when no push falls between a peek and the pop of the chunk it selected; for ALL "
                'operation lists the proved (and tight) bound is L_i/w_i + L_j/w_j + max_k L_k/w_k, and a kernel-checked witness shows the statement\'s '
                'bound is exceeded with a stale peek (replayed on the Go code from corpus/C17/known). Model tied to the code by differential replay '
                '(TestVerifPendQ, Float instance compared bit for bit) and executable predicates on the implementation\'s own pop sequence. '
                'The negotiation half (I-DATA/I-FORWARD-TSN exactly when both sides enabled it, wrong kind => protocol-violation ABORT) is tied elsewhere / pending.',
        'note': NOTE_COMMON + ' WFQ theorems are over exact rationals (float64 rounding not modelled in the theorems; identical for power-of-two weights).',
        'technique': 'Lean 4 proof (invariants + potential functions, induction over op lists) + model/implementation differential replay',
    },
    'C11': {
        'text': 'Reassembly-queue part of C11 (statement (a) and the entry limit) proved in Lean on the L0 model of reassemblyQueue for ALL operation lists '
                '(arbitrary chunks of both kinds, reads with any buffer size, the four forward handlers): nBytes = sum of len(userData) over all containers '
                '(so the clamp in subtractNumBytes is dead), the four limited entry counts stay <= maxEntries, limit errors reject without counting. '
                'The model is tied to reassembly_queue.go by differential replay (honest sender/network and hostile peer generators); the predicate '
                'getNumBytes() == white-box walk of the real containers is evaluated on the implementation after every operation. '
                'Statements (b)-(d) (a_rwnd formula over streams, window admission, zero-window rule) belong to the Receiver model and are NOT covered yet.',
        'note': NOTE_COMMON + ' Hypothesis of C11_counter_exact: fewer than 2^63 user bytes ever pushed (uint64 counter read through int()). '
                'Go sort.Slice is modelled as its insertion sort (exact for <= 12 elements or totally ordered keys); the hostile generator keeps sorted slices <= 12. '
                'orderedMIDMap is modelled as the same objects as orderedMID; the harness checks that bijection white-box on every step.',
        'technique': 'Lean 4 proof (invariant + induction over arbitrary op lists) + model/implementation differential replay + executable predicate on implementation outputs',
    },
}

E2E_NOTE = ('Evidence level is EXPLORATION until the system-level theorems (DESIGN §5, NetSys) are closed: real association pairs under testing/synctest virtual time '
            'behind a fault-injecting conn; every random choice from VERIF_SEED; the history/wire predicates are Lean definitions (Spec/History, Spec/E2ESpec, '
            'Spec/SenderSpec) evaluated by the compiled driver on the implementation logs. Goroutine interleavings are sampled, not enumerated.')


def _e2e(text):
    return {'category': 'exploration', 'text': text, 'note': E2E_NOTE, 'engine': 'synctest-e2e+lean-predicates',
            'technique': 'seeded fault-schedule exploration of real association pairs in virtual time; Lean-defined executable predicates on API+wire histories (theorems pending)'}


CLAIMS.update({
    'C02': dict(_e2e('SYSTEM LEVEL (exploration, synctest e2e): after the fault prefix ends every reliable message is read and both sides report zero buffered/pending/in-flight bytes within heal + 600 s of virtual time (blackouts > 60 s, zero-window readers, 40 % loss, reordering). '
        'COMPONENT LEVEL (supporting theorems, loss-recovery machinery only: Props/C02rack.lean on Model/Rack.lean, whose conditions and formulas are regenerated from onRackAfterSACK / onRackTimeoutLocked / '
        'onPTOTimerLocked / schedulePTOAfterSendLocked / tlr*Locked / the RTT part of processSelectiveAck on every run, and which is compared with a white-box snapshot of the real Association after '
        'every op of the direct-drive harness): RACK marks only outstanding original transmissions and only when a chunk sent more than the reordering window later was delivered '
        '(C02_rack_marks_only_outstanding, C02_rack_loss_sound, C02_rack_never_marks_newest); the window stays in [0, SRTT] (C02_reownd_bounded); the RACK timer is armed whenever the list is non-empty, '
        'with the exact deadline (C02_rack_timer_armed); send-time order of the list and "no list entry satisfies the loss test" are invariants of every admissible run (C02_rack_invariant); '
        'PTO flags the last outstanding chunk when nothing is pending (C02_pto_probe_progress_partial); the TLR gate admits the first request of every gather and opens when the episode ends (C02_tlr_not_forever). '
        'Two full-strength statements are FALSE of the code and proved false: the RACK timer callback never marks anything in any reachable state (C02_rack_timer_inert, witness '
        'C02_rack_timer_overdue_witness, replayed from corpus/C02), and a PTO that finds data pending flags nothing and is not re-armed even when the window blocks new data '
        '(C02_pto_no_probe_when_pending, replayed from corpus/C02); in both cases recovery falls back to the next SACK or T3, which is why the e2e liveness predicate still holds. '
        'NOT proved: end-to-end liveness (C02_progress / C02_drain of DESIGN §5); the claimed level therefore stays exploration, the theorems are supporting.'),
        technique='Lean 4 proof (walk lemmas, invariant + induction over all operation lists of the loss-recovery component, decide on witnesses) on translator-generated conditions + white-box model/implementation differential replay; system level: seeded fault-schedule exploration in virtual time'),
    'C06': dict(_e2e('SYSTEM LEVEL (exploration, synctest e2e + PolicySpec on the wire): unordered / partially reliable streams: reads must match distinct written messages (subsequence for ordered), DCEP always delivered in order; transmissions per chunk within the policy (known finding D14). '
        'COMPONENT LEVEL (supporting theorems, one clause: "abandoned chunks are not skipped by one of the retransmission paths"): Props/C06rack.lean on Model/Rack.lean - RACK on a SACK, the RACK timer, the PTO and T3 flag '
        'only chunks that are neither acknowledged nor abandoned and change nothing else in the chunk store (C06_rack_skips_abandoned, C06_rack_dead_chunks_untouched, C06_rack_sack_marks_outstanding, '
        'C06_t3_skips_abandoned); model tied to the code by white-box snapshots after every op, including sequences with limited-retransmission and timed streams. '
        'NOT proved: reassembly integrity for unordered delivery, at-most-once, the N+1 transmission bound (C06_* of DESIGN §5); the claimed level therefore stays exploration, the theorems are supporting.'),
        technique='Lean 4 proof (characterisation of the marking walk, case analysis of the PTO) + white-box model/implementation differential replay; system level: seeded exploration + Lean predicates'),
    'C07': _e2e('Partial-reliability scenarios: a message that was not delivered must be one the sender told the peer to skip (stream entry or cumulative point of a FORWARD-TSN / I-FORWARD-TSN); everything else is delivered.'),
    'C08': _e2e('Graceful shutdown with data still queued, one-sided and crossed, under faults: Shutdown()==nil implies all earlier writes read in order before EOF; both sides closed; late writes/OpenStream rejected and never delivered.'),
    'C09': _e2e('Close / Abort / transport read failure / write failure injected right after the k-th wire event of runs that go through handshake, transfer, stream reset and shutdown, with callers parked in Connect, Accept, Read, Write, Shutdown: everything returns, no goroutine of the package survives, no write to a closed conn, Close idempotent, ABORT cause reaches the peer.'),
    'C14': _e2e('Stream close by the writer then by the reader, re-open of the same identifier for up to 3 incarnations, several streams at once, under loss/duplication/reordering of DATA and RECONFIG: all messages then EOF per incarnation.'),
    'C18': _e2e('API-contract programs: oversize / empty / closed-stream writes, blocking writes with deadlines, short read buffers (message stays available), read deadlines expiring with no data; rejected calls are invisible in the peer read history; blocking-write gate checked white-box.'),
})

CLAIMS.update({
    'C01': {
        'text': 'SYSTEM LEVEL (exploration, synctest e2e): per stream the read history must be a prefix of, and after healing equal to, the accepted-write history over seeded workloads x fault schedules x modes x initial TSNs. COMPONENT LEVEL ONLY (reassembly queue). Proved in Lean on the L0 model of reassemblyQueue, for ordered DATA (SSN, TSN-contiguity) and ordered I-DATA (MID/FSN): '
                'for every message list (any sizes, any count, any initial TSN incl. the 2^32 wrap), fragments pushed in ANY order, each at most once, interleaved arbitrarily with reads of '
                'ANY buffer size and under any entry limit, the successful reads (PPI, bytes) form a PREFIX of the written messages; isComplete is characterised (complete iff exactly all '
                'fragments of one message). Hypothesis forced by the 16/32-bit sequence space: the pushed fragment belongs to a message fewer than 2^15 (SSN) / 2^31 (MID) ahead of the reader. '
                'The model is tied to reassembly_queue.go by differential replay; the executable predicate (every read = one written message, at most once, in order, gap-free without forwards, '
                'all returned after draining) is evaluated on the implementation outputs with generator ground truth. '
                'SENDER HALF (Props/C01wire.lean, on the L0 sender model tied by the direct-drive correspondence): for ALL runs (writes, gathers, arbitrary SACKs, T3, RACK/PTO marks, abandonment) every DATA/I-DATA chunk any gather puts on the wire is an un-acknowledged faithful copy (stream, message identity, PPI, U/B/E, SSN, MID, FSN, length) of a chunk created by an accepted write (C01_wire_faithful); an acked chunk is never flagged for retransmission (C01_acked_never_marked); a write creates exactly the fragments of one message (C01_write_fragments) and message identities are unique per write (C01_message_identity). '
                'NOT covered yet: duplicate filtering at association level (C01_dedup, C05 is the component theorem), and the composed end-to-end NetSys invariant (C01_netsys_prefix) — system level stays exploration.',
        'note': NOTE_COMMON + ' Known finding D15: nothing in the association enforces the 2^15 hypothesis for DATA (a_rwnd counts user bytes only, entry cap off by default): '
                'an application that lags 32769 small ordered messages behind loses acknowledged messages and later stalls (witness replayed on every run; e2e witness in corpus/C01).',
        'technique': 'Lean 4 proof (refinement of the queue to a table of messages, induction over arbitrary honest runs) + model/implementation differential replay + executable predicate on implementation outputs',
    },
})

CLAIMS.update({
    'C04': {
        'text': 'Proved in Lean on the L0 handshake/negotiation model Hs (mirrors initClient, handleInit, handleInitAck, handleCookieEcho, handleCookieAck, '
                'establish/updateInterleavingState, setSupportedExtensions, the zero-checksum parameter handling and the marshal/unmarshal checksum decisions): '
                'for EVERY interleaving of starts, deliveries of ANY packet ever sent (loss, duplication, reordering, arbitrary delay) and T1 expiries, and all 16 option '
                'combinations, an established endpoint uses interleaving iff both sides enabled it, the forward-TSN variant matches, and it sends zero checksums only if '
                'the peer declared them acceptable (C04_agreement, C04_same_framing); ANY handshake packet leaves an established endpoint unchanged (C04_stale_harmless, '
                'C04_established_stable); fault-free, crossed-INIT and single-loss schedules establish both sides for all option combinations. The model is tied to the code '
                'by a line-by-line differential replay against two real associations driven by a packet shuffler. SYSTEM LEVEL (exploration): synctest e2e handshake scenarios '
                '(3 role assignments incl. out-of-band tokens, faults on the first 8 packets, stale packets after establishment, silent peer -> bounded failure with '
                '1+maxInitRetrans INITs, waiting server returns on transport close).',
        'note': NOTE_COMMON + ' Liveness for arbitrary fault schedules within the retry budget is shown for representative schedules (decide) and sampled e2e, not proved for all; '
                'blocking of the constructor calls is runtime behaviour (sampled).',
        'technique': 'Lean 4 proof (inductive invariant over all op lists of a two-endpoint + packet-history model) + model/implementation differential replay + e2e scenarios',
    },
})

CLAIMS['C12'] = {
    'text': 'Lean theorems over the L0 model of the wire codec (packet/chunk/param/error-cause marshal and unmarshal, all 17 chunk types, '
            '11 parameter kinds, 5 cause kinds), CRC uninterpreted: (a) round trip dec(enc p)=p for every packet satisfying an explicit decidable '
            'well-formedness predicate; (b) locality: a chunk is decoded from its own length bytes, bundling changes nothing (no hypothesis on the '
            'chunk body); (c) re-encode stability for EVERY accepted byte string except two decoded shapes, which are known findings with witness '
            'theorems and replayed witnesses (empty HEARTBEAT-ACK; INIT whose last parameter is 4 bytes long); (d) the model\'s type dispatch equals '
            'the dispatch tables the translator reads off the Go switches; chunkHeader/BE16/BE32/padding lemmas. '
            'Model tied to the code by differential runs through packet.marshal/unmarshal (byte-for-byte, field-for-field, error class for error class) '
            'and by round-trip / stability / locality predicates evaluated on the implementation outputs. '
            'That the association only builds well-formed packets (C12_emitted_wf) is NOT part of this check.',
    'note': NOTE_COMMON,
    'technique': 'Lean 4 proof (structural induction over the encoders, shift-invariance of the decoder loops, well-formedness of decoder outputs) '
                 '+ translator-generated dispatch facts + model/implementation differential replay',
}
CLAIMS['C13'] = {
    'text': 'Packet-level decision logic only: the exact acceptance rule of packet.unmarshal and the emission rule of packet.marshal / '
            'Association.marshalPacket proved in Lean with the CRC uninterpreted; truth table re-evaluated on the implementation with an independent '
            'bitwise CRC32c (itself compared with hash/crc32). The association-level parts (send-zero only after the peer advertised the DTLS method, '
            'rejected packet leaves association state unchanged) are not covered here.',
    'note': NOTE_COMMON,
    'technique': 'Lean 4 proof (case analysis of the checksum stage) + model/implementation differential replay',
}

SENDER_NOTE = (NOTE_COMMON + ' The L0 model Model/Sender.lean is hand-written (send / acknowledgement paths of association.go, payload_queue.go, '
               'queue.go as a list, stream.go write half); its window tests, window updates, congestion formulas, chunk sizes and the two tests of '
               'onBufferReleased are NOT re-typed: they are Gen.* defs the translator regenerates from those very expressions of /repo on every run '
               '(go/extract/exprs.go), so a changed comparison or formula changes the defs the theorems are about. Tie of the remaining structure '
               '(loop shapes, order of updates): direct-drive correspondence X-assoc - one real Association driven single-threaded under testing/synctest; '
               'after EVERY op the model state (cwnd ssthresh rwnd in-flight/pending bytes and counts, cumulative point, next TSN, per-stream buffered amount and '
               'callback count) and the DATA packets of every gather (lengths, TSNs, fragments) are compared with the implementation. '
               'ORACLES (theorems quantify over all values; the harness records what the real code decided): the TLR burst budget tlrAllowSendLocked '
               '(arbitrary state machine), which pending chunk peek() returns (the pending queue is modelled elsewhere), RACK / PTO loss marks, the number of '
               'T3 expiries while the clock advances. The budget and the marks are no longer free: Model/Rack.lean computes them and Driver/Rack.lean compares '
               '(white-box rk line after every op). Not modelled in the sender model: blockWrite, SHUTDOWN cumulative ack, goroutines; RTT/RACK bookkeeping and the '
               'RACK/PTO deadlines live in Model/Rack.lean, T3 in the timer model of C19.')

CLAIMS.update({
    'C10': {
        'text': 'Lean theorems over the L0 sender model, for ALL operation lists (write / gather / SACK with arbitrary contents / T3 / clock tick / stream open+drop / '
                'leave+re-enter established), all oracle values, every configuration with MTU < 2^30: C10_admission (each chunk a gather moves to in-flight had '
                'in-flight bytes + len <= cwnd and len <= rwnd at that moment, or is the lone zero-window probe taken with an empty in-flight queue; the admitted '
                'chunks are exactly those appended to the in-flight queue), C10_rwnd_invariant (rwnd + in-flight <= max(last a_rwnd, in-flight)) and '
                'C10_rwnd_after_send (after a non-probe send in-flight <= last advertised window), C10_mtu_bound (every retransmission / new-data / fast-retransmission '
                'packet of a gather is non-empty and marshals to <= MTU, from ANY state), C10_fragment_bound (a chunk of <= maxPayloadSizeForMTU bytes fits behind the '
                'common header; packetize emits fragments of 1..maxPayloadSize bytes adding up to the message), C10_cwnd_floor (MTU <= cwnd), C10_loss_response '
                '(T3: ssthresh = max(cwnd/2, 4 MTU), cwnd = max(MTU, MinCwnd); entry to fast recovery: same ssthresh formula, cwnd = max(ssthresh, MinCwnd), once), '
                'C10_retransmit_window (T3 retransmissions of one gather carry at most min(cwnd, rwnd) user bytes, or are the single probe chunk). '
                'TLR burst budget (Props/C10tlr.lean, on tlrAllowSendLocked assembled from generated expression sites and proved equal to the gate of the sender model): per gather, '
                '4 x admitted estimated bytes <= max(budget, 4 x first admitted request) (C10_tlr_budget_bound; <= max(units/4, 1) MTUs when every request is <= MTU), burst units stay in [8,16] / [5,8] '
                'quarter-MTUs in every reachable state (C10_tlr_units_bounded), the episode ends exactly when the cumulative point reaches the highest TSN outstanding at its start (C10_tlr_finish, '
                'C10_tlr_begin_end); the budget is per gather, not per RTT phase (C10_tlr_budget_is_per_gather). The tlr/bud oracle values of every gather are checked against the model. '
                'Plus the executable predicate P_C10 on the implementation outputs after every op, and e2e transfer runs.',
        'note': SENDER_NOTE + ' "Cut" is formalised as the RFC 4960 7.2.3 formula (a literal "never larger than before" is false by design below 4 MTU). Loss signals = T3 expiry and '
                'third miss indication outside fast recovery; RACK/PTO marks do not touch cwnd in this implementation (oracle inputs). Window theorems assume the ghost flag '
                'wrapWin is down: no uint32 wrap (< 2^32 bytes in flight, cwnd + increment < 2^32).',
        'technique': 'Lean 4 proof (invariants + induction over op lists with oracle inputs; bv_omega/omega on translator-generated window and size arithmetic) + '
                     'model/implementation differential replay of a direct-driven real Association',
    },
    'C15': {
        'text': 'Lean theorems over the same model and quantification: C15_assoc_exact (pending + in-flight byte counters = user bytes held by the queued chunks, chunk counter exact, '
                'acked chunks hold no bytes - unconditional), C15_stream_exact_partial (per stream BufferedAmount = user bytes of its chunks in pending + in flight), '
                'C15_no_underflow_partial (onBufferReleased never takes its clamp branch), C15_zero_iff_idle_partial, all three under the hypothesis "a stream stays in the '
                "association's table while it has data outstanding\" forced by known deviation D9 (C15_D9_witness / C15_underflow_witness decide the failure without it; the D9 witness "
                'is replayed on the implementation every run), C15_rollback_exact (a write outside established restores buffered amount, SSN and both MID counters, queues nothing), '
                'C15_sack_atomic (in-flight TSNs stay contiguous, hence a SACK that passes the validation is applied completely: the error returns after the first queue modification are unreachable), '
                'C15_callback_crossings (callback invocations = downward crossings of the threshold in the per-operation sequence of buffered amounts; one release per stream and SACK), '
                'C15_callback_unlocked (decided on regenerated control-flow paths of onBufferReleased: Lock, crossing test, copy handler, Unlock, call; and the Unlock/Lock around its only '
                'call site). Plus the executable predicate P_C15 on the implementation outputs (the harness callback TryLocks the association and stream locks) and e2e runs.',
        'note': SENDER_NOTE + ' Per-stream theorems assume the ghost flag wrapBuf is down (no uint64 wrap of bufferedAmount). C15_callback_unlocked is syntactic (lock events per path of one '
                'function, neighbours of the call statement), the harness adds a dynamic TryLock probe; deadlock freedom in general is C20.',
        'technique': 'Lean 4 proof (accounting invariant + induction over op lists; decide on translator-extracted lock paths) + model/implementation differential replay',
    },
})

_PENDING = 'check not built yet in this round (planned, see DESIGN.md §5/§8); not claimed until its theorems and correspondence run'
NOT_APPLICABLE = {p: _PENDING for p in ['C%02d' % i for i in range(1, 21)] if p not in CLAIMS}

NOTES = 'Family of technique: machine-checked proof in Lean 4. See DESIGN.md. Known findings: known_findings.txt.'
