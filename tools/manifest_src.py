"""Source of MANIFEST.json (run tools/mkmanifest.py after editing)."""
NOTE_COMMON = ('Trusted: Lean kernel; axioms propext/Classical.choice/Quot.sound only; translator T; harness X and its generators; '
               'L0 models are hand-written and tied to the code by differential runs (bounded by generator quality), not verified.')

CLAIMS_LATER = {
    'C05': {
        'text': 'Lean theorems over the L0 model of receivePayloadQueue (all op lists, all 2^32 cumulative points, every bitmap size the code can build) '
                'plus differential correspondence of that model with the Go struct and the ghost-history predicate S1-S4 evaluated on the implementation outputs.',
        'note': NOTE_COMMON,
        'technique': 'Lean 4 proof (invariant + induction over op lists) + model/implementation differential replay',
    },
}
CLAIMS = {
    'C16': {
        'text': 'Serial-number algebra proved in Lean on definitions regenerated from util.go on every run (both widths, all values); '
                'translator validated against the Go functions on boundary and random inputs; component shift-invariance by theorem on the L0 models.',
        'note': NOTE_COMMON,
        'technique': 'Lean 4 proof (bv_omega over BitVec) on translator-generated defs + differential replay',
    },
}

CLAIMS['C12'] = {
    'text': 'Lean theorems over the L0 model of the wire codec (packet/chunk/param/error-cause marshal and unmarshal, all 17 chunk types, '
            '11 parameter kinds, 5 cause kinds), CRC uninterpreted: (a) round trip dec(enc p)=p for every packet satisfying an explicit decidable '
            'well-formedness predicate; (b) locality: a chunk is decoded from its own length bytes, bundling changes nothing (no hypothesis on the '
            'chunk body); (c) re-encode stability for EVERY accepted byte string except two decoded shapes, which are known findings with witness '
            'theorems and replayed witnesses (empty HEARTBEAT-ACK; INIT whose last parameter is 4 bytes long); (d) the model\'s type dispatch equals '
            'the dispatch tables the translator reads off the Go switches; chunkHeader/BE16/BE32/padding lemmas. '
            'Model tied to the code by differential runs through packet.marshal/unmarshal (byte-for-byte, field-for-field, error class for error class) '
            'and by round-trip / stability / locality predicates evaluated on the implementation outputs. '
            'That the association only builds well-formed packets (C12_emitted_wf) is NOT part of this check.',
    'note': NOTE_COMMON,
    'technique': 'Lean 4 proof (structural induction over the encoders, shift-invariance of the decoder loops, well-formedness of decoder outputs) '
                 '+ translator-generated dispatch facts + model/implementation differential replay',
}
CLAIMS['C13'] = {
    'text': 'Packet-level decision logic only: the exact acceptance rule of packet.unmarshal and the emission rule of packet.marshal / '
            'Association.marshalPacket proved in Lean with the CRC uninterpreted; truth table re-evaluated on the implementation with an independent '
            'bitwise CRC32c (itself compared with hash/crc32). The association-level parts (send-zero only after the peer advertised the DTLS method, '
            'rejected packet leaves association state unchanged) are not covered here.',
    'note': NOTE_COMMON,
    'technique': 'Lean 4 proof (case analysis of the checksum stage) + model/implementation differential replay',
}

_PENDING = 'check not built yet in this round (planned, see DESIGN.md §5/§8); not claimed until its theorems and correspondence run'
NOT_APPLICABLE = {p: _PENDING for p in ['C05', 'C01', 'C02', 'C03', 'C04', 'C06', 'C07', 'C08', 'C09', 'C10', 'C11', 'C14', 'C15', 'C17', 'C18', 'C19', 'C20']}

NOTES = 'Family of technique: machine-checked proof in Lean 4. See DESIGN.md. Known findings: known_findings.jsonl.'
