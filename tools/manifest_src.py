"""Source of MANIFEST.json (run tools/mkmanifest.py after editing)."""
NOTE_COMMON = ('Trusted: Lean kernel; axioms propext/Classical.choice/Quot.sound only; translator T; harness X and its generators; '
               'L0 models are hand-written and tied to the code by differential runs (bounded by generator quality), not verified.')

CLAIMS_LATER = {
    'C05': {
        'text': 'Lean theorems over the L0 model of receivePayloadQueue (all op lists, all 2^32 cumulative points, every bitmap size the code can build) '
                'plus differential correspondence of that model with the Go struct and the ghost-history predicate S1-S4 evaluated on the implementation outputs.',
        'note': NOTE_COMMON,
        'technique': 'Lean 4 proof (invariant + induction over op lists) + model/implementation differential replay',
    },
}
CLAIMS = {
    'C01': {
        'text': 'COMPONENT LEVEL ONLY (reassembly queue). Proved in Lean on the L0 model of reassemblyQueue, for ordered DATA (SSN, TSN-contiguity) and ordered I-DATA (MID/FSN): '
                'for every message list (any sizes, any count, any initial TSN incl. the 2^32 wrap), fragments pushed in ANY order, each at most once, interleaved arbitrarily with reads of '
                'ANY buffer size and under any entry limit, the successful reads (PPI, bytes) form a PREFIX of the written messages; isComplete is characterised (complete iff exactly all '
                'fragments of one message). Hypothesis forced by the 16/32-bit sequence space: the pushed fragment belongs to a message fewer than 2^15 (SSN) / 2^31 (MID) ahead of the reader. '
                'The model is tied to reassembly_queue.go by differential replay; the executable predicate (every read = one written message, at most once, in order, gap-free without forwards, '
                'all returned after draining) is evaluated on the implementation outputs with generator ground truth. '
                'NOT covered yet: packetize/TSN assignment (C01_packetize_wf, C01_tsn_assignment), duplicate filtering (C01_dedup, C05), wire content, and the end-to-end NetSys invariant (C01_netsys_prefix).',
        'note': NOTE_COMMON + ' Known finding D15: nothing in the association enforces the 2^15 hypothesis for DATA (a_rwnd counts user bytes only, entry cap off by default): '
                'an application that lags 32769 small ordered messages behind loses acknowledged messages and later stalls (witness replayed on every run; e2e witness in corpus/C01).',
        'technique': 'Lean 4 proof (refinement of the queue to a table of messages, induction over arbitrary honest runs) + model/implementation differential replay + executable predicate on implementation outputs',
    },
    'C11': {
        'text': 'Reassembly-queue part of C11 (statement (a) and the entry limit) proved in Lean on the L0 model of reassemblyQueue for ALL operation lists '
                '(arbitrary chunks of both kinds, reads with any buffer size, the four forward handlers): nBytes = sum of len(userData) over all containers '
                '(so the clamp in subtractNumBytes is dead), the four limited entry counts stay <= maxEntries, limit errors reject without counting. '
                'The model is tied to reassembly_queue.go by differential replay (honest sender/network and hostile peer generators); the predicate '
                'getNumBytes() == white-box walk of the real containers is evaluated on the implementation after every operation. '
                'Statements (b)-(d) (a_rwnd formula over streams, window admission, zero-window rule) belong to the Receiver model and are NOT covered yet.',
        'note': NOTE_COMMON + ' Hypothesis of C11_counter_exact: fewer than 2^63 user bytes ever pushed (uint64 counter read through int()). '
                'Go sort.Slice is modelled as its insertion sort (exact for <= 12 elements or totally ordered keys); the hostile generator keeps sorted slices <= 12. '
                'orderedMIDMap is modelled as the same objects as orderedMID; the harness checks that bijection white-box on every step.',
        'technique': 'Lean 4 proof (invariant + induction over arbitrary op lists) + model/implementation differential replay + executable predicate on implementation outputs',
    },
    'C16': {
        'text': 'Serial-number algebra proved in Lean on definitions regenerated from util.go on every run (both widths, all values); '
                'translator validated against the Go functions on boundary and random inputs; component shift-invariance by theorem on the L0 models.',
        'note': NOTE_COMMON,
        'technique': 'Lean 4 proof (bv_omega over BitVec) on translator-generated defs + differential replay',
    },
}

_PENDING = 'check not built yet in this round (planned, see DESIGN.md §5/§8); not claimed until its theorems and correspondence run'
NOT_APPLICABLE = {p: _PENDING for p in ['C05', 'C02', 'C03', 'C04', 'C06', 'C07', 'C08', 'C09', 'C10', 'C12', 'C13', 'C14', 'C15', 'C17', 'C18', 'C19', 'C20']}

NOTES = 'Family of technique: machine-checked proof in Lean 4. See DESIGN.md. Known findings: known_findings.jsonl.'
