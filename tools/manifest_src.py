"""Source of MANIFEST.json (run tools/mkmanifest.py after editing)."""
NOTE_COMMON = ('Trusted: Lean kernel; axioms propext/Classical.choice/Quot.sound only; translator T; harness X and its generators; '
               'L0 models are hand-written and tied to the code by differential runs (bounded by generator quality), not verified.')

CLAIMS = {
    'C05': {
        'text': 'Lean theorems over the L0 model of receivePayloadQueue (all op lists, all 2^32 cumulative points, every bitmap size the code can build) '
                'plus differential correspondence of that model with the Go struct and the ghost-history predicate S1-S4 evaluated on the implementation outputs.',
        'note': NOTE_COMMON,
        'technique': 'Lean 4 proof (invariant + induction over op lists) + model/implementation differential replay',
    },
    'C16': {
        'text': 'Serial-number algebra proved in Lean on definitions regenerated from util.go on every run (both widths, all values); '
                'translator validated against the Go functions on boundary and random inputs; component shift-invariance by theorem on the L0 models. '
                'Loss recovery (Props/C16rack.lean): every function of the RACK / RACK-timer / PTO / TLR model (Model/Rack.lean) and every run commutes with adding a '
                'constant to all TSNs of state and inputs, marked TSNs shift along; the initial state shifts with the initial TSN (the RACK high-watermark starts at '
                'tsn-1: defect D20, fixed). The same is observed on the implementation: every direct-drive sequence runs as a shift pair and the white-box RACK/PTO/TLR '
                'snapshots (TSNs relative to the initial TSN) must be identical line by line.',
        'note': NOTE_COMMON,
        'technique': 'Lean 4 proof (bv_omega over BitVec) on translator-generated defs + differential replay',
    },
    'C19': {
        'text': 'Timer laws at component level. Proved in Lean: RTO clamp [RTO.Min, configured max] for every sample/reset sequence and the '
                'doubling/capping of the back-off, both on arithmetic regenerated from rtx_timer.go by the translator (over Rat); the rtxTimer and '
                'ackTimer automata with the Go runtime timer as environment (Stop may lose the race, callbacks run in any order): pending-counter '
                'invariant, stale expiries absorbed, nothing reaches the observer after stop/close, nRtos counts real expiries, failure exactly on '
                'expiry maxRetrans+1 and never with maxRetrans=0, ack timer one shot at start+200 ms and not pushed back by a restart. Decided on '
                'translator facts: T1-init/T1-cookie get maxInitRetrans=8, T2/T3/reconfig get 0; both data-path setNewRTT calls are guarded by '
                'nSent == 1; every rtxTimer.start passes rtoMgr.getRTO(). Correspondence: rtoManager bit for bit on float64 sample sequences; real '
                'rtxTimer/ackTimer under testing/synctest with scripted start/stop/close/sleep and held-back callbacks, callbacks compared with '
                'virtual timestamps; property predicates evaluated on the implementation outputs. '
                'NOT covered here (pending, association level): SACK sent at once on gap/duplicate and within 200 ms of every DATA packet '
                '(only the ack-timer law it rests on: C19_ack_delay_bound_partial), and the heartbeat echo / round-trip sample (DESIGN D1, D2, D11 live there).',
        'note': NOTE_COMMON + ' float64 rounding is outside the theorems (Rat). Timer theorems assume fewer than 255 fired callbacks wait for the timer mutex at once '
                '(pending is a uint8). timeout() is modelled as atomic including the observer call (in Go the observer runs just after the mutex is released). '
                'Karn and retry-budget site facts are syntactic (guard text / argument text at the call sites).',
        'technique': 'Lean 4 proof (invariants + induction over op lists; linear arithmetic over Rat) on translator-generated defs and facts + differential replay under virtual time',
    },
    'C17': {
        'text': 'Scheduler half proved, negotiation half not claimed here. Lean theorems over the L0 model of pending_queue.go (all three policies, '
                'the pendingQueue wrapper, the scheduler factories; every operation list): per-(stream, class) FIFO under every policy and across '
                'mode switches, fragments of a message adjacent without interleaving, policy switched only when empty, exact nBytes/nChunks, '
                'round-robin rounds and (d+1)*N starvation bound, WFQ tag invariants and least-(tag, stream id) service. WFQ fairness: the '
                "statement's bound L_i/w_i + L_j/w_j is proved when no push falls between a peek and the pop of the chunk it selected; for ALL "
                'operation lists the proved (and tight) bound is L_i/w_i + L_j/w_j + max_k L_k/w_k, and a kernel-checked witness shows the statement\'s '
                'bound is exceeded with a stale peek (replayed on the Go code from corpus/C17/known). Model tied to the code by differential replay '
                '(TestVerifPendQ, Float instance compared bit for bit) and executable predicates on the implementation\'s own pop sequence. '
                'The negotiation half (I-DATA/I-FORWARD-TSN exactly when both sides enabled it, wrong kind => protocol-violation ABORT) is tied elsewhere / pending.',
        'note': NOTE_COMMON + ' WFQ theorems are over exact rationals (float64 rounding not modelled in the theorems; identical for power-of-two weights).',
        'technique': 'Lean 4 proof (invariants + potential functions, induction over op lists) + model/implementation differential replay',
    },
    'C11': {
        'text': 'Reassembly-queue part of C11 (statement (a) and the entry limit) proved in Lean on the L0 model of reassemblyQueue for ALL operation lists '
                '(arbitrary chunks of both kinds, reads with any buffer size, the four forward handlers): nBytes = sum of len(userData) over all containers '
                '(so the clamp in subtractNumBytes is dead), the four limited entry counts stay <= maxEntries, limit errors reject without counting. '
                'The model is tied to reassembly_queue.go by differential replay (honest sender/network and hostile peer generators); the predicate '
                'getNumBytes() == white-box walk of the real containers is evaluated on the implementation after every operation. '
                'Statements (b)-(d) (a_rwnd formula over streams, window admission, zero-window rule) belong to the Receiver model and are NOT covered yet.',
        'note': NOTE_COMMON + ' Hypothesis of C11_counter_exact: fewer than 2^63 user bytes ever pushed (uint64 counter read through int()). '
                'Go sort.Slice is modelled as its insertion sort (exact for <= 12 elements or totally ordered keys); the hostile generator keeps sorted slices <= 12. '
                'orderedMIDMap is modelled as the same objects as orderedMID; the harness checks that bijection white-box on every step.',
        'technique': 'Lean 4 proof (invariant + induction over arbitrary op lists) + model/implementation differential replay + executable predicate on implementation outputs',
    },
}

E2E_NOTE = ('Evidence level is EXPLORATION until the system-level theorems (DESIGN §5, NetSys) are closed: real association pairs under testing/synctest virtual time '
            'behind a fault-injecting conn; every random choice from VERIF_SEED; the history/wire predicates are Lean definitions (Spec/History, Spec/E2ESpec, '
            'Spec/SenderSpec) evaluated by the compiled driver on the implementation logs. Goroutine interleavings are sampled, not enumerated.')


def _e2e(text):
    return {'category': 'exploration', 'text': text, 'note': E2E_NOTE, 'engine': 'synctest-e2e+lean-predicates',
            'technique': 'seeded fault-schedule exploration of real association pairs in virtual time; Lean-defined executable predicates on API+wire histories (theorems pending)'}


CLAIMS.update({
    'C02': dict(_e2e('After the fault prefix ends every reliable message is read and both sides report zero buffered/pending/in-flight bytes within heal + 600 s of virtual time (blackouts > 60 s, zero-window readers, 40 % loss, reordering). '
        'LOSS-RECOVERY COMPONENT (proof, RACK / RACK timer / PTO / TLR gate only: Props/C02rack.lean on Model/Rack.lean, whose conditions and formulas are regenerated from onRackAfterSACK / onRackTimeoutLocked / '
        'onPTOTimerLocked / schedulePTOAfterSendLocked / tlr*Locked / the RTT part of processSelectiveAck on every run, and which is compared with a white-box snapshot of the real Association after '
        'every op of the direct-drive harness): RACK marks only outstanding original transmissions and only when a chunk sent more than the reordering window later was delivered '
        '(C02_rack_marks_only_outstanding, C02_rack_loss_sound, C02_rack_never_marks_newest); the window stays in [0, SRTT] (C02_reownd_bounded); the RACK timer is armed whenever the list is non-empty, '
        'with the exact deadline (C02_rack_timer_armed); send-time order of the list and "no list entry satisfies the loss test" are invariants of every admissible run (C02_rack_invariant); '
        'PTO flags the last outstanding chunk when nothing is pending (C02_pto_probe_progress_partial); the TLR gate admits the first request of every gather and opens when the episode ends (C02_tlr_not_forever). '
        'Two full-strength statements are FALSE of the code and proved false: the RACK timer callback never marks anything in any reachable state (C02_rack_timer_inert, witness '
        'C02_rack_timer_overdue_witness, replayed from corpus/C02), and a PTO that finds data pending flags nothing and is not re-armed even when the window blocks new data '
        '(C02_pto_no_probe_when_pending, replayed from corpus/C02); in both cases recovery falls back to the next SACK or T3, which is why the e2e liveness predicate still holds. '
        'These component theorems say nothing about end-to-end liveness.'),
        technique='Lean 4 proof (walk lemmas, invariant + induction over all operation lists of the loss-recovery component, decide on witnesses) on translator-generated conditions + white-box model/implementation differential replay; system level: seeded fault-schedule exploration in virtual time'),
    'C06': dict(_e2e('SYSTEM LEVEL (exploration, synctest e2e + PolicySpec on the wire): unordered / partially reliable streams: reads must match distinct written messages (subsequence for ordered), DCEP always delivered in order; transmissions per chunk within the policy (known finding D14). '
        'COMPONENT LEVEL (supporting theorems, one clause: "abandoned chunks are not skipped by one of the retransmission paths"): Props/C06rack.lean on Model/Rack.lean - RACK on a SACK, the RACK timer, the PTO and T3 flag '
        'only chunks that are neither acknowledged nor abandoned and change nothing else in the chunk store (C06_rack_skips_abandoned, C06_rack_dead_chunks_untouched, C06_rack_sack_marks_outstanding, '
        'C06_t3_skips_abandoned); model tied to the code by white-box snapshots after every op, including sequences with limited-retransmission and timed streams. '
        'NOT proved: reassembly integrity for unordered delivery, at-most-once, the N+1 transmission bound (C06_* of DESIGN §5); the claimed level therefore stays exploration, the theorems are supporting.'),
        technique='Lean 4 proof (characterisation of the marking walk, case analysis of the PTO) + white-box model/implementation differential replay; system level: seeded exploration + Lean predicates'),
    'C07': _e2e('Partial-reliability scenarios: a message that was not delivered must be one the sender told the peer to skip (stream entry or cumulative point of a FORWARD-TSN / I-FORWARD-TSN); everything else is delivered.'),
    'C08': _e2e('Graceful shutdown with data still queued, one-sided and crossed, under faults: Shutdown()==nil implies all earlier writes read in order before EOF; both sides closed; late writes/OpenStream rejected and never delivered.'),
    'C09': _e2e('Close / Abort / transport read failure / write failure injected right after the k-th wire event of runs that go through handshake, transfer, stream reset and shutdown, with callers parked in Connect, Accept, Read, Write, Shutdown: everything returns, no goroutine of the package survives, no write to a closed conn, Close idempotent, ABORT cause reaches the peer.'),
    'C14': _e2e('Stream close by the writer then by the reader, re-open of the same identifier for up to 3 incarnations, several streams at once, under loss/duplication/reordering of DATA and RECONFIG: all messages then EOF per incarnation.'),
    'C18': _e2e('API-contract programs: oversize / empty / closed-stream writes, blocking writes with deadlines, short read buffers (message stays available), read deadlines expiring with no data; rejected calls are invisible in the peer read history; blocking-write gate checked white-box.'),
})

CLAIMS.update({
    'C01': {
        'text': 'SUMMARY: proved in Lean - the composed theorem C01_netsysq_prefix / C01_netsys_prefix[_idata] (sender model + history network with loss, duplication, reordering + receiver model, reliable ordered streams: what the application reads on a stream is a PREFIX of what was written on it, in order, intact), built from the sender half (wire chunks are faithful copies), the receive half (duplicate filter + reassembly refinement) and the pending-queue model; every model is tied to the code by line-by-line differential replay. Exploration only: liveness, the byte copy in packetize, unordered / partially reliable / reset traffic in the composition, the phases around the transfer. Details follow. SYSTEM LEVEL (exploration, synctest e2e): per stream the read history must be a prefix of, and after healing equal to, the accepted-write history over seeded workloads x fault schedules x modes x initial TSNs. COMPONENT LEVEL (reassembly queue): proved in Lean on the L0 model of reassemblyQueue, for ordered DATA (SSN, TSN-contiguity) and ordered I-DATA (MID/FSN): '
                'for every message list (any sizes, any count, any initial TSN incl. the 2^32 wrap), fragments pushed in ANY order, each at most once, interleaved arbitrarily with reads of '
                'ANY buffer size and under any entry limit, the successful reads (PPI, bytes) form a PREFIX of the written messages; isComplete is characterised (complete iff exactly all '
                'fragments of one message). Hypothesis forced by the 16/32-bit sequence space: the pushed fragment belongs to a message fewer than 2^15 (SSN) / 2^31 (MID) ahead of the reader. '
                'The model is tied to reassembly_queue.go by differential replay; the executable predicate (every read = one written message, at most once, in order, gap-free without forwards, '
                'all returned after draining) is evaluated on the implementation outputs with generator ground truth. '
                'SENDER HALF (Props/C01wire.lean, on the L0 sender model tied by the direct-drive correspondence): for ALL runs (writes, gathers, arbitrary SACKs, T3, RACK/PTO marks, abandonment) every DATA/I-DATA chunk any gather puts on the wire is an un-acknowledged faithful copy (stream, message identity, PPI, U/B/E, SSN, MID, FSN, length) of a chunk created by an accepted write (C01_wire_faithful); an acked chunk is never flagged for retransmission (C01_acked_never_marked); a write creates exactly the fragments of one message (C01_write_fragments) and message identities are unique per write (C01_message_identity). '
                'NOT covered yet: duplicate filtering at association level (C01_dedup, C05 is the component theorem), and the composed end-to-end NetSys invariant (C01_netsys_prefix) — system level stays exploration.',
        'note': NOTE_COMMON + ' Known finding D15: nothing in the association enforces the 2^15 hypothesis for DATA (a_rwnd counts user bytes only, entry cap off by default): '
                'an application that lags 32769 small ordered messages behind loses acknowledged messages and later stalls (witness replayed on every run; e2e witness in corpus/C01).',
        'technique': 'Lean 4 proof (refinement of the queue to a table of messages, induction over arbitrary honest runs) + model/implementation differential replay + executable predicate on implementation outputs',
    },
})

CLAIMS.update({
    'C04': {
        'text': 'Proved in Lean on the L0 handshake/negotiation model Hs (mirrors initClient, handleInit, handleInitAck, handleCookieEcho, handleCookieAck, '
                'establish/updateInterleavingState, setSupportedExtensions, the zero-checksum parameter handling and the marshal/unmarshal checksum decisions): '
                'for EVERY interleaving of starts, deliveries of ANY packet ever sent (loss, duplication, reordering, arbitrary delay) and T1 expiries, and all 16 option '
                'combinations, an established endpoint uses interleaving iff both sides enabled it, the forward-TSN variant matches, and it sends zero checksums only if '
                'the peer declared them acceptable (C04_agreement, C04_same_framing); ANY handshake packet leaves an established endpoint unchanged (C04_stale_harmless, '
                'C04_established_stable); fault-free, crossed-INIT and single-loss schedules establish both sides for all option combinations. The model is tied to the code '
                'by a line-by-line differential replay against two real associations driven by a packet shuffler. SYSTEM LEVEL (exploration): synctest e2e handshake scenarios '
                '(3 role assignments incl. out-of-band tokens, faults on the first 8 packets, stale packets after establishment, silent peer -> bounded failure with '
                '1+maxInitRetrans INITs, waiting server returns on transport close).',
        'note': NOTE_COMMON + ' Liveness for arbitrary fault schedules within the retry budget is shown for representative schedules (decide) and sampled e2e, not proved for all; '
                'blocking of the constructor calls is runtime behaviour (sampled).',
        'technique': 'Lean 4 proof (inductive invariant over all op lists of a two-endpoint + packet-history model) + model/implementation differential replay + e2e scenarios',
    },
})

CLAIMS['C12'] = {
    'text': 'Lean theorems over the L0 model of the wire codec (packet/chunk/param/error-cause marshal and unmarshal, all 17 chunk types, '
            '11 parameter kinds, 5 cause kinds), CRC uninterpreted: (a) round trip dec(enc p)=p for every packet satisfying an explicit decidable '
            'well-formedness predicate; (b) locality: a chunk is decoded from its own length bytes, bundling changes nothing (no hypothesis on the '
            'chunk body); (c) re-encode stability for EVERY accepted byte string except two decoded shapes, which are known findings with witness '
            'theorems and replayed witnesses (empty HEARTBEAT-ACK; INIT whose last parameter is 4 bytes long); (d) the model\'s type dispatch equals '
            'the dispatch tables the translator reads off the Go switches; chunkHeader/BE16/BE32/padding lemmas. '
            'Model tied to the code by differential runs through packet.marshal/unmarshal (byte-for-byte, field-for-field, error class for error class) '
            'and by round-trip / stability / locality predicates evaluated on the implementation outputs. '
            'That the association only builds well-formed packets (C12_emitted_wf) is NOT part of this check.',
    'note': NOTE_COMMON,
    'technique': 'Lean 4 proof (structural induction over the encoders, shift-invariance of the decoder loops, well-formedness of decoder outputs) '
                 '+ translator-generated dispatch facts + model/implementation differential replay',
}
CLAIMS['C13'] = {
    'text': 'Packet-level decision logic only: the exact acceptance rule of packet.unmarshal and the emission rule of packet.marshal / '
            'Association.marshalPacket proved in Lean with the CRC uninterpreted; truth table re-evaluated on the implementation with an independent '
            'bitwise CRC32c (itself compared with hash/crc32). The association-level parts (send-zero only after the peer advertised the DTLS method, '
            'rejected packet leaves association state unchanged) are not covered here.',
    'note': NOTE_COMMON,
    'technique': 'Lean 4 proof (case analysis of the checksum stage) + model/implementation differential replay',
}

CLAIMS['C03'] = {
    'text': 'DECODER (proof): Props/C03dec.lean on the L0 codec model (the same model C12 is proved about, tied to packet.go / chunk_*.go / param_*.go / error_cause_*.go by '
            'differential replay of every generated and every hostile byte string): for EVERY byte string the decoder terminates with a packet or one of its listed '
            'errors — the only panic outcomes are the explicit ones of the model, none reachable from packet.unmarshal —, consumes at most the bytes it was given, and a chunk\'s '
            'decoding depends only on that chunk\'s own bytes (locality, D3). C03_state_guards_pinned pins the state gate of inbound DATA as extracted from the source. '
            'ASSOCIATION LEVEL (exploration): the direct-drive sender harness feeds SACKs that the validation must reject (unknown TSNs, gap blocks outside the queue, stale '
            'cumulative points) and checks that a rejected SACK leaves the logged state unchanged; the e2e partial-reliability scenarios feed FORWARD-TSN / I-FORWARD-TSN for '
            'unknown streams and more streams than the accept backlog; every harness run executes under recover() — a panic of the implementation is a violation with the op log as replay. '
            'NOT covered yet: hostile DATA / hostile RECONFIG at association level (pending: receiver and reset harnesses).',
    'note': NOTE_COMMON,
    'technique': 'Lean 4 proof (totality and locality of the decoder model) + model/implementation differential replay on well-formed and malformed packets + direct-drive and e2e exploration',
}

SENDER_NOTE = (NOTE_COMMON + ' The L0 model Model/Sender.lean is hand-written (send / acknowledgement paths of association.go, payload_queue.go, '
               'queue.go as a list, stream.go write half); its window tests, window updates, congestion formulas, chunk sizes and the two tests of '
               'onBufferReleased are NOT re-typed: they are Gen.* defs the translator regenerates from those very expressions of /repo on every run '
               '(go/extract/exprs.go), so a changed comparison or formula changes the defs the theorems are about. Tie of the remaining structure '
               '(loop shapes, order of updates): direct-drive correspondence X-assoc - one real Association driven single-threaded under testing/synctest; '
               'after EVERY op the model state (cwnd ssthresh rwnd in-flight/pending bytes and counts, cumulative point, next TSN, per-stream buffered amount and '
               'callback count) and the DATA packets of every gather (lengths, TSNs, fragments) are compared with the implementation. '
               'ORACLES (theorems quantify over all values; the harness records what the real code decided): the TLR burst budget tlrAllowSendLocked '
               '(arbitrary state machine), which pending chunk peek() returns (the pending queue is modelled elsewhere), RACK / PTO loss marks, the number of '
               'T3 expiries while the clock advances. The budget and the marks are no longer free: Model/Rack.lean computes them and Driver/Rack.lean compares '
               '(white-box rk line after every op). Not modelled in the sender model: blockWrite, SHUTDOWN cumulative ack, goroutines; RTT/RACK bookkeeping and the '
               'RACK/PTO deadlines live in Model/Rack.lean, T3 in the timer model of C19.')

CLAIMS.update({
    'C10': {
        'text': 'Lean theorems over the L0 sender model, for ALL operation lists (write / gather / SACK with arbitrary contents / T3 / clock tick / stream open+drop / '
                'leave+re-enter established), all oracle values, every configuration with MTU < 2^30: C10_admission (each chunk a gather moves to in-flight had '
                'in-flight bytes + len <= cwnd and len <= rwnd at that moment, or is the lone zero-window probe taken with an empty in-flight queue; the admitted '
                'chunks are exactly those appended to the in-flight queue), C10_rwnd_invariant (rwnd + in-flight <= max(last a_rwnd, in-flight)) and '
                'C10_rwnd_after_send (after a non-probe send in-flight <= last advertised window), C10_mtu_bound (every retransmission / new-data / fast-retransmission '
                'packet of a gather is non-empty and marshals to <= MTU, from ANY state), C10_fragment_bound (a chunk of <= maxPayloadSizeForMTU bytes fits behind the '
                'common header; packetize emits fragments of 1..maxPayloadSize bytes adding up to the message), C10_cwnd_floor (MTU <= cwnd), C10_loss_response '
                '(T3: ssthresh = max(cwnd/2, 4 MTU), cwnd = max(MTU, MinCwnd); entry to fast recovery: same ssthresh formula, cwnd = max(ssthresh, MinCwnd), once), '
                'C10_retransmit_window (T3 retransmissions of one gather carry at most min(cwnd, rwnd) user bytes, or are the single probe chunk). '
                'TLR burst budget (Props/C10tlr.lean, on tlrAllowSendLocked assembled from generated expression sites and proved equal to the gate of the sender model): per gather, '
                '4 x admitted estimated bytes <= max(budget, 4 x first admitted request) (C10_tlr_budget_bound; <= max(units/4, 1) MTUs when every request is <= MTU), burst units stay in [8,16] / [5,8] '
                'quarter-MTUs in every reachable state (C10_tlr_units_bounded), the episode ends exactly when the cumulative point reaches the highest TSN outstanding at its start (C10_tlr_finish, '
                'C10_tlr_begin_end); the budget is per gather, not per RTT phase (C10_tlr_budget_is_per_gather). The tlr/bud oracle values of every gather are checked against the model. '
                'Plus the executable predicate P_C10 on the implementation outputs after every op, and e2e transfer runs.',
        'note': SENDER_NOTE + ' "Cut" is formalised as the RFC 4960 7.2.3 formula (a literal "never larger than before" is false by design below 4 MTU). Loss signals = T3 expiry and '
                'third miss indication outside fast recovery; RACK/PTO marks do not touch cwnd in this implementation (oracle inputs). Window theorems assume the ghost flag '
                'wrapWin is down: no uint32 wrap (< 2^32 bytes in flight, cwnd + increment < 2^32).',
        'technique': 'Lean 4 proof (invariants + induction over op lists with oracle inputs; bv_omega/omega on translator-generated window and size arithmetic) + '
                     'model/implementation differential replay of a direct-driven real Association',
    },
    'C15': {
        'text': 'Lean theorems over the same model and quantification: C15_assoc_exact (pending + in-flight byte counters = user bytes held by the queued chunks, chunk counter exact, '
                'acked chunks hold no bytes - unconditional), C15_stream_exact_partial (per stream BufferedAmount = user bytes of its chunks in pending + in flight), '
                'C15_no_underflow_partial (onBufferReleased never takes its clamp branch), C15_zero_iff_idle_partial, all three under the hypothesis "a stream stays in the '
                "association's table while it has data outstanding\" forced by known deviation D9 (C15_D9_witness / C15_underflow_witness decide the failure without it; the D9 witness "
                'is replayed on the implementation every run), C15_rollback_exact (a write outside established restores buffered amount, SSN and both MID counters, queues nothing), '
                'C15_sack_atomic (in-flight TSNs stay contiguous, hence a SACK that passes the validation is applied completely: the error returns after the first queue modification are unreachable), '
                'C15_callback_crossings (callback invocations = downward crossings of the threshold in the per-operation sequence of buffered amounts; one release per stream and SACK), '
                'C15_callback_unlocked (decided on regenerated control-flow paths of onBufferReleased: Lock, crossing test, copy handler, Unlock, call; and the Unlock/Lock around its only '
                'call site). Plus the executable predicate P_C15 on the implementation outputs (the harness callback TryLocks the association and stream locks) and e2e runs.',
        'note': SENDER_NOTE + ' Per-stream theorems assume the ghost flag wrapBuf is down (no uint64 wrap of bufferedAmount). C15_callback_unlocked is syntactic (lock events per path of one '
                'function, neighbours of the call statement), the harness adds a dynamic TryLock probe; deadlock freedom in general is C20.',
        'technique': 'Lean 4 proof (accounting invariant + induction over op lists; decide on translator-extracted lock paths) + model/implementation differential replay',
    },
})

API_NOTE = (NOTE_COMMON + ' The L0 model Model/StreamApi.lean (namespace Sapi) is hand-written ON TOP of the existing models Sender (send half: packetize, rollback, '
            'checkPR with firstSent, gather, sack, t3) and Reasm (reassembly queue), which it imports and does not fork; it adds Stream.WriteSCTP / sendPayloadData incl. the '
            'blocking-write gate and deadline (a blocked call is a parked record that leaves through wake or failWaiter), Close + sendResetRequest, ReadSCTP / handleData / '
            'SetReadDeadline, createForwardTSN / createIForwardTSN. Its conditions are NOT re-typed: Gen.write_tooLarge / write_notOpen / write_empty / send_notEstablished[AfterWait] / '
            'send_gated / send_waits / popPending_notifyWritable / reset_notEstablished / close_* are expression sites regenerated from /repo on every run; the hand-typed pieces reused from '
            'Sender are proved equal to the sites Gen.packetize_*, Gen.checkPR_*, Gen.abandoned_*, Gen.*_skips / *_stops / miss_eligible (C18_packetize_sites, C06_abandon_decision, '
            'C06_abandoned_skipped). Tie of the structure: direct-drive correspondence TestVerifStreamAPI - one real Association driven single-threaded under testing/synctest with real '
            'WriteSCTP / Close / ReadSCTP / SetReadDeadline calls (a call that does not return stays parked in its goroutine inside the bubble); after EVERY op the whole state line (per '
            'stream SSN, both MIDs, buffered amount, state; pending queue contents; writePending; window figures; abandoned TSNs) and after read-side ops the read-side state are compared, '
            'plus every call result, every released call, the DATA packets, per-chunk nSent and FORWARD-TSN of every gather. ORACLES: as for Sender (burst budget, pending-queue '
            'selection, RACK/PTO marks, T3 expiries during a tick) plus which parked writer a writeNotify token wakes. SINGLE-THREADED ABSTRACTION: one API call at a time, everything '
            'runnable has run before the next operation; concurrent writers / the sync.Cond and channel choreography are sampled by the e2e api mode, not proved.')

CLAIMS.update({
    'C18': {
        'text': 'Lean theorems over the L0 stream-API model, all states / arguments: C18_rejected_write_no_effect (a write that neither queues data nor is parked - oversize, closed stream, '
                'empty, association not established, blocking mode with the deadline already passed, write lock held, no stream - returns EXACTLY the state it was given: the roll-back of '
                'SSN / MID / buffered amount is exact) with C18_errors_are_rejected; C18_parked_write_rollback (a blocking write that waited and then fails leaves the state it found apart '
                'from the model\'s two ghost id allocators); C18_write_consumes_one_id (an accepted write of n>0 bytes appends ceil(n/maxPayload) chunks of one message: FSN 0,1,..; B first, E '
                'last; 1..maxPayload bytes adding up to n; stream id, PPI, U flag; each carries the identifier the counters held; exactly one counter advances by one; buffered += n; other '
                'streams untouched); C18_ids_consecutive (ALL operation lists: the messages handed to the pending queue for a stream carry consecutive identifiers of their class whatever '
                'rejected, failed, empty, parked, timed-out calls, SACKs, T3, ticks, reads, policy changes happen in between - the D7 property as a theorem, incl. blocking mode); '
                'C18_short_read_keeps_message (on the existing Reasm model: a short-buffer read returns the queue unchanged and reports the size of the message at its head; every later read '
                'with a large enough buffer returns exactly that message) and C18_short_ReadSCTP_keeps_stream; C18_read_deadline_keeps_messages (the deadline timer touches no message); '
                'C18_blocking_write_gate ((1) a blocking write that returns n>0 found writePending down and no DATA of an earlier write in the pending queue, (2) a parked write is released '
                'only by a gather that emptied the queue, (3) D18: a gather that leaves the queue empty and wakes nobody leaves writePending down), on the invariant GInv that holds in every '
                'reachable state (C18_invariant_reachable); C18_packetize_sites. Plus executable predicates [C18] on the implementation outputs (W-NOEFFECT, W-ONEID, W-ROLLBACK, W-GATE, '
                'R-SHORT, R-DEADLINE) and the e2e api / shutdown scenarios (concurrent callers, real deadlines across arrival instants).',
        'note': API_NOTE + ' Not proved: goroutine interleavings of several writers (which parked writer wakes is an oracle), the read-deadline goroutine racing a concurrent push, data-race freedom.',
        'technique': 'Lean 4 proof (case characterisation of write; invariants of parked calls and of the gate by induction over op lists) + model/implementation differential replay of a direct-driven real Association + executable predicates + e2e exploration',
    },
    'C06': {
        'text': 'API-visible half (DCEP, retransmission policies) proved; receive half: at the reassembly queue proved for UNORDERED messages (Props/C06reasm.lean, below) next to the ordered theorems of C01 / C07; '
                'association / system level (at most once, intact, subsequence across sender + network + receiver for unordered and partially reliable streams) by exploration + Reasm (+ the wire theorems of Props/C06wire.lean). '
                'RECEIVE HALF, UNORDERED, REASSEMBLY QUEUE (Props/C06reasm.lean, on the L0 model of reassemblyQueue tied by the reasm correspondence run): universe = the unordered messages of one stream, message k cut into '
                'fragments, DATA: TSN t0+base(k)+i (consecutive inside a message, disjoint ranges in message order, other traffic allowed in between, any t0 incl. the 2^32 wrap), U flag, B first, E last, PPI on every fragment; '
                'I-DATA: MID k, FSN i, arbitrary TSNs. For ANY run of pushes (any order, each fragment at most once - the TSN filter of C05 -, loss allowed, any entry limit) and reads of any buffer size: '
                'C06_reasm_unordered_data / C06_reasm_unordered_idata: the successful reads are D.map out for a DUPLICATE-FREE list D of message indices (each message at most once, with its PPI and its whole payload, '
                'never a fragment, never a splice; order unconstrained), only messages all of whose fragments were pushed, and every message whose fragments were all taken without a limit error has been read or waits complete '
                'in unordered / unorderedMID; C06_reasm_unordered_*_exactly_once: all fragments taken + queue drained => the reads are a permutation of the writes (reliable unordered streams: exactly once); '
                'C06_reasm_unordered_run_is_message: what findCompleteUnorderedChunkSet cuts out of ANY slice is a B...E run with consecutive TSNs and no E before the end (never panics), and such a run of universe fragments is '
                'exactly all fragments of one message (isComplete alone would accept the splice B E B E of two TSN-adjacent messages: example); C06_reasm_class_frames + C06_reasm_mixed_classes: ordered and unordered DATA '
                'messages on the same stream - pushes of one class leave the containers / cursors of the other untouched, read serves a waiting unordered message first, and on every admissible mixed run the reads served from '
                'the ordered container are a prefix of the ordered writes while the reads served from the unordered list satisfy the unordered statement. Hypotheses: the unordered universe spans at most 2^31 TSNs (DATA) / holds '
                'at most 2^31 messages (I-DATA) - there is no cursor a sliding window could be anchored at; ordered part: the 2^15 window of C01. NOT proved: forward-TSN purges of unordered fragments inside a run (the handlers are '
                'characterised exactly in C07_reasm_purge_exact_*), mixed classes under I-DATA, the composition with receiver / network for unordered streams. '
                'Lean theorems (Props/C06.lean): C06_dcep_reliable_ordered (packetize clears the U flag for PPI 50 on every fragment whatever the stream setting; '
                'checkPartialReliabilityStatus never marks a DCEP chunk; an accepted DCEP write queues ordered chunks only); C06_abandon_decision (Sender.checkPR = the decision written with '
                'the regenerated conditions: nSent >= value, elapsed since the FIRST transmission >= value, DCEP / not-negotiated / unknown-stream exempt; abandoned() = marked AND all fragments '
                'in flight); C06_abandoned_skipped (T3 marking, miss indications, fast retransmission, the T3-path retransmission gather (since 6ddfdda), RACK after SACK, RACK timer, PTO, both '
                'advance loops test abandoned() as the regenerated sites do); for ALL operation lists that do not re-open / re-configure the stream: C06_rexmit_bound (limit N: every ending '
                'fragment - so every unfragmented message - in flight or put on the wire by any gather has nSent <= max(1,N) <= N+1), C06_rexmit_bound_fragmented_partial (every fragment: '
                'transmitted N times => message marked; the bound fails for non-final fragments while the tail is pending: C06_D14_witness, known finding D14), '
                'C06_abandoned_never_retransmitted (all policies: once a message is abandoned() the transmission counter of its chunks never moves again), C06_timed_bound (lifetime L: a '
                'transmission L ms or more after the first makes the message marked, for an ending fragment abandoned(): it is the last one), C06_D21_fixed (the scenario that gave a second '
                'transmission after expiry before commit 6ddfdda). Plus the predicate PolicySpec on every DATA chunk of every gather of both direct-drive harnesses, DCEP-ORDERED / '
                'DCEP-RELIABLE on the stream-API harness, and the e2e pr / transfer / api scenarios with the history predicates for the receive half.',
        'note': API_NOTE + ' Bounds are stated on nSent, the transmission ordinal the model stamps on every chunk it puts in a packet (compared with the implementation per chunk and gather). '
                'The policy must be in force: FORWARD-TSN negotiated, stream in the association table, policy not changed during the run.',
        'technique': 'Lean 4 proof (per-chunk predicates closed under the local transitions of gather / SACK / T3 / tick, lifted to op lists; decide on witnesses) + regenerated decision sites + model/implementation differential replay + executable predicates + e2e exploration',
    },
})

# C02 / C07: sender-side theorems over the L0 sender model (Props/C02.lean, Props/C07.lean); the receiver half and the
# composition over a faulty network stay at exploration level (the e2e claims above are kept verbatim inside the text)
CLAIMS.update({
    'C02': {
        'text': 'SENDER SIDE (proof): Lean theorems over the L0 sender model, all configurations with MTU < 2^30, ALL operation lists from init (arbitrary earlier loss, '
                'duplication and reordering of SACKs, zero-window episodes, congestion collapse, any number of T3 expiries), all oracle values: C02_t3_marks_all (T3 is total, has no '
                'retry limit, and after any number of expiries every chunk that is neither acked nor abandoned is flagged), C02_rtx_progress_partial (the lowest flagged chunk opens the '
                'first retransmission packet of a gather whatever cwnd/rwnd are when it is the earliest outstanding chunk, and whenever it fits min(cwnd, rwnd); the literal '
                '"lowest flagged chunk, always" is false - C02_rtx_lowest_not_first_witness, replayed on the code from corpus/C02 - because the window exception is tied to loop index 0), '
                'C02_probe_when_blocked (nothing in flight + something pending => a gather admits a chunk for every cwnd and rwnd; for every rwnd smaller than the chunk, 0 included, exactly '
                'that chunk as the probe), C02_ack_progress (a validated SACK ahead of the cumulative point is accepted, pops k >= 1 chunks and their bytes; empty queues => zero buffered '
                'bytes), C02_drains_fault_free and C02_recovers_after_blackout (from EVERY reachable established state the schedule "[T3;] rounds of gather + SACK acknowledging everything '
                'in flight" empties both queues and all buffered amounts within pending chunks + 1 <= pending bytes + 1 rounds, for every window the SACKs advertise and every peek choice: '
                'no reachable sender state is a dead end), C02_recovers_faithful (the same with a peer whose SACK is earned: each round = T3 expiry, gather, cumulative SACK for exactly the longest prefix '
                'of the queue a peer that keeps nothing beyond its cumulative point can have - gap-acked before, skipped by this gather\'s FORWARD-TSN, or put on the wire by this gather; '
                'in-flight + pending rounds suffice). '
                'COMPOSED MODEL (proof, Props/C02net.lean on Model/NetSys.lean = sender model + history network + receiver model; helpers Proofs/NetSys/Live*.lean): the SACK is now the RECEIVER model\'s own - '
                'truthfulSack = what createSelectiveAckChunk builds in the current receiver state (cumulative point of the receive queue, getMyReceiverWindowCredit, getGapAckBlocks). '
                'C02_netsys_truthful_sack_accepted: in EVERY reachable NetSys state (any earlier loss, duplication, reordering, any earlier SACKs truthful or not, zero-window episodes, any T3s) that SACK is '
                'never rejected by the validation of processSelectiveAck - it is processed or stale - because every TSN the receiver accepted was assigned by the sender (run invariant run_qb) and cumulative '
                'ack point + in-flight = TSNs assigned (snd_idx); premises MTU < 2^30, fewer than 2^31 chunks written / in flight. healedRound = an explicit operation list computed from the state (accept backlog drained; T3 if '
                'something is in flight; gather with free burst budget and FIFO selection; every chunk put on the wire delivered in order, one packet each; application accepts and reads everything readable; '
                'ack interval; receiver gather; its truthful SACK processed by the sender). C02_netsys_round_progress_partial: a healed round never adds to pending + in flight and releases >= 1 chunk when the '
                'receiver\'s cumulative point is ahead of the sender\'s when the SACK is built (Taken), after which the sender\'s cumulative ack point IS the receiver\'s. C02_netsys_drains_partial: n >= pending + in-flight '
                'healed rounds, each starting with nothing outstanding or Taken, leave both sender queues empty, BufferedAmount() = 0 (per stream under the D9 premise); C02_netsys_delivered_prefix: C01 holds along the '
                'rounds. PARTIAL: Taken is a hypothesis (decidable on the run); of the three facts it follows from only the sender one is proved (lowest outstanding chunk first on the wire whatever cwnd/rwnd: '
                'C02_rtx_progress_partial, C02_probe_when_blocked); the receiver taking that chunk at zero window when it fills a gap or has credit after the application read (needs reassembly-level byte accounting) and the '
                'invariant "a gap-acked chunk was really received" for sound SACK histories (soundSack / Honest) are stated, not proved; reads = writes at the end is evaluated on the example run only. '
                'SECOND PASS (towards removing Taken; Proofs/NetSys/Live{Head,Take,Acked,Taken}.lean): the two halves of the argument are theorems on NetSys - C02_netsys_lowest_on_wire (every reachable established state with something outstanding, '
                'un-acked in-flight chunks fitting a packet, nothing abandoned: after the round\'s T3-if-in-flight + gather(free budget, FIFO) the head of the in-flight queue, TSN = cumulative ack point + 1, is gap-acked or is the FIRST chunk that gather put on the wire, '
                'whatever cwnd / rwnd are) and C02_netsys_receiver_takes (every reachable state with the receiver established: handed a chunk of the history with TSN = cumulative point + 1, a stream object available and Room - credit, or something held above the '
                'cumulative point, i.e. the chunk lies below the highest TSN received and is stored at a FULL buffer - handleData moves the cumulative point forward, unless the reassembly queue refuses the chunk and the ABORT / panic flag is up). The premises of one round are the decidable '
                'RoundOk = receiver established, Room, InSync (sender cumulative ack point not ahead of the receiver\'s; when equal the lowest outstanding chunk is not gap-acked), HeadOk (no ABORT in answer to the first delivery); evaluated true on every round of the example. '
                'STILL OPEN, so the drain theorem keeps _partial and its hypothesis TakenN: the glue RoundOk -> Taken (first delivery of the round = that chunk into that receiver state; frames of chunksStart / chunksEnd), Honest -> InSync as a run invariant (proved towards it: markGaps_acked, gather_ackedFrom), '
                'Room from FitsBuffer (maxMessageSize <= maxReceiveBufferSize) after the application read everything - needs the converse of Reasm.OrdInv.pushed, which would also give reads = writes at the end (C02_netsys_all_read is NOT stated), and HeadOk from maxReassemblyQueueEntries = 0. '
                'THIRD PASS (Proofs/NetSys/Live{Glue,RoundOk,Honest}.lean): the glue is proved - C02_netsys_roundok_taken: RoundOk P s (receiver established, Room, InSync, no ABORT on the first delivery) and something outstanding give Taken P s, '
                'over Reliable runs with InfFit; and C02_netsys_drains_roundok: n >= pending + in-flight healed rounds with RoundOkN (those four readable premises at the start of every round that has something outstanding) leave both sender queues empty and all buffered amounts 0 - '
                'the opaque TakenN hypothesis of C02_netsys_drains_partial is gone. C02_netsys_honest_insync: for every run whose sender only processed SOUND SACKs (Honest: cumulative TSN not ahead of the receiver, gap blocks name only TSNs at or below its cumulative point or held - '
                'what C05_assoc_sack_sound proves of every SACK the real receiver emits; delayed / duplicated / reordered SACKs stay sound), with TsnOk, InSync holds whenever the receive queue is pop-normalised (run invariant run_hl: every gap-acked in-flight chunk was really received); '
                'C02_netsys_honest_taken: one round with InSync replaced by Honest. STILL OPEN: iterating the honest step over the healed rounds (step_hl is the step lemma; the truthful SACK is sound), Room from FitsBuffer after the reads and reads = writes at the end (both need the converse of Reasm.OrdInv.pushed; '
                'C02_netsys_all_read is NOT stated), HeadOk / pop-normalised queue from maxReassemblyQueueEntries = 0 (they fail only after a reassembly error, when the receiver is about to ABORT). '
                'FOURTH PASS (Proofs/NetSys/Live{HonestN,Z}.lean): C02_netsys_drains_honest - the iterated drain theorem for Honest runs WITHOUT InSync: the SACK a healed round hands to the sender is the receiver\'s truthful one, which is sound (truthful_sound), so the honest-run invariant is kept round after round (hl_healed); '
                'per-round premises RoundOkHN = receiver established, Room, Normal (receive queue pop-normalised), HeadOk. This is the STRONGEST drain theorem: beyond the standing hypotheses (MTU < 2^30, fragment size fits the MTU, < 2^31 chunks written / in flight, reliable ordered streams, sound SACK history, sender established) '
                'it assumes exactly those four per-round premises. C02_netsys_entry_cap_off_partial: with maxReassemblyQueueEntries = 0 every reassembly queue of every reachable state has maxEntries = 0 (run_z), pushWithError returns no limit error and never panics, so a chunk acceptPayloadData decides to store is stored - the step towards deriving Normal and HeadOk, which are NOT yet assembled '
                '(Normal needs: no bare push in a handleData trace => pop-normalised after every packet; HeadOk needs in addition willSendAbort = false along the run and non-empty user data of every history chunk). Room from FitsBuffer and reads = writes stay open (converse of Reasm.OrdInv.pushed); C02_netsys_all_read is NOT stated. '
                'FIFTH PASS (Proofs/NetSys/Live{Normal,Abort,NoCap}.lean): C02_netsys_nocap_invariants - with maxReassemblyQueueEntries = 0 the receive queue is pop-normalised in EVERY reachable state (no handleData trace is a bare push: accept_stored), and when every chunk of the history decodes to non-empty user data the receiver never raises the ABORT flag and never panics; '
                'C02_netsys_drains_honest_nocap - NOW THE STRONGEST drain theorem: Normal and HeadOk are discharged, the per-round premises are only "receiver established" and Room (credit, or something held above the cumulative point). Standing hypotheses: MTU < 2^30, fragment size fits the MTU, maxReassemblyQueueEntries = 0, '
                '< 2^31 chunks written / in flight, reliable ordered streams, sound SACK history (Honest), sender established, every chunk of the final history carries user data (WireDataB, assumed not derived). STILL OPEN: Room from FitsBuffer (maxMessageSize <= maxReceiveBufferSize) after the reads and reads = writes at the end '
                '(converse of Reasm.OrdInv.pushed; C02_netsys_drains_fits / C02_netsys_all_read are NOT stated). '
                'C02_netsys_stuck_witness (decide): with a receive buffer of two maximal chunks and a 3-chunk message the fault-free healed rounds NEVER deliver - acceptPayloadData drops the third chunk at a full buffer, the '
                'incomplete message cannot be read, credit stays 0 - so "buffer >= one maximal chunk + application reads" is not enough; every message in progress must fit the receive buffer (maxMessageSize <= maxReceiveBufferSize; '
                'true for the defaults 64 KiB / 1 MiB, not enforced by Config). '
                'NOT covered by theorems: timers really firing and their back-off bounds (C19 gives the RTO clamp and the timer automaton; a healed round costs at most one T3 period <= rtoMax plus the 200 ms ack interval - prose only), '
                'goroutine wake-ups, that the receiver gather emits exactly that SACK (C19recv), unordered / partially reliable / reset traffic, ALL fair schedules (this is one explicit fair schedule from every reachable state), the wall-clock bound. '
                'SYSTEM LEVEL (exploration, synctest e2e): ' + CLAIMS['C02']['text'],
        'note': SENDER_NOTE + ' Premises of the drain theorems: fragment size <= maxPayloadSizeForMTU (CfgFit), peek returns a chunk of a non-empty queue (PickOk), fewer than 2^31 chunks queued. '
                'The round bound is the worst case one chunk per round (cwnd at its floor or closed peer window); it does not use cwnd growth. ' + E2E_NOTE,
        'technique': 'Lean 4 proof (run invariants Seq/Core/PendFit, progress lemmas, induction on the number of pending chunks) + model/implementation differential replay of a direct-driven real '
                     'Association + seeded e2e exploration with Lean-defined predicates for the system-level statement',
    },
    'C07': {
        'text': 'SENDER SIDE (proof) - what the peer is told to skip: Lean theorems over the L0 sender model (now including the contents of FORWARD-TSN / I-FORWARD-TSN, compared with the chunk '
                'every real gather emits), all configurations with MTU < 2^30 and partial reliability negotiated, ALL operation lists, all oracle values, premise TsnOk (< 2^31 TSNs outstanding '
                'in every state): C07_skip_only_abandoned (the advanced peer ack point lies inside the in-flight queue and every chunk in (cumAck, advPeerAck] is abandoned - never a merely '
                'gap-acked or a reliable chunk), C07_skip_maximal (after an accepted SACK and after T3 the chunk right after the point is not abandoned), C07_forward_flag (point ahead of the '
                'cumulative point => flag up after SACK and after every T3; a gather emits the chunk exactly when flag and point say so, with that point and the lists of the state it leaves), '
                'C07_forward_lists_exact (one entry per stream; each entry is the SSN/MID of an abandoned ORDERED chunk in the range - unordered ones are not listed in FORWARD-TSN; it is the '
                'greatest one when fewer than 2^15 SSNs / 2^31 MIDs of the stream are skipped at once), C07_abandonment_monotone (no premise), C07_reliable_never_abandoned (DCEP chunks and chunks '
                'of a stream that is never given a partially reliable policy belong to no abandoned message, whatever happens to other messages), C07_abandoned_not_retransmitted (T3 and '
                'RACK/PTO marks never flag, the fast-retransmit gather and the T3 retransmission gather never send an abandoned chunk) with C07_d21_regression (finding D21, found by this '
                'theorem: getDataPacketsToRetransmit did not test abandoned(); fixed in /repo, the model mirrors the fix, the witness is replayed from corpus/C06 and corpus/C07). '
                'RECEIVER SIDE (proof, L0 receive-half model Receiver, all states, all chunk contents): C07_forward_needs_stream / C07_iforward_needs_stream (a FORWARD-TSN / I-FORWARD-TSN that is '
                'not stale is taken completely or not at all: either every stream it names exists afterwards - created on the spot when needed - the cumulative point is the announced one, and, when '
                'no stream is named twice, the cursor of every named stream lies past the skipped SSN / MID; or a named stream could not be created, and then nothing changes except that the streams '
                'created before the failing one are registered and queued for Accept: receive queue, cumulative point, ack state, timer, window, control output and all existing streams are untouched), '
                'C07_forward_dropped_only_when_backlog_full (the second case needs a full accept backlog); this is the fix of finding D23 (witness corpus/C07/ar_d23_forward_backlog_full.ops), mirrored '
                'in the model and compared with the real handleForwardTSN / handleIForwardTSN by the direct-drive receiver harness (`ar`), whose generator fills the backlog on purpose; predicate [C07] '
                'on the implementation outputs: after a taken FORWARD-TSN every named stream is registered, a dropped one left cum / queue / window / ack state as they were and is only dropped with a '
                'full backlog. '
                'KNOWN FINDING D24 (replayed every run, witness corpus/C01/known/d24_forward_tsn_after_reset.ops, decided on the model: C07_forward_after_reset_witness): a FORWARD-TSN / I-FORWARD-TSN entry that stems from an abandoned message of a stream incarnation the receiver has ALREADY reset (the sender\'s cumulative ack lags, createForwardTSN lists every abandoned chunk above it) re-creates the stream and moves the new incarnation\'s cursor: the first messages written after the reset are acknowledged and dropped. The predicates report exactly this situation under the class [D24:forward after reset]; every other acknowledged-and-not-kept chunk still fails the check. '
                'RECEIVER REASSEMBLY UNDER SKIPS (proof, Props/C07reasm.lean, L0 model of reassemblyQueue tied by the `reasm` correspondence job, which runs in this check too and replays corpus/C07/reasm_skip_then_deliver_{data,idata}.ops): C07_reasm_purge_exact_ordered / _ordered_mid / _unordered_mid / _unordered (ANY queue state, any argument; counter at least the bytes held and below 2^63): forwardTSNForOrdered / forwardTSNForOrderedMID remove exactly the sets that are INCOMPLETE and serially at or below the skip point, keep every complete set (also one at or below the skip point that has not been read yet - C07_reasm_complete_survives_skip: it stays first and readable) and every later set with the same chunks in the same order, move the cursor to skip point + 1 iff it was at or below it (forward distance at most half the space, never backwards, afterwards past the skip point), subtract exactly the bytes removed and touch no other container; forwardTSNForUnorderedMID removes every set still in the MID map (the incomplete ones) at or below the point and leaves completed unordered messages alone; forwardTSNForUnordered removes the LEADING run of unordered fragments not after the new cumulative TSN (= every such fragment when the slice is TSN-sorted inside a half-space window, C07_reasm_purge_exact_unordered_window) and leaves completed messages alone. C07_reasm_skip_then_deliver (DATA / SSN, window 2^15) and C07_reasm_skip_then_deliver_idata (I-DATA / MID, window 2^31): for EVERY run of pushes in any order, reads of any size and skips that is admissible for an honest sender - decidable predicate AdmissibleS: valid fragments, none twice, message fewer than 2^15 / 2^31 ahead of the oldest message the queue holds or waits for, late fragments fewer than that behind the cursor, no push rejected by maxEntries, and for skip L: every message up to L that is NOT abandoned has been handed over completely (what the cumulative semantics of FORWARD-TSN guarantees, C07_skip_only_abandoned); abandoned messages may have any subset of their fragments pushed before or after their skip, skips may repeat or be stale - the successful reads are exactly a strictly increasing list of message indices, each message with its PPI and whole payload (a SUBSEQUENCE of the written messages: nothing twice, out of order, truncated or spliced); every message that is not abandoned and was handed over completely has been read or sits complete in the queue; and it HAS been read once the application has drained the queue, provided every earlier message was handed over completely or is covered by a skip of the run. First message of the stream abandoned, abandoned message partially received, skips before / after fragments of later messages are instances (non-vacuity runs decided in the file and replayed on the real queue). A skip that violates the premise (the D24 situation: it names messages of another incarnation) does lose a reliable message - decided at a witness in the file. '
                'COMPOSITION WITH FORWARD-TSN (proof of the safety core, Props/C07net.lean, Model/NetSysPR.lean = NetSys with streams of any reliability policy and a wire history that also holds every FORWARD-TSN / I-FORWARD-TSN a gather emitted; deliver hands the receiver any history item, DATA or FORWARD-TSN, any number of times in any order, never = loss): C07_netsys_skip_is_safe - in every reachable state, at any point inside a packet, for EVERY FORWARD-TSN / I-FORWARD-TSN of the history (first copy or late duplicate): every chunk ever sent with a TSN at or below its new cumulative TSN, on any stream, is abandoned by the sender or was handed to the reassembly queue of its stream, and every entry names an abandoned (for FORWARD-TSN: ordered) chunk at or below that point; C07_netsys_skip_all_pushed - with per-stream FIFO TSN assignment (decidable TsnFifo on the run, what C17 proves of the pending queue) every fragment written on the named stream in a message before the named one was sent and is abandoned or was handed over: the allPushed premise of C07_reasm_skip_then_deliver holds in the composed system. Hypotheses (decidable RunOk): MTU < 2^30, PR negotiated, < 2^31 chunks in flight / TSNs assigned, and SackSound - no SACK the sender processes acknowledges cumulatively more than the receiver\'s cumulative point (C05_assoc_sack_sound proves it of the real receive half; gap blocks, a_rwnd and RACK marks stay arbitrary: the advanced ack point stops at the first non-abandoned chunk, gap-acked or not). The hypothesis is necessary: C07_netsys_unsound_sack_witness decides a run where one unsound SACK makes the receiver skip a reliable message it never received. '
                'RECEIVE HALF WITH SKIPS (proof, Props/C07net.lean, lemmas Proofs/Receiver/PrefixSkip*.lean - the receive-side simulation of C01_receiver_prefix redone with FORWARD-TSN): C07_receiver_skip_then_deliver - ordered DATA, ANY op list whose packets bundle DATA fragments of the peer\'s universe and FORWARD-TSN chunks in any order, duplicated, lost, with reads of any size in between, such that every FORWARD-TSN the receiver TAKES satisfies the honest-sender premise for the stream (each entry naming it is the SSN of a message L, every non-abandoned message up to L has had all fragments handed to the reassembly queue - the content of C07_netsys_skip_all_pushed), fewer than 2^15 messages on the stream, no entry limit: the successful reads are a strictly increasing list of messages (a subsequence of the writes, each at most once, whole; duplicate filter, stale and repeated FORWARD-TSN included) and every non-abandoned message handed over completely has been read or sits complete in the queue. C07_netsys_nothing_lost_partial transports this to every run of NetSysPR (readsOn, pushed) from two premises that are STATED, NOT DERIVED: the universe link (every delivered DATA item is a fragment of a universe whose message list is the stream\'s writes, its TSN naming no other fragment - Proofs/NetSys/Data.lean derives this for reliable runs, not redone for NetSysPR) and the FORWARD-TSN premise in the receiver\'s vocabulary (C07_netsys_skip_all_pushed proves it in the sender\'s; the translation needs the same link). '
                'END TO END (proof, Props/C07net.lean): C07_netsys_nothing_lost - for every run of NetSysPR whose premises are DECIDABLE RUN PREDICATES only (RunOk incl. sound SACKs; OrdOnly = ordered streams of any reliability policy, no reset; DATA / FORWARD-TSN; no entry limit; < 2^31 chunks written; message-contiguous per-stream FIFO selection SelContig and the same FIFO read off the TSN offsets, FifoU; fewer than 2^15 messages written on the stream), on every stream the reads are a strictly increasing selection of the application\'s own writes (a subsequence in write order, each at most once, whole) and every message the sender has not abandoned by the end of the run and all of whose fragments were handed to the reassembly queue has been read or sits complete in the queue. Both formerly stated premises are derived: the universe link incl. TSN injectivity of moved fragments (Proofs/NetSys/PRUniv*.lean, PRLostGood.lean; C07_netsys_nothing_lost_fwdok_partial is the intermediate form with FwdOk still stated) and the honest-sender premise of every FORWARD-TSN the receiver takes (PRLostFwd.lean, from the composed invariant behind C07_netsys_skip_is_safe, moved_ident, abandonment monotonicity). Non-vacuity: every premise decided on the run opsX for both of its streams. '
                'C07_netsys_nothing_lost_fifo: the same statement with the two selection premises replaced by SelFifo (every gather takes the oldest pending chunk - what the pending queue does for ordered-only traffic, C17_ordered_only_fifo); SelContig and FifoU are DERIVED from it for ordered streams of any reliability policy (Proofs/NetSys/PRFifo.lean, from C01_fifo_tsn_order). ' +
                'NOT covered by theorems: the PREFIX corollary for streams never given a partially reliable policy (the conclusion gives a strictly increasing D, not gap-freeness), read-after-drain, the sliding D15 window (the theorems ask for < 2^15 messages on the stream), I-DATA / I-FORWARD-TSN end to end, unordered messages and mixed streams in the run theorems, stream resets (D24). '
                'SYSTEM LEVEL (exploration, synctest e2e): ' + CLAIMS['C07']['text'],
        'note': SENDER_NOTE + ' The FORWARD-TSN comparison is on the decoded chunk (new cumulative TSN, stream list sorted by stream id). ' + E2E_NOTE,
        'technique': 'Lean 4 proof (invariant AdvInv over op lists, serial arithmetic by bv_omega, fold lemmas for the stream lists) + model/implementation differential replay of a direct-driven '
                     'real Association + seeded e2e exploration with Lean-defined predicates for the system-level statement',
    },
})
CLAIMS['C08'] = {
    'text': 'Proved in Lean on the L0 shutdown model Sd (two established endpoints + the history of every packet each side ever sent; mirrors Shutdown, '
            'gatherOutbound / gatherOutboundPriorityPackets / gatherOutboundShutdownPackets / gatherOutboundSackPackets, advanceShutdownAfterDataDrain, '
            'hasPendingOrInflightData, handleData (state gate, SHUTDOWN-SENT branch, SACK decision), handleSack / processAcknowledgement / postprocessSack, '
            'handleShutdown / processShutdownAcknowledgement / finishShutdownHandling / retransmitShutdownAck, handleShutdownAck, handleShutdownComplete, '
            'onShutdownTimeout, onAckTimeout, the state gates of sendPayloadData and OpenStream, close() and the exit paths of readLoop / writeLoop, '
            'Stream.WriteSCTP / ReadSCTP), for EVERY interleaving of writes on any stream, Shutdown calls on either or both sides, write-loop passes '
            'with ANY choice of DATA chunks to send or retransmit (cwnd / rwnd / MTU bundling / burst budget / T3, fast-retransmit and RACK marks / stream '
            'scheduler are an input of the pass, quantified over), deliveries of ANY packet ever sent (loss, duplication, reordering, delay, stale replay of '
            'DATA, SACK, SHUTDOWN, SHUTDOWN-ACK, SHUTDOWN-COMPLETE), T2 / T3 / delayed-ack expiries, reads, transport failures, Close and Abort: '
            '(1) C08_shutdown_ok_implies_delivered (full since the fix of D22; + C08_d22_transport_failure_reports_error, C08_interrupted_shutdown_reports_error: transport failure / Close / Abort during a waiting call give the error): if Shutdown has returned nil, every message accepted before the call '
            'has been handed to the peer\'s streams, what the peer read from each stream is an in-order prefix of what was written to it, and every stream that '
            'reported closure had delivered everything first; (2) C08_no_write_after_shutdown: once a Shutdown call passed its state gate every write is '
            'rejected and queues nothing, OpenStream is refused; (3) C08_shutdown_states_drained: SHUTDOWN-SENT / SHUTDOWN-ACK-SENT only with nothing queued '
            'or in flight, Shutdown returns nil only when closed; (4) C08_closed_absorbing, C08_stale_harmless: a closed endpoint never changes or emits, '
            'replaying any old packet never un-delivers, re-opens or makes Shutdown return early; (5) liveness on explicit schedules for EVERY message count '
            '(induction over rounds, Shutdown called with all data still queued): fault-free completes on both sides, crossed shutdown completes with both '
            'calls returning nil, single loss of SHUTDOWN / SHUTDOWN-ACK recovered by T2, lost SHUTDOWN-COMPLETE leaves the peer closing on transport close; '
            '(6) C08_state_constants, C08_gates_match_code: state numbers and the three translated state gates equal the code\'s. '
            'The model is tied to the code by line-by-line differential replay against two REAL established associations driven single-threaded under '
            'testing/synctest (real readLoop and real Shutdown call, write loop stepped explicitly; result of every op and the full state line of both '
            'endpoints compared) and by the predicate P_C08 evaluated on the implementation\'s own outputs. SYSTEM LEVEL (exploration, kept): synctest e2e '
            'shutdown scenarios with real loops and timers under seeded fault schedules.',
    'note': NOTE_COMMON + ' Model abstractions: one DATA chunk per message (<= 1100 bytes in the harness); TSNs / ack points as offsets from the initial TSN '
            '(wrap-around is C16); which chunks a pass sends is an input checked for well-formedness only (in the replay it is read off the packets the real code '
            'emitted); receive buffer never full and streams pre-opened; ackMode normal; ABORT only as sent by Abort(); no RECONFIG / FORWARD-TSN / HEARTBEAT traffic. '
            'D22 (Shutdown returned nil on local transport failure / Close / Abort with data still queued) was found with this model and is fixed in /repo; witnesses corpus/C08/sd_d22_*.ops, sd_close_and_abort_during_shutdown.ops. Liveness is proved for the explicit schedules '
            'named, not for arbitrary fair schedules; blocking of the Shutdown caller and real goroutine interleavings are sampled (synctest), not enumerated.',
    'technique': 'Lean 4 proof (inductive invariant over all op lists of a two-endpoint + packet-history model; induction over rounds for liveness) '
                 '+ model/implementation differential replay + executable predicate on implementation outputs + e2e scenarios',
}
# ---- receive half of the association (Model/Receiver.lean, go/harness/recv_test.go) ---------------------------------------------
RECV_NOTE = (' RECEIVE HALF: the L0 model Model/Receiver.lean is hand-written (handleData, acceptPayloadData, pushPayloadDataToStream, '
             'handlePeerLastTSNAndAcknowledgement, handleChunksStart/End, onAckTimeout, createSelectiveAckChunk and the SACK/ABORT/control part of gatherOutbound, '
             'handleForwardTSN, handleIForwardTSN, handleHeartbeat, the outgoing-reset part of handleReconfigParam, resetStreamsIfAny, Stream.ReadSCTP, the DATA check()) and '
             'COMPOSES the component models RecvQ, Reasm and the ack-timer automaton AckSys (nothing re-modelled); its credit clamp, zero-window admission test, state gate, '
             'kind test, gap test, sackNow, the three ack-decision conditions, the stale-FORWARD-TSN tests, the deferred-reset test and the SACK-pending test are Gen.* expression '
             'sites regenerated from association.go on every run. Tie: direct-drive correspondence TestVerifAssocReceiver - one real Association driven single-threaded under '
             'testing/synctest through the real inbound path (real marshal + handleInbound); after EVERY op the whole white-box state line (cumulative TSN, queue size, gap blocks, '
             'ack state, ack timer, advertised credit, user bytes held per Stream OBJECT found by walking the real reassembly structures - objects already deleted from a.streams '
             'included -, stream count, accept backlog, ABORT flag, association state, virtual time) and every packet of gatherOutbound are compared with the model; honest peer '
             '(fragmenting, reordering, duplicating, losing + retransmitting, abandoning + FORWARD-TSN, stream resets) and hostile peer (ignores the window, TSNs anywhere in the '
             'number space, duplicates of everything, zero-length DATA, wrong chunk kinds, stale and far FORWARD-TSNs, unknown streams, > 16 unaccepted streams, unread streams, raw '
             'mutated packets); every sequence run twice as a shift pair (peer initial TSN mid-space / just below 2^32). Not modelled: SHUTDOWN exchange, the round-trip estimator, '
             'Go map iteration order of simultaneous reset responses (packets compared as a multiset), decoding (raw packets are classified by the real decoder).')

CLAIMS['C05']['text'] += (' ASSOCIATION LEVEL (Props/C05recv.lean): C05_assoc_sack_sound / C05_assoc_sack_complete - every SACK gatherOutbound emits after ANY op list carries exactly '
    'the receive-queue state, which is the state of a ghost-instrumented run of association-level queue operations, so S1 (cumulative point covers only accepted or skipped TSNs), '
    'S2 (gap blocks name only accepted TSNs; sorted, disjoint, non-adjacent) and S4 (every accepted TSN reported, blocks maximal) hold for it; C05_assoc_cum_monotone - no inbound chunk '
    'moves the cumulative point backwards. The executable ghost-set predicate is evaluated on every SACK and after every op of the real association. Not lifted: "blocks start at offset >= 2" '
    '(holds in the model except after a reassembly-limit ABORT).')
CLAIMS['C05']['note'] += RECV_NOTE
CLAIMS['C16']['text'] += (' Receive half of the association: every receiver sequence of TestVerifAssocReceiver is run as a shift pair and compared after normalising TSNs.')
CLAIMS['C11']['text'] = CLAIMS['C11']['text'].replace(
    'Statements (b)-(d) (a_rwnd formula over streams, window admission, zero-window rule) belong to the Receiver model and are NOT covered yet.',
    'ASSOCIATION LEVEL (Props/C11recv.lean, all op lists of the receive-half model): C11_credit_formula - getMyReceiverWindowCredit, i.e. the a_rwnd of every SACK, = buffer minus user '
    'bytes held by the REGISTERED streams, clamped at 0 (full buffer when they hold nothing), every per-stream counter exact along association runs (fewer than 2^63 user bytes in total; sum '
    'below 2^32); C11_window_admission - the user bytes held by all stream objects grow by at most the chunk length and only if the TSN lies in (cum, cum+maxTSNOffset], maxTSNOffset <= 40000, '
    'is not held, a stream object exists, and there is credit or the TSN is below the highest TSN received; C11_zero_window_admission - at zero credit only chunks serially below the highest '
    'TSN received are stored. Executable predicates on the real association: a_rwnd of every SACK and the credit after every op against a walk of the real structures, window and zero-window '
    'rule per stored chunk, held-bytes delta per op, bytes bound buffer + maxTSNOffset x largest chunk, full buffer at the drained marker. '
    'C11_bytes_bound - for any op list whose DATA chunks carry at most M user bytes each, the registered streams never hold more than buffer + maxTSNOffset*M user bytes '
    '(potential argument over the unset slots of the receive queue, Proofs/RecvQ/Unset.lean; side conditions buffer + 40000*M < 2^32 and < 2^63 bytes in total), hence '
    'C11_credit_formula_bounded without a separate no-wrap hypothesis. KNOWN FINDING D13 (replayed every run): a stream reset by the peer is deleted from the table while its '
    'unread bytes are still held, so they are not counted - the credit formula is over registered streams.')
CLAIMS['C11']['note'] += RECV_NOTE
CLAIMS['C19']['text'] = CLAIMS['C19']['text'].replace(
    'NOT covered here (pending, association level): SACK sent at once on gap/duplicate and within 200 ms of every DATA packet '
    '(only the ack-timer law it rests on: C19_ack_delay_bound_partial), and the heartbeat echo / round-trip sample (DESIGN D1, D2, D11 live there).',
    'ASSOCIATION LEVEL (Props/C19recv.lean, receive-half model with the ack-timer automaton embedded): C19_ack_delay_bound - in every reachable state, after any packet, a delayed '
    'acknowledgement has the ack timer started and armed with a deadline <= arrival + 200 ms, a running timer is never pushed back, and reaching the deadline makes the ack immediate '
    '(one shot); C19_ack_scheduled - a handled DATA chunk never leaves the ack state idle; C19_ack_immediate_on_gap, C19_ack_immediate_on_dup (with C19_dup_meaning: what canPush refuses); '
    'C19_immediate_ack_is_sent; C19_heartbeat_echo. Executable predicates on the real association under virtual time: timer expiry within 200 ms of arming, immediacy on gap / duplicate / '
    'unacceptable TSN, SACK emitted exactly when due, HEARTBEAT echoed with the same info, first round-trip sample from a HEARTBEAT-ACK. Not modelled: the RTT estimator update '
    '(an unauthenticated HEARTBEAT-ACK with a forged timestamp is accepted as a sample - observed, clamped by the RTO bounds).')
CLAIMS['C19']['note'] += RECV_NOTE
CLAIMS['C17']['text'] = CLAIMS['C17']['text'].replace(
    'The negotiation half (I-DATA/I-FORWARD-TSN exactly when both sides enabled it, wrong kind => protocol-violation ABORT) is tied elsewhere / pending.',
    'Negotiation half, receive side (Props/C17recv.lean): C17_wrong_kind_abort - DATA under interleaving, I-DATA without it, FORWARD-TSN under interleaving and I-FORWARD-TSN without support '
    'only raise the ABORT flag (nothing accepted, nothing acknowledged), and C17_abort_is_sent - the next gather emits exactly the protocol-violation ABORT and closes; checked on the real '
    'association (ABORT flag after every wrong-kind chunk, cause code 13 on the wire).')
CLAIMS['C17']['text'] = CLAIMS['C17']['text'].replace('Scheduler half proved, negotiation half not claimed here.', 'Scheduler half proved; of the negotiation half the receive side (wrong kind => ABORT) is proved, that each side sends the negotiated kind is C04 + e2e.')
CLAIMS['C17']['note'] += RECV_NOTE
CLAIMS['C01']['text'] = CLAIMS['C01']['text'].replace(
    'NOT covered yet: packetize/TSN assignment (C01_packetize_wf, C01_tsn_assignment), duplicate filtering (C01_dedup, C05), wire content, and the end-to-end NetSys invariant (C01_netsys_prefix).',
    'RECEIVE-SIDE SYSTEM THEOREM (Props/C01recv.lean, receive-half model of the association): C01_dedup - in every reachable state (any op list) a chunk handed to a stream has a TSN inside the '
    'tracking window whose absolute index was never accepted before and counts as accepted ever after: a TSN reaches pushWithError at most once per association; C01_receiver_prefix / '
    'C01_receiver_prefix_idata - for ANY arrival history of chunks drawn from the fragment universe of a message list per stream (any order, duplication, loss, bundling; any number of streams '
    'sharing the TSN space; initial TSN anywhere incl. the wrap; fewer than 2^31 TSNs in all), interleaved with reads of any buffer size, accept/open/gather/ticks/state changes, the successful '
    'reads on each ordered stream form a prefix of its messages - composition of C01_dedup with the reassembly refinements, under the 2^15 (SSN) / 2^31 (MID) window hypothesis (D15). '
    'Executable delivery predicate on the real association against generator ground truth. NOT covered: packetize/TSN assignment on the SEND side (C01_packetize_wf, C01_tsn_assignment), '
    'wire content, FORWARD-TSN / reset in the prefix theorem (reliable streams only), and the two-endpoint NetSys invariant (C01_netsys_prefix). '
    'KNOWN FINDING D24 (replayed every run, witness corpus/C01/known/d24_forward_tsn_after_reset.ops, decided on the model: C07_forward_after_reset_witness): a FORWARD-TSN / I-FORWARD-TSN entry that stems from an abandoned message of a stream incarnation the receiver has ALREADY reset (the sender\'s cumulative ack lags, createForwardTSN lists every abandoned chunk above it) re-creates the stream and moves the new incarnation\'s cursor: the first messages written after the reset are acknowledged and dropped. The predicates report exactly this situation under the class [D24:forward after reset]; every other acknowledged-and-not-kept chunk still fails the check. ')
CLAIMS['C01']['note'] += RECV_NOTE
# NetSys composition (agent-netsys). The receiver's replace above no longer matches the tail of the C01 text; replace the real tail.
_C01_TAIL = ('NOT covered yet: duplicate filtering at association level (C01_dedup, C05 is the component theorem), and the composed end-to-end NetSys '
             'invariant (C01_netsys_prefix) — system level stays exploration.')
_C01_RECV = ('RECEIVE-SIDE SYSTEM THEOREM (Props/C01recv.lean, receive-half model of the association): C01_dedup - in every reachable state (any op list) a chunk handed to a stream has a TSN inside the '
    'tracking window whose absolute index was never accepted before and counts as accepted ever after: a TSN reaches pushWithError at most once per association; C01_receiver_prefix / '
    'C01_receiver_prefix_idata - for ANY arrival history of chunks drawn from the fragment universe of a message list per stream (any order, duplication, loss, bundling; any number of streams '
    'sharing the TSN space; initial TSN anywhere incl. the wrap; fewer than 2^31 TSNs in all), interleaved with reads of any buffer size, accept/open/gather/ticks/state changes, the successful '
    'reads on each ordered stream form a prefix of its messages - composition of C01_dedup with the reassembly refinements, under the 2^15 (SSN) / 2^31 (MID) window hypothesis (D15). ')
_C01_NET = ('COMPOSITION (Props/C01net.lean; Model/NetSys.lean = the Sender model + the Receiver model + the HISTORY of every DATA chunk any gather put on the wire; `deliver` hands the receiver any '
    'history chunks, any number of times, in any order and bundling, never = loss; the SACKs, burst budget, loss marks and timer inputs of the sender are ARBITRARY - safety does not depend on '
    'truthful SACKs; the payload bytes are a ghost function of the message identity of which the sender model sees the length only; toWire = header decode as chunkPayloadData.unmarshal + the byte slice '
    '[i*mp, i*mp+len) of the written payload): C01_netsys_prefix_idata (I-DATA, ANY pending-queue selection oracle) and C01_netsys_prefix (DATA; hypothesis SelContig, decidable on the run: the '
    'order in which chunks get their TSNs keeps the fragments of a message together and serves each stream FIFO - exactly what C17_contiguous + C17_fragment_order prove of the real pending queue) - '
    'for EVERY NetSys run over reliable ordered streams (every openS ordered with relType 0, no unreg), fewer than 2^31 chunks written in all (each gets at most one TSN), and the D15 window stated on '
    'the run (messages written on the stream at most 2^31 / 2^15 ahead of the messages read on it at every step; proved to imply the receiver theorem\'s hwin), the (PPI, bytes) the receiving '
    'application has read on each stream are a PREFIX of the (PPI, bytes) of the accepted writes on it, in write order. New sender lemmas (all runs, any SACKs/oracles, no configuration hypothesis): '
    'C01_wire_tsn_stable - the j-th chunk moved to in flight gets TSN t0+j, every occurrence of a chunk on the wire (first transmission, T3/RACK/PTO/fast retransmission) carries the TSN and fragment '
    'identity of a moved chunk, fragment identities are pairwise distinct: one fragment, one TSN; C01_ssn_assignment - the k-th accepted write on a stream gets SSN k mod 2^16 / MID k mod 2^32, '
    'rejected writes (incl. the rolled-back not-established one) consume none. Tests by evaluation: two streams, three messages across the 2^32 TSN wrap, interleaved selection, loss + T3 '
    'retransmission, duplicates, out-of-order delivery. STILL EXPLORATION at system level: liveness (C02); the byte copy in packetize (toWire ASSUMES the chunk carries that slice of the written '
    'buffer; observed by the e2e content hashes and, per accepted write, by the byte comparison of the stream-API harness (`sa bytes`: the chunks a write queues carry, in order, exactly the bytes of the buffer)); unordered / partially reliable / reset traffic (FORWARD-TSN and stream reset are not operations of NetSys; that reliable streams never '
    'cause a FORWARD-TSN is C07_reliable_never_abandoned + C07_skip_only_abandoned on the sender model, not re-proved on NetSys); the composition of the selection oracle with the PendQ model '
    '(SelContig is a hypothesis here and a theorem there); handshake, shutdown and teardown around the transfer.')
if _C01_TAIL in CLAIMS['C01']['text']:
    CLAIMS['C01']['text'] = CLAIMS['C01']['text'].replace(_C01_TAIL, _C01_RECV + _C01_NET)
else:
    CLAIMS['C01']['text'] += ' ' + _C01_NET
CLAIMS['C01']['technique'] += ' + composition theorem over a two-endpoint model with a packet-history network (NetSys)'
# FIFO selection (agent-selcontig): the hypothesis SelContig of C01_netsys_prefix is derived from the selection the code makes for ordered traffic.
_C01_SEL_OLD = ('the composition of the selection oracle with the PendQ model '
    '(SelContig is a hypothesis here and a theorem there); ')
_C01_SEL_NEW = ('the correspondence between the selection oracle of the Sender model and the real pending queue (SelFifo - the oracle names index 0 every time - is proved of the PendQ model '
    'for ordered-only traffic, C17_ordered_only_fifo, and checked on the real queue\'s logged selections by the [C01,C17] predicate of the direct-drive sender harness; the two models are composed in Model/NetSysQ.lean, see below); ')
assert _C01_SEL_OLD in CLAIMS['C01']['text']
CLAIMS['C01']['text'] = CLAIMS['C01']['text'].replace(_C01_SEL_OLD, _C01_SEL_NEW)
CLAIMS['C01']['text'] += (' SELECTION HYPOTHESIS DERIVED (Props/C01sel.lean, Proofs/NetSys/Sel*.lean): SelContig is no longer a primitive hypothesis of the DATA composition. SelFifo (decidable on the '
    'op list: every gather carries a selection list of zeros = peek returns the OLDEST pending chunk every time; the Sender model keeps the pending queue as a list in push order, index 0 is the oldest) '
    'is the selection messagePendingQueuePolicy makes when only ordered chunks are queued - Props/C17fifo.lean C17_ordered_only_fifo: on the PendQ model, for every push/peek/pop list with ordered '
    'pushes only, pushes = pops ++ contents in push order and every peek / pop is handed the head of the contents. C01_fifo_tsn_order (sender half, all runs, any configuration and oracles): under FIFO '
    'selection the fragment identities written = those moved to in flight (TSN order) ++ those still pending - nothing overtakes, no chunk created by a write leaves the pending queue unsent (every '
    'fragment has 1..maxPayloadSize bytes, so the no-user-data branch of popPendingDataChunksToSend is never taken); C01_selfifo_selcontig: SelFifo and Reliable imply SelContig (write fills the queue '
    'message by message, fragments adjacent and in order); C01_netsys_prefix_fifo: the statement of C01_netsys_prefix with SelFifo in the place of SelContig. What remains a hypothesis about the real '
    'code is SelFifo itself, i.e. that the Sender model\'s oracle IS the real queue\'s answer: tied by the direct-drive sender harness, which logs the push-order index of every chunk the real '
    'pendingQueue hands out (as ora sel=), replays it through Sender.gather (DIFF) and now checks with predicate [C01,C17] that in non-interleaved sequences whose streams are all ordered every logged index is 0. '
    'COMPOSED MODEL (Model/NetSysQ.lean, Proofs/NetSys/SelQ.lean): NetSys with the oracle replaced by the message policy of the PendQ model - the queue is pushed every chunk a write appends to the pending list, '
    'a gather\'s selection list is what draining the queue hands out, each chunk looked up by identity in the pending list (the very computation by which the harness derives sel= from the real queue); '
    'C01_netsysq_selfifo: over reliable ordered streams every selection list it computes is all zeros; C01_netsysq_prefix: the prefix theorem for EVERY run of NetSysQ with no hypothesis on the selection at all '
    '(C01_netsysq_run: a NetSysQ run is the NetSys run on the resolved operation list); C01_netsysq_no_queue_error: in such runs no pendingQueue.pop fails (the flag after which the composed model hands out '
    'nothing is never raised: writes queue whole messages B first / E last, the queue runs parallel to the pending list).')
CLAIMS['C17']['text'] += (' Props/C17fifo.lean: C17_ordered_only_fifo - under the message policy with ordered pushes only the queue is globally first-in-first-out (pushes = pops ++ contents; every '
    'peek / pop returns the oldest queued chunk); it is what justifies the FIFO selection hypothesis SelFifo of C01_netsys_prefix_fifo.')
if 'C03' in CLAIMS:
    CLAIMS['C03']['text'] += (' RECEIVE HALF (Props/C03recv.lean): C03_recv_total - no op list drives the receive-half model into its explicit panic outcome (the two empty-slice accesses of '
        'pushWithError are unreachable: C03_reasm_push_total); C03_stale_fwdtsn_noop / C03_stale_ifwdtsn_noop - a FORWARD-TSN at or behind the cumulative point changes nothing but forces an '
        'acknowledgement (C03_stale_fwdtsn_acked); C03_zero_length_abort; C03_data_ignored_outside_receive_states. On the real association: every packet under recover(), rejected packets and '
        'packets in non-receiving states leave the state line unchanged.')
    CLAIMS['C03']['note'] += RECV_NOTE
CLAIMS.update({
    'C14': {
        'text': 'Proved in Lean on the L0 model Rs of outgoing stream reset between two established associations (mirrors Stream.Close / WriteSCTP / ReadSCTP / '
                'onInboundStreamReset, OpenStream / getOrCreateStream, sendResetRequest, the end-of-stream marker in popPendingDataChunksToSend, '
                'gatherOutboundDataAndReconfigPackets, handleData / handlePeerLastTSNAndAcknowledgement, handleReconfigParam, resetStreamsIfAny, '
                'resetOutgoingStreamSequenceNumbers, T-reconfig expiry; two endpoints + the history of every packet each side ever sent, stream objects addressed by '
                'handle), for EVERY operation list (application calls on any handle, write-loop passes with any admissible pending-queue selection and any '
                'retransmissions, delivery of any old packet to the other side = loss / duplication / reordering / stale replay, timer expiry): '
                'C14_eof_after_data (a reader that was given EOF has been handed every message its partner object wrote — ordered ones in order — and the partner was closed; '
                'for identifiers the applications re-open only after both directions were reset), C14_marker_after_data, C14_deferred_until_cum, '
                'C14_received_stay_readable / C14_reset_keeps_queues / C14_read_before_error (no inbound packet removes a queued message; Read serves the queue before EOF), '
                'C14_duplicate_request_harmless (D10: a request whose number was performed is answered and changes nothing else), C14_late_response_harmless (D16: a response never '
                'touches an open stream), C14_reopen_fresh / C14_numbering_from_zero / C14_no_mixing (a re-opened identifier starts from 0 on both sides and never receives '
                'chunks of another incarnation), and on the exact model of rememberPerformedReset (uint32, serial compare, trimming): C14_performed_recent_remembered, '
                'C14_performed_newest_is_max, C14_performed_only_remembered (+ C16_performed_set_shift_invariant). The model is replayed line by line against two REAL '
                'associations driven single-threaded under testing/synctest (TestVerifReset: loss, duplication, reordering, stale replays of DATA / SACK / RECONFIG, both ends '
                'closing at once, several streams, request before its data, lost response + T-reconfig, scripted D10 / D16, thousands of rememberPerformedReset calls as shift pairs); '
                'the predicate P_C14 (MIX / DUP / ORDER / EOF / SEQ / REMEMBER / SHIFT) is evaluated on the implementation outputs. Plus the e2e reset scenarios (exploration).',
        'note': NOTE_COMMON + ' Model abstractions (quantified over in the theorems, recorded from the real code by the harness): which pending entries leave the queue in one '
                'gatherOutbound call and which sent chunks are retransmitted (congestion control, RACK, T3 are inputs), whether a SACK is due. TSN / RSN / SSN / MID are natural '
                'numbers (no wrap: C16), messages are unfragmented, the receive buffer is never full, initial TSNs are not 0. The two-endpoint model keeps every performed RSN; '
                'the exact bookkeeping (trim to newest-1024 above 2048 entries) is modelled and proved separately and the driver flags a run in which the two disagree. '
                'C14_eof_after_data judges an identifier only while the applications re-open it in states where both directions were reset (Sys.quiet: in neither stream table, no object '
                'open, no marker queued, every request naming it performed); pion offers the application no signal for that — see the observation in DESIGN §5 C14 (crossed close + early re-open loses data).',
        'technique': 'Lean 4 proof (local send/receive invariants, cross-endpoint invariant over packet histories, incarnation bookkeeping; induction over arbitrary op lists) + '
                     'model/implementation differential replay of two direct-driven real Associations + executable predicate on implementation outputs + e2e exploration',
    },
})

CONC_NOTE = (NOTE_COMMON + ' What is NOT and cannot be proved here: goroutine scheduling, sync.Mutex / sync.Cond / channel / sync.Once semantics (assumed as specified by Go), '
             'wall-clock bounds, and - for C20 - DATA-RACE FREEDOM, which is a property of the Go memory model and cannot be expressed by an executable Lean model. '
             'Real interleavings are SAMPLED (scenarios under testing/synctest on one P, reproducible from the seed; thorough tier: the same programs natively under the race detector, '
             'whose clean verdict is supporting evidence only), never enumerated.')

CLAIMS.update({
    'C09': {
        'text': 'MODEL LEVEL (proved): Lean theorems over the transition system Model/Teardown.lean - readLoop, writeLoop, timerLoop, a timer callback, the constructor call and a LIST of API '
                'callers of ARBITRARY length (blocked reads per stream, blocking writes, AcceptStream, Shutdown, Close, Abort) over the transport, closeWriteLoopCh, readLoopCloseCh, acceptCh, '
                'abortSentCh, awakeWriteLoopCh, the handshake rendez-vous, writeNotify, the per-stream condition variable and a.lock - for every reachable state, every interleaving, every finite '
                'behaviour of the environment (packets, timer expiries, new calls, transport read/write failure, context cancellation). The choreography is NOT typed in: it is read off '
                'translator facts regenerated on every run (ordered statements of the deferred block of readLoop, of close(), Close() and Abort(); the arms of the selects of completeHandshake, '
                'writeLoop, timerLoop, Shutdown, both constructors and the blocking-write wait; Broadcast vs Signal in unregisterStream / onInboundStreamReset; closeNetConn on a write error) and '
                'C09_choreography_matches_code decides that it is the one the proofs are about. Theorems: C09_no_stuck_state (teardown set off => everything finished or some process of the package '
                'can move without the environment), C09_terminates (a measure strictly decreased by every step; every maximal run ends with all goroutines stopped and all calls returned), '
                'C09_results / C09_results_constructor (what each blocked call returns), C09_shutdown_interrupted (the completion flag is raised only by the peer\'s SHUTDOWN-ACK / SHUTDOWN-COMPLETE; a waiting Shutdown that returns without it returns an error), C09_no_write_after_close (at most one Write after Close, it fails and ends writeLoop), C09_terminal_error_sticky (once the streams are unregistered no step and no late read-deadline expiry changes what a read returns; tied to the `if s.readErr == nil` guard of the deadline helper), '
                'C09_close_idempotent (netConn.Close at most once; Close on a closed association changes nothing), C09_abort_carries_cause (the stored cause is what goes on the wire; an inbound '
                'ABORT makes its cause the close error, which never changes and is what every released reader of a non-reset stream gets). SYSTEM LEVEL (sampled): Close / several concurrent '
                'Close+Abort / transport read failure / write failure / context cancellation (also exactly while the COOKIE-ACK is being processed) injected after the k-th wire event of runs '
                'through handshake, transfer, stream reset and shutdown, with callers parked in Connect, Accept, Read (1-4 readers on the SAME stream; an IDLE reader whose long read deadline expires only after the teardown and who then sets a new deadline and reads), Write, Shutdown: every goroutine of the '
                'package must be gone when the synctest bubble ends (a real-time watchdog catches deadlocks that involve a mutex), no write after close, repeated Close harmless, ABORT cause at the peer.',
        'note': CONC_NOTE + ' Model assumptions: one constructor call per association, API calls only after it returned, completeHandshake attempted at most once (the code can attempt it twice when '
                'the last T1 expiry races with the answer), stream identifiers not reused after a reset; "promptly" = without further help from the environment. A critical section that contains '
                'no blocking operation is one atomic step (C20_interleaving_refines_sequence). FIXED FINDING D22 / K09-shutdown-nil (/repo 52b27be): a waiting Shutdown returned nil whenever closeWriteLoopCh closed; it now returns nil only after the peer\'s '
                'SHUTDOWN-ACK / SHUTDOWN-COMPLETE - modelled (C09_shutdown_interrupted, C09_shutdown_error_regression) and demanded by the e2e predicate. KNOWN FINDING (witness replayed every run): '
                'K09-read-deadline-goroutine - the helper goroutine of SetReadDeadline outlives Close until its deadline.',
        'technique': 'Lean 4 proof (inductive invariant + progress argument + termination measure over a parametric transition system, arbitrary number of callers) on a choreography read off '
                     'translator facts by decide + seeded teardown injection on real association pairs in virtual time with Lean-defined predicates',
    },
    'C20': {
        'text': 'PARTIAL BY NATURE. Proved / decided in Lean on facts the translator derives from the source on every run (event tree of every function, abstract interpretation of the lock state '
                'along every path incl. defers and the two drop-and-reacquire idioms, entry contexts propagated over the call graph with interface calls resolved by method set): '
                'C20_lock_graph_acyclic (7 mutexes, no vertex reaches itself; Association.lock -> Stream.lock present, its inverse absent), C20_lock_discipline (no unbalanced path, no unlock of an '
                'unheld mutex, with the one documented conditional lock in WriteSCTP), C20_callbacks_unlocked (every call of a function VALUE is made with an empty lock set; the one exception, the '
                'scheduler factory plug-in, is listed), C20_steps_atomic (every chunk handler is entered with a.lock held and never touches it, handleChunk / gatherOutbound / every timer callback / '
                'every exported method is ONE critical section per mutex, except the write path, whose three sections are listed; state is written outside a.lock only as the terminal value), '
                'C20_no_reentrant_timer (observers are called with no mutex held; nothing is ever acquired under a timer mutex), C20_blocking_under_lock (exactly three operations can block with a '
                'mutex held), and the generic C20_interleaving_refines_sequence (any interleaving of acquire / micro-operation / release of threads that touch shared state only under ONE mutex equals '
                'the sequential run of the sections in acquisition order - which is how the operation-list theorems of the other properties apply to concurrent callers). SAMPLED: storms of concurrent '
                'API calls on both associations (one writer per stream; deadline / reliability / threshold changes, buffered-amount queries, a low-threshold callback that re-enters the API, '
                'OpenStream of open streams, Stream.Close from another goroutine, then Shutdown / Close / Abort from several goroutines at a random instant) with the delivery predicates on; '
                'completion = no deadlock. Thorough tier: the storm and teardown programs natively under -race.',
        'note': CONC_NOTE + ' The lock analysis is syntactic and intra-package: mutexes are identified by (receiver type, field), so all streams share one node; sync/atomic and unsynchronised accesses '
                'are invisible to it. The linearisation theorem is about one mutex; WriteSCTP is three sections, and that is observable: KNOWN FINDING K20-write-close-race (Close from another '
                'goroutine between the state test and the enqueue of a write: the write reports success and is never delivered). Also reported: the read-deadline replacement race '
                '(corpus/C20/read_deadline_race.txt, timing dependent). Bubble storms run on one P (cooperative, reproducible); with several Ps go1.26 synctest bubbles occasionally stall.',
        'technique': 'decide on translator-derived concurrency facts (lock-order graph, callback / entry-point / blocking sites) + a Lean refinement theorem (interleaved critical sections = sequence '
                     'of steps) + seeded concurrent-API storms under testing/synctest + race-detector runs as supporting evidence',
    },
})

_PENDING = 'check not built yet in this round (planned, see DESIGN.md §5/§8); not claimed until its theorems and correspondence run'
NOT_APPLICABLE = {p: _PENDING for p in ['C%02d' % i for i in range(1, 21)] if p not in CLAIMS}

NOTES = 'Family of technique: machine-checked proof in Lean 4. See DESIGN.md. Known findings: known_findings.txt.'
