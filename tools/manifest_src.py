"""Source of MANIFEST.json (run tools/mkmanifest.py after editing)."""
NOTE_COMMON = ('Trusted: Lean kernel; axioms propext/Classical.choice/Quot.sound only; translator T; harness X and its generators; '
               'L0 models are hand-written and tied to the code by differential runs (bounded by generator quality), not verified.')

CLAIMS_LATER = {
    'C05': {
        'text': 'Lean theorems over the L0 model of receivePayloadQueue (all op lists, all 2^32 cumulative points, every bitmap size the code can build) '
                'plus differential correspondence of that model with the Go struct and the ghost-history predicate S1-S4 evaluated on the implementation outputs.',
        'note': NOTE_COMMON,
        'technique': 'Lean 4 proof (invariant + induction over op lists) + model/implementation differential replay',
    },
}
CLAIMS = {
    'C16': {
        'text': 'Serial-number algebra proved in Lean on definitions regenerated from util.go on every run (both widths, all values); '
                'translator validated against the Go functions on boundary and random inputs; component shift-invariance by theorem on the L0 models.',
        'note': NOTE_COMMON,
        'technique': 'Lean 4 proof (bv_omega over BitVec) on translator-generated defs + differential replay',
    },
    'C19': {
        'text': 'Timer laws at component level. Proved in Lean: RTO clamp [RTO.Min, configured max] for every sample/reset sequence and the '
                'doubling/capping of the back-off, both on arithmetic regenerated from rtx_timer.go by the translator (over Rat); the rtxTimer and '
                'ackTimer automata with the Go runtime timer as environment (Stop may lose the race, callbacks run in any order): pending-counter '
                'invariant, stale expiries absorbed, nothing reaches the observer after stop/close, nRtos counts real expiries, failure exactly on '
                'expiry maxRetrans+1 and never with maxRetrans=0, ack timer one shot at start+200 ms and not pushed back by a restart. Decided on '
                'translator facts: T1-init/T1-cookie get maxInitRetrans=8, T2/T3/reconfig get 0; both data-path setNewRTT calls are guarded by '
                'nSent == 1; every rtxTimer.start passes rtoMgr.getRTO(). Correspondence: rtoManager bit for bit on float64 sample sequences; real '
                'rtxTimer/ackTimer under testing/synctest with scripted start/stop/close/sleep and held-back callbacks, callbacks compared with '
                'virtual timestamps; property predicates evaluated on the implementation outputs. '
                'NOT covered here (pending, association level): SACK sent at once on gap/duplicate and within 200 ms of every DATA packet '
                '(only the ack-timer law it rests on: C19_ack_delay_bound_partial), and the heartbeat echo / round-trip sample (DESIGN D1, D2, D11 live there).',
        'note': NOTE_COMMON + ' float64 rounding is outside the theorems (Rat). Timer theorems assume fewer than 255 fired callbacks wait for the timer mutex at once '
                '(pending is a uint8). timeout() is modelled as atomic including the observer call (in Go the observer runs just after the mutex is released). '
                'Karn and retry-budget site facts are syntactic (guard text / argument text at the call sites).',
        'technique': 'Lean 4 proof (invariants + induction over op lists; linear arithmetic over Rat) on translator-generated defs and facts + differential replay under virtual time',
    },
}

_PENDING = 'check not built yet in this round (planned, see DESIGN.md §5/§8); not claimed until its theorems and correspondence run'
NOT_APPLICABLE = {p: _PENDING for p in ['C05', 'C01', 'C02', 'C03', 'C04', 'C06', 'C07', 'C08', 'C09', 'C10', 'C11', 'C12', 'C13', 'C14', 'C15', 'C17', 'C18', 'C20']}

NOTES = 'Family of technique: machine-checked proof in Lean 4. See DESIGN.md. Known findings: known_findings.jsonl.'
