"""Source of MANIFEST.json (run tools/mkmanifest.py after editing)."""
NOTE_COMMON = ('Trusted: Lean kernel; axioms propext/Classical.choice/Quot.sound only; translator T; harness X and its generators; '
               'L0 models are hand-written and tied to the code by differential runs (bounded by generator quality), not verified.')

CLAIMS = {
    'C05': {
        'text': 'Lean theorems over the L0 model of receivePayloadQueue (all op lists, all 2^32 cumulative points, every bitmap size the code can build) '
                'plus differential correspondence of that model with the Go struct and the ghost-history predicate S1-S4 evaluated on the implementation outputs.',
        'note': NOTE_COMMON,
        'technique': 'Lean 4 proof (invariant + induction over op lists) + model/implementation differential replay',
    },
    'C16': {
        'text': 'Serial-number algebra proved in Lean on definitions regenerated from util.go on every run (both widths, all values); '
                'translator validated against the Go functions on boundary and random inputs; component shift-invariance by theorem on the L0 models.',
        'note': NOTE_COMMON,
        'technique': 'Lean 4 proof (bv_omega over BitVec) on translator-generated defs + differential replay',
    },
    'C19': {
        'text': 'Timer laws at component level. Proved in Lean: RTO clamp [RTO.Min, configured max] for every sample/reset sequence and the '
                'doubling/capping of the back-off, both on arithmetic regenerated from rtx_timer.go by the translator (over Rat); the rtxTimer and '
                'ackTimer automata with the Go runtime timer as environment (Stop may lose the race, callbacks run in any order): pending-counter '
                'invariant, stale expiries absorbed, nothing reaches the observer after stop/close, nRtos counts real expiries, failure exactly on '
                'expiry maxRetrans+1 and never with maxRetrans=0, ack timer one shot at start+200 ms and not pushed back by a restart. Decided on '
                'translator facts: T1-init/T1-cookie get maxInitRetrans=8, T2/T3/reconfig get 0; both data-path setNewRTT calls are guarded by '
                'nSent == 1; every rtxTimer.start passes rtoMgr.getRTO(). Correspondence: rtoManager bit for bit on float64 sample sequences; real '
                'rtxTimer/ackTimer under testing/synctest with scripted start/stop/close/sleep and held-back callbacks, callbacks compared with '
                'virtual timestamps; property predicates evaluated on the implementation outputs. '
                'NOT covered here (pending, association level): SACK sent at once on gap/duplicate and within 200 ms of every DATA packet '
                '(only the ack-timer law it rests on: C19_ack_delay_bound_partial), and the heartbeat echo / round-trip sample (DESIGN D1, D2, D11 live there).',
        'note': NOTE_COMMON + ' float64 rounding is outside the theorems (Rat). Timer theorems assume fewer than 255 fired callbacks wait for the timer mutex at once '
                '(pending is a uint8). timeout() is modelled as atomic including the observer call (in Go the observer runs just after the mutex is released). '
                'Karn and retry-budget site facts are syntactic (guard text / argument text at the call sites).',
        'technique': 'Lean 4 proof (invariants + induction over op lists; linear arithmetic over Rat) on translator-generated defs and facts + differential replay under virtual time',
    },
}

E2E_NOTE = ('Evidence level is EXPLORATION until the system-level theorems (DESIGN §5, NetSys) are closed: real association pairs under testing/synctest virtual time '
            'behind a fault-injecting conn; every random choice from VERIF_SEED; the history/wire predicates are Lean definitions (Spec/History, Spec/E2ESpec, '
            'Spec/SenderSpec) evaluated by the compiled driver on the implementation logs. Goroutine interleavings are sampled, not enumerated.')


def _e2e(text):
    return {'category': 'exploration', 'text': text, 'note': E2E_NOTE, 'engine': 'synctest-e2e+lean-predicates',
            'technique': 'seeded fault-schedule exploration of real association pairs in virtual time; Lean-defined executable predicates on API+wire histories (theorems pending)'}


CLAIMS.update({
    'C01': _e2e('Per stream, the read history of ordered reliable streams must be a prefix of (and after healing equal to) the accepted-write history, over seeded workloads x fault schedules x modes x initial TSNs (incl. next to 2^32).'),
    'C02': _e2e('After the fault prefix ends every reliable message is read and both sides report zero buffered/pending/in-flight bytes within heal + 600 s of virtual time (blackouts > 60 s, zero-window readers, 40 % loss, reordering).'),
    'C04': _e2e('Handshake scenarios: 16 option combinations x 3 role assignments (client/server, both clients, out-of-band tokens) x up to 3 faults on the first 8 packets x start order; negotiated metadata against the truth table; stale handshake packets replayed after establishment; silent peer (bounded failure, 1+maxInitRetrans INITs); waiting server returns on transport close.'),
    'C06': _e2e('Unordered / partially reliable streams: reads must match distinct written messages (subsequence for ordered), DCEP always delivered in order.'),
    'C07': _e2e('Partial-reliability scenarios: a message that was not delivered must be one the sender told the peer to skip (stream entry or cumulative point of a FORWARD-TSN / I-FORWARD-TSN); everything else is delivered.'),
    'C08': _e2e('Graceful shutdown with data still queued, one-sided and crossed, under faults: Shutdown()==nil implies all earlier writes read in order before EOF; both sides closed; late writes/OpenStream rejected and never delivered.'),
    'C09': _e2e('Close / Abort / transport read failure / write failure injected right after the k-th wire event of runs that go through handshake, transfer, stream reset and shutdown, with callers parked in Connect, Accept, Read, Write, Shutdown: everything returns, no goroutine of the package survives, no write to a closed conn, Close idempotent, ABORT cause reaches the peer.'),
    'C14': _e2e('Stream close by the writer then by the reader, re-open of the same identifier for up to 3 incarnations, several streams at once, under loss/duplication/reordering of DATA and RECONFIG: all messages then EOF per incarnation.'),
    'C18': _e2e('API-contract programs: oversize / empty / closed-stream writes, blocking writes with deadlines, short read buffers (message stays available), read deadlines expiring with no data; rejected calls are invisible in the peer read history; blocking-write gate checked white-box.'),
})

SENDER_NOTE = (NOTE_COMMON + ' The L0 model Model/Sender.lean is hand-written (send / acknowledgement paths of association.go, payload_queue.go, '
               'queue.go as a list, stream.go write half); its window tests, window updates, congestion formulas, chunk sizes and the two tests of '
               'onBufferReleased are NOT re-typed: they are Gen.* defs the translator regenerates from those very expressions of /repo on every run '
               '(go/extract/exprs.go), so a changed comparison or formula changes the defs the theorems are about. Tie of the remaining structure '
               '(loop shapes, order of updates): direct-drive correspondence X-assoc - one real Association driven single-threaded under testing/synctest; '
               'after EVERY op the model state (cwnd ssthresh rwnd in-flight/pending bytes and counts, cumulative point, next TSN, per-stream buffered amount and '
               'callback count) and the DATA packets of every gather (lengths, TSNs, fragments) are compared with the implementation. '
               'ORACLES (theorems quantify over all values; the harness records what the real code decided): the TLR burst budget tlrAllowSendLocked '
               '(arbitrary state machine), which pending chunk peek() returns (the pending queue is modelled elsewhere), RACK / PTO loss marks, the number of '
               'T3 expiries while the clock advances. Not modelled: blockWrite, SHUTDOWN cumulative ack, RTT/RACK bookkeeping, timers, goroutines.')

CLAIMS.update({
    'C10': {
        'text': 'Lean theorems over the L0 sender model, for ALL operation lists (write / gather / SACK with arbitrary contents / T3 / clock tick / stream open+drop / '
                'leave+re-enter established), all oracle values, every configuration with MTU < 2^30: C10_admission (each chunk a gather moves to in-flight had '
                'in-flight bytes + len <= cwnd and len <= rwnd at that moment, or is the lone zero-window probe taken with an empty in-flight queue; the admitted '
                'chunks are exactly those appended to the in-flight queue), C10_rwnd_invariant (rwnd + in-flight <= max(last a_rwnd, in-flight)) and '
                'C10_rwnd_after_send (after a non-probe send in-flight <= last advertised window), C10_mtu_bound (every retransmission / new-data / fast-retransmission '
                'packet of a gather is non-empty and marshals to <= MTU, from ANY state), C10_fragment_bound (a chunk of <= maxPayloadSizeForMTU bytes fits behind the '
                'common header; packetize emits fragments of 1..maxPayloadSize bytes adding up to the message), C10_cwnd_floor (MTU <= cwnd), C10_loss_response '
                '(T3: ssthresh = max(cwnd/2, 4 MTU), cwnd = max(MTU, MinCwnd); entry to fast recovery: same ssthresh formula, cwnd = max(ssthresh, MinCwnd), once), '
                'C10_retransmit_window (T3 retransmissions of one gather carry at most min(cwnd, rwnd) user bytes, or are the single probe chunk). '
                'Plus the executable predicate P_C10 on the implementation outputs after every op, and e2e transfer runs.',
        'note': SENDER_NOTE + ' "Cut" is formalised as the RFC 4960 7.2.3 formula (a literal "never larger than before" is false by design below 4 MTU). Loss signals = T3 expiry and '
                'third miss indication outside fast recovery; RACK/PTO marks do not touch cwnd in this implementation (oracle inputs). Window theorems assume the ghost flag '
                'wrapWin is down: no uint32 wrap (< 2^32 bytes in flight, cwnd + increment < 2^32).',
        'technique': 'Lean 4 proof (invariants + induction over op lists with oracle inputs; bv_omega/omega on translator-generated window and size arithmetic) + '
                     'model/implementation differential replay of a direct-driven real Association',
    },
    'C15': {
        'text': 'Lean theorems over the same model and quantification: C15_assoc_exact (pending + in-flight byte counters = user bytes held by the queued chunks, chunk counter exact, '
                'acked chunks hold no bytes - unconditional), C15_stream_exact_partial (per stream BufferedAmount = user bytes of its chunks in pending + in flight), '
                'C15_no_underflow_partial (onBufferReleased never takes its clamp branch), C15_zero_iff_idle_partial, all three under the hypothesis "a stream stays in the '
                "association's table while it has data outstanding\" forced by known deviation D9 (C15_D9_witness / C15_underflow_witness decide the failure without it; the D9 witness "
                'is replayed on the implementation every run), C15_rollback_exact (a write outside established restores buffered amount, SSN and both MID counters, queues nothing), '
                'C15_sack_atomic (in-flight TSNs stay contiguous, hence a SACK that passes the validation is applied completely: the error returns after the first queue modification are unreachable), '
                'C15_callback_crossings (callback invocations = downward crossings of the threshold in the per-operation sequence of buffered amounts; one release per stream and SACK), '
                'C15_callback_unlocked (decided on regenerated control-flow paths of onBufferReleased: Lock, crossing test, copy handler, Unlock, call; and the Unlock/Lock around its only '
                'call site). Plus the executable predicate P_C15 on the implementation outputs (the harness callback TryLocks the association and stream locks) and e2e runs.',
        'note': SENDER_NOTE + ' Per-stream theorems assume the ghost flag wrapBuf is down (no uint64 wrap of bufferedAmount). C15_callback_unlocked is syntactic (lock events per path of one '
                'function, neighbours of the call statement), the harness adds a dynamic TryLock probe; deadlock freedom in general is C20.',
        'technique': 'Lean 4 proof (accounting invariant + induction over op lists; decide on translator-extracted lock paths) + model/implementation differential replay',
    },
})

_PENDING = 'check not built yet in this round (planned, see DESIGN.md §5/§8); not claimed until its theorems and correspondence run'
NOT_APPLICABLE = {p: _PENDING for p in ['C03', 'C11', 'C12', 'C13', 'C17', 'C20']}

NOTES = 'Family of technique: machine-checked proof in Lean 4. See DESIGN.md. Known findings: known_findings.txt.'
