#!/bin/bash
# usage: tools/trymut.sh <patch.diff> <Cnn> [Cnn...]   — apply a seeded change to /repo, run the checks, undo it.
set -u
patch=$1; shift
cd /repo || exit 2
if [ -n "$(git status --porcelain)" ]; then echo "/repo not clean"; exit 2; fi
git apply "$patch" || { echo "patch does not apply"; exit 2; }
trap 'git -C /repo checkout -- . ; git -C /repo clean -fdq' EXIT
cd /verif
for p in "$@"; do
  tier=${TIER:-quick}
  out=$(VERIF_SEED=${VERIF_SEED:-1} ./check "$p" --tier "$tier" 2>&1)
  echo "== $p ($tier): $(echo "$out" | grep -m1 -E '^(VIOLATION|OK)' )"
  echo "$out" | grep -E "violation:|broken:" | head -4 | cut -c1-300
done
