#!/usr/bin/env python3
"""Regenerates the table of seeded changes in DESIGN.md (§10) from seeded/*/meta.json."""
import json, glob, os, re
root = os.path.dirname(os.path.dirname(os.path.abspath(__file__)))
rows, misses = [], []
for d in sorted(glob.glob(root + "/seeded/*/")):
    m = json.load(open(d + "meta.json"))
    sid = os.path.basename(d.rstrip("/"))
    cb = m.get("caught_by") or ["(not yet run)"]
    txt = "; ".join(cb).replace("|", "/")
    status = m.get("status") or ("MISSED" if txt.startswith("NOT CAUGHT") else "caught")
    rows.append(f"| `{sid}` | {m['property']} | {m.get('needs','').replace('|','/')} | {status} | {txt} |")
    if status != "caught":
        misses.append(f"* `{sid}` — {txt}")
table = "| seeded change | property | needs | result | caught by (first check that reports it, and how) |\n|---|---|---|---|---|\n" + "\n".join(rows)
p = root + "/DESIGN.md"
s = open(p).read()
def put(s, name, body):
    b, e = f"<!-- {name}_BEGIN -->", f"<!-- {name}_END -->"
    if b in s:
        return re.sub(re.escape(b) + ".*?" + re.escape(e), lambda _: b + "\n" + body + "\n" + e, s, flags=re.S)
    return s.replace(name, b + "\n" + body + "\n" + e, 1)
s = put(s, "SEEDED_TABLE", table)
s = put(s, "SEEDED_MISSES", "\n".join(misses) if misses else "(none)")
open(p, "w").write(s)
print(len(rows), "rows,", len(misses), "not caught")
