import SctpVerif.Proofs.ReasmOrd
set_option linter.unusedVariables false
set_option linter.unusedSimpArgs false
namespace Reasm
open Gen

/-! ### G4: what a successful read copies -/

theorem copyLoop_err_true (buflen : Int) (cs : List Chunk) (n : Int) (out : List UInt8) :
    (copyLoop buflen cs n true out).2.1 = true := by
  induction cs generalizing n out with
  | nil => rfl
  | cons c cs ih => simp only [copyLoop]; split <;> exact ih ..

theorem copyLoop_ok (buflen : Int) (cs : List Chunk) (n : Int) (out : List UInt8)
    (h : (copyLoop buflen cs n false out).2.1 = false) :
    (copyLoop buflen cs n false out).2.2 = out ++ (cs.map (·.userData)).flatten := by
  induction cs generalizing n out with
  | nil => simp [copyLoop]
  | cons c cs ih =>
    simp only [copyLoop] at h ⊢
    split
    · rename_i hc; rw [if_pos hc, copyLoop_err_true] at h; cases h
    · rename_i hc; rw [if_neg hc] at h
      simp only [Bool.false_eq_true, ↓reduceIte] at h ⊢
      rw [ih _ _ h]; simp

theorem map_getD_range {α} (l : List α) (d : α) : (List.range l.length).map (fun i => l.getD i d) = l := by
  apply List.ext_getElem
  · simp
  · intro i h1 h2
    simp only [List.length_map, List.length_range] at h1
    simp [List.getD_eq_getElem?_getD, List.getElem?_eq_getElem h1]

theorem dataFrags_payload (S : Sender) (k : Nat) :
    (((List.range (S.nf k)).map (S.dataFrag k)).map (·.userData)).flatten = (S.msg k).payload := by
  simp only [List.map_map, Msg.payload]
  have : ((fun c : Chunk => c.userData) ∘ S.dataFrag k) = fun i => (S.msg k).frags.getD i [] := by
    funext i; simp [Sender.dataFrag]
  rw [this]
  simp only [Sender.nf, Msg.nf]
  rw [map_getD_range]

/-! ### the table of messages the ordered DATA containers refine -/

/-- abstract state: per message index the fragment indices held, ascending in both. -/
abbrev Tab := List (Nat × List Nat)

def Sender.concSet (S : Sender) (e : Nat × List Nat) : ChunkSet :=
  { ssn := BitVec.ofNat 16 e.1, ppi := (S.msg e.1).ppi, chunks := e.2.map (S.dataFrag e.1) }

theorem dataFrag_isFragmented (S : Sender) (k j : Nat) (hj : j < S.nf k) :
    (S.dataFrag k j).isFragmented = !(decide (S.nf k = 1)) := by
  simp only [Chunk.isFragmented, Sender.dataFrag]
  by_cases h1 : S.nf k = 1
  · have : j = 0 := by omega
    simp [h1, this]
  · by_cases h0 : j = 0
    · subst h0; simp [h1]; omega
    · simp [h0, h1]

/-- looking up the fragmented set of message `k` in the concrete list = looking `k` up in the table. -/
theorem findFragSet_conc (S : Sender) (k : Nat) (hfr : S.nf k ≠ 1) (A : Tab)
    (hwin : ∀ e ∈ A, e.1 < k + 2^15 ∧ k < e.1 + 2^15)
    (hwf : ∀ e ∈ A, e.2 ≠ [] ∧ ∀ j ∈ e.2, j < S.nf e.1) :
    ((∀ e ∈ A, e.1 ≠ k) ∧ findFragSet (BitVec.ofNat 16 k) (A.map S.concSet) = .notFound) ∨
    (∃ pre js post, A = pre ++ (k, js) :: post ∧
      findFragSet (BitVec.ofNat 16 k) (A.map S.concSet) = .found (pre.map S.concSet) (S.concSet (k, js)) (post.map S.concSet)) := by
  induction A with
  | nil => left; simp [findFragSet]
  | cons e rest ih =>
    have ihr := ih (fun x hx => hwin x (List.mem_cons_of_mem _ hx)) (fun x hx => hwf x (List.mem_cons_of_mem _ hx))
    obtain ⟨k', js'⟩ := e
    have hw := hwin (k', js') (List.mem_cons_self ..)
    have hf := hwf (k', js') (List.mem_cons_self ..)
    simp only [List.map_cons, findFragSet]
    by_cases hk : k' = k
    · subst hk
      right
      refine ⟨[], js', rest, rfl, ?_⟩
      simp only [Sender.concSet, beq_self_eq_true, ↓reduceIte, List.map_nil]
      cases js' with
      | nil => exact absurd rfl hf.1
      | cons j0 tl =>
        simp only [List.map_cons]
        rw [dataFrag_isFragmented S k' j0 (hf.2 j0 (List.mem_cons_self ..))]
        simp [hfr]
    · have hne : ((S.concSet (k', js')).ssn == BitVec.ofNat 16 k) = false := by
        simp only [Sender.concSet, beq_eq_false_iff_ne, ne_eq]
        rw [ofNat16_eq_iff _ _ hw.1 hw.2]; exact hk
      rw [hne]
      simp only [Bool.false_eq_true, ↓reduceIte]
      rcases ihr with ⟨hall, hnf⟩ | ⟨pre, js, post, hA, hfound⟩
      · left
        refine ⟨?_, by rw [hnf]; rfl⟩
        intro x hx
        rcases List.mem_cons.1 hx with rfl | hx
        · exact hk
        · exact hall x hx
      · right
        refine ⟨(k', js') :: pre, js, post, by rw [hA]; rfl, ?_⟩
        rw [hfound]; rfl

end Reasm
