import SctpVerif.Proofs.Reasm
namespace Reasm
open Gen

theorem findFragSet_found {ssn : BitVec 16} {l pre : List ChunkSet} {s post}
    (h : findFragSet ssn l = .found pre s post) : l = pre ++ s :: post := by
  induction l generalizing pre with
  | nil => simp [findFragSet] at h
  | cons x rest ih =>
    have hc : ∀ {pre}, (findFragSet ssn rest).cons x = .found pre s post → x :: rest = pre ++ s :: post := by
      intro pre h
      generalize hr : findFragSet ssn rest = r at h
      cases r <;> simp [FindO.cons] at h
      obtain ⟨rfl, rfl, rfl⟩ := h
      rw [ih hr]; rfl
    simp only [findFragSet] at h
    split at h
    · split at h
      · cases h
      · split at h
        · cases h; rfl
        · exact hc h
    · exact hc h

theorem split3 {α} (l : List α) (a n : Nat) : l.take a ++ ((l.drop a).take n ++ l.drop (a + n)) = l := by
  rw [← List.drop_drop, List.take_append_drop, List.take_append_drop]

theorem findCompleteUnordered_found {uc : List Chunk} {set rest}
    (h : findCompleteUnorderedChunkSet uc = .found set rest) :
    bytesOf set.chunks + bytesOf rest = bytesOf uc ∧ set.chunks.length + rest.length = uc.length := by
  unfold findCompleteUnorderedChunkSet at h
  split at h
  · cases h
  · rename_i start n _
    dsimp only at h
    split at h
    · cases h
    · rename_i c0 tl hch
      cases h
      simp only
      have e := split3 uc start n
      constructor
      · conv => rhs; rw [← e]
        simp only [bytesOf_append]; rw [hch]; omega
      · conv => rhs; rw [← e]
        simp only [List.length_append]; rw [hch]; omega

theorem updMID_spec {mid : BitVec 32} {s' : ChunkSetMID} {l : List ChunkSetMID} {cset}
    (h : l.find? (fun s => s.mid == mid) = some cset) :
    bytesOfMIDSets (updMID mid s' l) + bytesOf cset.chunks = bytesOfMIDSets l + bytesOf s'.chunks ∧
    (updMID mid s' l).length = l.length := by
  induction l with
  | nil => simp at h
  | cons x rest ih =>
    simp only [List.find?_cons] at h
    simp only [updMID]
    split at h
    · rename_i hx; cases h; simp only [hx, if_true, bytesOfMIDSets_cons, List.length_cons]; constructor <;> first | trivial | omega
    · rename_i hx; simp only [hx]; have := ih h
      simp only [bytesOfMIDSets_cons, List.length_cons, Bool.false_eq_true, if_false]; omega

theorem delMID_spec {mid : BitVec 32} {l : List ChunkSetMID} {cset}
    (h : l.find? (fun s => s.mid == mid) = some cset) :
    bytesOfMIDSets (delMID mid l) + bytesOf cset.chunks = bytesOfMIDSets l ∧
    (delMID mid l).length + 1 = l.length := by
  induction l with
  | nil => simp at h
  | cons x rest ih =>
    simp only [List.find?_cons] at h
    simp only [delMID]
    split at h
    · rename_i hx; cases h; simp only [hx, if_true, bytesOfMIDSets_cons, List.length_cons]; constructor <;> first | trivial | omega
    · rename_i hx; simp only [hx]; have := ih h
      simp only [bytesOfMIDSets_cons, List.length_cons, Bool.false_eq_true, if_false]; omega

theorem insertChunkSetByMID_spec (a : List ChunkSetMID) (s : ChunkSetMID) :
    bytesOfMIDSets (insertChunkSetByMID a s) = bytesOfMIDSets a + bytesOf s.chunks ∧
    (insertChunkSetByMID a s).length = a.length + 1 := by
  unfold insertChunkSetByMID
  generalize goSearch _ _ _ _ = k
  constructor
  · have := congrArg bytesOfMIDSets (List.take_append_drop k a)
    simp only [bytesOfMIDSets_append, bytesOfMIDSets_cons] at *
    omega
  · have := congrArg List.length (List.take_append_drop k a)
    simp only [List.length_append, List.length_cons] at *
    omega

theorem pushAndCheck_spec (s : ChunkSetMID) (c : Chunk) :
    ((s.pushAndCheck c).2.2 = false ∧ (s.pushAndCheck c).1 = s) ∨
    ((s.pushAndCheck c).2.2 = true ∧ bytesOf (s.pushAndCheck c).1.chunks = bytesOf s.chunks + c.len ∧
      (s.pushAndCheck c).1.mid = s.mid) := by
  unfold ChunkSetMID.pushAndCheck
  split
  · left; simp
  · split
    · left; simp
    · right; simp [bytesOf_sortFSN]

end Reasm
