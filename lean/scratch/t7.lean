import SctpVerif.Proofs.Reasm
set_option linter.unusedVariables false
set_option linter.unusedSimpArgs false
namespace Reasm
open Gen

/-! ### the counter invariant -/

/-- bytes a single op can add to the queue. -/
def Op.bytes : Op → Nat
  | .push c => c.len
  | _ => 0

def pushedBytes (ops : List Op) : Nat := (ops.map Op.bytes).sum

/-- counter invariant: the counter is the truth, and the truth is bounded by what was ever pushed. -/
def CInv (q : Q) (B : Nat) : Prop := q.nBytes.toNat = q.heldBytes ∧ q.heldBytes ≤ B

theorem CInv_new (si : BitVec 16) (me : BitVec 32) : CInv (new si me) 0 := by
  simp [CInv, new, Q.heldBytes]

theorem CInv_step {q : Q} {B : Nat} (h : CInv q B) (op : Op) (hB : B + op.bytes < 2^63) :
    CInv (q.step op) (B + op.bytes) := by
  obtain ⟨h1, h2⟩ := h
  cases op with
  | push c =>
    simp only [Q.step, Op.bytes] at *
    rcases (pushWithError_effect q c).bytes with ⟨e1, e2⟩ | ⟨e1, e2⟩
    · exact ⟨by rw [e1, e2, h1], by omega⟩
    · refine ⟨?_, by omega⟩
      rw [e1, e2, addBytes_toNat _ _ (by omega), h1]
  | read n =>
    simp only [Q.step, Op.bytes, Nat.add_zero] at *
    rcases read_effect q n with e | ⟨m, e1, e2, _⟩
    · rw [e]; exact ⟨h1, h2⟩
    · refine ⟨?_, by omega⟩
      rw [e2, subBytes_exact _ _ (by omega) (by omega)]; omega
  | fwdO s =>
    simp only [Q.step, Op.bytes, Nat.add_zero, Q.forwardTSNForOrdered] at *
    have hb : bytesOfSets q.ordered ≤ q.nBytes.toNat := by rw [h1]; simp only [Q.heldBytes]; omega
    have := (fwdOrderedLoop_spec s q.ordered q.nBytes hb (by omega))
    simp only [CInv, Q.heldBytes] at *
    constructor <;> omega
  | fwdU t =>
    simp only [Q.step, Op.bytes, Nat.add_zero, Q.forwardTSNForUnordered] at *
    split
    · have hs := bytesOf_take_drop q.unorderedChunks (fwdUnorderedPrefix t q.unorderedChunks)
      have hb : bytesOf (q.unorderedChunks.take (fwdUnorderedPrefix t q.unorderedChunks)) ≤ q.nBytes.toNat := by
        rw [h1]; simp only [Q.heldBytes]; omega
      have := subChunks_exact _ q.nBytes hb (by omega)
      simp only [CInv, Q.heldBytes] at *
      constructor <;> omega
    · exact ⟨h1, h2⟩
  | fwdOM m =>
    simp only [Q.step, Op.bytes, Nat.add_zero, Q.forwardTSNForOrderedMID] at *
    have hb : bytesOfMIDSets q.orderedMID ≤ q.nBytes.toNat := by rw [h1]; simp only [Q.heldBytes]; omega
    have := (fwdOrderedMIDLoop_spec m q.orderedMID q.nBytes hb (by omega))
    simp only [CInv, Q.heldBytes] at *
    constructor <;> omega
  | fwdUM m =>
    simp only [Q.step, Op.bytes, Nat.add_zero, Q.forwardTSNForUnorderedMID] at *
    have hb : bytesOfMIDSets q.unorderedMIDMap ≤ q.nBytes.toNat := by rw [h1]; simp only [Q.heldBytes]; omega
    have := (fwdUnorderedMIDLoop_spec m q.unorderedMIDMap q.nBytes hb (by omega))
    simp only [CInv, Q.heldBytes] at *
    constructor <;> omega

theorem CInv_run {q : Q} {B : Nat} (h : CInv q B) (ops : List Op) (hB : B + pushedBytes ops < 2^63) :
    CInv (q.run ops) (B + pushedBytes ops) := by
  induction ops generalizing q B with
  | nil => simpa [Q.run, pushedBytes] using h
  | cons op ops ih =>
    simp only [pushedBytes, List.map_cons, List.sum_cons] at hB ⊢
    have := ih (CInv_step h op (by omega)) (by simp only [pushedBytes]; omega)
    simp only [Q.run, List.foldl_cons] at this ⊢
    simp only [pushedBytes] at this
    rw [Nat.add_assoc] at this
    exact this

end Reasm
