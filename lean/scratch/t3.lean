import SctpVerif.Proofs.Reasm
set_option linter.unusedVariables false
namespace Reasm
open Gen
-- (t2 lemmas assumed)
theorem findFragSet_found {ssn : BitVec 16} {l pre : List ChunkSet} {s post}
    (h : findFragSet ssn l = .found pre s post) : l = pre ++ s :: post := by sorry
theorem findCompleteUnordered_found {uc : List Chunk} {set rest}
    (h : findCompleteUnorderedChunkSet uc = .found set rest) :
    bytesOf set.chunks + bytesOf rest = bytesOf uc ∧ set.chunks.length + rest.length = uc.length := by sorry
theorem updMID_spec {mid : BitVec 32} {s' : ChunkSetMID} {l : List ChunkSetMID} {cset}
    (h : l.find? (fun s => s.mid == mid) = some cset) :
    bytesOfMIDSets (updMID mid s' l) + bytesOf cset.chunks = bytesOfMIDSets l + bytesOf s'.chunks ∧
    (updMID mid s' l).length = l.length := by sorry
theorem delMID_spec {mid : BitVec 32} {l : List ChunkSetMID} {cset}
    (h : l.find? (fun s => s.mid == mid) = some cset) :
    bytesOfMIDSets (delMID mid l) + bytesOf cset.chunks = bytesOfMIDSets l ∧
    (delMID mid l).length + 1 = l.length := by sorry
theorem insertChunkSetByMID_spec (a : List ChunkSetMID) (s : ChunkSetMID) :
    bytesOfMIDSets (insertChunkSetByMID a s) = bytesOfMIDSets a + bytesOf s.chunks ∧
    (insertChunkSetByMID a s).length = a.length + 1 := by sorry
theorem pushAndCheck_spec (s : ChunkSetMID) (c : Chunk) :
    ((s.pushAndCheck c).2.2 = false ∧ (s.pushAndCheck c).1 = s) ∨
    ((s.pushAndCheck c).2.2 = true ∧ bytesOf (s.pushAndCheck c).1.chunks = bytesOf s.chunks + c.len ∧
      (s.pushAndCheck c).1.mid = s.mid) := by sorry

/-- what one `pushWithError` may do to the byte counter, the held bytes and the four limited counts. -/
structure PushEffect (q q' : Q) (c : Chunk) : Prop where
  bytes : (q'.heldBytes = q.heldBytes ∧ q'.nBytes = q.nBytes) ∨
          (q'.heldBytes = q.heldBytes + c.len ∧ q'.nBytes = q.nBytes + BitVec.ofNat 64 c.len)
  me : q'.maxEntries = q.maxEntries
  oe : q'.orderedDataEntryCount = q.orderedDataEntryCount ∨
       (q'.orderedDataEntryCount = q.orderedDataEntryCount + 1 ∧ q.isDataLimitReached q.orderedDataEntryCount = false)
  ue : q'.unorderedDataEntryCount = q.unorderedDataEntryCount ∨
       (q'.unorderedDataEntryCount = q.unorderedDataEntryCount + 1 ∧ q.isDataLimitReached q.unorderedDataEntryCount = false)
  om : q'.orderedMID.length = q.orderedMID.length ∨
       (q'.orderedMID.length = q.orderedMID.length + 1 ∧ q.isMIDLimitReached q.orderedMID.length = false)
  um : q'.unorderedMIDEntryCount = q.unorderedMIDEntryCount ∨
       (q'.unorderedMIDEntryCount = q.unorderedMIDEntryCount + 1 ∧ q.isMIDLimitReached q.unorderedMIDEntryCount = false)

theorem PushEffect.refl (q : Q) (c : Chunk) : PushEffect q q c :=
  ⟨.inl ⟨rfl, rfl⟩, rfl, .inl rfl, .inl rfl, .inl rfl, .inl rfl⟩

theorem pushOrderedIData_effect (q : Q) (c : Chunk) : PushEffect q (q.pushOrderedIData c).1 c := by
  unfold Q.pushOrderedIData
  split
  · exact .refl q c
  · split
    · rename_i cset hf
      rcases pushAndCheck_spec cset c with ⟨ha, he⟩ | ⟨ha, hb, hm⟩
      · simp only [ha, Bool.not_true, Bool.not_false, Bool.false_eq_true, ↓reduceIte]; exact .refl q c
      · have hu := updMID_spec (s' := (cset.pushAndCheck c).1) hf
        simp only [ha, Bool.not_true, Bool.not_false, Bool.false_eq_true, ↓reduceIte]
        refine ⟨.inr ⟨?_, ?_⟩, rfl, .inl rfl, .inl rfl, .inl ?_, .inl rfl⟩
        · simp only [Q.heldBytes, Q.addBytes]; omega
        · simp [Q.addBytes]
        · simp [Q.addBytes, hu.2]
    · split
      · exact .refl q c
      · rename_i hlim
        rcases pushAndCheck_spec (newChunkSetMID c.mid c.ppi) c with ⟨ha, he⟩ | ⟨ha, hb, hm⟩
        · simp only [ha, Bool.not_true, Bool.not_false, Bool.false_eq_true, ↓reduceIte]
          have hi := insertChunkSetByMID_spec q.orderedMID (newChunkSetMID c.mid c.ppi)
          refine ⟨.inl ⟨?_, rfl⟩, rfl, .inl rfl, .inl rfl, .inr ⟨?_, ?_⟩, .inl rfl⟩
          · simp only [Q.heldBytes]; rw [hi.1]; simp [newChunkSetMID]
          · simp [hi.2]
          · simpa using hlim
        · simp only [ha, Bool.not_true, Bool.not_false, Bool.false_eq_true, ↓reduceIte]
          have hi := insertChunkSetByMID_spec q.orderedMID ((newChunkSetMID c.mid c.ppi).pushAndCheck c).1
          refine ⟨.inr ⟨?_, ?_⟩, rfl, .inl rfl, .inl rfl, .inr ⟨?_, ?_⟩, .inl rfl⟩
          · simp only [Q.heldBytes, Q.addBytes]; rw [hi.1, hb]; simp [newChunkSetMID]; omega
          · simp [Q.addBytes]
          · simp [Q.addBytes, hi.2]
          · simpa using hlim

end Reasm
