import SctpVerif.Proofs.ReasmOrd
set_option linter.unusedVariables false
set_option linter.unusedSimpArgs false
namespace Reasm
open Gen

/-! ### the honest sender's universe (what `Stream.packetize` + TSN assignment produce) -/

/-- a user message: PPI and the pieces `packetize` cuts the payload into (at least one). -/
structure Msg where
  ppi   : PPI
  frags : List (List UInt8)
deriving Repr, DecidableEq, Inhabited

def Msg.nf (m : Msg) : Nat := m.frags.length
def Msg.payload (m : Msg) : List UInt8 := m.frags.flatten

structure Sender where
  si   : BitVec 16
  t0   : BitVec 32          -- TSN of the first fragment of the first message (any value)
  msgs : List Msg
deriving Inhabited

def Sender.msg (S : Sender) (k : Nat) : Msg := S.msgs.getD k default
def Sender.nf (S : Sender) (k : Nat) : Nat := (S.msg k).nf
/-- number of fragments of all messages before message `k` (consecutive TSNs per message). -/
def Sender.base (S : Sender) (k : Nat) : Nat := ((S.msgs.take k).map Msg.nf).sum

/-- ordered DATA fragment `i` of message `k`: SSN = `k` (mod 2^16), TSN consecutive, B/E at the ends,
every fragment carries the PPI. -/
def Sender.dataFrag (S : Sender) (k i : Nat) : Chunk :=
  { tsn := S.t0 + BitVec.ofNat 32 (S.base k + i), si := S.si, ssn := BitVec.ofNat 16 k,
    unordered := false, bf := i == 0, ef := i + 1 == S.nf k, iData := false,
    ppi := (S.msg k).ppi, userData := (S.msg k).frags.getD i [] }

/-- messages well formed: at least one fragment, fewer than 2^31 fragments each. -/
def Sender.WF (S : Sender) : Prop := ∀ m ∈ S.msgs, 1 ≤ m.nf ∧ m.nf < 2^31

theorem Sender.nf_pos (S : Sender) (h : S.WF) {k : Nat} (hk : k < S.msgs.length) :
    1 ≤ S.nf k ∧ S.nf k < 2^31 := by
  have : S.msg k ∈ S.msgs := by
    simp only [Sender.msg, List.getD_eq_getElem?_getD, List.getElem?_eq_getElem hk, Option.getD_some]
    exact List.getElem_mem hk
  exact h _ this

/-! ### G3: a TSN-sorted set of fragments of one message is complete only if it is all of them -/

theorem dataFrag_tsn_succ (S : Sender) (k i j N : Nat) (hN : N < 2^31) (hi : i < N) (hj : j < N)
    (h : (S.dataFrag k j).tsn = (S.dataFrag k i).tsn + 1) : j = i + 1 := by
  simp only [Sender.dataFrag] at h
  have h' : BitVec.ofNat 32 (S.base k + j) = BitVec.ofNat 32 (S.base k + i + 1) := by
    have : BitVec.ofNat 32 (S.base k + i + 1) = BitVec.ofNat 32 (S.base k + i) + 1 := by
      rw [BitVec.ofNat_add]; rfl
    rw [this]; bv_omega
  have := (ofNat32_eq_iff _ _ (by omega) (by omega)).1 h'
  omega

theorem tsnContig_range (S : Sender) (k N : Nat) (hN : N < 2^31) (i : Nat) (js : List Nat)
    (hi : i < N) (hjs : ∀ j ∈ js, j < N)
    (h : tsnContig (S.dataFrag k i).tsn (js.map (S.dataFrag k)) = true) :
    js = List.range' (i + 1) js.length := by
  induction js generalizing i with
  | nil => rfl
  | cons j rest ih =>
    simp only [List.map_cons, tsnContig] at h
    split at h
    · cases h
    · rename_i hne
      simp only [bne_iff_ne, ne_eq, Decidable.not_not] at hne
      have hjN := hjs j (List.mem_cons_self ..)
      have hj := dataFrag_tsn_succ S k i j N hN hi hjN hne
      subst hj
      have := ih (i + 1) hjN (fun x hx => hjs x (List.mem_cons_of_mem _ hx)) h
      simp only [List.length_cons, List.range'_succ]
      rw [← this]

theorem getLast_map_range' {α} (f : Nat → α) (n s : Nat) (h) :
    ((List.range' s (n + 1)).map f).getLast h = f (s + n) := by
  induction n generalizing s with
  | zero => simp
  | succ n ih =>
    have e : List.range' s (n + 1 + 1) = s :: List.range' (s + 1) (n + 1) := by rw [List.range'_succ]
    simp only [e, List.map_cons]
    rw [List.getLast_cons (by simp)]
    rw [ih (s + 1)]
    congr 1; omega

/-- G3: completeness of a set of fragments of message `k` forces it to be fragments `0 … nf-1`. -/
theorem complete_imp_all (S : Sender) (k : Nat) (js : List Nat) (hnf : S.nf k < 2^31)
    (hjs : ∀ j ∈ js, j < S.nf k)
    (h : chunksComplete (js.map (S.dataFrag k)) = true) : js = List.range (S.nf k) := by
  cases js with
  | nil => simp [chunksComplete] at h
  | cons j0 rest =>
    simp only [List.map_cons, chunksComplete] at h
    split at h
    · cases h
    · rename_i hb
      split at h
      · cases h
      · rename_i he
        have hb' : j0 = 0 := by simpa [Sender.dataFrag] using hb
        subst hb'
        have hc := tsnContig_range S k (S.nf k) hnf 0 rest (hjs 0 (List.mem_cons_self ..))
          (fun j hj => hjs j (List.mem_cons_of_mem _ hj)) h
        have e : S.dataFrag k 0 :: rest.map (S.dataFrag k) = (List.range' 0 (rest.length + 1)).map (S.dataFrag k) := by
          rw [List.range'_succ, List.map_cons, ← hc]
        have hlast : ((S.dataFrag k 0 :: rest.map (S.dataFrag k)).getLast (List.cons_ne_nil _ _)).ef = true := by
          simpa using he
        simp only [e] at hlast
        rw [getLast_map_range'] at hlast
        have hef : rest.length + 1 = S.nf k := by simpa [Sender.dataFrag] using hlast
        rw [List.range_eq_range', ← hef, List.range'_succ, ← hc]

end Reasm
