import SctpVerif.Proofs.ReasmOrd
set_option linter.unusedVariables false
set_option linter.unusedSimpArgs false
namespace Reasm
open Gen

/-! ### converse: all fragments of a message form a complete set -/

theorem tsnContig_of_range (S : Sender) (k i n : Nat) :
    tsnContig (S.dataFrag k i).tsn ((List.range' (i + 1) n).map (S.dataFrag k)) = true := by
  induction n generalizing i with
  | zero => simp [tsnContig]
  | succ n ih =>
    rw [List.range'_succ, List.map_cons, tsnContig]
    have : ((S.dataFrag k (i + 1)).tsn != (S.dataFrag k i).tsn + 1) = false := by
      simp only [Sender.dataFrag, bne_eq_false_iff_eq]
      have : BitVec.ofNat 32 (S.base k + (i + 1)) = BitVec.ofNat 32 (S.base k + i) + 1 := by
        rw [← Nat.add_assoc, BitVec.ofNat_add]; rfl
      rw [this]; bv_omega
    simp only [this, Bool.false_eq_true, ↓reduceIte]
    exact ih (i + 1)

theorem all_imp_complete (S : Sender) (k : Nat) (hnf : 1 ≤ S.nf k) :
    chunksComplete ((List.range (S.nf k)).map (S.dataFrag k)) = true := by
  obtain ⟨n, hn⟩ : ∃ n, S.nf k = n + 1 := ⟨S.nf k - 1, by omega⟩
  rw [List.range_eq_range', hn, List.range'_succ, List.map_cons, chunksComplete]
  have h1 : (!(S.dataFrag k 0).bf) = false := by simp [Sender.dataFrag]
  have h2 : (!((S.dataFrag k 0 :: (List.range' (0 + 1) n).map (S.dataFrag k)).getLast (List.cons_ne_nil _ _)).ef) = false := by
    have e : S.dataFrag k 0 :: (List.range' (0 + 1) n).map (S.dataFrag k) = (List.range' 0 (n + 1)).map (S.dataFrag k) := by
      rw [List.range'_succ, List.map_cons]
    simp only [e]
    rw [getLast_map_range']
    simp [Sender.dataFrag, hn]
  simp only [h1, h2, Bool.false_eq_true, ↓reduceIte]
  exact tsnContig_of_range S k 0 n

theorem fsnContig_of_range (S : Sender) (τ) (k i n : Nat) :
    fsnContig (S.idataFrag τ k i).fsn ((List.range' (i + 1) n).map (S.idataFrag τ k)) = true := by
  induction n generalizing i with
  | zero => simp [fsnContig]
  | succ n ih =>
    rw [List.range'_succ, List.map_cons, fsnContig]
    have : ((S.idataFrag τ k (i + 1)).fsn != (S.idataFrag τ k i).fsn + 1) = false := by
      simp only [Sender.idataFrag, bne_eq_false_iff_eq]
      rw [BitVec.ofNat_add]; rfl
    simp only [this, Bool.false_eq_true, ↓reduceIte]
    exact ih (i + 1)

theorem all_imp_completeMID (S : Sender) (τ) (k : Nat) (hnf : 1 ≤ S.nf k) :
    chunksCompleteMID ((List.range (S.nf k)).map (S.idataFrag τ k)) = true := by
  obtain ⟨n, hn⟩ : ∃ n, S.nf k = n + 1 := ⟨S.nf k - 1, by omega⟩
  rw [List.range_eq_range', hn, List.range'_succ, List.map_cons, chunksCompleteMID]
  have h1 : (!(S.idataFrag τ k 0).bf) = false := by simp [Sender.idataFrag]
  have h2 : (!((S.idataFrag τ k 0 :: (List.range' (0 + 1) n).map (S.idataFrag τ k)).getLast (List.cons_ne_nil _ _)).ef) = false := by
    have e : S.idataFrag τ k 0 :: (List.range' (0 + 1) n).map (S.idataFrag τ k)
        = (List.range' 0 (n + 1)).map (S.idataFrag τ k) := by
      rw [List.range'_succ, List.map_cons]
    simp only [e]
    rw [getLast_map_range']
    simp [Sender.idataFrag, hn]
  have h3 : ((S.idataFrag τ k 0).fsn != 0) = false := by simp [Sender.idataFrag]
  simp only [h1, h2, h3, Bool.false_eq_true, ↓reduceIte]
  exact fsnContig_of_range S τ k 0 n

end Reasm
