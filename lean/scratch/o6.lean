import SctpVerif.Proofs.ReasmOrd
set_option linter.unusedVariables false
set_option linter.unusedSimpArgs false
namespace Reasm
open Gen

/-- a read on a refined state: either nothing is delivered and the queue is unchanged, or exactly
message `d` is delivered (PPI and payload) and the state refines the table without it. -/
theorem OrdInv.read {S q d A P} (h : OrdInv S q d A P) (hS : S.WF) (n : Nat) :
    ((q.read n).2.err ≠ .ok ∧ (q.read n).1 = q) ∨
    ((q.read n).2.err = .ok ∧ d < S.msgs.length ∧ (q.read n).2.ppi = (S.msg d).ppi ∧
      (q.read n).2.data = (S.msg d).payload ∧ ∃ A', OrdInv S (q.read n).1 (d + 1) A' P) := by
  unfold Q.read
  simp only [h.il, Bool.false_eq_true, ↓reduceIte, h.un, h.ord]
  cases hA : A with
  | nil => left; simp [ReadRes.tryAgain]
  | cons e rest =>
    obtain ⟨k, js⟩ := e
    subst hA
    have hin : (k, js) ∈ (k, js) :: rest := List.mem_cons_self ..
    have hwin := h.win _ hin
    have hwf := h.wf _ hin
    simp only at hwin hwf
    simp only [List.map_cons]
    by_cases hc : (S.concSet (k, js)).isComplete = true
    · simp only [hc, Bool.not_true, Bool.false_eq_true, ↓reduceIte]
      have hgt : sna16GT (S.concSet (k, js)).ssn q.nextSSN = decide (d < k) := by
        rw [h.cur]; simp only [Sender.concSet]
        exact sna16GT_ofNat _ _ (by omega) (by omega)
      rw [hgt]
      by_cases hdk : d < k
      · left; simp [hdk, ReadRes.tryAgain]
      · have hkd : k = d := by omega
        subst hkd
        simp only [hdk, decide_false, Bool.false_eq_true, ↓reduceIte]
        have hnf := S.nf_pos hS hwin.2.2
        have hall : js = List.range (S.nf k) :=
          complete_imp_all S k js hnf.2 hwf.2.2 (by simpa [ChunkSet.isComplete, Sender.concSet] using hc)
        cases herr : (copyLoop (n : Int) (S.concSet (k, js)).chunks 0 false []).2.1 with
        | true => left; simp [herr]
        | false =>
          right
          have hdata := copyLoop_ok _ _ _ _ herr
          simp only [herr, Bool.false_eq_true, ↓reduceIte]
          refine ⟨trivial, hwin.2.2, rfl, ?_, rest, ?_⟩
          · rw [hdata]; simp only [Sender.concSet, List.nil_append, hall]
            exact dataFrags_payload S k
          · have hs := h.sorted
            rw [List.pairwise_cons] at hs
            refine
              { si := by simp [Q.subtractNumBytes, h.si], il := by simp [Q.subtractNumBytes], un := by simp [Q.subtractNumBytes], cur := ?_, ord := by simp [Q.subtractNumBytes],
                sorted := hs.2, win := ?_, wf := fun e he => h.wf e (List.mem_cons_of_mem _ he),
                pushed := fun e he => h.pushed e (List.mem_cons_of_mem _ he), done := ?_ }
            · simp only [Q.subtractNumBytes, Sender.concSet, h.cur, beq_self_eq_true, ↓reduceIte]
              rw [BitVec.ofNat_add]; rfl
            · intro e he
              have := h.win e (List.mem_cons_of_mem _ he)
              have := hs.1 e he
              simp only at this; omega
            · intro k' hk' i hi
              rcases Nat.lt_or_ge k' k with hlt | hge
              · exact h.done k' hlt i hi
              · have : k' = k := by omega
                subst this
                refine h.pushed _ hin i ?_
                simp only [hall, List.mem_range]; exact hi
    · left
      simp only [Bool.not_eq_true] at hc
      simp [hc, ReadRes.tryAgain]

end Reasm
