import SctpVerif.Proofs.ReasmOrd
set_option linter.unusedVariables false
set_option linter.unusedSimpArgs false
namespace Reasm
open Gen

/-! ### I-DATA: the table the ordered MID containers refine -/

def Sender.concSetMID (S : Sender) (τ : Nat → Nat → BitVec 32) (e : Nat × List Nat) : ChunkSetMID :=
  { mid := BitVec.ofNat 32 e.1, ppi := if 0 ∈ e.2 then (S.msg e.1).ppi else 0,
    chunks := e.2.map (S.idataFrag τ e.1) }

theorem findMID_conc (S : Sender) (τ) (k : Nat) (A : Tab)
    (hwin : ∀ e ∈ A, e.1 < k + 2^31 ∧ k < e.1 + 2^31) :
    ((∀ e ∈ A, e.1 ≠ k) ∧ (A.map (S.concSetMID τ)).find? (fun s => s.mid == BitVec.ofNat 32 k) = none) ∨
    (∃ pre js post, A = pre ++ (k, js) :: post ∧
      (A.map (S.concSetMID τ)).find? (fun s => s.mid == BitVec.ofNat 32 k) = some (S.concSetMID τ (k, js)) ∧
      ∀ s', updMID (BitVec.ofNat 32 k) s' (A.map (S.concSetMID τ)) =
        pre.map (S.concSetMID τ) ++ s' :: post.map (S.concSetMID τ)) := by
  induction A with
  | nil => left; simp
  | cons e rest ih =>
    have ihr := ih (fun x hx => hwin x (List.mem_cons_of_mem _ hx))
    obtain ⟨k', js'⟩ := e
    have hw := hwin (k', js') (List.mem_cons_self ..)
    simp only at hw
    by_cases hk : k' = k
    · subst hk
      right
      refine ⟨[], js', rest, rfl, ?_, ?_⟩
      · simp [Sender.concSetMID]
      · intro s'; simp [updMID, Sender.concSetMID]
    · have hne : ((S.concSetMID τ (k', js')).mid == BitVec.ofNat 32 k) = false := by
        simp only [Sender.concSetMID, beq_eq_false_iff_ne, ne_eq]
        rw [ofNat32_eq_iff _ _ hw.1 hw.2]; exact hk
      rcases ihr with ⟨hall, hnf⟩ | ⟨pre, js, post, hA, hfound, hupd⟩
      · left
        refine ⟨?_, ?_⟩
        · intro x hx
          rcases List.mem_cons.1 hx with rfl | hx
          · exact hk
          · exact hall x hx
        · simp only [List.map_cons, List.find?_cons, hne]; exact hnf
      · right
        refine ⟨(k', js') :: pre, js, post, by rw [hA]; rfl, ?_, ?_⟩
        · simp only [List.map_cons, List.find?_cons, hne]; exact hfound
        · intro s'
          simp only [List.map_cons, updMID, hne, Bool.false_eq_true, ↓reduceIte, List.cons_append]
          rw [hupd s']

/-- inserting a fresh MID by binary search = inserting the entry at its place in the sorted table. -/
theorem insertMID_conc (S : Sender) (τ) (x : Nat × List Nat) (A : Tab) (d : Nat)
    (hsorted : A.Pairwise (fun a b => a.1 < b.1))
    (hwin : ∀ e ∈ A, d ≤ e.1 ∧ e.1 < d + 2^31) (hx : d ≤ x.1 ∧ x.1 < d + 2^31)
    (hfresh : ∀ e ∈ A, e.1 ≠ x.1) :
    ∃ A' : Tab, insertChunkSetByMID (A.map (S.concSetMID τ)) (S.concSetMID τ x) = A'.map (S.concSetMID τ) ∧
      A'.Pairwise (fun a b => a.1 < b.1) ∧ (∀ e, e ∈ A' ↔ e ∈ A ∨ e = x) := by
  unfold insertChunkSetByMID
  -- the search predicate in terms of the table
  let f : Nat → Bool := fun i => match (A.map (S.concSetMID τ))[i]? with
    | some s => !sna32LT s.mid (S.concSetMID τ x).mid
    | none => true
  have hf : ∀ i (hi : i < A.length), f i = decide (x.1 < A[i].1) := by
    intro i hi
    simp only [f, List.getElem?_map, List.getElem?_eq_getElem hi, Option.map_some]
    have hw := hwin A[i] (List.getElem_mem hi)
    have hne := hfresh A[i] (List.getElem_mem hi)
    simp only [Sender.concSetMID]
    rw [sna32LT_ofNat _ _ (by omega) (by omega)]
    simp only [Bool.not_eq_eq_eq_not, Bool.not_not, decide_eq_decide] 
    by_cases h1 : A[i].1 < x.1
    · simp [h1]; omega
    · simp [h1]; omega
  have hmono : ∀ a b, a ≤ b → b < A.length → f a = true → f b = true := by
    intro a b hab hb hfa
    have ha : a < A.length := by omega
    rw [hf a ha] at hfa; rw [hf b hb]
    simp only [decide_eq_true_eq] at hfa ⊢
    rcases Nat.lt_or_ge a b with hlt | hge
    · have := List.pairwise_iff_getElem.1 hsorted a b ha hb hlt; omega
    · have : a = b := by omega
      subst this; exact hfa
  have hlen : (A.map (S.concSetMID τ)).length = A.length := by simp
  rw [hlen]
  obtain ⟨_, hr2, hr3, hr4⟩ := goSearch_spec f A.length hmono (A.length + 1) 0 A.length (by omega) (by omega) (by omega)
    (by intro x hx; omega) (by intro x h1 h2; omega)
  generalize goSearch f (A.length + 1) 0 A.length = r at hr2 hr3 hr4
  refine ⟨A.take r ++ x :: A.drop r, ?_, ?_, ?_⟩
  · simp [List.map_take, List.map_drop]
  · have hs := hsorted
    rw [← List.take_append_drop r A, List.pairwise_append] at hs
    rw [List.pairwise_append, List.pairwise_cons]
    refine ⟨hs.1, ⟨?_, hs.2.1⟩, ?_⟩
    · intro b hb
      obtain ⟨i, hi, rfl⟩ := List.mem_iff_getElem.1 hb
      simp only [List.length_drop] at hi
      rw [List.getElem_drop]
      have := hr4 (r + i) (by omega) (by omega)
      rw [hf _ (by omega)] at this
      simpa using this
    · intro a ha b hb
      rcases List.mem_cons.1 hb with rfl | hb
      · obtain ⟨i, hi, rfl⟩ := List.mem_iff_getElem.1 ha
        simp only [List.length_take] at hi
        rw [List.getElem_take]
        have := hr3 i (by omega)
        rw [hf _ (by omega)] at this
        simp only [decide_eq_false_iff_not] at this
        have hne := hfresh A[i] (List.getElem_mem (by omega))
        omega
      · exact hs.2.2 a ha b hb
  · intro e
    simp only [List.mem_append, List.mem_cons]
    have : e ∈ A ↔ e ∈ A.take r ∨ e ∈ A.drop r := by
      have h := @List.mem_append _ e (A.take r) (A.drop r)
      rw [List.take_append_drop] at h; exact h
    rw [this]
    constructor
    · rintro (h | h | h)
      · exact .inl (.inl h)
      · exact .inr h
      · exact .inl (.inr h)
    · rintro ((h | h) | h)
      · exact .inl h
      · exact .inr (.inr h)
      · exact .inr (.inl h)

end Reasm
