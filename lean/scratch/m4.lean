import SctpVerif.Proofs.ReasmOrd
set_option linter.unusedVariables false
set_option linter.unusedSimpArgs false
namespace Reasm
open Gen

theorem MidInv.read {S τ q d A P} (h : MidInv S τ q d A P) (hS : S.WF) (n : Nat) :
    ((q.read n).2.err ≠ .ok ∧ (q.read n).1 = q) ∨
    ((q.read n).2.err = .ok ∧ d < S.msgs.length ∧ (q.read n).2.ppi = (S.msg d).ppi ∧
      (q.read n).2.data = (S.msg d).payload ∧ ∃ A', MidInv S τ (q.read n).1 (d + 1) A' P) := by
  unfold Q.read
  cases hil : q.useInterleaving with
  | false =>
    left
    simp [h.un, h.od, ReadRes.tryAgain]
  | true =>
    simp only [↓reduceIte, h.um, h.ord]
    cases hA : A with
    | nil => left; simp [ReadRes.tryAgain]
    | cons e rest =>
      obtain ⟨k, js⟩ := e
      subst hA
      have hin : (k, js) ∈ (k, js) :: rest := List.mem_cons_self ..
      have hwin := h.win _ hin
      have hwf := h.wf _ hin
      simp only at hwin hwf
      simp only [List.map_cons]
      by_cases hc : (S.concSetMID τ (k, js)).isComplete = true
      · simp only [hc, Bool.not_true, Bool.false_eq_true, ↓reduceIte]
        have hgt : sna32GT (S.concSetMID τ (k, js)).mid q.nextMID = decide (d < k) := by
          rw [h.cur]; simp only [Sender.concSetMID]
          exact sna32GT_ofNat _ _ (by omega) (by omega)
        rw [hgt]
        by_cases hdk : d < k
        · left; simp [hdk, ReadRes.tryAgain]
        · have hkd : k = d := by omega
          subst hkd
          simp only [hdk, decide_false, Bool.false_eq_true, ↓reduceIte]
          have hnf := S.nf_pos hS hwin.2.2
          have hall : js = List.range (S.nf k) :=
            completeMID_imp_all S τ k js hnf.2 hwf.2.2 (by simpa [ChunkSetMID.isComplete, Sender.concSetMID] using hc)
          cases herr : (copyLoop (n : Int) (S.concSetMID τ (k, js)).chunks 0 false []).2.1 with
          | true => left; simp [herr]
          | false =>
            right
            have hdata := copyLoop_ok _ _ _ _ herr
            simp only [herr, Bool.false_eq_true, ↓reduceIte]
            refine ⟨trivial, hwin.2.2, ?_, ?_, rest, ?_⟩
            · have : 0 ∈ js := by rw [hall]; simp; omega
              simp [Sender.concSetMID, this]
            · rw [hdata]; simp only [Sender.concSetMID, List.nil_append, hall]
              exact idataFrags_payload S τ k
            · have hs := h.sorted
              rw [List.pairwise_cons] at hs
              refine
                { si := by simp [Q.subtractNumBytes, h.si], il := by simp [Q.subtractNumBytes, hil],
                  un := by simp [Q.subtractNumBytes, h.un], od := by simp [Q.subtractNumBytes, h.od],
                  um := by simp [Q.subtractNumBytes], cur := ?_, ord := by simp [Q.subtractNumBytes],
                  sorted := hs.2, win := ?_, wf := fun e he => h.wf e (List.mem_cons_of_mem _ he),
                  pushed := fun e he => h.pushed e (List.mem_cons_of_mem _ he), done := ?_ }
              · simp only [Q.subtractNumBytes, Sender.concSetMID, h.cur, beq_self_eq_true, ↓reduceIte]
                rw [BitVec.ofNat_add]; rfl
              · intro e he
                have := h.win e (List.mem_cons_of_mem _ he)
                have := hs.1 e he
                simp only at this; omega
              · intro k' hk' i hi
                rcases Nat.lt_or_ge k' k with hlt | hge
                · exact h.done k' hlt i hi
                · have : k' = k := by omega
                  subst this
                  refine h.pushed _ hin i ?_
                  simp only [hall, List.mem_range]; exact hi
      · left
        simp only [Bool.not_eq_true] at hc
        simp [hc, ReadRes.tryAgain]

theorem MidInv.prefix {S : Sender} {τ} (hS : S.WF) (ops : List HOp) {q d A P} (h : MidInv S τ q d A P)
    (hadm : S.Admissible (S.idataFrag τ) (2^31) q d P ops) :
    S.deliveries (S.idataFrag τ) q ops <+: (S.msgs.drop d).map Msg.out := by
  induction ops generalizing q d A P with
  | nil => simp [Sender.deliveries]
  | cons op ops ih =>
    cases op with
    | push k i =>
      simp only [Sender.Admissible] at hadm
      obtain ⟨hk, hi, hP, hw, hrest⟩ := hadm
      obtain ⟨A', h'⟩ := h.push hS hk hi hP hw
      simp only [Sender.deliveries]
      exact ih h' hrest
    | read n =>
      simp only [Sender.Admissible] at hadm
      simp only [Sender.deliveries]
      rcases h.read hS n with ⟨hne, hq⟩ | ⟨hok, hd, hppi, hdata, A', h'⟩
      · rw [if_neg hne] at hadm ⊢
        rw [hq] at hadm ⊢
        simpa using ih h hadm
      · rw [if_pos hok] at hadm ⊢
        have hdrop : S.msgs.drop d = S.msgs[d] :: S.msgs.drop (d + 1) := (List.drop_eq_getElem_cons hd)
        have hmsg : S.msg d = S.msgs[d] := by
          simp [Sender.msg, List.getD_eq_getElem?_getD, List.getElem?_eq_getElem hd]
        rw [hdrop, List.map_cons, hppi, hdata, hmsg]
        simp only [List.singleton_append, Msg.out]
        exact (List.prefix_cons_inj _).2 (ih h' hadm)

end Reasm
