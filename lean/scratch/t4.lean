import SctpVerif.Proofs.Reasm
set_option linter.unusedVariables false
set_option linter.unusedSimpArgs false
namespace Reasm
open Gen

theorem pushUnorderedIData_effect (q : Q) (c : Chunk) : PushEffect q (q.pushUnorderedIData c).1 c := by
  unfold Q.pushUnorderedIData
  split
  · exact .refl q c
  · dsimp only
    split
    · rename_i cset hf
      rcases pushAndCheck_spec cset c with ⟨ha, he⟩ | ⟨ha, hb, hm⟩
      · simp only [ha, Bool.not_true, Bool.not_false, Bool.false_eq_true, ↓reduceIte]; exact .refl q c
      · simp only [ha, Bool.not_true, Bool.not_false, Bool.false_eq_true, ↓reduceIte]
        split
        · have hd := delMID_spec hf
          refine ⟨.inr ⟨?_, ?_⟩, rfl, .inl rfl, .inl rfl, .inl rfl, .inl ?_⟩
          · simp only [Q.heldBytes, Q.addBytes, bytesOfMIDSets_append, bytesOfMIDSets_cons, bytesOfMIDSets_nil]; omega
          · simp [Q.addBytes]
          · simp only [Q.unorderedMIDEntryCount, Q.addBytes, List.length_append, List.length_cons, List.length_nil]; omega
        · have hu := updMID_spec (s' := (cset.pushAndCheck c).1) hf
          refine ⟨.inr ⟨?_, ?_⟩, rfl, .inl rfl, .inl rfl, .inl rfl, .inl ?_⟩
          · simp only [Q.heldBytes, Q.addBytes]; omega
          · simp [Q.addBytes]
          · simp only [Q.unorderedMIDEntryCount, Q.addBytes]; omega
    · rename_i hnf
      split
      · exact .refl q c
      · rename_i hlim
        have hf : (q.unorderedMIDMap ++ [newChunkSetMID c.mid c.ppi]).find? (fun s => s.mid == c.mid)
            = some (newChunkSetMID c.mid c.ppi) := by
          rw [List.find?_append, hnf]; simp [newChunkSetMID]
        rcases pushAndCheck_spec (newChunkSetMID c.mid c.ppi) c with ⟨ha, he⟩ | ⟨ha, hb, hm⟩
        · simp only [ha, Bool.not_true, Bool.not_false, Bool.false_eq_true, ↓reduceIte]
          refine ⟨.inl ⟨?_, rfl⟩, rfl, .inl rfl, .inl rfl, .inl rfl, .inr ⟨?_, ?_⟩⟩
          · simp [Q.heldBytes, newChunkSetMID]
          · simp [Q.unorderedMIDEntryCount]; omega
          · simpa using hlim
        · simp only [ha, Bool.not_true, Bool.not_false, Bool.false_eq_true, ↓reduceIte]
          split
          · have hd := delMID_spec hf
            have hb' : bytesOf ((newChunkSetMID c.mid c.ppi).pushAndCheck c).1.chunks = c.len := by
              have hs0 : bytesOf (newChunkSetMID c.mid c.ppi).chunks = 0 := rfl
              omega
            have hd1 : bytesOfMIDSets (delMID c.mid (q.unorderedMIDMap ++ [newChunkSetMID c.mid c.ppi]))
                = bytesOfMIDSets q.unorderedMIDMap := by
              have h1 := hd.1
              have hs0 : bytesOf (newChunkSetMID c.mid c.ppi).chunks = 0 := rfl
              simp only [bytesOfMIDSets_append, bytesOfMIDSets_cons, bytesOfMIDSets_nil, hs0] at h1; omega
            have hd2 : (delMID c.mid (q.unorderedMIDMap ++ [newChunkSetMID c.mid c.ppi])).length
                = q.unorderedMIDMap.length := by
              have h2 := hd.2
              simp only [List.length_append, List.length_cons, List.length_nil] at h2; omega
            refine ⟨.inr ⟨?_, ?_⟩, rfl, .inl rfl, .inl rfl, .inl rfl, .inr ⟨?_, ?_⟩⟩
            · simp only [Q.heldBytes, Q.addBytes, bytesOfMIDSets_append, bytesOfMIDSets_cons, bytesOfMIDSets_nil, hd1, hb']
              omega
            · simp [Q.addBytes]
            · simp only [Q.unorderedMIDEntryCount, Q.addBytes, List.length_append, List.length_cons, List.length_nil, hd2]
              omega
            · simpa using hlim
          · have hu := updMID_spec (s' := ((newChunkSetMID c.mid c.ppi).pushAndCheck c).1) hf
            have hb' : bytesOf ((newChunkSetMID c.mid c.ppi).pushAndCheck c).1.chunks = c.len := by
              have hs0 : bytesOf (newChunkSetMID c.mid c.ppi).chunks = 0 := rfl
              omega
            have hu1 : bytesOfMIDSets (updMID c.mid ((newChunkSetMID c.mid c.ppi).pushAndCheck c).1
                  (q.unorderedMIDMap ++ [newChunkSetMID c.mid c.ppi]))
                = bytesOfMIDSets q.unorderedMIDMap + c.len := by
              have h1 := hu.1
              have hs0 : bytesOf (newChunkSetMID c.mid c.ppi).chunks = 0 := rfl
              simp only [bytesOfMIDSets_append, bytesOfMIDSets_cons, bytesOfMIDSets_nil, hs0] at h1; omega
            have hu2 := hu.2
            refine ⟨.inr ⟨?_, ?_⟩, rfl, .inl rfl, .inl rfl, .inl rfl, .inr ⟨?_, ?_⟩⟩
            · simp only [Q.heldBytes, Q.addBytes, hu1]; omega
            · simp [Q.addBytes]
            · simp only [Q.unorderedMIDEntryCount, Q.addBytes, hu2, List.length_append, List.length_cons, List.length_nil]
              omega
            · simpa using hlim

end Reasm
