import SctpVerif.Proofs.ReasmOrd
set_option linter.unusedVariables false
set_option linter.unusedSimpArgs false
namespace Reasm
open Gen

theorem OrdInv.push {S q d A P} (h : OrdInv S q d A P) (hS : S.WF) {k i : Nat}
    (hk : k < S.msgs.length) (hi : i < S.nf k) (hP : (k, i) ∉ P) (hw : k < d + 2^15) :
    ∃ A', OrdInv S (q.pushWithError (S.dataFrag k i)).1 d A' ((k, i) :: P) := by
  have hnf := S.nf_pos hS hk
  have hdk : d ≤ k := by
    rcases Nat.lt_or_ge k d with hlt | hge
    · exact absurd (h.done k hlt i hi) hP
    · exact hge
  have hwinA : ∀ e ∈ A, e.1 < k + 2^15 ∧ k < e.1 + 2^15 := fun e he => by
    have := h.win e he; omega
  have hwfA : ∀ e ∈ A, e.2 ≠ [] ∧ ∀ j ∈ e.2, j < S.nf e.1 := fun e he => ⟨(h.wf e he).1, (h.wf e he).2.2⟩
  unfold Q.pushWithError
  have c1 : (S.dataFrag k i).iData = false := rfl
  have c2 : ((S.dataFrag k i).si != q.si) = false := by simp [Sender.dataFrag, h.si]
  have c3 : (S.dataFrag k i).unordered = false := rfl
  have c4 : sna16LT (BitVec.ofNat 16 k) q.nextSSN = false := by
    rw [h.cur, sna16LT_ofNat _ _ (by omega) (by omega)]; simp; omega
  have c5 : (S.dataFrag k i).ssn = BitVec.ofNat 16 k := rfl
  simp only [c1, c2, c3, c4, c5, Bool.false_eq_true, ↓reduceIte]
  rw [dataFrag_isFragmented S k i hi, h.ord]
  by_cases hone : S.nf k = 1
  · -- unfragmented message: always a new set
    simp only [hone, decide_true, Bool.not_true, Bool.false_eq_true, ↓reduceIte]
    have hfresh : ∀ e ∈ A, e.1 ≠ k := by
      intro e he hek
      obtain ⟨hne, _, hlt⟩ := h.wf e he
      cases hjs : e.2 with
      | nil => exact hne hjs
      | cons j0 tl =>
        have hj0 : j0 ∈ e.2 := by rw [hjs]; exact List.mem_cons_self ..
        have := hlt j0 hj0
        rw [hek, hone] at this
        have hi0 : i = 0 := by omega
        have hj00 : j0 = 0 := by omega
        have := h.pushed e he j0 hj0
        rw [hek, hj00, ← hi0] at this
        exact hP this
    split
    · exact ⟨A, h.mono _⟩
    · exact h.newSet hS hk hi hdk hw hfresh _ rfl rfl rfl rfl (by rw [h.ord]; rfl)
  · simp only [hone, decide_false, Bool.not_false, ↓reduceIte]
    rcases findFragSet_conc S k hone A hwinA hwfA with ⟨hfresh, hnf'⟩ | ⟨pre, js, post, hA, hfound⟩
    · rw [hnf']
      simp only
      split
      · exact ⟨A, h.mono _⟩
      · exact h.newSet hS hk hi hdk hw hfresh _ rfl rfl rfl rfl (by rw [h.ord]; rfl)
    · rw [hfound]
      simp only
      have hin : (k, js) ∈ A := by rw [hA]; simp
      have hnotin : i ∉ js := fun hij => hP (h.pushed _ hin i hij)
      have hwf := h.wf _ hin
      have hno : (S.concSet (k, js)).hasTSN (S.dataFrag k i).tsn = false := by
        simp only [ChunkSet.hasTSN, Sender.concSet, List.any_map, List.any_eq_false, Function.comp]
        intro j hj
        simp only [beq_iff_eq]
        intro heq
        have hj' := hwf.2.2 j hj
        simp only at hj'
        have := dataFrag_tsn_inj S k j i (by omega) (by omega) heq
        exact hnotin (this ▸ hj)
      rw [hno]
      simp only [Bool.false_eq_true, ↓reduceIte]
      split
      · exact ⟨A, h.mono _⟩
      · subst hA
        exact h.intoSet hS hk hi hnotin _ rfl rfl rfl rfl rfl

end Reasm
