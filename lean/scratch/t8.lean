import SctpVerif.Proofs.Reasm
set_option linter.unusedVariables false
set_option linter.unusedSimpArgs false
namespace Reasm
open Gen

/-! ### the entry limit -/

theorem lt_of_limit_false {me : BitVec 32} {n : Nat} (hpos : me > 0#32)
    (h : isReassemblyQueueLimitReached me (n : Int) = false) : n < me.toNat := by
  simp only [isReassemblyQueueLimitReached, Bool.and_eq_false_iff, decide_eq_false_iff_not] at h
  rcases h with h | h
  · exact absurd hpos h
  · omega

/-- the four counts the code limits are within `maxEntries`. -/
def LInv (q : Q) : Prop :=
  q.orderedDataEntryCount ≤ q.maxEntries.toNat ∧ q.unorderedDataEntryCount ≤ q.maxEntries.toNat ∧
  q.orderedMID.length ≤ q.maxEntries.toNat ∧ q.unorderedMIDEntryCount ≤ q.maxEntries.toNat

theorem LInv_new (si : BitVec 16) (me : BitVec 32) : LInv (new si me) := by
  simp [LInv, new, Q.orderedDataEntryCount, Q.unorderedDataEntryCount, Q.unorderedMIDEntryCount]

theorem step_maxEntries (q : Q) (op : Op) : (q.step op).maxEntries = q.maxEntries := by
  cases op with
  | push c => exact (pushWithError_effect q c).me
  | read n =>
    rcases read_effect q n with e | ⟨m, _, _, e, _⟩
    · simp only [Q.step]; rw [e]
    · exact e
  | fwdO s => rfl
  | fwdU t => simp only [Q.step, Q.forwardTSNForUnordered]; split <;> rfl
  | fwdOM m => rfl
  | fwdUM m => rfl

theorem run_maxEntries (q : Q) (ops : List Op) : (q.run ops).maxEntries = q.maxEntries := by
  induction ops generalizing q with
  | nil => rfl
  | cons op ops ih => simp only [Q.run, List.foldl_cons] at *; rw [ih, step_maxEntries]

theorem LInv_step {q : Q} (hpos : q.maxEntries > 0#32) (h : LInv q) (op : Op) : LInv (q.step op) := by
  obtain ⟨h1, h2, h3, h4⟩ := h
  have hme := step_maxEntries q op
  unfold LInv; rw [hme]
  cases op with
  | push c =>
    have e := pushWithError_effect q c
    simp only [Q.step]
    refine ⟨?_, ?_, ?_, ?_⟩
    · rcases e.oe with e | ⟨e, l⟩
      · omega
      · have := lt_of_limit_false hpos l; omega
    · rcases e.ue with e | ⟨e, l⟩
      · omega
      · have := lt_of_limit_false hpos l; omega
    · rcases e.om with e | ⟨e, l⟩
      · omega
      · have := lt_of_limit_false hpos l; omega
    · rcases e.um with e | ⟨e, l⟩
      · omega
      · have := lt_of_limit_false hpos l; omega
  | read n =>
    simp only [Q.step]
    rcases read_effect q n with e | ⟨m, _, _, _, a, b, c, d⟩
    · rw [e]; exact ⟨h1, h2, h3, h4⟩
    · exact ⟨by omega, by omega, by omega, by omega⟩
  | fwdO s =>
    have hb : countChunks (fwdOrderedLoop s q.ordered q.nBytes).2 ≤ countChunks q.ordered := by
      clear h1 h2 h3 h4 hme
      generalize q.nBytes = nb
      induction q.ordered generalizing nb with
      | nil => simp [fwdOrderedLoop]
      | cons x rest ih =>
        simp only [fwdOrderedLoop]
        split
        · have := ih (subChunks nb x.chunks); simp only [countChunks_cons]; omega
        · have := ih nb; simp only [countChunks_cons]; omega
    simp only [Q.step, Q.forwardTSNForOrdered, Q.orderedDataEntryCount, Q.unorderedDataEntryCount,
      Q.unorderedMIDEntryCount] at *
    exact ⟨by omega, h2, h3, h4⟩
  | fwdU t =>
    simp only [Q.step, Q.forwardTSNForUnordered]
    split
    · simp only [Q.orderedDataEntryCount, Q.unorderedDataEntryCount, Q.unorderedMIDEntryCount, List.length_drop] at *
      exact ⟨h1, by omega, h3, h4⟩
    · exact ⟨h1, h2, h3, h4⟩
  | fwdOM m =>
    have hb : (fwdOrderedMIDLoop m q.orderedMID q.nBytes).2.length ≤ q.orderedMID.length := by
      clear h1 h2 h3 h4 hme
      generalize q.nBytes = nb
      induction q.orderedMID generalizing nb with
      | nil => simp [fwdOrderedMIDLoop]
      | cons x rest ih =>
        simp only [fwdOrderedMIDLoop]
        split
        · have := ih (subChunks nb x.chunks); simp only [List.length_cons]; omega
        · have := ih nb; simp only [List.length_cons]; omega
    simp only [Q.step, Q.forwardTSNForOrderedMID, Q.orderedDataEntryCount, Q.unorderedDataEntryCount,
      Q.unorderedMIDEntryCount] at *
    exact ⟨h1, h2, by omega, h4⟩
  | fwdUM m =>
    have hb : (fwdUnorderedMIDLoop m q.unorderedMIDMap q.nBytes).2.length ≤ q.unorderedMIDMap.length := by
      clear h1 h2 h3 h4 hme
      generalize q.nBytes = nb
      induction q.unorderedMIDMap generalizing nb with
      | nil => simp [fwdUnorderedMIDLoop]
      | cons x rest ih =>
        simp only [fwdUnorderedMIDLoop]
        split
        · have := ih (subChunks nb x.chunks); simp only [List.length_cons]; omega
        · have := ih nb; simp only [List.length_cons]; omega
    simp only [Q.step, Q.forwardTSNForUnorderedMID, Q.orderedDataEntryCount, Q.unorderedDataEntryCount,
      Q.unorderedMIDEntryCount] at *
    exact ⟨h1, h2, h3, by omega⟩

theorem LInv_run {q : Q} (hpos : q.maxEntries > 0#32) (h : LInv q) (ops : List Op) : LInv (q.run ops) := by
  induction ops generalizing q with
  | nil => exact h
  | cons op ops ih =>
    simp only [Q.run, List.foldl_cons]
    exact ih (by rw [step_maxEntries]; exact hpos) (LInv_step hpos h op)

/-- a limit error leaves every container and the counter untouched (only `useInterleaving` may have
been set by an I-DATA chunk). -/
theorem limit_error_no_change (q : Q) (c : Chunk)
    (he : (q.pushWithError c).2.2 = .dataLimit ∨ (q.pushWithError c).2.2 = .midLimit) :
    (q.pushWithError c).1 = { q with useInterleaving := q.useInterleaving || c.iData } := by
  sorry

end Reasm
