import SctpVerif.Proofs.ReasmOrd
set_option linter.unusedVariables false
set_option linter.unusedSimpArgs false
namespace Reasm
open Gen

/-! ### I-DATA: universe -/

/-- ordered I-DATA fragment `i` of message `k`: MID = `k` (mod 2^32), FSN = `i`, B/E at the ends,
only the first fragment carries the PPI (the others carry the FSN in that wire field; `unmarshal`
leaves `payloadType = 0`). The TSN `τ k i` is ARBITRARY: I-DATA reassembly never looks at it. -/
def Sender.idataFrag (S : Sender) (τ : Nat → Nat → BitVec 32) (k i : Nat) : Chunk :=
  { tsn := τ k i, si := S.si, ssn := BitVec.ofNat 16 k, mid := BitVec.ofNat 32 k, fsn := BitVec.ofNat 32 i,
    unordered := false, bf := i == 0, ef := i + 1 == S.nf k, iData := true,
    ppi := if i == 0 then (S.msg k).ppi else 0, userData := (S.msg k).frags.getD i [] }

/-! ### `sort.Search` on a monotone predicate returns the first `true` -/

theorem goSearch_spec (f : Nat → Bool) (n : Nat)
    (hmono : ∀ x y, x ≤ y → y < n → f x = true → f y = true) :
    ∀ fuel i j, i ≤ j → j ≤ n → j - i < fuel → (∀ x, x < i → f x = false) → (∀ x, j ≤ x → x < n → f x = true) →
      i ≤ goSearch f fuel i j ∧ goSearch f fuel i j ≤ j ∧ (∀ x, x < goSearch f fuel i j → f x = false) ∧
      (∀ x, goSearch f fuel i j ≤ x → x < n → f x = true) := by
  intro fuel
  induction fuel with
  | zero => intro i j _ _ h; omega
  | succ fuel ih =>
    intro i j hij hjn hfuel hlo hhi
    simp only [goSearch]
    by_cases hlt : i < j
    · simp only [hlt, ↓reduceIte]
      cases hf : f ((i + j) / 2) with
      | false =>
        simp only [Bool.not_false, ↓reduceIte]
        have := ih ((i + j) / 2 + 1) j (by omega) hjn (by omega)
          (by
            intro x hx
            rcases Nat.lt_or_ge x i with h | h
            · exact hlo x h
            · cases hfx : f x with
              | false => rfl
              | true =>
                have := hmono x ((i + j) / 2) (by omega) (by omega) hfx
                rw [hf] at this; cases this)
          hhi
        exact ⟨by omega, this.2.1, this.2.2⟩
      | true =>
        simp only [Bool.not_true, Bool.false_eq_true, ↓reduceIte]
        have := ih i ((i + j) / 2) (by omega) (by omega) (by omega) hlo
          (by
            intro x hx hxn
            exact hmono _ x hx hxn hf)
        exact ⟨this.1, by omega, this.2.2⟩
    · simp only [hlt, ↓reduceIte]
      have : i = j := by omega
      subst this
      exact ⟨Nat.le_refl _, Nat.le_refl _, hlo, hhi⟩

/-! ### I-DATA: completeness forces all fragments -/

theorem fsnContig_range (S : Sender) (τ) (k N : Nat) (hN : N < 2^31) (i : Nat) (js : List Nat)
    (hi : i < N) (hjs : ∀ j ∈ js, j < N)
    (h : fsnContig (S.idataFrag τ k i).fsn (js.map (S.idataFrag τ k)) = true) :
    js = List.range' (i + 1) js.length := by
  induction js generalizing i with
  | nil => rfl
  | cons j rest ih =>
    simp only [List.map_cons, fsnContig] at h
    split at h
    · cases h
    · rename_i hne
      simp only [bne_iff_ne, ne_eq, Decidable.not_not] at hne
      have hjN := hjs j (List.mem_cons_self ..)
      have hj : j = i + 1 := by
        simp only [Sender.idataFrag] at hne
        have h' : BitVec.ofNat 32 j = BitVec.ofNat 32 (i + 1) := by
          rw [hne, BitVec.ofNat_add]; rfl
        exact (ofNat32_eq_iff _ _ (by omega) (by omega)).1 h'
      subst hj
      have := ih (i + 1) hjN (fun x hx => hjs x (List.mem_cons_of_mem _ hx)) h
      simp only [List.length_cons, List.range'_succ]
      rw [← this]

theorem completeMID_imp_all (S : Sender) (τ) (k : Nat) (js : List Nat) (hnf : S.nf k < 2^31)
    (hjs : ∀ j ∈ js, j < S.nf k)
    (h : chunksCompleteMID (js.map (S.idataFrag τ k)) = true) : js = List.range (S.nf k) := by
  cases js with
  | nil => simp [chunksCompleteMID] at h
  | cons j0 rest =>
    simp only [List.map_cons, chunksCompleteMID] at h
    split at h
    · cases h
    · rename_i hb
      split at h
      · cases h
      · rename_i he
        split at h
        · cases h
        · have hb' : j0 = 0 := by simpa [Sender.idataFrag] using hb
          subst hb'
          have hc := fsnContig_range S τ k (S.nf k) hnf 0 rest (hjs 0 (List.mem_cons_self ..))
            (fun j hj => hjs j (List.mem_cons_of_mem _ hj)) h
          have e : S.idataFrag τ k 0 :: rest.map (S.idataFrag τ k)
              = (List.range' 0 (rest.length + 1)).map (S.idataFrag τ k) := by
            rw [List.range'_succ, List.map_cons, ← hc]
          have hlast : ((S.idataFrag τ k 0 :: rest.map (S.idataFrag τ k)).getLast (List.cons_ne_nil _ _)).ef = true := by
            simpa using he
          simp only [e] at hlast
          rw [getLast_map_range'] at hlast
          have hef : rest.length + 1 = S.nf k := by simpa [Sender.idataFrag] using hlast
          rw [List.range_eq_range', ← hef, List.range'_succ, ← hc]

theorem idataFrags_payload (S : Sender) (τ) (k : Nat) :
    (((List.range (S.nf k)).map (S.idataFrag τ k)).map (·.userData)).flatten = (S.msg k).payload := by
  simp only [List.map_map, Msg.payload]
  have : ((fun c : Chunk => c.userData) ∘ S.idataFrag τ k) = fun i => (S.msg k).frags.getD i [] := by
    funext i; simp [Sender.idataFrag]
  rw [this]
  simp only [Sender.nf, Msg.nf]
  rw [map_getD_range]

end Reasm
