import SctpVerif.Proofs.Reasm
set_option linter.unusedVariables false
set_option linter.unusedSimpArgs false
namespace Reasm
open Gen

/-! ### G1: serial-number comparisons on naturals inside a half-space window -/

theorem ofNat16_sub (a b : Nat) (h : a ≤ b) :
    (BitVec.ofNat 16 b - BitVec.ofNat 16 a).toNat = (b - a) % 65536 := by
  rw [BitVec.toNat_sub, BitVec.toNat_ofNat, BitVec.toNat_ofNat]; omega

theorem sna16LT_ofNat (a b : Nat) (h1 : a < b + 2^15) (h2 : b < a + 2^15) :
    sna16LT (BitVec.ofNat 16 a) (BitVec.ofNat 16 b) = decide (a < b) := by
  rw [Bool.eq_iff_iff, Sna.lt16_iff, decide_eq_true_iff]
  rcases Nat.lt_or_ge a b with h | h
  · rw [ofNat16_sub a b (by omega)]; omega
  · have : (BitVec.ofNat 16 b - BitVec.ofNat 16 a).toNat = (65536 - (a - b) % 65536) % 65536 := by
      rw [BitVec.toNat_sub, BitVec.toNat_ofNat, BitVec.toNat_ofNat]; omega
    rw [this]; omega

theorem sna16GT_ofNat (a b : Nat) (h1 : a < b + 2^15) (h2 : b < a + 2^15) :
    sna16GT (BitVec.ofNat 16 a) (BitVec.ofNat 16 b) = decide (b < a) := by
  rw [Bool.eq_iff_iff, Sna.gt16_iff, decide_eq_true_iff]
  rcases Nat.lt_or_ge b a with h | h
  · rw [ofNat16_sub b a (by omega)]; omega
  · have : (BitVec.ofNat 16 a - BitVec.ofNat 16 b).toNat = (65536 - (b - a) % 65536) % 65536 := by
      rw [BitVec.toNat_sub, BitVec.toNat_ofNat, BitVec.toNat_ofNat]; omega
    rw [this]; omega

theorem ofNat16_eq_iff (a b : Nat) (h1 : a < b + 2^15) (h2 : b < a + 2^15) :
    BitVec.ofNat 16 a = BitVec.ofNat 16 b ↔ a = b := by
  constructor
  · intro h
    have := congrArg BitVec.toNat h
    simp only [BitVec.toNat_ofNat] at this; omega
  · intro h; rw [h]

theorem ofNat32_sub (a b : Nat) (h : a ≤ b) :
    (BitVec.ofNat 32 b - BitVec.ofNat 32 a).toNat = (b - a) % 4294967296 := by
  rw [BitVec.toNat_sub, BitVec.toNat_ofNat, BitVec.toNat_ofNat]; omega

theorem sna32LT_ofNat (a b : Nat) (h1 : a < b + 2^31) (h2 : b < a + 2^31) :
    sna32LT (BitVec.ofNat 32 a) (BitVec.ofNat 32 b) = decide (a < b) := by
  rw [Bool.eq_iff_iff, Sna.lt32_iff, decide_eq_true_iff]
  rcases Nat.lt_or_ge a b with h | h
  · rw [ofNat32_sub a b (by omega)]; omega
  · have : (BitVec.ofNat 32 b - BitVec.ofNat 32 a).toNat = (4294967296 - (a - b) % 4294967296) % 4294967296 := by
      rw [BitVec.toNat_sub, BitVec.toNat_ofNat, BitVec.toNat_ofNat]; omega
    rw [this]; omega

theorem sna32GT_ofNat (a b : Nat) (h1 : a < b + 2^31) (h2 : b < a + 2^31) :
    sna32GT (BitVec.ofNat 32 a) (BitVec.ofNat 32 b) = decide (b < a) := by
  rw [Bool.eq_iff_iff, Sna.gt32_iff, decide_eq_true_iff]
  rcases Nat.lt_or_ge b a with h | h
  · rw [ofNat32_sub b a (by omega)]; omega
  · have : (BitVec.ofNat 32 a - BitVec.ofNat 32 b).toNat = (4294967296 - (b - a) % 4294967296) % 4294967296 := by
      rw [BitVec.toNat_sub, BitVec.toNat_ofNat, BitVec.toNat_ofNat]; omega
    rw [this]; omega

theorem ofNat32_eq_iff (a b : Nat) (h1 : a < b + 2^31) (h2 : b < a + 2^31) :
    BitVec.ofNat 32 a = BitVec.ofNat 32 b ↔ a = b := by
  constructor
  · intro h
    have := congrArg BitVec.toNat h
    simp only [BitVec.toNat_ofNat] at this; omega
  · intro h; rw [h]

/-- shifting both operands by the same base does not change the comparison -/
theorem sna32LT_add_left (t a b : BitVec 32) : sna32LT (t + a) (t + b) = sna32LT a b := by
  rw [Bool.eq_iff_iff, Sna.lt32_iff, Sna.lt32_iff]
  have : t + b - (t + a) = b - a := by bv_omega
  rw [this]

/-! ### G2: Go's insertion sort sorts when the comparator is a strict total order on the elements -/

theorem insRev_map {α β} (f : β → α) (lt : α → α → Bool) (lt' : β → β → Bool) (x : β) (rev : List β)
    (h : ∀ b ∈ rev, lt (f x) (f b) = lt' x b) :
    insRev lt (f x) (rev.map f) = (insRev lt' x rev).map f := by
  induction rev with
  | nil => rfl
  | cons y ys ih =>
    simp only [List.map_cons, insRev]
    rw [h y (List.mem_cons_self ..)]
    split
    · rw [List.map_cons, ih (fun b hb => h b (List.mem_cons_of_mem _ hb))]
    · rfl

theorem insRev_mem {α} (lt : α → α → Bool) (x : α) (l : List α) (a : α) :
    a ∈ insRev lt x l ↔ a = x ∨ a ∈ l := by
  rw [(insRev_perm lt x l).mem_iff]; simp

theorem foldl_insRev_map {α β} (f : β → α) (lt : α → α → Bool) (lt' : β → β → Bool) (l acc : List β)
    (h : ∀ a, a ∈ l ∨ a ∈ acc → ∀ b, b ∈ l ∨ b ∈ acc → lt (f a) (f b) = lt' a b) :
    (l.map f).foldl (fun rev x => insRev lt x rev) (acc.map f) =
      (l.foldl (fun rev x => insRev lt' x rev) acc).map f := by
  induction l generalizing acc with
  | nil => rfl
  | cons x xs ih =>
    simp only [List.map_cons, List.foldl_cons]
    rw [insRev_map f lt lt' x acc (fun b hb => h x (.inl (List.mem_cons_self ..)) b (.inr hb))]
    apply ih
    intro a ha b hb
    apply h
    · rcases ha with ha | ha
      · exact .inl (List.mem_cons_of_mem _ ha)
      · rcases (insRev_mem lt' x acc a).1 ha with rfl | ha
        · exact .inl (List.mem_cons_self ..)
        · exact .inr ha
    · rcases hb with hb | hb
      · exact .inl (List.mem_cons_of_mem _ hb)
      · rcases (insRev_mem lt' x acc b).1 hb with rfl | hb
        · exact .inl (List.mem_cons_self ..)
        · exact .inr hb

/-- naturality: sorting images with `lt` = sorting pre-images with `lt'` when they agree on the elements. -/
theorem goSort_map {α β} (f : β → α) (lt : α → α → Bool) (lt' : β → β → Bool) (l : List β)
    (h : ∀ a ∈ l, ∀ b ∈ l, lt (f a) (f b) = lt' a b) :
    goSort lt (l.map f) = (goSort lt' l).map f := by
  unfold goSort
  have := foldl_insRev_map f lt lt' l [] (by
    intro a ha b hb
    rcases ha with ha | ha <;> rcases hb with hb | hb <;> simp_all)
  simp only [List.map_nil] at this
  rw [this, List.map_reverse]

/-- `insRev` keeps a list that is descending by `key` descending. -/
theorem insRev_desc {β} (key : β → Nat) (x : β) (rev : List β)
    (hs : rev.Pairwise (fun a b => key b < key a)) (hx : ∀ b ∈ rev, key b ≠ key x) :
    (insRev (fun a b => decide (key a < key b)) x rev).Pairwise (fun a b => key b < key a) := by
  induction rev with
  | nil => simp [insRev]
  | cons y ys ih =>
    simp only [insRev]
    rw [List.pairwise_cons] at hs
    split
    · rename_i hlt
      simp only [decide_eq_true_eq] at hlt
      rw [List.pairwise_cons]
      refine ⟨?_, ih hs.2 (fun b hb => hx b (List.mem_cons_of_mem _ hb))⟩
      intro a ha
      rcases (insRev_mem _ x ys a).1 ha with rfl | ha
      · exact hlt
      · exact hs.1 a ha
    · rename_i hlt
      simp only [decide_eq_true_eq] at hlt
      have hne := hx y (List.mem_cons_self ..)
      rw [List.pairwise_cons]
      refine ⟨?_, List.pairwise_cons.2 hs⟩
      intro a ha
      rcases List.mem_cons.1 ha with rfl | ha
      · omega
      · have := hs.1 a ha; omega

theorem foldl_insRev_desc {β} (key : β → Nat) (l acc : List β)
    (hacc : acc.Pairwise (fun a b => key b < key a))
    (hl : l.Pairwise (fun a b => key a ≠ key b)) (hla : ∀ a ∈ l, ∀ b ∈ acc, key b ≠ key a) :
    (l.foldl (fun rev x => insRev (fun a b => decide (key a < key b)) x rev) acc).Pairwise
      (fun a b => key b < key a) := by
  induction l generalizing acc with
  | nil => exact hacc
  | cons x xs ih =>
    simp only [List.foldl_cons]
    rw [List.pairwise_cons] at hl
    apply ih
    · exact insRev_desc key x acc hacc (fun b hb => hla x (List.mem_cons_self ..) b hb)
    · exact hl.2
    · intro a ha b hb
      rcases (insRev_mem _ x acc b).1 hb with rfl | hb
      · exact hl.1 a ha
      · exact hla a (List.mem_cons_of_mem _ ha) b hb

/-- sorting by a key with pairwise distinct keys yields a strictly ascending list. -/
theorem goSort_sorted {β} (key : β → Nat) (l : List β) (hl : l.Pairwise (fun a b => key a ≠ key b)) :
    (goSort (fun a b => decide (key a < key b)) l).Pairwise (fun a b => key a < key b) := by
  unfold goSort
  rw [List.pairwise_reverse]
  exact foldl_insRev_desc key l [] List.Pairwise.nil hl (by simp)

theorem goSort_mem {α} (lt : α → α → Bool) (l : List α) (a : α) : a ∈ goSort lt l ↔ a ∈ l :=
  (goSort_perm lt l).mem_iff

end Reasm
