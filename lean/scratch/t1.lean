import SctpVerif.Model.Reasm
namespace Reasm
open Gen

theorem insRev_perm {α} (lt : α → α → Bool) (x : α) (l : List α) : (insRev lt x l).Perm (x :: l) := by
  induction l with
  | nil => exact List.Perm.refl _
  | cons y ys ih =>
    simp only [insRev]
    split
    · exact ((List.Perm.cons y ih).trans (List.Perm.swap x y ys))
    · exact List.Perm.refl _

theorem foldl_insRev_perm {α} (lt : α → α → Bool) (l acc : List α) :
    (l.foldl (fun rev x => insRev lt x rev) acc).Perm (l ++ acc) := by
  induction l generalizing acc with
  | nil => exact List.Perm.refl _
  | cons x xs ih =>
    simp only [List.foldl_cons]
    refine (ih _).trans ?_
    refine (List.Perm.append_left xs (insRev_perm lt x acc)).trans ?_
    simp

theorem goSort_perm {α} (lt : α → α → Bool) (l : List α) : (goSort lt l).Perm l := by
  unfold goSort
  refine (List.reverse_perm _).trans ?_
  simpa using foldl_insRev_perm lt l []

#check @List.Perm.sum_nat
#check @List.Perm.length_eq

theorem subBytes_exact (cur : BitVec 64) (n : Nat) (h1 : n ≤ cur.toNat) (h2 : cur.toNat < 2^63) :
    (subBytes cur (n : Int)).toNat = cur.toNat - n := by
  unfold subBytes
  have : cur.toInt = cur.toNat := by
    rw [BitVec.toInt_eq_toNat_cond]; split <;> omega
  rw [if_pos (by omega)]
  have : BitVec.ofInt 64 (-(n : Int)) = - BitVec.ofNat 64 n := by
    simp [BitVec.ofInt_neg]
  rw [this]
  bv_omega
end Reasm
