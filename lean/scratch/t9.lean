import SctpVerif.Proofs.Reasm
set_option linter.unusedVariables false
set_option linter.unusedSimpArgs false
namespace Reasm
open Gen

theorem pushOrderedIData_limit (q : Q) (c : Chunk)
    (he : (q.pushOrderedIData c).2.2 = .dataLimit ∨ (q.pushOrderedIData c).2.2 = .midLimit) :
    (q.pushOrderedIData c).1 = q := by
  unfold Q.pushOrderedIData at *
  split
  · rfl
  · rename_i h1
    simp only [h1, Bool.false_eq_true, ↓reduceIte] at he
    split
    · rename_i cset hf
      simp only [hf] at he
      split at he <;> simp at he
    · rename_i hf
      simp only [hf] at he
      split
      · rfl
      · rename_i h2
        simp only [h2, Bool.false_eq_true, ↓reduceIte] at he
        split at he <;> simp at he

theorem pushUnorderedIData_limit (q : Q) (c : Chunk)
    (he : (q.pushUnorderedIData c).2.2 = .dataLimit ∨ (q.pushUnorderedIData c).2.2 = .midLimit) :
    (q.pushUnorderedIData c).1 = q := by
  unfold Q.pushUnorderedIData at *
  split
  · rfl
  · rename_i h1
    simp only [h1, Bool.false_eq_true, ↓reduceIte] at he
    dsimp only at he ⊢
    split
    · rename_i cset hf
      simp only [hf] at he
      split at he
      · simp at he
      · split at he <;> simp at he
    · rename_i hf
      simp only [hf] at he
      split
      · rfl
      · rename_i h2
        simp only [h2, Bool.false_eq_true, ↓reduceIte] at he
        split at he
        · simp at he
        · split at he <;> simp at he

theorem limit_error_no_change (q : Q) (c : Chunk)
    (he : (q.pushWithError c).2.2 = .dataLimit ∨ (q.pushWithError c).2.2 = .midLimit) :
    (q.pushWithError c).1 = { q with useInterleaving := q.useInterleaving || c.iData } := by
  unfold Q.pushWithError at *
  split
  · rename_i hi
    simp only [hi, ↓reduceIte] at he
    simp only [hi, Bool.or_true]
    unfold Q.pushIData at *
    split
    · rfl
    · rename_i h1
      simp only [h1, Bool.false_eq_true, ↓reduceIte] at he
      split
      · rename_i h2; simp only [h2, Bool.false_eq_true, ↓reduceIte] at he; exact pushUnorderedIData_limit _ c he
      · rename_i h2; simp only [h2, Bool.false_eq_true, ↓reduceIte] at he; exact pushOrderedIData_limit _ c he
  · rename_i hi
    simp only [hi, Bool.false_eq_true, ↓reduceIte] at he
    have hq : ({ q with useInterleaving := q.useInterleaving || c.iData } : Q) = q := by
      simp [hi]
    rw [hq]
    split
    · rfl
    · rename_i h1
      simp only [h1, Bool.false_eq_true, ↓reduceIte] at he
      split
      · rename_i h2
        simp only [h2, Bool.false_eq_true, ↓reduceIte] at he
        split
        · rfl
        · rename_i h3
          simp only [h3, Bool.false_eq_true, ↓reduceIte] at he
          split at he <;> simp at he
      · rename_i h2
        simp only [h2, Bool.false_eq_true, ↓reduceIte] at he
        split
        · rfl
        · rename_i h3
          simp only [h3, Bool.false_eq_true, ↓reduceIte] at he
          split
          · rfl
          · rename_i pre cset post hf
            simp only [hf] at he
            split
            · rfl
            · rename_i h4
              simp only [h4, Bool.false_eq_true, ↓reduceIte] at he
              split
              · rfl
              · rename_i h5
                simp only [h5, Bool.false_eq_true, ↓reduceIte] at he
                simp at he
          · rename_i hf
            simp only [hf] at he
            split
            · rfl
            · rename_i h4
              simp only [h4, Bool.false_eq_true, ↓reduceIte] at he
              simp at he
end Reasm
