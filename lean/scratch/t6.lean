import SctpVerif.Proofs.Reasm
set_option linter.unusedVariables false
set_option linter.unusedSimpArgs false
namespace Reasm
open Gen

/-! ### read -/

theorem copyLoop_total (buflen : Int) (cs : List Chunk) (n : Int) (e : Bool) (out : List UInt8) :
    (copyLoop buflen cs n e out).1 = n + (bytesOf cs : Nat) := by
  induction cs generalizing n e out with
  | nil => simp [copyLoop]
  | cons c cs ih =>
    simp only [copyLoop]
    split <;> rw [ih] <;> simp only [bytesOf_cons] <;> omega

/-- a read either leaves the queue alone (`tryAgain`, `shortBuffer`) or removes one set and
subtracts exactly its bytes. -/
def ReadEffect (q q' : Q) : Prop :=
  q' = q ∨ (∃ m : Nat, q'.heldBytes + m = q.heldBytes ∧ q'.nBytes = subBytes q.nBytes (m : Int) ∧
    q'.maxEntries = q.maxEntries ∧
    q'.orderedDataEntryCount ≤ q.orderedDataEntryCount ∧ q'.unorderedDataEntryCount ≤ q.unorderedDataEntryCount ∧
    q'.orderedMID.length ≤ q.orderedMID.length ∧ q'.unorderedMIDEntryCount ≤ q.unorderedMIDEntryCount)

theorem read_effect (q : Q) (n : Nat) : ReadEffect q (q.read n).1 := by
  unfold Q.read
  split
  · dsimp only
    split
    · rename_i iSet rest hq
      split
      · left; rfl
      · right
        refine ⟨bytesOf iSet.chunks, ?_, ?_, rfl, Nat.le_refl _, Nat.le_refl _, Nat.le_refl _, ?_⟩
        · simp only [Q.heldBytes, Q.subtractNumBytes, hq, bytesOfMIDSets_cons]; omega
        · simp only [Q.subtractNumBytes, copyLoop_total]; simp
        · simp only [Q.unorderedMIDEntryCount, Q.subtractNumBytes, hq, List.length_cons]; omega
    · split
      · rename_i iSet rest hq
        split
        · left; rfl
        · split
          · left; rfl
          · split
            · left; rfl
            · right
              refine ⟨bytesOf iSet.chunks, ?_, ?_, rfl, Nat.le_refl _, Nat.le_refl _, ?_, Nat.le_refl _⟩
              · simp only [Q.heldBytes, Q.subtractNumBytes, hq, bytesOfMIDSets_cons]; omega
              · simp only [Q.subtractNumBytes, copyLoop_total]; simp
              · simp only [Q.subtractNumBytes, hq, List.length_cons]; omega
      · left; rfl
  · dsimp only
    split
    · rename_i cset rest hq
      split
      · left; rfl
      · right
        refine ⟨bytesOf cset.chunks, ?_, ?_, rfl, Nat.le_refl _, ?_, Nat.le_refl _, Nat.le_refl _⟩
        · simp only [Q.heldBytes, Q.subtractNumBytes, hq, bytesOfSets_cons]; omega
        · simp only [Q.subtractNumBytes, copyLoop_total]; simp
        · simp only [Q.unorderedDataEntryCount, Q.subtractNumBytes, hq, countChunks_cons]; omega
    · split
      · rename_i cset rest hq
        split
        · left; rfl
        · split
          · left; rfl
          · split
            · left; rfl
            · right
              refine ⟨bytesOf cset.chunks, ?_, ?_, rfl, ?_, Nat.le_refl _, Nat.le_refl _, Nat.le_refl _⟩
              · simp only [Q.heldBytes, Q.subtractNumBytes, hq, bytesOfSets_cons]; omega
              · simp only [Q.subtractNumBytes, copyLoop_total]; simp
              · simp only [Q.orderedDataEntryCount, Q.subtractNumBytes, hq, countChunks_cons]; omega
      · left; rfl

end Reasm
