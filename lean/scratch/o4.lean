import SctpVerif.Proofs.ReasmOrd
set_option linter.unusedVariables false
set_option linter.unusedSimpArgs false
namespace Reasm
open Gen

/-- refinement invariant for ordered DATA: `d` messages delivered, `A` the table held, `P` the
fragments pushed so far. -/
structure OrdInv (S : Sender) (q : Q) (d : Nat) (A : Tab) (P : List (Nat × Nat)) : Prop where
  si : q.si = S.si
  il : q.useInterleaving = false
  un : q.unordered = []
  cur : q.nextSSN = BitVec.ofNat 16 d
  ord : q.ordered = A.map S.concSet
  sorted : A.Pairwise (fun a b => a.1 < b.1)
  win : ∀ e ∈ A, d ≤ e.1 ∧ e.1 < d + 2^15 ∧ e.1 < S.msgs.length
  wf : ∀ e ∈ A, e.2 ≠ [] ∧ e.2.Pairwise (· < ·) ∧ ∀ j ∈ e.2, j < S.nf e.1
  pushed : ∀ e ∈ A, ∀ j ∈ e.2, (e.1, j) ∈ P
  done : ∀ k, k < d → ∀ i, i < S.nf k → (k, i) ∈ P

theorem OrdInv.mono {S q d A P} (h : OrdInv S q d A P) (x : Nat × Nat) : OrdInv S q d A (x :: P) :=
  { h with pushed := fun e he j hj => List.mem_cons_of_mem _ (h.pushed e he j hj),
           done := fun k hk i hi => List.mem_cons_of_mem _ (h.done k hk i hi) }

theorem OrdInv_new (S : Sender) (me : BitVec 32) : OrdInv S (new S.si me) 0 [] [] := by
  constructor <;> simp [new]

theorem dataFrag_tsn_lt (S : Sender) (k a b : Nat) (ha : a < 2^31) (hb : b < 2^31) :
    sna32LT (S.dataFrag k a).tsn (S.dataFrag k b).tsn = decide (a < b) := by
  simp only [Sender.dataFrag]
  rw [sna32LT_add_left, sna32LT_ofNat _ _ (by omega) (by omega)]
  simp

theorem dataFrag_tsn_inj (S : Sender) (k a b : Nat) (ha : a < 2^31) (hb : b < 2^31)
    (h : (S.dataFrag k a).tsn = (S.dataFrag k b).tsn) : a = b := by
  simp only [Sender.dataFrag] at h
  have h' : BitVec.ofNat 32 (S.base k + a) = BitVec.ofNat 32 (S.base k + b) := by bv_omega
  have := (ofNat32_eq_iff _ _ (by omega) (by omega)).1 h'
  omega

/-- sorting the chunks of one message by TSN = sorting their fragment indices. -/
theorem sortTSN_conc (S : Sender) (k : Nat) (js : List Nat) (h : ∀ j ∈ js, j < 2^31) :
    sortChunksByTSN (js.map (S.dataFrag k)) = (goSort (fun a b => decide (a < b)) js).map (S.dataFrag k) := by
  unfold sortChunksByTSN
  exact goSort_map (S.dataFrag k) _ _ js (fun a ha b hb => dataFrag_tsn_lt S k a b (h a ha) (h b hb))

/-- sorting sets by SSN = sorting table entries by message index, inside the window. -/
theorem sortSSN_conc (S : Sender) (A : Tab) (d : Nat) (h : ∀ e ∈ A, d ≤ e.1 ∧ e.1 < d + 2^15) :
    sortChunksBySSN (A.map S.concSet) = (goSort (fun a b => decide (a.1 < b.1)) A).map S.concSet := by
  unfold sortChunksBySSN
  apply goSort_map
  intro a ha b hb
  have := h a ha; have := h b hb
  simp only [Sender.concSet]
  exact sna16LT_ofNat _ _ (by omega) (by omega)

theorem pairwise_lt_ne {l : List Nat} (h : l.Pairwise (· < ·)) : l.Pairwise (fun a b => (id a) ≠ (id b)) :=
  h.imp (fun hab => by simp only [id]; omega)

theorem goSort_singleton {α} (lt : α → α → Bool) (x : α) : goSort lt [x] = [x] := by
  simp [goSort, insRev]

/-- state after creating a new set for chunk `c` (the `cset == nil` path, limit not reached). -/
theorem OrdInv.newSet {S q d A P} (h : OrdInv S q d A P) (hS : S.WF) {k i : Nat}
    (hk : k < S.msgs.length) (hi : i < S.nf k) (hdk : d ≤ k) (hw : k < d + 2^15)
    (hfresh : ∀ e ∈ A, e.1 ≠ k) (q' : Q)
    (hsi : q'.si = q.si) (hil : q'.useInterleaving = q.useInterleaving) (hun : q'.unordered = q.unordered)
    (hcur : q'.nextSSN = q.nextSSN)
    (hord : q'.ordered = sortChunksBySSN (q.ordered ++
      [((newChunkSet (S.dataFrag k i).ssn (S.dataFrag k i).ppi).pushNoDuplicate (S.dataFrag k i)).1])) :
    ∃ A', OrdInv S q' d A' ((k, i) :: P) := by
  have hset : ((newChunkSet (S.dataFrag k i).ssn (S.dataFrag k i).ppi).pushNoDuplicate (S.dataFrag k i)).1
      = S.concSet (k, [i]) := by
    simp only [ChunkSet.pushNoDuplicate, newChunkSet, List.nil_append, sortChunksByTSN, goSort_singleton,
      Sender.concSet, List.map_cons, List.map_nil]
    simp [Sender.dataFrag]
  have hwin' : ∀ e ∈ A ++ [(k, [i])], d ≤ e.1 ∧ e.1 < d + 2^15 := by
    intro e he
    rcases List.mem_append.1 he with he | he
    · have := h.win e he; omega
    · simp only [List.mem_singleton] at he; subst he; exact ⟨hdk, hw⟩
  refine ⟨goSort (fun a b => decide (a.1 < b.1)) (A ++ [(k, [i])]), ?_⟩
  have hmem : ∀ e, e ∈ goSort (fun a b : Nat × List Nat => decide (a.1 < b.1)) (A ++ [(k, [i])]) ↔ e ∈ A ∨ e = (k, [i]) := by
    intro e; rw [goSort_mem]; simp
  refine
    { si := by rw [hsi, h.si], il := by rw [hil, h.il], un := by rw [hun, h.un], cur := by rw [hcur, h.cur],
      ord := ?_, sorted := ?_, win := ?_, wf := ?_, pushed := ?_,
      done := fun k' hk' i' hi' => List.mem_cons_of_mem _ (h.done k' hk' i' hi') }
  · rw [hord, hset, h.ord]
    have : A.map S.concSet ++ [S.concSet (k, [i])] = (A ++ [(k, [i])]).map S.concSet := by simp
    rw [this, sortSSN_conc S _ d hwin']
  · apply goSort_sorted (fun e : Nat × List Nat => e.1)
    rw [List.pairwise_append]
    refine ⟨h.sorted.imp (fun hab => by omega), by simp, ?_⟩
    intro a ha b hb
    simp only [List.mem_singleton] at hb; subst hb
    exact hfresh a ha
  · intro e he
    rcases (hmem e).1 he with he | rfl
    · exact h.win e he
    · exact ⟨hdk, hw, hk⟩
  · intro e he
    rcases (hmem e).1 he with he | rfl
    · exact h.wf e he
    · refine ⟨by simp, by simp, ?_⟩
      intro j hj; simp only [List.mem_singleton] at hj; subst hj; exact hi
  · intro e he j hj
    rcases (hmem e).1 he with he | rfl
    · exact List.mem_cons_of_mem _ (h.pushed e he j hj)
    · simp only [List.mem_singleton] at hj; subst hj; exact List.mem_cons_self ..

/-- state after pushing chunk `c` into the existing set of its message. -/
theorem OrdInv.intoSet {S q d P} {pre post : Tab} {js : List Nat} {k i : Nat}
    (h : OrdInv S q d (pre ++ (k, js) :: post) P) (hS : S.WF)
    (hk : k < S.msgs.length) (hi : i < S.nf k) (hnotin : i ∉ js) (q' : Q)
    (hsi : q'.si = q.si) (hil : q'.useInterleaving = q.useInterleaving) (hun : q'.unordered = q.unordered)
    (hcur : q'.nextSSN = q.nextSSN)
    (hord : q'.ordered = pre.map S.concSet ++ ((S.concSet (k, js)).pushNoDuplicate (S.dataFrag k i)).1 :: post.map S.concSet) :
    ∃ A', OrdInv S q' d A' ((k, i) :: P) := by
  have hnf := S.nf_pos hS hk
  have hin : (k, js) ∈ pre ++ (k, js) :: post := by simp
  have hwf := h.wf _ hin
  have hjs31 : ∀ j ∈ js ++ [i], j < 2^31 := by
    intro j hj
    rcases List.mem_append.1 hj with hj | hj
    · have := hwf.2.2 j hj; simp only at this; omega
    · simp only [List.mem_singleton] at hj; omega
  let js' := goSort (fun a b => decide (a < b)) (js ++ [i])
  have hset : ((S.concSet (k, js)).pushNoDuplicate (S.dataFrag k i)).1 = S.concSet (k, js') := by
    simp only [ChunkSet.pushNoDuplicate, Sender.concSet]
    have : js.map (S.dataFrag k) ++ [S.dataFrag k i] = (js ++ [i]).map (S.dataFrag k) := by simp
    rw [this, sortTSN_conc S k _ hjs31]
  have hmem : ∀ j, j ∈ js' ↔ j ∈ js ∨ j = i := by
    intro j; simp only [js']; rw [goSort_mem]; simp
  refine ⟨pre ++ (k, js') :: post, ?_⟩
  have hmemA : ∀ e, e ∈ pre ++ (k, js') :: post → e = (k, js') ∨ e ∈ pre ++ (k, js) :: post := by
    intro e he
    simp only [List.mem_append, List.mem_cons] at he ⊢
    rcases he with he | rfl | he
    · right; exact .inl he
    · left; rfl
    · right; exact .inr (.inr he)
  refine
    { si := by rw [hsi, h.si], il := by rw [hil, h.il], un := by rw [hun, h.un], cur := by rw [hcur, h.cur],
      ord := ?_, sorted := ?_, win := ?_, wf := ?_, pushed := ?_,
      done := fun k' hk' i' hi' => List.mem_cons_of_mem _ (h.done k' hk' i' hi') }
  · rw [hord, hset]; simp
  · have hs := h.sorted
    rw [List.pairwise_append, List.pairwise_cons] at hs ⊢
    refine ⟨hs.1, ⟨fun b hb => hs.2.1.1 b hb, hs.2.1.2⟩, ?_⟩
    intro a ha b hb
    rcases List.mem_cons.1 hb with rfl | hb
    · exact hs.2.2 a ha (k, js) (List.mem_cons_self ..)
    · exact hs.2.2 a ha b (List.mem_cons_of_mem _ hb)
  · intro e he
    rcases hmemA e he with rfl | he
    · exact h.win (k, js) hin
    · exact h.win e he
  · intro e he
    rcases hmemA e he with rfl | he
    · refine ⟨?_, ?_, ?_⟩
      · intro hnil
        have := (hmem i).2 (.inr rfl)
        simp only at hnil; rw [hnil] at this; simp at this
      · apply goSort_sorted (fun a : Nat => a)
        rw [List.pairwise_append]
        refine ⟨hwf.2.1.imp (fun hab => by omega), by simp, ?_⟩
        intro a ha b hb
        simp only [List.mem_singleton] at hb; subst hb
        intro hab; exact hnotin (hab ▸ ha)
      · intro j hj
        rcases (hmem j).1 hj with hj | rfl
        · exact hwf.2.2 j hj
        · exact hi
    · exact h.wf e he
  · intro e he j hj
    rcases hmemA e he with rfl | he
    · rcases (hmem j).1 hj with hj | rfl
      · exact List.mem_cons_of_mem _ (h.pushed (k, js) hin j hj)
      · exact List.mem_cons_self ..
    · exact List.mem_cons_of_mem _ (h.pushed e he j hj)


end Reasm
