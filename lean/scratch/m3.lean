import SctpVerif.Proofs.ReasmOrd
set_option linter.unusedVariables false
set_option linter.unusedSimpArgs false
namespace Reasm
open Gen

theorem idataFrag_fsn_lt (S : Sender) (τ) (k a b : Nat) (ha : a < 2^31) (hb : b < 2^31) :
    sna32LT (S.idataFrag τ k a).fsn (S.idataFrag τ k b).fsn = decide (a < b) := by
  simp only [Sender.idataFrag]
  exact sna32LT_ofNat _ _ (by omega) (by omega)

theorem sortFSN_conc (S : Sender) (τ) (k : Nat) (js : List Nat) (h : ∀ j ∈ js, j < 2^31) :
    sortChunksByFSN (js.map (S.idataFrag τ k)) = (goSort (fun a b => decide (a < b)) js).map (S.idataFrag τ k) := by
  unfold sortChunksByFSN
  exact goSort_map (S.idataFrag τ k) _ _ js (fun a ha b hb => idataFrag_fsn_lt S τ k a b (h a ha) (h b hb))

/-- pushing fragment `i` into a (possibly empty) incomplete set holding fragments `js ∌ i` of message `k`. -/
theorem pushAndCheck_conc (S : Sender) (τ) (k i : Nat) (js : List Nat) (s : ChunkSetMID)
    (hch : s.chunks = js.map (S.idataFrag τ k)) (hinc : s.isComplete = false)
    (hjs : ∀ j ∈ js, j < 2^31) (hi : i < 2^31) (hnotin : i ∉ js) :
    (s.pushAndCheck (S.idataFrag τ k i)).2.2 = true ∧
    (s.pushAndCheck (S.idataFrag τ k i)).1 =
      { mid := s.mid, ppi := if i = 0 then (S.msg k).ppi else s.ppi,
        chunks := (goSort (fun a b => decide (a < b)) (js ++ [i])).map (S.idataFrag τ k) } := by
  unfold ChunkSetMID.pushAndCheck
  have hdup : (s.chunks.any fun x => x.fsn == (S.idataFrag τ k i).fsn) = false := by
    rw [hch]
    simp only [List.any_map, List.any_eq_false, Function.comp, beq_iff_eq]
    intro j hj heq
    simp only [Sender.idataFrag] at heq
    have := (ofNat32_eq_iff _ _ (by have := hjs j hj; omega) (by have := hjs j hj; omega)).1 heq
    exact hnotin (this ▸ hj)
  simp only [hinc, hdup, Bool.false_eq_true, ↓reduceIte, true_and]
  have e : s.chunks ++ [S.idataFrag τ k i] = (js ++ [i]).map (S.idataFrag τ k) := by rw [hch]; simp
  rw [e, sortFSN_conc S τ k _ (by
    intro j hj
    rcases List.mem_append.1 hj with hj | hj
    · exact hjs j hj
    · simp only [List.mem_singleton] at hj; omega)]
  congr 1
  by_cases h0 : i = 0
  · simp [h0, Sender.idataFrag]
  · simp [h0, Sender.idataFrag]

/-- refinement invariant for ordered I-DATA. -/
structure MidInv (S : Sender) (τ : Nat → Nat → BitVec 32) (q : Q) (d : Nat) (A : Tab) (P : List (Nat × Nat)) : Prop where
  si : q.si = S.si
  il : q.useInterleaving = false → A = []
  un : q.unordered = []
  od : q.ordered = []
  um : q.unorderedMID = []
  cur : q.nextMID = BitVec.ofNat 32 d
  ord : q.orderedMID = A.map (S.concSetMID τ)
  sorted : A.Pairwise (fun a b => a.1 < b.1)
  win : ∀ e ∈ A, d ≤ e.1 ∧ e.1 < d + 2^31 ∧ e.1 < S.msgs.length
  wf : ∀ e ∈ A, e.2 ≠ [] ∧ e.2.Pairwise (· < ·) ∧ ∀ j ∈ e.2, j < S.nf e.1
  pushed : ∀ e ∈ A, ∀ j ∈ e.2, (e.1, j) ∈ P
  done : ∀ k, k < d → ∀ i, i < S.nf k → (k, i) ∈ P

theorem MidInv_new (S : Sender) (τ) (me : BitVec 32) : MidInv S τ (new S.si me) 0 [] [] := by
  constructor <;> simp [new]

theorem MidInv.push {S τ q d A P} (h : MidInv S τ q d A P) (hS : S.WF) {k i : Nat}
    (hk : k < S.msgs.length) (hi : i < S.nf k) (hP : (k, i) ∉ P) (hw : k < d + 2^31) :
    ∃ A', MidInv S τ (q.pushWithError (S.idataFrag τ k i)).1 d A' ((k, i) :: P) := by
  have hnf := S.nf_pos hS hk
  have hdk : d ≤ k := by
    rcases Nat.lt_or_ge k d with hlt | hge
    · exact absurd (h.done k hlt i hi) hP
    · exact hge
  have hwinA : ∀ e ∈ A, e.1 < k + 2^31 ∧ k < e.1 + 2^31 := fun e he => by
    have := h.win e he; omega
  -- a state that only got `useInterleaving := true` still refines the same table
  have hsame : ∀ q' : Q, q'.si = q.si → q'.unordered = q.unordered → q'.ordered = q.ordered →
      q'.unorderedMID = q.unorderedMID → q'.nextMID = q.nextMID → q'.orderedMID = q.orderedMID →
      q'.useInterleaving = true → MidInv S τ q' d A ((k, i) :: P) := by
    intro q' a b c e f g hil
    exact { si := by rw [a, h.si], il := (by rw [hil]; intro hc; cases hc), un := by rw [b, h.un], od := by rw [c, h.od],
            um := by rw [e, h.um], cur := by rw [f, h.cur], ord := by rw [g, h.ord], sorted := h.sorted,
            win := h.win, wf := h.wf,
            pushed := fun e he j hj => List.mem_cons_of_mem _ (h.pushed e he j hj),
            done := fun k hk i hi => List.mem_cons_of_mem _ (h.done k hk i hi) }
  unfold Q.pushWithError
  have c1 : (S.idataFrag τ k i).iData = true := rfl
  simp only [c1, ↓reduceIte]
  unfold Q.pushIData
  have c2 : ((S.idataFrag τ k i).si != q.si) = false := by simp [Sender.idataFrag, h.si]
  have c3 : (S.idataFrag τ k i).unordered = false := rfl
  simp only [c2, c3, Bool.false_eq_true, ↓reduceIte]
  unfold Q.pushOrderedIData
  have c5 : (S.idataFrag τ k i).mid = BitVec.ofNat 32 k := rfl
  have c4 : sna32LT (BitVec.ofNat 32 k) q.nextMID = false := by
    rw [h.cur, sna32LT_ofNat _ _ (by omega) (by omega)]; simp; omega
  simp only [c5, c4, Bool.false_eq_true, ↓reduceIte, h.ord]
  rcases findMID_conc S τ k A hwinA with ⟨hfresh, hnone⟩ | ⟨pre, js, post, hA, hsome, hupd⟩
  · rw [hnone]
    simp only
    split
    · exact ⟨A, hsame _ rfl rfl rfl rfl rfl (by simp [h.ord]) rfl⟩
    · -- new set
      have hpc := pushAndCheck_conc S τ k i [] (newChunkSetMID (BitVec.ofNat 32 k) (S.idataFrag τ k i).ppi)
        rfl rfl (by simp) (by omega) (by simp)
      have hset : ((newChunkSetMID (BitVec.ofNat 32 k) (S.idataFrag τ k i).ppi).pushAndCheck (S.idataFrag τ k i)).1
          = S.concSetMID τ (k, [i]) := by
        rw [hpc.2]
        simp only [List.nil_append, goSort_singleton, newChunkSetMID, Sender.concSetMID, List.map_cons, List.map_nil,
          List.mem_singleton]
        congr 1
        by_cases h0 : i = 0
        · simp [h0]
        · simp [h0, Sender.idataFrag]; omega
      simp only [hpc.1, Bool.not_true, Bool.false_eq_true, ↓reduceIte, hset]
      obtain ⟨A', hins, hsorted', hmem⟩ := insertMID_conc S τ (k, [i]) A d h.sorted
        (fun e he => by have := h.win e he; omega) ⟨hdk, hw⟩ hfresh
      refine ⟨A', ?_⟩
      exact
        { si := by simp [Q.addBytes, h.si], il := by simp [Q.addBytes], un := by simp [Q.addBytes, h.un],
          od := by simp [Q.addBytes, h.od], um := by simp [Q.addBytes, h.um], cur := by simp [Q.addBytes, h.cur],
          ord := by simp only [Q.addBytes]; exact hins,
          sorted := hsorted',
          win := by
            intro e he
            rcases (hmem e).1 he with he | rfl
            · exact h.win e he
            · exact ⟨hdk, hw, hk⟩
          wf := by
            intro e he
            rcases (hmem e).1 he with he | rfl
            · exact h.wf e he
            · refine ⟨by simp, by simp, ?_⟩
              intro j hj; simp only [List.mem_singleton] at hj; subst hj; exact hi
          pushed := by
            intro e he j hj
            rcases (hmem e).1 he with he | rfl
            · exact List.mem_cons_of_mem _ (h.pushed e he j hj)
            · simp only [List.mem_singleton] at hj; subst hj; exact List.mem_cons_self ..
          done := fun k' hk' i' hi' => List.mem_cons_of_mem _ (h.done k' hk' i' hi') }
  · rw [hsome]
    simp only
    have hin : (k, js) ∈ A := by rw [hA]; simp
    have hnotin : i ∉ js := fun hij => hP (h.pushed _ hin i hij)
    have hwf := h.wf _ hin
    simp only at hwf
    have hinc : (S.concSetMID τ (k, js)).isComplete = false := by
      cases hc : (S.concSetMID τ (k, js)).isComplete with
      | false => rfl
      | true =>
        have := completeMID_imp_all S τ k js hnf.2 hwf.2.2 (by simpa [ChunkSetMID.isComplete, Sender.concSetMID] using hc)
        exact absurd (by rw [this]; simp [hi]) hnotin
    have hpc := pushAndCheck_conc S τ k i js (S.concSetMID τ (k, js)) rfl hinc
      (fun j hj => by have := hwf.2.2 j hj; omega) (by omega) hnotin
    let js' := goSort (fun a b => decide (a < b)) (js ++ [i])
    have hmemj : ∀ j, j ∈ js' ↔ j ∈ js ∨ j = i := by
      intro j; simp only [js']; rw [goSort_mem]; simp
    have hset : ((S.concSetMID τ (k, js)).pushAndCheck (S.idataFrag τ k i)).1 = S.concSetMID τ (k, js') := by
      rw [hpc.2]
      simp only [Sender.concSetMID]
      congr 1
      by_cases h0 : i = 0
      · have : 0 ∈ js' := (hmemj 0).2 (.inr h0.symm)
        simp [h0, this]
      · have : 0 ∈ js' ↔ 0 ∈ js := by
          rw [hmemj 0]; constructor
          · rintro (h | h)
            · exact h
            · exact absurd h.symm h0
          · exact .inl
        simp only [h0, ↓reduceIte, this]
    simp only [hpc.1, Bool.not_true, Bool.false_eq_true, ↓reduceIte, hset, hupd]
    refine ⟨pre ++ (k, js') :: post, ?_⟩
    have hmemA : ∀ e, e ∈ pre ++ (k, js') :: post → e = (k, js') ∨ e ∈ A := by
      intro e he
      rw [hA]
      simp only [List.mem_append, List.mem_cons] at he ⊢
      rcases he with he | rfl | he
      · right; exact .inl he
      · left; rfl
      · right; exact .inr (.inr he)
    exact
      { si := by simp [Q.addBytes, h.si], il := by simp [Q.addBytes], un := by simp [Q.addBytes, h.un],
        od := by simp [Q.addBytes, h.od], um := by simp [Q.addBytes, h.um], cur := by simp [Q.addBytes, h.cur],
        ord := by simp [Q.addBytes],
        sorted := by
          have hs := h.sorted
          rw [hA, List.pairwise_append, List.pairwise_cons] at hs
          rw [List.pairwise_append, List.pairwise_cons]
          refine ⟨hs.1, ⟨fun b hb => hs.2.1.1 b hb, hs.2.1.2⟩, ?_⟩
          intro a ha b hb
          rcases List.mem_cons.1 hb with rfl | hb
          · exact hs.2.2 a ha (k, js) (List.mem_cons_self ..)
          · exact hs.2.2 a ha b (List.mem_cons_of_mem _ hb)
        win := by
          intro e he
          rcases hmemA e he with rfl | he
          · exact h.win (k, js) hin
          · exact h.win e he
        wf := by
          intro e he
          rcases hmemA e he with rfl | he
          · refine ⟨?_, ?_, ?_⟩
            · intro hnil
              have := (hmemj i).2 (.inr rfl)
              simp only at hnil; rw [hnil] at this; simp at this
            · apply goSort_sorted (fun a : Nat => a)
              rw [List.pairwise_append]
              refine ⟨hwf.2.1.imp (fun hab => by omega), by simp, ?_⟩
              intro a ha b hb
              simp only [List.mem_singleton] at hb; subst hb
              intro hab; exact hnotin (hab ▸ ha)
            · intro j hj
              rcases (hmemj j).1 hj with hj | rfl
              · exact hwf.2.2 j hj
              · exact hi
          · exact h.wf e he
        pushed := by
          intro e he j hj
          rcases hmemA e he with rfl | he
          · rcases (hmemj j).1 hj with hj | rfl
            · exact List.mem_cons_of_mem _ (h.pushed (k, js) hin j hj)
            · exact List.mem_cons_self ..
          · exact List.mem_cons_of_mem _ (h.pushed e he j hj)
        done := fun k' hk' i' hi' => List.mem_cons_of_mem _ (h.done k' hk' i' hi') }

end Reasm
