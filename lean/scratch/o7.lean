import SctpVerif.Proofs.ReasmOrd
set_option linter.unusedVariables false
set_option linter.unusedSimpArgs false
namespace Reasm
open Gen

/-! ### honest runs -/

/-- what an honest peer + network can do to the queue: deliver fragment `i` of message `k`, or the
application reads with a buffer of `buflen` bytes. -/
inductive HOp
  | push (k i : Nat)
  | read (buflen : Nat)
deriving Repr

/-- the `(PPI, payload)` pairs returned by the successful reads of a run, in order. -/
def Sender.deliveries (S : Sender) (frag : Nat → Nat → Chunk) : Q → List HOp → List (PPI × List UInt8)
  | _, [] => []
  | q, .push k i :: ops => S.deliveries frag (q.pushWithError (frag k i)).1 ops
  | q, .read n :: ops =>
    (if (q.read n).2.err = .ok then [((q.read n).2.ppi, (q.read n).2.data)] else []) ++
      S.deliveries frag (q.read n).1 ops

/-- admissible runs: valid indices; no fragment is handed over twice (the association's TSN filter,
C05); the sender is never `W` or more messages ahead of what the application has read
(`W = 2^15` for SSNs, `2^31` for MIDs). `d` = messages read so far, `P` = fragments pushed so far. -/
def Sender.Admissible (S : Sender) (frag : Nat → Nat → Chunk) (W : Nat) : Q → Nat → List (Nat × Nat) → List HOp → Prop
  | _, _, _, [] => True
  | q, d, P, .push k i :: ops =>
      k < S.msgs.length ∧ i < S.nf k ∧ (k, i) ∉ P ∧ k < d + W ∧
      S.Admissible frag W (q.pushWithError (frag k i)).1 d ((k, i) :: P) ops
  | q, d, P, .read n :: ops =>
      S.Admissible frag W (q.read n).1 (if (q.read n).2.err = .ok then d + 1 else d) P ops

def Msg.out (m : Msg) : PPI × List UInt8 := (m.ppi, m.payload)

theorem OrdInv.prefix {S : Sender} (hS : S.WF) (ops : List HOp) {q d A P} (h : OrdInv S q d A P)
    (hadm : S.Admissible S.dataFrag (2^15) q d P ops) :
    S.deliveries S.dataFrag q ops <+: (S.msgs.drop d).map Msg.out := by
  induction ops generalizing q d A P with
  | nil => simp [Sender.deliveries]
  | cons op ops ih =>
    cases op with
    | push k i =>
      simp only [Sender.Admissible] at hadm
      obtain ⟨hk, hi, hP, hw, hrest⟩ := hadm
      obtain ⟨A', h'⟩ := h.push hS hk hi hP hw
      simp only [Sender.deliveries]
      exact ih h' hrest
    | read n =>
      simp only [Sender.Admissible] at hadm
      simp only [Sender.deliveries]
      rcases h.read hS n with ⟨hne, hq⟩ | ⟨hok, hd, hppi, hdata, A', h'⟩
      · rw [if_neg hne] at hadm ⊢
        rw [hq] at hadm ⊢
        simpa using ih h hadm
      · rw [if_pos hok] at hadm ⊢
        have hdrop : S.msgs.drop d = S.msgs[d] :: S.msgs.drop (d + 1) := (List.drop_eq_getElem_cons hd)
        have hmsg : S.msg d = S.msgs[d] := by
          simp [Sender.msg, List.getD_eq_getElem?_getD, List.getElem?_eq_getElem hd]
        rw [hdrop, List.map_cons, hppi, hdata, hmsg]
        simp only [List.singleton_append, Msg.out]
        exact (List.prefix_cons_inj _).2 (ih h' hadm)

end Reasm
