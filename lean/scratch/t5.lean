import SctpVerif.Proofs.Reasm
set_option linter.unusedVariables false
set_option linter.unusedSimpArgs false
namespace Reasm
open Gen

theorem limit_false_of_not_both {q : Q} {n : Nat} (h : ¬ (q.hasDataLimit && q.isDataLimitReached n) = true) :
    q.isDataLimitReached n = false := by
  simp only [Q.hasDataLimit, Q.isDataLimitReached, isReassemblyQueueLimitReached] at *
  cases h1 : decide (q.maxEntries > 0#32) <;> simp_all

theorem pushNoDuplicate_spec (s : ChunkSet) (c : Chunk) :
    bytesOf (s.pushNoDuplicate c).1.chunks = bytesOf s.chunks + c.len ∧
    (s.pushNoDuplicate c).1.chunks.length = s.chunks.length + 1 := by
  simp [ChunkSet.pushNoDuplicate, bytesOf_sortTSN, length_sortTSN]

theorem pushIData_effect (q : Q) (c : Chunk) : PushEffect q (q.pushIData c).1 c := by
  unfold Q.pushIData
  split
  · exact .refl q c
  · split
    · exact pushUnorderedIData_effect q c
    · exact pushOrderedIData_effect q c

theorem pushWithError_effect (q : Q) (c : Chunk) : PushEffect q (q.pushWithError c).1 c := by
  unfold Q.pushWithError
  split
  · have h := pushIData_effect { q with useInterleaving := true } c
    exact ⟨h.bytes, h.me, h.oe, h.ue, h.om, h.um⟩
  · split
    · exact .refl q c
    · split
      · -- unordered DATA
        split
        · exact .refl q c
        · rename_i hlim
          have hl := limit_false_of_not_both hlim
          dsimp only
          split
          · -- panic (unreachable, but the accounting is still exact)
            refine ⟨.inr ⟨?_, ?_⟩, rfl, .inl rfl, .inr ⟨?_, hl⟩, .inl rfl, .inl rfl⟩
            · simp only [Q.heldBytes, Q.addBytes, bytesOf_sortTSN, bytesOf_append, bytesOf_cons, bytesOf_nil]; omega
            · simp [Q.addBytes]
            · simp only [Q.unorderedDataEntryCount, Q.addBytes, length_sortTSN, List.length_append, List.length_cons, List.length_nil]
              omega
          · refine ⟨.inr ⟨?_, ?_⟩, rfl, .inl rfl, .inr ⟨?_, hl⟩, .inl rfl, .inl rfl⟩
            · simp only [Q.heldBytes, Q.addBytes, bytesOf_sortTSN, bytesOf_append, bytesOf_cons, bytesOf_nil]; omega
            · simp [Q.addBytes]
            · simp only [Q.unorderedDataEntryCount, Q.addBytes, length_sortTSN, List.length_append, List.length_cons, List.length_nil]
              omega
          · rename_i cset rest hf
            have hs := findCompleteUnordered_found hf
            simp only [bytesOf_sortTSN, length_sortTSN, bytesOf_append, bytesOf_cons, bytesOf_nil,
              List.length_append, List.length_cons, List.length_nil] at hs
            refine ⟨.inr ⟨?_, ?_⟩, rfl, .inl rfl, .inr ⟨?_, hl⟩, .inl rfl, .inl rfl⟩
            · simp only [Q.heldBytes, Q.addBytes, bytesOfSets_append, bytesOfSets_cons, bytesOfSets_nil]; omega
            · simp [Q.addBytes]
            · simp only [Q.unorderedDataEntryCount, Q.addBytes, countChunks_append, countChunks_cons, countChunks_nil]
              omega
      · split
        · exact .refl q c
        · split
          · exact .refl q c
          · rename_i pre cset post hf
            have hf' : q.ordered = pre ++ cset :: post := by
              split at hf
              · exact findFragSet_found hf
              · cases hf
            split
            · exact .refl q c
            · split
              · exact .refl q c
              · rename_i hlim
                have hl := limit_false_of_not_both hlim
                have hp := pushNoDuplicate_spec cset c
                refine ⟨.inr ⟨?_, ?_⟩, rfl, .inr ⟨?_, hl⟩, .inl rfl, .inl rfl, .inl rfl⟩
                · simp only [Q.heldBytes, Q.addBytes, hf', bytesOfSets_append, bytesOfSets_cons]; omega
                · simp [Q.addBytes]
                · simp only [Q.orderedDataEntryCount, Q.addBytes, hf', countChunks_append, countChunks_cons]; omega
          · split
            · exact .refl q c
            · rename_i hlim
              have hl := limit_false_of_not_both hlim
              have hp := pushNoDuplicate_spec (newChunkSet c.ssn c.ppi) c
              have h0 : bytesOf (newChunkSet c.ssn c.ppi).chunks = 0 := rfl
              have h1 : (newChunkSet c.ssn c.ppi).chunks.length = 0 := rfl
              refine ⟨.inr ⟨?_, ?_⟩, rfl, .inr ⟨?_, hl⟩, .inl rfl, .inl rfl, .inl rfl⟩
              · simp only [Q.heldBytes, Q.addBytes, bytesOfSets_sortSSN, bytesOfSets_append, bytesOfSets_cons, bytesOfSets_nil]
                omega
              · simp [Q.addBytes]
              · simp only [Q.orderedDataEntryCount, Q.addBytes, countChunks_sortSSN, countChunks_append, countChunks_cons, countChunks_nil]
                omega

end Reasm
