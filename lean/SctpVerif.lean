import SctpVerif.GenPrelude
import SctpVerif.Gen.Consts
import SctpVerif.Gen.Funcs
import SctpVerif.Gen.Facts
