import SctpVerif.Driver.Rq
import SctpVerif.Driver.GenX
import SctpVerif.Driver.E2E
import SctpVerif.Driver.Timer
import SctpVerif.Driver.Assoc
import SctpVerif.Driver.AssocRecv
import SctpVerif.Driver.Hs
import SctpVerif.Driver.Sd
import SctpVerif.Driver.PendQ
import SctpVerif.Driver.RingQ
import SctpVerif.Driver.Reasm
import SctpVerif.Driver.Codec
import SctpVerif.Driver.Rs
/-!
Driver: replays implementation logs (`<comp> <op…> -> <impl result>`) through the L0 models and
evaluates the executable property predicates on the implementation's results.
Output: `DIFF <line#> <comp> | <op> | impl=<…> | model=<…>` for correspondence mismatches,
`PVIOL <line#> <comp> | <op> | <message>` for predicate failures, then one `DONE …` line.
After a DIFF the component is re-synchronised at its next `new`.
-/
open Drv

structure Counters where
  lines : Nat := 0
  compared : Nat := 0
  diffs : Nat := 0
  pviol : Nat := 0

structure All where
  rq : Rq.St := {}
  e2e : E2E.St := {}
  assoc : Assoc.St := {}
  arecv : AssocRecv.St := {}
  hs : HsD.St := {}
  sd : SdD.St := {}
  rto : Tm.RtoSt := {}
  timer : Tm.St := {}
  pend : Pend.St := {}
  ringq : RingQ.St := {}
  reasm : Reasm.St := {}
  codec : Cdc.St := {}
  rs : RsD.St := {}
  desync : List String := []
  cnt : Counters := {}

def splitArrow (toks : List String) : List String × List String :=
  let rec go (acc : List String) : List String → List String × List String
    | [] => (acc.reverse, [])
    | "->" :: rest => (acc.reverse, rest)
    | t :: rest => go (t :: acc) rest
  go [] toks

/-- returns (state, model result or none when the component has no L0 result for this line, violations) -/
def stepComp (a : All) (comp : String) (op impl : List String) : All × Option String × List String :=
  match comp with
  | "rq" => let (s, r, e) := Rq.step a.rq op impl; ({ a with rq := s }, some r, e.toList)
  | "gen" => (a, some (GenX.step op), (GenX.pred op impl).toList)
  | "e2e" => let (s, v) := E2E.step a.e2e op impl; ({ a with e2e := s }, none, v)
  | "as" => let (s, r, v) := Assoc.step a.assoc op impl; ({ a with assoc := s }, r, v)
  | "ar" => let (s, r, v) := AssocRecv.step a.arecv op impl; ({ a with arecv := s }, r, v)
  | "hs" => let (s, r, e) := HsD.step a.hs op impl; ({ a with hs := s }, some r, e.toList)
  | "sd" => let (s, r, e) := SdD.step a.sd op impl; ({ a with sd := s }, some r, e.toList)
  | "rto" => let (s, r, e) := Tm.rtoStep a.rto op impl; ({ a with rto := s }, some r, e.toList)
  | "timer" => let (s, r, e) := Tm.step a.timer op impl; ({ a with timer := s }, some r, e.toList)
  | "pend" => let (s, r, e) := Pend.step a.pend op impl; ({ a with pend := s }, some r, e.toList)
  | "ringq" => let (s, r, e) := RingQ.step a.ringq op impl; ({ a with ringq := s }, some r, e.toList)
  | "reasm" => let (s, r, e) := Reasm.step a.reasm op impl; ({ a with reasm := s }, some r, e.toList)
  | "codec" => let (s, r, e) := Cdc.step a.codec op impl; ({ a with codec := s }, some r, e.toList)
  | "rs" => let (s, r, v) := RsD.step a.rs op impl; ({ a with rs := s }, r, v)
  | _ => (a, some "unknown-component", [])

partial def loop (h : IO.FS.Stream) (a : All) (lineNo : Nat) : IO All := do
  let line ← h.getLine
  if line.isEmpty then return a
  let l := line.trimAscii.toString
  if l.isEmpty || l.startsWith "#" then return ← loop h a (lineNo+1)
  let toks := (l.splitOn " ").filter (· ≠ "")
  let (lhs, impl) := splitArrow toks
  match lhs with
  | comp :: op =>
    let isNew := op.head? == some "new"
    let a := if isNew then { a with desync := a.desync.filter (· ≠ comp) } else a
    let wasDesync := a.desync.contains comp
    let (a, r, e) := stepComp a comp op impl
    let mut a := { a with cnt := { a.cnt with lines := a.cnt.lines + 1 } }
    let implS := " ".intercalate impl
    -- the property predicate looks only at the implementation's results: always evaluated
    for msg in e do
      IO.println s!"PVIOL {lineNo} {comp} | {" ".intercalate (op.take 6)} | {msg}"
      a := { a with cnt := { a.cnt with pviol := a.cnt.pviol + 1 } }
    -- L0 correspondence: compared until the first difference, re-synchronised at the next `new`
    if let some r := r then if !wasDesync then
      a := { a with cnt := { a.cnt with compared := a.cnt.compared + 1 } }
      if r != implS then
        IO.println s!"DIFF {lineNo} {comp} | {" ".intercalate op} | impl={implS} | model={r}"
        a := { a with cnt := { a.cnt with diffs := a.cnt.diffs + 1 }, desync := comp :: a.desync }
    loop h a (lineNo+1)
  | [] => loop h a (lineNo+1)

def main : IO UInt32 := do
  let a ← loop (← IO.getStdin) {} 1
  IO.println s!"DONE lines={a.cnt.lines} compared={a.cnt.compared} diffs={a.cnt.diffs} pviol={a.cnt.pviol}"
  return if a.cnt.diffs == 0 && a.cnt.pviol == 0 then 0 else 1
