import SctpVerif.Driver.Rq
import SctpVerif.Driver.GenX
import SctpVerif.Driver.Codec
/-!
Driver: replays implementation logs (`<comp> <op…> -> <impl result>`) through the L0 models and
evaluates the executable property predicates on the implementation's results.
Output: `DIFF <line#> <comp> | <op> | impl=<…> | model=<…>` for correspondence mismatches,
`PVIOL <line#> <comp> | <op> | <message>` for predicate failures, then one `DONE …` line.
After a DIFF the component is re-synchronised at its next `new`.
-/
open Drv

structure Counters where
  lines : Nat := 0
  compared : Nat := 0
  diffs : Nat := 0
  pviol : Nat := 0

structure All where
  rq : Rq.St := {}
  codec : Cdc.St := {}
  desync : List String := []
  cnt : Counters := {}

def splitArrow (toks : List String) : List String × List String :=
  let rec go (acc : List String) : List String → List String × List String
    | [] => (acc.reverse, [])
    | "->" :: rest => (acc.reverse, rest)
    | t :: rest => go (t :: acc) rest
  go [] toks

def stepComp (a : All) (comp : String) (op impl : List String) : All × String × Option String :=
  match comp with
  | "rq" => let (s, r, e) := Rq.step a.rq op impl; ({ a with rq := s }, r, e)
  | "gen" => (a, GenX.step op, GenX.pred op impl)
  | "codec" => let (s, r, e) := Cdc.step a.codec op impl; ({ a with codec := s }, r, e)
  | _ => (a, "unknown-component", none)

partial def loop (h : IO.FS.Stream) (a : All) (lineNo : Nat) : IO All := do
  let line ← h.getLine
  if line.isEmpty then return a
  let l := line.trimAscii.toString
  if l.isEmpty || l.startsWith "#" then return ← loop h a (lineNo+1)
  let toks := (l.splitOn " ").filter (· ≠ "")
  let (lhs, impl) := splitArrow toks
  match lhs with
  | comp :: op =>
    let isNew := op.head? == some "new"
    let a := if isNew then { a with desync := a.desync.filter (· ≠ comp) } else a
    let wasDesync := a.desync.contains comp
    let (a, r, e) := stepComp a comp op impl
    let mut a := { a with cnt := { a.cnt with lines := a.cnt.lines + 1 } }
    let implS := " ".intercalate impl
    -- the property predicate looks only at the implementation's results: always evaluated
    if let some msg := e then
      IO.println s!"PVIOL {lineNo} {comp} | {" ".intercalate op} | {msg}"
      a := { a with cnt := { a.cnt with pviol := a.cnt.pviol + 1 } }
    -- L0 correspondence: compared until the first difference, re-synchronised at the next `new`
    if !wasDesync then
      a := { a with cnt := { a.cnt with compared := a.cnt.compared + 1 } }
      if r != implS then
        IO.println s!"DIFF {lineNo} {comp} | {" ".intercalate op} | impl={implS} | model={r}"
        a := { a with cnt := { a.cnt with diffs := a.cnt.diffs + 1 }, desync := comp :: a.desync }
    loop h a (lineNo+1)
  | [] => loop h a (lineNo+1)

def main : IO UInt32 := do
  let a ← loop (← IO.getStdin) {} 1
  IO.println s!"DONE lines={a.cnt.lines} compared={a.cnt.compared} diffs={a.cnt.diffs} pviol={a.cnt.pviol}"
  return if a.cnt.diffs == 0 && a.cnt.pviol == 0 then 0 else 1
