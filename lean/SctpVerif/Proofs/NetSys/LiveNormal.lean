import SctpVerif.Proofs.NetSys.LiveZ
import SctpVerif.Proofs.NetSys.LiveDefs
/-!
`Normal` as a run invariant (`Props/C02net.lean`): with the reassembly entry cap off the receive queue is pop-normalised in
every reachable NetSys state — a chunk `acceptPayloadData` decides to store is stored (`accept_stored`), so the queue
trace of `handleData` is never a bare `push`, and after a `data` operation the pop loop has run to completion.
-/
namespace NetSysLive
open Gen NetSys Receiver

/-- pop-normalised -/
def NormalQ (q : RecvQ.Q) : Prop := RecvQ.hasChunk q (q.cum + 1) = false

theorem popAllQ_normal {q : RecvQ.Q} (I : RecvQ.Inv q) : NormalQ (popAllQ q) := by
  unfold NormalQ popAllQ
  exact RecvQ.popAllS_done (s := ⟨q, ⟨0, 0, fun _ => False, fun _ => False⟩⟩) I

/-- what is carried through the chunks of a packet -/
structure NB (r : Receiver.St) : Prop where
  me : r.maxEntries = 0
  z : AllQ Z r
  np : NoPanic r
  inv : RecvQ.Inv r.pq
  nrm : NormalQ r.pq

theorem handleData_normal {r : Receiver.St} (h : NB r) (c : Reasm.Chunk) (imm : Bool) : NormalQ (handleData r c imm).pq := by
  rw [handleData_pq]
  unfold dataTrace
  dsimp only
  split
  · exact h.nrm
  · split
    · exact h.nrm
    · split
      · rename_i hcp
        by_cases hA : ((acceptPayloadData r c).2 || r.state == 7#32) = true
        · rw [if_pos hA, qrun_data]
          split
          · exact popAllQ_normal (RecvQ.push_inv h.inv _)
          · exact popAllQ_normal h.inv
        · rw [if_neg hA]
          by_cases hB : (RecvQ.canPush r.pq c.tsn && stores r c) = true
          · exfalso
            simp only [Bool.and_eq_true] at hB
            have hs := accept_stored r c h.me h.z h.np hB.2
            rw [hs] at hA
            exact hA (by simp)
          · rw [if_neg hB]; exact h.nrm
      · simp only [Bool.true_or, if_true]
        rw [qrun_data]
        split
        · exact popAllQ_normal (RecvQ.push_inv h.inv _)
        · exact popAllQ_normal h.inv

theorem handleChunk_nb {r : Receiver.St} (h : NB r) (c : Reasm.Chunk) (imm : Bool) : NB (handleChunk r (.data c imm)) := by
  refine ⟨?_, ?_, handleChunk_noPanic h.np _, ?_, ?_⟩
  · simp only [handleChunk]; split
    · exact h.me
    · rw [handleData_maxEntries]; exact h.me
  · simp only [handleChunk]; split
    · exact h.z
    · exact handleData_z h.me h.z c imm
  · rw [handleChunk_pq]; exact (qrun_inv h.inv _).1
  · simp only [handleChunk]; split
    · exact h.nrm
    · exact handleData_normal h c imm

theorem foldl_nb (cs : List InChunk) (hd : DataOnly cs) : ∀ {r : Receiver.St}, NB r → NB (cs.foldl handleChunk r) := by
  induction cs with
  | nil => intro r h; exact h
  | cons ch cs ih =>
    intro r h
    obtain ⟨c, imm, rfl⟩ := hd ch (by simp)
    simp only [List.foldl_cons]
    exact ih (fun x hx => hd x (List.mem_cons_of_mem _ hx)) (handleChunk_nb h c imm)

theorem step_normal {r : Receiver.St} (h : NB r) (op : Receiver.Op) (hd : ∀ cs, op = .pkt cs → DataOnly cs) :
    NormalQ (Receiver.step r op).pq := by
  cases op with
  | pkt cs =>
    show NormalQ (packet r cs).pq
    unfold packet
    rw [chunksEnd_pq]
    exact (foldl_nb cs (hd cs rfl) (r := chunksStart r) ⟨h.me, h.z, h.np, h.inv, h.nrm⟩).nrm
  | gather =>
    rw [step_pq]
    simp only [opTrace]
    split
    · rw [qrun_single _ ⟨0, 0, fun _ => False, fun _ => False⟩]; exact h.nrm
    · exact h.nrm
  | read n k => rw [step_pq]; exact h.nrm
  | accept => rw [step_pq]; exact h.nrm
  | «open» si => rw [step_pq]; exact h.nrm
  | tick d => rw [step_pq]; exact h.nrm
  | setState st => exact h.nrm

/-- the invariants every reachable receiver state has when the entry cap is off -/
theorem run_nb0 (P : Params) (h0 : P.maxEntries = 0) (ops : List NetSys.Op) :
    (run P (init P) ops).rcv.maxEntries = 0 ∧ AllQ Z (run P (init P) ops).rcv ∧ NoPanic (run P (init P) ops).rcv ∧
    RecvQ.Inv (run P (init P) ops).rcv.pq := by
  obtain ⟨a, b⟩ := run_z P h0 ops
  refine ⟨a, b, ?_, (run_pq_maxOff P ops).2⟩
  rw [run_rcv]; exact run_noPanic _ (init_noPanic _ _ _ _ _ _ _)

/-- ✱ with the entry cap off the receive queue is pop-normalised in every reachable state -/
theorem run_normal (P : Params) (h0 : P.maxEntries = 0) (ops : List NetSys.Op) : NormalQ (run P (init P) ops).rcv.pq := by
  induction ops using List.reverseRecOn with
  | nil =>
    show RecvQ.hasChunk (init P).rcv.pq _ = false
    have : (init P).rcv.pq.size = 0 := rfl
    simp [RecvQ.hasChunk, this]
  | append_singleton o1 op ih =>
    obtain ⟨a, b, c, d⟩ := run_nb0 P h0 o1
    rw [NetSys.run_append]
    show NormalQ (step P (run P (init P) o1) op).rcv.pq
    rw [step_rcv]
    cases hs : sndOp P (run P (init P) o1).snd op with
    | some o => exact ih
    | none =>
      cases hr : rcvOp P (run P (init P) o1).wire op with
      | none => exact ih
      | some o =>
        apply step_normal ⟨a, b, c, d, ih⟩
        intro cs hcs
        subst hcs
        obtain ⟨is, rfl⟩ := rcvOp_pkt P _ op _ hr
        intro ch hch
        obtain ⟨c, _, imm, rfl⟩ := packetOf_mem P _ is ch hch
        exact ⟨_, _, rfl⟩

end NetSysLive
