import SctpVerif.Model.NetSys
import SctpVerif.Proofs.Sender.WireId
import SctpVerif.Proofs.Receiver.Prefix
/-!
The two projections of a NetSys run: the sender operations it performs (`sndOps`, a run of the `Sender` model) and
the receiver operations it performs (`rcvOps`, a run of the `Receiver` model whose packets are built from the wire
history of the sender run so far). What the applications see (`writes`, `readsOn`) are the `accepted` writes of the
sender run and the `delivs` of the receiver run.
-/
namespace NetSys
open SenderProofs SenderTsn

/-- the sender operations of a NetSys run (depends on the sender state only) -/
def sndOps (P : Params) : Sender.St → List Op → List Sender.Op
  | _, [] => []
  | s, op :: ops =>
    match sndOp P s op with
    | some o => o :: sndOps P (Sender.step s o) ops
    | none => sndOps P s ops

/-- the receiver operations of a NetSys run -/
def rcvOps (P : Params) : St → List Op → List Receiver.Op
  | _, [] => []
  | s, op :: ops =>
    match sndOp P s.snd op with
    | some _ => rcvOps P (step P s op) ops
    | none =>
      match rcvOp P s.wire op with
      | some o => o :: rcvOps P (step P s op) ops
      | none => rcvOps P (step P s op) ops

theorem emits_eq (s : Sender.St) (o : Sender.Op) : emits s o = emittedBy s o := by
  cases o <;> rfl

theorem step_snd_some (P : Params) (s : St) (op : Op) (o : Sender.Op) (h : sndOp P s.snd op = some o) :
    step P s op = { s with snd := Sender.step s.snd o, wire := s.wire ++ emits s.snd o } := by
  simp only [step, h]

theorem step_snd_none (P : Params) (s : St) (op : Op) (h : sndOp P s.snd op = none) :
    (step P s op).snd = s.snd ∧ (step P s op).wire = s.wire := by
  simp only [step, h]
  cases rcvOp P s.wire op <;> exact ⟨rfl, rfl⟩

theorem run_snd (P : Params) (s : St) (ops : List Op) :
    (run P s ops).snd = Sender.run s.snd (sndOps P s.snd ops) ∧
    (run P s ops).wire = s.wire ++ wire s.snd (sndOps P s.snd ops) := by
  induction ops generalizing s with
  | nil => simp [run, sndOps, Sender.run, wire]
  | cons op ops ih =>
    simp only [run, sndOps]
    cases h : sndOp P s.snd op with
    | some o =>
      obtain ⟨i1, i2⟩ := ih (step P s op)
      rw [step_snd_some P s op o h] at i1 i2 ⊢
      simp only [Sender.run, wire]
      refine ⟨i1, ?_⟩
      rw [i2, emits_eq, List.append_assoc]
    | none =>
      obtain ⟨i1, i2⟩ := ih (step P s op)
      obtain ⟨e1, e2⟩ := step_snd_none P s op h
      rw [e1] at i1 i2
      rw [e2] at i2
      exact ⟨i1, i2⟩

theorem step_rcv (P : Params) (s : St) (op : Op) :
    (step P s op).rcv = match sndOp P s.snd op with
      | some _ => s.rcv
      | none => match rcvOp P s.wire op with
        | some o => Receiver.step s.rcv o
        | none => s.rcv := by
  simp only [step]
  cases sndOp P s.snd op with
  | some o => rfl
  | none => cases rcvOp P s.wire op <;> rfl

theorem run_rcv (P : Params) (s : St) (ops : List Op) : (run P s ops).rcv = Receiver.run s.rcv (rcvOps P s ops) := by
  induction ops generalizing s with
  | nil => rfl
  | cons op ops ih =>
    simp only [run, rcvOps]
    rw [ih (step P s op), step_rcv]
    cases sndOp P s.snd op with
    | some o => rfl
    | none =>
      cases rcvOp P s.wire op with
      | some o => simp [Receiver.run]
      | none => rfl

/-! ## what the applications see -/

theorem writes_eq (P : Params) (s : St) (ops : List Op) : writes P s ops = accepted s.snd (sndOps P s.snd ops) := by
  induction ops generalizing s with
  | nil => rfl
  | cons op ops ih =>
    simp only [writes, sndOps]
    rw [ih (step P s op)]
    cases h : sndOp P s.snd op with
    | some o =>
      rw [step_snd_some P s op o h]
      simp only [accepted]
      congr 1
      cases op with
      | write si ppi =>
        simp only [sndOp, Option.some.injEq] at h
        subst h
        rfl
      | snd so =>
        cases so with
        | write a b c => simp [sndOp] at h
        | _ => simp only [sndOp, Option.some.injEq] at h; subst h; rfl
      | deliver is => simp [sndOp] at h
      | rcv ro => simp [sndOp] at h
    | none =>
      rw [(step_snd_none P s op h).1]
      cases op with
      | write si ppi => simp [sndOp] at h
      | _ => rfl

theorem reads_eq (P : Params) (si : BitVec 16) (s : St) (ops : List Op) :
    readsOn P si s ops = Receiver.delivs si s.rcv (rcvOps P s ops) := by
  induction ops generalizing s with
  | nil => rfl
  | cons op ops ih =>
    simp only [readsOn, rcvOps]
    rw [ih (step P s op), step_rcv]
    cases h : sndOp P s.snd op with
    | some o =>
      cases op with
      | write a b => rfl
      | snd so => rfl
      | deliver is => simp [sndOp] at h
      | rcv ro => simp [sndOp] at h
    | none =>
      cases op with
      | write a b => simp [sndOp] at h
      | snd so =>
        cases so with
        | write a b c => rfl
        | _ => simp [sndOp] at h
      | deliver is => simp [rcvOp, readOut, Receiver.delivs, Receiver.readOut]
      | rcv ro =>
        cases ro with
        | pkt cs => rfl
        | read nm n =>
          simp only [rcvOp, readOut, Receiver.delivs, Receiver.readOut]
          cases (Receiver.read s.rcv nm n).2 <;> rfl
        | _ => simp [rcvOp, readOut, Receiver.delivs, Receiver.readOut]

/-! ## the sender run a NetSys run performs satisfies the hypotheses of `wire_ident` -/

theorem sndOps_lenOk (P : Params) (s : Sender.St) (ops : List Op) :
    LenOk (fun m => (P.pay m).length) s (sndOps P s ops) := by
  induction ops generalizing s with
  | nil => trivial
  | cons op ops ih =>
    simp only [sndOps]
    cases h : sndOp P s op with
    | some o =>
      refine ⟨?_, ih _⟩
      cases op with
      | write si ppi =>
        simp only [sndOp, Option.some.injEq] at h
        subst h
        rfl
      | snd so =>
        cases so with
        | write a b c => simp [sndOp] at h
        | _ => simp only [sndOp, Option.some.injEq] at h; subst h; trivial
      | deliver is => simp [sndOp] at h
      | rcv ro => simp [sndOp] at h
    | none => exact ih s

theorem sndOps_ord (P : Params) (s : Sender.St) (ops : List Op) (hr : Reliable ops = true) :
    ∀ o ∈ sndOps P s ops, OrdOp o := by
  induction ops generalizing s with
  | nil => intro o ho; cases ho
  | cons op ops ih =>
    simp only [Reliable, List.all_cons, Bool.and_eq_true] at hr
    obtain ⟨hr1, hr2⟩ := hr
    simp only [sndOps]
    cases h : sndOp P s op with
    | some o =>
      intro o' ho'
      rcases List.mem_cons.1 ho' with rfl | ho'
      · cases op with
        | write si ppi =>
          simp only [sndOp, Option.some.injEq] at h
          subst h
          trivial
        | snd so =>
          cases so with
          | write a b c => simp [sndOp] at h
          | openS a u rt d e =>
            simp only [sndOp, Option.some.injEq] at h; subst h
            simp only [ReliableOp, Bool.and_eq_true, Bool.not_eq_true'] at hr1
            exact hr1.1
          | unreg a => simp [ReliableOp] at hr1
          | _ => simp only [sndOp, Option.some.injEq] at h; subst h; trivial
        | deliver is => simp [sndOp] at h
        | rcv ro => simp [sndOp] at h
      · exact ih _ hr2 o' ho'
    | none => exact ih s hr2

/-! ## packets -/

/-- every chunk of a packet `deliver` builds is `toWire` of a chunk of the history -/
theorem packetOf_mem (P : Params) (w : List Sender.Chunk) (is : List (Nat × Bool)) :
    ∀ ch ∈ packetOf P w is, ∃ c ∈ w, ∃ imm, ch = Receiver.InChunk.data (toWire P c) imm := by
  intro ch hch
  simp only [packetOf, List.mem_filterMap] at hch
  obtain ⟨x, _, hx⟩ := hch
  cases hw : w[x.1]? with
  | none => simp [hw] at hx
  | some c =>
    simp only [hw, Option.map_some, Option.some.injEq] at hx
    exact ⟨c, List.mem_of_getElem? hw, x.2, hx.symm⟩

/-- every receiver operation of the run that is a packet was built by a `deliver` from the history at that time -/
theorem rcvOps_split (P : Params) (s : St) (ops : List Op) (r1 : List Receiver.Op) (x : Receiver.Op) (r2 : List Receiver.Op)
    (h : rcvOps P s ops = r1 ++ x :: r2) :
    ∃ o1 op o2, ops = o1 ++ op :: o2 ∧ rcvOps P s o1 = r1 ∧ sndOp P (run P s o1).snd op = none ∧
      rcvOp P (run P s o1).wire op = some x := by
  induction ops generalizing s r1 with
  | nil => simp [rcvOps] at h
  | cons op ops ih =>
    simp only [rcvOps] at h
    cases hs : sndOp P s.snd op with
    | some o =>
      simp only [hs] at h
      obtain ⟨o1, op', o2, e, e1, e2, e3⟩ := ih (step P s op) r1 h
      refine ⟨op :: o1, op', o2, by rw [e]; rfl, ?_, e2, e3⟩
      simp only [rcvOps, hs]; exact e1
    | none =>
      simp only [hs] at h
      cases hr : rcvOp P s.wire op with
      | none =>
        simp only [hr] at h
        obtain ⟨o1, op', o2, e, e1, e2, e3⟩ := ih (step P s op) r1 h
        refine ⟨op :: o1, op', o2, by rw [e]; rfl, ?_, e2, e3⟩
        simp only [rcvOps, hs, hr]; exact e1
      | some o =>
        simp only [hr] at h
        cases r1 with
        | nil =>
          simp only [List.nil_append, List.cons.injEq] at h
          exact ⟨[], op, ops, rfl, rfl, hs, by show rcvOp P s.wire op = some x; rw [hr, h.1]⟩
        | cons y r1' =>
          simp only [List.cons_append, List.cons.injEq] at h
          obtain ⟨o1, op', o2, e, e1, e2, e3⟩ := ih (step P s op) r1' h.2
          refine ⟨op :: o1, op', o2, by rw [e]; rfl, ?_, e2, e3⟩
          simp only [rcvOps, hs, hr, e1, h.1]

theorem run_append (P : Params) (s : St) (o1 o2 : List Op) : run P s (o1 ++ o2) = run P (run P s o1) o2 := by
  induction o1 generalizing s with
  | nil => rfl
  | cons op o1 ih => simp only [List.cons_append, run]; exact ih _

theorem sndOps_append (P : Params) (s : Sender.St) (o1 o2 : List Op) :
    sndOps P s (o1 ++ o2) = sndOps P s o1 ++ sndOps P (Sender.run s (sndOps P s o1)) o2 := by
  induction o1 generalizing s with
  | nil => rfl
  | cons op o1 ih =>
    simp only [List.cons_append, sndOps]
    cases h : sndOp P s op with
    | some o => simp only [List.cons_append, Sender.run]; rw [ih]
    | none => exact ih s

theorem wire_append (s : Sender.St) (o1 o2 : List Sender.Op) : wire s (o1 ++ o2) = wire s o1 ++ wire (Sender.run s o1) o2 := by
  induction o1 generalizing s with
  | nil => rfl
  | cons op o1 ih => simp only [List.cons_append, wire, Sender.run, ih, List.append_assoc]

theorem accepted_append (s : Sender.St) (o1 o2 : List Sender.Op) :
    accepted s (o1 ++ o2) = accepted s o1 ++ accepted (Sender.run s o1) o2 := by
  induction o1 generalizing s with
  | nil => rfl
  | cons op o1 ih => simp only [List.cons_append, accepted, Sender.run, ih, List.append_assoc]

theorem written_append (s : Sender.St) (o1 o2 : List Sender.Op) :
    written s (o1 ++ o2) = written s o1 ++ written (Sender.run s o1) o2 := by
  induction o1 generalizing s with
  | nil => rfl
  | cons op o1 ih => simp only [List.cons_append, written, Sender.run, ih, List.append_assoc]

end NetSys
