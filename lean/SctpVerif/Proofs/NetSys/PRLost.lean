import SctpVerif.Proofs.NetSys.PRTake
import SctpVerif.Proofs.Receiver.PrefixSkipRun
/-!
The receiver projection of a NetSysPR run (as `Proofs/NetSys/Proj.lean` for NetSys): the receiver operations the run
performs, what the reading application sees, and the ghost list of TSNs handed to reassembly queues.
-/
namespace NetSysPR
open NetSys (Params Op toWire sndOp)

/-- the receiver operations of a NetSysPR run -/
def rcvOps (P : Params) : St → List Op → List Receiver.Op
  | _, [] => []
  | s, op :: ops =>
    match sndOp P s.snd op with
    | some _ => rcvOps P (step P s op) ops
    | none =>
      match rcvOp P s.wire op with
      | some o => o :: rcvOps P (step P s op) ops
      | none => rcvOps P (step P s op) ops

theorem step_rcv (P : Params) (s : St) (op : Op) :
    (step P s op).rcv = match sndOp P s.snd op with
      | some _ => s.rcv
      | none => match rcvOp P s.wire op with
        | some o => Receiver.step s.rcv o
        | none => s.rcv := by
  simp only [step]
  cases sndOp P s.snd op with
  | some o => rfl
  | none => cases rcvOp P s.wire op <;> rfl

theorem run_rcv (P : Params) (s : St) (ops : List Op) : (run P s ops).rcv = Receiver.run s.rcv (rcvOps P s ops) := by
  induction ops generalizing s with
  | nil => rfl
  | cons op ops ih =>
    simp only [run, rcvOps]
    rw [ih (step P s op), step_rcv]
    cases sndOp P s.snd op with
    | some o => rfl
    | none =>
      cases rcvOp P s.wire op with
      | some o => simp [Receiver.run]
      | none => rfl

theorem reads_eq (P : Params) (si : BitVec 16) (s : St) (ops : List Op) :
    readsOn P si s ops = Receiver.delivs si s.rcv (rcvOps P s ops) := by
  induction ops generalizing s with
  | nil => rfl
  | cons op ops ih =>
    simp only [readsOn, rcvOps]
    rw [ih (step P s op), step_rcv]
    cases h : sndOp P s.snd op with
    | some o =>
      cases op with
      | write a b => rfl
      | snd so => rfl
      | deliver is => simp [sndOp] at h
      | rcv ro => simp [sndOp] at h
    | none =>
      cases op with
      | write a b => simp [sndOp] at h
      | snd so =>
        cases so with
        | write a b c => rfl
        | _ => simp [sndOp] at h
      | deliver is => simp [rcvOp, readOut, Receiver.delivs, Receiver.readOut]
      | rcv ro =>
        cases ro with
        | pkt cs => rfl
        | read nm n =>
          simp only [rcvOp, readOut, Receiver.delivs, Receiver.readOut]
          cases (Receiver.read s.rcv nm n).2 <;> rfl
        | _ => simp [rcvOp, readOut, Receiver.delivs, Receiver.readOut]

theorem pushedIn_eq (P : Params) (r : Receiver.St) (xs : List (Item × Bool)) :
    pushedIn P r xs = Receiver.pushedC r (xs.map fun x => inChunk P x.1 x.2) := by
  induction xs generalizing r with
  | nil => rfl
  | cons x xs ih =>
    obtain ⟨it, imm⟩ := x
    simp only [pushedIn, List.map_cons, Receiver.pushedC, ih]
    cases it with
    | data c => rfl
    | fwd f => cases f <;> rfl

/-- the ghost `pushed` of the composed run is the ghost `pushedT` of its receiver projection -/
theorem pushed_eq (P : Params) (s : St) (ops : List Op) : pushed P s ops = Receiver.pushedT s.rcv (rcvOps P s ops) := by
  induction ops generalizing s with
  | nil => rfl
  | cons op ops ih =>
    simp only [pushed, rcvOps]
    rw [ih (step P s op), step_rcv]
    cases h : sndOp P s.snd op with
    | some o => rw [sndOp_not_deliver h s]; rfl
    | none =>
      cases op with
      | write a b => simp [sndOp] at h
      | snd so => simp [rcvOp, pushedBy]
      | deliver is =>
        simp only [rcvOp, pushedBy, Receiver.pushedT, Receiver.pushedO, pushedIn_eq, packetOf]
      | rcv ro =>
        cases ro with
        | pkt cs => simp [rcvOp, pushedBy]
        | _ => simp [rcvOp, pushedBy, Receiver.pushedT, Receiver.pushedO]

/-- every packet of the receiver projection was built by a `deliver` from history items -/
theorem rcvOps_pkt (P : Params) (s : St) (ops : List Op) (cs : List Receiver.InChunk) (h : Receiver.Op.pkt cs ∈ rcvOps P s ops) :
    ∃ o1 is o2, ops = o1 ++ Op.deliver is :: o2 ∧ cs = packetOf P (run P s o1).wire is := by
  induction ops generalizing s with
  | nil => simp [rcvOps] at h
  | cons op ops ih =>
    simp only [rcvOps] at h
    have tl : Receiver.Op.pkt cs ∈ rcvOps P (step P s op) ops →
        ∃ o1 is o2, op :: ops = o1 ++ Op.deliver is :: o2 ∧ cs = packetOf P (run P s o1).wire is := by
      intro h'
      obtain ⟨o1, is, o2, e, e'⟩ := ih (step P s op) h'
      exact ⟨op :: o1, is, o2, by rw [e]; rfl, e'⟩
    cases hs : sndOp P s.snd op with
    | some o => rw [hs] at h; exact tl h
    | none =>
      rw [hs] at h
      cases hr : rcvOp P s.wire op with
      | none => rw [hr] at h; exact tl h
      | some ro =>
        rw [hr] at h
        rcases List.mem_cons.1 h with e | h
        · cases op with
          | write a b => simp [rcvOp] at hr
          | snd so => simp [rcvOp] at hr
          | deliver is =>
            simp only [rcvOp, Option.some.injEq] at hr
            rw [← hr] at e
            cases e
            exact ⟨[], is, ops, rfl, rfl⟩
          | rcv r =>
            cases r with
            | pkt cs' => simp [rcvOp] at hr
            | _ => simp only [rcvOp, Option.some.injEq] at hr; rw [← hr] at e; cases e
        · exact tl h

end NetSysPR
