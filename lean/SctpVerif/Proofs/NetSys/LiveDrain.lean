import SctpVerif.Proofs.NetSys.LiveRound
/-!
Iterating the healed round (`Props/C02net.lean`): every state along the rounds is again a reachable NetSys state with the
same number of chunks written, so `healed_progress` applies round after round; `outstanding` rounds drain both queues.
-/
namespace NetSysLive
open Gen NetSys

theorem run_healedRounds (P : Params) (n : Nat) : ∀ s, run P s (healedRounds P n s) = healedN P n s := by
  induction n with
  | zero => intro s; rfl
  | succ n ih =>
    intro s
    simp only [healedRounds, healedN, NetSys.run_append]
    exact ih _

theorem healed_run (P : Params) (ops : List Op) :
    healed P (run P (init P) ops) = run P (init P) (ops ++ healedRound P (run P (init P) ops)) := by
  unfold healed; rw [NetSys.run_append]

theorem chunksWritten_healedRounds (P : Params) (n : Nat) : ∀ ops,
    chunksWritten P (ops ++ healedRounds P n (run P (init P) ops)) = chunksWritten P ops := by
  induction n with
  | zero => intro ops; simp [healedRounds]
  | succ n ih =>
    intro ops
    simp only [healedRounds]
    rw [← List.append_assoc, healed_run, ih, chunksWritten_healedRound]

/-- ✱ `n ≥ outstanding` healed rounds, each of which finds the receiver ahead (`TakenN`), drain both sender queues -/
theorem healedN_drains (P : Params) (hc : SenderProofs.CfgOk P.cfg) (n : Nat) : ∀ ops, chunksWritten P ops < 2^31 →
    SenderProofs.Live (run P (init P) ops).snd → TakenN P n (run P (init P) ops) = true →
    NetSys.outstanding (run P (init P) ops) ≤ n →
    SenderProofs.Live (healedN P n (run P (init P) ops)).snd ∧ NetSys.outstanding (healedN P n (run P (init P) ops)) = 0 := by
  induction n with
  | zero => intro ops _ hl _ ho; exact ⟨hl, by simpa [healedN] using ho⟩
  | succ n ih =>
    intro ops hN hl ht ho
    simp only [TakenN, Bool.and_eq_true, Bool.or_eq_true, beq_iff_eq] at ht
    obtain ⟨p1, p2, p3⟩ := healed_progress P ops hc hN hl
    simp only [healedN]
    rw [healed_run] at p1 p2 p3 ht ⊢
    apply ih _ (by rw [chunksWritten_healedRound]; exact hN) p1 ht.2
    rcases ht.1 with h0 | h1
    · omega
    · have := (p3 h1).1; omega

/-- when both queues are empty the association's `BufferedAmount()` is 0 -/
theorem drained_buffered {s : Sender.St} (hl : SenderProofs.Live s) (h0 : s.pending.length + s.inflight.length = 0) :
    s.inflight = [] ∧ s.pending = [] ∧ s.penBytes + s.infBytes = 0 := by
  have h1 : s.inflight = [] := List.eq_nil_of_length_eq_zero (by omega)
  have h2 : s.pending = [] := List.eq_nil_of_length_eq_zero (by omega)
  refine ⟨h1, h2, ?_⟩
  rw [hl.core.pen, hl.core.inf, h1, h2]; simp [Sender.sumLen]

/-- … and, under C15's D9 premise on the sender operations of the run, so is every stream's `BufferedAmount()` -/
theorem drained_streams (P : Params) (hc : SenderProofs.CfgOk P.cfg) (ops : List Op)
    (hok : SenderProofs.RunOk (Sender.init P.cfg P.tsn P.peerRwnd) (sndOps P (init P).snd ops))
    (hwb : (run P (init P) ops).snd.wrapBuf = false)
    (h1 : (run P (init P) ops).snd.inflight = []) (h2 : (run P (init P) ops).snd.pending = []) :
    ∀ si, SenderProofs.bufOf (run P (init P) ops).snd si = 0 := by
  intro si
  rw [snd_run] at hwb h1 h2 ⊢
  have hb := (SenderProofs.run_books _ _ (fun _ => SenderProofs.init_books P.cfg P.tsn P.peerRwnd)
    (SenderProofs.init_win P.cfg P.tsn P.peerRwnd hc) hok).1 hwb
  rw [hb.streams si, SenderProofs.outstanding, h1, h2]
  simp [Sender.bytesOf]

/-- the sender state of a reachable NetSys state is `Live` when it is established and fewer than 2^31 chunks are queued -/
theorem snd_live (P : Params) (ops : List Op) (hc : SenderProofs.CfgOk P.cfg) (hf : SenderProofs.CfgFit P.cfg)
    (hest : (run P (init P) ops).snd.established = true)
    (hsm : (run P (init P) ops).snd.inflight.length + (run P (init P) ops).snd.pending.length < 2^31) :
    SenderProofs.Live (run P (init P) ops).snd := by
  rw [snd_run] at hest hsm ⊢
  exact ⟨SenderProofs.run_seq _ _ (SenderProofs.init_seq _ _ _) (SenderProofs.init_win _ _ _ hc),
    (SenderProofs.run_win _ _ (SenderProofs.init_win _ _ _ hc)).1,
    SenderProofs.run_core _ _ (SenderProofs.init_books _ _ _).core (SenderProofs.init_win _ _ _ hc),
    SenderProofs.run_pendfit _ _ (SenderProofs.init_win _ _ _ hc) hf (SenderProofs.init_pendfit _ _ _),
    by rw [SenderProofs.run_cfg _ _ hc]; exact hf, hest, hsm⟩

end NetSysLive
