import SctpVerif.Proofs.NetSys.PRLostFwd
import SctpVerif.Proofs.NetSys.SelFifo
import SctpVerif.Proofs.Sender.AccLen
/-!
FIFO selection (`SelFifo`: every gather takes the oldest pending chunk) over ordered streams of ANY reliability policy implies
`SelContig` (the argument of `selFifo_selContig` does not use the policy) and `FifoU` (the per-stream FIFO of the TSN
assignment in the universe's vocabulary): the written chunks, as fragment identities, are the moved chunks followed by the
pending ones (`moved_prefix_written`), and `gen` lists the fragments message after message.
-/
namespace NetSys
open SenderProofs SenderTsn Sender

/-- the moved chunks are, position by position, a prefix of `gen` of the accepted writes -/
theorem gen_prefix (P : Params) (ops : List Op) (hf : SelFifo ops = true) (hrel : OrdOnly ops = true) :
    ∃ rest, (gen P.cfg.useInterleaving P.cfg.maxPayload.toNat (fun m => (P.pay m).length) []
        (accepted (init P).snd (sndOps P (init P).snd ops))).map Chunk.frag =
      (moved (init P).snd (sndOps P (init P).snd ops)).map Chunk.frag ++ rest := by
  have hs0 : (init P).snd = Sender.init P.cfg P.tsn P.peerRwnd := rfl
  have hlen := sndOps_lenOk P (init P).snd ops
  have hord := sndOps_ordOnly P (init P).snd ops hrel
  obtain ⟨hgen, _⟩ := run_gen P.cfg.useInterleaving (fun m => (P.pay m).length) [] (init P).snd (sndOps P (init P).snd ops)
    (init_cinv _ P.cfg P.tsn P.peerRwnd) rfl hord hlen
  have hpre := moved_prefix_written P.cfg P.tsn P.peerRwnd (sndOps P (init P).snd ops) (sndOps_fifo P (init P).snd ops hf)
  rw [← hs0, hgen] at hpre
  have hcfg0 : (init P).snd.cfg = P.cfg := rfl
  rw [hcfg0] at hpre
  exact ⟨_, hpre⟩

/-- ✱ `SelContig` from FIFO selection, ordered streams of any policy -/
theorem selFifo_selContig_ord (P : Params) (ops : List Op) (hf : SelFifo ops = true) (hrel : OrdOnly ops = true) :
    SelContig P ops = true := by
  obtain ⟨rest, hpre⟩ := gen_prefix P ops hf hrel
  have hsorted := accepted_sorted (init P).snd (sndOps P (init P).snd ops)
  simp only [SelContig, Bool.and_eq_true]
  exact ⟨contigB_of_prefix _ _ _ _ _ _ hpre, fifoB_of_prefix P _ _ _ _ hsorted hpre⟩

/-- the element of `gen` at the position of fragment `i` of a write -/
theorem gen_at (il : Bool) (mp : Nat) (lenOf : Nat → Nat) (pre u : List Write) (ak : Write) (v : List Write) (i : Nat)
    (hi : i < (grp il mp (lenOf ak.msg) (cntOf (pre ++ u) ak.si) ak).length) :
    (gen il mp lenOf pre (u ++ ak :: v))[(gen il mp lenOf pre u).length + i]? =
      (grp il mp (lenOf ak.msg) (cntOf (pre ++ u) ak.si) ak)[i]? := by
  rw [gen_append, List.getElem?_append_right (by omega)]
  simp only [Nat.add_sub_cancel_left, gen]
  rw [List.getElem?_append_left hi]

/-- ✱ `FifoU` from FIFO selection, ordered streams of any policy -/
theorem fifoU_of_selFifo (P : Params) (ops : List Op) (si : BitVec 16) (hil : P.cfg.useInterleaving = false)
    (hf : SelFifo ops = true) (hrel : OrdOnly ops = true) (hN : chunksWritten P ops < 2^31) :
    NetSysPR.FifoU P ops si = true := by
  have hu := ufacts P ops hil hrel (selFifo_selContig_ord P ops hf hrel) hN
  obtain ⟨rest, hpre⟩ := gen_prefix P ops hf hrel
  rw [hil] at hpre
  have hs0 : (NetSysPR.init P).snd = (init P).snd := rfl
  simp only [NetSysPR.FifoU, hs0]
  generalize hacc : accepted (init P).snd (sndOps P (init P).snd ops) = acc at hu hpre ⊢
  generalize hmvd : moved (init P).snd (sndOps P (init P).snd ops) = mv at hu hpre ⊢
  rw [List.all_eq_true]
  intro j hjr
  have hjl : j < mv.length := List.mem_range.1 hjr
  rw [List.getElem?_eq_getElem hjl]
  simp only
  generalize hm : mv[j] = m
  have hj : mv[j]? = some m := by rw [List.getElem?_eq_getElem hjl, hm]
  by_cases hsi : m.si = si
  · rw [Bool.or_eq_true]; right
    rw [List.all_eq_true]
    intro k hkr
    rw [List.all_eq_true]
    intro i hir
    have hk : k < m.ssn.toNat := List.mem_range.1 hkr
    have hi := List.mem_range.1 hir
    rw [decide_eq_true_eq]
    -- where `m` sits in `gen`
    obtain ⟨w, hw, hfw⟩ := frag_get_of_prefix hpre j m hj
    obtain ⟨ws1, a, ws2, im, e, ej, hgi⟩ := gen_get false _ _ [] acc j w hw
    obtain ⟨g1, _, _, _, g5, _⟩ := grp_get _ _ _ _ _ _ _ hgi
    have hwsi : w.si = m.si := by
      have := congrArg (fun x => x.1) hfw; simpa [Chunk.frag] using this
    have hwssn : w.ssn = m.ssn := by
      have := congrArg (fun x => x.2.2.2.2.2.2.1) hfw; simpa [Chunk.frag] using this
    have hasi : a.si = si := by rw [← g1, hwsi, hsi]
    simp only [Bool.false_eq_true, if_false, List.nil_append] at g5
    rw [hasi] at g5
    have hkL : k < cntOf ws1 si := by
      rw [← hwssn, g5] at hk
      have : (BitVec.ofNat 16 (cntOf ws1 si)).toNat ≤ cntOf ws1 si := by
        simp only [BitVec.toNat_ofNat]; exact Nat.mod_le _ _
      omega
    -- message `k` of the stream is a write in `ws1`
    have hak1 : (ws1.filter (·.si == si))[k]? = some (ws1.filter (·.si == si))[k] := List.getElem?_eq_getElem hkL
    obtain ⟨u, v, eu, cu, hsu⟩ := filter_get_split ws1 si k _ hak1
    generalize (ws1.filter (·.si == si))[k] = ak at hak1 eu hsu
    have eacc : acc = u ++ ak :: (v ++ a :: ws2) := by rw [e, eu]; simp
    obtain ⟨hgetk, hcntk⟩ := filter_split acc u (v ++ a :: ws2) ak eacc
    rw [hsu, cu] at hgetk hcntk
    have hkS : k < (senderD P acc mv si).msgs.length := by
      have : (senderD P acc mv si).msgs.length = cntOf acc si := by simp [senderD, msgsOf, cntOf]
      omega
    obtain ⟨hnfk, _⟩ := hu.hbase si k hkS ak hgetk
    rw [hnfk] at hi
    -- positions in `gen`
    have hglen : (grp false P.cfg.maxPayload.toNat (P.pay ak.msg).length (cntOf ([] ++ u) ak.si) ak).length = nfr P ak := by
      rw [grp_length]; rfl
    have hws1len : (gen false P.cfg.maxPayload.toNat (fun m => (P.pay m).length) [] u).length + nfr P ak ≤
        (gen false P.cfg.maxPayload.toNat (fun m => (P.pay m).length) [] ws1).length := by
      rw [eu, gen_append]
      simp only [gen, List.length_append, hglen]
      omega
    generalize hp0 : (gen false P.cfg.maxPayload.toNat (fun m => (P.pay m).length) [] u).length = p0 at hws1len
    have hnpos := (hu.hfr ak (by rw [eacc]; simp)).1
    -- the first fragment of message `k` sits at `p0` among the moves
    have hp0l : p0 < mv.length := by omega
    have hx : mv[p0]? = some mv[p0] := List.getElem?_eq_getElem hp0l
    generalize mv[p0] = x at hx
    obtain ⟨w0, hw0, hfw0⟩ := frag_get_of_prefix hpre p0 x hx
    have hat := gen_at false P.cfg.maxPayload.toNat (fun m => (P.pay m).length) [] u ak (v ++ a :: ws2) 0 (by rw [hglen]; omega)
    rw [← eacc, hp0, Nat.add_zero, hw0] at hat
    obtain ⟨q1, q2, q3, q4, q5, q6, q7, q8, q9, _⟩ := grp_get _ _ _ _ _ _ _ hat.symm
    simp only [Bool.false_eq_true, if_false, List.nil_append] at q5 q6
    rw [hsu, cu] at q5
    have hfx : Chunk.frag x = fragOf false ak k 0 (nfr P ak) := by
      rw [← hfw0]
      simp only [Chunk.frag, fragOf, q1, q2, q3, q4, q5, q6, q7, q8, q9, Bool.false_eq_true, if_false]
      rfl
    have hidx := idxOf_of_get mv hu.ctx.nd p0 x hx
    rw [hfx] at hidx
    have hfirst := hu.ctx.first u (v ++ a :: ws2) ak eacc (by rw [hsu, cu, hidx]; exact hp0l)
    rw [hsu, cu, hidx] at hfirst
    rw [hfirst.2]
    omega
  · have : (m.si == si) = false := by simpa using hsi
    simp [this]

end NetSys
