import SctpVerif.Proofs.NetSys.PRUnivInj
import SctpVerif.Proofs.NetSys.PRLost
/-!
The universe link over `NetSysPR`: the sender projection of a NetSysPR run, the universe `senderD` of the run's own writes as
a `Receiver.UnivS`, and `GoodChunkS` for every history item any `deliver` hands over (premise `hgood` of
`C07_netsys_nothing_lost_partial`, derived).
-/
namespace NetSysPR
open NetSys (Params Op toWire sndOp sndOps senderD sendersD UFacts)
open SenderProofs SenderTsn

/-! ## the sender projection -/

theorem run_snd (P : Params) (s : St) (ops : List Op) :
    (run P s ops).snd = Sender.run s.snd (sndOps P s.snd ops) ∧
    (∀ c, Item.data c ∈ (run P s ops).wire → Item.data c ∈ s.wire ∨ c ∈ wire s.snd (sndOps P s.snd ops)) ∧
    (∀ f, Item.fwd f ∈ (run P s ops).wire → Item.fwd f ∈ s.wire ∨ (run P s ops).snd.cfg.useIForwardTSN = true ∨ ∃ nc es, f = .fwd nc es) := by
  induction ops generalizing s with
  | nil => exact ⟨rfl, fun c h => Or.inl h, fun f h => Or.inl h⟩
  | cons op ops ih =>
    obtain ⟨i1, i2, i3⟩ := ih (step P s op)
    simp only [run, sndOps]
    cases h : sndOp P s.snd op with
    | some o =>
      have hst : step P s op = { s with snd := Sender.step s.snd o, wire := s.wire ++ emits s.snd o } := by
        simp only [step, h]
      rw [hst] at i1 i2 i3 ⊢
      refine ⟨by simpa [Sender.run] using i1, ?_, ?_⟩
      · intro c hc
        rcases i2 c hc with hc | hc
        · rcases List.mem_append.1 hc with hc | hc
          · exact Or.inl hc
          · right; simp only [wire]; exact List.mem_append_left _ (emits_data s.snd o c hc)
        · right; simp only [wire]; exact List.mem_append_right _ hc
      · intro f hf
        rcases i3 f hf with hf | hf
        · rcases List.mem_append.1 hf with hf | hf
          · exact Or.inl hf
          · right
            obtain ⟨orc, sel, rfl, hfw⟩ := emits_fwd s.snd o f hf
            have hest : s.snd.established = true := by
              cases he : s.snd.established with
              | true => rfl
              | false =>
                have : (Sender.gather s.snd orc sel).2.fwd = none := by unfold Sender.gather; simp [he]
                rw [this] at hfw; cases hfw
            have hfe := (gather_fwd s.snd orc sel hest).2 f hfw
            have hcfg : (run P { s with snd := Sender.step s.snd (.gather orc sel), wire := s.wire ++ emits s.snd (.gather orc sel) } ops).snd.cfg = s.snd.cfg := by
              rw [i1, run_cfg_all, step_cfg_all]
            rw [hcfg]
            cases hu : s.snd.cfg.useIForwardTSN with
            | true => exact Or.inl rfl
            | false => right; rw [hfe, hu]; exact ⟨_, _, rfl⟩
        · exact Or.inr hf
    | none =>
      have hst : (step P s op).snd = s.snd ∧ (step P s op).wire = s.wire := by
        simp only [step, h]
        cases rcvOp P s.wire op <;> exact ⟨rfl, rfl⟩
      rw [hst.1] at i1 i2
      rw [hst.2] at i2 i3
      exact ⟨i1, i2, i3⟩

theorem moved_eq (P : Params) (s : St) (ops : List Op) : moved P s ops = SenderTsn.moved s.snd (sndOps P s.snd ops) := by
  induction ops generalizing s with
  | nil => rfl
  | cons op ops ih =>
    simp only [moved, sndOps, movedBy]
    rw [ih]
    cases h : sndOp P s.snd op with
    | some o =>
      have hst : (step P s op).snd = Sender.step s.snd o := by simp only [step, h]
      rw [hst]; rfl
    | none =>
      have hst : (step P s op).snd = s.snd := by
        simp only [step, h]
        cases rcvOp P s.wire op <;> rfl
      rw [hst]; rfl

/-- the data items of the history at any moment are chunks of the wire of the whole sender run -/
theorem wire_prefix_sub (P : Params) (o1 o2 : List Op) (c : Sender.Chunk) (hc : Item.data c ∈ (run P (init P) o1).wire) :
    c ∈ wire (init P).snd (sndOps P (init P).snd (o1 ++ o2)) := by
  rcases (run_snd P (init P) o1).2.1 c hc with h | h
  · simp [init] at h
  · rw [NetSys.sndOps_append, NetSys.wire_append]
    exact List.mem_append_left _ h

/-! ## the universe of the run -/

/-- the universe `sendersD` of a run as a `Receiver.UnivS` -/
def univOf {P : Params} {acc : List NetSys.Write} {mv : List Sender.Chunk} {W : Nat} {wr : List Sender.Chunk}
    (h : UFacts P acc mv W wr) (si0 : BitVec 16) : Receiver.UnivS :=
  { t := P.tsn, N := W, hN := h.wlt, senders := sendersD P acc mv si0,
    wf := by
      intro S hS'
      simp only [sendersD, List.mem_map] at hS'
      obtain ⟨x, _, rfl⟩ := hS'
      intro m hm
      simp only [senderD, NetSys.msgsOf, List.mem_map] at hm
      obtain ⟨a, ha, rfl⟩ := hm
      have ha' : a ∈ acc := (List.mem_filter.1 ha).1
      simp only [Reasm.Msg.nf, NetSys.cut_length]
      have := h.hfr a ha'
      have hw := h.wlt
      simp only [NetSys.nfr] at this
      omega,
    t0 := by
      intro S hS'
      simp only [sendersD, List.mem_map] at hS'
      obtain ⟨x, _, rfl⟩ := hS'
      rfl,
    idx := by
      intro S hS' k i hk hi
      simp only [sendersD, List.mem_map] at hS'
      obtain ⟨x, _, rfl⟩ := hS'
      exact h.hidxAll x k i hk hi,
    si := by
      intro S hS1 S' hS2 he
      simp only [sendersD, List.mem_map] at hS1 hS2
      obtain ⟨x, _, rfl⟩ := hS1
      obtain ⟨y, _, rfl⟩ := hS2
      have : y = x := he
      rw [this] }

theorem univOf_mem {P acc mv W wr} (h : UFacts P acc mv W wr) (si0 : BitVec 16) : senderD P acc mv si0 ∈ (univOf h si0).senders := by
  simp only [univOf, sendersD, List.mem_map]
  exact ⟨si0, (NetSys.uniq_mem _ _).2 List.mem_cons_self, rfl⟩

/-- ✱ a DATA chunk of the sender's wire is `GoodChunkS` for the universe of the run and any stream under study -/
theorem good_data {P acc mv W wr} (h : UFacts P acc mv W wr) (si0 : BitVec 16) (c : Sender.Chunk) (hc : c ∈ wr) (imm : Bool) :
    Receiver.GoodChunkS (univOf h si0) (senderD P acc mv si0) (.data (toWire P c) imm) := by
  obtain ⟨ws1, a, ws2, i, e1, e2, e3, t1, t2, t3, t4, t5⟩ := h.hchunk c hc
  have ha : a ∈ acc := by rw [e1]; simp
  left
  refine ⟨senderD P acc mv a.si, ?_, cntOf ws1 a.si, i, imm, t1, t2, by rw [t3], ?_⟩
  · simp only [univOf, sendersD, List.mem_map]
    exact ⟨a.si, (NetSys.uniq_mem _ _).2 (List.mem_cons_of_mem _ (List.mem_map.2 ⟨a, ha, rfl⟩)), rfl⟩
  · intro k0 i0 hk0 hi0 ht
    have hb1 := h.hidxAll si0 k0 i0 hk0 hi0
    have hb2 := h.hidxAll a.si (cntOf ws1 a.si) i t1 t2
    have hw := h.wlt
    simp only [Reasm.Sender.dataFrag] at ht
    have hoff := NetSys.ofNat32_add_inj _ (by omega) (by omega) ht
    have hJ : (senderD P acc mv si0).base k0 + i0 = (mv.map Chunk.frag).idxOf (Chunk.frag c) := by omega
    obtain ⟨r1, r2⟩ := h.inj c ws1 a ws2 e1 e2 t5 si0 k0 i0 hk0 hi0 hJ
    refine ⟨by rw [r1], r2, ?_⟩
    rw [r1] at hoff r2
    rw [r2] at hoff
    omega

end NetSysPR
