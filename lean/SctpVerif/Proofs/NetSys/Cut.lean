import SctpVerif.Model.NetSys
/-! `cut`: the byte slices of the fragments. Lengths are `fragSizes`, piece `i` is `bytes[i·mp ..]` cut to its length,
the pieces concatenate to the payload. -/
namespace NetSys
open Sender

theorem cutAux_lens (mp fuel : Nat) (bs : List UInt8) : (cutAux mp fuel bs).map List.length = fragAux mp fuel bs.length := by
  induction fuel generalizing bs with
  | zero => rfl
  | succ n ih =>
    simp only [cutAux, fragAux]
    split
    · rfl
    · simp only [List.map_cons, List.length_take, ih, List.length_drop]
      congr 2
      omega

theorem cut_lens (mp : Nat) (bs : List UInt8) : (cut mp bs).map List.length = fragSizes mp bs.length := cutAux_lens mp _ bs

theorem cut_length (mp : Nat) (bs : List UInt8) : (cut mp bs).length = (fragSizes mp bs.length).length := by
  rw [← cut_lens, List.length_map]

theorem cutAux_flatten (mp fuel : Nat) (bs : List UInt8) (hmp : 0 < mp) (hf : bs.length ≤ fuel) : (cutAux mp fuel bs).flatten = bs := by
  induction fuel generalizing bs with
  | zero =>
    have : bs = [] := List.eq_nil_of_length_eq_zero (by omega)
    subst this; rfl
  | succ n ih =>
    simp only [cutAux]
    split
    · rename_i h
      rcases h with h | h
      · have : bs = [] := List.eq_nil_of_length_eq_zero h
        subst this; rfl
      · omega
    · rename_i h
      simp only [List.flatten_cons]
      rw [ih (bs.drop mp) (by simp only [List.length_drop]; omega)]
      exact List.take_append_drop mp bs

theorem cut_flatten (mp : Nat) (bs : List UInt8) (hmp : 0 < mp) : (cut mp bs).flatten = bs :=
  cutAux_flatten mp _ bs hmp (Nat.le_refl _)

theorem cutAux_get (mp fuel : Nat) (bs : List UInt8) (i : Nat) (x : List UInt8) (h : (cutAux mp fuel bs)[i]? = some x) :
    x = (bs.drop (i * mp)).take mp := by
  induction fuel generalizing bs i with
  | zero => simp [cutAux] at h
  | succ n ih =>
    simp only [cutAux] at h
    split at h
    · simp at h
    · cases i with
      | zero => simp at h; simp [h]
      | succ j =>
        simp only [List.getElem?_cons_succ] at h
        rw [ih (bs.drop mp) j h, List.drop_drop]
        congr 2
        rw [Nat.add_mul, Nat.one_mul, Nat.add_comm]

/-- piece `i` is the slice the chunk's length field describes -/
theorem cut_get (mp : Nat) (bs : List UInt8) (i f : Nat) (hf : (fragSizes mp bs.length)[i]? = some f) :
    (cut mp bs)[i]? = some ((bs.drop (i * mp)).take f) := by
  have hl := cut_lens mp bs
  have hi : i < (cut mp bs).length := by
    rw [cut_length]
    rcases Nat.lt_or_ge i (fragSizes mp bs.length).length with h' | h'
    · exact h'
    · rw [List.getElem?_eq_none h'] at hf; cases hf
  have hx : (cut mp bs)[i]? = some (cut mp bs)[i] := List.getElem?_eq_getElem hi
  have hxe := cutAux_get mp _ bs i _ hx
  have hlen : ((cut mp bs)[i]).length = f := by
    have : ((cut mp bs).map List.length)[i]? = some f := by rw [hl]; exact hf
    simpa [List.getElem?_map, hx] using this
  rw [hx]
  congr 1
  have h1 : ((cut mp bs)[i]).take f = (cut mp bs)[i] := by rw [← hlen]; exact List.take_length
  have hle : f ≤ mp := by
    have : ((cut mp bs)[i]).length ≤ mp := by rw [hxe]; simp only [List.length_take]; omega
    omega
  rw [← h1]
  conv => lhs; rw [hxe]
  rw [List.take_take, Nat.min_eq_left hle]

end NetSys
