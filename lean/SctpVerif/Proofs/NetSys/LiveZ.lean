import SctpVerif.Proofs.NetSys.LiveLink
import SctpVerif.Proofs.Receiver.Cfg
import SctpVerif.Proofs.Receiver.Total
import SctpVerif.Proofs.Receiver.Streams
import SctpVerif.Proofs.Receiver.Sack
/-!
Reassembly entry cap off (`maxReassemblyQueueEntries = 0`, the default): along every NetSys run every reassembly queue of
the receiver has `maxEntries = 0` (`run_z`; the lifting principle `Receiver.QPres` does not apply because it quantifies over
all entry limits, so the chain is redone for this one property with the frame `maxEntries` of the association), hence
`pushWithError` never returns a limit error (`pushWithError_z`) and — no panic either (`C03_recv_total`) — a chunk that
`acceptPayloadData` decides to store IS stored (`accept_stored`).
-/
namespace NetSysLive
open Gen NetSys Receiver

def Z (q : Reasm.Q) : Prop := q.maxEntries = 0

theorem Z_step (q : Reasm.Q) (op : Reasm.Op) (h : Z q) : Z (q.step op) := by
  unfold Z at *; rw [Reasm.step_maxEntries]; exact h

theorem createStream_z {s : Receiver.St} (hme : s.maxEntries = 0) (h : AllQ Z s) (si : BitVec 16) (a : Bool) :
    AllQ Z (createStream s si a).1 := by
  rcases createStream_cases s si a with ⟨e, _⟩ | ⟨strm, hq, _, _, hs, hg, _, _⟩
  · rw [e]; exact h
  · refine ⟨?_, by rw [hg]; exact h.2⟩
    rw [hs]
    intro x hx
    simp only [List.mem_append, List.mem_singleton] at hx
    rcases hx with hx | rfl
    · exact h.1 x hx
    · show x.q.maxEntries = 0
      rw [hq]; exact hme

theorem getOrCreateStream_z {s : Receiver.St} (hme : s.maxEntries = 0) (h : AllQ Z s) (si : BitVec 16) (a : Bool) :
    AllQ Z (getOrCreateStream s si a).1 := by
  unfold getOrCreateStream
  split
  · exact h
  · exact createStream_z hme h si a

theorem pushToStream_z {s : Receiver.St} (h : AllQ Z s) (c : Reasm.Chunk) : AllQ Z (pushToStream s c).1 := by
  unfold pushToStream
  dsimp only
  split
  · exact h
  · rename_i x hx
    have hx' := (getS_mem hx).1
    have hq : Z (x.q.pushWithError c).1 := Z_step x.q (.push c) (h.1 x hx')
    have hs : ∀ y ∈ setQ s.streams c.si (fun _ => (x.q.pushWithError c).1), Z y.q := by
      intro y hy
      obtain ⟨z, hz, rfl | rfl⟩ := mem_setQ hy
      · exact h.1 _ hz
      · exact hq
    split <;> exact ⟨hs, h.2⟩

theorem acceptPayloadData_z {s : Receiver.St} (hme : s.maxEntries = 0) (h : AllQ Z s) (c : Reasm.Chunk) :
    AllQ Z (acceptPayloadData s c).1 := by
  unfold acceptPayloadData
  have hg := getOrCreateStream_z hme h c.si true
  split
  · rename_i s' heq; rw [heq] at hg; exact hg
  · rename_i s' x heq
    rw [heq] at hg
    split
    · exact pushToStream_z hg c
    · dsimp only
      split
      · exact hg
      · exact pushToStream_z hg c

theorem handleData_z {s : Receiver.St} (hme : s.maxEntries = 0) (h : AllQ Z s) (c : Reasm.Chunk) (imm : Bool) :
    AllQ Z (handleData s c imm) := by
  unfold handleData
  dsimp only
  split
  · exact h
  · split
    · exact h
    · by_cases hcp : RecvQ.canPush s.pq c.tsn = true
      · simp only [if_pos hcp]
        have hr := acceptPayloadData_z hme h c
        split
        · split
          · exact ackStep_allQ hr _
          · exact hr
        · exact ackStep_allQ hr _
      · simp only [if_neg hcp]
        split
        · split
          · exact ackStep_allQ h _
          · exact h
        · exact ackStep_allQ h _

/-- a packet made of DATA chunks only (every packet NetSys delivers) -/
def DataOnly (cs : List InChunk) : Prop := ∀ ch ∈ cs, ∃ c imm, ch = InChunk.data c imm

theorem foldl_handleChunk_z (cs : List InChunk) (hd : DataOnly cs) : ∀ {s : Receiver.St}, s.maxEntries = 0 → AllQ Z s →
    (cs.foldl handleChunk s).maxEntries = 0 ∧ AllQ Z (cs.foldl handleChunk s) := by
  induction cs with
  | nil => intro s hme h; exact ⟨hme, h⟩
  | cons ch cs ih =>
    intro s hme h
    obtain ⟨c, imm, rfl⟩ := hd ch (by simp)
    simp only [List.foldl_cons]
    apply ih (fun x hx => hd x (List.mem_cons_of_mem _ hx))
    · simp only [handleChunk]; split
      · exact hme
      · rw [handleData_maxEntries]; exact hme
    · simp only [handleChunk]; split
      · exact h
      · exact handleData_z hme h c imm

theorem packet_z {s : Receiver.St} (hme : s.maxEntries = 0) (h : AllQ Z s) (cs : List InChunk) (hd : DataOnly cs) :
    AllQ Z (packet s cs) :=
  chunksEnd_allQ (foldl_handleChunk_z cs hd (s := chunksStart s) hme h).2

theorem read_z {s : Receiver.St} (h : AllQ Z s) (nm : Name) (n : Nat) : AllQ Z (Receiver.read s nm n).1 := by
  have hrs : ∀ x : Receiver.Stream, Z x.q → Z (readStream x n).1.q := by
    intro x hx
    unfold readStream
    dsimp only
    split
    · exact Z_step x.q (.read n) hx
    · exact hx
    · exact hx
  unfold Receiver.read
  split
  · rename_i x hx
    refine ⟨?_, h.2⟩
    intro y hy
    rcases mem_setFirst hy with hy | rfl
    · exact h.1 y hy
    · exact hrs x (h.1 x (List.mem_of_find?_eq_some hx))
  · split
    · rename_i x hx
      refine ⟨h.1, ?_⟩
      intro y hy
      rcases mem_setFirst hy with hy | rfl
      · exact h.2 y hy
      · exact hrs x (h.2 x (List.mem_of_find?_eq_some hx))
    · exact h

theorem step_z {s : Receiver.St} (hme : s.maxEntries = 0) (h : AllQ Z s) (op : Receiver.Op) (hd : ∀ cs, op = .pkt cs → DataOnly cs) :
    AllQ Z (Receiver.step s op) := by
  cases op with
  | pkt cs => exact packet_z hme h cs (hd cs rfl)
  | read n k => exact read_z h n k
  | accept => exact accept_allQ h
  | «open» si =>
    show AllQ Z (openStream s si).1
    unfold openStream
    split
    · exact h
    · exact getOrCreateStream_z hme h si false
  | gather => exact gather_allQ h
  | tick d => exact tick_allQ h d
  | setState st => exact h

/-- ✱ with the entry cap off every reassembly queue of every reachable state has `maxEntries = 0` -/
theorem run_z (P : Params) (h0 : P.maxEntries = 0) (ops : List NetSys.Op) :
    (run P (init P) ops).rcv.maxEntries = 0 ∧ AllQ Z (run P (init P) ops).rcv := by
  have hme : ∀ ops, (run P (init P) ops).rcv.maxEntries = 0 := by
    intro ops; rw [run_rcv, Receiver.run_maxEntries]; exact h0
  refine ⟨hme ops, ?_⟩
  induction ops using List.reverseRecOn with
  | nil => exact init_allQ _ _ _ _ _ _ _ _
  | append_singleton o1 op ih =>
    rw [NetSys.run_append]
    show AllQ Z (step P (run P (init P) o1) op).rcv
    rw [step_rcv]
    cases hs : sndOp P (run P (init P) o1).snd op with
    | some o => exact ih
    | none =>
      cases hr : rcvOp P (run P (init P) o1).wire op with
      | none => exact ih
      | some o =>
        apply step_z (hme o1) ih
        intro cs hcs
        subst hcs
        obtain ⟨is, rfl⟩ := rcvOp_pkt P _ op _ hr
        intro ch hch
        obtain ⟨c, _, imm, rfl⟩ := packetOf_mem P _ is ch hch
        exact ⟨_, _, rfl⟩

/-! ### no limit error, hence a chunk that is to be stored is stored -/

open Reasm in
theorem lim0 (n : Int) : isReassemblyQueueLimitReached 0#32 n = false := by
  simp [isReassemblyQueueLimitReached]

open Reasm in
theorem pushOrderedIData_z (q : Q) (c : Chunk) (hz : q.maxEntries = 0) :
    (q.pushOrderedIData c).2.2 = .none := by
  unfold Q.pushOrderedIData
  simp only [Q.isMIDLimitReached, hz, lim0]
  repeat' split
  all_goals simp_all [lim0]

open Reasm in
theorem pushUnorderedIData_z (q : Q) (c : Chunk) (hz : q.maxEntries = 0) :
    (q.pushUnorderedIData c).2.2 = .none := by
  unfold Q.pushUnorderedIData
  simp only [Q.isMIDLimitReached, hz, lim0]
  repeat' split
  all_goals simp_all [lim0]

open Reasm in
theorem pushWithError_z (q : Q) (c : Chunk) (hz : q.maxEntries = 0) :
    (q.pushWithError c).2.2 = .none ∨ (q.pushWithError c).2.2 = .panic := by
  unfold Q.pushWithError
  split
  · left
    unfold Q.pushIData
    repeat' split
    · rfl
    · exact pushUnorderedIData_z _ c hz
    · exact pushOrderedIData_z _ c hz
  · simp only [Q.hasDataLimit, hz]
    repeat' split
    all_goals simp_all [lim0]

theorem pushToStream_true (s : Receiver.St) (c : Reasm.Chunk) (x : Receiver.Stream) (hx : getS s.streams c.si = some x)
    (hz : Z x.q) (hne : Reasm.NoEmpty x.q) : (pushToStream s c).2 = true := by
  have h1 := pushWithError_z x.q c hz
  have h2 := Reasm.pushWithError_no_panic x.q c hne
  have h3 : (x.q.pushWithError c).2.2 = .none := by
    rcases h1 with h | h
    · exact h
    · exact absurd h h2
  unfold pushToStream
  simp only [hx, h3]

/-- ✱ with the entry cap off, a chunk that `acceptPayloadData` decides to store IS stored: it reports success -/
theorem accept_stored (s : Receiver.St) (c : Reasm.Chunk) (hme : s.maxEntries = 0) (hz : AllQ Z s) (hnp : NoPanic s)
    (hst : stores s c = true) : (acceptPayloadData s c).2 = true := by
  have hz' := getOrCreateStream_z hme hz c.si true
  have hn' := getOrCreateStream_allQ noEmpty_pres hnp.2 c.si true
  unfold stores at hst
  unfold acceptPayloadData
  rcases hgo : getOrCreateStream s c.si true with ⟨s', o⟩
  rw [hgo] at hst hz' hn'
  cases o with
  | none => simp at hst
  | some x =>
    obtain ⟨y, hy⟩ := getOrCreateStream_some s c.si true x (by rw [hgo])
    rw [hgo] at hy
    simp only at hst hy hz' hn' ⊢
    have hym := (getS_mem hy).1
    by_cases hc : accept_hasCredit (credit s') = true
    · simp only [hc, if_true]
      exact pushToStream_true s' c y hy (hz'.1 y hym) (hn'.1 y hym)
    · have hc' : accept_hasCredit (credit s') = false := by simpa using hc
      simp only [hc', Bool.false_eq_true, if_false, Bool.false_or, Bool.not_eq_true'] at hst ⊢
      simp only [hst, Bool.false_eq_true, if_false]
      exact pushToStream_true s' c y hy (hz'.1 y hym) (hn'.1 y hym)

end NetSysLive
