import SctpVerif.Proofs.NetSys.PRLost
import SctpVerif.Proofs.Receiver.PrefixSkipDec
/-!
Executable form of the universe-link premise `hgood` of `C07_netsys_nothing_lost_partial`, and its soundness.
-/
namespace NetSysPR
open NetSys (Params Op toWire sndOp)

/-- every history item every `deliver` of the run hands over decodes to a chunk that passes `Receiver.GoodD` -/
def goodRunD (P : Params) (U : Receiver.UnivS) (S : Reasm.Sender) : St → List Op → Bool
  | _, [] => true
  | s, op :: ops =>
    (match op with
     | .deliver is => (pick s.wire is).all fun x => Receiver.GoodD U S (inChunk P x.1 x.2)
     | _ => true) && goodRunD P U S (step P s op) ops

theorem goodRunD.sound {P : Params} {U : Receiver.UnivS} {S : Reasm.Sender} (hS : S ∈ U.senders) (ops : List Op) :
    ∀ (s : St), goodRunD P U S s ops = true →
    ∀ o1 is o2, ops = o1 ++ Op.deliver is :: o2 → ∀ x ∈ pick (run P s o1).wire is, Receiver.GoodChunkS U S (inChunk P x.1 x.2) := by
  induction ops with
  | nil => intro s _ o1 is o2 he; simp at he
  | cons op ops ih =>
    intro s h o1 is o2 he x hx
    simp only [goodRunD, Bool.and_eq_true] at h
    cases o1 with
    | nil =>
      simp only [List.nil_append, List.cons.injEq] at he
      obtain ⟨rfl, _⟩ := he
      exact Receiver.GoodD.sound hS (List.all_eq_true.1 h.1 x hx)
    | cons o o1' =>
      simp only [List.cons_append, List.cons.injEq] at he
      obtain ⟨rfl, he'⟩ := he
      exact ih _ h.2 o1' is o2 he' x hx

end NetSysPR
