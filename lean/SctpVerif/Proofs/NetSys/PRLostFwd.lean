import SctpVerif.Proofs.NetSys.PRLostGood
/-!
`FwdOk` (premise `hfw` of the nothing-lost theorems) derived for NetSysPR runs from `skip_safe_idx` (the composed invariant),
the universe link, abandonment monotonicity and a decidable per-stream FIFO predicate in the universe's vocabulary.
-/
namespace NetSysPR
open NetSys (Params Op toWire sndOp sndOps senderD sendersD UFacts)
open SenderProofs SenderTsn

theorem rcvOps_split (P : Params) (s : St) (ops : List Op) (r1 : List Receiver.Op) (x : Receiver.Op) (r2 : List Receiver.Op)
    (h : rcvOps P s ops = r1 ++ x :: r2) :
    ∃ o1 op o2, ops = o1 ++ op :: o2 ∧ rcvOps P s o1 = r1 ∧ rcvOp P (run P s o1).wire op = some x := by
  induction ops generalizing s r1 with
  | nil => simp [rcvOps] at h
  | cons op ops ih =>
    simp only [rcvOps] at h
    cases hs : sndOp P s.snd op with
    | some o =>
      simp only [hs] at h
      obtain ⟨o1, op', o2, e, e1, e3⟩ := ih (step P s op) r1 h
      refine ⟨op :: o1, op', o2, by rw [e]; rfl, ?_, e3⟩
      simp only [rcvOps, hs]; exact e1
    | none =>
      simp only [hs] at h
      cases hr : rcvOp P s.wire op with
      | none =>
        simp only [hr] at h
        obtain ⟨o1, op', o2, e, e1, e3⟩ := ih (step P s op) r1 h
        refine ⟨op :: o1, op', o2, by rw [e]; rfl, ?_, e3⟩
        simp only [rcvOps, hs, hr]; exact e1
      | some o =>
        simp only [hr] at h
        cases r1 with
        | nil =>
          simp only [List.nil_append, List.cons.injEq] at h
          exact ⟨[], op, ops, rfl, rfl, by show rcvOp P s.wire op = some x; rw [hr, h.1]⟩
        | cons y r1' =>
          simp only [List.cons_append, List.cons.injEq] at h
          obtain ⟨o1, op', o2, e, e1, e3⟩ := ih (step P s op) r1' h.2
          refine ⟨op :: o1, op', o2, by rw [e]; rfl, ?_, e3⟩
          simp only [rcvOps, hs, hr, e1, h.1]

/-- message `k` of stream `si` is abandoned by the sender at the END of the run -/
def KOf (P : Params) (ops : List Op) (si : BitVec 16) : Nat → Bool := fun k =>
  match ((accepted (init P).snd (sndOps P (init P).snd ops)).filter (·.si == si))[k]? with
  | some ak => (run P (init P) ops).snd.abandoned { msg := ak.msg }
  | none => false

/-- per-stream FIFO of the TSN assignment, in the universe's vocabulary (decidable): when a chunk of stream `si` with SSN `L`
gets TSN offset `j`, every fragment of the stream's messages `k < L` has a smaller TSN offset -/
def FifoU (P : Params) (ops : List Op) (si : BitVec 16) : Bool :=
  (List.range (SenderTsn.moved (init P).snd (sndOps P (init P).snd ops)).length).all fun j =>
    match (SenderTsn.moved (init P).snd (sndOps P (init P).snd ops))[j]? with
    | some m => !(m.si == si) || (List.range m.ssn.toNat).all fun k =>
        (List.range ((senderD P (accepted (init P).snd (sndOps P (init P).snd ops)) (SenderTsn.moved (init P).snd (sndOps P (init P).snd ops)) si).nf k)).all fun i =>
          decide ((senderD P (accepted (init P).snd (sndOps P (init P).snd ops)) (SenderTsn.moved (init P).snd (sndOps P (init P).snd ops)) si).base k + i < j)
    | none => true

theorem FifoU.spec {P : Params} {ops : List Op} {si : BitVec 16} (h : FifoU P ops si = true) (j : Nat) (m : Sender.Chunk)
    (hj : (SenderTsn.moved (init P).snd (sndOps P (init P).snd ops))[j]? = some m) (hsi : m.si = si) (k : Nat) (hk : k < m.ssn.toNat)
    (i : Nat) (hi : i < (senderD P (accepted (init P).snd (sndOps P (init P).snd ops)) (SenderTsn.moved (init P).snd (sndOps P (init P).snd ops)) si).nf k) :
    (senderD P (accepted (init P).snd (sndOps P (init P).snd ops)) (SenderTsn.moved (init P).snd (sndOps P (init P).snd ops)) si).base k + i < j := by
  have hjl : j < (SenderTsn.moved (init P).snd (sndOps P (init P).snd ops)).length := by
    rcases Nat.lt_or_ge j (SenderTsn.moved (init P).snd (sndOps P (init P).snd ops)).length with h' | h'
    · exact h'
    · rw [List.getElem?_eq_none h'] at hj; cases hj
  have h1 := List.all_eq_true.1 h j (List.mem_range.2 hjl)
  rw [hj] at h1
  simp only [Bool.or_eq_true, Bool.not_eq_true', beq_eq_false_iff_ne, ne_eq] at h1
  rcases h1 with h1 | h1
  · exact absurd hsi h1
  · have := List.all_eq_true.1 (List.all_eq_true.1 h1 k (List.mem_range.2 hk)) i (List.mem_range.2 hi)
    simpa using this

/-- ✱ the honest-sender premise of a FORWARD-TSN of the history, in the universe's vocabulary, at any moment of the run -/
theorem entok_of_run (P : Params) (ops o1 o2 : List Op) (he : ops = o1 ++ o2) (hok : RunOk P ops) {W : Nat}
    (h : UFacts P (accepted (init P).snd (sndOps P (init P).snd ops)) (SenderTsn.moved (init P).snd (sndOps P (init P).snd ops)) W
      (wire (init P).snd (sndOps P (init P).snd ops))) (si : BitVec 16)
    (hlen15 : (senderD P (accepted (init P).snd (sndOps P (init P).snd ops)) (SenderTsn.moved (init P).snd (sndOps P (init P).snd ops)) si).msgs.length < 2^15)
    (hfifo : FifoU P ops si = true)
    (pre : List (Item × Bool)) (hpre : ∀ x ∈ pre, x.1 ∈ (run P (init P) o1).wire)
    (nc : BitVec 32) (es : List (BitVec 16 × BitVec 16)) (hf : Item.fwd (.fwd nc es) ∈ (run P (init P) o1).wire) :
    Receiver.EntOk (senderD P (accepted (init P).snd (sndOps P (init P).snd ops)) (SenderTsn.moved (init P).snd (sndOps P (init P).snd ops)) si)
      (KOf P ops si) (pushed P (init P) o1 ++ pushedIn P (Receiver.chunksStart (run P (init P) o1).rcv) pre) es := by
  have hok1 : RunOk P o1 := by rw [he] at hok; exact hok.take
  obtain ⟨htsn, n, c1, c2, c3, c4⟩ := skip_safe_idx P o1 hok1 pre hpre (.fwd nc es) hf
  have hsm := hok1.small
  have habLe : AbLe (run P (init P) o1).snd (run P (init P) ops).snd := by
    rw [he, run_append, (run_snd P (run P (init P) o1) o2).1]
    exact run_abLe _ _
  intro e hee hsi
  obtain ⟨m, hm, a1, a2, _, a4, a5⟩ := c4 e hee
  obtain ⟨j, hj⟩ := List.getElem?_of_mem hm
  have hjl : j < (moved P (init P) o1).length := by
    rcases Nat.lt_or_ge j (moved P (init P) o1).length with h' | h'
    · exact h'
    · rw [List.getElem?_eq_none h'] at hj; cases hj
  have hjn : j ≤ n := by
    have hd := (Sna.lte32_iff _ _).1 a2
    have c1' : nc = P.tsn + BitVec.ofNat 32 n := c1
    rw [htsn j m hj, c1'] at hd
    have e1 : (BitVec.ofNat 32 j).toNat = j := by simp; omega
    have e2 : (BitVec.ofNat 32 n).toNat = n := by simp; omega
    generalize BitVec.ofNat 32 j = x at e1 hd
    generalize BitVec.ofNat 32 n = y at e2 hd
    bv_omega
  have hpref : ∀ (j0 : Nat) (m0 : Sender.Chunk), (moved P (init P) o1)[j0]? = some m0 →
      (SenderTsn.moved (init P).snd (sndOps P (init P).snd ops))[j0]? = some m0 := by
    intro j0 m0 h0
    have hl : j0 < (moved P (init P) o1).length := by
      rcases Nat.lt_or_ge j0 (moved P (init P) o1).length with h' | h'
      · exact h'
      · rw [List.getElem?_eq_none h'] at h0; cases h0
    rw [← moved_eq, he, moved_append, List.getElem?_append_left hl]; exact h0
  have hfull := hpref j m hj
  obtain ⟨ws1, a, ws2, i, e1, _, e3⟩ := h.ctx.mvid j m hfull
  have hmsi : m.si = a.si := by
    have := congrArg (fun x => x.1) e3; simpa [Chunk.frag, fragOf] using this
  have hmmsg : m.msg = a.msg := by
    have := congrArg (fun x => x.2.1) e3; simpa [Chunk.frag, fragOf] using this
  have hmssn : m.ssn = BitVec.ofNat 16 (cntOf ws1 a.si) := by
    have := congrArg (fun x => x.2.2.2.2.2.2.1) e3; simpa [Chunk.frag, fragOf] using this
  have hasi : a.si = si := hmsi.symm.trans (a4.trans hsi)
  obtain ⟨hget, hcnt⟩ := NetSys.filter_split _ ws1 ws2 a e1
  rw [hasi] at hget hcnt hmssn
  have hlenS : (senderD P (accepted (init P).snd (sndOps P (init P).snd ops)) (SenderTsn.moved (init P).snd (sndOps P (init P).snd ops)) si).msgs.length =
      cntOf (accepted (init P).snd (sndOps P (init P).snd ops)) si := by simp [senderD, NetSys.msgsOf, cntOf]
  generalize hL : cntOf ws1 si = L at hget hcnt hmssn
  refine ⟨L, by omega, by rw [← a5, hmssn], ?_⟩
  intro k hk hK i0 hi0
  have hLt : (BitVec.ofNat 16 L).toNat = L := by simp; omega
  rcases Nat.lt_or_ge k L with hkL | hkL
  · have hoff := FifoU.spec hfifo j m hfull (hmsi.trans hasi) k (by rw [hmssn, hLt]; exact hkL) i0 hi0
    generalize hj' : (senderD P (accepted (init P).snd (sndOps P (init P).snd ops)) (SenderTsn.moved (init P).snd (sndOps P (init P).snd ops)) si).base k + i0 = j' at hoff
    have hj'l : j' < (moved P (init P) o1).length := by omega
    have hm' : (moved P (init P) o1)[j']? = some (moved P (init P) o1)[j'] := List.getElem?_eq_getElem hj'l
    generalize (moved P (init P) o1)[j'] = m' at hm'
    rcases c3 j' m' (by omega) hm' with hab | hin
    · exfalso
      have hfull' := hpref j' m' hm'
      obtain ⟨w1, a', w2, i', f1, _, f3⟩ := h.ctx.mvid j' m' hfull'
      have hmsg' : m'.msg = a'.msg := by
        have := congrArg (fun x => x.2.1) f3; simpa [Chunk.frag, fragOf] using this
      have hidx := NetSys.idxOf_of_get _ h.ctx.nd j' m' hfull'
      have hj'full : j' < (SenderTsn.moved (init P).snd (sndOps P (init P).snd ops)).length := by
        rcases Nat.lt_or_ge j' (SenderTsn.moved (init P).snd (sndOps P (init P).snd ops)).length with h' | h'
        · exact h'
        · rw [List.getElem?_eq_none h'] at hfull'; cases hfull'
      obtain ⟨r1, r2⟩ := h.inj m' w1 a' w2 f1 hmsg' (by rw [hidx]; exact hj'full) si k i0 (by omega) hi0 (by rw [hidx]; exact hj')
      obtain ⟨g1, _⟩ := NetSys.filter_split _ w1 w2 a' f1
      rw [r1] at g1 r2
      rw [r2] at g1
      have hKk : KOf P ops si k = true := by
        simp only [KOf]
        rw [g1]
        exact habLe.abandoned (by show a'.msg = m'.msg; exact hmsg'.symm) hab
      rw [hKk] at hK; cases hK
    · have ht : ((senderD P (accepted (init P).snd (sndOps P (init P).snd ops)) (SenderTsn.moved (init P).snd (sndOps P (init P).snd ops)) si).dataFrag k i0).tsn = m'.tsn := by
        rw [htsn j' m' hm', ← hj']; rfl
      rw [ht]; exact hin
  · exfalso
    have hkeq : k = L := by omega
    have hKk : KOf P ops si k = true := by
      simp only [KOf]
      rw [hkeq, hget]
      exact habLe.abandoned (by show a.msg = m.msg; exact hmmsg.symm) a1
    rw [hKk] at hK; cases hK

/-- ✱ `FwdOk`, derived: every FORWARD-TSN the receiver takes in a NetSysPR run satisfies the honest-sender premise for the
stream, with `K` = "abandoned at the end of the run" -/
theorem fwdok_of_run (P : Params) (ops : List Op) (hok : RunOk P ops) {W : Nat}
    (h : UFacts P (accepted (init P).snd (sndOps P (init P).snd ops)) (SenderTsn.moved (init P).snd (sndOps P (init P).snd ops)) W
      (wire (init P).snd (sndOps P (init P).snd ops))) (si : BitVec 16)
    (hlen15 : (senderD P (accepted (init P).snd (sndOps P (init P).snd ops)) (SenderTsn.moved (init P).snd (sndOps P (init P).snd ops)) si).msgs.length < 2^15)
    (hfifo : FifoU P ops si = true) :
    Receiver.FwdOk (senderD P (accepted (init P).snd (sndOps P (init P).snd ops)) (SenderTsn.moved (init P).snd (sndOps P (init P).snd ops)) si)
      (KOf P ops si) (init P).rcv [] (rcvOps P (init P) ops) := by
  intro ops1 cs1 nc es cs2 ops2 hdec _
  obtain ⟨o1, op, o2, e, e1, e3⟩ := rcvOps_split P (init P) ops ops1 _ ops2 hdec
  have hpk : ∃ is, op = Op.deliver is ∧ packetOf P (run P (init P) o1).wire is = cs1 ++ Receiver.InChunk.fwd nc es :: cs2 := by
    cases op with
    | write a b => simp [rcvOp] at e3
    | snd so => simp [rcvOp] at e3
    | deliver is => simp only [rcvOp, Option.some.injEq, Receiver.Op.pkt.injEq] at e3; exact ⟨is, rfl, e3⟩
    | rcv ro => cases ro <;> simp [rcvOp] at e3
  obtain ⟨is, rfl, hp⟩ := hpk
  simp only [packetOf] at hp
  obtain ⟨l1, l2, hl, hm1, hm2⟩ := List.map_eq_append_iff.1 hp
  obtain ⟨x, l3, rfl, hx, _⟩ := List.map_eq_cons_iff.1 hm2
  have hxm : x ∈ pick (run P (init P) o1).wire is := by rw [hl]; simp
  have hxw := pick_mem _ _ x hxm
  have hx1 : x.1 = Item.fwd (.fwd nc es) := by
    obtain ⟨it, imm⟩ := x
    cases it with
    | data c => simp [inChunk] at hx
    | fwd f =>
      cases f with
      | fwd nc' es' => simp only [inChunk, inFwd, Receiver.InChunk.fwd.injEq] at hx; rw [hx.1, hx.2]
      | ifwd nc' es' => simp [inChunk, inFwd] at hx
  rw [hx1] at hxw
  have hpre : ∀ y ∈ l1, y.1 ∈ (run P (init P) o1).wire := fun y hy => pick_mem _ _ y (by rw [hl]; exact List.mem_append_left _ hy)
  have := entok_of_run P ops o1 (Op.deliver is :: o2) e hok h si hlen15 hfifo l1 hpre nc es hxw
  have g1 : Receiver.pushedT (init P).rcv ops1 = pushed P (init P) o1 := by rw [pushed_eq, e1]
  have g2 : Receiver.run (init P).rcv ops1 = (run P (init P) o1).rcv := by rw [run_rcv, e1]
  have g3 : Receiver.pushedC (Receiver.chunksStart (run P (init P) o1).rcv) cs1 = pushedIn P (Receiver.chunksStart (run P (init P) o1).rcv) l1 := by
    rw [pushedIn_eq, hm1]
  rw [List.nil_append, g1, g2, g3]
  exact this

end NetSysPR
