import SctpVerif.Proofs.NetSys.UnivD
/-!
FIFO selection, sender half. When every `gather` of a run of the Sender model is given a selection list of zeros
(`peek` names index 0 = the OLDEST pending chunk every time — what the message policy of `pendingQueue` does when only
ordered chunks are queued, `C17_ordered_only_fifo`), the pending queue is a plain first-in-first-out buffer between the
writes and the moves:

  fragment identities of the chunks written so far  =  those of the chunks moved so far  ++  those still pending

(`FInv`, `run_finv`). The only way a chunk leaves the pending queue without being moved is the "no user data" branch of
`popPendingDataChunksToSend` (stream-reset markers); chunks created by `write` never take it (`writeChunks_nz`: every
fragment has between 1 and `maxPayloadSize < 2^32` bytes), which is the second half of the invariant.
-/
namespace SenderTsn
open SenderProofs
open Gen Sender

/-- the selection list of a gather names index 0 every time -/
def allZero (sel : List Nat) : Bool := sel.all (· == 0)

/-- every gather of the run selects the oldest pending chunk -/
def FifoOp : Op → Bool
  | .gather _ sel => allZero sel
  | _ => true

/-- no chunk of the list is a "no user data" marker for `popPendingDataChunksToSend` (`uint32(len(userData)) != 0`) -/
def NZ (l : List Chunk) : Prop := ∀ c ∈ l, (BitVec.ofNat 32 c.len == 0) = false

theorem allZero_tail {sel : List Nat} (h : allZero sel = true) : allZero sel.tail = true := by
  cases sel with
  | nil => rfl
  | cons i r => simp only [allZero, List.all_cons, Bool.and_eq_true] at h; exact h.2

/-- with an all-zero selection `peek` returns the head of the pending list -/
theorem peek_zero {s : St} {sel : List Nat} {i : Nat} {c : Chunk} (hz : allZero sel = true) (hp : peek s sel = some (i, c)) :
    i = 0 ∧ ∃ t, s.pending = c :: t := by
  cases sel with
  | nil => simp [peek] at hp
  | cons j r =>
    simp only [allZero, List.all_cons, Bool.and_eq_true, beq_iff_eq] at hz
    obtain ⟨hj, _⟩ := hz
    subst hj
    simp only [peek, Option.map_eq_some_iff, Prod.mk.injEq] at hp
    obtain ⟨x, hx, e1, e2⟩ := hp
    subst e1; subst e2
    cases hpen : s.pending with
    | nil => rw [hpen] at hx; simp at hx
    | cons y t =>
      rw [hpen] at hx
      simp only [List.getElem?_cons_zero, Option.some.injEq] at hx
      subst hx
      exact ⟨rfl, t, rfl⟩

theorem NZ.tail {c : Chunk} {t : List Chunk} (h : NZ (c :: t)) : NZ t := fun x hx => h x (List.mem_cons_of_mem _ hx)

theorem popLoop_fifo {B : Type} (allow : B → Int → Bool × B) (fuel : Nat) (s : St) (sel : List Nat) (a : PopAcc B)
    (hz : allZero sel = true) (hnz : NZ s.pending) :
    ∃ A, s.pending.map Chunk.frag = A.map Chunk.frag ++ (popLoop allow fuel s sel a).1.pending.map Chunk.frag ∧
      NZ (popLoop allow fuel s sel a).1.pending ∧ allZero (popLoop allow fuel s sel a).2.1 = true ∧
      (popLoop allow fuel s sel a).2.2.admits.map (·.chunk) = a.admits.map (·.chunk) ++ A := by
  induction fuel generalizing s sel a with
  | zero => exact ⟨[], by simp [popLoop], hnz, hz, by simp [popLoop]⟩
  | succ fuel ih =>
    simp only [popLoop]
    cases hp : peek s sel with
    | none => exact ⟨[], by simp, hnz, hz, by simp⟩
    | some ic =>
      obtain ⟨i, c⟩ := ic
      obtain ⟨hi, t, hpen⟩ := peek_zero hz hp
      subst hi
      have hc : (BitVec.ofNat 32 c.len == 0) = false := hnz c (by rw [hpen]; exact List.mem_cons_self)
      simp only [hc, Bool.false_eq_true, if_false]
      cases hd : popDecide s allow a c with
      | skip => exact ⟨[], by simp, hnz, hz, by simp⟩
      | stop b => exact ⟨[], by simp, hnz, hz, by simp⟩
      | take b bip =>
        simp only
        have hpen' : (admitChunk s 0 c).1.pending = t := by
          show s.pending.eraseIdx 0 = t
          rw [hpen]; rfl
        have hfr : Chunk.frag (admitChunk s 0 c).2 = Chunk.frag c := rfl
        obtain ⟨A, h1, h2, h3, h4⟩ := ih (admitChunk s 0 c).1 sel.tail
          { a with b := b, bip := bip, admits := a.admits ++ [mkAdmit s (admitChunk s 0 c).2 false] }
          (allZero_tail hz) (by rw [hpen']; rw [hpen] at hnz; exact hnz.tail)
        refine ⟨(admitChunk s 0 c).2 :: A, ?_, h2, h3, ?_⟩
        · rw [hpen'] at h1
          rw [hpen, List.map_cons, List.map_cons, hfr, h1]; rfl
        · rw [h4]; simp [mkAdmit]

theorem probe_fifo {B : Type} (allow : B → Int → Bool × B) (s : St) (sel : List Nat) (a : PopAcc B)
    (hz : allZero sel = true) (hnz : NZ s.pending) :
    ∃ A, s.pending.map Chunk.frag = A.map Chunk.frag ++ (probe allow s sel a).1.pending.map Chunk.frag ∧
      NZ (probe allow s sel a).1.pending ∧
      (probe allow s sel a).2.2.admits.map (·.chunk) = a.admits.map (·.chunk) ++ A := by
  unfold probe
  split
  · cases hp : peek s sel with
    | none => exact ⟨[], by simp, hnz, by simp⟩
    | some ic =>
      obtain ⟨i, c⟩ := ic
      obtain ⟨hi, t, hpen⟩ := peek_zero hz hp
      subst hi
      simp only
      split
      · split
        · split
          · have hpen' : (admitProbe s 0 c).1.pending = t := by
              show s.pending.eraseIdx 0 = t
              rw [hpen]; rfl
            have hfr : Chunk.frag (admitProbe s 0 c).2 = Chunk.frag c := rfl
            refine ⟨[(admitProbe s 0 c).2], ?_, ?_, by simp [mkAdmit]⟩
            · show s.pending.map Chunk.frag = _ ++ (admitProbe s 0 c).1.pending.map Chunk.frag
              rw [hpen', hpen, List.map_cons, List.map_cons, hfr]; rfl
            · show NZ (admitProbe s 0 c).1.pending
              rw [hpen']; rw [hpen] at hnz; exact hnz.tail
          · exact ⟨[], by simp, hnz, by simp⟩
        · exact ⟨[], by simp, hnz, by simp⟩
      · exact ⟨[], by simp, hnz, by simp⟩
  · exact ⟨[], by simp, hnz, by simp⟩

theorem gatherNew_fifo {B : Type} (allow : B → Int → Bool × B) (b : B) (s : St) (sel : List Nat)
    (hz : allZero sel = true) (hnz : NZ s.pending) :
    s.pending.map Chunk.frag =
      ((gatherNew s allow b sel).2.admits.map (·.chunk)).map Chunk.frag ++ (gatherNew s allow b sel).1.pending.map Chunk.frag ∧
    NZ (gatherNew s allow b sel).1.pending := by
  unfold gatherNew
  split
  · obtain ⟨A1, h1, n1, z1, e1⟩ := popLoop_fifo allow (s.pending.length + 1) s sel { b := b } hz hnz
    obtain ⟨A2, h2, n2, e2⟩ := probe_fifo allow (popLoop allow (s.pending.length + 1) s sel { b := b }).1
      (popLoop allow (s.pending.length + 1) s sel { b := b }).2.1 (popLoop allow (s.pending.length + 1) s sel { b := b }).2.2 z1 n1
    simp only
    refine ⟨?_, n2⟩
    rw [e2, e1, h1, h2]
    simp
  · exact ⟨by simp, hnz⟩

/-- one gather with an all-zero selection: the chunks it moves are the oldest pending ones, in order -/
theorem gather_fifo (s : St) (orc : Oracle) (sel : List Nat) (hz : allZero sel = true) (hnz : NZ s.pending) :
    s.pending.map Chunk.frag =
      ((gather s orc sel).2.admits.map (·.chunk)).map Chunk.frag ++ (gather s orc sel).1.pending.map Chunk.frag ∧
    NZ (gather s orc sel).1.pending := by
  unfold gather
  split
  · exact ⟨by simp, hnz⟩
  · obtain ⟨q1, _⟩ := gatherRtx_still s orc
    have hnz1 : NZ (gatherRtx s orc).1.pending := by rw [q1.q.pen]; exact hnz
    obtain ⟨g1, g2⟩ := gatherNew_fifo orc.allow (gatherRtx s orc).2.2 (gatherRtx s orc).1 sel hz hnz1
    obtain ⟨q3, _⟩ := gatherFast_still (gatherNew (gatherRtx s orc).1 orc.allow (gatherRtx s orc).2.2 sel).1 orc.allow
      (gatherNew (gatherRtx s orc).1 orc.allow (gatherRtx s orc).2.2 sel).2.b
    refine ⟨?_, ?_⟩
    · show s.pending.map Chunk.frag = _ ++ (gatherFast _ _ _).1.pending.map Chunk.frag
      rw [q3.q.pen, ← q1.q.pen]
      exact g1
    · show NZ (gatherFast _ _ _).1.pending
      rw [q3.q.pen]
      exact g2

/-! ## what `write` queues -/

theorem fragSizes_mem (mp len f : Nat) (hmp : 0 < mp) (h : f ∈ fragSizes mp len) : 0 < f ∧ f ≤ mp :=
  (fragAux_spec mp hmp len len (Nat.le_refl _)).2 f h

/-- every chunk a `write` queues carries between 1 and `maxPayloadSize` bytes -/
theorem writeChunks_nz (s : St) (si : BitVec 16) (ppi : BitVec 32) (len : Nat) : NZ (writeChunks s si ppi len) := by
  unfold writeChunks
  cases hs : s.streams si with
  | none => intro c hc; cases hc
  | some st =>
    simp only
    split
    · intro c hc; cases hc
    · split
      · intro c hc; cases hc
      · split
        · intro c hc; cases hc
        · rename_i hmp
          split
          · intro c hc
            simp only [packetize] at hc
            have hlen := ((mkChunks_spec _ _ _ _ _ _ _ _ _).2.2.2 c hc).1
            have hpos : 0 < s.cfg.maxPayload.toNat := by
              rcases Nat.eq_zero_or_pos s.cfg.maxPayload.toNat with h0 | h0
              · exact absurd (BitVec.eq_of_toNat_eq (by simpa using h0)) hmp
              · exact h0
            obtain ⟨f1, f2⟩ := fragSizes_mem _ _ _ hpos hlen
            have hlt : c.len < 2^32 := Nat.lt_of_le_of_lt f2 s.cfg.maxPayload.isLt
            have hne : BitVec.ofNat 32 c.len ≠ 0#32 := by
              intro h0
              have := congrArg BitVec.toNat h0
              simp only [BitVec.toNat_ofNat, Nat.mod_eq_of_lt hlt] at this
              simp at this
              omega
            simpa using hne
          · intro c hc; cases hc

/-! ## runs -/

/-- the pending queue is a first-in-first-out buffer between the chunks written `W` and the chunks moved `mv` -/
structure FInv (W mv : List Chunk) (s : St) : Prop where
  ord : W.map Chunk.frag = mv.map Chunk.frag ++ s.pending.map Chunk.frag
  nz : NZ s.pending

theorem FInv.still {W mv : List Chunk} {s s' : St} (h : FInv W mv s) (hq : Still s s') : FInv W mv s' :=
  ⟨by rw [hq.q.pen]; exact h.ord, by rw [hq.q.pen]; exact h.nz⟩

theorem step_finv {W mv : List Chunk} (s : St) (op : Op) (h : FInv W mv s) (ho : FifoOp op = true) :
    FInv (W ++ writtenBy s op) (mv ++ movedBy s op) (step s op) := by
  cases op with
  | openS si u rt rv th =>
    simp only [writtenBy, movedBy, List.append_nil]
    exact ⟨h.ord, h.nz⟩
  | unreg si =>
    simp only [writtenBy, movedBy, List.append_nil, step, unregister]
    split
    · exact h
    · exact ⟨h.ord, h.nz⟩
  | setEstablished b =>
    simp only [writtenBy, movedBy, List.append_nil]
    exact ⟨h.ord, h.nz⟩
  | write si ppi len =>
    simp only [writtenBy, movedBy, List.append_nil, step]
    obtain ⟨_, w2⟩ := write_queues s si ppi len
    refine ⟨?_, ?_⟩
    · rw [w2, List.map_append, List.map_append, h.ord, List.append_assoc]
    · rw [w2]
      intro c hc
      rcases List.mem_append.1 hc with hc | hc
      · exact h.nz c hc
      · exact writeChunks_nz s si ppi len c hc
  | gather orc sel =>
    simp only [writtenBy, movedBy, List.append_nil, step]
    obtain ⟨g1, g2⟩ := gather_fifo s orc sel ho h.nz
    refine ⟨?_, g2⟩
    rw [h.ord, g1, List.map_append, List.append_assoc]
  | sack cum arwnd gaps marks =>
    simp only [writtenBy, movedBy, List.append_nil, step]
    exact h.still (sack_still s cum arwnd gaps marks)
  | t3 =>
    simp only [writtenBy, movedBy, List.append_nil, step]
    exact h.still (t3_still s)
  | tick ms n marks =>
    simp only [writtenBy, movedBy, List.append_nil, step]
    exact h.still (tick_still s ms n marks)

theorem run_finv {W mv : List Chunk} (s : St) (ops : List Op) (h : FInv W mv s) (ho : ∀ op ∈ ops, FifoOp op = true) :
    FInv (W ++ written s ops) (mv ++ moved s ops) (run s ops) := by
  induction ops generalizing W mv s with
  | nil => simpa only [written, moved, List.append_nil, run] using h
  | cons op ops ih =>
    have h1 := step_finv s op h (ho op List.mem_cons_self)
    have i1 := ih (step s op) h1 (fun o ho' => ho o (List.mem_cons_of_mem _ ho'))
    simp only [written, moved, run]
    rw [← List.append_assoc, ← List.append_assoc]
    exact i1

/-- **FIFO selection: the moved chunks are the written chunks, in write order, as far as the moves go.** -/
theorem moved_prefix_written (cfg : Cfg) (tsn peerRwnd : BitVec 32) (ops : List Op) (ho : ∀ op ∈ ops, FifoOp op = true) :
    (written (init cfg tsn peerRwnd) ops).map Chunk.frag =
      (moved (init cfg tsn peerRwnd) ops).map Chunk.frag ++ (run (init cfg tsn peerRwnd) ops).pending.map Chunk.frag := by
  have h0 : FInv [] [] (init cfg tsn peerRwnd) := ⟨by simp [init], fun c hc => by simp [init] at hc⟩
  have := (run_finv (init cfg tsn peerRwnd) ops h0 ho).ord
  simpa using this

end SenderTsn
