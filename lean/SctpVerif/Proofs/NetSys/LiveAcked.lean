import SctpVerif.Proofs.Sender
/-!
Which in-flight chunks of the sender model carry the `acked` flag after a transition (`Props/C02net.lean`, `Honest` runs):
only a processed SACK raises the flag, and only on chunks whose TSN lies in one of its gap blocks; every other transition
keeps the flags of the chunks in flight and appends un-acked chunks only.
-/
namespace NetSysLive
open Gen Sender SenderProofs

/-- every acked chunk of `q'` is (by TSN) an acked chunk of `q` -/
def AckedFrom (q q' : List Chunk) : Prop := ∀ c' ∈ q', c'.acked = true → ∃ c ∈ q, c.tsn = c'.tsn ∧ c.acked = true

theorem AckedFrom.refl (q : List Chunk) : AckedFrom q q := fun c hc ha => ⟨c, hc, rfl, ha⟩

theorem AckedFrom.trans {a b c : List Chunk} (h1 : AckedFrom a b) (h2 : AckedFrom b c) : AckedFrom a c := by
  intro x hx ha
  obtain ⟨y, hy, e1, a1⟩ := h2 x hx ha
  obtain ⟨z, hz, e2, a2⟩ := h1 y hy a1
  exact ⟨z, hz, e2.trans e1, a2⟩

theorem AckedFrom.of_core {q q' : List Chunk} (h : q'.map Chunk.core = q.map Chunk.core) : AckedFrom q q' := by
  intro c' hc' ha
  obtain ⟨c, h1, h2⟩ := mem_of_map_core h hc'
  obtain ⟨_, e2, e3⟩ := core_len_acked h2
  exact ⟨c, h1, e3.symm, by rw [← e2]; exact ha⟩

/-! ### new chunks are un-acked -/

theorem popLoop_unacked {B : Type} (allow : B → Int → Bool × B) (fuel : Nat) (s : St) (sel : List Nat) (a : PopAcc B)
    (hp : ∀ c ∈ s.pending, c.acked = false) (ha : ∀ x ∈ a.admits, x.chunk.acked = false) :
    (∀ x ∈ (popLoop allow fuel s sel a).2.2.admits, x.chunk.acked = false) ∧
    (∀ c ∈ (popLoop allow fuel s sel a).1.pending, c.acked = false) := by
  induction fuel generalizing s sel a with
  | zero => exact ⟨ha, hp⟩
  | succ fuel ih =>
    simp only [popLoop]
    cases hpk : peek s sel with
    | none => exact ⟨ha, hp⟩
    | some ic =>
      obtain ⟨i, c⟩ := ic
      have hpc := peek_some hpk
      have hc : c.acked = false := hp c (List.mem_of_getElem? hpc)
      simp only
      split
      · exact ih (popPend s i c) sel.tail _ (fun x hx => hp x (mem_eraseIdx hx)) ha
      · cases hd : popDecide s allow a c with
        | skip => exact ⟨ha, hp⟩
        | stop b => exact ⟨ha, hp⟩
        | take b bip =>
          simp only
          apply ih
          · intro x hx
            have : (admitChunk s i c).1.pending = s.pending.eraseIdx i := by simp [admitChunk, move, popPend, chargeSend]
            rw [this] at hx
            exact hp x (mem_eraseIdx hx)
          · intro x hx
            simp only [List.mem_append, List.mem_singleton] at hx
            rcases hx with hx | rfl
            · exact ha x hx
            · simp [mkAdmit, admitChunk, move, hc]

theorem probe_unacked {B : Type} (allow : B → Int → Bool × B) (s : St) (sel : List Nat) (a : PopAcc B)
    (hp : ∀ c ∈ s.pending, c.acked = false) (ha : ∀ x ∈ a.admits, x.chunk.acked = false) :
    ∀ x ∈ (probe allow s sel a).2.2.admits, x.chunk.acked = false := by
  unfold probe
  split
  · cases hpk : peek s sel with
    | none => exact ha
    | some ic =>
      obtain ⟨i, c⟩ := ic
      have hc : c.acked = false := hp c (List.mem_of_getElem? (peek_some hpk))
      simp only
      split
      · split
        · split
          · intro x hx
            simp only [List.mem_append, List.mem_singleton] at hx
            rcases hx with hx | rfl
            · exact ha x hx
            · simp [mkAdmit, admitProbe, move, hc]
          · exact ha
        · exact ha
      · exact ha
  · exact ha

theorem gather_admits_unacked (s : St) (orc : Oracle) (sel : List Nat) (hp : ∀ c ∈ s.pending, c.acked = false) :
    ∀ x ∈ (gather s orc sel).2.admits, x.chunk.acked = false := by
  unfold gather
  split
  · intro x hx; simp at hx
  · simp only
    have hpen : (gatherRtx s orc).1.pending = s.pending := (gatherRtx_frame s orc).2.2.2.2.2.2.2.1
    unfold gatherNew
    split
    · simp only
      have h1 := popLoop_unacked orc.allow ((gatherRtx s orc).1.pending.length + 1) (gatherRtx s orc).1 sel { b := (gatherRtx s orc).2.2 }
        (by rw [hpen]; exact hp) (by intro x hx; simp at hx)
      exact probe_unacked orc.allow _ _ _ h1.2 h1.1
    · intro x hx; simp at hx

theorem gather_ackedFrom (s : St) (orc : Oracle) (sel : List Nat) (hp : ∀ c ∈ s.pending, c.acked = false) :
    AckedFrom s.inflight (gather s orc sel).1.inflight := by
  intro c' hc' ha
  have hin := gather_inflight s orc sel
  have : Chunk.core c' ∈ (gather s orc sel).1.inflight.map Chunk.core := List.mem_map_of_mem hc'
  rw [hin, List.mem_append] at this
  rcases this with h1 | h1
  · obtain ⟨c, g1, g2⟩ := List.mem_map.mp h1
    obtain ⟨_, e2, e3⟩ := core_len_acked g2.symm
    exact ⟨c, g1, e3.symm, by rw [← e2]; exact ha⟩
  · obtain ⟨c, g1, g2⟩ := List.mem_map.mp h1
    obtain ⟨x, hx, rfl⟩ := List.mem_map.mp g1
    obtain ⟨_, e2, _⟩ := core_len_acked g2.symm
    rw [ha] at e2
    rw [gather_admits_unacked s orc sel hp x hx] at e2
    cases e2

/-! ### the gap-ack loops -/

/-- the acked chunks after the gap marks: acked before, or named by a block -/
theorem markOne_acked (t : BitVec 32) (a : GapAcc) (tsn : BitVec 32) {a' : GapAcc} (hc : Contig a.q t) (h : markOne a tsn = some a') :
    Contig a'.q t ∧ ∀ c' ∈ a'.q, c'.acked = true → (∃ c ∈ a.q, c.tsn = c'.tsn ∧ c.acked = true) ∨ c'.tsn = tsn := by
  have hcon : Contig a'.q t := by
    have hid := markOne_ident a tsn h
    refine contig_of_tsns ?_ hc
    have := congrArg (List.map Prod.fst) hid
    simpa [List.map_map, Chunk.ident, Function.comp_def] using this
  refine ⟨hcon, ?_⟩
  clear hcon
  unfold markOne at h
  cases hg : Sender.get a.q tsn with
  | none => simp [hg] at h
  | some oc =>
    obtain ⟨off, c0⟩ := oc
    simp only [hg, Option.some.injEq] at h
    subst h
    have hget : a.q[off]? = some c0 ∧ c0.tsn = tsn := by
      unfold Sender.get at hg
      cases hq : a.q with
      | nil => rw [hq] at hg; simp at hg
      | cons f r =>
        rw [hq] at hg
        simp only at hg
        split at hg
        · cases hg
        · rename_i hlt
          cases hx : (f :: r)[(tsn - f.tsn).toNat]? with
          | none => rw [hx] at hg; simp at hg
          | some cx =>
            rw [hx] at hg
            simp only [Option.map_some, Option.some.injEq, Prod.mk.injEq] at hg
            obtain ⟨rfl, rfl⟩ := hg
            refine ⟨hx, ?_⟩
            have hc' : Contig (f :: r) t := by rw [← hq]; exact hc
            have := contig_getElem hc' hx
            have hf : f.tsn = t := hc'.1
            rw [this, ← hf]
            rw [BitVec.ofNat_toNat, BitVec.setWidth_eq]; bv_omega
    simp only
    split
    · intro c' hc' ha
      rcases mem_set_cases hc' with h1 | h1
      · right; rw [h1]; exact hget.2
      · exact Or.inl ⟨c', h1, rfl, ha⟩
    · exact fun c' hc' ha => Or.inl ⟨c', hc', rfl, ha⟩

theorem markRange_acked (t cum : BitVec 32) (is : List Nat) (a : GapAcc) {a' : GapAcc} (hc : Contig a.q t)
    (h : markRange cum is a = some a') :
    Contig a'.q t ∧ ∀ c' ∈ a'.q, c'.acked = true →
      (∃ c ∈ a.q, c.tsn = c'.tsn ∧ c.acked = true) ∨ ∃ i ∈ is, c'.tsn = cum + BitVec.ofNat 32 i := by
  induction is generalizing a with
  | nil => simp [markRange] at h; subst h; exact ⟨hc, fun c' hc' ha => Or.inl ⟨c', hc', rfl, ha⟩⟩
  | cons i r ih =>
    simp only [markRange] at h
    cases h1 : markOne a (cum + BitVec.ofNat 32 i) with
    | none => simp [h1] at h
    | some a1 =>
      simp only [h1] at h
      obtain ⟨c1, m1⟩ := markOne_acked t a _ hc h1
      obtain ⟨c2, m2⟩ := ih a1 c1 h
      refine ⟨c2, ?_⟩
      intro c' hc' ha
      rcases m2 c' hc' ha with ⟨c, hcm, e, ac⟩ | ⟨j, hj, e⟩
      · rcases m1 c hcm ac with ⟨c0, h0, e0, a0⟩ | e0
        · exact Or.inl ⟨c0, h0, e0.trans e, a0⟩
        · exact Or.inr ⟨i, by simp, by rw [← e, e0]⟩
      · exact Or.inr ⟨j, List.mem_cons_of_mem _ hj, e⟩

theorem markGaps_acked (t cum : BitVec 32) (gaps : List (BitVec 16 × BitVec 16)) (a : GapAcc) {a' : GapAcc} (hc : Contig a.q t)
    (h : markGaps cum gaps a = some a') :
    ∀ c' ∈ a'.q, c'.acked = true → (∃ c ∈ a.q, c.tsn = c'.tsn ∧ c.acked = true) ∨
      ∃ g ∈ gaps, ∃ j, g.1.toNat ≤ j ∧ j ≤ g.2.toNat ∧ c'.tsn = cum + BitVec.ofNat 32 j := by
  induction gaps generalizing a with
  | nil => simp [markGaps] at h; subst h; exact fun c' hc' ha => Or.inl ⟨c', hc', rfl, ha⟩
  | cons g r ih =>
    obtain ⟨st, en⟩ := g
    simp only [markGaps] at h
    cases h1 : markRange cum (List.range' st.toNat (en.toNat + 1 - st.toNat)) a with
    | none => simp [h1] at h
    | some a1 =>
      simp only [h1] at h
      obtain ⟨c1, m1⟩ := markRange_acked t cum _ a hc h1
      intro c' hc' ha
      rcases ih a1 c1 h c' hc' ha with ⟨c, hcm, e, ac⟩ | ⟨g, hg, j, j1, j2, e⟩
      · rcases m1 c hcm ac with ⟨c0, h0, e0, a0⟩ | ⟨j, hj, e0⟩
        · exact Or.inl ⟨c0, h0, e0.trans e, a0⟩
        · right
          refine ⟨(st, en), by simp, j, ?_, ?_, by rw [← e, e0]⟩
          · have := (List.mem_range'_1.mp hj).1; exact this
          · have h1 := (List.mem_range'_1.mp hj).1; have h2 := (List.mem_range'_1.mp hj).2; simp only; omega
      · exact Or.inr ⟨g, List.mem_cons_of_mem _ hg, j, j1, j2, e⟩

end NetSysLive
