import SctpVerif.Proofs.PendQMsg
/-!
The message policy of `pendingQueue` with ORDERED chunks only is one first-in-first-out queue.

From the invariant `MsgPol.CInv` that carries `C17_contiguous` (`cinv_run`: per ordering class the pushes are the pops
followed by the class queue; `selected` / `unorderedIsSelected` are determined by the last pop): when no unordered chunk
was ever pushed the unordered queue is empty, no pop was unordered, `unorderedIsSelected` is false whenever a message
is selected, and `peek` is the head of the ordered queue in both of its branches.
-/
namespace PendQ

theorem filter_unord_false_of_true_nil {l : List Chunk} (h : l.filter (·.unordered == true) = []) :
    l.filter (·.unordered == false) = l := by
  rw [List.filter_eq_self]
  intro x hx
  have := (List.filter_eq_nil_iff.1 h) x hx
  cases hu : x.unordered <;> simp_all

namespace MsgPol

/-- ordered chunks only: the unordered queue is empty, all pushes = all pops ++ the ordered queue, and `peek` is the
head of the ordered queue — the oldest queued chunk -/
theorem CInv.ordered_only {m : MsgPol} {P Q : List Chunk} (h : CInv m P Q) (hord : ∀ c ∈ P, c.unordered = false) :
    m.unord = [] ∧ P = Q ++ m.ord ∧ m.peek = m.ord.head? ∧ m.contents = m.ord := by
  have hPt : P.filter (·.unordered == true) = [] := by
    rw [List.filter_eq_nil_iff]
    intro x hx
    simp [hord x hx]
  have ht := h.fifo true
  rw [hPt] at ht
  have ht' := List.append_eq_nil_iff.1 ht.symm
  have hun : m.unord = [] := by simpa [classQ] using ht'.2
  have hQt : Q.filter (·.unordered == true) = [] := ht'.1
  have hf := h.fifo false
  rw [filter_unord_false_of_true_nil hPt, filter_unord_false_of_true_nil hQt] at hf
  have hPQ : P = Q ++ m.ord := by simpa [classQ] using hf
  have hQord : ∀ x ∈ Q, x.unordered = false := fun x hx => hord x (by rw [hPQ]; exact List.mem_append_left _ hx)
  refine ⟨hun, hPQ, ?_, by simp [contents, hun]⟩
  unfold peek
  rw [hun]
  cases hsel : m.selected with
  | false => simp
  | true =>
    simp only [if_true]
    -- a message is selected: the last pop was a non-final ordered fragment
    have hne : Q ≠ [] := fun hq => by have := h.selNone hq; rw [hsel] at this; cases this
    obtain ⟨x, hx⟩ : ∃ x, Q.getLast? = some x := by
      cases hq : Q.getLast? with
      | none => exact absurd (List.getLast?_eq_none_iff.1 hq) hne
      | some x => exact ⟨x, rfl⟩
    obtain ⟨s1, s2⟩ := h.selLast x hx
    have hxe : x.e = false := by rw [hsel] at s1; simpa using s1.symm
    have hxm : x ∈ Q := List.mem_of_getLast? hx
    have hus : m.unordSel = false := by rw [s2 hxe]; exact hQord x hxm
    simp [hus]

end MsgPol

variable {α : Type} [Num α]

/-- **global FIFO for ordered-only traffic** (wrapper level): after any list of push / peek / pop on a fresh queue in
which every pushed chunk is ordered, the pushes are the pops followed by the queue contents, the next `peek` returns
the oldest queued chunk, and the next `pop` (peek, then pop what was peeked) is handed the oldest queued chunk. -/
theorem ordered_only_fifo (f : Factory) (ops : List Op) (hops : ∀ o ∈ ops, o.basic = true)
    (hord : ∀ c ∈ pushesOf ((PQ.new f : PQ α).run ops).2, c.unordered = false) :
    pushesOf ((PQ.new f : PQ α).run ops).2 = popsOf ((PQ.new f : PQ α).run ops).2 ++ ((PQ.new f : PQ α).run ops).1.contents ∧
    (((PQ.new f : PQ α).run ops).1.step .peek).2 = .peeked (.chunk ((PQ.new f : PQ α).run ops).1.contents.head?) ∧
    ∃ res, (((PQ.new f : PQ α).run ops).1.step .pop).2 = .popped ((PQ.new f : PQ α).run ops).1.contents.head? res := by
  obtain ⟨m', hm', hc⟩ := cinv_run (q := (PQ.new f : PQ α)) (m := {}) rfl MsgPol.cinv_empty ops hops
  simp only [List.nil_append] at hc
  obtain ⟨_, h2, h3, h4⟩ := hc.ordered_only hord
  have hcont : ((PQ.new f : PQ α).run ops).1.contents = m'.ord := by
    simp only [PQ.contents, hm', h4]
  rw [hcont]
  refine ⟨h2, ?_, ?_⟩
  · simp only [PQ.step, PQ.peek, PQ.policyPeek, hm', h3]
  · simp only [PQ.step, PQ.peek, PQ.policyPeek, hm', h3]
    cases m'.ord.head? with
    | none => exact ⟨_, rfl⟩
    | some c => exact ⟨_, rfl⟩

end PendQ
