import SctpVerif.Model.NetSysPR
import SctpVerif.Proofs.NetSys.PRSnd
import SctpVerif.Proofs.NetSys.PRRcv
/-!
The composed invariant of `NetSysPR` (sender + history network with FORWARD-TSN items + receiver) behind
`C07_netsys_skip_is_safe`: with SOUND SACKs, the sender's cumulative ack point never runs ahead of the receiver's; every
FORWARD-TSN in the history covers, above the receiver's cumulative point, abandoned chunks only; every TSN at or below
the receiver's cumulative point was handed to a reassembly queue or is abandoned.
-/
namespace NetSysPR
open NetSys (Params Op toWire sndOp)
open SenderProofs SenderTsn

/-! ## ghosts of a run -/

/-- the TSNs of the DATA chunks of a packet that `handleData` hands to `pushPayloadDataToStream` (`Receiver.pushes`) -/
def pushedIn (P : Params) : Receiver.St → List (Item × Bool) → List (BitVec 32)
  | _, [] => []
  | r, x :: rest =>
    (match x.1 with
     | .data c => if Receiver.pushes r (toWire P c) then [c.tsn] else []
     | .fwd _ => []) ++ pushedIn P (Receiver.handleChunk r (inChunk P x.1 x.2)) rest

def pushedBy (P : Params) (s : St) : Op → List (BitVec 32)
  | .deliver is => pushedIn P (Receiver.chunksStart s.rcv) (pick s.wire is)
  | _ => []

/-- every TSN the receiver handed to a reassembly queue along the run, in order -/
def pushed (P : Params) : St → List Op → List (BitVec 32)
  | _, [] => []
  | s, op :: ops => pushedBy P s op ++ pushed P (step P s op) ops

def movedBy (P : Params) (s : St) (op : Op) : List Sender.Chunk :=
  match sndOp P s.snd op with
  | some o => SenderTsn.movedBy s.snd o
  | none => []

/-- every chunk the sender moved to in flight along the run, in TSN order -/
def moved (P : Params) : St → List Op → List Sender.Chunk
  | _, [] => []
  | s, op :: ops => movedBy P s op ++ moved P (step P s op) ops

/-! ## the invariant -/

/-- the `j`-th moved chunk is abandoned -/
def Ab (s : Sender.St) (mv : List Sender.Chunk) (j : Nat) : Prop := ∀ m, mv[j]? = some m → s.abandoned m = true

/-- the FORWARD-TSN with new cumulative TSN `nc` covers, at or above offset `A`, abandoned chunks only -/
def Cov (t0 : BitVec 32) (s : Sender.St) (mv : List Sender.Chunk) (A : Nat) (nc : BitVec 32) : Prop :=
  ∃ n, nc = t0 + BitVec.ofNat 32 n ∧ n < mv.length ∧ ∀ j, j ≤ n → Ab s mv j ∨ j < A

/-- every entry of a FORWARD-TSN / I-FORWARD-TSN names an abandoned moved chunk at or below its new cumulative TSN
(FORWARD-TSN: an ORDERED chunk, by stream and SSN; I-FORWARD-TSN: by stream, U flag and MID) -/
def Ent (s : Sender.St) (mv : List Sender.Chunk) : Sender.Fwd → Prop
  | .fwd nc es => ∀ e ∈ es, ∃ m ∈ mv, s.abandoned m = true ∧ Gen.sna32LTE m.tsn nc = true ∧
      m.unordered = false ∧ m.si = e.1 ∧ m.ssn = e.2
  | .ifwd nc es => ∀ e ∈ es, ∃ m ∈ mv, s.abandoned m = true ∧ Gen.sna32LTE m.tsn nc = true ∧
      (m.si, m.unordered) = e.1 ∧ m.mid = e.2

structure Inv (P : Params) (σ : St) (mv : List Sender.Chunk) (G : List (BitVec 32)) (a : Nat) (R : RecvQ.St) : Prop where
  snd : SenderPR.SInv P.tsn σ.snd mv a
  rcv : ReceiverPR.RInv P.tsn σ.rcv R mv.length (Ab σ.snd mv) G
  ale : a ≤ R.h.A
  wdata : ∀ c, Item.data c ∈ σ.wire → FromMoved mv c
  wfwd : ∀ f, Item.fwd f ∈ σ.wire → Cov P.tsn σ.snd mv R.h.A (fwdCum f)
  went : ∀ f, Item.fwd f ∈ σ.wire → Ent σ.snd mv f

theorem Ent.mono {s s' : Sender.St} {mv mv' : List Sender.Chunk} {f : Sender.Fwd}
    (hab : AbLe s s') (hmv : ∃ x, mv' = mv ++ x) (h : Ent s mv f) : Ent s' mv' f := by
  obtain ⟨x, rfl⟩ := hmv
  cases f with
  | fwd nc es =>
    intro e he
    obtain ⟨m, hm, h1, h2⟩ := h e he
    exact ⟨m, List.mem_append_left _ hm, hab.abandoned rfl h1, h2⟩
  | ifwd nc es =>
    intro e he
    obtain ⟨m, hm, h1, h2⟩ := h e he
    exact ⟨m, List.mem_append_left _ hm, hab.abandoned rfl h1, h2⟩

theorem Ab.mono {s s' : Sender.St} {mv mv' : List Sender.Chunk} (hab : AbLe s s') (hmv : ∃ x, mv' = mv ++ x) {j : Nat}
    (hj : j < mv.length) (h : Ab s mv j) : Ab s' mv' j := by
  obtain ⟨x, rfl⟩ := hmv
  intro m hm
  rw [List.getElem?_append_left hj] at hm
  exact hab.abandoned rfl (h m hm)

theorem Cov.mono {t0 : BitVec 32} {s s' : Sender.St} {mv mv' : List Sender.Chunk} {A A' : Nat} {nc : BitVec 32}
    (hab : AbLe s s') (hmv : ∃ x, mv' = mv ++ x) (hA : A ≤ A') (h : Cov t0 s mv A nc) : Cov t0 s' mv' A' nc := by
  obtain ⟨n, h1, h2, h3⟩ := h
  refine ⟨n, h1, ?_, ?_⟩
  · obtain ⟨x, rfl⟩ := hmv; rw [List.length_append]; omega
  · intro j hj
    rcases h3 j hj with h | h
    · exact Or.inl (Ab.mono hab hmv (by omega) h)
    · exact Or.inr (by omega)

/-! ## sender operations -/

theorem sndOp_not_deliver {P : Params} {s : Sender.St} {op : Op} {o : Sender.Op} (h : sndOp P s op = some o) :
    ∀ σ : St, pushedBy P σ op = [] := by
  intro σ
  cases op with
  | deliver is => simp [sndOp] at h
  | _ => rfl

theorem sndOp_sack {P : Params} {s : Sender.St} {op : Op} {cum arwnd : BitVec 32} {gaps : List (BitVec 16 × BitVec 16)}
    {marks : List (BitVec 32)} (h : sndOp P s op = some (.sack cum arwnd gaps marks)) : op = .snd (.sack cum arwnd gaps marks) := by
  cases op with
  | write si ppi => simp [sndOp] at h
  | snd so =>
    cases so with
    | write a b c => simp [sndOp] at h
    | _ => simp only [sndOp, Option.some.injEq] at h; rw [h]
  | deliver is => simp [sndOp] at h
  | rcv ro => simp [sndOp] at h

theorem emits_data (s : Sender.St) (o : Sender.Op) (c : Sender.Chunk) (h : Item.data c ∈ emits s o) : c ∈ emittedBy s o := by
  cases o with
  | gather orc sel =>
    simp only [emits, List.mem_append, List.mem_map] at h
    rcases h with ⟨c', hc', he⟩ | h
    · cases he; exact hc'
    · split at h <;> simp at h
  | _ => simp [emits] at h

theorem emits_fwd (s : Sender.St) (o : Sender.Op) (f : Sender.Fwd) (h : Item.fwd f ∈ emits s o) :
    ∃ orc sel, o = .gather orc sel ∧ (Sender.gather s orc sel).2.fwd = some f := by
  cases o with
  | gather orc sel =>
    refine ⟨orc, sel, rfl, ?_⟩
    simp only [emits, List.mem_append, List.mem_map] at h
    rcases h with ⟨c', _, he⟩ | h
    · cases he
    · split at h
      · rename_i f' hf'
        simp only [List.mem_singleton, Item.fwd.injEq] at h
        rw [hf', h]
      · simp at h
  | _ => simp [emits] at h

theorem Inv.sndStep {P : Params} {σ : St} {mv : List Sender.Chunk} {G : List (BitVec 32)} {a : Nat} {R : RecvQ.St}
    (h : Inv P σ mv G a R) (op : Op) (o : Sender.Op) (ho : sndOp P σ.snd op = some o)
    (hsound : sackSoundOp σ op = true)
    (hmv : (mv ++ SenderTsn.movedBy σ.snd o).length < 2^31) (hinf : (Sender.step σ.snd o).inflight.length < 2^31) :
    ∃ a', Inv P { σ with snd := Sender.step σ.snd o, wire := σ.wire ++ emits σ.snd o } (mv ++ SenderTsn.movedBy σ.snd o) G a' R := by
  obtain ⟨a', hs', hle, hcase⟩ := h.snd.step o hmv hinf
  have habLe : AbLe σ.snd (Sender.step σ.snd o) := step_abLe σ.snd o
  have hpre : ∃ x, mv ++ SenderTsn.movedBy σ.snd o = mv ++ x := ⟨_, rfl⟩
  have hN := h.snd.small
  have hA := h.rcv.A_le
  have hale' : a' ≤ R.h.A := by
    rcases hcase with rfl | ⟨cum, arwnd, gaps, marks, rfl, hcum⟩
    · exact h.ale
    · have hop := sndOp_sack ho
      subst hop
      simp only [sackSoundOp] at hsound
      have hd := (Sna.lte32_iff _ _).1 hsound
      rw [h.rcv.pq, h.rcv.cum, hcum] at hd
      have ha' : a' < 2^31 := by have := hs'.alen; have := hs'.small; omega
      have e1 : (BitVec.ofNat 32 a').toNat = a' := by simp; omega
      have e2 : (BitVec.ofNat 32 R.h.A).toNat = R.h.A := by simp; omega
      generalize BitVec.ofNat 32 a' = x at e1 hd
      generalize BitVec.ofNat 32 R.h.A = y at e2 hd
      bv_omega
  obtain ⟨W, hW⟩ := h.snd.minv
  obtain ⟨_, _, hem⟩ := step_minv σ.snd o hW
  refine ⟨a', hs', ?_, hale', ?_, ?_, ?_⟩
  · exact h.rcv.mono (by rw [List.length_append]; omega) (fun j hj hab => Ab.mono habLe hpre hj hab) (fun x hx => hx)
  · intro c hc
    rcases List.mem_append.1 hc with hc | hc
    · exact (h.wdata c hc).mono (fun m hm => List.mem_append_left _ hm)
    · exact hem c (emits_data σ.snd o c hc)
  · intro f hf
    rcases List.mem_append.1 hf with hf | hf
    · exact (h.wfwd f hf).mono habLe hpre (Nat.le_refl _)
    · obtain ⟨orc, sel, rfl, hfw⟩ := emits_fwd σ.snd o f hf
      have hest : σ.snd.established = true := by
        cases he : σ.snd.established with
        | true => rfl
        | false =>
          have : (Sender.gather σ.snd orc sel).2.fwd = none := by
            unfold Sender.gather; simp [he]
          rw [this] at hfw; cases hfw
      obtain ⟨g1, g2⟩ := gather_fwd σ.snd orc sel hest
      have hsome : (Sender.gather σ.snd orc sel).2.fwd.isSome = true := by rw [hfw]; rfl
      have hgt := (g1.1 hsome).2.1
      have hfe := g2 f hfw
      obtain ⟨_, _, r3, r4, _⟩ := gather_grel σ.snd orc sel
      have hcum : fwdCum f = (Sender.step σ.snd (.gather orc sel)).advPeerAck := by
        show _ = (Sender.gather σ.snd orc sel).1.advPeerAck
        rw [r3, hfe]; split <;> rfl
      have hgt' : Gen.sna32GT (Sender.step σ.snd (.gather orc sel)).advPeerAck (Sender.step σ.snd (.gather orc sel)).cumAck = true := by
        show Gen.sna32GT (Sender.gather σ.snd orc sel).1.advPeerAck (Sender.gather σ.snd orc sel).1.cumAck = true
        rw [r3, r4]; exact hgt
      obtain ⟨n, c1, c2, c3⟩ := hs'.covers hgt'
      refine ⟨n, by rw [hcum]; exact c1, c2, fun j hj => ?_⟩
      rcases Nat.lt_or_ge j a' with hlt | hge
      · exact Or.inr (by omega)
      · left; intro m hm
        rcases c3 j m hj hm with h' | h'
        · exact h'
        · omega
  · intro f hf
    rcases List.mem_append.1 hf with hf | hf
    · exact (h.went f hf).mono habLe hpre
    · obtain ⟨orc, sel, rfl, hfw⟩ := emits_fwd σ.snd o f hf
      have hest : σ.snd.established = true := by
        cases he : σ.snd.established with
        | true => rfl
        | false =>
          have : (Sender.gather σ.snd orc sel).2.fwd = none := by
            unfold Sender.gather; simp [he]
          rw [this] at hfw; cases hfw
      have hfe := (gather_fwd σ.snd orc sel hest).2 f hfw
      obtain ⟨_, _, r3, _, _⟩ := gather_grel σ.snd orc sel
      have hsc := hs'.scanned
      have hadv : (Sender.step σ.snd (.gather orc sel)).advPeerAck = σ.snd.advPeerAck := r3
      rw [hadv] at hsc
      rw [hfe]
      split
      · intro e he
        obtain ⟨c, hc, c1, c2⟩ := (ifwdStreams_spec _).2.1 e he
        obtain ⟨m, hm, m1, m2, m3⟩ := hsc c hc
        have f1 := congrArg (fun x => x.1) m3
        have f2 := congrArg (fun x => x.2.2.2.1) m3
        have f3 := congrArg (fun x => x.2.2.2.2.2.2.2.1) m3
        simp only [Chunk.frag] at f1 f2 f3
        exact ⟨m, hm, m1, m2, by rw [f1, f2]; exact c1, by rw [f3]; exact c2⟩
      · intro e he
        obtain ⟨c, hc, c1, c2, c3⟩ := (fwdStreams_spec _).2.1 e he
        obtain ⟨m, hm, m1, m2, m3⟩ := hsc c hc
        have f1 := congrArg (fun x => x.1) m3
        have f2 := congrArg (fun x => x.2.2.2.1) m3
        have f3 := congrArg (fun x => x.2.2.2.2.2.2.1) m3
        simp only [Chunk.frag] at f1 f2 f3
        exact ⟨m, hm, m1, m2, by rw [f2]; exact c1, by rw [f1]; exact c2, by rw [f3]; exact c3⟩

/-! ## receiver operations -/

theorem fwdTrace_cases (r : Receiver.St) (nc : BitVec 32) (ids : List (BitVec 16)) :
    (Receiver.fwdTrace r nc ids = [] ∨ Receiver.fwdTrace r nc ids = [.fwd nc]) ∧
    (Receiver.fwdTrace r nc ids = [.fwd nc] → Gen.sna32LTE nc r.pq.cum = false) := by
  unfold Receiver.fwdTrace
  split
  · exact ⟨Or.inl rfl, fun h => by cases h⟩
  · split
    · exact ⟨Or.inl rfl, fun h => by cases h⟩
    · split
      · exact ⟨Or.inl rfl, fun h => by cases h⟩
      · rename_i hst
        split
        · exact ⟨Or.inl rfl, fun h => by cases h⟩
        · exact ⟨Or.inr rfl, fun _ => by simpa [Gen.fwd_stale] using hst⟩

theorem ifwdTrace_cases (r : Receiver.St) (nc : BitVec 32) (ids : List (BitVec 16)) :
    (Receiver.ifwdTrace r nc ids = [] ∨ Receiver.ifwdTrace r nc ids = [.fwd nc]) ∧
    (Receiver.ifwdTrace r nc ids = [.fwd nc] → Gen.sna32LTE nc r.pq.cum = false) := by
  unfold Receiver.ifwdTrace
  split
  · exact ⟨Or.inl rfl, fun h => by cases h⟩
  · split
    · exact ⟨Or.inl rfl, fun h => by cases h⟩
    · rename_i hst
      split
      · exact ⟨Or.inl rfl, fun h => by cases h⟩
      · exact ⟨Or.inr rfl, fun _ => by simpa [Gen.ifwd_stale] using hst⟩

/-- the FORWARD-TSN / I-FORWARD-TSN a history item decodes to: its trace is empty or moves the point to `fwdCum` -/
theorem inFwd_cases (r : Receiver.St) (f : Sender.Fwd) :
    (Receiver.chunkTrace r (inFwd f) = [] ∨ Receiver.chunkTrace r (inFwd f) = [.fwd (fwdCum f)]) ∧
    (Receiver.chunkTrace r (inFwd f) = [.fwd (fwdCum f)] → Gen.sna32LTE (fwdCum f) r.pq.cum = false) := by
  cases f with
  | fwd nc es => exact fwdTrace_cases r nc _
  | ifwd nc es => exact ifwdTrace_cases r nc _

theorem chunk_A_mono (r : Receiver.St) (ch : Receiver.InChunk) {R : RecvQ.St} (g : RecvQ.GInv R) :
    R.h.A ≤ (RecvQ.run R (Receiver.chunkTrace r ch)).h.A := by
  rcases Receiver.chunkTrace_short r ch with h | ⟨op, h, hn⟩
  · rw [h]; exact Nat.le_refl _
  · rw [h, Receiver.run_single]
    exact (RecvQ.step_fwd g op (fun c hc => by rw [hc] at hn; exact hn)).mono

def pushedOne (P : Params) (r : Receiver.St) (x : Item × Bool) : List (BitVec 32) :=
  match x.1 with
  | .data c => if Receiver.pushes r (toWire P c) then [c.tsn] else []
  | .fwd _ => []

/-- ✱ one history item reaches the receiver -/
theorem Inv.itemStep {P : Params} {σ : St} {mv : List Sender.Chunk} {G : List (BitVec 32)} {a : Nat} {R : RecvQ.St}
    (h : Inv P σ mv G a R) (x : Item × Bool) (hx : x.1 ∈ σ.wire) :
    Inv P { σ with rcv := Receiver.handleChunk σ.rcv (inChunk P x.1 x.2) } mv (G ++ pushedOne P σ.rcv x) a
      (RecvQ.run R (Receiver.chunkTrace σ.rcv (inChunk P x.1 x.2))) := by
  have hN := h.snd.small
  have hmono := chunk_A_mono σ.rcv (inChunk P x.1 x.2) h.rcv.ginv
  obtain ⟨W, hW⟩ := h.snd.minv
  have hrcv : ReceiverPR.RInv P.tsn (Receiver.handleChunk σ.rcv (inChunk P x.1 x.2))
      (RecvQ.run R (Receiver.chunkTrace σ.rcv (inChunk P x.1 x.2))) mv.length (Ab σ.snd mv) (G ++ pushedOne P σ.rcv x) := by
    obtain ⟨it, imm⟩ := x
    cases it with
    | data c =>
      obtain ⟨m, hm, ht, _⟩ := h.wdata c hx
      obtain ⟨j, hj⟩ := List.getElem?_of_mem hm
      have hjl : j < mv.length := by
        rcases Nat.lt_or_ge j mv.length with h' | h'
        · exact h'
        · rw [List.getElem?_eq_none h'] at hj; cases hj
      have htsn : (toWire P c).tsn = P.tsn + BitVec.ofNat 32 j := by
        show c.tsn = _
        rw [← ht]; exact hW.tsn j m hj
      exact h.rcv.data hN (toWire P c) imm j hjl htsn
    | fwd f =>
      obtain ⟨n, c1, c2, c3⟩ := h.wfwd f hx
      have hc := inFwd_cases σ.rcv f
      have := h.rcv.fwdStep hN (inFwd f) (fwdCum f) hc.1 hc.2 n c2 c1 c3
      simpa [pushedOne, inChunk] using this
  refine ⟨h.snd, hrcv, by have := h.ale; omega, h.wdata, fun f hf => (h.wfwd f hf).mono (AbLe.refl _) ⟨[], by simp⟩ hmono, h.went⟩

theorem pick_mem (w : List Item) (is : List (Nat × Bool)) : ∀ x ∈ pick w is, x.1 ∈ w := by
  intro x hx
  simp only [pick, List.mem_filterMap] at hx
  obtain ⟨y, _, hy⟩ := hx
  cases hw : w[y.1]? with
  | none => simp [hw] at hy
  | some it =>
    simp only [hw, Option.map_some, Option.some.injEq] at hy
    rw [← hy]; exact List.mem_of_getElem? hw

/-- the ghost receive queue after the items `xs` -/
def ghostItems (P : Params) : Receiver.St → RecvQ.St → List (Item × Bool) → RecvQ.St
  | _, R, [] => R
  | r, R, x :: xs => ghostItems P (Receiver.handleChunk r (inChunk P x.1 x.2))
      (RecvQ.run R (Receiver.chunkTrace r (inChunk P x.1 x.2))) xs

theorem Inv.itemsStep {P : Params} (xs : List (Item × Bool)) :
    ∀ {σ : St} {mv : List Sender.Chunk} {G : List (BitVec 32)} {a : Nat} {R : RecvQ.St},
    Inv P σ mv G a R → (∀ x ∈ xs, x.1 ∈ σ.wire) →
    Inv P { σ with rcv := (xs.map fun x => inChunk P x.1 x.2).foldl Receiver.handleChunk σ.rcv } mv (G ++ pushedIn P σ.rcv xs) a
      (ghostItems P σ.rcv R xs) := by
  induction xs with
  | nil => intro σ mv G a R h _; simpa [pushedIn, ghostItems] using h
  | cons x xs ih =>
    intro σ mv G a R h hx
    have h1 := h.itemStep x (hx x List.mem_cons_self)
    have h2 := ih h1 (fun y hy => hx y (List.mem_cons_of_mem _ hy))
    simp only [List.map_cons, List.foldl_cons, pushedIn, ghostItems]
    rw [← List.append_assoc]
    exact h2

theorem Inv.setRcv {P : Params} {σ : St} {mv : List Sender.Chunk} {G : List (BitVec 32)} {a : Nat} {R : RecvQ.St}
    (h : Inv P σ mv G a R) (r : Receiver.St) (hpq : r.pq = σ.rcv.pq) : Inv P { σ with rcv := r } mv G a R :=
  ⟨h.snd, h.rcv.same_pq r hpq, h.ale, h.wdata, h.wfwd, h.went⟩

theorem Inv.otherStep {P : Params} {σ : St} {mv : List Sender.Chunk} {G : List (BitVec 32)} {a : Nat} {R : RecvQ.St}
    (h : Inv P σ mv G a R) (ro : Receiver.Op) (hop : ∀ cs, ro ≠ .pkt cs) :
    ∃ a' R', Inv P { σ with rcv := Receiver.step σ.rcv ro } mv G a' R' := by
  refine ⟨a, _, h.snd, (h.rcv.other ro hop).1, ?_, h.wdata, ?_, h.went⟩
  · rw [(h.rcv.other ro hop).2]; exact h.ale
  · rw [(h.rcv.other ro hop).2]; exact h.wfwd

/-- ✱ one operation of NetSysPR keeps the invariant -/
theorem Inv.opStep {P : Params} {σ : St} {mv : List Sender.Chunk} {G : List (BitVec 32)} {a : Nat} {R : RecvQ.St}
    (h : Inv P σ mv G a R) (op : Op) (hsound : sackSoundOp σ op = true)
    (hmv : (mv ++ movedBy P σ op).length < 2^31) (hinf : (step P σ op).snd.inflight.length < 2^31) :
    ∃ a' R', Inv P (step P σ op) (mv ++ movedBy P σ op) (G ++ pushedBy P σ op) a' R' := by
  unfold NetSysPR.step NetSysPR.movedBy at *
  cases ho : sndOp P σ.snd op with
  | some o =>
    simp only [ho] at hmv hinf ⊢
    obtain ⟨a', h'⟩ := h.sndStep op o ho hsound hmv hinf
    rw [sndOp_not_deliver ho σ, List.append_nil]
    exact ⟨a', R, h'⟩
  | none =>
    simp only [ho, List.append_nil] at hmv hinf ⊢
    cases op with
    | write si ppi => simp [sndOp] at ho
    | snd so =>
      simp only [rcvOp, pushedBy, List.append_nil]
      exact ⟨a, R, h⟩
    | deliver is =>
      simp only [rcvOp, pushedBy, Receiver.step, Receiver.packet]
      have h0 := h.setRcv (Receiver.chunksStart σ.rcv) rfl
      have h1 := Inv.itemsStep (pick σ.wire is) h0 (pick_mem σ.wire is)
      have h2 := h1.setRcv (Receiver.chunksEnd (((pick σ.wire is).map fun x => inChunk P x.1 x.2).foldl Receiver.handleChunk (Receiver.chunksStart σ.rcv)))
        (Receiver.chunksEnd_pq _)
      exact ⟨a, _, h2⟩
    | rcv ro =>
      cases ro with
      | pkt cs => simp only [rcvOp, pushedBy, List.append_nil]; exact ⟨a, R, h⟩
      | read nm n => simp only [rcvOp, pushedBy, List.append_nil]; exact h.otherStep _ (fun cs hc => by cases hc)
      | accept => simp only [rcvOp, pushedBy, List.append_nil]; exact h.otherStep _ (fun cs hc => by cases hc)
      | «open» si => simp only [rcvOp, pushedBy, List.append_nil]; exact h.otherStep _ (fun cs hc => by cases hc)
      | gather => simp only [rcvOp, pushedBy, List.append_nil]; exact h.otherStep _ (fun cs hc => by cases hc)
      | tick d => simp only [rcvOp, pushedBy, List.append_nil]; exact h.otherStep _ (fun cs hc => by cases hc)
      | setState st => simp only [rcvOp, pushedBy, List.append_nil]; exact h.otherStep _ (fun cs hc => by cases hc)

theorem init_inv (P : Params) (hc : CfgOk P.cfg) (hpr : P.cfg.prEnabled = true) :
    Inv P (init P) [] [] 0 (RecvQ.start (Gen.getMaxTSNOffset P.maxBuf) (P.tsn - 1)) :=
  ⟨SenderPR.SInv.init P.cfg P.tsn P.peerRwnd hc hpr, ReceiverPR.RInv.init P.tsn P.maxBuf P.maxEntries _ _ _ _ _ _,
   Nat.zero_le _, fun c hc => by simp [init] at hc, fun f hf => by simp [init] at hf, fun f hf => by simp [init] at hf⟩

/-! ## runs -/

theorem InflightOk_head (P : Params) (σ : St) (ops : List Op) (h : InflightOk P σ ops = true) : σ.snd.inflight.length < 2^31 := by
  cases ops with
  | nil => simpa [InflightOk] using h
  | cons op ops => simp only [InflightOk, Bool.and_eq_true, decide_eq_true_eq] at h; exact h.1

theorem Inv.runOps {P : Params} (ops : List Op) :
    ∀ {σ : St} {mv : List Sender.Chunk} {G : List (BitVec 32)} {a : Nat} {R : RecvQ.St},
    Inv P σ mv G a R → SackSound P σ ops = true → InflightOk P σ ops = true → (mv ++ moved P σ ops).length < 2^31 →
    ∃ a' R', Inv P (run P σ ops) (mv ++ moved P σ ops) (G ++ pushed P σ ops) a' R' := by
  induction ops with
  | nil => intro σ mv G a R h _ _ _; exact ⟨a, R, by simpa [run, moved, pushed] using h⟩
  | cons op ops ih =>
    intro σ mv G a R h hs hi hN
    simp only [SackSound, Bool.and_eq_true] at hs
    simp only [InflightOk, Bool.and_eq_true, decide_eq_true_eq] at hi
    simp only [moved, ← List.append_assoc] at hN
    obtain ⟨a1, R1, h1⟩ := h.opStep op hs.1 (by rw [List.length_append] at hN; omega) (InflightOk_head P _ ops hi.2)
    obtain ⟨a2, R2, h2⟩ := ih h1 hs.2 hi.2 hN
    simp only [run, moved, pushed, ← List.append_assoc]
    exact ⟨a2, R2, h2⟩

theorem run_append (P : Params) (s : St) (o1 o2 : List Op) : run P s (o1 ++ o2) = run P (run P s o1) o2 := by
  induction o1 generalizing s with
  | nil => rfl
  | cons op o1 ih => simp only [List.cons_append, run]; exact ih _

theorem moved_append (P : Params) (s : St) (o1 o2 : List Op) : moved P s (o1 ++ o2) = moved P s o1 ++ moved P (run P s o1) o2 := by
  induction o1 generalizing s with
  | nil => rfl
  | cons op o1 ih => simp only [List.cons_append, moved, run, ih, List.append_assoc]

theorem pushed_append (P : Params) (s : St) (o1 o2 : List Op) : pushed P s (o1 ++ o2) = pushed P s o1 ++ pushed P (run P s o1) o2 := by
  induction o1 generalizing s with
  | nil => rfl
  | cons op o1 ih => simp only [List.cons_append, pushed, run, ih, List.append_assoc]

theorem SackSound_append (P : Params) (s : St) (o1 o2 : List Op) :
    SackSound P s (o1 ++ o2) = (SackSound P s o1 && SackSound P (run P s o1) o2) := by
  induction o1 generalizing s with
  | nil => simp [SackSound, run]
  | cons op o1 ih => simp only [List.cons_append, SackSound, run, ih, Bool.and_assoc]

theorem InflightOk_take (P : Params) (s : St) (o1 o2 : List Op) (h : InflightOk P s (o1 ++ o2) = true) :
    InflightOk P s o1 = true ∧ InflightOk P (run P s o1) o2 = true := by
  induction o1 generalizing s with
  | nil => exact ⟨by simpa [InflightOk] using InflightOk_head P s o2 h, h⟩
  | cons op o1 ih =>
    simp only [List.cons_append, InflightOk, Bool.and_eq_true, decide_eq_true_eq] at h ⊢
    exact ⟨⟨h.1, (ih _ h.2).1⟩, (ih _ h.2).2⟩

end NetSysPR
