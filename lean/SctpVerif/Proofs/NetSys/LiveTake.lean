import SctpVerif.Proofs.NetSys.LiveRcv
import SctpVerif.Proofs.NetSys.LiveDefs
import SctpVerif.Proofs.Receiver.Credit
import SctpVerif.Proofs.Receiver.Streams
/-!
Receiver half of the `Taken` argument (`Props/C02net.lean`): an established receiver that is handed the DATA chunk with
TSN = cumulative point + 1 moves its cumulative point forward — it stores the chunk when it has credit, and at a FULL
buffer when something is held above the cumulative point (the chunk then lies below the highest TSN received: the
zero-window admission rule of `acceptPayloadData`, `C11_zero_window_admission`) — unless the reassembly queue refuses the
chunk, in which case the ABORT flag or the panic flag is up afterwards. `Room r` is exactly "credit, or something held above".
-/
namespace NetSysLive
open Gen RecvQ Receiver NetSys

/-- popping everything poppable moves the cumulative point by at least one when offset 1 is held -/
theorem popAllQ_pops {t0 : RecvQ.TSN} {M : Nat} (hM : M < 2^31) {q : Q} (h : QB t0 M q) (h1 : heldAt q 1) :
    idx t0 q + 1 ≤ idx t0 (popAllQ q) := by
  unfold popAllQ popAllS
  have hs : q.size ≠ 0 := heldAt_size h.inv h1
  have hn := h.inv.size_nonneg
  obtain ⟨n, hn'⟩ : ∃ n, q.size.toNat = n + 1 := ⟨q.size.toNat - 1, by omega⟩
  show idx t0 q + 1 ≤ idx t0 (popLoopS q.size.toNat ⟨q, _⟩).q
  rw [hn']
  simp only [popLoopS]
  have hh : held q (q.cum + 1) := by
    rw [held_iff_heldAt, off_one]; exact h1
  have hok : (pop q false).2 = true := by rw [pop_ok]; exact (hasChunk_iff h.inv _).mpr hh
  simp only [hok, if_true]
  have hq : (sPop ⟨q, ⟨0, 0, fun _ => False, fun _ => False⟩⟩ false).q = popped q := by
    show (pop q false).1 = _
    rw [pop_state, (hasChunk_iff h.inv _).mpr hh]; rfl
  have hle := h.held 1 h1
  have hi : idx t0 (popped q) = idx t0 q + 1 := popped_idx (by omega)
  have hb : QB t0 M (sPop ⟨q, ⟨0, 0, fun _ => False, fun _ => False⟩⟩ false).q := by
    rw [hq]
    refine ⟨popped_inv h.inv hh, by omega, ?_⟩
    intro d hd
    have := h.held (d + 1) ((popped_heldAt h.inv hh d hd.1).mp hd)
    omega
  have := (popLoopS_qb hM n _ hb).2
  rw [hq] at this
  omega

theorem pushToStream_false (s : Receiver.St) (c : Reasm.Chunk) (x : Receiver.Stream) (hx : getS s.streams c.si = some x)
    (h : (pushToStream s c).2 = false) : (pushToStream s c).1.willSendAbort = true ∨ (pushToStream s c).1.panicked = true := by
  unfold pushToStream at h ⊢
  simp only [hx] at h ⊢
  split at h
  · cases h
  · right; simp_all
  · left; simp_all [abortPV]

/-- if `acceptPayloadData` was to store the chunk (`stores`) and reports failure, the ABORT or the panic flag is up -/
theorem accept_false (s : Receiver.St) (c : Reasm.Chunk) (hst : stores s c = true) (h : (acceptPayloadData s c).2 = false) :
    (acceptPayloadData s c).1.willSendAbort = true ∨ (acceptPayloadData s c).1.panicked = true := by
  unfold stores at hst
  unfold acceptPayloadData at h ⊢
  rcases hgo : getOrCreateStream s c.si true with ⟨s', o⟩
  rw [hgo] at hst
  cases o with
  | none => simp at hst
  | some x =>
    obtain ⟨y, hy⟩ := getOrCreateStream_some s c.si true x (by rw [hgo])
    rw [hgo] at hy
    simp only [hgo] at h ⊢
    simp only at hst hy
    by_cases hc : accept_hasCredit (credit s') = true
    · simp only [hc, if_true] at h ⊢
      exact pushToStream_false s' c y hy h
    · have hc' : accept_hasCredit (credit s') = false := by simpa using hc
      simp only [hc', Bool.false_eq_true, if_false, Bool.false_or, Bool.not_eq_true'] at h hst ⊢
      simp only [hst, Bool.false_eq_true, if_false] at h ⊢
      exact pushToStream_false s' c y hy h

/-- ✱ **the receiver takes the chunk right after its cumulative point** -/
theorem handleData_takes {t0 : RecvQ.TSN} {M : Nat} (hM : M < 2^31) (r : Receiver.St) (c : Reasm.Chunk) (imm : Bool)
    (hq : QB t0 M r.pq) (hb : Below t0 M c.tsn)
    (hst : r.state = 3#32) (hscp : r.scp = false) (hkind : c.iData = r.il)
    (htsn : c.tsn = r.pq.cum + 1) (hmo : 1 ≤ r.pq.maxOff.toNat) (hmo2 : r.pq.maxOff.toNat < 2^16)
    (hstream : (getOrCreateStream r c.si true).2.isSome = true) (hroom : Room r = true) :
    (handleData r c imm).willSendAbort = true ∨ (handleData r c imm).panicked = true ∨
      idx t0 r.pq + 1 ≤ idx t0 (handleData r c imm).pq := by
  have I := hq.inv
  have hcan : data_canHandle r.scp r.state = true := by rw [hscp, hst]; rfl
  have hwk : data_wrongKind c.iData r.il = false := by simp [data_wrongKind, hkind]
  by_cases hh : hasChunk r.pq (r.pq.cum + 1) = true
  · -- already held (not yet popped): the pop loop of this chunk's handling takes it
    right; right
    have h1 : heldAt r.pq 1 := by
      have := (hasChunk_iff I _).mp hh
      rwa [held_iff_heldAt, off_one] at this
    have hcp : canPush r.pq c.tsn = false := by
      unfold canPush; rw [htsn, hh]; rfl
    rw [handleData_pq]
    have htr : dataTrace r c = [.data c.tsn false] := by
      simp [dataTrace, hcan, hwk, hcp]
    rw [htr, qrun_data]
    simp only [Bool.and_false, Bool.false_eq_true, if_false]
    exact popAllQ_pops hM hq h1
  · have hh' : hasChunk r.pq (r.pq.cum + 1) = false := by simpa using hh
    have hnh : ¬ held r.pq (r.pq.cum + 1) := by
      intro hx; rw [(hasChunk_iff I _).mpr hx] at hh'; cases hh'
    have hadm : admissible r.pq c.tsn := by
      rw [htsn, admissible_small (by omega), off_one]; omega
    have hcp : canPush r.pq c.tsn = true := by
      rw [canPush_iff I]; exact ⟨hadm, by rw [htsn]; exact hnh⟩
    -- it is stored: credit, or something held above (then it lies below the highest TSN received)
    have hsto : stores r c = true := by
      rw [stores_iff]
      refine ⟨hstream, ?_⟩
      simp only [Room, Bool.or_eq_true, decide_eq_true_eq] at hroom
      rcases hroom with hc | hs
      · left
        simp only [accept_hasCredit, decide_eq_true_eq] at hc
        exact BitVec.lt_def.mp hc
      · right
        refine ⟨r.pq.tail, by simp [lastTSN, hs], ?_⟩
        have hd1 := I.dtail_pos hs
        have hd2 := I.hb.2
        have hne : dtail r.pq ≠ 1 := by
          intro h1
          apply hnh
          have ht : r.pq.tail = r.pq.cum + 1 := by
            unfold dtail at h1; bv_omega
          refine ⟨by rw [off_one]; omega, by rw [off_one]; omega, ?_⟩
          rw [← ht]; exact I.ht1 hs
        unfold dtail at hd1 hd2 hne
        rw [htsn]
        simp only [sna32LT, Bool.or_eq_true, Bool.and_eq_true, decide_eq_true_eq]
        bv_omega
    by_cases hcont : (acceptPayloadData r c).2 = true
    · right; right
      rw [handleData_pq]
      have htr : dataTrace r c = [.data c.tsn true] := by
        simp [dataTrace, hcan, hwk, hcp, hsto, hcont]
      rw [htr, qrun_data]
      simp only [hcp, Bool.and_self, if_true]
      have hpush : (push r.pq c.tsn).2 = true := by rw [← canPush_eq_push]; exact hcp
      have hqb := push_qb hq hM c.tsn hb
      have h1 : heldAt (push r.pq c.tsn).1 1 := by
        rw [push_heldAt I c.tsn hpush]
        right; rw [htsn, off_one]
      have := popAllQ_pops hM hqb h1
      have e : idx t0 (push r.pq c.tsn).1 = idx t0 r.pq := by unfold idx; rw [push_cum]
      omega
    · have hcont' : (acceptPayloadData r c).2 = false := by simpa using hcont
      have hfl := accept_false r c hsto hcont'
      have he : handleData r c imm = (acceptPayloadData r c).1 := by
        have hcan3 : data_canHandle r.scp (3#32) = true := by rw [← hst]; exact hcan
        unfold handleData
        simp [hcan3, hwk, hcp, hcont', hst]
      rw [he]
      rcases hfl with h | h
      · exact Or.inl h
      · exact Or.inr (Or.inl h)

end NetSysLive
