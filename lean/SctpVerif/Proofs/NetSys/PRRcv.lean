import SctpVerif.Proofs.Receiver.Prefix
import SctpVerif.Proofs.Sna
/-!
Receiver half of the FORWARD-TSN composition (`Props/C07net.lean`): the receive half of the association next to the
ghost-instrumented receive queue (`RecvQ.St`: which absolute TSN indices were accepted, which were skipped).
For ANY inbound DATA chunk whose TSN is `t0 + j` with `j < N` and any FORWARD-TSN whose new cumulative TSN `t0 + n`
covers, above the receiver's cumulative point, only offsets with the property `Ab`:
every accepted index was handed to a reassembly queue (`pushes`), every skipped index has `Ab`.
-/
namespace ReceiverPR
open Receiver Gen

/-- `G`: the TSNs of the chunks `handleData` handed to `pushPayloadDataToStream`; `N`: TSNs assigned by the peer;
`Ab j`: the chunk with TSN `t0 + j` is abandoned by the peer -/
structure RInv (t0 : BitVec 32) (s : St) (R : RecvQ.St) (N : Nat) (Ab : Nat → Prop) (G : List (BitVec 32)) : Prop where
  pq : s.pq = R.q
  ginv : RecvQ.GInv R
  c0 : R.h.c0 = t0 - 1
  moff : R.q.maxOff.toNat ≤ 40000
  acc : ∀ k, R.h.acc k → 1 ≤ k ∧ k ≤ N ∧ (t0 + BitVec.ofNat 32 (k - 1)) ∈ G
  skp : ∀ k, R.h.skp k → 1 ≤ k ∧ k ≤ N ∧ Ab (k - 1)

theorem RInv.A_le {t0 s R N Ab G} (h : RInv t0 s R N Ab G) : R.h.A ≤ N := by
  rcases Nat.eq_zero_or_pos R.h.A with h0 | hp
  · omega
  · rcases h.ginv.hS1 R.h.A hp (Nat.le_refl _) with h' | h'
    · exact (h.acc _ h').2.1
    · exact (h.skp _ h').2.1

/-- everything at or below the cumulative point was handed over or is abandoned -/
theorem RInv.below {t0 s R N Ab G} (h : RInv t0 s R N Ab G) (j : Nat) (hj : j < R.h.A) :
    (t0 + BitVec.ofNat 32 j) ∈ G ∨ Ab j := by
  rcases h.ginv.hS1 (j + 1) (by omega) (by omega) with h' | h'
  · left; simpa using (h.acc _ h').2.2
  · right; simpa using (h.skp _ h').2.2

theorem RInv.mono {t0 s R N Ab G} (h : RInv t0 s R N Ab G) {N' : Nat} {Ab' : Nat → Prop} {G' : List (BitVec 32)}
    (hN : N ≤ N') (hAb : ∀ j, j < N → Ab j → Ab' j) (hG : ∀ x ∈ G, x ∈ G') : RInv t0 s R N' Ab' G' :=
  ⟨h.pq, h.ginv, h.c0, h.moff, fun k hk => ⟨(h.acc k hk).1, by have := (h.acc k hk).2.1; omega, hG _ (h.acc k hk).2.2⟩,
   fun k hk => ⟨(h.skp k hk).1, by have := (h.skp k hk).2.1; omega,
     hAb _ (by have := (h.skp k hk).1; have := (h.skp k hk).2.1; omega) (h.skp k hk).2.2⟩⟩

/-- a change of the association that leaves the receive queue alone -/
theorem RInv.same_pq {t0 s R N Ab G} (h : RInv t0 s R N Ab G) (s' : St) (hpq : s'.pq = s.pq) : RInv t0 s' R N Ab G :=
  ⟨hpq.trans h.pq, h.ginv, h.c0, h.moff, h.acc, h.skp⟩

/-- the cumulative point as a count -/
theorem RInv.cum {t0 s R N Ab G} (h : RInv t0 s R N Ab G) : R.q.cum = t0 - 1 + BitVec.ofNat 32 R.h.A := by
  rw [h.ginv.hcum, h.c0]

/-- a chunk with TSN `t0 + j`, `j < N`, that `canPush` admits has absolute index `j + 1` -/
theorem RInv.index {t0 s R N Ab G} (h : RInv t0 s R N Ab G) (hN : N < 2^31) (tsn : TSN) (j : Nat) (hj : j < N)
    (htsn : tsn = t0 + BitVec.ofNat 32 j) (hcp : RecvQ.canPush R.q tsn = true) :
    R.h.A + (tsn - R.q.cum).toNat = j + 1 := by
  have hA := h.A_le
  obtain ⟨hadm, _⟩ := (RecvQ.canPush_iff h.ginv.inv tsn).mp hcp
  have hm := h.moff
  have hsm := (RecvQ.admissible_small (q := R.q) (by omega) tsn).mp hadm
  have hcum := h.cum
  have e1 : (BitVec.ofNat 32 j).toNat = j := by simp; omega
  have e2 : (BitVec.ofNat 32 R.h.A).toNat = R.h.A := by simp; omega
  have h1 := hsm.1
  have h2 : (tsn - R.q.cum).toNat ≤ 40000 := by have := hsm.2; omega
  rw [htsn, hcum] at h1 h2 ⊢
  generalize BitVec.ofNat 32 j = x at e1 h1 h2 ⊢
  generalize BitVec.ofNat 32 R.h.A = y at e2 h1 h2 ⊢
  bv_omega

/-- ✱ a DATA chunk: if it is handed to its stream (`pushes`) its TSN joins `G`; the skipped set does not change -/
theorem RInv.data {t0 s R N Ab G} (h : RInv t0 s R N Ab G) (hN : N < 2^31) (c : Reasm.Chunk) (imm : Bool) (j : Nat)
    (hj : j < N) (htsn : c.tsn = t0 + BitVec.ofNat 32 j) :
    RInv t0 (handleChunk s (.data c imm)) (RecvQ.run R (chunkTrace s (.data c imm))) N Ab
      (G ++ (if pushes s c then [c.tsn] else [])) := by
  have hpq' : (handleChunk s (.data c imm)).pq = (RecvQ.run R (chunkTrace s (.data c imm))).q := by
    rw [handleChunk_pq, run_R_q R s.pq h.pq]
  have hg := RecvQ.run_ginv h.ginv (chunkTrace s (.data c imm))
  have hmo : (RecvQ.run R (chunkTrace s (.data c imm))).q.maxOff = R.q.maxOff := RecvQ.run_maxOff R _
  have same : chunkTrace s (.data c imm) = [] ∨ chunkTrace s (.data c imm) = [.data c.tsn false] →
      RInv t0 (handleChunk s (.data c imm)) (RecvQ.run R (chunkTrace s (.data c imm))) N Ab (G ++ (if pushes s c then [c.tsn] else [])) := by
    intro htr
    have hgh : (RecvQ.run R (chunkTrace s (.data c imm))).h.c0 = R.h.c0 ∧
        (∀ k, (RecvQ.run R (chunkTrace s (.data c imm))).h.skp k ↔ R.h.skp k) ∧
        (∀ k, (RecvQ.run R (chunkTrace s (.data c imm))).h.acc k ↔ R.h.acc k) := by
      rcases htr with htr | htr
      · rw [htr]; exact ⟨rfl, fun _ => Iff.rfl, fun _ => Iff.rfl⟩
      · rw [htr, run_single]
        obtain ⟨a, b, c'⟩ := sData_ghost R c.tsn false
        refine ⟨a, b, fun k => ?_⟩
        have := c' k
        simpa [RecvQ.step] using this
    exact ⟨hpq', hg, hgh.1.trans h.c0, by rw [hmo]; exact h.moff,
      fun k hk => by
        obtain ⟨a1, a2, a3⟩ := h.acc k ((hgh.2.2 k).mp hk)
        exact ⟨a1, a2, List.mem_append_left _ a3⟩,
      fun k hk => h.skp k ((hgh.2.1 k).mp hk)⟩
  by_cases hne : c.userData = []
  · have e2 : chunkTrace s (.data c imm) = [] := by simp [chunkTrace, hne]
    exact same (Or.inl e2)
  · have hemp : c.userData.isEmpty = false := by simpa using hne
    have e2 : chunkTrace s (.data c imm) = dataTrace s c := by simp [chunkTrace, hemp]
    rcases dataTrace_cases s c hne with ⟨_, htr⟩ | ⟨hp, hcp, htr⟩
    · rw [← e2] at htr; exact same htr
    · have hcpR : RecvQ.canPush R.q c.tsn = true := by rw [← h.pq]; exact hcp
      have hidx := h.index hN c.tsn j hj htsn hcpR
      have hgh : (RecvQ.run R (dataTrace s c)).h.c0 = R.h.c0 ∧
          (∀ k, (RecvQ.run R (dataTrace s c)).h.skp k ↔ R.h.skp k) ∧
          (∀ k, (RecvQ.run R (dataTrace s c)).h.acc k ↔ (R.h.acc k ∨ k = j + 1)) := by
        rcases htr with htr | htr
        · rw [htr, run_single]
          obtain ⟨a, b, c'⟩ := sData_ghost R c.tsn true
          refine ⟨a, b, fun k => ?_⟩
          have := c' k
          simp only [RecvQ.step, hcpR, Bool.and_self, true_and, hidx] at this ⊢
          exact this
        · rw [htr, run_single]
          obtain ⟨a, b, c'⟩ := sPush_ghost R c.tsn hcpR
          refine ⟨a, b, fun k => ?_⟩
          have := c' k
          simp only [RecvQ.step, hidx] at this ⊢
          exact this
      rw [e2] at hpq' hg hmo ⊢
      refine ⟨hpq', hg, hgh.1.trans h.c0, by rw [hmo]; exact h.moff, ?_, fun k hk => h.skp k ((hgh.2.1 k).mp hk)⟩
      intro k hk
      rcases (hgh.2.2 k).mp hk with hk | rfl
      · obtain ⟨a1, a2, a3⟩ := h.acc k hk
        exact ⟨a1, a2, List.mem_append_left _ a3⟩
      · refine ⟨by omega, by omega, List.mem_append_right _ ?_⟩
        rw [hp]
        simp [htsn]

/-- ghost effect of a FORWARD-TSN that is not stale -/
theorem sFwd_ghost (R : RecvQ.St) (c : TSN) (h : sna32LTE c R.q.cum = false) :
    (RecvQ.sFwd R c).h.c0 = R.h.c0 ∧ (RecvQ.sFwd R c).h.acc = R.h.acc ∧
    ∀ k, (RecvQ.sFwd R c).h.skp k ↔
      (R.h.skp k ∨ (sna32LT R.q.cum c = true ∧ R.h.A < k ∧ k ≤ R.h.A + (c - R.q.cum).toNat)) := by
  unfold RecvQ.sFwd
  rw [if_neg (by simp [h])]
  unfold RecvQ.popAllS
  obtain ⟨a, b, c'⟩ := popLoopS_ghost (RecvQ.sAdv R c).q.size.toNat (RecvQ.sAdv R c)
  exact ⟨a, b, fun k => (c' k).trans (by simp [RecvQ.sAdv])⟩

/-- ✱ a FORWARD-TSN / I-FORWARD-TSN (any stream list): either the receive queue is left alone, or the cumulative point
moves to its new cumulative TSN and exactly the offsets in between join the skipped set — all of them have `Ab`
when the chunk covers, above the receiver's point, abandoned chunks only -/
theorem RInv.fwdStep {t0 s R N Ab G} (h : RInv t0 s R N Ab G) (hN : N < 2^31) (ch : InChunk) (nc : TSN)
    (htr : chunkTrace s ch = [] ∨ chunkTrace s ch = [.fwd nc])
    (hst : chunkTrace s ch = [.fwd nc] → sna32LTE nc s.pq.cum = false)
    (n : Nat) (hn : n < N) (hnc : nc = t0 + BitVec.ofNat 32 n) (hcov : ∀ j, j ≤ n → Ab j ∨ j < R.h.A) :
    RInv t0 (handleChunk s ch) (RecvQ.run R (chunkTrace s ch)) N Ab G := by
  have hpq' : (handleChunk s ch).pq = (RecvQ.run R (chunkTrace s ch)).q := by
    rw [handleChunk_pq, run_R_q R s.pq h.pq]
  have hg := RecvQ.run_ginv h.ginv (chunkTrace s ch)
  have hmo : (RecvQ.run R (chunkTrace s ch)).q.maxOff = R.q.maxOff := RecvQ.run_maxOff R _
  rcases htr with htr | htr
  · rw [htr] at hpq' ⊢
    exact ⟨hpq', h.ginv, h.c0, h.moff, h.acc, h.skp⟩
  · have hstale := hst htr
    rw [h.pq] at hstale
    rw [htr] at hpq' hg hmo ⊢
    rw [run_single] at hpq' hg hmo ⊢
    obtain ⟨g1, g2, g3⟩ := sFwd_ghost R nc hstale
    have hA := h.A_le
    have hcum := h.cum
    refine ⟨hpq', hg, g1.trans h.c0, by rw [hmo]; exact h.moff, ?_, ?_⟩
    · intro k hk
      have : (RecvQ.step R (.fwd nc)).h.acc = R.h.acc := g2
      rw [this] at hk
      exact h.acc k hk
    · intro k hk
      rcases (g3 k).mp hk with hk | ⟨_, hk1, hk2⟩
      · exact h.skp k hk
      · -- the distance the point moves
        have hdist : R.h.A + (nc - R.q.cum).toNat = n + 1 := by
          have hs : ¬ ((R.q.cum - nc).toNat < 2^31) := fun hh => by
            have := (Sna.lte32_iff nc R.q.cum).2 hh; rw [hstale] at this; cases this
          have e1 : (BitVec.ofNat 32 n).toNat = n := by simp; omega
          have e2 : (BitVec.ofNat 32 R.h.A).toNat = R.h.A := by simp; omega
          rw [hnc, hcum] at hs ⊢
          generalize BitVec.ofNat 32 n = x at e1 hs ⊢
          generalize BitVec.ofNat 32 R.h.A = y at e2 hs ⊢
          bv_omega
        refine ⟨by omega, by omega, ?_⟩
        rcases hcov (k - 1) (by omega) with hab | hlt
        · exact hab
        · omega

/-- ✱ at the moment a FORWARD-TSN is taken, every offset it covers was handed over or has `Ab` -/
theorem RInv.take {t0 s R N Ab G} (h : RInv t0 s R N Ab G) (n : Nat) (hcov : ∀ j, j ≤ n → Ab j ∨ j < R.h.A) :
    ∀ j, j ≤ n → (t0 + BitVec.ofNat 32 j) ∈ G ∨ Ab j := by
  intro j hj
  rcases hcov j hj with hab | hlt
  · exact Or.inr hab
  · exact h.below j hlt

/-- the receiver operations that are not packets leave the ghost sets and the cumulative point alone -/
theorem RInv.other {t0 s R N Ab G} (h : RInv t0 s R N Ab G) (op : Op) (hop : ∀ cs, op ≠ .pkt cs) :
    RInv t0 (step s op) (RecvQ.run R (opTrace s op)) N Ab G ∧ (RecvQ.run R (opTrace s op)).h = R.h := by
  have hpq' : (step s op).pq = (RecvQ.run R (opTrace s op)).q := by rw [step_pq, run_R_q R s.pq h.pq]
  have hgh : (RecvQ.run R (opTrace s op)).h = R.h := by
    cases op with
    | pkt cs => exact absurd rfl (hop cs)
    | gather => simp only [opTrace]; split <;> rfl
    | _ => rfl
  refine ⟨⟨hpq', RecvQ.run_ginv h.ginv _, by rw [hgh]; exact h.c0, by rw [RecvQ.run_maxOff]; exact h.moff, ?_, ?_⟩, hgh⟩
  · intro k hk; rw [hgh] at hk; exact h.acc k hk
  · intro k hk; rw [hgh] at hk; exact h.skp k hk

theorem RInv.init (t0 : BitVec 32) (maxBuf maxEntries : BitVec 32) (il f g : Bool) (am : Int) (N : Nat) (Ab : Nat → Prop) :
    RInv t0 (Receiver.init maxBuf maxEntries il f g am t0) (RecvQ.start (getMaxTSNOffset maxBuf) (t0 - 1)) N Ab [] := by
  refine ⟨rfl, RecvQ.start_ginv _ _, rfl, ?_, ?_, ?_⟩
  · rw [RecvQ.start_maxOff]; exact RecvQ.round_le _ (RecvQ.getMaxTSNOffset_le maxBuf)
  · intro k hk; simp [RecvQ.start, RecvQ.sInit] at hk
  · intro k hk; simp [RecvQ.start, RecvQ.sInit] at hk

end ReceiverPR
