import SctpVerif.Proofs.NetSys.LiveGlue
/-!
`Honest ⇒ InSync` (`Props/C02net.lean`): along every NetSys run whose sender only processed SOUND SACKs (`soundSack`: the
cumulative TSN is not ahead of the receiver's cumulative point, every gap-acked TSN is at or below it or held), the sender's
cumulative ack point is not ahead of the receiver's cumulative point and every gap-acked in-flight chunk has really been
received (`HL`). Receiver side: "accepted stays accepted" (`Got` is kept by every queue operation); sender side: only a
processed SACK raises `acked` flags, and only on chunks named by its blocks (`LiveAcked.lean`).
-/
namespace NetSysLive
open Gen NetSys RecvQ

/-- TSN `t` has been accepted by the receive queue: at or below the cumulative point, or held above it (offsets counted
from `t0`) -/
def Got (t0 : RecvQ.TSN) (q : Q) (t : RecvQ.TSN) : Prop :=
  (t - (t0 - 1)).toNat ≤ idx t0 q ∨ heldAt q ((t - (t0 - 1)).toNat - idx t0 q)

theorem Got.dups {t0 : RecvQ.TSN} {q : Q} {t : RecvQ.TSN} (h : Got t0 q t) (l : List RecvQ.TSN) : Got t0 { q with dups := l } t := h

theorem push_got {t0 : RecvQ.TSN} {M : Nat} {q : Q} (hq : QB t0 M q) (t' t : RecvQ.TSN) (h : Got t0 q t) : Got t0 (push q t').1 t := by
  cases hr : (push q t').2 with
  | false =>
    rcases push_reject t' hr with e | e
    · rw [e]; exact h
    · rw [e]; exact h.dups _
  | true =>
    have hi : idx t0 (push q t').1 = idx t0 q := by unfold idx; rw [push_cum]
    unfold Got at h ⊢
    rw [hi]
    rcases h with h | h
    · exact Or.inl h
    · exact Or.inr ((push_heldAt hq.inv t' hr _).mpr (Or.inl h))

theorem popLoopS_got {t0 : RecvQ.TSN} {M : Nat} (hM : M < 2^31) (t : RecvQ.TSN) (n : Nat) : ∀ (s : RecvQ.St), QB t0 M s.q →
    Got t0 s.q t → Got t0 (popLoopS n s).q t := by
  induction n with
  | zero => intro s _ h; exact h
  | succ n ih =>
    intro s hq h
    simp only [popLoopS]
    split
    · rename_i hok
      rw [pop_ok] at hok
      have hh := (hasChunk_iff hq.inv _).mp hok
      have hq' : (sPop s false).q = popped s.q := by
        show (pop s.q false).1 = _; rw [pop_state, hok]; rfl
      have h1 : heldAt s.q 1 := by
        have := (held_iff_heldAt (q := s.q) (s.q.cum + 1)).mp hh
        rwa [off_one] at this
      have hle := hq.held 1 h1
      have hi : idx t0 (popped s.q) = idx t0 s.q + 1 := popped_idx (by omega)
      have hb : QB t0 M (sPop s false).q := by
        rw [hq']
        refine ⟨popped_inv hq.inv hh, by omega, ?_⟩
        intro d hd
        have := hq.held (d + 1) ((popped_heldAt hq.inv hh d hd.1).mp hd)
        omega
      apply ih (sPop s false) hb
      rw [hq']
      unfold Got at h ⊢
      rw [hi]
      rcases h with h | h
      · left; omega
      · have hd1 := h.1
        by_cases hd : (t - (t0 - 1)).toNat - idx t0 s.q = 1
        · left; omega
        · right
          have e : (t - (t0 - 1)).toNat - (idx t0 s.q + 1) + 1 = (t - (t0 - 1)).toNat - idx t0 s.q := by omega
          apply (popped_heldAt hq.inv hh _ (by omega)).mpr
          rw [e]; exact h
    · exact h

theorem qrun_got {t0 : RecvQ.TSN} {M : Nat} (hM : M < 2^31) (t : RecvQ.TSN) (ops : List RecvQ.Op) : ∀ {q : Q}, QB t0 M q →
    OpsBelow t0 M ops → Got t0 q t → Got t0 (Receiver.qrun q ops) t := by
  induction ops with
  | nil => intro q _ _ h; exact h
  | cons op ops ih =>
    intro q hq ho h
    have e : op :: ops = [op] ++ ops := rfl
    rw [e, Receiver.qrun_append]
    have hq1 : QB t0 M (Receiver.qrun q [op]) := (qrun_qb hM [op] hq (fun o hoo => ho o (by simpa using Or.inl (List.mem_singleton.mp hoo)))).1
    apply ih hq1 (fun o hoo => ho o (List.mem_cons_of_mem _ hoo))
    rcases ho op (by simp) with ⟨t', st, rfl, hb⟩ | ⟨t', rfl, hb⟩ | rfl
    · rw [Receiver.qrun_data]
      unfold Receiver.popAllQ popAllS
      split
      · exact popLoopS_got hM t _ _ (push_qb hq hM t' hb) (push_got hq t' t h)
      · exact popLoopS_got hM t _ _ hq h
    · rw [Receiver.qrun_push]; exact push_got hq t' t h
    · rw [Receiver.qrun_single q ⟨0, 0, fun _ => False, fun _ => False⟩]; exact h.dups _

theorem opTrace_below {t0 : RecvQ.TSN} {M : Nat} (r : Receiver.St) (o : Receiver.Op)
    (hop : ∀ cs, o = .pkt cs → PktBelow t0 M cs) : OpsBelow t0 M (Receiver.opTrace r o) := by
  by_cases hp : ∃ cs, o = .pkt cs
  · obtain ⟨cs, rfl⟩ := hp
    exact chunksTrace_below cs _ (hop cs rfl)
  · exact opTrace_nopkt r o (fun cs e => hp ⟨cs, e⟩)

/-- ✱ accepted stays accepted: a NetSys step keeps `Got` -/
theorem step_rcv_got (P : Params) (ops : List NetSys.Op) (op : NetSys.Op) (M : Nat) (hM : M < 2^31) (hle : tsnsUsed P ops ≤ M)
    (hq : QB P.tsn M (run P (init P) ops).rcv.pq) (t : RecvQ.TSN) (h : Got P.tsn (run P (init P) ops).rcv.pq t) :
    Got P.tsn (step P (run P (init P) ops) op).rcv.pq t := by
  rw [step_rcv]
  cases hs : sndOp P (run P (init P) ops).snd op with
  | some o => exact h
  | none =>
    cases hr : rcvOp P (run P (init P) ops).wire op with
    | none => exact h
    | some o =>
      simp only
      rw [Receiver.step_pq]
      apply qrun_got hM t _ hq _ h
      apply opTrace_below
      intro cs hcs
      subst hcs
      obtain ⟨is, rfl⟩ := rcvOp_pkt P _ op _ hr
      intro ch hch
      obtain ⟨c, hc, imm, rfl⟩ := packetOf_mem P _ is ch hch
      refine ⟨toWire P c, imm, rfl, ?_⟩
      obtain ⟨j, hj, e⟩ := wire_below P ops c hc
      exact ⟨j, by omega, e⟩

/-! ### the sender side -/

open Sender SenderProofs in
/-- the acked chunks after the two loops of `processSelectiveAck`: acked before, or named by a gap block -/
theorem ackPhase_acked {s : Sender.St} {cum : BitVec 32} {gaps : List (BitVec 16 × BitVec 16)} {r : Sender.St × BitVec 32 × Bool}
    (hseq : Seq s) (h : ackPhase s cum gaps = some r) :
    ∀ c' ∈ r.1.inflight, c'.acked = true → (∃ c ∈ s.inflight, c.tsn = c'.tsn ∧ c.acked = true) ∨
      ∃ g ∈ gaps, ∃ j, g.1.toNat ≤ j ∧ j ≤ g.2.toNat ∧ c'.tsn = cum + BitVec.ofNat 32 j := by
  unfold ackPhase at h
  split at h
  · cases h
  · rename_i qa hp
    split at h
    · cases h
    · rename_i g hg
      simp only [Option.some.injEq] at h
      subst h
      obtain ⟨k, _, hq⟩ := popCum_drop _ _ _ _ _ hp
      have hc : Contig qa.1 (s.cumAck + 1 + BitVec.ofNat 32 k) := by rw [hq]; exact contig_drop _ _ k hseq.1
      intro c' hc' ha
      rw [ackApply_inflight] at hc'
      rcases markGaps_acked _ cum gaps _ hc hg c' hc' ha with ⟨c, hcm, e, ac⟩ | hgap
      · left
        simp only at hcm
        rw [hq] at hcm
        exact ⟨c, List.mem_of_mem_drop hcm, e, ac⟩
      · exact Or.inr hgap

open Sender SenderProofs in
theorem write_cumAck (s : Sender.St) (si : BitVec 16) (ppi : BitVec 32) (len : Nat) : (write s si ppi len).1.cumAck = s.cumAck := by
  unfold write
  repeat' split
  all_goals simp [setStream, pushPending]

open Sender SenderProofs in
/-- a sender operation other than a SACK keeps the cumulative ack point and raises no `acked` flag -/
theorem step_nosack (s : Sender.St) (o : Sender.Op) (hno : ∀ a b c d, o ≠ .sack a b c d)
    (hp : ∀ c ∈ s.pending, c.acked = false) :
    (Sender.step s o).cumAck = s.cumAck ∧ AckedFrom s.inflight (Sender.step s o).inflight := by
  cases o with
  | openS si u rt rv th => exact ⟨rfl, AckedFrom.refl _⟩
  | unreg si =>
    simp only [Sender.step, unregister]
    split <;> exact ⟨rfl, AckedFrom.refl _⟩
  | setEstablished b => exact ⟨rfl, AckedFrom.refl _⟩
  | write si ppi len =>
    refine ⟨write_cumAck s si ppi len, ?_⟩
    simp only [Sender.step]
    rw [(write_frame s si ppi len).2.2.2.2.2.2.1]
    exact AckedFrom.refl _
  | gather orc sel => exact ⟨(gather_grel s orc sel).2.2.2.1, gather_ackedFrom s orc sel hp⟩
  | sack a b c d => exact absurd rfl (hno a b c d)
  | t3 =>
    have f := (t3_frame s).1
    exact ⟨f.2.2.2.2.2.2.2.2.2.2.2.1, AckedFrom.of_core f.2.2.2.2.2.2.2.2.2.2.2.2.2⟩
  | tick ms n marks =>
    have h1 : SameAcct s { s with now := s.now + ms } := ⟨rfl, rfl, rfl, rfl, rfl, rfl, rfl, rfl, rfl, rfl, rfl, rfl, rfl, rfl⟩
    have f := SameAcct.trans h1 (SameAcct.trans (iter_t3_sameAcct n _) (applyMarks_frame _ marks).1)
    exact ⟨f.2.2.2.2.2.2.2.2.2.2.2.1, AckedFrom.of_core f.2.2.2.2.2.2.2.2.2.2.2.2.2⟩

/-! ### the invariant of honest runs -/

/-- the sender's cumulative ack point is not ahead of the receiver's cumulative point, and every gap-acked in-flight chunk
has been accepted by the receiver -/
structure HL (P : Params) (s : NetSys.St) : Prop where
  le : (s.snd.cumAck - (P.tsn - 1)).toNat ≤ idx P.tsn s.rcv.pq
  acked : ∀ c ∈ s.snd.inflight, c.acked = true → Got P.tsn s.rcv.pq c.tsn

theorem honest_snoc (P : Params) (o1 : List NetSys.Op) (op : NetSys.Op) : ∀ s,
    Honest P s (o1 ++ [op]) = (Honest P s o1 && HonestOp (NetSys.run P s o1) op) := by
  induction o1 with
  | nil => intro s; simp [Honest, NetSys.run]
  | cons o o1 ih => intro s; simp only [List.cons_append, Honest, NetSys.run, ih, Bool.and_assoc]

theorem soundSack_iff (q : Q) (cum : BitVec 32) (gaps : List (BitVec 16 × BitVec 16)) (h : soundSack q cum gaps = true) :
    sna32LTE cum q.cum = true ∧ ∀ g ∈ gaps, ∀ j, g.1.toNat ≤ j → j ≤ g.2.toNat →
      (sna32LTE (cum + BitVec.ofNat 32 j) q.cum = true ∨ hasChunk q (cum + BitVec.ofNat 32 j) = true) := by
  simp only [soundSack, Bool.and_eq_true, List.all_eq_true, Bool.or_eq_true] at h
  refine ⟨h.1, ?_⟩
  intro g hg j j1 j2
  exact h.2 g hg j (List.mem_range'_1.mpr ⟨j1, by omega⟩)

open Sender SenderProofs in
/-- a processed SOUND SACK keeps `HL` (the receiver does not move) -/
theorem sack_hl (P : Params) (ops : List NetSys.Op) (hc : CfgOk P.cfg) (hN : tsnsUsed P ops < 2^31)
    (hsm : (NetSys.run P (init P) ops).snd.inflight.length < 2^31)
    (cum arwnd : BitVec 32) (gaps : List (BitVec 16 × BitVec 16)) (marks : List (BitVec 32))
    (hs : soundSack (NetSys.run P (init P) ops).rcv.pq cum gaps = true) (h : HL P (NetSys.run P (init P) ops)) :
    (((sack (NetSys.run P (init P) ops).snd cum arwnd gaps marks).1.cumAck - (P.tsn - 1)).toNat ≤ idx P.tsn (NetSys.run P (init P) ops).rcv.pq) ∧
    ∀ c ∈ (sack (NetSys.run P (init P) ops).snd cum arwnd gaps marks).1.inflight, c.acked = true →
      Got P.tsn (NetSys.run P (init P) ops).rcv.pq c.tsn := by
  have hseq := snd_seq P ops hc
  have hqb := run_qb P ops hN
  have hidx := snd_idx P ops hc hN hsm
  have hcfg : (NetSys.run P (init P) ops).snd.cfg = P.cfg := by rw [snd_run]; exact run_cfg _ _ hc
  obtain ⟨hlte, hgaps⟩ := soundSack_iff _ _ _ hs
  obtain ⟨hle0, hack0⟩ := h
  generalize (NetSys.run P (init P) ops).snd = x at *
  generalize (NetSys.run P (init P) ops).rcv.pq = q at *
  generalize tsnsUsed P ops = M at *
  rcases sack_cases x cum arwnd gaps marks hseq hsm with ⟨_, _, he, _⟩ | ⟨hok, hest, hst, hv, r, hr, hrs, hcumr, hfin⟩
  · rw [he]; exact ⟨hle0, hack0⟩
  · have hrcfg : r.1.cfg = x.cfg := (ackPhase_win hr).1
    have hm' : (setPeerWindow r.1 arwnd).cfg.mtu.toNat < 2^30 := by
      show r.1.cfg.mtu.toNat < 2^30; rw [hrcfg, hcfg]; exact hc
    have f1 := (fastRetransCheck_frame (setPeerWindow r.1 arwnd) cum gaps r.2.1 r.2.2 hm').1
    have p1 := (prStep_frame (fastRetransCheck (setPeerWindow r.1 arwnd) cum gaps r.2.1 r.2.2).1).1
    have m1 := (applyMarks_frame (prStep (fastRetransCheck (setPeerWindow r.1 arwnd) cum gaps r.2.1 r.2.2).1) marks).1
    have hsame := SameAcct.trans f1 (SameAcct.trans p1 m1)
    rw [← hfin] at hsame
    have hca : (sack x cum arwnd gaps marks).1.cumAck = cum := by
      rw [hsame.2.2.2.2.2.2.2.2.2.2.2.1]; exact hcumr
    have hcore : (sack x cum arwnd gaps marks).1.inflight.map Chunk.core = r.1.inflight.map Chunk.core :=
      hsame.2.2.2.2.2.2.2.2.2.2.2.2.2
    obtain ⟨_, k, hk, hcumk, _⟩ := sack_ok_shape x cum arwnd gaps marks hseq hsm (by rw [hcfg]; exact hc) hest hst hv
    have hA := hqb.cumle
    unfold idx at hA ⊢
    have ek : (BitVec.ofNat 32 k).toNat = k := by simp [BitVec.toNat_ofNat]; omega
    have hlte' := (Sna.lte32_iff cum q.cum).mp hlte
    constructor
    · rw [hca]
      bv_omega
    · intro c' hc' ha
      obtain ⟨c, hcm, et, ac⟩ := AckedFrom.of_core hcore c' hc' ha
      rcases ackPhase_acked hseq hr c hcm ac with ⟨c0, h0, e0, a0⟩ | ⟨g, hg, j, j1, j2, ej⟩
      · have := hack0 c0 h0 a0
        rw [e0, et] at this; exact this
      · -- the chunk is one of the sender's in-flight chunks: its TSN is among the TSNs assigned
        obtain ⟨_, _, _, k2, hk2, hid⟩ := ackPhase_shape hr
        have hmem : Chunk.ident c ∈ (x.inflight.drop k2).map Chunk.ident := by
          rw [← hid]; exact List.mem_map_of_mem hcm
        obtain ⟨c1, hc1, e1⟩ := List.mem_map.mp hmem
        have hc1' : c1 ∈ x.inflight := List.mem_of_mem_drop hc1
        obtain ⟨i, hi, hci⟩ := List.mem_iff_getElem.mp hc1'
        have htsn1 := contig_getElem hseq.1 (show x.inflight[i]? = some c1 by rw [List.getElem?_eq_getElem hi, hci])
        have etsn : c1.tsn = c'.tsn := by
          have : c1.tsn = c.tsn := by
            have := congrArg Prod.fst e1
            simpa [Chunk.ident] using this
          rw [this, et]
        rw [etsn] at htsn1
        have ei : (BitVec.ofNat 32 i).toNat = i := by simp [BitVec.toNat_ofNat]; omega
        have hkt : (c'.tsn - (P.tsn - 1)).toNat = (x.cumAck - (P.tsn - 1)).toNat + 1 + i := by
          rw [htsn1]; bv_omega
        rw [et] at ej
        rcases hgaps g hg j j1 j2 with hl | hh
        · left
          rw [← ej] at hl
          have := (Sna.lte32_iff c'.tsn q.cum).mp hl
          unfold idx
          bv_omega
        · right
          rw [← ej] at hh
          have hheld := (hasChunk_iff hqb.inv _).mp hh
          rw [held_iff_heldAt] at hheld
          have hb := hqb.held _ hheld
          have hd1 := hheld.1
          unfold idx at hb ⊢
          have ed : (c'.tsn - (P.tsn - 1)).toNat - (q.cum - (P.tsn - 1)).toNat = (c'.tsn - q.cum).toNat := by
            bv_omega
          rw [ed]; exact hheld

open Sender SenderProofs in
/-- one step of an honest run keeps `HL` -/
theorem step_hl (P : Params) (o1 : List NetSys.Op) (op : NetSys.Op) (hc : CfgOk P.cfg) (hN : tsnsUsed P (o1 ++ [op]) < 2^31)
    (hsm : (NetSys.run P (init P) o1).snd.inflight.length < 2^31)
    (hop : HonestOp (NetSys.run P (init P) o1) op = true) (h : HL P (NetSys.run P (init P) o1)) :
    HL P (NetSys.run P (init P) (o1 ++ [op])) := by
  have hm := tsnsUsed_mono P o1 [op]
  have hN1 : tsnsUsed P o1 < 2^31 := by omega
  have hq := (run_qb P o1 hN1).mono hm
  rw [NetSys.run_append]
  show HL P (step P (NetSys.run P (init P) o1) op)
  cases hs : sndOp P (NetSys.run P (init P) o1).snd op with
  | none =>
    obtain ⟨e1, _⟩ := step_snd_none P _ op hs
    refine ⟨?_, ?_⟩
    · rw [e1]; exact Nat.le_trans h.le (step_rcv_qb P o1 op _ hN hm hq).2
    · rw [e1]; intro c hcm ha
      exact step_rcv_got P o1 op _ hN hm hq c.tsn (h.acked c hcm ha)
  | some o =>
    rw [step_snd_some P _ op o hs]
    by_cases hsk : ∃ a b c d, o = Sender.Op.sack a b c d
    · obtain ⟨a, b, c, d, rfl⟩ := hsk
      have hopeq : op = .snd (.sack a b c d) := by
        cases op with
        | write x y => simp [sndOp] at hs
        | snd so =>
          cases so with
          | write x y z => simp [sndOp] at hs
          | sack a' b' c' d' => simp only [sndOp, Option.some.injEq] at hs; rw [hs]
          | _ => simp [sndOp] at hs
        | deliver is => simp [sndOp] at hs
        | rcv ro => simp [sndOp] at hs
      subst hopeq
      obtain ⟨r1, r2⟩ := sack_hl P o1 hc hN1 hsm a b c d hop h
      exact ⟨r1, r2⟩
    · have hcore : Core (NetSys.run P (init P) o1).snd := by
        rw [snd_run]; exact run_core _ _ (init_books _ _ _).core (init_win _ _ _ hc)
      obtain ⟨r1, r2⟩ := step_nosack (NetSys.run P (init P) o1).snd o (fun a b c d e => hsk ⟨a, b, c, d, e⟩)
        (fun c hcm => (hcore.penSmall c hcm).2)
      refine ⟨?_, ?_⟩
      · show ((Sender.step _ o).cumAck - _).toNat ≤ _
        rw [r1]; exact h.le
      · intro c' hc' ha
        obtain ⟨c, hcm, et, ac⟩ := r2 c' hc' ha
        have := h.acked c hcm ac
        rw [et] at this; exact this

open Sender SenderProofs in
/-- ✱ **honest runs keep the two endpoints in step** -/
theorem run_hl (P : Params) (ops : List NetSys.Op) (hc : CfgOk P.cfg) (hN : tsnsUsed P ops < 2^31)
    (hts : TsnOk (Sender.init P.cfg P.tsn P.peerRwnd) (sndOps P (init P).snd ops))
    (hh : Honest P (init P) ops = true) : HL P (NetSys.run P (init P) ops) := by
  induction ops using List.reverseRecOn with
  | nil =>
    refine ⟨?_, ?_⟩
    · show ((Sender.init P.cfg P.tsn P.peerRwnd).cumAck - (P.tsn - 1)).toNat ≤ _
      simp [Sender.init]
    · intro c hcm
      have : c ∈ (Sender.init P.cfg P.tsn P.peerRwnd).inflight := hcm
      simp [Sender.init] at this
  | append_singleton o1 op ih =>
    rw [honest_snoc, Bool.and_eq_true] at hh
    have hm := tsnsUsed_mono P o1 [op]
    have hts1 : TsnOk (Sender.init P.cfg P.tsn P.peerRwnd) (sndOps P (init P).snd o1) := by
      rw [sndOps_append] at hts; exact hts.take
    have hsm : (NetSys.run P (init P) o1).snd.inflight.length < 2^31 := by
      rw [snd_run]; exact hts1.last
    exact step_hl P o1 op hc hN hsm hh.2 (ih (by omega) hts1 hh.1)

theorem not_gt_of_idx_le (b u v : BitVec 32) (h : (u - b).toNat ≤ (v - b).toNat) (hv : (v - b).toNat < 2^31) :
    sna32GT u v = false := by
  simp only [sna32GT, Bool.or_eq_false_iff, Bool.and_eq_false_iff, decide_eq_false_iff_not]
  constructor <;> bv_omega

open Sender SenderProofs in
/-- ✱ `HL` and a pop-normalised receive queue give `InSync` -/
theorem insync_of_hl (P : Params) (ops : List NetSys.Op) (hc : CfgOk P.cfg) (hN : tsnsUsed P ops < 2^31)
    (h : HL P (NetSys.run P (init P) ops))
    (hnorm : hasChunk (NetSys.run P (init P) ops).rcv.pq ((NetSys.run P (init P) ops).rcv.pq.cum + 1) = false) :
    InSync (NetSys.run P (init P) ops) = true := by
  have hqb := run_qb P ops hN
  have hseq := snd_seq P ops hc
  have hA := hqb.cumle
  simp only [InSync, Bool.and_eq_true, Bool.not_eq_true', Bool.or_eq_true, bne_iff_ne, ne_eq]
  refine ⟨not_gt_of_idx_le (P.tsn - 1) _ _ h.le (by unfold idx at hA; omega), ?_⟩
  by_cases heq : (NetSys.run P (init P) ops).snd.cumAck = (NetSys.run P (init P) ops).rcv.pq.cum
  · right
    cases hq : (NetSys.run P (init P) ops).snd.inflight with
    | nil => rfl
    | cons f rest =>
      simp only [List.head?_cons]
      cases hac : f.acked with
      | false => rfl
      | true =>
        exfalso
        have hf : f.tsn = (NetSys.run P (init P) ops).snd.cumAck + 1 := by
          have := hseq.1; rw [hq] at this; exact this.1
        have hg := h.acked f (by rw [hq]; simp) hac
        have hn1 : ¬ heldAt (NetSys.run P (init P) ops).rcv.pq 1 := (normalised_iff hqb.inv).mp hnorm
        unfold Got idx at hg
        unfold idx at hA
        rw [hf, heq] at hg
        have e : ((NetSys.run P (init P) ops).rcv.pq.cum + 1 - (P.tsn - 1)).toNat =
            ((NetSys.run P (init P) ops).rcv.pq.cum - (P.tsn - 1)).toNat + 1 := by bv_omega
        rw [e] at hg
        rcases hg with hg | hg
        · omega
        · have e2 : ((NetSys.run P (init P) ops).rcv.pq.cum - (P.tsn - 1)).toNat + 1 -
              ((NetSys.run P (init P) ops).rcv.pq.cum - (P.tsn - 1)).toNat = 1 := by omega
          rw [e2] at hg
          exact hn1 hg
  · exact Or.inl heq

end NetSysLive
