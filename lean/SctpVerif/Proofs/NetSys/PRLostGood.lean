import SctpVerif.Proofs.NetSys.PRUnivGood
import SctpVerif.Proofs.NetSys.PRTake
/-!
`hgood` of `C07_netsys_nothing_lost_partial` derived from decidable run predicates, and the writes of a NetSysPR run as the
message lists of its universe.
-/
namespace NetSysPR
open NetSys (Params Op toWire sndOp sndOps senderD sendersD UFacts)
open SenderProofs SenderTsn

theorem writes_eq (P : Params) (s : St) (ops : List Op) : writes P s ops = accepted s.snd (sndOps P s.snd ops) := by
  induction ops generalizing s with
  | nil => rfl
  | cons op ops ih =>
    simp only [writes, sndOps]
    rw [ih (step P s op)]
    cases h : sndOp P s.snd op with
    | some o =>
      have hst : (step P s op).snd = Sender.step s.snd o := by simp only [step, h]
      rw [hst]
      simp only [accepted]
      congr 1
      cases op with
      | write si ppi =>
        simp only [sndOp, Option.some.injEq] at h
        subst h
        rfl
      | snd so =>
        cases so with
        | write a b c => simp [sndOp] at h
        | _ => simp only [sndOp, Option.some.injEq] at h; subst h; rfl
      | deliver is => simp [sndOp] at h
      | rcv ro => simp [sndOp] at h
    | none =>
      have hst : (step P s op).snd = s.snd := by
        simp only [step, h]
        cases rcvOp P s.wire op <;> rfl
      rw [hst]
      cases op with
      | write si ppi => simp [sndOp] at h
      | _ => rfl

/-- the message list of the universe's stream `si` IS what the application wrote on `si` -/
theorem univ_writes {P : Params} {ops : List Op} {W : Nat} {wr : List Sender.Chunk}
    (h : UFacts P (accepted (init P).snd (sndOps P (init P).snd ops)) (SenderTsn.moved (init P).snd (sndOps P (init P).snd ops)) W wr) (si : BitVec 16) :
    (senderD P (accepted (init P).snd (sndOps P (init P).snd ops)) (SenderTsn.moved (init P).snd (sndOps P (init P).snd ops)) si).msgs.map Reasm.Msg.out =
      writesOn P si (init P) ops := by
  simp only [writesOn, writes_eq, senderD, NetSys.msgsOf, List.map_map]
  apply List.map_congr_left
  intro a ha
  have ha' := (List.mem_filter.1 ha).1
  simp only [Function.comp, Reasm.Msg.out, Reasm.Msg.payload, NetSys.cut_flatten _ _ (h.hfr a ha').2.2]

/-- ✱ `hgood`, derived: every history item any `deliver` of the run hands over is `GoodChunkS` for the universe of the run -/
theorem hgood_of_run (P : Params) (ops : List Op) (hifw : P.cfg.useIForwardTSN = false) (hok : RunOk P ops)
    {W : Nat} (h : UFacts P (accepted (init P).snd (sndOps P (init P).snd ops)) (SenderTsn.moved (init P).snd (sndOps P (init P).snd ops)) W
      (wire (init P).snd (sndOps P (init P).snd ops))) (si : BitVec 16) :
    ∀ o1 is o2, ops = o1 ++ Op.deliver is :: o2 → ∀ x ∈ pick (run P (init P) o1).wire is,
      Receiver.GoodChunkS (univOf h si) (senderD P (accepted (init P).snd (sndOps P (init P).snd ops)) (SenderTsn.moved (init P).snd (sndOps P (init P).snd ops)) si) (inChunk P x.1 x.2) := by
  intro o1 is o2 he x hx
  have hmem := pick_mem _ _ x hx
  obtain ⟨it, imm⟩ := x
  cases it with
  | data c =>
    have hc := wire_prefix_sub P o1 (Op.deliver is :: o2) c hmem
    rw [← he] at hc
    exact good_data h si c hc imm
  | fwd f =>
    have hok1 : RunOk P o1 := by rw [he] at hok; exact hok.take
    obtain ⟨_, n, c1, c2, _, _⟩ := skip_safe_idx P o1 hok1 [] (by simp) f hmem
    have hn : n < W := by
      have h1 : (moved P (init P) o1).length ≤ (moved P (init P) ops).length := by
        rw [he, moved_append, List.length_append]; omega
      have h2 := h.mvW
      have h3 : (moved P (init P) ops).length = (SenderTsn.moved (init P).snd (sndOps P (init P).snd ops)).length := by rw [moved_eq]
      omega
    rcases (run_snd P (init P) o1).2.2 f hmem with h0 | h0 | ⟨nc, es, rfl⟩
    · simp [init] at h0
    · rw [(run_snd P (init P) o1).1, run_cfg_all] at h0
      have : (init P).snd.cfg = P.cfg := rfl
      rw [this, hifw] at h0; cases h0
    · right
      exact ⟨nc, es, n, rfl, hn, c1⟩

end NetSysPR
