import SctpVerif.Proofs.Receiver.Sack
import SctpVerif.Proofs.RecvQ
/-!
Receive-queue half of the liveness composition (`Props/C02net.lean`): the invariant `QB t0 M q` — the cumulative point of
the receive queue `q` and every TSN it holds lie among the first `M` TSNs counted from `t0` — is kept by every operation
of the `Receiver` model whose DATA chunks carry TSNs `t0 + j`, `j < M`.
-/
namespace NetSysLive
open Gen RecvQ

/-- how many TSNs, counted from `t0`, the cumulative point covers -/
def idx (t0 : TSN) (q : Q) : Nat := (q.cum - (t0 - 1)).toNat

structure QB (t0 : TSN) (M : Nat) (q : Q) : Prop where
  inv : Inv q
  cumle : idx t0 q ≤ M
  held : ∀ d, heldAt q d → idx t0 q + d ≤ M

theorem QB.mono {t0 : TSN} {M M' : Nat} {q : Q} (h : QB t0 M q) (hm : M ≤ M') : QB t0 M' q :=
  ⟨h.inv, Nat.le_trans h.cumle hm, fun d hd => Nat.le_trans (h.held d hd) hm⟩

theorem QB.dups {t0 : TSN} {M : Nat} {q : Q} (h : QB t0 M q) (l : List TSN) : QB t0 M { q with dups := l } :=
  ⟨inv_dups h.inv l, h.cumle, fun d hd => h.held d hd⟩

/-- a TSN among the first `M` -/
def Below (t0 : TSN) (M : Nat) (t : TSN) : Prop := ∃ j, j < M ∧ t = t0 + BitVec.ofNat 32 j

theorem push_qb {t0 : TSN} {M : Nat} {q : Q} (h : QB t0 M q) (hM : M < 2^31) (t : TSN) (ht : Below t0 M t) :
    QB t0 M (push q t).1 := by
  cases hr : (push q t).2 with
  | false =>
    rcases push_reject t hr with e | e
    · rw [e]; exact h
    · rw [e]; exact h.dups _
  | true =>
    have hcum : (push q t).1.cum = q.cum := push_cum q t
    obtain ⟨⟨a1, a2, a3, a4⟩, _⟩ := (push_accept_iff h.inv t).mp hr
    refine ⟨push_inv h.inv t, by unfold idx; rw [hcum]; exact h.cumle, ?_⟩
    intro d hd
    have hi : idx t0 (push q t).1 = idx t0 q := by unfold idx; rw [hcum]
    rw [hi]
    rcases (push_heldAt h.inv t hr d).mp hd with h1 | h1
    · exact h.held d h1
    · obtain ⟨j, hj, rfl⟩ := ht
      have hc := h.cumle
      unfold idx at hc ⊢
      subst h1
      have e : (BitVec.ofNat 32 j).toNat = j := by simp [BitVec.toNat_ofNat]; omega
      bv_omega

theorem popped_idx {t0 : TSN} {q : Q} (h : idx t0 q < 2^31) : idx t0 (popped q) = idx t0 q + 1 := by
  unfold idx at *
  rw [popped_cum]
  bv_omega

theorem popLoopS_qb {t0 : TSN} {M : Nat} (hM : M < 2^31) (n : Nat) : ∀ (s : RecvQ.St), QB t0 M s.q →
    QB t0 M (popLoopS n s).q ∧ idx t0 s.q ≤ idx t0 (popLoopS n s).q := by
  induction n with
  | zero => intro s h; exact ⟨h, Nat.le_refl _⟩
  | succ n ih =>
    intro s h
    simp only [popLoopS]
    split
    · rename_i hok
      rw [pop_ok] at hok
      have hh := (hasChunk_iff h.inv _).mp hok
      have hq : (sPop s false).q = popped s.q := by
        show (pop s.q false).1 = _; rw [pop_state, hok]; rfl
      have h1 : heldAt s.q 1 := by
        have := (held_iff_heldAt (q := s.q) (s.q.cum + 1)).mp hh
        rwa [off_one] at this
      have hle := h.held 1 h1
      have hi : idx t0 (popped s.q) = idx t0 s.q + 1 := popped_idx (by omega)
      have hb : QB t0 M (sPop s false).q := by
        rw [hq]
        refine ⟨popped_inv h.inv hh, by omega, ?_⟩
        intro d hd
        have hd1 : 1 ≤ d := hd.1
        have := h.held (d + 1) ((popped_heldAt h.inv hh d hd1).mp hd)
        omega
      obtain ⟨r1, r2⟩ := ih (sPop s false) hb
      refine ⟨r1, ?_⟩
      rw [hq] at r2
      omega
    · exact ⟨h, Nat.le_refl _⟩

theorem popAllQ_qb {t0 : TSN} {M : Nat} (hM : M < 2^31) {q : Q} (h : QB t0 M q) :
    QB t0 M (Receiver.popAllQ q) ∧ idx t0 q ≤ idx t0 (Receiver.popAllQ q) := by
  unfold Receiver.popAllQ popAllS
  exact popLoopS_qb hM _ _ h

/-- one association-level queue operation caused by a DATA chunk with TSN `t` -/
theorem qrun_data_qb {t0 : TSN} {M : Nat} (hM : M < 2^31) {q : Q} (h : QB t0 M q) (t : TSN) (ht : Below t0 M t) (st : Bool) :
    QB t0 M (Receiver.qrun q [.data t st]) ∧ idx t0 q ≤ idx t0 (Receiver.qrun q [.data t st]) := by
  rw [Receiver.qrun_data]
  split
  · have := popAllQ_qb hM (push_qb h hM t ht)
    refine ⟨this.1, ?_⟩
    have e : idx t0 (push q t).1 = idx t0 q := by unfold idx; rw [push_cum]
    rw [← e]; exact this.2
  · exact popAllQ_qb hM h

theorem qrun_push_qb {t0 : TSN} {M : Nat} (hM : M < 2^31) {q : Q} (h : QB t0 M q) (t : TSN) (ht : Below t0 M t) :
    QB t0 M (Receiver.qrun q [.push t]) ∧ idx t0 q ≤ idx t0 (Receiver.qrun q [.push t]) := by
  rw [Receiver.qrun_push]
  refine ⟨push_qb h hM t ht, ?_⟩
  unfold idx; rw [push_cum]; exact Nat.le_refl _

theorem qrun_sack_qb {t0 : TSN} {M : Nat} {q : Q} (h : QB t0 M q) :
    QB t0 M (Receiver.qrun q [.sack]) ∧ idx t0 q ≤ idx t0 (Receiver.qrun q [.sack]) := by
  rw [Receiver.qrun_single q ⟨0, 0, fun _ => False, fun _ => False⟩]
  exact ⟨h.dups _, Nat.le_refl _⟩

/-- a list of queue operations each of which is a `data` / bare `push` of a TSN among the first `M`, or `sack` -/
def OpsBelow (t0 : TSN) (M : Nat) (ops : List RecvQ.Op) : Prop :=
  ∀ op ∈ ops, (∃ t st, op = .data t st ∧ Below t0 M t) ∨ (∃ t, op = .push t ∧ Below t0 M t) ∨ op = .sack

theorem qrun_qb {t0 : TSN} {M : Nat} (hM : M < 2^31) (ops : List RecvQ.Op) : ∀ {q : Q}, QB t0 M q → OpsBelow t0 M ops →
    QB t0 M (Receiver.qrun q ops) ∧ idx t0 q ≤ idx t0 (Receiver.qrun q ops) := by
  induction ops with
  | nil => intro q h _; exact ⟨h, Nat.le_refl _⟩
  | cons op ops ih =>
    intro q h ho
    have e : op :: ops = [op] ++ ops := rfl
    rw [e, Receiver.qrun_append]
    have h1 : QB t0 M (Receiver.qrun q [op]) ∧ idx t0 q ≤ idx t0 (Receiver.qrun q [op]) := by
      rcases ho op (by simp) with ⟨t, st, rfl, hb⟩ | ⟨t, rfl, hb⟩ | rfl
      · exact qrun_data_qb hM h t hb st
      · exact qrun_push_qb hM h t hb
      · exact qrun_sack_qb h
    obtain ⟨r1, r2⟩ := ih h1.1 (fun o hoo => ho o (List.mem_cons_of_mem _ hoo))
    exact ⟨r1, Nat.le_trans h1.2 r2⟩

/-! ## the traces of the receiver's operations -/

/-- a packet of DATA chunks whose TSNs are among the first `M` -/
def PktBelow (t0 : TSN) (M : Nat) (cs : List Receiver.InChunk) : Prop :=
  ∀ ch ∈ cs, ∃ c imm, ch = Receiver.InChunk.data c imm ∧ Below t0 M c.tsn

theorem chunksTrace_below {t0 : TSN} {M : Nat} (cs : List Receiver.InChunk) : ∀ (s : Receiver.St), PktBelow t0 M cs →
    OpsBelow t0 M (Receiver.chunksTrace s cs) := by
  induction cs with
  | nil => intro s _ op hop; simp [Receiver.chunksTrace] at hop
  | cons ch cs ih =>
    intro s hp op hop
    simp only [Receiver.chunksTrace, List.mem_append] at hop
    rcases hop with hop | hop
    · obtain ⟨c, imm, rfl, hb⟩ := hp ch (by simp)
      simp only [Receiver.chunkTrace] at hop
      split at hop
      · cases hop
      · rcases Receiver.dataTrace_ops s c op hop with e | e
        · exact Or.inl ⟨_, _, e, hb⟩
        · exact Or.inr (Or.inl ⟨_, e, hb⟩)
    · exact ih _ (fun x hx => hp x (List.mem_cons_of_mem _ hx)) op hop

/-- the trace of a receiver operation that is not a packet -/
theorem opTrace_nopkt {t0 : TSN} {M : Nat} (s : Receiver.St) (op : Receiver.Op) (h : ∀ cs, op ≠ .pkt cs) :
    OpsBelow t0 M (Receiver.opTrace s op) := by
  intro o ho
  cases op with
  | pkt cs => exact absurd rfl (h cs)
  | gather =>
    simp only [Receiver.opTrace] at ho
    split at ho
    · simp at ho; exact Or.inr (Or.inr ho)
    · cases ho
  | read n b => simp [Receiver.opTrace] at ho
  | accept => simp [Receiver.opTrace] at ho
  | «open» si => simp [Receiver.opTrace] at ho
  | tick d => simp [Receiver.opTrace] at ho
  | setState st => simp [Receiver.opTrace] at ho

theorem step_qb {t0 : TSN} {M : Nat} (hM : M < 2^31) (s : Receiver.St) (op : Receiver.Op) (h : QB t0 M s.pq)
    (hop : ∀ cs, op = .pkt cs → PktBelow t0 M cs) :
    QB t0 M (Receiver.step s op).pq ∧ idx t0 s.pq ≤ idx t0 (Receiver.step s op).pq := by
  rw [Receiver.step_pq]
  apply qrun_qb hM _ h
  by_cases hp : ∃ cs, op = .pkt cs
  · obtain ⟨cs, rfl⟩ := hp
    exact chunksTrace_below cs _ (hop cs rfl)
  · exact opTrace_nopkt s op (fun cs e => hp ⟨cs, e⟩)

end NetSysLive
