import SctpVerif.Proofs.NetSys.LiveNormal
import SctpVerif.Proofs.NetSys.LiveTaken
/-!
`willSendAbort` frames of the receive-half handlers (generated from the `scp` family of `Proofs/Receiver/Cfg.lean` for the
handlers that never write the flag) and the run invariant `willSendAbort = false` for NetSys runs with the reassembly entry
cap off whose history chunks all decode to non-empty user data (`Props/C02net.lean`, `HeadOk`).
-/
namespace NetSysLive
open Gen NetSys Receiver

@[simp] theorem createStream_wsa (s : Receiver.St) (si : BitVec 16) (a : Bool) : ((createStream s si a).1).willSendAbort = s.willSendAbort := by
  unfold createStream; repeat' split
  all_goals first | rfl | simp

@[simp] theorem getOrCreateStream_wsa (s : Receiver.St) (si : BitVec 16) (a : Bool) : ((getOrCreateStream s si a).1).willSendAbort = s.willSendAbort := by
  unfold getOrCreateStream; split <;> simp


@[simp] theorem unregister_wsa (s : Receiver.St) (id : BitVec 16) : (unregister s id).willSendAbort = s.willSendAbort := by
  unfold unregister; split <;> rfl

@[simp] theorem foldl_unregister_wsa (ids : List (BitVec 16)) (s : Receiver.St) : (ids.foldl unregister s).willSendAbort = s.willSendAbort := by
  induction ids generalizing s with
  | nil => rfl
  | cons id ids ih => simp [ih]

@[simp] theorem rememberPerformed_wsa (s : Receiver.St) (rsn : BitVec 32) : (rememberPerformed s rsn).willSendAbort = s.willSendAbort := by
  rfl

@[simp] theorem resetStreamsIfAny_wsa (s : Receiver.St) (r : ResetReq) : (resetStreamsIfAny s r).willSendAbort = s.willSendAbort := by
  unfold resetStreamsIfAny; split <;> simp

@[simp] theorem foldl_reset_wsa (rs : List ResetReq) (s : Receiver.St) : (rs.foldl resetStreamsIfAny s).willSendAbort = s.willSendAbort := by
  induction rs generalizing s with
  | nil => rfl
  | cons r rs ih => simp [ih]

@[simp] theorem handleResetReq_wsa (s : Receiver.St) (r : ResetReq) : (handleResetReq s r).willSendAbort = s.willSendAbort := by
  unfold handleResetReq; repeat' split
  all_goals first | rfl | simp

@[simp] theorem popLoop_wsa (n : Nat) (s : Receiver.St) : (popLoop n s).willSendAbort = s.willSendAbort := by
  induction n generalizing s with
  | zero => rfl
  | succ n ih => simp only [popLoop]; split <;> simp [ih]

@[simp] theorem ackStep_wsa (s : Receiver.St) (b : Bool) : (ackStep s b).willSendAbort = s.willSendAbort := by
  unfold ackStep; dsimp only; repeat' split
  all_goals simp


@[simp] theorem chunksStart_wsa (s : Receiver.St) : (chunksStart s).willSendAbort = s.willSendAbort := by
  rfl

@[simp] theorem chunksEnd_wsa (s : Receiver.St) : (chunksEnd s).willSendAbort = s.willSendAbort := by
  unfold chunksEnd; repeat' split
  all_goals rfl


@[simp] theorem read_wsa (s : Receiver.St) (n : Receiver.Name) (b : Nat) : ((Receiver.read s n b).1).willSendAbort = s.willSendAbort := by
  unfold Receiver.read; repeat' split
  all_goals rfl

@[simp] theorem accept_wsa' (s : Receiver.St) : ((accept s).1).willSendAbort = s.willSendAbort := by
  unfold accept; split <;> rfl

@[simp] theorem openStream_wsa (s : Receiver.St) (si : BitVec 16) : ((openStream s si).1).willSendAbort = s.willSendAbort := by
  unfold openStream; split <;> simp


@[simp] theorem tick_wsa (s : Receiver.St) (d : Nat) : (tick s d).willSendAbort = s.willSendAbort := by
  unfold tick; dsimp only; repeat' split
  all_goals first | rfl | simp [ackTimeout]

/-! ### the handlers that may raise the flag, under the invariants of `LiveNormal.lean` -/

theorem pushToStream_wsa_ok (s : Receiver.St) (c : Reasm.Chunk) (h : (pushToStream s c).2 = true) :
    (pushToStream s c).1.willSendAbort = s.willSendAbort := by
  unfold pushToStream at h ⊢
  dsimp only at h ⊢
  split
  · rfl
  · rename_i x hx
    simp only [hx] at h
    split
    · rfl
    · rename_i he; simp [he] at h
    · rename_i he1 he2
      split at h
      · exact absurd ‹_› he1
      · exact absurd ‹_› he2
      · cases h

theorem accept_wsa {s : Receiver.St} (h : NB s) (c : Reasm.Chunk) :
    (acceptPayloadData s c).1.willSendAbort = s.willSendAbort := by
  have hz' := getOrCreateStream_z h.me h.z c.si true
  have hn' := getOrCreateStream_allQ noEmpty_pres h.np.2 c.si true
  have hw := getOrCreateStream_wsa s c.si true
  unfold acceptPayloadData
  rcases hgo : getOrCreateStream s c.si true with ⟨s', o⟩
  rw [hgo] at hz' hn' hw
  cases o with
  | none => exact hw
  | some x =>
    obtain ⟨y, hy⟩ := getOrCreateStream_some s c.si true x (by rw [hgo])
    rw [hgo] at hy
    simp only at hy hz' hn' hw ⊢
    have hym := (getS_mem hy).1
    have hp := pushToStream_true s' c y hy (hz'.1 y hym) (hn'.1 y hym)
    split
    · rw [pushToStream_wsa_ok s' c hp]; exact hw
    · split
      · exact hw
      · rw [pushToStream_wsa_ok s' c hp]; exact hw

theorem handleData_wsa {r : Receiver.St} (h : NB r) (c : Reasm.Chunk) (imm : Bool) (hk : c.iData = r.il) :
    (handleData r c imm).willSendAbort = r.willSendAbort := by
  have ha := accept_wsa h c
  unfold handleData
  dsimp only
  split
  · rfl
  · split
    · rename_i hw; simp [data_wrongKind, hk] at hw
    · repeat' split
      all_goals simp [ha]

/-- a packet of DATA chunks of the negotiated kind with non-empty user data -/
def GoodPkt (il : Bool) (cs : List InChunk) : Prop :=
  ∀ ch ∈ cs, ∃ c imm, ch = InChunk.data c imm ∧ c.userData ≠ [] ∧ c.iData = il

theorem foldl_wsa (cs : List InChunk) (il : Bool) (hg : GoodPkt il cs) : ∀ {r : Receiver.St}, NB r → r.il = il →
    (cs.foldl handleChunk r).willSendAbort = r.willSendAbort := by
  induction cs with
  | nil => intro r _ _; rfl
  | cons ch cs ih =>
    intro r h hil
    obtain ⟨c, imm, rfl, hne, hk⟩ := hg ch (by simp)
    simp only [List.foldl_cons]
    have hemp : c.userData.isEmpty = false := by simpa using hne
    have e : handleChunk r (.data c imm) = handleData r c imm := by simp [handleChunk, hemp]
    rw [ih (fun x hx => hg x (List.mem_cons_of_mem _ hx)) (handleChunk_nb h c imm) (by rw [e, handleData_il]; exact hil)]
    rw [e]
    exact handleData_wsa h c imm (by rw [hk, hil])

theorem gather_wsa_false (s : Receiver.St) (h : s.willSendAbort = false) : (Receiver.gather s).1.willSendAbort = false := by
  unfold Receiver.gather
  simp only [h, Bool.false_eq_true, if_false]
  split
  · simp [createSack]
  · rfl

theorem step_wsa {r : Receiver.St} (h : NB r) (hw : r.willSendAbort = false) (op : Receiver.Op)
    (hd : ∀ cs, op = .pkt cs → GoodPkt r.il cs) : (Receiver.step r op).willSendAbort = false := by
  cases op with
  | pkt cs =>
    show (packet r cs).willSendAbort = false
    unfold packet
    rw [chunksEnd_wsa, foldl_wsa cs r.il (hd cs rfl) (r := chunksStart r) ⟨h.me, h.z, h.np, h.inv, h.nrm⟩ rfl]
    exact hw
  | gather => exact gather_wsa_false r hw
  | read n k => show ((Receiver.read r n k).1).willSendAbort = false; rw [read_wsa]; exact hw
  | accept => show ((accept r).1).willSendAbort = false; rw [accept_wsa']; exact hw
  | «open» si => show ((openStream r si).1).willSendAbort = false; rw [openStream_wsa]; exact hw
  | tick d => show (tick r d).willSendAbort = false; rw [tick_wsa]; exact hw
  | setState st => exact hw

/-- every chunk of the history decodes to non-empty user data -/
def WireData (P : Params) (w : List Sender.Chunk) : Prop := ∀ c ∈ w, (toWire P c).userData ≠ []

theorem step_wire_sub (P : Params) (s : NetSys.St) (op : NetSys.Op) : ∀ c ∈ s.wire, c ∈ (step P s op).wire := by
  intro c hc
  cases hs : sndOp P s.snd op with
  | some o => rw [step_snd_some P s op o hs]; exact List.mem_append_left _ hc
  | none => rw [(step_snd_none P s op hs).2]; exact hc

/-- ✱ entry cap off and non-empty user data: the receiver never raises the ABORT flag -/
theorem run_noabort (P : Params) (h0 : P.maxEntries = 0) (ops : List NetSys.Op)
    (hw : WireData P (run P (init P) ops).wire) : (run P (init P) ops).rcv.willSendAbort = false := by
  induction ops using List.reverseRecOn with
  | nil => rfl
  | append_singleton o1 op ih =>
    rw [NetSys.run_append] at hw ⊢
    have hw1 : WireData P (run P (init P) o1).wire := fun c hc => hw c (step_wire_sub P _ op c hc)
    have ih' := ih hw1
    obtain ⟨a, b, c, d⟩ := run_nb0 P h0 o1
    have hn := run_normal P h0 o1
    show (step P (run P (init P) o1) op).rcv.willSendAbort = false
    rw [step_rcv]
    cases hs : sndOp P (run P (init P) o1).snd op with
    | some o => exact ih'
    | none =>
      cases hr : rcvOp P (run P (init P) o1).wire op with
      | none => exact ih'
      | some o =>
        apply step_wsa ⟨a, b, c, d, hn⟩ ih'
        intro cs hcs
        subst hcs
        obtain ⟨is, rfl⟩ := rcvOp_pkt P _ op _ hr
        intro ch hch
        obtain ⟨c0, hc0, imm, rfl⟩ := packetOf_mem P _ is ch hch
        exact ⟨_, _, rfl, hw1 c0 hc0, by rw [(run_rcv_cfg P o1).2.1]; rfl⟩

end NetSysLive
