import SctpVerif.Model.NetSys
/-!
# The healed round of NetSys (definitions for `Props/C02net.lean`; core-only, executable)

* `truthfulSack r` — what `createSelectiveAckChunk` (`Receiver.createSack`) puts into a SACK for the receiver state `r`:
  cumulative TSN `payloadQueue.cumulativeTSN`, a_rwnd `getMyReceiverWindowCredit()`, gap blocks `getGapAckBlocks`.
* `healedRound P s` — ONE explicit fair schedule step of the healed network, computed from the state:
  the receiving application accepts every stream waiting in the accept backlog; the sender's T3 expires (only if
  something is in flight); the sender gathers (free burst budget, FIFO selection); every chunk that gather put on the
  wire is delivered, one packet per chunk, in wire order, no I-bit; the application accepts the new streams and reads
  every stream until nothing is readable; the delayed-ack timer interval passes and the receiver gathers (emits its
  SACK); the truthful SACK of the receiver state is handed to the sender (RACK / PTO marks empty).
* `soundSack q cum gaps` / `Honest` — the SACKs the sender processed so far told the truth about the receiver AT THE
  TIME THEY WERE PROCESSED: the cumulative TSN is not ahead of the receiver's, every gap-acked TSN is at or below the
  receiver's cumulative point or held in its receive queue. Every SACK the receiver ever emitted stays sound for ever
  (delayed, duplicated, reordered or lost SACKs are all sound); the window it advertises and the loss marks are free.
-/
namespace NetSys
open Gen

/-- cumulative TSN, a_rwnd, gap blocks of the SACK `createSelectiveAckChunk` builds in this receiver state -/
def truthfulSack (r : Receiver.St) : BitVec 32 × BitVec 32 × List (BitVec 16 × BitVec 16) :=
  match (Receiver.createSack r).2 with
  | .sack cum arwnd gaps _ => (cum, arwnd, gaps)
  | _ => (r.pq.cum, 0, [])

theorem truthfulSack_eq (r : Receiver.St) : truthfulSack r = (r.pq.cum, Receiver.credit r, RecvQ.gaps r.pq) := rfl

/-- the sender operation that hands the receiver's truthful SACK to the sender -/
def sackOp (r : Receiver.St) : Op :=
  .snd (.sack (truthfulSack r).1 (truthfulSack r).2.1 (truthfulSack r).2.2 [])

/-- the application drains the accept backlog -/
def acceptAll (r : Receiver.St) : List Op := List.replicate r.acceptQ.length (.rcv .accept)

/-- the application reads: as long as some registered stream is readable, one `ReadSCTP` with a buffer that holds
everything queued on it (`fuel` bounds the number of reads) -/
def readAll : Nat → Receiver.St → List Op
  | 0, _ => []
  | fuel+1, r =>
    match r.streams.find? (fun x => x.q.isReadable) with
    | none => []
    | some x =>
      let n := x.q.getNumBytes.toNat + 1
      .rcv (.read (x.si, x.inc) n) :: readAll fuel (Receiver.read r (x.si, x.inc) n).1

/-- enough fuel for `readAll`: every successful read removes at least one chunk -/
def readFuel (r : Receiver.St) : Nat :=
  (r.streams.map fun x => x.q.orderedDataEntryCount + x.q.unorderedDataEntryCount + x.q.unorderedMIDEntryCount + 1).sum

/-- FIFO selection for a gather: `peek` = the oldest pending chunk, every time -/
def fifoSel (s : Sender.St) : List Nat := List.replicate s.pending.length 0

/-- the sender half of a round: T3 expires if something is in flight, then one gather -/
def sendOps (s : Sender.St) : List Op :=
  let t3s : List Op := if s.inflight.isEmpty then [] else [.snd .t3]
  let s1 := if s.inflight.isEmpty then s else Sender.t3 s
  t3s ++ [.snd (.gather Sender.freeOracle (fifoSel s1))]

/-- one packet per chunk for the history indices `[from, to)` -/
def deliverOps (lo hi : Nat) : List Op := (List.range' lo (hi - lo)).map fun i => .deliver [(i, false)]

/-- the receiving application after the deliveries, the ack timer interval, the receiver's gather -/
def recvOps (r : Receiver.St) : List Op :=
  acceptAll r ++ readAll (readFuel r) r ++ [.rcv (.tick ackInterval), .rcv .gather]

/-- the round up to (not including) the SACK: accepts, T3 / gather, deliveries, accepts, reads, ack timer, receiver gather -/
def roundOps (P : Params) (s : St) : List Op :=
  let o1 := acceptAll s.rcv ++ sendOps s.snd
  let s1 := run P s o1
  let o2 := deliverOps s.wire.length s1.wire.length
  let s2 := run P s1 o2
  o1 ++ o2 ++ recvOps s2.rcv

/-- the state in which the receiver's SACK reaches the sender -/
def preSack (P : Params) (s : St) : St := run P s (roundOps P s)

/-- **the healed round**, as an explicit operation list computed from the state -/
def healedRound (P : Params) (s : St) : List Op := roundOps P s ++ [sackOp (preSack P s).rcv]

/-- the state after one healed round -/
def healed (P : Params) (s : St) : St := run P s (healedRound P s)

/-- `n` healed rounds as one operation list -/
def healedRounds (P : Params) : Nat → St → List Op
  | 0, _ => []
  | n+1, s => healedRound P s ++ healedRounds P n (healed P s)

def healedN (P : Params) : Nat → St → St
  | 0, s => s
  | n+1, s => healedN P n (healed P s)

/-! ## honest SACK history -/

/-- the SACK `(cum, gaps)` tells the truth about the receive queue `q`: `cum` is not ahead of the receiver's cumulative
point, every gap-acked TSN is at or below it or held -/
def soundSack (q : RecvQ.Q) (cum : BitVec 32) (gaps : List (BitVec 16 × BitVec 16)) : Bool :=
  sna32LTE cum q.cum &&
  gaps.all fun g => (List.range' g.1.toNat (g.2.toNat + 1 - g.1.toNat)).all fun j =>
    sna32LTE (cum + BitVec.ofNat 32 j) q.cum || RecvQ.hasChunk q (cum + BitVec.ofNat 32 j)

def HonestOp (s : St) : Op → Bool
  | .snd (.sack cum _ gaps _) => soundSack s.rcv.pq cum gaps
  | _ => true

/-- every SACK the sender processes along the run is sound for the receiver state at that moment -/
def Honest (P : Params) : St → List Op → Bool
  | _, [] => true
  | s, op :: ops => HonestOp s op && Honest P (step P s op) ops

/-- the receiver stays in a state that handles DATA (`setState` ops only to such states; 3 = established) and the
sender stays established -/
def StaysUpOp : Op → Bool
  | .rcv (.setState st) => st == 3#32
  | .snd (.setEstablished b) => b
  | _ => true

def StaysUp (ops : List Op) : Bool := ops.all StaysUpOp

/-- the measure of the progress theorem: chunks pending + chunks in flight -/
def outstanding (s : St) : Nat := s.snd.pending.length + s.snd.inflight.length

/-- in this round the receiver's cumulative point gets ahead of the sender's cumulative ack point: the receiver HAS the
lowest outstanding chunk when its SACK is built (it took this round's copy, or an earlier one whose SACK was lost) -/
def Taken (P : Params) (s : St) : Bool := sna32LT (preSack P s).snd.cumAck (preSack P s).rcv.pq.cum

/-- `Taken` in each of the next `n` rounds that start with something outstanding -/
def TakenN (P : Params) : Nat → St → Bool
  | 0, _ => true
  | n+1, s => (outstanding s == 0 || Taken P s) && TakenN P n (healed P s)

/-- the receiver does not refuse the lowest outstanding chunk for want of buffer: it has credit, or something above
the cumulative point is held (the "fills a gap below the highest TSN" exception of `acceptPayloadData`) -/
def Room (r : Receiver.St) : Bool :=
  accept_hasCredit (a_getMyReceiverWindowCredit := Receiver.credit r) || decide (r.pq.size ≠ 0)

/-- the round up to and including its FIRST delivery -/
def firstOps (s : St) : List Op := acceptAll s.rcv ++ sendOps s.snd ++ [.deliver [(s.wire.length, false)]]

/-- the receiver does not answer the first chunk delivered in this round with an ABORT (reassembly queue refusing the
chunk: entry cap, zero-length data) or a panic -/
def HeadOk (P : Params) (s : St) : Bool :=
  !(run P s (firstOps s)).rcv.willSendAbort && !(run P s (firstOps s)).rcv.panicked

/-- the sender's cumulative ack point is not ahead of the receiver's cumulative point, and when they coincide the lowest
outstanding chunk is not gap-acked (what a SOUND SACK history guarantees: `soundSack` / `Honest`) -/
def InSync (s : St) : Bool :=
  !sna32GT s.snd.cumAck s.rcv.pq.cum &&
  (s.snd.cumAck != s.rcv.pq.cum || match s.snd.inflight.head? with | some c => !c.acked | none => true)

/-- the receiver-side premises of one healed round -/
def RoundOk (P : Params) (s : St) : Bool := s.rcv.state == 3#32 && Room s.rcv && InSync s && HeadOk P s

/-- `RoundOk` at the start of each of the next `n` rounds that start with something outstanding -/
def RoundOkN (P : Params) : Nat → St → Bool
  | 0, _ => true
  | n+1, s => (outstanding s == 0 || RoundOk P s) && RoundOkN P n (healed P s)

/-- the receive queue is pop-normalised: the TSN right after the cumulative point is not held (true after every
`handleData` that did not end in a reassembly error) -/
def Normal (r : Receiver.St) : Bool := !RecvQ.hasChunk r.pq (r.pq.cum + 1)

/-- the receiver-side premises of one healed round of an HONEST run: `RoundOk` without `InSync` -/
def RoundOkH (P : Params) (s : St) : Bool := s.rcv.state == 3#32 && Room s.rcv && Normal s.rcv && HeadOk P s

def RoundOkHN (P : Params) : Nat → St → Bool
  | 0, _ => true
  | n+1, s => (outstanding s == 0 || RoundOkH P s) && RoundOkHN P n (healed P s)

/-- the per-round premises that remain with the reassembly entry cap off: receiver established, `Room` -/
def RoundOkE (s : St) : Bool := s.rcv.state == 3#32 && Room s.rcv

def RoundOkEN (P : Params) : Nat → St → Bool
  | 0, _ => true
  | n+1, s => (outstanding s == 0 || RoundOkE s) && RoundOkEN P n (healed P s)

/-- every chunk of the history decodes to non-empty user data (every written fragment carries at least one byte) -/
def WireDataB (P : Params) (w : List Sender.Chunk) : Bool := w.all fun c => !(toWire P c).userData.isEmpty

end NetSys
