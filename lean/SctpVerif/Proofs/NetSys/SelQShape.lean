import SctpVerif.Proofs.NetSys.SelQ
/-!
NetSysQ over reliable ordered streams never raises its queue-error flag: no `pendingQueue.pop` fails.

`messagePendingQueuePolicy.pop` fails with `ErrUnexpectedQState` when no message is selected and the chunk is not a first
fragment. `Shape sel l` reads the B / E flags of the ordered queue as an automaton: if a message is selected the queue
starts with the rest of that message (non-B fragments up to an E), then come whole messages (B … E). `write` appends whole
messages (`mkChunks_shape`), a successful pop moves the automaton on (`pop_ok`: `selected' = !c.e`). The queue runs
parallel to the sender's pending list (`ids.length = pending.length`), so a gather that takes `k` chunks finds `k` chunks.
-/
namespace NetSysQ
open NetSys SenderProofs SenderTsn Sender PendQ Gen

def be (c : PendQ.Chunk) : Bool × Bool := (c.b, c.e)
def sbe (c : Sender.Chunk) : Bool × Bool := (c.bfrag, c.efrag)

/-- B / E flags of a queue that holds (if `sel`) the rest of the selected message, then whole messages -/
def Shape : Bool → List (Bool × Bool) → Prop
  | false, [] => True
  | true, [] => False
  | sel, (b, e) :: t => b = !sel ∧ Shape (!e) t

theorem shape_append {sel : Bool} {l l2 : List (Bool × Bool)} (h1 : Shape sel l) (h2 : Shape false l2) : Shape sel (l ++ l2) := by
  induction l generalizing sel with
  | nil =>
    cases sel with
    | false => simpa using h2
    | true => exact absurd h1 (by simp [Shape])
  | cons x t ih =>
    obtain ⟨b, e⟩ := x
    simp only [List.cons_append, Shape] at h1 ⊢
    exact ⟨h1.1, ih h1.2⟩

theorem mkChunks_shape (si : BitVec 16) (msg : Nat) (ppi : BitVec 32) (u : Bool) (ssn : BitVec 16) (mid : BitVec 32)
    (fs : List Nat) (fsn : BitVec 32) (first : Bool) (hne : fs ≠ []) :
    Shape (!first) ((mkChunks si msg ppi u ssn mid fs fsn first).map sbe) := by
  induction fs generalizing fsn first with
  | nil => exact absurd rfl hne
  | cons f rest ih =>
    simp only [mkChunks, List.map_cons, sbe, Shape, Bool.not_not, true_and]
    cases rest with
    | nil => simp [mkChunks, Shape]
    | cons g r =>
      have := ih (fsn + 1) false (List.cons_ne_nil _ _)
      simpa using this

theorem writeChunks_shape (s : Sender.St) (si : BitVec 16) (ppi : BitVec 32) (len : Nat) :
    Shape false ((writeChunks s si ppi len).map sbe) := by
  unfold writeChunks
  cases hs : s.streams si with
  | none => simp [Shape]
  | some st =>
    simp only
    split
    · simp [Shape]
    · split
      · simp [Shape]
      · rename_i hlen
        split
        · simp [Shape]
        · rename_i hmp
          split
          · simp only [packetize]
            have hmp' : s.cfg.maxPayload.toNat ≠ 0 := fun h0 => hmp (BitVec.eq_of_toNat_eq (by simpa using h0))
            exact mkChunks_shape (first := true) _ _ _ _ _ _ _ _ (fragSizes_ne_nil _ _ hlen hmp')
          · simp [Shape]

/-- what `pushAll` does to the policy when every chunk is ordered -/
theorem pushAll_ord (q : Q) (cs : List Sender.Chunk) (hcs : ∀ c ∈ cs, c.unordered = false) :
    (pushAll q cs).pol.ord.map be = q.pol.ord.map be ++ cs.map sbe ∧ (pushAll q cs).pol.selected = q.pol.selected ∧
    (pushAll q cs).ids.length = q.ids.length + cs.length ∧ (pushAll q cs).err = q.err := by
  induction cs generalizing q with
  | nil => simp [pushAll]
  | cons c r ih =>
    have hcu : c.unordered = false := hcs c List.mem_cons_self
    obtain ⟨i1, i2, i3, i4⟩ := ih { q with pol := q.pol.push (view q.nextId c), ids := q.ids ++ [q.nextId], nextId := q.nextId + 1 }
      (fun x hx => hcs x (List.mem_cons_of_mem _ hx))
    simp only [pushAll]
    refine ⟨?_, ?_, ?_, i4⟩
    · rw [i1]; simp [MsgPol.push, view, hcu, be, sbe]
    · rw [i2]; simp [MsgPol.push, view, hcu]
    · rw [i3]; simp; omega

/-- under `QI` and `Shape` the pop of the head succeeds -/
theorem pop_ok {m : MsgPol} {ids : List Nat} (h : QI m ids) (hs : Shape m.selected (m.ord.map be)) {c : PendQ.Chunk}
    {t : List PendQ.Chunk} (ho : m.ord = c :: t) :
    (m.pop c).2 = .ok ∧ (m.pop c).1.ord = t ∧ (m.pop c).1.selected = !c.e := by
  have hcu : c.unordered = false := h.ord c (by rw [ho]; exact List.mem_cons_self)
  rw [ho] at hs
  simp only [List.map_cons, be, Shape] at hs
  obtain ⟨hb, _⟩ := hs
  unfold MsgPol.pop
  cases hsel : m.selected with
  | true =>
    have hus := h.us hsel
    cases he : c.e <;> simp [MsgPol.popSelected, hus, ho, he, hsel]
  | false =>
    rw [hsel] at hb
    have hb' : c.b = true := by simpa using hb
    cases he : c.e <;> simp [hb', MsgPol.popNewSelection, hcu, ho, he, hsel]

theorem advance_noerr (k : Nat) (q : Q) (he : q.err = false) (h : QI q.pol q.ids) (hs : Shape q.pol.selected (q.pol.ord.map be))
    (hk : k ≤ q.ids.length) :
    (advance k q).err = false ∧ Shape (advance k q).pol.selected ((advance k q).pol.ord.map be) ∧
    (advance k q).ids.length = q.ids.length - k := by
  induction k generalizing q with
  | zero => exact ⟨he, hs, rfl⟩
  | succ k ih =>
    obtain ⟨pol, ids, nextId, err⟩ := q
    simp only at he h hs hk
    subst he
    simp only [advance, Bool.false_eq_true, if_false]
    rw [h.peek]
    cases ho : pol.ord with
    | nil =>
      have : ids.length = 0 := by rw [← h.par, ho]; rfl
      omega
    | cons c t =>
      obtain ⟨i0, il, ie⟩ := h.idx ho
      obtain ⟨p1, p2, p3⟩ := pop_ok h hs ho
      simp only [List.head?_cons, i0, il, if_true]
      generalize hp : pol.pop c = pp at p1 p2 p3
      obtain ⟨m', r⟩ := pp
      simp only at p1 p2 p3
      subst p1
      simp only
      have hq' : QI m' (ids.eraseIdx 0) := by rw [ie]; exact h.pop ho hp
      have hs' : Shape m'.selected (m'.ord.map be) := by
        rw [p2, p3]
        rw [ho] at hs
        simp only [List.map_cons, be, Shape] at hs
        exact hs.2
      have hlen : (ids.eraseIdx 0).length = ids.length - 1 := by rw [List.length_eraseIdx]; simp [il]
      obtain ⟨j1, j2, j3⟩ := ih { pol := m', ids := ids.eraseIdx 0, nextId := nextId, err := false } rfl hq' hs' (by simp only; omega)
      refine ⟨j1, j2, ?_⟩
      rw [j3]
      simp only
      omega

/-! ## runs -/

structure RInv2 (s : St) : Prop where
  r : RInv s
  ne : s.q.err = false
  sh : Shape s.q.pol.selected (s.q.pol.ord.map be)
  len : s.q.ids.length = s.sys.snd.pending.length

theorem init_rinv2 (P : Params) : RInv2 (init P) := ⟨init_rinv P, rfl, by simp [init, Shape], rfl⟩

theorem gather_pending_le (s : Sender.St) (orc : Oracle) (sel : List Nat) :
    (Sender.gather s orc sel).1.pending.length ≤ s.pending.length := by
  unfold Sender.gather
  split
  · exact Nat.le_refl _
  · obtain ⟨q1, _⟩ := gatherRtx_still s orc
    have m2 := gatherNew_moves orc.allow (gatherRtx s orc).2.2 (gatherRtx s orc).1 sel
    obtain ⟨q3, _⟩ := gatherFast_still (gatherNew (gatherRtx s orc).1 orc.allow (gatherRtx s orc).2.2 sel).1 orc.allow
      (gatherNew (gatherRtx s orc).1 orc.allow (gatherRtx s orc).2.2 sel).2.b
    show (gatherFast _ _ _).1.pending.length ≤ s.pending.length
    rw [q3.q.pen, ← q1.q.pen]
    obtain ⟨D, c⟩ := m2.cnt
    have := c (fun _ => true)
    simp only [List.countP_true, List.length_map, List.length_append] at this
    omega

theorem step_pending (s : Sender.St) (o : Sender.Op) (h : ∀ orc sel, o ≠ .gather orc sel) (hw : ∀ si ppi len, o ≠ .write si ppi len) :
    (Sender.step s o).pending = s.pending := by
  cases o with
  | openS si u rt rv th => rfl
  | unreg si => simp only [Sender.step, unregister]; split <;> rfl
  | setEstablished b => rfl
  | write si ppi len => exact absurd rfl (hw si ppi len)
  | gather orc sel => exact absurd rfl (h orc sel)
  | sack cum arwnd gaps marks => exact (sack_still s cum arwnd gaps marks).q.pen
  | t3 => exact (t3_still s).q.pen
  | tick ms n marks => exact (tick_still s ms n marks).q.pen

theorem step_rinv2_aux (P : Params) (s : St) (op : NetSys.Op) (h : RInv2 s) :
    (step P s op).1.q.err = false ∧ Shape (step P s op).1.q.pol.selected ((step P s op).1.q.pol.ord.map be) ∧
    (step P s op).1.q.ids.length = (step P s op).1.sys.snd.pending.length := by
  simp only [step]
  generalize resolveOp s.q op = op'
  cases hso : sndOp P s.sys.snd op' with
  | none =>
    obtain ⟨e1, _⟩ := step_snd_none P s.sys op' hso
    rw [e1]
    cases op' with
    | write si ppi => simp [sndOp] at hso
    | snd so =>
      cases so with
      | gather orc sel => simp [sndOp] at hso
      | _ => exact ⟨h.ne, h.sh, h.len⟩
    | deliver is => exact ⟨h.ne, h.sh, h.len⟩
    | rcv ro => exact ⟨h.ne, h.sh, h.len⟩
  | some o =>
    have hstep := step_snd_some P s.sys op' o hso
    rw [hstep]
    cases op' with
    | write si ppi =>
      simp only [sndOp, Option.some.injEq] at hso
      subst hso
      simp only [qStep, Sender.step, (write_queues _ _ _ _).2, List.drop_left]
      obtain ⟨a1, a2, a3, a4⟩ := pushAll_ord s.q (writeChunks s.sys.snd si ppi (P.pay s.sys.snd.nextMsg).length)
        (writeChunks_ordered _ h.r.os _ _ _)
      refine ⟨by rw [a4]; exact h.ne, ?_, ?_⟩
      · rw [a1, a2]; exact shape_append h.sh (writeChunks_shape _ _ _ _)
      · rw [a3, h.len, List.length_append]
    | snd so =>
      cases so with
      | gather orc sel =>
        simp only [sndOp, Option.some.injEq] at hso
        subst hso
        simp only [qStep, Sender.step]
        have hle := gather_pending_le s.sys.snd orc sel
        obtain ⟨j1, j2, j3⟩ := advance_noerr (s.sys.snd.pending.length - (Sender.gather s.sys.snd orc sel).1.pending.length) s.q h.ne
          (h.r.qi h.ne) h.sh (by rw [h.len]; omega)
        refine ⟨j1, j2, ?_⟩
        rw [j3, h.len]; omega
      | write a b c => simp [sndOp] at hso
      | openS a b c d e =>
        simp only [sndOp, Option.some.injEq] at hso; subst hso
        exact ⟨h.ne, h.sh, h.len⟩
      | unreg a =>
        simp only [sndOp, Option.some.injEq] at hso; subst hso
        exact ⟨h.ne, h.sh, by
          show s.q.ids.length = (Sender.step s.sys.snd _).pending.length
          rw [step_pending _ _ (fun _ _ hc => by cases hc) (fun _ _ _ hc => by cases hc)]
          exact h.len⟩
      | setEstablished a =>
        simp only [sndOp, Option.some.injEq] at hso; subst hso
        exact ⟨h.ne, h.sh, h.len⟩
      | sack a b c d =>
        simp only [sndOp, Option.some.injEq] at hso; subst hso
        exact ⟨h.ne, h.sh, by
          show s.q.ids.length = (Sender.step s.sys.snd _).pending.length
          rw [step_pending _ _ (fun _ _ hc => by cases hc) (fun _ _ _ hc => by cases hc)]
          exact h.len⟩
      | t3 =>
        simp only [sndOp, Option.some.injEq] at hso; subst hso
        exact ⟨h.ne, h.sh, by
          show s.q.ids.length = (Sender.step s.sys.snd _).pending.length
          rw [step_pending _ _ (fun _ _ hc => by cases hc) (fun _ _ _ hc => by cases hc)]
          exact h.len⟩
      | tick a b c =>
        simp only [sndOp, Option.some.injEq] at hso; subst hso
        exact ⟨h.ne, h.sh, by
          show s.q.ids.length = (Sender.step s.sys.snd _).pending.length
          rw [step_pending _ _ (fun _ _ hc => by cases hc) (fun _ _ _ hc => by cases hc)]
          exact h.len⟩
    | deliver is => simp [sndOp] at hso
    | rcv ro => simp [sndOp] at hso

theorem step_rinv2 (P : Params) (s : St) (op : NetSys.Op) (h : RInv2 s) (hr : ReliableOp op = true) : RInv2 (step P s op).1 :=
  ⟨step_rinv P s op h.r hr, (step_rinv2_aux P s op h).1, (step_rinv2_aux P s op h).2.1, (step_rinv2_aux P s op h).2.2⟩

/-- **no queue error over reliable ordered streams** -/
theorem run_noerr (P : Params) (s : St) (ops : List NetSys.Op) (h : RInv2 s) (hr : Reliable ops = true) :
    (run P s ops).q.err = false := by
  induction ops generalizing s with
  | nil => exact h.ne
  | cons op ops ih =>
    simp only [Reliable, List.all_cons, Bool.and_eq_true] at hr
    exact ih (step P s op).1 (step_rinv2 P s op h hr.1) hr.2

end NetSysQ
