import SctpVerif.Proofs.NetSys.Data
/-!
The universe of a run with streams of ANY reliability policy (ordered, never reset): the facts `Proofs/NetSys/Data.lean` derives
inside `netsys_prefix_data` — every chunk on the sender's wire is a fragment of `senderD`, at its position among the moves —
stated on the SENDER run alone (they do not depend on the network / receiver part of the composed state), so that both
`NetSys` and `NetSysPR` can use them; plus the TSN injectivity of moved fragments.
-/
namespace NetSys
open SenderProofs SenderTsn Sender

/-- ordered streams only and no stream reset; ANY reliability policy -/
def OrdOnlyOp : Op → Bool
  | .snd (.openS _ unordered _ _ _) => !unordered
  | .snd (.unreg _) => false
  | _ => true

def OrdOnly (ops : List Op) : Bool := ops.all OrdOnlyOp

theorem sndOps_ordOnly (P : Params) (s : Sender.St) (ops : List Op) (hr : OrdOnly ops = true) :
    ∀ o ∈ sndOps P s ops, OrdOp o := by
  induction ops generalizing s with
  | nil => intro o ho; cases ho
  | cons op ops ih =>
    simp only [OrdOnly, List.all_cons, Bool.and_eq_true] at hr
    obtain ⟨hr1, hr2⟩ := hr
    simp only [sndOps]
    cases h : sndOp P s op with
    | some o =>
      intro o' ho'
      rcases List.mem_cons.1 ho' with rfl | ho'
      · cases op with
        | write si ppi =>
          simp only [sndOp, Option.some.injEq] at h
          subst h
          trivial
        | snd so =>
          cases so with
          | write a b c => simp [sndOp] at h
          | openS a u rt d e =>
            simp only [sndOp, Option.some.injEq] at h; subst h
            simp only [OrdOnlyOp, Bool.not_eq_true'] at hr1
            exact hr1
          | unreg a => simp [OrdOnlyOp] at hr1
          | _ => simp only [sndOp, Option.some.injEq] at h; subst h; trivial
        | deliver is => simp [sndOp] at h
        | rcv ro => simp [sndOp] at h
      · exact ih _ hr2 o' ho'
    | none => exact ih s hr2

/-- what the composition proofs need to know about the sender run, with `acc` = accepted writes, `mv` = moved chunks,
`W` = chunks written, `wr` = chunks ever put on the wire -/
structure UFacts (P : Params) (acc : List Write) (mv : List Chunk) (W : Nat) (wr : List Chunk) : Prop where
  ctx : DCtx P acc mv
  wlt : W < 2^31
  mvW : mv.length ≤ W
  hfr : ∀ a ∈ acc, 1 ≤ nfr P a ∧ nfr P a ≤ W ∧ 0 < P.cfg.maxPayload.toNat
  hchunk : ∀ c ∈ wr, ∃ (ws1 : List Write) (a : Write) (ws2 : List Write) (i : Nat),
      acc = ws1 ++ a :: ws2 ∧ c.msg = a.msg ∧ c.si = a.si ∧
      cntOf ws1 a.si < (senderD P acc mv a.si).msgs.length ∧ i < (senderD P acc mv a.si).nf (cntOf ws1 a.si) ∧
      toWire P c = (senderD P acc mv a.si).dataFrag (cntOf ws1 a.si) i ∧
      (senderD P acc mv a.si).base (cntOf ws1 a.si) + i = (mv.map Chunk.frag).idxOf (Chunk.frag c) ∧
      (mv.map Chunk.frag).idxOf (Chunk.frag c) < mv.length
  hidxAll : ∀ x k i, k < (senderD P acc mv x).msgs.length → i < (senderD P acc mv x).nf k →
      (senderD P acc mv x).base k + i < W
  /-- a fragment whose message's first fragment never moved has an offset beyond every TSN in use -/
  hbase : ∀ x k, k < (senderD P acc mv x).msgs.length → ∀ ak, (acc.filter (·.si == x))[k]? = some ak →
      (senderD P acc mv x).nf k = nfr P ak ∧
      (senderD P acc mv x).base k = posOf P acc x k + ((mv.map Chunk.frag).idxOf (fragOf false ak k 0 (nfr P ak)) - posOf P acc x k)

theorem ufacts (P : Params) (ops : List Op) (hil : P.cfg.useInterleaving = false) (hrel : OrdOnly ops = true)
    (hsel : SelContig P ops = true) (hN : chunksWritten P ops < 2^31) :
    UFacts P (accepted (init P).snd (sndOps P (init P).snd ops)) (moved (init P).snd (sndOps P (init P).snd ops))
      (written (init P).snd (sndOps P (init P).snd ops)).length (wire (init P).snd (sndOps P (init P).snd ops)) := by
  have hs0 : (init P).snd = Sender.init P.cfg P.tsn P.peerRwnd := rfl
  have hlen := sndOps_lenOk P (init P).snd ops
  have hord := sndOps_ordOnly P (init P).snd ops hrel
  have hident := wire_ident P.cfg P.tsn P.peerRwnd (fun m => (P.pay m).length) (sndOps P (init P).snd ops) hord hlen
  have hmid := moved_ident P.cfg P.tsn P.peerRwnd (fun m => (P.pay m).length) (sndOps P (init P).snd ops) hord hlen
  obtain ⟨hal, hfr⟩ := accepted_le_written P.cfg P.tsn P.peerRwnd (fun m => (P.pay m).length) (sndOps P (init P).snd ops) hord hlen
  have hmv := moved_le_written P.cfg P.tsn P.peerRwnd (sndOps P (init P).snd ops)
  have hnd := moved_frag_nodup P.cfg P.tsn P.peerRwnd (sndOps P (init P).snd ops)
  have hsorted := accepted_sorted (init P).snd (sndOps P (init P).snd ops)
  obtain ⟨hgen, _⟩ := run_gen P.cfg.useInterleaving (fun m => (P.pay m).length) [] (init P).snd (sndOps P (init P).snd ops)
    (init_cinv _ P.cfg P.tsn P.peerRwnd) rfl hord hlen
  have hcnt := moved_count_le P.cfg P.tsn P.peerRwnd (sndOps P (init P).snd ops)
  rw [← hs0] at hident hal hfr hmv hmid hnd hcnt
  simp only [chunksWritten] at hN
  simp only [SelContig, Bool.and_eq_true] at hsel
  obtain ⟨hsel1, hsel2⟩ := hsel
  rw [hil] at hident hmid hgen
  generalize hacc : accepted (init P).snd (sndOps P (init P).snd ops) = acc at hident hal hfr hmid hsorted hsel2 hgen ⊢
  generalize hmvd : moved (init P).snd (sndOps P (init P).snd ops) = mv at hident hmv hmid hnd hsel1 hsel2 hcnt ⊢
  generalize hWl : written (init P).snd (sndOps P (init P).snd ops) = Wl at hN hal hfr hmv hgen hcnt ⊢
  have hcfg0 : (init P).snd.cfg = P.cfg := rfl
  rw [hcfg0] at hgen
  have hWsum : Wl.length = (acc.map (nfr P)).sum := by
    rw [hgen, gen_length_eq]; rfl
  have ctx : DCtx P acc mv :=
    { il := hil, sorted := hsorted,
      mvid := fun j m hj => by
        obtain ⟨_, ws1, a, ws2, i, e1, e2, e3⟩ := hmid j m hj
        exact ⟨ws1, a, ws2, i, e1, e2, e3⟩
      nd := hnd, contig := contigB_spec mv hsel1, fifo := fifoB_spec P acc mv hsel2,
      small := fun a ha => by have := (hfr a ha).2.1; simp only [nfr]; omega }
  have hchunk : ∀ c ∈ wire (init P).snd (sndOps P (init P).snd ops), ∃ (ws1 : List Write) (a : Write) (ws2 : List Write) (i : Nat),
      acc = ws1 ++ a :: ws2 ∧ c.msg = a.msg ∧ c.si = a.si ∧
      cntOf ws1 a.si < (senderD P acc mv a.si).msgs.length ∧ i < (senderD P acc mv a.si).nf (cntOf ws1 a.si) ∧
      toWire P c = (senderD P acc mv a.si).dataFrag (cntOf ws1 a.si) i ∧
      (senderD P acc mv a.si).base (cntOf ws1 a.si) + i = (mv.map Chunk.frag).idxOf (Chunk.frag c) ∧
      (mv.map Chunk.frag).idxOf (Chunk.frag c) < mv.length := by
    intro c hc
    obtain ⟨ws1, a, ws2, i, e1, e2, e3, e4, e5, e6⟩ := hident c hc
    obtain ⟨t1, t2, t3, t4⟩ := toWire_data P acc ws1 ws2 a mv ctx e1 c i e2 e3 e4 e5 e6
    have hcm : c.msg = a.msg ∧ c.si = a.si := by
      have h1 := congrArg (fun x => x.2.1) e3
      have h2 := congrArg (fun x => x.1) e3
      simp only [Chunk.frag, fragOf] at h1 h2
      exact ⟨h1, h2⟩
    exact ⟨ws1, a, ws2, i, e1, hcm.1, hcm.2, t1, t2, t3, t4, e5⟩
  have hbase : ∀ x k, k < (senderD P acc mv x).msgs.length → ∀ ak, (acc.filter (·.si == x))[k]? = some ak →
      (senderD P acc mv x).nf k = nfr P ak ∧
      (senderD P acc mv x).base k = posOf P acc x k + ((mv.map Chunk.frag).idxOf (fragOf false ak k 0 (nfr P ak)) - posOf P acc x k) := by
    intro x k hk ak hak
    have hnfk : (senderD P acc mv x).nf k = nfr P ak := by
      have hmsg := senderI_msg P acc x k ak hak
      have : (senderD P acc mv x).msg k = (senderI P acc x).msg k := rfl
      simp only [Reasm.Sender.nf, this, hmsg, Reasm.Msg.nf, cut_length, nfr]
    have hidxk : idxOfFrag P acc mv x k 0 = (mv.map Chunk.frag).idxOf (fragOf false ak k 0 (nfr P ak)) := by
      simp only [idxOfFrag, hak, hil, nfr]
    have hb : (senderD P acc mv x).base k = posOf P acc x k + (idxOfFrag P acc mv x k 0 - posOf P acc x k) := rfl
    rw [hidxk] at hb
    exact ⟨hnfk, hb⟩
  have hidxAll : ∀ x k i, k < (senderD P acc mv x).msgs.length → i < (senderD P acc mv x).nf k →
      (senderD P acc mv x).base k + i < Wl.length := by
    intro x k i hk hi
    have hklen : k < (acc.filter (·.si == x)).length := by
      have : (senderD P acc mv x).msgs.length = (acc.filter (·.si == x)).length := by simp [senderD, msgsOf]
      omega
    have hak : (acc.filter (·.si == x))[k]? = some (acc.filter (·.si == x))[k] := List.getElem?_eq_getElem hklen
    obtain ⟨u, v, eu, cu, hsu⟩ := filter_get_split acc x k _ hak
    generalize (acc.filter (·.si == x))[k] = ak at hak eu hsu
    obtain ⟨hnfk, hb⟩ := hbase x k hk ak hak
    have cW := gen_count_msg false P.cfg.maxPayload.toNat (fun m => (P.pay m).length) acc u v ak ctx.sorted eu
    rw [← hgen] at cW
    have cM := moved_count_msg ctx u v ak eu
    rw [hsu, cu] at cM
    have un := unmoved_ge Wl mv hcnt (msgIs ak.msg)
    have h1 : (mv.map Chunk.frag).idxOf (fragOf false ak k 0 (nfr P ak)) ≤ mv.length := by
      have := List.idxOf_le_length (l := mv.map Chunk.frag) (a := fragOf false ak k 0 (nfr P ak))
      simpa using this
    have h2 := posOf_le P acc x (k + 1)
    have h3 := posOf_succ P acc x k hk
    have h4 : (senderD P acc [] x).nf k = (senderD P acc mv x).nf k := rfl
    have hn : (fragSizes P.cfg.maxPayload.toNat (P.pay ak.msg).length).length = nfr P ak := rfl
    rw [hn] at cW
    generalize (mv.map Chunk.frag).idxOf (fragOf false ak k 0 (nfr P ak)) = J0 at cM h1 hb
    generalize ((mv.map Chunk.frag).countP (msgIs ak.msg)) = cm at cM un
    generalize ((Wl.map Chunk.frag).countP (msgIs ak.msg)) = cw at cW un
    omega
  exact ⟨ctx, hN, hmv, fun a ha => by have := hfr a ha; exact ⟨this.1, this.2.1, this.2.2⟩, hchunk, hidxAll, hbase⟩

end NetSys
