import SctpVerif.Proofs.NetSys.Proj
import SctpVerif.Proofs.NetSys.Cut
import SctpVerif.Proofs.Sender.AccLen
/-!
The universe of a NetSys run: one `Reasm.Sender` per stream, its messages = the accepted writes on that stream with
their payloads cut as `packetize` cuts them. I-DATA: fragment `(k, i)` travels with TSN `tsn + ν k i`, `ν k i` = its
position among the chunks moved to in flight (`nuOf`). Every chunk on the wire, decoded by `toWire`, IS the fragment
`idataFrag k i` of the universe for the right `(k, i)` (`toWire_idata`).
-/
namespace NetSys
open SenderProofs SenderTsn Sender

/-! ### a duplicate-free list of stream ids -/

def uniq : List (BitVec 16) → List (BitVec 16)
  | [] => []
  | x :: xs => if x ∈ uniq xs then uniq xs else x :: uniq xs

theorem uniq_mem (l : List (BitVec 16)) (x : BitVec 16) : x ∈ uniq l ↔ x ∈ l := by
  induction l with
  | nil => simp [uniq]
  | cons y ys ih =>
    simp only [uniq]
    split
    · rename_i h
      rw [ih, List.mem_cons]
      constructor
      · exact Or.inr
      · rintro (rfl | h')
        · exact (ih.1 h)
        · exact h'
    · rw [List.mem_cons, List.mem_cons, ih]

theorem uniq_nodup (l : List (BitVec 16)) : (uniq l).Nodup := by
  induction l with
  | nil => exact List.nodup_nil
  | cons y ys ih =>
    simp only [uniq]
    split
    · exact ih
    · rename_i h
      exact List.nodup_cons.2 ⟨h, ih⟩

/-! ### the universe -/

/-- the messages written on stream `si`: PPI and the payload cut into fragments -/
def msgsOf (P : Params) (acc : List Write) (si : BitVec 16) : List Reasm.Msg :=
  (acc.filter (·.si == si)).map fun a => { ppi := a.ppi, frags := cut P.cfg.maxPayload.toNat (P.pay a.msg) }

/-- position, among the moved chunks, of fragment `i` of the `k`-th accepted write on `si` (`mv.length` if it was never moved) -/
def idxOfFrag (P : Params) (acc : List Write) (mv : List Chunk) (si : BitVec 16) (k i : Nat) : Nat :=
  match (acc.filter (·.si == si))[k]? with
  | none => mv.length
  | some a => (mv.map Chunk.frag).idxOf
      (fragOf P.cfg.useInterleaving a k i (fragSizes P.cfg.maxPayload.toNat (P.pay a.msg).length).length)

/-- the TSN offset of fragment `(k, i)` of stream `si` (0 for a fragment that never got a TSN: it is never delivered) -/
def nuOf (P : Params) (acc : List Write) (mv : List Chunk) (si : BitVec 16) (k i : Nat) : Nat :=
  if idxOfFrag P acc mv si k i < mv.length then idxOfFrag P acc mv si k i else 0

def senderI (P : Params) (acc : List Write) (si : BitVec 16) : Reasm.Sender :=
  { si := si, t0 := P.tsn, msgs := msgsOf P acc si }

/-- one sender per stream with accepted writes, and `si0` -/
def sendersI (P : Params) (acc : List Write) (si0 : BitVec 16) : List Reasm.Sender :=
  (uniq (si0 :: acc.map (·.si))).map (senderI P acc)

theorem filter_split (acc ws1 ws2 : List Write) (a : Write) (h : acc = ws1 ++ a :: ws2) :
    (acc.filter (·.si == a.si))[cntOf ws1 a.si]? = some a ∧ cntOf ws1 a.si < cntOf acc a.si := by
  subst h
  simp only [cntOf, List.filter_append, List.length_append]
  have hf : (a :: ws2).filter (·.si == a.si) = a :: ws2.filter (·.si == a.si) := by simp [List.filter_cons]
  rw [hf]
  refine ⟨?_, by simp⟩
  rw [List.getElem?_append_right (Nat.le_refl _)]
  simp

theorem msgsOf_length (P : Params) (acc : List Write) (si : BitVec 16) : (msgsOf P acc si).length = cntOf acc si := by
  simp [msgsOf, cntOf]

theorem senderI_msg (P : Params) (acc : List Write) (si : BitVec 16) (k : Nat) (a : Write)
    (h : (acc.filter (·.si == si))[k]? = some a) :
    (senderI P acc si).msg k = { ppi := a.ppi, frags := cut P.cfg.maxPayload.toNat (P.pay a.msg) } := by
  simp only [Reasm.Sender.msg, senderI, msgsOf, List.getD_eq_getElem?_getD, List.getElem?_map, h, Option.map_some, Option.getD_some]

theorem setWidth16_ofNat32 (k : Nat) : BitVec.setWidth 16 (BitVec.ofNat 32 k) = BitVec.ofNat 16 k := by
  apply BitVec.eq_of_toNat_eq
  simp only [BitVec.toNat_setWidth, BitVec.toNat_ofNat]
  exact Nat.mod_mod_of_dvd k (by decide : 2^16 ∣ 2^32)

/-- **A wire chunk decoded is the universe's I-DATA fragment.** -/
theorem toWire_idata (P : Params) (hil : P.cfg.useInterleaving = true) (acc ws1 ws2 : List Write) (a : Write)
    (hacc : acc = ws1 ++ a :: ws2) (mv : List Chunk) (e : Chunk) (i : Nat)
    (hi : i < (fragSizes P.cfg.maxPayload.toNat (P.pay a.msg).length).length) (hi32 : i < 2^32)
    (hf : Chunk.frag e = fragOf P.cfg.useInterleaving a (cntOf ws1 a.si) i (fragSizes P.cfg.maxPayload.toNat (P.pay a.msg).length).length)
    (hlen : (fragSizes P.cfg.maxPayload.toNat (P.pay a.msg).length)[i]? = some e.len)
    (hidx : (mv.map Chunk.frag).idxOf (Chunk.frag e) < mv.length)
    (htsn : e.tsn = P.tsn + BitVec.ofNat 32 ((mv.map Chunk.frag).idxOf (Chunk.frag e))) :
    cntOf ws1 a.si < (senderI P acc a.si).msgs.length ∧ i < (senderI P acc a.si).nf (cntOf ws1 a.si) ∧
    toWire P e = (senderI P acc a.si).idataFrag (fun k i => P.tsn + BitVec.ofNat 32 (nuOf P acc mv a.si k i)) (cntOf ws1 a.si) i := by
  obtain ⟨hget, hk⟩ := filter_split acc ws1 ws2 a hacc
  have hmsg := senderI_msg P acc a.si _ a hget
  have hnf : (senderI P acc a.si).nf (cntOf ws1 a.si) = (fragSizes P.cfg.maxPayload.toNat (P.pay a.msg).length).length := by
    simp only [Reasm.Sender.nf, hmsg, Reasm.Msg.nf, cut_length]
  have hnu : nuOf P acc mv a.si (cntOf ws1 a.si) i = (mv.map Chunk.frag).idxOf (Chunk.frag e) := by
    simp only [nuOf, idxOfFrag, hget, ← hf, hidx, if_true]
  have hud : ((senderI P acc a.si).msg (cntOf ws1 a.si)).frags.getD i [] =
      ((P.pay a.msg).drop (i * P.cfg.maxPayload.toNat)).take e.len := by
    rw [hmsg]
    simp only [List.getD_eq_getElem?_getD, cut_get _ _ _ _ hlen, Option.getD_some]
  simp only [Chunk.frag, fragOf, hil, if_true, Prod.mk.injEq] at hf
  obtain ⟨f1, f2, f3, f4, f5, f6, f7, f8, f9⟩ := hf
  have hfsn : e.fsn.toNat = i := by
    rw [f9, BitVec.toNat_ofNat]; exact Nat.mod_eq_of_lt hi32
  refine ⟨by simp only [senderI]; rw [msgsOf_length]; exact hk, by rw [hnf]; exact hi, ?_⟩
  simp only [toWire, Reasm.Sender.idataFrag, hil, if_true, Bool.true_and, hnu, hnf, hud, Reasm.Chunk.mk.injEq]
  refine ⟨htsn, f1, ?_, f8, ?_, f4, f5, f6, trivial, ?_, ?_⟩
  · rw [f8, setWidth16_ofNat32]
  · rw [f5, f9]
    cases i with
    | zero => simp
    | succ n => simp
  · rw [f5, hmsg, f3]
    cases i with
    | zero => simp
    | succ n => simp
  · rw [f2, hfsn]

end NetSys
