import SctpVerif.Proofs.NetSys.LiveHead
import SctpVerif.Proofs.NetSys.LiveTake
import SctpVerif.Proofs.NetSys.LiveAcked
import SctpVerif.Proofs.Receiver.Cfg
/-!
`Taken` from the premises of one healed round (`Props/C02net.lean`): sender half `head_on_wire`, receiver half
`handleData_takes`, glued by the run invariants `run_qb` / `snd_idx` and the monotonicity of the receiver's cumulative point.
-/
namespace NetSysLive
open Gen NetSys

/-- the receiver's cumulative point never moves backwards along a run -/
theorem run_idx_mono (P : Params) (ops l : List Op) (hN : tsnsUsed P (ops ++ l) < 2^31) :
    idx P.tsn (run P (init P) ops).rcv.pq ≤ idx P.tsn (run P (init P) (ops ++ l)).rcv.pq := by
  induction l using List.reverseRecOn with
  | nil => simp
  | append_singleton l op ih =>
    have hm : tsnsUsed P (ops ++ l) ≤ tsnsUsed P (ops ++ (l ++ [op])) := by
      rw [← List.append_assoc]; exact tsnsUsed_mono P (ops ++ l) [op]
    have h1 := ih (by omega)
    have hq := (run_qb P (ops ++ l) (by omega)).mono hm
    have := (step_rcv_qb P (ops ++ l) op _ hN hm hq).2
    rw [← List.append_assoc, NetSys.run_append (o2 := [op])]
    exact Nat.le_trans h1 this

/-! ### the accepts at the head of the round -/

theorem accept_fst (r : Receiver.St) : (Receiver.accept r).1 = { r with acceptQ := r.acceptQ.drop 1 } := by
  unfold Receiver.accept
  cases h : r.acceptQ with
  | nil => simp only [List.drop_nil]; rw [← h]
  | cons n rest => simp

theorem run_accepts (n : Nat) : ∀ r : Receiver.St,
    Receiver.run r (List.replicate n .accept) = { r with acceptQ := r.acceptQ.drop n } := by
  induction n with
  | zero => intro r; simp [Receiver.run]
  | succ n ih =>
    intro r
    rw [List.replicate_succ, Receiver.run, List.foldl_cons, ← Receiver.run]
    show Receiver.run (Receiver.accept r).1 _ = _
    rw [ih, accept_fst]
    simp [List.drop_drop, Nat.add_comm]

theorem run_rcvOnly_accepts (P : Params) (n : Nat) : ∀ s : St,
    run P s (List.replicate n (.rcv .accept)) = { s with rcv := Receiver.run s.rcv (List.replicate n .accept) } := by
  induction n with
  | zero => intro s; rfl
  | succ n ih =>
    intro s
    rw [List.replicate_succ, List.replicate_succ]
    simp only [run]
    rw [ih]
    simp [step, sndOp, rcvOp, Receiver.run]

theorem run_acceptAll (P : Params) (s : St) :
    run P s (acceptAll s.rcv) = { s with rcv := { s.rcv with acceptQ := [] } } := by
  unfold acceptAll
  rw [run_rcvOnly_accepts, run_accepts]
  simp

/-! ### receiver configuration along a NetSys run -/

theorem run_rcv_cfg (P : Params) (ops : List Op) :
    (run P (init P) ops).rcv.scp = false ∧ (run P (init P) ops).rcv.il = P.cfg.useInterleaving ∧
    1 ≤ (run P (init P) ops).rcv.pq.maxOff.toNat := by
  rw [run_rcv]
  refine ⟨by rw [Receiver.run_scp]; rfl, by rw [Receiver.run_il]; rfl, ?_⟩
  rw [Receiver.run_pq]
  have I : RecvQ.Inv (init P).rcv.pq := (init_qb P).inv
  rw [(Receiver.qrun_inv I _).2]
  exact (Receiver.init_binv 0 P.maxBuf P.maxEntries P.cfg.useInterleaving P.useFwd P.useIFwd P.ackMode P.tsn
    (by have := P.maxBuf.isLt; omega)).mo

/-- ✱ receiver half on reachable NetSys states -/
theorem receiver_takes (P : Params) (ops : List Op) (hN : chunksWritten P ops < 2^31) (c : Sender.Chunk) (imm : Bool)
    (hc : c ∈ (run P (init P) ops).wire) (hst : (run P (init P) ops).rcv.state = 3#32)
    (htsn : c.tsn = (run P (init P) ops).rcv.pq.cum + 1)
    (hstream : (Receiver.getOrCreateStream (run P (init P) ops).rcv c.si true).2.isSome = true)
    (hroom : Room (run P (init P) ops).rcv = true) :
    (Receiver.handleData (run P (init P) ops).rcv (toWire P c) imm).willSendAbort = true ∨
    (Receiver.handleData (run P (init P) ops).rcv (toWire P c) imm).panicked = true ∨
    idx P.tsn (run P (init P) ops).rcv.pq + 1 ≤ idx P.tsn (Receiver.handleData (run P (init P) ops).rcv (toWire P c) imm).pq := by
  have hM : tsnsUsed P ops < 2^31 := Nat.lt_of_le_of_lt (tsnsUsed_le P ops) hN
  obtain ⟨c1, c2, c3⟩ := run_rcv_cfg P ops
  exact handleData_takes hM _ (toWire P c) imm (run_qb P ops hM) (wire_below P ops c hc) hst c1
    (by rw [c2]; rfl) htsn c3 (run_pq_maxOff P ops).1 hstream hroom

end NetSysLive
