import SctpVerif.Proofs.NetSys.LiveAbort
import SctpVerif.Proofs.NetSys.LiveHonestN
/-!
`Normal` and `HeadOk` discharged (`Props/C02net.lean`, `C02_netsys_drains_honest_nocap`): with the reassembly entry cap off and
every chunk of the history decoding to non-empty user data, `RoundOkEN` (receiver established, `Room`) gives `RoundOkHN`.
-/
namespace NetSysLive
open Gen NetSys

theorem wireData_of_B (P : Params) (w : List Sender.Chunk) (h : WireDataB P w = true) : WireData P w := by
  intro c hc
  simp only [WireDataB, List.all_eq_true, Bool.not_eq_true'] at h
  have := h c hc
  intro he; rw [he] at this; simp at this

theorem run_wire_sub (P : Params) (a b : List Op) : ∀ c ∈ (run P (init P) a).wire, c ∈ (run P (init P) (a ++ b)).wire := by
  intro c hc
  rw [NetSys.run_append, (run_snd P _ b).2]
  exact List.mem_append_left _ hc

theorem wireData_prefix (P : Params) (a b : List Op) (h : WireData P (run P (init P) (a ++ b)).wire) :
    WireData P (run P (init P) a).wire := fun c hc => h c (run_wire_sub P a b c hc)

/-- `HeadOk` in every reachable state whose round stays inside a history with non-empty user data -/
theorem headOk_nocap (P : Params) (h0 : P.maxEntries = 0) (ops : List Op)
    (hw : WireData P (run P (init P) (ops ++ roundOps P (run P (init P) ops))).wire) :
    HeadOk P (run P (init P) ops) = true := by
  have e : run P (run P (init P) ops) (firstOps (run P (init P) ops)) = run P (init P) (ops ++ firstOps (run P (init P) ops)) := by
    rw [NetSys.run_append]
  simp only [HeadOk, Bool.and_eq_true, Bool.not_eq_true']
  rw [e]
  refine ⟨run_noabort P h0 _ ?_, (run_nb0 P h0 _).2.2.1.1⟩
  -- the history after `firstOps` is the history after the accepts and the sender's operations, a prefix of the round
  have hsplit : ops ++ roundOps P (run P (init P) ops) =
      (ops ++ (acceptAll (run P (init P) ops).rcv ++ sendOps (run P (init P) ops).snd)) ++
        (deliverOps (run P (init P) ops).wire.length
            (run P (run P (init P) ops) (acceptAll (run P (init P) ops).rcv ++ sendOps (run P (init P) ops).snd)).wire.length ++
          recvOps (run P (run P (run P (init P) ops) (acceptAll (run P (init P) ops).rcv ++ sendOps (run P (init P) ops).snd))
            (deliverOps (run P (init P) ops).wire.length
              (run P (run P (init P) ops) (acceptAll (run P (init P) ops).rcv ++ sendOps (run P (init P) ops).snd)).wire.length)).rcv) := by
    unfold roundOps; simp [List.append_assoc]
  rw [hsplit] at hw
  have h1 := wireData_prefix P _ _ hw
  have e2 : (run P (init P) (ops ++ firstOps (run P (init P) ops))).wire =
      (run P (init P) (ops ++ (acceptAll (run P (init P) ops).rcv ++ sendOps (run P (init P) ops).snd))).wire := by
    unfold firstOps
    rw [← List.append_assoc, NetSys.run_append (o2 := [_])]
    exact (step_snd_none P _ _ rfl).2
  rw [e2]; exact h1

theorem roundOkHN_of_nocap (P : Params) (h0 : P.maxEntries = 0) (n : Nat) : ∀ ops,
    WireData P (run P (init P) (ops ++ healedRounds P n (run P (init P) ops))).wire →
    RoundOkEN P n (run P (init P) ops) = true → RoundOkHN P n (run P (init P) ops) = true := by
  induction n with
  | zero => intro _ _ _; rfl
  | succ n ih =>
    intro ops hw hok
    simp only [RoundOkEN, Bool.and_eq_true, Bool.or_eq_true, beq_iff_eq] at hok
    simp only [RoundOkHN, Bool.and_eq_true, Bool.or_eq_true, beq_iff_eq]
    have hw' : WireData P (run P (init P) ((ops ++ healedRound P (run P (init P) ops)) ++
        healedRounds P n (healed P (run P (init P) ops)))).wire := by
      simp only [healedRounds, ← List.append_assoc] at hw; exact hw
    constructor
    · rcases hok.1 with h | h
      · exact Or.inl h
      · right
        simp only [RoundOkE, Bool.and_eq_true, beq_iff_eq] at h
        simp only [RoundOkH, Bool.and_eq_true, beq_iff_eq, Normal, Bool.not_eq_true']
        refine ⟨⟨⟨h.1, h.2⟩, run_normal P h0 ops⟩, headOk_nocap P h0 ops ?_⟩
        have := wireData_prefix P _ _ hw'
        unfold healedRound at this
        rw [← List.append_assoc] at this
        exact wireData_prefix P _ _ this
    · have hok2 := hok.2
      rw [healed_run] at hok2 hw' ⊢
      exact ih _ hw' hok2

end NetSysLive
