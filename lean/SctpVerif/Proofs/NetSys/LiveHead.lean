import SctpVerif.Proofs.NetSys.LiveRound
/-!
Sender half of the `Taken` argument (`Props/C02net.lean`), restated for the healed round: after "T3 (if something is in
flight); gather (free burst budget, FIFO selection)" the LOWEST outstanding chunk — the head of the in-flight queue, TSN =
cumulative ack point + 1 — is gap-acked or is the FIRST chunk the gather put on the wire, whatever cwnd / rwnd are. The
argument is the one of `SenderProofs.roundF_progress` (T3 flags it, `gatherRtx_lowest` sends a flagged chunk at loop index 0
whatever the windows are; nothing in flight ⇒ `gather_progress`: the zero-window probe) without the abandoned case.
-/
namespace NetSysLive
open Gen NetSys Sender SenderProofs

/-- the sender state the round's gather starts from -/
def sndT3 (s : Sender.St) : Sender.St := if s.inflight.isEmpty then s else Sender.t3 s

theorem sndPre_eq (s : Sender.St) : sndPre s = (gather (sndT3 s) freeOracle (fifoSel (sndT3 s))).1 := rfl

theorem live_sndT3 {s : Sender.St} (h : Live s) : Live (sndT3 s) := by
  unfold sndT3; split
  · exact h
  · exact live_t3 h

theorem sndT3_frame (s : Sender.St) : (sndT3 s).cumAck = s.cumAck ∧ (sndT3 s).pending = s.pending ∧
    (sndT3 s).inflight.length = s.inflight.length ∧ (sndT3 s).cfg = s.cfg := by
  unfold sndT3; split
  · exact ⟨rfl, rfl, rfl, rfl⟩
  · have f := (t3_frame s).1
    exact ⟨f.2.2.2.2.2.2.2.2.2.2.2.1, f.2.2.2.2.2.2.1, (t3_lengths s).1, f.2.2.2.2.1⟩

theorem sndPre_cumAck (s : Sender.St) : (sndPre s).cumAck = s.cumAck := by
  rw [sndPre_eq, (gather_grel _ _ _).2.2.2.1, (sndT3_frame s).1]

theorem gatherRtx_nil (s : Sender.St) (orc : Oracle) (h : s.inflight = []) : (gatherRtx s orc).2.1 = [] := by
  simp [gatherRtx, scanSplit, Sender.get, h, scanLoop]

/-- the chunks a gather puts on the wire: the retransmissions, then the new chunks, then the fast retransmissions -/
theorem gather_flat (s : Sender.St) (orc : Oracle) (sel : List Nat) (he : s.established = true) :
    (gatherRtx s orc).2.1 ++ (gather s orc sel).2.admits.map (·.chunk) <+: (gather s orc sel).2.packets.flatten := by
  have hmid : ∀ nc : List Chunk, (if nc.isEmpty = true then [] else bundle s.cfg.mtu s.cfg.useInterleaving nc [] hdr).flatten = nc := by
    intro nc
    split
    · rename_i hemp
      rw [List.isEmpty_iff.mp hemp]; rfl
    · rw [bundle_flat, List.nil_append]
  unfold GatherOut.packets gather
  simp only [he, Bool.not_true, Bool.false_eq_true, if_false, List.flatten_append]
  rw [bundle_flat, List.nil_append, hmid]
  exact List.prefix_append _ _

/-- ✱ the lowest outstanding chunk is gap-acked or first on the wire -/
theorem head_on_wire (s : Sender.St) (h : Live s) (hfit : InfFit s)
    (hnab : ∀ c ∈ (sndT3 s).inflight, (sndT3 s).abandoned c = false)
    (hpos : 0 < s.inflight.length + s.pending.length) :
    ∃ c0 r, (sndPre s).inflight = c0 :: r ∧ c0.tsn = s.cumAck + 1 ∧
      (c0.acked = true ∨ ∃ e rest, (gather (sndT3 s) freeOracle (fifoSel (sndT3 s))).2.packets.flatten = e :: rest ∧ e.tsn = c0.tsn) := by
  have h1 := live_sndT3 h
  obtain ⟨fc, fp, fl, fcfg⟩ := sndT3_frame s
  have hx : Live (sndPre s) := by rw [sndPre_eq]; exact live_gather h1 _ _
  have hcum := sndPre_cumAck s
  obtain ⟨fpk, hflat⟩ := gather_flat (sndT3 s) freeOracle (fifoSel (sndT3 s)) h1.est
  replace hflat := hflat.symm
  -- the head's TSN
  have htsn : ∀ c0 r, (sndPre s).inflight = c0 :: r → c0.tsn = s.cumAck + 1 := by
    intro c0 r e
    have := hx.seq.1
    rw [e, hcum] at this
    exact this.1
  by_cases hin : s.inflight = []
  · -- nothing in flight: the gather admits a chunk (zero-window probe at worst); it is the first chunk on the wire
    have hs1 : sndT3 s = s := by unfold sndT3; simp [hin]
    have hpne : s.pending ≠ [] := by
      intro he; rw [hin, he] at hpos; simp at hpos
    rw [hs1] at hflat h1
    obtain ⟨i, rest, hsel, hi⟩ := pickHead_ok s hpne
    have hpk := peek_of_pick s (fifoSel s) i rest hsel hi
    have hmem : s.pending[i] ∈ s.pending := List.getElem_mem hi
    obtain ⟨l0, lfit⟩ := h.fit _ hmem
    have hpen : s.penChunks > 0 := by
      rw [h.core.penN]
      have : 0 < s.pending.length := List.length_pos_iff.mpr hpne
      omega
    have hadm := (gather_progress s freeOracle (fifoSel s) i s.pending[i] h.est hin hpen hpk l0 (h.core.penSmall _ hmem).1 lfit rfl).2.1
    have hinf := gather_inflight s freeOracle (fifoSel s)
    rw [hin] at hinf
    rw [gatherRtx_nil s freeOracle hin] at hflat
    cases ha : (gather s freeOracle (fifoSel s)).2.admits with
    | nil => exact absurd ha hadm
    | cons x xs =>
      rw [ha] at hinf hflat
      have hpre : sndPre s = (gather s freeOracle (fifoSel s)).1 := by rw [sndPre_eq, hs1]
      cases hq : (sndPre s).inflight with
      | nil => rw [hpre] at hq; rw [hq] at hinf; simp at hinf
      | cons c0 r =>
        rw [hpre] at hq
        rw [hq] at hinf
        simp only [List.map_cons, List.map_nil, List.nil_append, List.cons.injEq] at hinf
        obtain ⟨_, _, e3⟩ := core_len_acked hinf.1
        refine ⟨c0, r, rfl, htsn c0 r (by rw [hpre]; exact hq), Or.inr ⟨x.chunk, xs.map (·.chunk) ++ fpk, ?_, e3.symm⟩⟩
        rw [hs1, hflat]; rfl
  · -- the head of the queue: gap-acked before, or flagged by T3 and retransmitted at loop index 0
    have hs1 : sndT3 s = Sender.t3 s := by
      unfold sndT3
      have : s.inflight.isEmpty = false := by simpa using hin
      simp [this]
    cases hq : (sndT3 s).inflight with
    | nil =>
      exfalso
      have := fl; rw [hq] at this
      exact hin (List.eq_nil_of_length_eq_zero this.symm)
    | cons f rest =>
      obtain ⟨c0, r, e1, e2, e3⟩ := gather_head (sndT3 s) freeOracle (fifoSel (sndT3 s)) f rest hq
      refine ⟨c0, r, e1, htsn c0 r e1, ?_⟩
      by_cases hacked : f.acked = true
      · left; rw [e3]; exact hacked
      · right
        have hacked' : f.acked = false := by simpa using hacked
        have hfmem : f ∈ (sndT3 s).inflight := by rw [hq]; simp
        have hab' := hnab f hfmem
        have hflagged : f.retransmit = true := by
          have := t3_marks_all s f (by rw [← hs1]; exact hfmem) hacked' (by rw [← hs1]; exact hab')
          exact this
        have hfit1 : InfFit (sndT3 s) := by rw [hs1]; exact t3_inffit s hfit
        have hfit' := hfit1 f hfmem hacked'
        have hlen : (f.len : Int) ≤ f.sizeInPacket (sndT3 s).cfg.useInterleaving := len_le_sizeInPacket _ f
        have hcw : (sndT3 s).cfg.mtu.toNat ≤ (sndT3 s).cwnd.toNat := by
          rw [hs1]
          have e := (t3_frame s).2.1
          have c := (t3_frame s).1.2.2.2.2.1
          rw [e, c]
          exact (setCwnd_ge s (t3_cwndArg s.cfg.mtu)).1
        have hwin : ([] = ([] : List Chunk) ∧ (sndT3 s).rwnd.toNat < f.len) ∨ f.len ≤ (min32 (sndT3 s).cwnd (sndT3 s).rwnd).toNat := by
          rw [min32_toNat]
          by_cases hr : (sndT3 s).rwnd.toNat < f.len
          · exact Or.inl ⟨rfl, hr⟩
          · right
            have : (0 : Int) ≤ hdr := by decide
            omega
        obtain ⟨tl, htl⟩ := gatherRtx_lowest (sndT3 s) freeOracle h1.seq [] f rest (by rw [hq]; rfl) (by intro x hx; cases hx)
          hflagged hab' hwin hfit' rfl
        rw [htl] at hflat
        exact ⟨rtxUpd (sndT3 s) f, tl ++ (gather (sndT3 s) freeOracle (fifoSel (sndT3 s))).2.admits.map (·.chunk) ++ fpk,
          by rw [hflat]; simp, by rw [e2]; rfl⟩

end NetSysLive
