import SctpVerif.Proofs.NetSys.LiveGlue
/-!
`TakenN` from the readable per-round premises `RoundOkN` (`Props/C02net.lean`): along the healed rounds the sender state
stays `Live` and `InfFit`, the run stays over reliable ordered streams (so no chunk is ever abandoned), and the number of
chunks written does not change; `taken_of_roundOk` then applies round after round.
-/
namespace NetSysLive
open Gen NetSys

/-! ### reliable runs abandon nothing -/

theorem keepsRel_of_reliableOp (P : Params) (s : Sender.St) (op : Op) (o : Sender.Op) (h : sndOp P s op = some o)
    (hr : ReliableOp op = true) (si : BitVec 16) : SenderProofs.KeepsRel si o := by
  cases op with
  | write a b => simp only [sndOp, Option.some.injEq] at h; subst h; trivial
  | snd so =>
    cases so with
    | write a b c => simp [sndOp] at h
    | openS k u rt d e =>
      simp only [sndOp, Option.some.injEq] at h; subst h
      simp only [ReliableOp, Bool.and_eq_true, Bool.not_eq_true', beq_iff_eq] at hr
      intro _
      rw [hr.2]
      exact ⟨by decide, by decide⟩
    | unreg a => simp [ReliableOp] at hr
    | _ => simp only [sndOp, Option.some.injEq] at h; subst h; trivial
  | deliver is => simp [sndOp] at h
  | rcv ro => simp [sndOp] at h

theorem sndOps_keepsRel (P : Params) (ops : List Op) (hr : Reliable ops = true) (si : BitVec 16) :
    ∀ s, ∀ o ∈ sndOps P s ops, SenderProofs.KeepsRel si o := by
  induction ops with
  | nil => intro s o ho; cases ho
  | cons op ops ih =>
    simp only [Reliable, List.all_cons, Bool.and_eq_true] at hr
    intro s
    simp only [sndOps]
    cases h : sndOp P s op with
    | some o =>
      intro o' ho'
      rcases List.mem_cons.1 ho' with rfl | ho'
      · exact keepsRel_of_reliableOp P s op _ h hr.1 si
      · exact ih hr.2 _ o' ho'
    | none => exact ih hr.2 s

/-- over reliable ordered streams no in-flight chunk is abandoned when the round's gather starts -/
theorem noab_of_reliable (P : Params) (ops : List Op) (hc : SenderProofs.CfgOk P.cfg) (hr : Reliable ops = true) :
    ∀ c ∈ (sndT3 (run P (init P) ops).snd).inflight, (sndT3 (run P (init P) ops).snd).abandoned c = false := by
  intro c hcm
  have key : ∀ l : List Sender.Op, (∀ o ∈ l, SenderProofs.KeepsRel c.si o) →
      ∀ c' ∈ (Sender.run (run P (init P) ops).snd l).inflight, c'.si = c.si → (Sender.run (run P (init P) ops).snd l).abandoned c' = false := by
    intro l hl c' hc' hsi
    rw [snd_run, ← SenderProofs.run_append] at hc' ⊢
    have hk : ∀ o ∈ sndOps P (init P).snd ops ++ l, SenderProofs.KeepsRel c.si o := by
      intro o ho
      rcases List.mem_append.1 ho with h | h
      · exact sndOps_keepsRel P ops hr c.si _ o h
      · exact hl o h
    have h := (SenderProofs.run_noab_stream c.si _ _ (SenderProofs.init_win P.cfg P.tsn P.peerRwnd hc)
      (SenderProofs.init_msginv P.cfg P.tsn P.peerRwnd) (by intro st hst; simp [Sender.init] at hst)
      (by intro x hx; simp [SenderProofs.chunksOf, Sender.init] at hx) hk).1
    exact h.abandoned (List.mem_append_left _ hc') hsi
  unfold sndT3 at hcm ⊢
  split at hcm
  · rename_i he
    simp only [he, if_true]
    exact key [] (by intro o ho; cases ho) c hcm rfl
  · rename_i he
    simp only [he, Bool.false_eq_true, if_false]
    exact key [.t3] (by intro o ho; simp at ho; subst ho; trivial) c hcm rfl

/-! ### the healed round keeps the run reliable and the sender `InfFit` -/

theorem reliableOp_of_rcvOnly (op : Op) (h : RcvOnly op) : ReliableOp op = true := by
  cases op with
  | write a b => exact absurd h (by simp [RcvOnly])
  | snd o => exact absurd h (by simp [RcvOnly])
  | deliver is => rfl
  | rcv o => rfl

theorem reliable_healedRound (P : Params) (s : St) : Reliable (healedRound P s) = true := by
  unfold Reliable healedRound roundOps
  simp only [List.all_append, Bool.and_eq_true, List.all_eq_true]
  refine ⟨⟨⟨⟨?_, ?_⟩, ?_⟩, ?_⟩, ?_⟩
  · exact fun op hop => reliableOp_of_rcvOnly op (acceptAll_rcvOnly _ op hop)
  · intro op hop
    unfold sendOps at hop
    by_cases he : s.snd.inflight.isEmpty = true
    · simp [he] at hop; subst hop; rfl
    · simp [he] at hop; rcases hop with rfl | rfl <;> rfl
  · exact fun op hop => reliableOp_of_rcvOnly op (deliverOps_rcvOnly _ _ op hop)
  · exact fun op hop => reliableOp_of_rcvOnly op (recvOps_rcvOnly _ op hop)
  · intro op hop; simp at hop; subst hop; rfl

theorem reliable_append' (o1 o2 : List Op) (h1 : Reliable o1 = true) (h2 : Reliable o2 = true) : Reliable (o1 ++ o2) = true := by
  simp only [Reliable, List.all_append, Bool.and_eq_true] at *
  exact ⟨h1, h2⟩

theorem inffit_sndPre {x : Sender.St} (h : SenderProofs.InfFit x) : SenderProofs.InfFit (sndPre x) := by
  rw [sndPre_eq]
  apply SenderProofs.gather_inffit
  unfold sndT3; split
  · exact h
  · exact SenderProofs.t3_inffit x h

theorem inffit_healed (P : Params) (s : St) (hl : SenderProofs.Live s.snd) (h : SenderProofs.InfFit s.snd) :
    SenderProofs.InfFit (healed P s).snd := by
  rw [(healed_snd P s).1, preSack_snd]
  have hx := (live_sndPre hl).1
  exact SenderProofs.sack_inffit _ _ _ _ _ hx.seq (by have := hx.small; omega) hx.win.cfgOk (inffit_sndPre h)

/-! ### `RoundOkN` gives `TakenN` -/

theorem takenN_of_roundOkN (P : Params) (hc : SenderProofs.CfgOk P.cfg) (n : Nat) : ∀ ops, chunksWritten P ops < 2^31 →
    SenderProofs.Live (run P (init P) ops).snd → SenderProofs.InfFit (run P (init P) ops).snd → Reliable ops = true →
    RoundOkN P n (run P (init P) ops) = true → TakenN P n (run P (init P) ops) = true := by
  induction n with
  | zero => intro _ _ _ _ _ _; rfl
  | succ n ih =>
    intro ops hN hl hfit hrel hok
    simp only [RoundOkN, Bool.and_eq_true, Bool.or_eq_true, beq_iff_eq] at hok
    simp only [TakenN, Bool.and_eq_true, Bool.or_eq_true, beq_iff_eq]
    constructor
    · rcases hok.1 with h0 | hr
      · exact Or.inl h0
      · rcases Nat.eq_zero_or_pos (outstanding (run P (init P) ops)) with h0 | hpos
        · exact Or.inl h0
        · exact Or.inr (taken_of_roundOk P ops hc hN hl hfit (noab_of_reliable P ops hc hrel) hr hpos)
    · have p1 := (healed_progress P ops hc hN hl).1
      have hf' := inffit_healed P _ hl hfit
      have hok2 := hok.2
      rw [healed_run] at p1 hf' hok2 ⊢
      exact ih _ (by rw [chunksWritten_healedRound]; exact hN) p1 hf' (reliable_append' _ _ hrel (reliable_healedRound P _)) hok2

end NetSysLive
