import SctpVerif.Proofs.NetSys.LiveRcv
import SctpVerif.Proofs.NetSys.LiveDefs
import SctpVerif.Proofs.NetSys.IData
import SctpVerif.Proofs.Sender
import SctpVerif.Proofs.Receiver.Bound
import Mathlib.Data.List.Induction
/-!
The run invariant that links the two halves of NetSys (`Props/C02net.lean`): in every reachable state the receive queue of
the receiver lies among the TSNs the sender has assigned (`run_qb`), the sender's cumulative ack point plus the length of
its in-flight queue is the number of TSNs assigned (`snd_idx`), hence the truthful SACK of the receiver state is never
rejected by the sender's validation (`truthful_valid`).
-/
namespace NetSysLive
open Gen NetSys SenderProofs SenderTsn

theorem moved_append (s : Sender.St) (o1 o2 : List Sender.Op) : moved s (o1 ++ o2) = moved s o1 ++ moved (Sender.run s o1) o2 := by
  induction o1 generalizing s with
  | nil => rfl
  | cons op o1 ih => simp only [List.cons_append, moved, Sender.run, ih, List.append_assoc]

theorem tsnsUsed_mono (P : Params) (o1 o2 : List Op) : tsnsUsed P o1 ≤ tsnsUsed P (o1 ++ o2) := by
  unfold tsnsUsed
  rw [sndOps_append, moved_append, List.length_append]
  omega

theorem tsnsUsed_le (P : Params) (ops : List Op) : tsnsUsed P ops ≤ chunksWritten P ops :=
  moved_le_written P.cfg P.tsn P.peerRwnd _

/-- every chunk of the history carries one of the TSNs assigned so far -/
theorem wire_below (P : Params) (ops : List Op) : ∀ c ∈ (run P (init P) ops).wire, Below P.tsn (tsnsUsed P ops) c.tsn := by
  intro c hc
  rw [(run_snd P (init P) ops).2] at hc
  have hc' : c ∈ wire (Sender.init P.cfg P.tsn P.peerRwnd) (sndOps P (init P).snd ops) := by simpa [init] using hc
  obtain ⟨_, _, h3, h4, _⟩ := run_tsn P.cfg P.tsn P.peerRwnd (sndOps P (init P).snd ops)
  obtain ⟨m, hm, ht, _⟩ := h4 c hc'
  obtain ⟨j, hj, hjm⟩ := List.mem_iff_getElem.mp hm
  have := h3 j m (by rw [List.getElem?_eq_getElem hj, hjm])
  exact ⟨j, hj, by rw [← ht, this]⟩

theorem init_qb (P : Params) : QB P.tsn 0 (init P).rcv.pq := by
  have hq : (init P).rcv.pq = RecvQ.init (RecvQ.new (getMaxTSNOffset P.maxBuf)) (P.tsn - 1) := rfl
  have I : RecvQ.Inv (init P).rcv.pq := by rw [hq]; exact RecvQ.init_inv (RecvQ.new_ring _) _
  refine ⟨I, ?_, ?_⟩
  · unfold idx; rw [hq]; simp [RecvQ.init]
  · intro d hd
    exfalso
    have := I.size_zero_bits (by rw [hq]; rfl) (RecvQ.pos (init P).rcv.pq.W ((init P).rcv.pq.cum + BitVec.ofNat 32 d))
    rw [hd.2.2] at this
    exact Bool.noConfusion this

theorem step_rcv_qb (P : Params) (ops : List Op) (op : Op) (M : Nat) (hM : M < 2^31) (hle : tsnsUsed P ops ≤ M)
    (h : QB P.tsn M (run P (init P) ops).rcv.pq) :
    QB P.tsn M (step P (run P (init P) ops) op).rcv.pq ∧
    idx P.tsn (run P (init P) ops).rcv.pq ≤ idx P.tsn (step P (run P (init P) ops) op).rcv.pq := by
  rw [step_rcv]
  cases hs : sndOp P (run P (init P) ops).snd op with
  | some o => exact ⟨h, Nat.le_refl _⟩
  | none =>
    cases hr : rcvOp P (run P (init P) ops).wire op with
    | none => exact ⟨h, Nat.le_refl _⟩
    | some o =>
      apply step_qb hM _ o h
      intro cs hcs
      subst hcs
      obtain ⟨is, rfl⟩ := rcvOp_pkt P _ op _ hr
      intro ch hch
      obtain ⟨c, hc, imm, rfl⟩ := packetOf_mem P _ is ch hch
      refine ⟨toWire P c, imm, rfl, ?_⟩
      obtain ⟨j, hj, e⟩ := wire_below P ops c hc
      exact ⟨j, by omega, e⟩

/-- ✱ **every TSN the receiver accepted was assigned by the sender**: in every reachable state the receive queue lies among
the first `tsnsUsed` TSNs -/
theorem run_qb (P : Params) (ops : List Op) (hN : tsnsUsed P ops < 2^31) :
    QB P.tsn (tsnsUsed P ops) (run P (init P) ops).rcv.pq := by
  induction ops using List.reverseRecOn with
  | nil => exact init_qb P
  | append_singleton o1 op ih =>
    have hm := tsnsUsed_mono P o1 [op]
    have h1 := (ih (by omega)).mono hm
    rw [NetSys.run_append]
    exact (step_rcv_qb P o1 op _ hN hm h1).1

theorem run_pq_maxOff (P : Params) (ops : List Op) :
    (run P (init P) ops).rcv.pq.maxOff.toNat < 2^16 ∧ RecvQ.Inv (run P (init P) ops).rcv.pq := by
  rw [run_rcv, Receiver.run_pq]
  have I : RecvQ.Inv (init P).rcv.pq := (init_qb P).inv
  obtain ⟨i1, i2⟩ := Receiver.qrun_inv I (Receiver.runTrace (init P).rcv (rcvOps P (init P) ops))
  refine ⟨?_, i1⟩
  rw [i2]
  exact (C05.C05_assoc_window P.maxBuf).2

/-! ## the sender half -/

theorem snd_run (P : Params) (ops : List Op) :
    (run P (init P) ops).snd = Sender.run (Sender.init P.cfg P.tsn P.peerRwnd) (sndOps P (init P).snd ops) :=
  (run_snd P (init P) ops).1

theorem snd_seq (P : Params) (ops : List Op) (hc : CfgOk P.cfg) : Seq (run P (init P) ops).snd := by
  rw [snd_run]
  exact run_seq _ _ (init_seq _ _ _) (init_win _ _ _ hc)

/-- the sender's cumulative ack point covers `tsnsUsed − in-flight` TSNs -/
theorem snd_idx (P : Params) (ops : List Op) (hc : CfgOk P.cfg) (hN : tsnsUsed P ops < 2^31)
    (hsm : (run P (init P) ops).snd.inflight.length < 2^31) :
    ((run P (init P) ops).snd.cumAck - (P.tsn - 1)).toNat + (run P (init P) ops).snd.inflight.length = tsnsUsed P ops := by
  have hseq := snd_seq P ops hc
  obtain ⟨_, h2, h3, _, _⟩ := run_tsn P.cfg P.tsn P.peerRwnd (sndOps P (init P).snd ops)
  have hminv := (run_minv (Sender.init P.cfg P.tsn P.peerRwnd) (sndOps P (init P).snd ops) (init_minv P.cfg P.tsn P.peerRwnd)).1
  simp only [List.nil_append] at hminv
  rw [← snd_run] at h2 hminv
  have hM : (moved (Sender.init P.cfg P.tsn P.peerRwnd) (sndOps P (init P).snd ops)).length = tsnsUsed P ops := rfl
  rw [hM] at h2
  generalize (run P (init P) ops).snd = s at *
  generalize tsnsUsed P ops = M at *
  have eM : (BitVec.ofNat 32 M).toNat = M := by simp [BitVec.toNat_ofNat]; omega
  have eL : (BitVec.ofNat 32 s.inflight.length).toNat = s.inflight.length := by simp [BitVec.toNat_ofNat]; omega
  have hnext := hseq.2
  cases hq : s.inflight with
  | nil =>
    rw [hq] at hnext
    simp only [List.length_nil] at hnext ⊢
    rw [h2] at hnext
    bv_omega
  | cons f r =>
    have hf : f.tsn = s.cumAck + 1 := by
      have := hseq.1; rw [hq] at this; exact this.1
    obtain ⟨m, hm, ht, _⟩ := hminv.inf f (by rw [hq]; simp)
    obtain ⟨j, hj, hjm⟩ := List.mem_iff_getElem.mp hm
    have hmt := hminv.tsn j m (by rw [List.getElem?_eq_getElem hj, hjm])
    rw [hM] at hj
    have eJ : (BitVec.ofNat 32 j).toNat = j := by simp [BitVec.toNat_ofNat]; omega
    rw [h2, hq] at hnext
    rw [hq] at eL hsm
    rw [hmt, hf] at ht
    bv_omega

/-! ## the truthful SACK is never rejected -/

theorem setWidth16 (b : BitVec 16) : (BitVec.setWidth 32 b).toNat = b.toNat := by
  simp only [BitVec.toNat_setWidth]
  have := b.isLt
  omega

/-- ✱ the truthful SACK of the current receiver state is stale or passes the sender's validation -/
theorem truthful_valid (P : Params) (ops : List Op) (hc : CfgOk P.cfg) (hN : tsnsUsed P ops < 2^31)
    (hsm : (run P (init P) ops).snd.inflight.length < 2^31) :
    sna32GT (run P (init P) ops).snd.cumAck (run P (init P) ops).rcv.pq.cum = true ∨
    Sender.validate (run P (init P) ops).snd (run P (init P) ops).rcv.pq.cum (RecvQ.gaps (run P (init P) ops).rcv.pq) = true := by
  have hqb := run_qb P ops hN
  have hidx := snd_idx P ops hc hN hsm
  have hseq := snd_seq P ops hc
  obtain ⟨hmo, hI⟩ := run_pq_maxOff P ops
  generalize (run P (init P) ops).snd = s at *
  generalize (run P (init P) ops).rcv.pq = q at *
  generalize tsnsUsed P ops = M at *
  have hA := hqb.cumle
  unfold idx at hA
  by_cases hlt : (q.cum - (P.tsn - 1)).toNat < (s.cumAck - (P.tsn - 1)).toNat
  · left
    simp only [sna32GT, Bool.or_eq_true, Bool.and_eq_true, decide_eq_true_eq]
    bv_omega
  · right
    obtain ⟨g1, _, _, _⟩ := RecvQ.gaps_spec hI hmo
    simp only [Sender.validate, Bool.and_eq_true, List.all_eq_true]
    constructor
    · split
      · rename_i hl
        simp only [sna32LT, Bool.or_eq_true, Bool.and_eq_true, decide_eq_true_eq] at hl
        rw [get_contig hseq.1, get_contig hseq.1]
        simp only [Bool.and_eq_true, decide_eq_true_eq]
        constructor <;> bv_omega
      · rfl
    · intro b hb
      obtain ⟨b1, b2, b3, b4⟩ := g1 b hb
      have hh := hqb.held b.2.toNat (b4 b.2.toNat b2 (Nat.le_refl _))
      unfold idx at hh
      have e1 := setWidth16 b.1
      have e2 := setWidth16 b.2
      have l1 := b.1.isLt
      have l2 := b.2.isLt
      obtain ⟨b1v, b2v⟩ := b
      simp only at *
      refine ⟨⟨⟨?_, ?_⟩, ?_⟩, ?_⟩
      · simp only [bne_iff_ne, ne_eq]
        intro h0; rw [h0] at b1; simp at b1
      · simp only [decide_eq_true_eq, BitVec.le_def]; exact b2
      · rw [get_contig hseq.1]
        simp only [decide_eq_true_eq]
        bv_omega
      · split
        · rw [get_contig hseq.1]
          simp only [decide_eq_true_eq]
          bv_omega
        · rfl

end NetSysLive
