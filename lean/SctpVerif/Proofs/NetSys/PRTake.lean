import SctpVerif.Proofs.NetSys.PRSafe
/-!
What the invariant of `Proofs/NetSys/PRSafe.lean` says at the moment a FORWARD-TSN of the history reaches the receiver.
-/
namespace NetSysPR
open NetSys (Params Op toWire sndOp)
open SenderProofs SenderTsn

/-- the hypotheses on the run, bundled -/
structure RunOk (P : Params) (ops : List Op) : Prop where
  cfg : CfgOk P.cfg
  pr : P.cfg.prEnabled = true
  sound : SackSound P (init P) ops = true
  infl : InflightOk P (init P) ops = true
  small : (moved P (init P) ops).length < 2^31

theorem RunOk.take {P : Params} {o1 o2 : List Op} (h : RunOk P (o1 ++ o2)) : RunOk P o1 := by
  refine ⟨h.cfg, h.pr, ?_, (InflightOk_take P _ o1 o2 h.infl).1, ?_⟩
  · have := h.sound; rw [SackSound_append, Bool.and_eq_true] at this; exact this.1
  · have := h.small; rw [moved_append, List.length_append] at this; omega

/-- ✱ index form: in every reachable state, after any part `pre` of a packet, for every FORWARD-TSN `f` of the history:
its new cumulative TSN is the TSN of a moved chunk `n`, and every moved chunk up to `n` is abandoned by the sender or
was handed to a reassembly queue; every entry of `f` names an abandoned moved chunk at or below `n` -/
theorem skip_safe_idx (P : Params) (ops : List Op) (hok : RunOk P ops)
    (pre : List (Item × Bool)) (hpre : ∀ x ∈ pre, x.1 ∈ (run P (init P) ops).wire)
    (f : Sender.Fwd) (hf : Item.fwd f ∈ (run P (init P) ops).wire) :
    (∀ j m, (moved P (init P) ops)[j]? = some m → m.tsn = P.tsn + BitVec.ofNat 32 j) ∧
    ∃ n, fwdCum f = P.tsn + BitVec.ofNat 32 n ∧ n < (moved P (init P) ops).length ∧
      (∀ j m, j ≤ n → (moved P (init P) ops)[j]? = some m →
        (run P (init P) ops).snd.abandoned m = true ∨
        m.tsn ∈ pushed P (init P) ops ++ pushedIn P (Receiver.chunksStart (run P (init P) ops).rcv) pre) ∧
      Ent (run P (init P) ops).snd (moved P (init P) ops) f := by
  obtain ⟨a, R, h⟩ := (init_inv P hok.cfg hok.pr).runOps ops hok.sound hok.infl (by simpa using hok.small)
  simp only [List.nil_append] at h
  have h0 := h.setRcv (Receiver.chunksStart (run P (init P) ops).rcv) rfl
  have h1 := Inv.itemsStep pre h0 hpre
  obtain ⟨W, hW⟩ := h.snd.minv
  obtain ⟨n, c1, c2, c3⟩ := h1.wfwd f hf
  have htake := h1.rcv.take n c3
  refine ⟨hW.tsn, n, c1, c2, ?_, h1.went f hf⟩
  intro j m hj hm
  rcases htake j hj with hg | hab
  · right; rw [hW.tsn j m hm]; exact hg
  · left; exact hab m hm

/-- ✱ TSN form -/
theorem skip_safe (P : Params) (ops : List Op) (hok : RunOk P ops)
    (pre : List (Item × Bool)) (hpre : ∀ x ∈ pre, x.1 ∈ (run P (init P) ops).wire)
    (f : Sender.Fwd) (hf : Item.fwd f ∈ (run P (init P) ops).wire) :
    (∀ m ∈ moved P (init P) ops, Gen.sna32LTE m.tsn (fwdCum f) = true →
      (run P (init P) ops).snd.abandoned m = true ∨
      m.tsn ∈ pushed P (init P) ops ++ pushedIn P (Receiver.chunksStart (run P (init P) ops).rcv) pre) ∧
    Ent (run P (init P) ops).snd (moved P (init P) ops) f := by
  obtain ⟨htsn, n, c1, c2, c3, c4⟩ := skip_safe_idx P ops hok pre hpre f hf
  refine ⟨?_, c4⟩
  intro m hm hle
  obtain ⟨j, hj⟩ := List.getElem?_of_mem hm
  have hjl : j < (moved P (init P) ops).length := by
    rcases Nat.lt_or_ge j (moved P (init P) ops).length with h' | h'
    · exact h'
    · rw [List.getElem?_eq_none h'] at hj; cases hj
  have hsm := hok.small
  refine c3 j m ?_ hj
  have hd := (Sna.lte32_iff _ _).1 hle
  rw [htsn j m hj, c1] at hd
  have e1 : (BitVec.ofNat 32 j).toNat = j := by simp; omega
  have e2 : (BitVec.ofNat 32 n).toNat = n := by simp; omega
  generalize BitVec.ofNat 32 j = x at e1 hd
  generalize BitVec.ofNat 32 n = y at e2 hd
  bv_omega

end NetSysPR
