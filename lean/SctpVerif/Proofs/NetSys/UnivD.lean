import SctpVerif.Proofs.NetSys.Univ
import SctpVerif.Proofs.Sender.MsgOrder
/-!
The DATA universe of a NetSys run and the selection hypothesis `SelContig`.

Without interleaving the receiver recognises a complete message by CONSECUTIVE TSNs, so the universe of
`C01_receiver_prefix` has fragment `(k, i)` of a stream at TSN offset `base k + i`, `base k` = the fragments of the
stream's earlier messages plus `skip k` (the TSNs other streams used before). For a NetSys run this is true exactly
when the order in which the pending queue hands out chunks (= TSN order, `moved`) keeps the fragments of a message
together and serves every stream first-in-first-out: `SelContig`, a decidable predicate on the run, stated on the
`moved` list in the terms of `Props/C17.lean` (`C17_contiguous`: once a non-final fragment is popped the next pop is the
next fragment of that message; `C17_fragment_order`: the pops of a stream are a prefix of its pushes). The selection is
an ORACLE of the Sender model; C17 proves exactly this of the real pending queue (model `PendQ`).
-/
namespace NetSys
open SenderProofs SenderTsn Sender

/-- number of fragments of an accepted write -/
def nfr (P : Params) (a : Write) : Nat := (fragSizes P.cfg.maxPayload.toNat (P.pay a.msg).length).length

/-- fragments of the first `k` messages of stream `si` -/
def posOf (P : Params) (acc : List Write) (si : BitVec 16) (k : Nat) : Nat := (((msgsOf P acc si).take k).map Reasm.Msg.nf).sum

/-- TSNs used by others before message `k` of stream `si`: position of its first fragment among the moved chunks
(`mv.length` if it never moved) minus the fragments of the stream's earlier messages -/
def skipOf (P : Params) (acc : List Write) (mv : List Chunk) (si : BitVec 16) (k : Nat) : Nat :=
  idxOfFrag P acc mv si k 0 - posOf P acc si k

def senderD (P : Params) (acc : List Write) (mv : List Chunk) (si : BitVec 16) : Reasm.Sender :=
  { si := si, t0 := P.tsn, msgs := msgsOf P acc si, skip := skipOf P acc mv si }

def sendersD (P : Params) (acc : List Write) (mv : List Chunk) (si0 : BitVec 16) : List Reasm.Sender :=
  (uniq (si0 :: acc.map (·.si))).map (senderD P acc mv)

/-! ### the selection hypothesis -/

/-- fragments of the messages accepted on stream `si` before message identity `m` -/
def earlierFrags (P : Params) (acc : List Write) (si : BitVec 16) (m : Nat) : Nat :=
  ((acc.filter (fun a => a.si == si && decide (a.msg < m))).map (nfr P)).sum

/-- `C17_contiguous` on the move order: the first moved chunk is a first fragment; after a last fragment comes a first
fragment; after any other fragment comes the next fragment of the same message -/
def contigB (mv : List Chunk) : Bool :=
  (match mv[0]? with | some c => c.bfrag | none => true) &&
  (List.range mv.length).all fun j =>
    match mv[j]?, mv[j + 1]? with
    | some x, some y => if x.efrag then y.bfrag else (y.msg == x.msg && y.fsn == x.fsn + 1)
    | _, _ => true

/-- `C17_fragment_order` on the move order (every stream first-in-first-out): when the first fragment of a message is
moved, the chunks of its stream moved before are as many as the fragments of the stream's earlier messages -/
def fifoB (P : Params) (acc : List Write) (mv : List Chunk) : Bool :=
  (List.range mv.length).all fun j =>
    match mv[j]? with
    | some c => !c.bfrag || ((mv.take j).countP (·.si == c.si) == earlierFrags P acc c.si c.msg)
    | none => true

/-- **the selection oracle of the run is message-contiguous and per-stream FIFO** (decidable) -/
def SelContig (P : Params) (ops : List Op) : Bool :=
  contigB (moved (init P).snd (sndOps P (init P).snd ops)) &&
  fifoB P (accepted (init P).snd (sndOps P (init P).snd ops)) (moved (init P).snd (sndOps P (init P).snd ops))

theorem contigB_spec (mv : List Chunk) (h : contigB mv = true) : Contig mv := by
  simp only [contigB, Bool.and_eq_true, List.all_eq_true, List.mem_range] at h
  obtain ⟨h1, h2⟩ := h
  refine ⟨fun c hc => by simpa [hc] using h1, fun j x y hx hy => ?_⟩
  have hj : j < mv.length := by
    rcases Nat.lt_or_ge j mv.length with h' | h'
    · exact h'
    · rw [List.getElem?_eq_none h'] at hx; cases hx
  have := h2 j hj
  simp only [hx, hy] at this
  split
  · rename_i he; simpa [he] using this
  · rename_i he; simpa [he] using this

theorem fifoB_spec (P : Params) (acc : List Write) (mv : List Chunk) (h : fifoB P acc mv = true) :
    ∀ (j : Nat) (c : Chunk), mv[j]? = some c → c.bfrag = true → earlierFrags P acc c.si c.msg ≤ j := by
  intro j c hc hb
  simp only [fifoB, List.all_eq_true, List.mem_range] at h
  have hj : j < mv.length := by
    rcases Nat.lt_or_ge j mv.length with h' | h'
    · exact h'
    · rw [List.getElem?_eq_none h'] at hc; cases hc
  have := h j hj
  simp only [hc, hb, Bool.not_true, Bool.false_or, beq_iff_eq] at this
  rw [← this]
  exact Nat.le_trans List.countP_le_length (List.length_take_le j mv)

/-! ### sums -/

theorem sum_take_le (l : List Nat) (k : Nat) : (l.take k).sum ≤ l.sum := by
  induction l generalizing k with
  | nil => simp
  | cons x r ih =>
    cases k with
    | zero => simp
    | succ n => simp only [List.take_succ_cons, List.sum_cons]; have := ih n; omega

theorem sum_map_filter_le {α : Type} (f : α → Nat) (p : α → Bool) (l : List α) : ((l.filter p).map f).sum ≤ (l.map f).sum := by
  induction l with
  | nil => simp
  | cons x r ih =>
    simp only [List.filter_cons]
    split
    · simp only [List.map_cons, List.sum_cons]; omega
    · simp only [List.map_cons, List.sum_cons]; omega

theorem gen_length_eq (il : Bool) (mp : Nat) (lenOf : Nat → Nat) (pre ws : List Write) :
    (gen il mp lenOf pre ws).length = (ws.map fun a => (fragSizes mp (lenOf a.msg)).length).sum := by
  induction ws generalizing pre with
  | nil => rfl
  | cons a r ih => simp only [gen, List.length_append, grp_length, ih, List.map_cons, List.sum_cons]

theorem msgsOf_nf (P : Params) (acc : List Write) (si : BitVec 16) :
    (msgsOf P acc si).map Reasm.Msg.nf = (acc.filter (·.si == si)).map (nfr P) := by
  simp only [msgsOf, List.map_map]
  apply List.map_congr_left
  intro a _
  simp only [Function.comp, Reasm.Msg.nf, cut_length, nfr]

/-- the fragments of the first `k + 1` messages of a stream are among the chunks written -/
theorem posOf_le (P : Params) (acc : List Write) (si : BitVec 16) (k : Nat) : posOf P acc si k ≤ (acc.map (nfr P)).sum := by
  simp only [posOf, List.map_take, msgsOf_nf]
  exact Nat.le_trans (sum_take_le _ k) (sum_map_filter_le _ _ _)

theorem posOf_succ (P : Params) (acc : List Write) (si : BitVec 16) (k : Nat) (hk : k < (msgsOf P acc si).length) :
    posOf P acc si (k + 1) = posOf P acc si k + (senderD P acc [] si).nf k := by
  simp only [posOf, Reasm.Sender.nf, Reasm.Sender.msg, senderD, List.take_add_one, List.getElem?_eq_getElem hk, Option.toList,
    List.map_append, List.sum_append, List.map_cons, List.map_nil, List.sum_cons, List.sum_nil, Nat.add_zero,
    List.getD_eq_getElem?_getD, Option.getD_some]

/-! ### position of a message among the accepted writes -/

theorem filter_get_split (acc : List Write) (si : BitVec 16) (k : Nat) (a : Write) (h : (acc.filter (·.si == si))[k]? = some a) :
    ∃ u v, acc = u ++ a :: v ∧ cntOf u si = k ∧ a.si = si := by
  induction acc generalizing k with
  | nil => simp at h
  | cons x r ih =>
    simp only [List.filter_cons] at h
    by_cases hx : x.si = si
    · simp only [hx, beq_self_eq_true, if_true] at h
      cases k with
      | zero =>
        simp only [List.getElem?_cons_zero, Option.some.injEq] at h
        subst h
        exact ⟨[], r, rfl, by simp [cntOf], hx⟩
      | succ n =>
        simp only [List.getElem?_cons_succ] at h
        obtain ⟨u, v, e, c, hs⟩ := ih n h
        refine ⟨x :: u, v, by rw [e]; rfl, ?_, hs⟩
        simp only [cntOf, List.filter_cons, hx, beq_self_eq_true, if_true, List.length_cons] at c ⊢
        omega
    · have hx' : (x.si == si) = false := by simpa using hx
      simp only [hx', Bool.false_eq_true, if_false] at h
      obtain ⟨u, v, e, c, hs⟩ := ih k h
      refine ⟨x :: u, v, by rw [e]; rfl, ?_, hs⟩
      simp only [cntOf, List.filter_cons, hx', Bool.false_eq_true, if_false] at c ⊢
      exact c

/-- with increasing message identities: the messages of the stream before `a` are the stream's messages in `ws1` -/
theorem earlier_eq_pos (P : Params) (acc ws1 ws2 : List Write) (a : Write) (hs : acc.Pairwise (fun a b => a.msg < b.msg))
    (h : acc = ws1 ++ a :: ws2) : earlierFrags P acc a.si a.msg = posOf P acc a.si (cntOf ws1 a.si) := by
  subst h
  rw [List.pairwise_append] at hs
  obtain ⟨_, hs2, hs3⟩ := hs
  rw [List.pairwise_cons] at hs2
  have hf : (ws1 ++ a :: ws2).filter (fun x => x.si == a.si && decide (x.msg < a.msg)) = ws1.filter (·.si == a.si) := by
    rw [List.filter_append]
    have h1 : ws1.filter (fun x => x.si == a.si && decide (x.msg < a.msg)) = ws1.filter (·.si == a.si) := by
      apply List.filter_congr
      intro x hx
      have := hs3 x hx a List.mem_cons_self
      simp [this]
    have h2 : (a :: ws2).filter (fun x => x.si == a.si && decide (x.msg < a.msg)) = [] := by
      rw [List.filter_eq_nil_iff]
      intro x hx
      rcases List.mem_cons.1 hx with rfl | hx
      · simp
      · have := hs2.1 x hx
        simp only [Bool.and_eq_true, decide_eq_true_eq, not_and]
        intro _; omega
    rw [h1, h2, List.append_nil]
  simp only [earlierFrags, hf, posOf, List.map_take, msgsOf_nf]
  congr 1
  rw [List.filter_append, cntOf]
  rw [List.map_append, List.take_left' (by simp)]

/-! ### the facts about the sender run the identification needs, bundled -/

structure DCtx (P : Params) (acc : List Write) (mv : List Chunk) : Prop where
  il : P.cfg.useInterleaving = false
  sorted : acc.Pairwise (fun a b => a.msg < b.msg)
  mvid : ∀ (j : Nat) (m : Chunk), mv[j]? = some m → ∃ (ws1 : List Write) (a : Write) (ws2 : List Write) (i : Nat),
    acc = ws1 ++ a :: ws2 ∧ i < nfr P a ∧ Chunk.frag m = fragOf false a (cntOf ws1 a.si) i (nfr P a)
  nd : (mv.map Chunk.frag).Nodup
  contig : Contig mv
  fifo : ∀ (j : Nat) (c : Chunk), mv[j]? = some c → c.bfrag = true → earlierFrags P acc c.si c.msg ≤ j
  small : ∀ a ∈ acc, nfr P a < 2^31

theorem DCtx.wf {P : Params} {acc : List Write} {mv : List Chunk} (h : DCtx P acc mv) :
    ∀ c ∈ mv, (c.bfrag = true ↔ c.fsn = 0) ∧ c.fsn.toNat + 1 < 2^32 := by
  intro c hc
  obtain ⟨j, hj⟩ := List.getElem?_of_mem hc
  obtain ⟨ws1, a, ws2, i, e, hi, hf⟩ := h.mvid j c hj
  have ha : a ∈ acc := by rw [e]; simp
  have hsm := h.small a ha
  simp only [Chunk.frag, fragOf, Prod.mk.injEq] at hf
  obtain ⟨_, _, _, _, f5, _, _, _, f9⟩ := hf
  have hi32 : i < 2^32 := by omega
  refine ⟨?_, ?_⟩
  · rw [f5, f9]
    constructor
    · intro hb
      have : i = 0 := by simpa using hb
      subst this; rfl
    · intro h0
      have := congrArg BitVec.toNat h0
      simp only [BitVec.toNat_ofNat, Nat.mod_eq_of_lt hi32] at this
      simp at this
      simp [this]
  · rw [f9, BitVec.toNat_ofNat, Nat.mod_eq_of_lt hi32]; omega

/-- a moved chunk that carries message identity `a.msg` is a fragment of the write `a` -/
theorem DCtx.of_msg {P : Params} {acc : List Write} {mv : List Chunk} (h : DCtx P acc mv) (ws1 ws2 : List Write) (a : Write)
    (hacc : acc = ws1 ++ a :: ws2) (j : Nat) (m : Chunk) (hj : mv[j]? = some m) (hm : m.msg = a.msg) :
    ∃ i, i < nfr P a ∧ Chunk.frag m = fragOf false a (cntOf ws1 a.si) i (nfr P a) := by
  obtain ⟨ws1', a', ws2', i, e, hi, hf⟩ := h.mvid j m hj
  have hmsg : a'.msg = m.msg := by
    have := congrArg (fun x => x.2.1) hf
    simpa [Chunk.frag, fragOf] using this.symm
  obtain ⟨u1, u2, _⟩ := split_unique acc h.sorted ws1' ws2' ws1 ws2 a' a e hacc (hmsg.trans hm)
  subst u1; subst u2
  exact ⟨i, hi, hf⟩

theorem idxOf_get (f : Frag) (mv : List Chunk) (h : (mv.map Chunk.frag).idxOf f < mv.length) :
    ∃ m, mv[(mv.map Chunk.frag).idxOf f]? = some m ∧ Chunk.frag m = f := by
  have h' : (mv.map Chunk.frag).idxOf f < (mv.map Chunk.frag).length := by simpa using h
  have hget := List.getElem_idxOf h'
  rw [List.getElem_map] at hget
  exact ⟨_, List.getElem?_eq_getElem h, hget⟩

theorem idxOf_of_get (mv : List Chunk) (hnd : (mv.map Chunk.frag).Nodup) (j : Nat) (m : Chunk) (h : mv[j]? = some m) :
    (mv.map Chunk.frag).idxOf (Chunk.frag m) = j := by
  have hj : j < mv.length := by
    rcases Nat.lt_or_ge j mv.length with h' | h'
    · exact h'
    · rw [List.getElem?_eq_none h'] at h; cases h
  have hj' : j < (mv.map Chunk.frag).length := by simpa using hj
  have := hnd.idxOf_getElem j hj'
  rw [List.getElem_map] at this
  have hm : mv[j] = m := by
    rw [List.getElem?_eq_getElem hj] at h
    exact Option.some.inj h
  rw [hm] at this
  exact this

/-- the first fragment of the `k`-th message of a stream, if it was moved at position `J0`, was moved after all the
fragments of the stream's earlier messages: `base k = J0` -/
theorem DCtx.first {P : Params} {acc : List Write} {mv : List Chunk} (h : DCtx P acc mv) (ws1 ws2 : List Write) (a : Write)
    (hacc : acc = ws1 ++ a :: ws2)
    (hJ : (mv.map Chunk.frag).idxOf (fragOf false a (cntOf ws1 a.si) 0 (nfr P a)) < mv.length) :
    posOf P acc a.si (cntOf ws1 a.si) ≤ (mv.map Chunk.frag).idxOf (fragOf false a (cntOf ws1 a.si) 0 (nfr P a)) ∧
    (senderD P acc mv a.si).base (cntOf ws1 a.si) = (mv.map Chunk.frag).idxOf (fragOf false a (cntOf ws1 a.si) 0 (nfr P a)) := by
  obtain ⟨b, hb, hbf⟩ := idxOf_get _ mv hJ
  have hidx : idxOfFrag P acc mv a.si (cntOf ws1 a.si) 0 = (mv.map Chunk.frag).idxOf (fragOf false a (cntOf ws1 a.si) 0 (nfr P a)) := by
    simp only [idxOfFrag, (filter_split acc ws1 ws2 a hacc).1, h.il, nfr]
  generalize (mv.map Chunk.frag).idxOf (fragOf false a (cntOf ws1 a.si) 0 (nfr P a)) = J0 at hJ hb hidx ⊢
  simp only [Chunk.frag, fragOf, Prod.mk.injEq] at hbf
  obtain ⟨g1, g2, _, _, g5, _⟩ := hbf
  have hf := h.fifo _ _ hb (by rw [g5]; rfl)
  rw [g1, g2, earlier_eq_pos P acc ws1 ws2 a h.sorted hacc] at hf
  refine ⟨hf, ?_⟩
  simp only [Reasm.Sender.base, senderD, skipOf, hidx]
  have hp : ((List.take (cntOf ws1 a.si) (msgsOf P acc a.si)).map Reasm.Msg.nf).sum = posOf P acc a.si (cntOf ws1 a.si) := rfl
  rw [hp]
  omega

/-- **A wire chunk decoded is the universe's DATA fragment**, at TSN offset `base k + i` = its position among the moves. -/
theorem toWire_data (P : Params) (acc ws1 ws2 : List Write) (a : Write) (mv : List Chunk) (h : DCtx P acc mv)
    (hacc : acc = ws1 ++ a :: ws2) (e : Chunk) (i : Nat) (hi : i < nfr P a)
    (hf : Chunk.frag e = fragOf false a (cntOf ws1 a.si) i (nfr P a))
    (hlen : (fragSizes P.cfg.maxPayload.toNat (P.pay a.msg).length)[i]? = some e.len)
    (hidx : (mv.map Chunk.frag).idxOf (Chunk.frag e) < mv.length)
    (htsn : e.tsn = P.tsn + BitVec.ofNat 32 ((mv.map Chunk.frag).idxOf (Chunk.frag e))) :
    cntOf ws1 a.si < (senderD P acc mv a.si).msgs.length ∧ i < (senderD P acc mv a.si).nf (cntOf ws1 a.si) ∧
    toWire P e = (senderD P acc mv a.si).dataFrag (cntOf ws1 a.si) i ∧
    (senderD P acc mv a.si).base (cntOf ws1 a.si) + i = (mv.map Chunk.frag).idxOf (Chunk.frag e) := by
  have ha : a ∈ acc := by rw [hacc]; simp
  have hi32 : i < 2^32 := by have := h.small a ha; omega
  obtain ⟨hget, hk⟩ := filter_split acc ws1 ws2 a hacc
  have hmsg : (senderD P acc mv a.si).msg (cntOf ws1 a.si) = { ppi := a.ppi, frags := cut P.cfg.maxPayload.toNat (P.pay a.msg) } :=
    senderI_msg P acc a.si _ a hget
  have hnf : (senderD P acc mv a.si).nf (cntOf ws1 a.si) = nfr P a := by
    simp only [Reasm.Sender.nf, hmsg, Reasm.Msg.nf, cut_length, nfr]
  -- the chunk at position J, its first fragment at J - i
  obtain ⟨m, hmJ, hmf⟩ := idxOf_get _ mv hidx
  generalize (mv.map Chunk.frag).idxOf (Chunk.frag e) = J at hidx htsn hmJ ⊢
  obtain ⟨b1, b, b2, b3, b4⟩ := h.contig.back h.wf _ _ hmJ
  have hfe := hf
  simp only [Chunk.frag, fragOf, Prod.mk.injEq] at hf
  obtain ⟨f1, f2, f3, f4, f5, f6, f7, f8, f9⟩ := hf
  have hfsnJ : m.fsn.toNat = i := by
    have := congrArg (fun x => x.2.2.2.2.2.2.2.2) hmf
    simp only [Chunk.frag] at this
    rw [this, f9, BitVec.toNat_ofNat, Nat.mod_eq_of_lt hi32]
  have hmsgJ : m.msg = a.msg := by
    have := congrArg (fun x => x.2.1) hmf
    simp only [Chunk.frag] at this
    rw [this, f2]
  rw [hfsnJ] at b1 b2
  obtain ⟨ib, hib, hfb⟩ := h.of_msg ws1 ws2 a hacc _ b b2 (b3.trans hmsgJ)
  have hib0 : ib = 0 := by
    have := congrArg (fun x => x.2.2.2.2.1) hfb
    simp only [Chunk.frag, fragOf] at this
    rw [b4] at this
    simpa using this.symm
  subst hib0
  -- so the first fragment sits at J - i
  have hJ0 : (mv.map Chunk.frag).idxOf (fragOf false a (cntOf ws1 a.si) 0 (nfr P a)) = J - i := by
    rw [← hfb]; exact idxOf_of_get mv h.nd _ b b2
  obtain ⟨_, hbase⟩ := h.first ws1 ws2 a hacc (by rw [hJ0]; omega)
  have hbaseJ : (senderD P acc mv a.si).base (cntOf ws1 a.si) + i = J := by
    rw [hbase, hJ0]; omega
  have hud : ((senderD P acc mv a.si).msg (cntOf ws1 a.si)).frags.getD i [] =
      ((P.pay a.msg).drop (i * P.cfg.maxPayload.toNat)).take e.len := by
    rw [hmsg]
    simp only [List.getD_eq_getElem?_getD, cut_get _ _ _ _ hlen, Option.getD_some]
  have hfsn : e.fsn.toNat = i := by
    rw [f9, BitVec.toNat_ofNat]; exact Nat.mod_eq_of_lt hi32
  refine ⟨by simp only [senderD]; rw [msgsOf_length]; exact hk, by rw [hnf]; exact hi, ?_, hbaseJ⟩
  simp only [toWire, Reasm.Sender.dataFrag, h.il, Bool.false_eq_true, if_false, Bool.false_and, hbaseJ, hnf, hud,
    Reasm.Chunk.mk.injEq]
  refine ⟨htsn, f1, f7, trivial, trivial, f4, f5, f6, trivial, ?_, ?_⟩
  · rw [hmsg, f3]
  · rw [f2, hfsn]

end NetSys
