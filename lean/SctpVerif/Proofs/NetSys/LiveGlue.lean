import SctpVerif.Proofs.NetSys.LiveTaken
import SctpVerif.Proofs.NetSys.LiveDrain
/-!
The glue between the two halves of a healed round (`Props/C02net.lean`): `RoundOk P s → 0 < outstanding s → Taken P s`.
The first `deliver` of the round carries the chunk of `head_on_wire` (sender half) into the receiver state of
`handleData_takes` (receiver half); afterwards the receiver's cumulative point only moves forward (`run_idx_mono`) and the
sender's cumulative ack point stays where it was (`sndPre_cumAck`).
-/
namespace NetSysLive
open Gen NetSys

/-! ### small frames -/

theorem chunksEnd_flags (r : Receiver.St) :
    (Receiver.chunksEnd r).willSendAbort = r.willSendAbort ∧ (Receiver.chunksEnd r).panicked = r.panicked := by
  unfold Receiver.chunksEnd; repeat' split
  all_goals exact ⟨rfl, rfl⟩

/-- with an empty accept backlog a stream object is always available -/
theorem stream_available (r : Receiver.St) (si : BitVec 16) (h : r.acceptQ = []) :
    (Receiver.getOrCreateStream r si true).2.isSome = true := by
  unfold Receiver.getOrCreateStream
  split
  · rfl
  · unfold Receiver.createStream
    simp [h, acceptChSize]

/-- operations of the sender only leave the receiver alone -/
theorem run_sendOps_rcv (P : Params) (s : St) (x : Sender.St) : (run P s (sendOps x)).rcv = s.rcv := by
  unfold sendOps
  by_cases h : x.inflight.isEmpty = true
  · simp [h, run, step, sndOp]
  · simp [h, run, step, sndOp]

/-- the sender operations of the first part of the round -/
theorem sndOps_o1 (P : Params) (s : St) : sndOps P s.snd (acceptAll s.rcv ++ sendOps s.snd) = sndPart s.snd := by
  rw [sndOps_append, sndOps_rcvOnly P _ (acceptAll_rcvOnly _)]
  simp only [List.nil_append, Sender.run]
  exact sndOps_sendOps P s.snd

theorem wire_sndPart (x : Sender.St) :
    SenderProofs.wire x (sndPart x) = (Sender.gather (sndT3 x) Sender.freeOracle (fifoSel (sndT3 x))).2.packets.flatten := by
  unfold sndPart sndT3
  by_cases h : x.inflight.isEmpty = true
  · simp [h, SenderProofs.wire, SenderProofs.emittedBy]
  · simp [h, SenderProofs.wire, SenderProofs.emittedBy, Sender.run, Sender.step]

/-- the state after the accepts and the sender's T3 / gather -/
theorem run_o1 (P : Params) (s : St) :
    (run P s (acceptAll s.rcv ++ sendOps s.snd)).rcv = { s.rcv with acceptQ := [] } ∧
    (run P s (acceptAll s.rcv ++ sendOps s.snd)).wire =
      s.wire ++ (Sender.gather (sndT3 s.snd) Sender.freeOracle (fifoSel (sndT3 s.snd))).2.packets.flatten := by
  constructor
  · rw [NetSys.run_append, run_sendOps_rcv, run_acceptAll]
  · rw [(run_snd P s _).2, sndOps_o1, wire_sndPart]

theorem deliverOps_cons (lo hi : Nat) (h : lo < hi) :
    deliverOps lo hi = .deliver [(lo, false)] :: deliverOps (lo + 1) hi := by
  unfold deliverOps
  obtain ⟨n, hn⟩ : ∃ n, hi - lo = n + 1 := ⟨hi - lo - 1, by omega⟩
  have : hi - (lo + 1) = n := by omega
  rw [hn, this, List.range'_succ]
  rfl

/-- the round starts with `firstOps` when the gather put something on the wire -/
theorem roundOps_split (P : Params) (s : St)
    (h : (Sender.gather (sndT3 s.snd) Sender.freeOracle (fifoSel (sndT3 s.snd))).2.packets.flatten ≠ []) :
    ∃ tail, roundOps P s = firstOps s ++ tail := by
  unfold roundOps firstOps
  simp only
  have hw := (run_o1 P s).2
  have hlt : s.wire.length < (run P s (acceptAll s.rcv ++ sendOps s.snd)).wire.length := by
    rw [hw, List.length_append]
    have := List.length_pos_iff.mpr h
    omega
  rw [deliverOps_cons _ _ hlt]
  generalize recvOps _ = R
  exact ⟨deliverOps (s.wire.length + 1) (run P s (acceptAll s.rcv ++ sendOps s.snd)).wire.length ++ R, by simp [List.append_assoc]⟩

/-! ### the head of the queue after the round's sender operations -/

theorem sndT3_ackedFrom (x : Sender.St) : AckedFrom x.inflight (sndT3 x).inflight := by
  unfold sndT3; split
  · exact AckedFrom.refl _
  · exact AckedFrom.of_core (SenderProofs.t3_frame x).1.2.2.2.2.2.2.2.2.2.2.2.2.2

/-- if the head of the queue is acked after "T3; gather", the head of the queue was acked before -/
theorem sndPre_head_acked (x : Sender.St) (h : SenderProofs.Live x) (c0 : Sender.Chunk) (r : List Sender.Chunk)
    (e : (sndPre x).inflight = c0 :: r) (ht : c0.tsn = x.cumAck + 1) (ha : c0.acked = true) :
    ∃ f, x.inflight.head? = some f ∧ f.acked = true := by
  have h1 := live_sndT3 h
  have hp : ∀ c ∈ (sndT3 x).pending, c.acked = false := fun c hc => (h1.core.penSmall c hc).2
  have hfrom := (sndT3_ackedFrom x).trans (gather_ackedFrom (sndT3 x) Sender.freeOracle (fifoSel (sndT3 x)) hp)
  rw [← sndPre_eq] at hfrom
  obtain ⟨c, hc, et, ac⟩ := hfrom c0 (by rw [e]; simp) ha
  obtain ⟨i, hi, hci⟩ := List.mem_iff_getElem.mp hc
  have hget : x.inflight[i]? = some c := by rw [List.getElem?_eq_getElem hi, hci]
  have htsn := SenderProofs.contig_getElem h.seq.1 hget
  have hsm := h.small
  have hi0 : i = 0 := by
    rw [et, ht] at htsn
    have e1 : (BitVec.ofNat 32 i).toNat = i := by simp [BitVec.toNat_ofNat]; omega
    bv_omega
  subst hi0
  refine ⟨c, ?_, ac⟩
  cases hq : x.inflight with
  | nil => rw [hq] at hget; simp at hget
  | cons f rest => rw [hq] at hget; simpa using hget

/-! ### serial-number comparisons from offsets -/

theorem sna_lt_of_idx (b u v : BitVec 32) (h1 : (u - b).toNat < (v - b).toNat) (h2 : (v - b).toNat < 2^31) :
    sna32LT u v = true := by
  simp only [sna32LT, Bool.or_eq_true, Bool.and_eq_true, decide_eq_true_eq]
  bv_omega

theorem idx_le_of_not_gt (b u v : BitVec 32) (hg : sna32GT u v = false) (hu : (u - b).toNat < 2^31) (hv : (v - b).toNat < 2^31) :
    (u - b).toNat ≤ (v - b).toNat := by
  simp only [sna32GT, Bool.or_eq_false_iff, Bool.and_eq_false_iff, decide_eq_false_iff_not] at hg
  bv_omega

theorem eq_of_idx (b u v : BitVec 32) (h : (u - b).toNat = (v - b).toNat) : u = v := by bv_omega

/-! ### the first delivery of the round -/

theorem packet_single (r : Receiver.St) (ch : Receiver.InChunk) :
    Receiver.packet r [ch] = Receiver.chunksEnd (Receiver.handleChunk (Receiver.chunksStart r) ch) := rfl

theorem first_delivery (P : Params) (s : St) (e : Sender.Chunk) (rest : List Sender.Chunk)
    (hflat : (Sender.gather (sndT3 s.snd) Sender.freeOracle (fifoSel (sndT3 s.snd))).2.packets.flatten = e :: rest) :
    (run P s (firstOps s)).rcv = Receiver.packet { s.rcv with acceptQ := [] } [.data (toWire P e) false] := by
  obtain ⟨h1, h2⟩ := run_o1 P s
  rw [hflat] at h2
  unfold firstOps
  rw [NetSys.run_append]
  generalize run P s (acceptAll s.rcv ++ sendOps s.snd) = s1 at h1 h2
  have hp : packetOf P s1.wire [(s.wire.length, false)] = [.data (toWire P e) false] := by
    simp [packetOf, h2]
  simp only [run, step, sndOp, rcvOp, hp, Receiver.step, h1]

/-! ### the glue -/

/-- ✱ the premises of a round give `Taken` -/
theorem taken_of_roundOk (P : Params) (ops : List Op) (hc : SenderProofs.CfgOk P.cfg)
    (hN : chunksWritten P ops < 2^31) (hl : SenderProofs.Live (run P (init P) ops).snd)
    (hfit : SenderProofs.InfFit (run P (init P) ops).snd)
    (hnab : ∀ c ∈ (sndT3 (run P (init P) ops).snd).inflight, (sndT3 (run P (init P) ops).snd).abandoned c = false)
    (hok : RoundOk P (run P (init P) ops) = true) (hpos : 0 < outstanding (run P (init P) ops)) :
    Taken P (run P (init P) ops) = true := by
  simp only [RoundOk, Bool.and_eq_true, beq_iff_eq] at hok
  obtain ⟨⟨⟨hst, hroom⟩, hsync⟩, hhead⟩ := hok
  simp only [InSync, Bool.and_eq_true, Bool.not_eq_true', Bool.or_eq_true, bne_iff_ne, ne_eq] at hsync
  obtain ⟨hng, hhd⟩ := hsync
  simp only [HeadOk, Bool.and_eq_true, Bool.not_eq_true'] at hhead
  obtain ⟨hab, hpan⟩ := hhead
  -- the start state
  have hM : tsnsUsed P ops < 2^31 := Nat.lt_of_le_of_lt (tsnsUsed_le P ops) hN
  have hsm : (run P (init P) ops).snd.inflight.length < 2^31 := by have := hl.small; omega
  have hqb := run_qb P ops hM
  have hidx := snd_idx P ops hc hM hsm
  obtain ⟨c1, c2, c3⟩ := run_rcv_cfg P ops
  have hmo := (run_pq_maxOff P ops).1
  -- the state in which the SACK is built
  have hpre : preSack P (run P (init P) ops) = run P (init P) (ops ++ roundOps P (run P (init P) ops)) := by
    unfold preSack; rw [NetSys.run_append]
  have hNX : tsnsUsed P (ops ++ roundOps P (run P (init P) ops)) < 2^31 := by
    have := tsnsUsed_le P (ops ++ roundOps P (run P (init P) ops))
    rw [chunksWritten_roundOps] at this
    omega
  have hqbX := run_qb P _ hNX
  have hmono := run_idx_mono P ops (roundOps P (run P (init P) ops)) hNX
  have hcum : (preSack P (run P (init P) ops)).snd.cumAck = (run P (init P) ops).snd.cumAck := by
    rw [preSack_snd, sndPre_cumAck]
  unfold Taken
  rw [hcum, hpre]
  have hAX := hqbX.cumle
  have hA := hqb.cumle
  unfold idx at hmono hAX hA
  have ha : ((run P (init P) ops).snd.cumAck - (P.tsn - 1)).toNat ≤ ((run P (init P) ops).rcv.pq.cum - (P.tsn - 1)).toNat :=
    idx_le_of_not_gt _ _ _ hng (by omega) (by omega)
  by_cases hlt : ((run P (init P) ops).snd.cumAck - (P.tsn - 1)).toNat < ((run P (init P) ops).rcv.pq.cum - (P.tsn - 1)).toNat
  · exact sna_lt_of_idx (P.tsn - 1) _ _ (by omega) (by omega)
  · -- the cumulative points coincide: the lowest outstanding chunk is not gap-acked, goes out first, and is taken
    have heq : (run P (init P) ops).snd.cumAck = (run P (init P) ops).rcv.pq.cum := eq_of_idx (P.tsn - 1) _ _ (by omega)
    have hpos' : 0 < (run P (init P) ops).snd.inflight.length + (run P (init P) ops).snd.pending.length := by
      unfold outstanding at hpos; omega
    obtain ⟨c0, r, e1, e2, alt⟩ := head_on_wire _ hl hfit hnab hpos'
    have hna : c0.acked = false := by
      cases hac : c0.acked with
      | false => rfl
      | true =>
        exfalso
        obtain ⟨f, hf1, hf2⟩ := sndPre_head_acked _ hl c0 r e1 e2 hac
        rcases hhd with h | h
        · exact h heq
        · rw [hf1] at h; simp [hf2] at h
    rcases alt with hac | ⟨e, rest, hflat, etsn⟩
    · rw [hna] at hac; cases hac
    · obtain ⟨tail, hsplit⟩ := roundOps_split P (run P (init P) ops) (by rw [hflat]; simp)
      have hfd := first_delivery P (run P (init P) ops) e rest hflat
      rw [hfd] at hab hpan
      rw [packet_single] at hab hpan hfd
      rw [(chunksEnd_flags _).1] at hab
      rw [(chunksEnd_flags _).2] at hpan
      -- the history after the sender's operations
      have hw1 : (run P (init P) (ops ++ (acceptAll (run P (init P) ops).rcv ++ sendOps (run P (init P) ops).snd))).wire =
          (run P (init P) ops).wire ++ e :: rest := by
        rw [NetSys.run_append, (run_o1 P _).2, hflat]
      have hle1 := tsnsUsed_mono P ops (acceptAll (run P (init P) ops).rcv ++ sendOps (run P (init P) ops).snd)
      have hle2 : tsnsUsed P (ops ++ (acceptAll (run P (init P) ops).rcv ++ sendOps (run P (init P) ops).snd)) ≤
          tsnsUsed P (ops ++ roundOps P (run P (init P) ops)) := by
        have e : ops ++ roundOps P (run P (init P) ops) =
            (ops ++ (acceptAll (run P (init P) ops).rcv ++ sendOps (run P (init P) ops).snd)) ++
              ([Op.deliver [((run P (init P) ops).wire.length, false)]] ++ tail) := by
          rw [hsplit]; unfold firstOps; simp [List.append_assoc]
        rw [e]
        exact tsnsUsed_mono P _ _
      have hbel := wire_below P _ e (by rw [hw1]; simp)
      -- the receiver handles the chunk
      simp only [Receiver.handleChunk] at hab hpan hfd
      by_cases hemp : (toWire P e).userData.isEmpty = true
      · simp only [hemp, if_true] at hab
        simp [Receiver.abortPV] at hab
      · simp only [hemp, Bool.false_eq_true, if_false] at hab hpan hfd
        have htk := handleData_takes (t0 := P.tsn) (M := tsnsUsed P (ops ++ (acceptAll (run P (init P) ops).rcv ++ sendOps (run P (init P) ops).snd)))
          (by omega) (Receiver.chunksStart { (run P (init P) ops).rcv with acceptQ := [] }) (toWire P e) false
          (hqb.mono hle1) hbel hst c1 (by show (toWire P e).iData = (run P (init P) ops).rcv.il; rw [c2]; rfl)
          (by show e.tsn = (run P (init P) ops).rcv.pq.cum + 1; rw [etsn, e2, heq]) c3 hmo
          (stream_available _ _ rfl) hroom
        rcases htk with h | h | h
        · rw [hab] at h; cases h
        · rw [hpan] at h; cases h
        · -- from the first delivery to the SACK the cumulative point only moves forward
          have hy : (run P (init P) (ops ++ firstOps (run P (init P) ops))).rcv.pq =
              (Receiver.handleData (Receiver.chunksStart { (run P (init P) ops).rcv with acceptQ := [] }) (toWire P e) false).pq := by
            rw [NetSys.run_append, hfd, Receiver.chunksEnd_pq]
          have hNX' : tsnsUsed P ((ops ++ firstOps (run P (init P) ops)) ++ tail) < 2^31 := by
            rw [List.append_assoc, ← hsplit]; exact hNX
          have hmono2 := run_idx_mono P (ops ++ firstOps (run P (init P) ops)) tail hNX'
          rw [List.append_assoc, ← hsplit, hy] at hmono2
          unfold idx at h hmono2
          have h' : ((run P (init P) ops).rcv.pq.cum - (P.tsn - 1)).toNat + 1 ≤
              ((Receiver.handleData (Receiver.chunksStart { (run P (init P) ops).rcv with acceptQ := [] }) (toWire P e) false).pq.cum - (P.tsn - 1)).toNat := h
          exact sna_lt_of_idx (P.tsn - 1) _ _ (by omega) (by omega)

end NetSysLive
