import SctpVerif.Proofs.Sender.Adv
import SctpVerif.Proofs.Sender.Moved
import SctpVerif.Proofs.Sna
/-!
Sender half of the FORWARD-TSN composition (`Props/C07net.lean`): along every run the cumulative ack point is
`t0 − 1 + a` for a COUNT `a` of acknowledged TSNs with `a + |inflight| = |moved|` (no wrap-around ambiguity), a SACK is
the only operation that moves it, and a FORWARD-TSN a gather emits covers, above `a`, abandoned chunks only.
-/
namespace SenderPR
open Gen Sender SenderProofs SenderTsn

/-- everything the composition needs to know about a sender state; `mv` = the chunks moved to in flight so far (the
`j`-th has TSN `t0 + j`), `a` = how many of them are cumulatively acknowledged -/
structure SInv (t0 : BitVec 32) (s : St) (mv : List Chunk) (a : Nat) : Prop where
  seq : Seq s
  win : WinInv s
  adv : AdvInv s
  pr : s.cfg.prEnabled = true
  minv : ∃ W, MInv t0 W mv s
  small : mv.length < 2^31
  infl : s.inflight.length < 2^31
  cum : s.cumAck = t0 - 1 + BitVec.ofNat 32 a
  alen : a + s.inflight.length = mv.length

theorem alen_of {t0 : BitVec 32} {s : St} {mv : List Chunk} {W : List Chunk} {a : Nat} (hs : Seq s) (hm : MInv t0 W mv s)
    (hc : s.cumAck = t0 - 1 + BitVec.ofNat 32 a) (ha : a < 2^31) (hi : s.inflight.length < 2^31) (hmv : mv.length < 2^31) :
    a + s.inflight.length = mv.length := by
  have h1 := hs.2
  rw [hm.next, hc] at h1
  have e1 : (BitVec.ofNat 32 a).toNat = a := by simp; omega
  have e2 : (BitVec.ofNat 32 s.inflight.length).toNat = s.inflight.length := by simp; omega
  have e3 : (BitVec.ofNat 32 mv.length).toNat = mv.length := by simp; omega
  generalize BitVec.ofNat 32 a = x at h1 e1
  generalize BitVec.ofNat 32 s.inflight.length = y at h1 e2
  generalize BitVec.ofNat 32 mv.length = z at h1 e3
  bv_omega

/-- the operations other than `sack` leave the cumulative ack point alone -/
theorem step_cumAck (s : St) (op : Op) (h : ∀ cum arwnd gaps marks, op ≠ .sack cum arwnd gaps marks) :
    (step s op).cumAck = s.cumAck := by
  cases op with
  | openS si u rt rv th => rfl
  | unreg si => simp only [step, unregister]; split <;> rfl
  | setEstablished b => rfl
  | write si ppi len =>
    simp only [step]
    unfold write
    cases hst : s.streams si with
    | none => rfl
    | some st =>
      simp only
      split
      · rfl
      · split
        · rfl
        · split
          · rfl
          · split <;> rfl
  | gather orc sel => exact (gather_grel s orc sel).2.2.2.1
  | sack cum arwnd gaps marks => exact absurd rfl (h cum arwnd gaps marks)
  | t3 => exact (t3_frame s).1.2.2.2.2.2.2.2.2.2.2.2.1
  | tick ms n marks =>
    have h1 : SameAcct s { s with now := s.now + ms } := ⟨rfl, rfl, rfl, rfl, rfl, rfl, rfl, rfl, rfl, rfl, rfl, rfl, rfl, rfl⟩
    exact (SameAcct.trans h1 (SameAcct.trans (iter_t3_sameAcct n _) (applyMarks_frame _ marks).1)).2.2.2.2.2.2.2.2.2.2.2.1

/-- a SACK either changes nothing or installs its cumulative TSN, which then names a chunk in flight (or the old point) -/
theorem sack_cumAck (s : St) (cum arwnd : BitVec 32) (gaps : List (BitVec 16 × BitVec 16)) (marks : List (BitVec 32))
    (hs : Seq s) (hsm : s.inflight.length < 2^31) (hm : CfgOk s.cfg) (hpr : s.cfg.prEnabled = true) (h : AdvInv s) :
    (sack s cum arwnd gaps marks).1.cumAck = s.cumAck ∨
    ((sack s cum arwnd gaps marks).1.cumAck = cum ∧ (cum - (s.cumAck + 1)).toNat < s.inflight.length) := by
  rcases sack_cases s cum arwnd gaps marks hs hsm with ⟨_, _, he, _⟩ | ⟨hok, _, hgt, hval, _⟩
  · left; rw [he]
  · obtain ⟨y, _, _, _, _, _, _, hy, hf⟩ := sack_ok_form s cum arwnd gaps marks hs hsm hm hpr h hok
    obtain ⟨a, b, hab⟩ := advancePeerAck_only y
    have hc : (sack s cum arwnd gaps marks).1.cumAck = cum := by
      rw [hf, hab]; exact hy
    by_cases hlt : sna32LT s.cumAck cum = true
    · right
      refine ⟨hc, ?_⟩
      simp only [validate, hlt, if_true, Bool.and_eq_true] at hval
      have hg := hval.1.2
      cases hget : Sender.get s.inflight cum with
      | none => simp [hget] at hg
      | some oc =>
        obtain ⟨o1, _, o3⟩ := get_off hs.1 (show Sender.get s.inflight cum = some (oc.1, oc.2) from hget)
        omega
    · left
      rw [hc]
      have h1 : sna32LT s.cumAck cum = false := by simpa using hlt
      have h2 : ¬ (0 < (cum - s.cumAck).toNat ∧ (cum - s.cumAck).toNat < 2^31) := fun hh => by
        have := (Sna.lt32_iff s.cumAck cum).2 hh; rw [h1] at this; cases this
      have h3 : ¬ (0 < (s.cumAck - cum).toNat ∧ (s.cumAck - cum).toNat ≤ 2^31) := fun hh => by
        have := (Sna.gt32_iff s.cumAck cum).2 hh; rw [hgt] at this; cases this
      bv_omega

/-- ✱ one sender operation keeps `SInv`; the count `a` grows only by a SACK, to the offset of its cumulative TSN -/
theorem SInv.step {t0 : BitVec 32} {s : St} {mv : List Chunk} {a : Nat} (h : SInv t0 s mv a) (op : Op)
    (hmv : (mv ++ movedBy s op).length < 2^31) (hinf : (Sender.step s op).inflight.length < 2^31) :
    ∃ a', SInv t0 (Sender.step s op) (mv ++ movedBy s op) a' ∧ a ≤ a' ∧
      (a' = a ∨ ∃ cum arwnd gaps marks, op = .sack cum arwnd gaps marks ∧ cum = t0 - 1 + BitVec.ofNat 32 a') := by
  obtain ⟨W, hW⟩ := h.minv
  obtain ⟨m1, m2, _⟩ := step_minv s op hW
  have hseq := step_seq s op h.seq h.win.cfgOk
  have hwin := (step_win s op h.win).1
  have hadv := step_adv s op h.seq h.win h.infl h.pr h.adv
  have hpr : (Sender.step s op).cfg.prEnabled = true := by rw [m2]; exact h.pr
  have mk : ∀ a', a' < 2^31 → (Sender.step s op).cumAck = t0 - 1 + BitVec.ofNat 32 a' →
      SInv t0 (Sender.step s op) (mv ++ movedBy s op) a' := fun a' ha hc =>
    ⟨hseq, hwin, hadv, hpr, ⟨_, m1⟩, hmv, hinf, hc, alen_of hseq m1 hc ha hinf hmv⟩
  have ha : a < 2^31 := by have := h.alen; have := h.small; omega
  by_cases hsk : ∀ cum arwnd gaps marks, op ≠ .sack cum arwnd gaps marks
  · exact ⟨a, mk a ha (by rw [step_cumAck s op hsk]; exact h.cum), Nat.le_refl _, Or.inl rfl⟩
  · have : ∃ cum arwnd gaps marks, op = .sack cum arwnd gaps marks := by
      cases op with
      | sack cum arwnd gaps marks => exact ⟨cum, arwnd, gaps, marks, rfl⟩
      | _ => exact absurd (by intro _ _ _ _ h; cases h) hsk
    obtain ⟨cum, arwnd, gaps, marks, rfl⟩ := this
    rcases sack_cumAck s cum arwnd gaps marks h.seq h.infl h.win.cfgOk h.pr h.adv with hc | ⟨hc, hlt⟩
    · exact ⟨a, mk a ha (by show (sack s cum arwnd gaps marks).1.cumAck = _; rw [hc]; exact h.cum), Nat.le_refl _, Or.inl rfl⟩
    · have hal := h.alen
      have hsm := h.small
      generalize hd : (cum - (s.cumAck + 1)).toNat = d at hlt
      have hcum : cum = t0 - 1 + BitVec.ofNat 32 (a + 1 + d) := by
        have e1 : (BitVec.ofNat 32 a).toNat = a := by simp; omega
        have e2 : (BitVec.ofNat 32 (a + 1 + d)).toNat = a + 1 + d := by
          simp; omega
        have hc0 := h.cum
        generalize BitVec.ofNat 32 a = x at hc0 e1
        generalize BitVec.ofNat 32 (a + 1 + d) = y at e2 ⊢
        bv_omega
      refine ⟨a + 1 + d, mk _ (by omega) ?_, by omega, Or.inr ⟨cum, arwnd, gaps, marks, rfl, hcum⟩⟩
      show (sack s cum arwnd gaps marks).1.cumAck = _
      rw [hc]; exact hcum

theorem SInv.init (cfg : Cfg) (t0 peerRwnd : BitVec 32) (hc : CfgOk cfg) (hpr : cfg.prEnabled = true) :
    SInv t0 (Sender.init cfg t0 peerRwnd) [] 0 :=
  ⟨init_seq cfg t0 peerRwnd, init_win cfg t0 peerRwnd hc, init_adv cfg t0 peerRwnd, hpr, ⟨[], init_minv cfg t0 peerRwnd⟩,
   by simp, by simp [Sender.init], by simp [Sender.init], by simp [Sender.init]⟩

/-- the `j`-th moved chunk is the chunk in flight at offset `j − a`: same TSN, same fragment -/
theorem SInv.inflight_frag {t0 : BitVec 32} {s : St} {mv : List Chunk} {a : Nat} (h : SInv t0 s mv a)
    {i : Nat} {x m : Chunk} (hx : s.inflight[i]? = some x) (hm : mv[a + i]? = some m) :
    m.tsn = x.tsn ∧ Chunk.frag m = Chunk.frag x := by
  obtain ⟨W, hW⟩ := h.minv
  have hi : i < s.inflight.length := by
    rcases Nat.lt_or_ge i s.inflight.length with h' | h'
    · exact h'
    · rw [List.getElem?_eq_none h'] at hx; cases hx
  have htx := contig_getElem h.seq.1 hx
  obtain ⟨m', hm', ht, hf⟩ := hW.inf x (List.mem_of_getElem? hx)
  obtain ⟨j, hj⟩ := List.getElem?_of_mem hm'
  have hjl : j < mv.length := by
    rcases Nat.lt_or_ge j mv.length with h' | h'
    · exact h'
    · rw [List.getElem?_eq_none h'] at hj; cases hj
  have htm := hW.tsn j m' hj
  have hal := h.alen
  have hsm := h.small
  have hje : j = a + i := by
    rw [ht, htx, h.cum] at htm
    have e1 : (BitVec.ofNat 32 a).toNat = a := by simp; omega
    have e2 : (BitVec.ofNat 32 i).toNat = i := by simp; omega
    have e3 : (BitVec.ofNat 32 j).toNat = j := by simp; omega
    generalize BitVec.ofNat 32 a = xa at htm e1
    generalize BitVec.ofNat 32 i = xi at htm e2
    generalize BitVec.ofNat 32 j = xj at htm e3
    bv_omega
  subst hje
  rw [hm] at hj
  cases hj
  exact ⟨ht, hf⟩

theorem SInv.inflight_msg {t0 : BitVec 32} {s : St} {mv : List Chunk} {a : Nat} (h : SInv t0 s mv a)
    {i : Nat} {x m : Chunk} (hx : s.inflight[i]? = some x) (hm : mv[a + i]? = some m) : x.msg = m.msg := by
  have := congrArg (fun f => f.2.1) (h.inflight_frag hx hm).2
  simpa [Chunk.frag] using this.symm

/-- ✱ what a FORWARD-TSN built in this state covers: its new cumulative TSN is `t0 + n` for a moved chunk `n`, and every
moved chunk up to `n` is abandoned or already cumulatively acknowledged (offset below `a`) -/
theorem SInv.covers {t0 : BitVec 32} {s : St} {mv : List Chunk} {a : Nat} (h : SInv t0 s mv a)
    (hgt : sna32GT s.advPeerAck s.cumAck = true) :
    ∃ n, s.advPeerAck = t0 + BitVec.ofNat 32 n ∧ n < mv.length ∧
      ∀ j m, j ≤ n → mv[j]? = some m → s.abandoned m = true ∨ j < a := by
  have hd := (Sna.gt32_iff _ _).1 hgt
  have hle := h.adv.le
  have hab := h.adv.ab
  have hal := h.alen
  have hsm := h.small
  have hin := h.infl
  generalize hdd : (s.advPeerAck - s.cumAck).toNat = d at hd hle hab
  refine ⟨a + d - 1, ?_, by omega, ?_⟩
  · have hc := h.cum
    have e1 : (BitVec.ofNat 32 a).toNat = a := by simp; omega
    have e2 : (BitVec.ofNat 32 (a + d - 1)).toNat = a + d - 1 := by
      simp; omega
    generalize BitVec.ofNat 32 a = x at hc e1
    generalize BitVec.ofNat 32 (a + d - 1) = y at e2 ⊢
    bv_omega
  · intro j m hj hm
    rcases Nat.lt_or_ge j a with hlt | hge
    · exact Or.inr hlt
    · left
      have hi : j - a < s.inflight.length := by omega
      have hx : s.inflight[j - a]? = some s.inflight[j - a] := List.getElem?_eq_getElem hi
      have hab := hab (j - a) _ (by omega) hx
      have hmsg := h.inflight_msg hx (by rw [show a + (j - a) = j by omega]; exact hm)
      exact (AbLe.refl s).abandoned hmsg.symm hab

/-- the chunks `createForwardTSN` / `createIForwardTSN` scan are moved chunks: abandoned, at or below the advanced point -/
theorem SInv.scanned {t0 : BitVec 32} {s : St} {mv : List Chunk} {a : Nat} (h : SInv t0 s mv a) :
    ∀ c ∈ fwdChunks s, ∃ m ∈ mv, s.abandoned m = true ∧ sna32LTE m.tsn s.advPeerAck = true ∧ Chunk.frag m = Chunk.frag c := by
  intro c hc
  rw [fwdChunks_eq s h.seq h.infl h.adv] at hc
  obtain ⟨i, hi, hget⟩ := List.getElem_of_mem hc
  rw [List.getElem_take] at hget
  have hle := h.adv.le
  have hal := h.alen
  have hin := h.infl
  have hi' : i < (s.advPeerAck - s.cumAck).toNat := by rw [List.length_take] at hi; omega
  have hil : i < s.inflight.length := by omega
  have hx : s.inflight[i]? = some c := by rw [List.getElem?_eq_getElem hil, hget]
  have hm : mv[a + i]? = some mv[a + i] := List.getElem?_eq_getElem (by omega)
  obtain ⟨ht, hf⟩ := h.inflight_frag hx hm
  have hab := h.adv.ab i c hi' hx
  have hmsg := h.inflight_msg hx hm
  refine ⟨mv[a + i], List.getElem_mem _, (AbLe.refl s).abandoned hmsg.symm hab, ?_, hf⟩
  rw [ht, contig_getElem h.seq.1 hx]
  apply (Sna.lte32_iff _ _).2
  have e2 : (BitVec.ofNat 32 i).toNat = i := by simp; omega
  generalize BitVec.ofNat 32 i = xi at e2 ⊢
  generalize hd : (s.advPeerAck - s.cumAck).toNat = d at hi' hle
  bv_omega

end SenderPR
