import SctpVerif.Proofs.NetSys.Count
import SctpVerif.Proofs.NetSys.IData
/-!
Composition, DATA (no interleaving): the hypotheses of `C01_receiver_prefix` hold for the receiver run of every NetSys
run over reliable ordered streams whose selection oracle is message-contiguous and per-stream FIFO (`SelContig`), with
the universe `sendersD` built from the sender run.
-/
namespace NetSys
open SenderProofs SenderTsn Sender

theorem idxOfFrag_le (P : Params) (acc : List Write) (mv : List Chunk) (si : BitVec 16) (k i : Nat) :
    idxOfFrag P acc mv si k i ≤ mv.length := by
  simp only [idxOfFrag]
  split
  · exact Nat.le_refl _
  · have := List.idxOf_le_length (l := mv.map Chunk.frag)
      (a := fragOf P.cfg.useInterleaving ‹Write› k i (fragSizes P.cfg.maxPayload.toNat (P.pay (‹Write›).msg).length).length)
    simpa using this

theorem ofNat32_add_inj (t : BitVec 32) {a b : Nat} (ha : a < 2^32) (hb : b < 2^32)
    (h : t + BitVec.ofNat 32 a = t + BitVec.ofNat 32 b) : a = b := by
  have h' : BitVec.ofNat 32 a = BitVec.ofNat 32 b := by
    have := congrArg (fun x => x - t) h
    simpa [BitVec.add_comm t, BitVec.add_sub_cancel] using this
  exact ofNat32_inj ha hb h'

theorem netsys_prefix_data (P : Params) (ops : List Op) (si : BitVec 16)
    (hil : P.cfg.useInterleaving = false) (hrel : Reliable ops = true) (hsel : SelContig P ops = true)
    (hN : chunksWritten P ops < 2^31) (hwin : WinOk P si (2^15) (init P) ops = true) :
    readsOn P si (init P) ops <+: writesOn P si (init P) ops := by
  have hs0 : (init P).snd = Sender.init P.cfg P.tsn P.peerRwnd := rfl
  have hlen := sndOps_lenOk P (init P).snd ops
  have hord := sndOps_ord P (init P).snd ops hrel
  have hident := wire_ident P.cfg P.tsn P.peerRwnd (fun m => (P.pay m).length) (sndOps P (init P).snd ops) hord hlen
  have hmid := moved_ident P.cfg P.tsn P.peerRwnd (fun m => (P.pay m).length) (sndOps P (init P).snd ops) hord hlen
  obtain ⟨hal, hfr⟩ := accepted_le_written P.cfg P.tsn P.peerRwnd (fun m => (P.pay m).length) (sndOps P (init P).snd ops) hord hlen
  have hmv := moved_le_written P.cfg P.tsn P.peerRwnd (sndOps P (init P).snd ops)
  have hnd := moved_frag_nodup P.cfg P.tsn P.peerRwnd (sndOps P (init P).snd ops)
  have hsorted := accepted_sorted (init P).snd (sndOps P (init P).snd ops)
  obtain ⟨hgen, _⟩ := run_gen P.cfg.useInterleaving (fun m => (P.pay m).length) [] (init P).snd (sndOps P (init P).snd ops)
    (init_cinv _ P.cfg P.tsn P.peerRwnd) rfl hord hlen
  have hcnt := moved_count_le P.cfg P.tsn P.peerRwnd (sndOps P (init P).snd ops)
  rw [← hs0] at hident hal hfr hmv hmid hnd hcnt
  simp only [chunksWritten] at hN
  simp only [SelContig, Bool.and_eq_true] at hsel
  obtain ⟨hsel1, hsel2⟩ := hsel
  rw [hil] at hident hmid hgen
  generalize hacc : accepted (init P).snd (sndOps P (init P).snd ops) = acc at hident hal hfr hmid hsorted hsel2 hgen
  generalize hmvd : moved (init P).snd (sndOps P (init P).snd ops) = mv at hident hmv hmid hnd hsel1 hsel2 hcnt
  generalize hWl : written (init P).snd (sndOps P (init P).snd ops) = Wl at hN hal hfr hmv hgen hcnt
  have hcfg0 : (init P).snd.cfg = P.cfg := rfl
  rw [hcfg0] at hgen
  have hWsum : Wl.length = (acc.map (nfr P)).sum := by
    rw [hgen, gen_length_eq]; rfl
  have ctx : DCtx P acc mv :=
    { il := hil, sorted := hsorted,
      mvid := fun j m hj => by
        obtain ⟨_, ws1, a, ws2, i, e1, e2, e3⟩ := hmid j m hj
        exact ⟨ws1, a, ws2, i, e1, e2, e3⟩
      nd := hnd, contig := contigB_spec mv hsel1, fifo := fifoB_spec P acc mv hsel2,
      small := fun a ha => by have := (hfr a ha).2.1; simp only [nfr]; omega }
  generalize hW : Wl.length = W at hN hal hfr hmv hWsum
  -- every chunk of the sender run's wire is a fragment of the universe, at its position among the moves
  have hchunk : ∀ c ∈ wire (init P).snd (sndOps P (init P).snd ops), ∃ (ws1 : List Write) (a : Write) (ws2 : List Write) (i : Nat),
      acc = ws1 ++ a :: ws2 ∧ c.msg = a.msg ∧ c.si = a.si ∧
      cntOf ws1 a.si < (senderD P acc mv a.si).msgs.length ∧ i < (senderD P acc mv a.si).nf (cntOf ws1 a.si) ∧
      toWire P c = (senderD P acc mv a.si).dataFrag (cntOf ws1 a.si) i ∧
      (senderD P acc mv a.si).base (cntOf ws1 a.si) + i = (mv.map Chunk.frag).idxOf (Chunk.frag c) ∧
      (mv.map Chunk.frag).idxOf (Chunk.frag c) < mv.length := by
    intro c hc
    obtain ⟨ws1, a, ws2, i, e1, e2, e3, e4, e5, e6⟩ := hident c hc
    obtain ⟨t1, t2, t3, t4⟩ := toWire_data P acc ws1 ws2 a mv ctx e1 c i e2 e3 e4 e5 e6
    have hcm : c.msg = a.msg ∧ c.si = a.si := by
      have h1 := congrArg (fun x => x.2.1) e3
      have h2 := congrArg (fun x => x.1) e3
      simp only [Chunk.frag, fragOf] at h1 h2
      exact ⟨h1, h2⟩
    exact ⟨ws1, a, ws2, i, e1, hcm.1, hcm.2, t1, t2, t3, t4, e5⟩
  have hS : senderD P acc mv si ∈ sendersD P acc mv si := by
    simp only [sendersD, List.mem_map]
    exact ⟨si, (uniq_mem _ _).2 List.mem_cons_self, rfl⟩
  -- the TSN offset of every fragment of the universe, moved or not, is below the number of chunks written
  have hidxAll : ∀ x k i, k < (senderD P acc mv x).msgs.length → i < (senderD P acc mv x).nf k →
      (senderD P acc mv x).base k + i < W := by
    intro x k i hk hi
    have hklen : k < (acc.filter (·.si == x)).length := by
      have : (senderD P acc mv x).msgs.length = (acc.filter (·.si == x)).length := by simp [senderD, msgsOf]
      omega
    have hak : (acc.filter (·.si == x))[k]? = some (acc.filter (·.si == x))[k] := List.getElem?_eq_getElem hklen
    obtain ⟨u, v, eu, cu, hsu⟩ := filter_get_split acc x k _ hak
    generalize (acc.filter (·.si == x))[k] = ak at hak eu hsu
    have hnfk : (senderD P acc mv x).nf k = nfr P ak := by
      have hmsg := senderI_msg P acc x k ak hak
      have : (senderD P acc mv x).msg k = (senderI P acc x).msg k := rfl
      simp only [Reasm.Sender.nf, this, hmsg, Reasm.Msg.nf, cut_length, nfr]
    have hidxk : idxOfFrag P acc mv x k 0 = (mv.map Chunk.frag).idxOf (fragOf false ak k 0 (nfr P ak)) := by
      simp only [idxOfFrag, hak, hil, nfr]
    have cW := gen_count_msg false P.cfg.maxPayload.toNat (fun m => (P.pay m).length) acc u v ak ctx.sorted eu
    rw [← hgen] at cW
    have cM := moved_count_msg ctx u v ak eu
    rw [hsu, cu] at cM
    have un := unmoved_ge Wl mv hcnt (msgIs ak.msg)
    have h1 := idxOfFrag_le P acc mv x k 0
    have h2 := posOf_le P acc x (k + 1)
    have h3 := posOf_succ P acc x k hk
    have h4 : (senderD P acc [] x).nf k = (senderD P acc mv x).nf k := rfl
    have hb : (senderD P acc mv x).base k = posOf P acc x k + (idxOfFrag P acc mv x k 0 - posOf P acc x k) := rfl
    have hn : (fragSizes P.cfg.maxPayload.toNat (P.pay ak.msg).length).length = nfr P ak := rfl
    rw [hidxk] at h1 hb
    rw [hn] at cW
    generalize (mv.map Chunk.frag).idxOf (fragOf false ak k 0 (nfr P ak)) = J0 at cM h1 hb
    generalize ((mv.map Chunk.frag).countP (msgIs ak.msg)) = cm at cM un
    generalize ((Wl.map Chunk.frag).countP (msgIs ak.msg)) = cw at cW un
    omega
  have key := C01.C01_receiver_prefix (sendersD P acc mv si) P.tsn W hN ?hWF ?ht0 ?hidx ?hsi
    P.maxBuf P.maxEntries P.cfg.useInterleaving P.useFwd P.useIFwd P.ackMode (rcvOps P (init P) ops) ?hgood
    (senderD P acc mv si) hS ?hwin
  · -- conclusion
    rw [reads_eq]
    have hinit : (init P).rcv = Receiver.init P.maxBuf P.maxEntries P.cfg.useInterleaving P.useFwd P.useIFwd P.ackMode P.tsn := rfl
    rw [hinit]
    have hout : (senderD P acc mv si).msgs.map Reasm.Msg.out = writesOn P si (init P) ops := by
      simp only [writesOn, writes_eq, hacc, senderD, msgsOf, List.map_map]
      apply List.map_congr_left
      intro a ha
      have ha' : a ∈ acc := (List.mem_filter.1 ha).1
      simp only [Function.comp, Reasm.Msg.out, Reasm.Msg.payload, cut_flatten _ _ (hfr a ha').2.2]
    rw [← hout]
    exact key
  case hWF =>
    intro S hS'
    simp only [sendersD, List.mem_map] at hS'
    obtain ⟨x, _, rfl⟩ := hS'
    intro m hm
    simp only [senderD, msgsOf, List.mem_map] at hm
    obtain ⟨a, ha, rfl⟩ := hm
    have ha' : a ∈ acc := (List.mem_filter.1 ha).1
    simp only [Reasm.Msg.nf, cut_length]
    have := hfr a ha'
    omega
  case ht0 =>
    intro S hS'
    simp only [sendersD, List.mem_map] at hS'
    obtain ⟨x, _, rfl⟩ := hS'
    rfl
  case hidx =>
    intro S hS' k i hk hi
    simp only [sendersD, List.mem_map] at hS'
    obtain ⟨x, _, rfl⟩ := hS'
    exact hidxAll x k i hk hi
  case hsi =>
    intro S hS1 S' hS2 he
    simp only [sendersD, List.mem_map] at hS1 hS2
    obtain ⟨x, _, rfl⟩ := hS1
    obtain ⟨y, _, rfl⟩ := hS2
    have : y = x := he
    rw [this]
  case hgood =>
    intro cs hcs ch hch
    right
    obtain ⟨r1, r2, hr⟩ := List.append_of_mem hcs
    obtain ⟨o1, op, o2, e, _, _, e3⟩ := rcvOps_split P (init P) ops r1 _ r2 hr
    obtain ⟨is, rfl⟩ := rcvOp_pkt P _ op cs e3
    obtain ⟨c, hc, imm, rfl⟩ := packetOf_mem P _ is ch hch
    have hc' := wire_prefix_sub P o1 (op :: o2) c hc
    rw [← e] at hc'
    obtain ⟨ws1, a, ws2, i, e1, _, _, t1, t2, t3, _, _⟩ := hchunk c hc'
    have ha : a ∈ acc := by rw [e1]; simp
    refine ⟨senderD P acc mv a.si, ?_, cntOf ws1 a.si, i, imm, t1, t2, by rw [t3]⟩
    simp only [sendersD, List.mem_map]
    exact ⟨a.si, (uniq_mem _ _).2 (List.mem_cons_of_mem _ (List.mem_map.2 ⟨a, ha, rfl⟩)), rfl⟩
  case hwin =>
    intro ops1 cs1 k i imm cs2 ops2 hr hk hi _
    obtain ⟨o1, op, o2, e, e1, _, e3⟩ := rcvOps_split P (init P) ops ops1 _ ops2 hr
    obtain ⟨is, hpk⟩ := rcvOp_pkt P _ op _ e3
    have hmem : Receiver.InChunk.data ((senderD P acc mv si).dataFrag k i) imm ∈ packetOf P (run P (init P) o1).wire is := by
      rw [← hpk]; simp
    obtain ⟨c, hc, imm', hceq⟩ := packetOf_mem P _ is _ hmem
    simp only [Receiver.InChunk.data.injEq] at hceq
    have hceq := hceq.1
    -- `c` in the whole run
    have hcf := wire_prefix_sub P o1 (op :: o2) c hc
    rw [← e] at hcf
    obtain ⟨ws1, a, ws2, i', a1, a2, a3, t1, t2, t3, t4, t5⟩ := hchunk c hcf
    -- `c` in the PREFIX run: its message was accepted before
    rw [(run_snd P (init P) o1).2] at hc
    have hc1 : c ∈ wire (init P).snd (sndOps P (init P).snd o1) := by simpa [init] using hc
    have hrel1 : Reliable o1 = true := (reliable_append o1 (op :: o2) (by rw [← e]; exact hrel)).1
    have hid1 := wire_ident P.cfg P.tsn P.peerRwnd (fun m => (P.pay m).length) (sndOps P (init P).snd o1)
      (sndOps_ord P (init P).snd o1 hrel1) (sndOps_lenOk P (init P).snd o1)
    rw [← hs0] at hid1
    obtain ⟨w1, b1, w2, j1, p1, _, p3, _, _, _⟩ := hid1 c hc1
    obtain ⟨rest, hrest⟩ := accepted_prefix P o1 (op :: o2)
    rw [← e, hacc] at hrest
    have hb1m : c.msg = b1.msg := by
      have := congrArg (fun x => x.2.1) p3
      simpa [Chunk.frag, fragOf] using this
    have hsplit2 : acc = w1 ++ b1 :: (w2 ++ rest) := by rw [hrest, p1]; simp
    obtain ⟨u1, u2, _⟩ := split_unique acc ctx.sorted w1 (w2 ++ rest) ws1 ws2 b1 a hsplit2 a1 (hb1m.symm.trans a2)
    -- the stream
    have hsi : c.si = si := by
      have := congrArg (fun x => x.si) hceq
      simpa [toWire, Reasm.Sender.dataFrag, senderD] using this.symm
    have hasi : a.si = si := a3.symm.trans hsi
    have hk1 : cntOf w1 b1.si < cntOf (accepted (init P).snd (sndOps P (init P).snd o1)) b1.si := (filter_split _ w1 w2 b1 p1).2
    rw [u1, u2, hasi] at hk1
    -- the TSN offsets agree
    rw [hasi] at t1 t2 t3 t4
    have hJ : (senderD P acc mv si).base k + i = (mv.map Chunk.frag).idxOf (Chunk.frag c) := by
      have htsn := congrArg (fun x => x.tsn) (hceq.trans t3)
      simp only [Reasm.Sender.dataFrag] at htsn
      have hb1 := hidxAll si k i hk hi
      have hb2 := hidxAll si (cntOf ws1 si) i' t1 t2
      have := ofNat32_add_inj _ (by omega) (by omega) htsn
      omega
    -- message `k` of the universe: its position among the accepted writes
    have hklen : k < (acc.filter (·.si == si)).length := by
      have : (senderD P acc mv si).msgs.length = (acc.filter (·.si == si)).length := by simp [senderD, msgsOf]
      omega
    have hak : (acc.filter (·.si == si))[k]? = some (acc.filter (·.si == si))[k] := List.getElem?_eq_getElem hklen
    obtain ⟨u, v, eu, cu, hsu⟩ := filter_get_split acc si k _ hak
    generalize (acc.filter (·.si == si))[k] = ak at hak eu hsu
    have hnfk : (senderD P acc mv si).nf k = nfr P ak := by
      have hmsg := senderI_msg P acc si k ak hak
      have : (senderD P acc mv si).msg k = (senderI P acc si).msg k := rfl
      simp only [Reasm.Sender.nf, this, hmsg, Reasm.Msg.nf, cut_length, nfr]
    have hidxk : idxOfFrag P acc mv si k 0 = (mv.map Chunk.frag).idxOf (fragOf false ak k 0 (nfr P ak)) := by
      simp only [idxOfFrag, hak, hil, nfr]
    have hkk : cntOf ws1 si = k := by
      by_cases hJ0 : (mv.map Chunk.frag).idxOf (fragOf false ak k 0 (nfr P ak)) < mv.length
      · -- the first fragment of message `k` was moved: its fragments follow it without a gap
        have hJ0' : (mv.map Chunk.frag).idxOf (fragOf false ak (cntOf u ak.si) 0 (nfr P ak)) < mv.length := by
          rw [hsu, cu]; exact hJ0
        obtain ⟨_, hbase⟩ := ctx.first u v ak eu hJ0'
        rw [hsu, cu] at hbase
        obtain ⟨b, hb, hbf⟩ := idxOf_get _ mv hJ0
        have hb0 : b.fsn = 0 := by
          have := congrArg (fun x => x.2.2.2.2.2.2.2.2) hbf
          simpa [Chunk.frag, fragOf] using this
        have hbm : b.msg = ak.msg := by
          have := congrArg (fun x => x.2.1) hbf
          simpa [Chunk.frag, fragOf] using this
        have hak' : ak ∈ acc := by rw [eu]; simp
        have hsm := ctx.small ak hak'
        have he : ∀ c' ∈ mv, c'.msg = b.msg → c'.efrag = (c'.fsn.toNat + 1 == nfr P ak) := by
          intro c' hc' hm'
          obtain ⟨j, hj⟩ := List.getElem?_of_mem hc'
          obtain ⟨i'', hi'', hf''⟩ := ctx.of_msg u v ak eu j c' hj (hm'.trans hbm)
          have g1 := congrArg (fun x => x.2.2.2.2.2.1) hf''
          have g2 := congrArg (fun x => x.2.2.2.2.2.2.2.2) hf''
          simp only [Chunk.frag, fragOf] at g1 g2
          rw [g1, g2, BitVec.toNat_ofNat, Nat.mod_eq_of_lt (by omega)]
        have hlt : (mv.map Chunk.frag).idxOf (fragOf false ak k 0 (nfr P ak)) + i < mv.length := by
          rw [← hbase, hJ]; exact t5
        obtain ⟨y, hy, hym, _⟩ := ctx.contig.fwd _ b hb hb0 (nfr P ak) (by omega) he i (by rw [← hnfk]; exact hi) hlt
        obtain ⟨m, hmJ, hmf⟩ := idxOf_get _ mv t5
        have hmm : m.msg = c.msg := by
          have := congrArg (fun x => x.2.1) hmf
          simpa [Chunk.frag] using this
        rw [← hbase, hJ] at hy
        have hym' : y = m := by rw [hy] at hmJ; exact Option.some.inj hmJ
        have hmsgeq : ak.msg = a.msg := by rw [← hbm, ← hym, hym', hmm, a2]
        obtain ⟨v1, _, _⟩ := split_unique acc ctx.sorted u v ws1 ws2 ak a eu a1 hmsgeq
        rw [← v1]; exact cu
      · -- the first fragment of message `k` never moved: its offset is beyond every TSN in use
        exfalso
        have hle := idxOfFrag_le P acc mv si k 0
        have hb : (senderD P acc mv si).base k = posOf P acc si k + (idxOfFrag P acc mv si k 0 - posOf P acc si k) := rfl
        rw [hidxk] at hle hb
        omega
    -- the window
    simp only [WinOk, List.all_eq_true, List.mem_range, decide_eq_true_eq] at hwin
    have hw := hwin o1.length (by rw [e]; simp; omega)
    have htake : ops.take o1.length = o1 := by rw [e]; simp
    rw [htake] at hw
    have hwl : (writesOn P si (init P) o1).length = cntOf (accepted (init P).snd (sndOps P (init P).snd o1)) si := by
      simp [writesOn, writes_eq, cntOf]
    rw [hwl, reads_eq, e1] at hw
    have hinit : (init P).rcv = Receiver.init P.maxBuf P.maxEntries P.cfg.useInterleaving P.useFwd P.useIFwd P.ackMode P.tsn := rfl
    rw [hinit] at hw
    show k < (Receiver.delivs si _ ops1).length + 2^15
    omega

end NetSys
