import SctpVerif.Proofs.NetSys.LiveHonest
import SctpVerif.Proofs.NetSys.LiveRoundOk
/-!
Honest runs stay honest along the healed rounds (`Props/C02net.lean`, `C02_netsys_drains_honest`): every operation of a
healed round is trivially honest except its last one, and that one carries the receiver's truthful SACK, which is sound
(`truthful_sound`); so the invariant `HL` of `LiveHonest.lean` is kept round after round (`hl_healed`) and `InSync` follows
at the start of every round whose receive queue is pop-normalised.
-/
namespace NetSysLive
open Gen NetSys

/-- the SACK `createSelectiveAckChunk` builds tells the truth about the receive queue it is built from -/
theorem truthful_sound (q : RecvQ.Q) (I : RecvQ.Inv q) (hmo : q.maxOff.toNat < 2^16) : soundSack q q.cum (RecvQ.gaps q) = true := by
  obtain ⟨g1, _, _, _⟩ := RecvQ.gaps_spec I hmo
  simp only [soundSack, Bool.and_eq_true, List.all_eq_true, Bool.or_eq_true]
  refine ⟨by simp [sna32LTE], ?_⟩
  intro g hg j hj
  obtain ⟨b1, b2, b3, b4⟩ := g1 g hg
  have hj' := List.mem_range'_1.mp hj
  have hh := b4 j hj'.1 (by omega)
  right
  exact (RecvQ.hasChunk_iff I _).mpr ((RecvQ.heldAt_iff I j).mp hh).2

theorem honest_of_plain (P : Params) (l : List Op) (h : ∀ op ∈ l, ∀ s, HonestOp s op = true) : ∀ s, Honest P s l = true := by
  induction l with
  | nil => intro s; rfl
  | cons op l ih =>
    intro s
    simp only [Honest, Bool.and_eq_true]
    exact ⟨h op (by simp) s, ih (fun o ho => h o (List.mem_cons_of_mem _ ho)) _⟩

theorem honestOp_rcvOnly (op : Op) (h : RcvOnly op) (s : St) : HonestOp s op = true := by
  cases op with
  | write a b => exact absurd h (by simp [RcvOnly])
  | snd o => exact absurd h (by simp [RcvOnly])
  | deliver is => rfl
  | rcv o => rfl

theorem honest_roundOps (P : Params) (s0 s : St) : Honest P s (roundOps P s0) = true := by
  apply honest_of_plain
  intro op hop
  unfold roundOps at hop
  simp only [List.mem_append] at hop
  rcases hop with ((h | h) | h) | h
  · exact honestOp_rcvOnly op (acceptAll_rcvOnly _ op h)
  · intro s'
    unfold sendOps at h
    by_cases he : s0.snd.inflight.isEmpty = true
    · simp [he] at h; subst h; rfl
    · simp [he] at h; rcases h with rfl | rfl <;> rfl
  · exact honestOp_rcvOnly op (deliverOps_rcvOnly _ _ op h)
  · exact honestOp_rcvOnly op (recvOps_rcvOnly _ op h)

/-- the healed round is an honest continuation of every run -/
theorem honest_healedRound (P : Params) (ops : List Op) :
    Honest P (run P (init P) ops) (healedRound P (run P (init P) ops)) = true := by
  unfold healedRound
  rw [honest_snoc, Bool.and_eq_true]
  refine ⟨honest_roundOps P _ _, ?_⟩
  show soundSack _ _ _ = true
  have hpre : run P (run P (init P) ops) (roundOps P (run P (init P) ops)) =
      run P (init P) (ops ++ roundOps P (run P (init P) ops)) := by rw [NetSys.run_append]
  unfold preSack
  rw [hpre]
  obtain ⟨hmo, I⟩ := run_pq_maxOff P (ops ++ roundOps P (run P (init P) ops))
  exact truthful_sound _ I hmo

/-- `HL` along an honest continuation -/
theorem hl_ext (P : Params) (ops : List Op) (hc : SenderProofs.CfgOk P.cfg) (l : List Op)
    (hN : tsnsUsed P (ops ++ l) < 2^31)
    (hts : SenderProofs.TsnOk (run P (init P) ops).snd (sndOps P (run P (init P) ops).snd l))
    (hh : Honest P (run P (init P) ops) l = true) (h : HL P (run P (init P) ops)) :
    HL P (run P (init P) (ops ++ l)) := by
  induction l using List.reverseRecOn with
  | nil => simpa using h
  | append_singleton l1 op ih =>
    rw [honest_snoc, Bool.and_eq_true] at hh
    have hm : tsnsUsed P (ops ++ l1) ≤ tsnsUsed P (ops ++ (l1 ++ [op])) := by
      rw [← List.append_assoc]; exact tsnsUsed_mono P _ _
    have hts1 : SenderProofs.TsnOk (run P (init P) ops).snd (sndOps P (run P (init P) ops).snd l1) := by
      rw [sndOps_append] at hts; exact hts.take
    have h1 := ih (by omega) hts1 hh.1
    have hsm : (run P (init P) (ops ++ l1)).snd.inflight.length < 2^31 := by
      rw [NetSys.run_append, (run_snd P _ l1).1]; exact hts1.last
    have hop : HonestOp (run P (init P) (ops ++ l1)) op = true := by
      rw [NetSys.run_append]; exact hh.2
    rw [← List.append_assoc]
    exact step_hl P (ops ++ l1) op hc (by rw [List.append_assoc]; exact hN) hsm hop h1

open Sender SenderProofs in
/-- fewer than 2^31 chunks in flight at every sender state of a healed round -/
theorem tsnOk_healedRound (P : Params) (s : NetSys.St) (hl : Live s.snd) :
    TsnOk s.snd (sndOps P s.snd (healedRound P s)) := by
  unfold healedRound
  rw [sndOps_append, sndOps_roundOps, run_sndPart]
  have e : sndOps P (sndPre s.snd) [sackOp (preSack P s).rcv] =
      [.sack (truthfulSack (preSack P s).rcv).1 (truthfulSack (preSack P s).rcv).2.1 (truthfulSack (preSack P s).rcv).2.2 []] := rfl
  rw [e]
  have hx := (live_sndPre hl).1
  have h3 : TsnOk (sndPre s.snd) [.sack (truthfulSack (preSack P s).rcv).1 (truthfulSack (preSack P s).rcv).2.1 (truthfulSack (preSack P s).rcv).2.2 []] := by
    refine ⟨by have := hx.small; omega, ?_⟩
    show (Sender.sack _ _ _ _ _).1.inflight.length < 2^31
    have := (live_sack hx (truthfulSack (preSack P s).rcv).1 (truthfulSack (preSack P s).rcv).2.1 (truthfulSack (preSack P s).rcv).2.2 []).small
    omega
  have h12 : TsnOk s.snd (sndPart s.snd) := by
    unfold sndPart
    by_cases he : s.snd.inflight.isEmpty = true
    · simp only [he, if_true, List.nil_append]
      refine ⟨by have := hl.small; omega, ?_⟩
      show (Sender.gather _ _ _).1.inflight.length < 2^31
      have := (live_gather hl Sender.freeOracle (fifoSel s.snd)).small
      omega
    · simp only [he, Bool.false_eq_true, if_false, List.singleton_append]
      refine ⟨by have := hl.small; omega, by show (Sender.t3 _).inflight.length < 2^31; have := (live_t3 hl).small; omega, ?_⟩
      show (Sender.gather (Sender.t3 s.snd) _ _).1.inflight.length < 2^31
      have := (live_gather (live_t3 hl) Sender.freeOracle (fifoSel (Sender.t3 s.snd))).small
      omega
  have := TsnOk.append h12 (by rw [run_sndPart]; exact h3)
  exact this

/-- ✱ a healed round keeps `HL` -/
theorem hl_healed (P : Params) (ops : List Op) (hc : SenderProofs.CfgOk P.cfg) (hN : chunksWritten P ops < 2^31)
    (hl : SenderProofs.Live (run P (init P) ops).snd) (h : HL P (run P (init P) ops)) :
    HL P (run P (init P) (ops ++ healedRound P (run P (init P) ops))) := by
  apply hl_ext P ops hc _ _ (tsnOk_healedRound P _ hl) (honest_healedRound P ops) h
  have := tsnsUsed_le P (ops ++ healedRound P (run P (init P) ops))
  rw [chunksWritten_healedRound] at this
  omega

/-- ✱ along the healed rounds of an honest run `RoundOkHN` gives `RoundOkN` -/
theorem roundOkN_of_honest (P : Params) (hc : SenderProofs.CfgOk P.cfg) (n : Nat) : ∀ ops, chunksWritten P ops < 2^31 →
    SenderProofs.Live (run P (init P) ops).snd → HL P (run P (init P) ops) →
    RoundOkHN P n (run P (init P) ops) = true → RoundOkN P n (run P (init P) ops) = true := by
  induction n with
  | zero => intro _ _ _ _ _; rfl
  | succ n ih =>
    intro ops hN hl h hok
    simp only [RoundOkHN, Bool.and_eq_true, Bool.or_eq_true, beq_iff_eq] at hok
    simp only [RoundOkN, Bool.and_eq_true, Bool.or_eq_true, beq_iff_eq]
    constructor
    · rcases hok.1 with h0 | hr
      · exact Or.inl h0
      · right
        simp only [RoundOkH, Bool.and_eq_true, beq_iff_eq, Normal, Bool.not_eq_true'] at hr
        obtain ⟨⟨⟨hst, hroom⟩, hnorm⟩, hhead⟩ := hr
        have hM : tsnsUsed P ops < 2^31 := Nat.lt_of_le_of_lt (tsnsUsed_le P ops) hN
        simp only [RoundOk, Bool.and_eq_true, beq_iff_eq]
        exact ⟨⟨⟨hst, hroom⟩, insync_of_hl P ops hc hM h hnorm⟩, hhead⟩
    · have p1 := (healed_progress P ops hc hN hl).1
      have h' := hl_healed P ops hc hN hl h
      have hok2 := hok.2
      rw [healed_run] at p1 hok2 ⊢
      exact ih _ (by rw [chunksWritten_healedRound]; exact hN) p1 h' hok2

end NetSysLive
