import SctpVerif.Proofs.NetSys.UnivD
/-!
Counting, to bound the TSN offsets of the DATA universe by the number of chunks WRITTEN (not moved + written): the
written chunks that carry one message identity are exactly the fragments of that message; the moved chunks that carry
it sit at or behind the position of its first fragment; and the chunks never moved are at least the fragments of the
message that were never moved.
-/
namespace NetSys
open SenderProofs SenderTsn Sender

/-- the fragment identity carries message identity `m` -/
def msgIs (m : Nat) : Frag → Bool := fun f => f.2.1 == m

theorem gen_msgs (il : Bool) (mp : Nat) (lenOf : Nat → Nat) (pre ws : List Write) :
    ∀ w ∈ gen il mp lenOf pre ws, ∃ a ∈ ws, w.msg = a.msg := by
  intro w hw
  obtain ⟨ws1, a, ws2, i, e, hi⟩ := gen_mem il mp lenOf pre ws w hw
  exact ⟨a, by rw [e]; simp, (grp_get _ _ _ _ _ i w hi).2.1⟩

theorem grp_msgs (il : Bool) (mp len k : Nat) (a : Write) : ∀ w ∈ grp il mp len k a, w.msg = a.msg := by
  intro w hw
  obtain ⟨i, hi⟩ := List.getElem?_of_mem hw
  exact (grp_get _ _ _ _ _ i w hi).2.1

/-- among the written chunks, those that carry the identity of the accepted write `ak` are its fragments -/
theorem gen_count_msg (il : Bool) (mp : Nat) (lenOf : Nat → Nat) (acc u v : List Write) (ak : Write)
    (hs : acc.Pairwise (fun a b => a.msg < b.msg)) (h : acc = u ++ ak :: v) :
    ((gen il mp lenOf [] acc).map Chunk.frag).countP (msgIs ak.msg) = (fragSizes mp (lenOf ak.msg)).length := by
  subst h
  rw [List.pairwise_append] at hs
  obtain ⟨_, hs2, hs3⟩ := hs
  rw [List.pairwise_cons] at hs2
  rw [gen_append]
  simp only [gen, List.map_append, List.countP_append, List.countP_map, List.nil_append]
  have h1 : (gen il mp lenOf [] u).countP ((msgIs ak.msg) ∘ Chunk.frag) = 0 := by
    rw [List.countP_eq_zero]
    intro w hw
    obtain ⟨a, ha, hm⟩ := gen_msgs il mp lenOf [] u w hw
    have := hs3 a ha ak List.mem_cons_self
    simp only [Function.comp, Chunk.frag, msgIs, beq_iff_eq]
    omega
  have h2 : (gen il mp lenOf (u ++ [ak]) v).countP ((msgIs ak.msg) ∘ Chunk.frag) = 0 := by
    rw [List.countP_eq_zero]
    intro w hw
    obtain ⟨a, ha, hm⟩ := gen_msgs il mp lenOf _ v w hw
    have := hs2.1 a ha
    simp only [Function.comp, Chunk.frag, msgIs, beq_iff_eq]
    omega
  have h3 : (grp il mp (lenOf ak.msg) (cntOf u ak.si) ak).countP ((msgIs ak.msg) ∘ Chunk.frag) =
      (fragSizes mp (lenOf ak.msg)).length := by
    rw [← grp_length il mp (lenOf ak.msg) (cntOf u ak.si) ak, List.countP_eq_length]
    intro w hw
    simp only [Function.comp, Chunk.frag, msgIs, beq_iff_eq]
    exact grp_msgs _ _ _ _ _ w hw
  rw [h1, h2, h3]
  omega

/-- the moved chunks that carry the identity of `ak` sit at or behind the position `J0` of its first fragment
(`J0 = mv.length` if the first fragment never moved: then none of its fragments moved) -/
theorem moved_count_msg {P : Params} {acc : List Write} {mv : List Chunk} (h : DCtx P acc mv) (u v : List Write) (ak : Write)
    (hacc : acc = u ++ ak :: v) :
    (mv.map Chunk.frag).countP (msgIs ak.msg) ≤
      mv.length - (mv.map Chunk.frag).idxOf (fragOf false ak (cntOf u ak.si) 0 (nfr P ak)) := by
  generalize hJ : (mv.map Chunk.frag).idxOf (fragOf false ak (cntOf u ak.si) 0 (nfr P ak)) = J0
  -- every moved chunk of the message sits at a position ≥ J0
  have hpos : ∀ (p : Nat) (c : Chunk), mv[p]? = some c → c.msg = ak.msg → J0 ≤ p := by
    intro p c hp hm
    obtain ⟨b1, b, b2, b3, b4⟩ := h.contig.back h.wf p c hp
    obtain ⟨ib, _, hfb⟩ := h.of_msg u v ak hacc _ b b2 (b3.trans hm)
    have hib0 : ib = 0 := by
      have := congrArg (fun x => x.2.2.2.2.1) hfb
      simp only [Chunk.frag, fragOf] at this
      rw [b4] at this
      simpa using this.symm
    subst hib0
    have := idxOf_of_get mv h.nd _ b b2
    rw [hfb, hJ] at this
    omega
  have hsplit : mv = mv.take J0 ++ mv.drop J0 := (List.take_append_drop J0 mv).symm
  have h1 : ((mv.take J0).map Chunk.frag).countP (msgIs ak.msg) = 0 := by
    rw [List.countP_eq_zero]
    intro f hf
    obtain ⟨c, hc, rfl⟩ := List.mem_map.1 hf
    obtain ⟨p, hp⟩ := List.getElem?_of_mem hc
    have hpl : p < J0 := by
      rcases Nat.lt_or_ge p J0 with h' | h'
      · exact h'
      · have : (mv.take J0).length ≤ p := Nat.le_trans (List.length_take_le _ _) h'
        rw [List.getElem?_eq_none this] at hp; cases hp
    rw [List.getElem?_take_of_lt hpl] at hp
    intro hm
    have hm' : c.msg = ak.msg := by simpa [Chunk.frag, msgIs] using hm
    have := hpos p c hp hm'
    omega
  have h2 : ((mv.drop J0).map Chunk.frag).countP (msgIs ak.msg) ≤ mv.length - J0 := by
    have := List.countP_le_length (p := msgIs ak.msg) (l := (mv.drop J0).map Chunk.frag)
    simpa using this
  have h3 : (mv.map Chunk.frag).countP (msgIs ak.msg) =
      ((mv.take J0).map Chunk.frag).countP (msgIs ak.msg) + ((mv.drop J0).map Chunk.frag).countP (msgIs ak.msg) := by
    conv => lhs; rw [hsplit]
    rw [List.map_append, List.countP_append]
  omega

/-- if no fragment identity is moved more often than written, the chunks never moved are at least the fragments of
any one message that were never moved -/
theorem unmoved_ge (Wl mv : List Chunk) (hc : ∀ q : Frag → Bool, (mv.map Chunk.frag).countP q ≤ (Wl.map Chunk.frag).countP q)
    (q : Frag → Bool) : (Wl.map Chunk.frag).countP q + mv.length ≤ Wl.length + (mv.map Chunk.frag).countP q := by
  have h1 := List.length_eq_countP_add_countP q (l := Wl.map Chunk.frag)
  have h2 := List.length_eq_countP_add_countP q (l := mv.map Chunk.frag)
  have h3 := hc (fun a => decide ¬q a = true)
  simp only [List.length_map] at h1 h2
  omega

end NetSys
