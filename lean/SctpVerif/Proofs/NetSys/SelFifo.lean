import SctpVerif.Proofs.NetSys.SelGen
/-!
`SelFifo` — the selection the code makes for ordered traffic without interleaving — implies `SelContig`.

`pendingQueue` with interleaving off uses `messagePendingQueuePolicy`: two FIFO queues (ordered, unordered), a flag
`selected` with `unorderedIsSelected`; `peek` returns the head of the selected queue while a message is being sent,
otherwise the head of the unordered queue if there is one, else the head of the ordered queue. On RELIABLE ORDERED
streams (`Reliable`: every `openS` ordered) every chunk `packetize` makes is ordered, only the ordered queue is used, and
`peek` is its head: the OLDEST queued chunk (`C17.C17_ordered_only_fifo`, in the PendQ model of pending_queue.go).
In the Sender model the pending queue is the list `pending` in push order and `sel` lists the indices `peek` returned,
each index counted AFTER the earlier pops (`popPend` erases the index): the oldest queued chunk is index 0 every time.

`SelFifo ops`: every `gather` of the run carries a selection list of zeros. (Entries the gather does not consume — it
stops on a full window, the budget, an empty queue — are irrelevant; the harness logs the consumed indices followed by
the index of the chunk at the head afterwards, all of them 0 in an all-ordered run: predicate `[C01,C17]` of
`Driver/Assoc.lean`.)
-/
namespace NetSys
open SenderProofs SenderTsn Sender

def SelFifoOp : Op → Bool
  | .snd (.gather _ sel) => sel.all (· == 0)
  | _ => true

/-- **every gather of the run selects the oldest pending chunk, every time** (decidable; plain FIFO over `Sender.St.pending`) -/
def SelFifo (ops : List Op) : Bool := ops.all SelFifoOp

theorem sndOps_fifo (P : Params) (s : Sender.St) (ops : List Op) (hf : SelFifo ops = true) :
    ∀ o ∈ sndOps P s ops, FifoOp o = true := by
  induction ops generalizing s with
  | nil => intro o ho; cases ho
  | cons op ops ih =>
    simp only [SelFifo, List.all_cons, Bool.and_eq_true] at hf
    obtain ⟨hf1, hf2⟩ := hf
    simp only [sndOps]
    cases h : sndOp P s op with
    | some o =>
      intro o' ho'
      rcases List.mem_cons.1 ho' with rfl | ho'
      · cases op with
        | write si ppi =>
          simp only [sndOp, Option.some.injEq] at h
          subst h
          rfl
        | snd so =>
          cases so with
          | write a b c => simp [sndOp] at h
          | gather orc sel =>
            simp only [sndOp, Option.some.injEq] at h; subst h
            exact hf1
          | _ => simp only [sndOp, Option.some.injEq] at h; subst h; rfl
        | deliver is => simp [sndOp] at h
        | rcv ro => simp [sndOp] at h
      · exact ih _ hf2 o' ho'
    | none => exact ih s hf2

theorem frag_fields {w c : Chunk} (h : Chunk.frag w = Chunk.frag c) :
    w.si = c.si ∧ w.msg = c.msg ∧ w.bfrag = c.bfrag ∧ w.efrag = c.efrag ∧ w.fsn = c.fsn := by
  simp only [Chunk.frag, Prod.mk.injEq] at h
  obtain ⟨h1, h2, _, _, h5, h6, _, _, h9⟩ := h
  exact ⟨h1, h2, h5, h6, h9⟩

/-- with increasing message identities: the fragments of the stream's messages before `a` are those of the stream's
writes before `a` -/
theorem earlier_eq_filter (P : Params) (acc ws1 ws2 : List Write) (a : Write) (hs : acc.Pairwise (fun a b => a.msg < b.msg))
    (h : acc = ws1 ++ a :: ws2) : earlierFrags P acc a.si a.msg = ((ws1.filter (·.si == a.si)).map (nfr P)).sum := by
  subst h
  rw [List.pairwise_append] at hs
  obtain ⟨_, hs2, hs3⟩ := hs
  rw [List.pairwise_cons] at hs2
  have hf : (ws1 ++ a :: ws2).filter (fun x => x.si == a.si && decide (x.msg < a.msg)) = ws1.filter (·.si == a.si) := by
    rw [List.filter_append]
    have h1 : ws1.filter (fun x => x.si == a.si && decide (x.msg < a.msg)) = ws1.filter (·.si == a.si) := by
      apply List.filter_congr
      intro x hx
      have := hs3 x hx a List.mem_cons_self
      simp [this]
    have h2 : (a :: ws2).filter (fun x => x.si == a.si && decide (x.msg < a.msg)) = [] := by
      rw [List.filter_eq_nil_iff]
      intro x hx
      rcases List.mem_cons.1 hx with rfl | hx
      · simp
      · have := hs2.1 x hx
        simp only [Bool.and_eq_true, decide_eq_true_eq, not_and]
        intro _; omega
    rw [h1, h2, List.append_nil]
  simp only [earlierFrags, hf]

/-- a list that carries, position by position, the fragment identities of a prefix of `gen` is message-contiguous -/
theorem contigB_of_prefix (il : Bool) (mp : Nat) (lenOf : Nat → Nat) (acc : List Write) (mv : List Chunk) (rest : List Frag)
    (h : (gen il mp lenOf [] acc).map Chunk.frag = mv.map Chunk.frag ++ rest) : contigB mv = true := by
  simp only [contigB, Bool.and_eq_true, List.all_eq_true, List.mem_range]
  refine ⟨?_, fun j _ => ?_⟩
  · cases h0 : mv[0]? with
    | none => rfl
    | some c =>
      obtain ⟨w, hw, hf⟩ := frag_get_of_prefix h 0 c h0
      have := gen_head il mp lenOf [] acc w hw
      rw [(frag_fields hf).2.2.1] at this
      exact this
  · cases hx : mv[j]? with
    | none => rfl
    | some x =>
      cases hy : mv[j + 1]? with
      | none => rfl
      | some y =>
        obtain ⟨wx, hwx, hfx⟩ := frag_get_of_prefix h j x hx
        obtain ⟨wy, hwy, hfy⟩ := frag_get_of_prefix h (j + 1) y hy
        have hn := gen_next il mp lenOf [] acc j wx wy hwx hwy
        obtain ⟨_, x2, _, x4, x5⟩ := frag_fields hfx
        obtain ⟨_, y2, y3, _, y5⟩ := frag_fields hfy
        rw [x4, y3, y2, x2, y5, x5] at hn
        simp only
        split
        · rename_i he; simpa [he] using hn
        · rename_i he; simpa [he] using hn

/-- … and serves every stream first-in-first-out -/
theorem fifoB_of_prefix (P : Params) (il : Bool) (acc : List Write) (mv : List Chunk) (rest : List Frag)
    (hs : acc.Pairwise (fun a b => a.msg < b.msg))
    (h : (gen il P.cfg.maxPayload.toNat (fun m => (P.pay m).length) [] acc).map Chunk.frag = mv.map Chunk.frag ++ rest) :
    fifoB P acc mv = true := by
  simp only [fifoB, List.all_eq_true, List.mem_range]
  intro j hj
  rw [List.getElem?_eq_getElem hj]
  simp only
  generalize hc : mv[j] = c
  have hcj : mv[j]? = some c := by rw [List.getElem?_eq_getElem hj, hc]
  cases hb : c.bfrag with
  | false => rfl
  | true =>
    simp only [Bool.not_true, Bool.false_or, beq_iff_eq]
    obtain ⟨w, hw, hf⟩ := frag_get_of_prefix h j c hcj
    obtain ⟨f1, f2, f3, _, _⟩ := frag_fields hf
    obtain ⟨ws1, a, ws2, e, g1, g2, g3⟩ := gen_first il _ _ [] acc j w hw (by rw [f3]; exact hb)
    rw [countP_si_take_of_prefix h j (Nat.le_of_lt hj), ← f1, ← f2, g1, g2, g3, earlier_eq_filter P acc ws1 ws2 a hs e]
    rfl

/-- over reliable ordered streams every chunk the writes queue is ordered (`packetize`: `unordered = ppi != DCEP && s.unordered`) -/
theorem reliable_written_ordered (P : Params) (ops : List Op) (hrel : Reliable ops = true) :
    ∀ c ∈ written (init P).snd (sndOps P (init P).snd ops), c.unordered = false := by
  intro c hc
  obtain ⟨hgen, _⟩ := run_gen P.cfg.useInterleaving (fun m => (P.pay m).length) [] (init P).snd (sndOps P (init P).snd ops)
    (init_cinv _ P.cfg P.tsn P.peerRwnd) rfl (sndOps_ord P (init P).snd ops hrel) (sndOps_lenOk P (init P).snd ops)
  rw [hgen] at hc
  obtain ⟨ws1, a, ws2, i, _, hi⟩ := gen_mem _ _ _ _ _ c hc
  exact (grp_get _ _ _ _ _ _ _ hi).2.2.2.1

/-- **FIFO selection is message-contiguous and per-stream FIFO**: over reliable ordered streams, a run whose gathers
always select the oldest pending chunk moves the chunks in the order the writes created them — message after message,
the fragments of each adjacent and in order (`C01_write_fragments`, `C01_ssn_assignment`). -/
theorem selFifo_selContig (P : Params) (ops : List Op) (hf : SelFifo ops = true) (hrel : Reliable ops = true) :
    SelContig P ops = true := by
  have hs0 : (init P).snd = Sender.init P.cfg P.tsn P.peerRwnd := rfl
  have hlen := sndOps_lenOk P (init P).snd ops
  have hord := sndOps_ord P (init P).snd ops hrel
  obtain ⟨hgen, _⟩ := run_gen P.cfg.useInterleaving (fun m => (P.pay m).length) [] (init P).snd (sndOps P (init P).snd ops)
    (init_cinv _ P.cfg P.tsn P.peerRwnd) rfl hord hlen
  have hpre := moved_prefix_written P.cfg P.tsn P.peerRwnd (sndOps P (init P).snd ops) (sndOps_fifo P (init P).snd ops hf)
  have hsorted := accepted_sorted (init P).snd (sndOps P (init P).snd ops)
  rw [← hs0, hgen] at hpre
  have hcfg0 : (init P).snd.cfg = P.cfg := rfl
  rw [hcfg0] at hpre
  simp only [SelContig, Bool.and_eq_true]
  exact ⟨contigB_of_prefix _ _ _ _ _ _ hpre, fifoB_of_prefix P _ _ _ _ hsorted hpre⟩

end NetSys
