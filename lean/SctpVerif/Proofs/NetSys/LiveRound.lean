import SctpVerif.Proofs.NetSys.LiveLink
/-!
The healed round on reachable NetSys states (`Props/C02net.lean`): its sender half is "T3 (if something is in flight);
gather", everything else leaves the sender alone; the state in which the SACK arrives is again a reachable state, so the
truthful SACK is valid there (`LiveLink.truthful_valid`); if it is ahead of the cumulative ack point the sender releases at
least one chunk (`Sender` lemma `sack_ack_progress`).
-/
namespace NetSysLive
open Gen NetSys

/-- operations that do not touch the sender -/
def RcvOnly : Op → Prop
  | .rcv _ => True
  | .deliver _ => True
  | _ => False

theorem sndOps_rcvOnly (P : Params) (l : List Op) (h : ∀ op ∈ l, RcvOnly op) : ∀ s, sndOps P s l = [] := by
  induction l with
  | nil => intro s; rfl
  | cons op l ih =>
    intro s
    have h1 := h op (by simp)
    have : sndOp P s op = none := by
      cases op with
      | write a b => exact absurd h1 (by simp [RcvOnly])
      | snd o => exact absurd h1 (by simp [RcvOnly])
      | deliver is => rfl
      | rcv o => rfl
    simp only [sndOps, this]
    exact ih (fun o ho => h o (List.mem_cons_of_mem _ ho)) s

theorem acceptAll_rcvOnly (r : Receiver.St) : ∀ op ∈ acceptAll r, RcvOnly op := by
  intro op hop
  simp only [acceptAll, List.mem_replicate] at hop
  rw [hop.2]; trivial

theorem readAll_rcvOnly (n : Nat) : ∀ (r : Receiver.St), ∀ op ∈ readAll n r, RcvOnly op := by
  induction n with
  | zero => intro r op hop; simp [readAll] at hop
  | succ n ih =>
    intro r op hop
    simp only [readAll] at hop
    split at hop
    · cases hop
    · rcases List.mem_cons.1 hop with rfl | hop
      · trivial
      · exact ih _ op hop

theorem recvOps_rcvOnly (r : Receiver.St) : ∀ op ∈ recvOps r, RcvOnly op := by
  intro op hop
  simp only [recvOps, List.mem_append, List.mem_cons, List.mem_nil_iff, or_false] at hop
  rcases hop with (h | h) | h | h
  · exact acceptAll_rcvOnly r op h
  · exact readAll_rcvOnly _ r op h
  · rw [h]; trivial
  · rw [h]; trivial

theorem deliverOps_rcvOnly (a b : Nat) : ∀ op ∈ deliverOps a b, RcvOnly op := by
  intro op hop
  simp only [deliverOps, List.mem_map] at hop
  obtain ⟨i, _, rfl⟩ := hop
  trivial

/-- the sender operations of a round -/
def sndPart (s : Sender.St) : List Sender.Op :=
  (if s.inflight.isEmpty then [] else [Sender.Op.t3]) ++
    [.gather Sender.freeOracle (fifoSel (if s.inflight.isEmpty then s else Sender.t3 s))]

theorem sndOps_sendOps (P : Params) (s : Sender.St) : sndOps P s (sendOps s) = sndPart s := by
  unfold sendOps sndPart
  by_cases h : s.inflight.isEmpty = true
  · simp [h, sndOps, sndOp]
  · simp [h, sndOps, sndOp]

theorem sndOps_roundOps (P : Params) (s : St) : sndOps P s.snd (roundOps P s) = sndPart s.snd := by
  unfold roundOps
  simp only
  rw [sndOps_append, sndOps_append, sndOps_append]
  rw [sndOps_rcvOnly P _ (acceptAll_rcvOnly _), sndOps_rcvOnly P _ (deliverOps_rcvOnly _ _), sndOps_rcvOnly P _ (recvOps_rcvOnly _)]
  simp only [List.nil_append, List.append_nil, Sender.run]
  exact sndOps_sendOps P s.snd

/-- the sender state in which the SACK arrives -/
def sndPre (s : Sender.St) : Sender.St :=
  (Sender.gather (if s.inflight.isEmpty then s else Sender.t3 s) Sender.freeOracle
    (fifoSel (if s.inflight.isEmpty then s else Sender.t3 s))).1

theorem run_sndPart (s : Sender.St) : Sender.run s (sndPart s) = sndPre s := by
  unfold sndPart sndPre
  by_cases h : s.inflight.isEmpty = true
  · simp [h, Sender.run, Sender.step]
  · simp [h, Sender.run, Sender.step]

theorem preSack_snd (P : Params) (s : St) : (preSack P s).snd = sndPre s.snd := by
  unfold preSack
  rw [(run_snd P s _).1, sndOps_roundOps, run_sndPart]

theorem written_sndPart (s : Sender.St) : SenderProofs.written s (sndPart s) = [] := by
  unfold sndPart
  by_cases h : s.inflight.isEmpty = true
  · simp [h, SenderProofs.written, SenderProofs.writtenBy]
  · simp [h, SenderProofs.written, SenderProofs.writtenBy]

theorem chunksWritten_append (P : Params) (o1 o2 : List Op) :
    chunksWritten P (o1 ++ o2) = chunksWritten P o1 +
      (SenderProofs.written (run P (init P) o1).snd (sndOps P (run P (init P) o1).snd o2)).length := by
  unfold chunksWritten
  rw [sndOps_append, written_append, List.length_append, ← (run_snd P (init P) o1).1]

theorem chunksWritten_roundOps (P : Params) (ops : List Op) :
    chunksWritten P (ops ++ roundOps P (run P (init P) ops)) = chunksWritten P ops := by
  rw [chunksWritten_append, sndOps_roundOps, written_sndPart]; rfl

theorem healed_eq (P : Params) (s : St) : healed P s = step P (preSack P s) (sackOp (preSack P s).rcv) := by
  unfold healed healedRound preSack
  rw [NetSys.run_append]; rfl

theorem chunksWritten_healedRound (P : Params) (ops : List Op) :
    chunksWritten P (ops ++ healedRound P (run P (init P) ops)) = chunksWritten P ops := by
  unfold healedRound
  rw [← List.append_assoc, chunksWritten_append, chunksWritten_roundOps]
  simp [sackOp, sndOps, sndOp, SenderProofs.written, SenderProofs.writtenBy]

theorem healed_snd (P : Params) (s : St) :
    (healed P s).snd = (Sender.sack (preSack P s).snd (preSack P s).rcv.pq.cum (Receiver.credit (preSack P s).rcv)
      (RecvQ.gaps (preSack P s).rcv.pq) []).1 ∧ (healed P s).rcv = (preSack P s).rcv := by
  rw [healed_eq]
  constructor <;> rfl

theorem live_sndPre {s : Sender.St} (h : SenderProofs.Live s) :
    SenderProofs.Live (sndPre s) ∧ (sndPre s).inflight.length + (sndPre s).pending.length ≤ s.inflight.length + s.pending.length := by
  unfold sndPre
  by_cases he : s.inflight.isEmpty = true
  · simp only [he, if_true]
    exact ⟨SenderProofs.live_gather h _ _, (SenderProofs.gather_prel s _ _).1⟩
  · simp only [he, Bool.false_eq_true, if_false]
    refine ⟨SenderProofs.live_gather (SenderProofs.live_t3 h) _ _, ?_⟩
    have g := (SenderProofs.gather_prel (Sender.t3 s) Sender.freeOracle (fifoSel (Sender.t3 s))).1
    obtain ⟨t1, t2⟩ := SenderProofs.t3_lengths s
    rw [t1, t2] at g
    exact g

theorem lt_not_gt (a b : BitVec 32) (h : sna32LT a b = true) : sna32GT a b = false := by
  simp only [sna32LT, sna32GT, Bool.or_eq_true, Bool.and_eq_true, decide_eq_true_eq, Bool.or_eq_false_iff, Bool.and_eq_false_iff,
    decide_eq_false_iff_not] at h ⊢
  constructor <;> bv_omega

/-- ✱ one healed round from a reachable state: nothing is added to the sender's queues, and if the receiver's cumulative
point is ahead of the sender's when the SACK is built, at least one chunk leaves them -/
theorem healed_progress (P : Params) (ops : List Op) (hc : SenderProofs.CfgOk P.cfg) (hN : chunksWritten P ops < 2^31)
    (hl : SenderProofs.Live (run P (init P) ops).snd) :
    SenderProofs.Live (healed P (run P (init P) ops)).snd ∧
    NetSys.outstanding (healed P (run P (init P) ops)) ≤ NetSys.outstanding (run P (init P) ops) ∧
    (Taken P (run P (init P) ops) = true →
      NetSys.outstanding (healed P (run P (init P) ops)) < NetSys.outstanding (run P (init P) ops) ∧
      (healed P (run P (init P) ops)).snd.cumAck = (healed P (run P (init P) ops)).rcv.pq.cum) := by
  have hpre : preSack P (run P (init P) ops) = run P (init P) (ops ++ roundOps P (run P (init P) ops)) := by
    unfold preSack; rw [NetSys.run_append]
  have hN' : tsnsUsed P (ops ++ roundOps P (run P (init P) ops)) < 2^31 := by
    have := tsnsUsed_le P (ops ++ roundOps P (run P (init P) ops))
    rw [chunksWritten_roundOps] at this
    omega
  obtain ⟨hx, hle⟩ := live_sndPre hl
  rw [← preSack_snd P] at hx hle
  have hxsm : (preSack P (run P (init P) ops)).snd.inflight.length < 2^31 := by have := hx.small; omega
  have hv := truthful_valid P (ops ++ roundOps P (run P (init P) ops)) hc hN' (by rw [← hpre]; exact hxsm)
  rw [← hpre] at hv
  obtain ⟨e1, e2⟩ := healed_snd P (run P (init P) ops)
  unfold Taken
  generalize preSack P (run P (init P) ops) = x at *
  unfold NetSys.outstanding
  rw [e1, e2]
  obtain ⟨l1, _⟩ := SenderProofs.sack_len_le x.snd x.rcv.pq.cum (Receiver.credit x.rcv) (RecvQ.gaps x.rcv.pq) [] hx.seq hxsm
  have hp := SenderProofs.sack_pending x.snd x.rcv.pq.cum (Receiver.credit x.rcv) (RecvQ.gaps x.rcv.pq) []
  refine ⟨SenderProofs.live_sack hx _ _ _ _, by rw [hp]; omega, ?_⟩
  intro ht
  have hng := lt_not_gt _ _ ht
  rcases hv with hv | hv
  · rw [hng] at hv; cases hv
  · obtain ⟨_, k, hk, hlen, _, _⟩ := SenderProofs.sack_ack_progress x.snd x.rcv.pq.cum (Receiver.credit x.rcv) (RecvQ.gaps x.rcv.pq) []
      hx.seq hxsm hx.win.cfgOk hx.core hx.est ht hv
    obtain ⟨_, _, _, _, _, hca, _, _⟩ := SenderProofs.sack_ok_shape x.snd x.rcv.pq.cum (Receiver.credit x.rcv) (RecvQ.gaps x.rcv.pq) []
      hx.seq hxsm hx.win.cfgOk hx.est hng hv
    exact ⟨by rw [hp]; omega, hca⟩

end NetSysLive
