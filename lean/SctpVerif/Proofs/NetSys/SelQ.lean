import SctpVerif.Model.NetSysQ
import SctpVerif.Proofs.NetSys.SelFifo
/-!
NetSysQ over reliable ordered streams resolves every gather to a selection list of zeros.

`QI m ids`: only the ordered queue of the message policy is in use, it runs parallel to `ids` (= to the sender's pending
list), and `unorderedIsSelected` is false whenever a message is selected. Under `QI` `peek` is the head of the ordered
queue, its identity is the head of `ids` (index 0), and a successful `pop` keeps `QI` for the tails — `drain` yields
zeros and `advance` keeps `QI` unless it raises `err`. The writes of a run whose streams are all opened ordered push
ordered chunks only (`OrdStreams`).
-/
namespace NetSysQ
open NetSys SenderProofs SenderTsn Sender PendQ

structure QI (m : MsgPol) (ids : List Nat) : Prop where
  un : m.unord = []
  par : m.ord.map (·.id) = ids
  ord : ∀ c ∈ m.ord, c.unordered = false
  us : m.selected = true → m.unordSel = false

theorem QI.peek {m : MsgPol} {ids : List Nat} (h : QI m ids) : m.peek = m.ord.head? := by
  unfold MsgPol.peek
  rw [h.un]
  cases hs : m.selected with
  | false => simp
  | true => simp [h.us hs]

/-- a successful pop of the head of the ordered queue keeps `QI` for the tails -/
theorem QI.pop {m : MsgPol} {ids : List Nat} (h : QI m ids) {c : PendQ.Chunk} {t : List PendQ.Chunk} (ho : m.ord = c :: t)
    {m' : MsgPol} (hp : m.pop c = (m', .ok)) : QI m' ids.tail := by
  have hcu : c.unordered = false := h.ord c (by rw [ho]; exact List.mem_cons_self)
  have hids : ids.tail = t.map (·.id) := by rw [← h.par, ho]; rfl
  have hmem : ∀ x ∈ t, x.unordered = false := fun x hx => h.ord x (by rw [ho]; exact List.mem_cons_of_mem _ hx)
  unfold MsgPol.pop at hp
  cases hs : m.selected with
  | true =>
    have hus := h.us hs
    simp only [hs, if_true, MsgPol.popSelected, hus, Bool.false_eq_true, if_false, ho, List.head?_cons, ne_eq,
      not_true_eq_false, List.tail_cons] at hp
    cases he : c.e with
    | true =>
      simp only [he, if_true, Prod.mk.injEq, and_true] at hp
      subst hp
      exact ⟨h.un, by rw [hids], hmem, fun hc => by cases hc⟩
    | false =>
      simp only [he, Bool.false_eq_true, if_false, Prod.mk.injEq, and_true] at hp
      subst hp
      exact ⟨h.un, by rw [hids], hmem, fun _ => rfl⟩
  | false =>
    simp only [hs, Bool.false_eq_true, if_false] at hp
    cases hb : c.b with
    | false => simp [hb] at hp
    | true =>
      simp only [hb, Bool.not_true, Bool.false_eq_true, if_false, MsgPol.popNewSelection, hcu, ho, List.head?_cons, ne_eq,
        not_true_eq_false, List.tail_cons] at hp
      cases he : c.e with
      | true =>
        simp only [he, Bool.not_true, Bool.false_eq_true, if_false, Prod.mk.injEq, and_true] at hp
        subst hp
        exact ⟨h.un, by rw [hids], hmem, fun hc => by rw [hs] at hc; cases hc⟩
      | false =>
        simp only [he, Bool.not_false, if_true, Prod.mk.injEq, and_true] at hp
        subst hp
        exact ⟨h.un, by rw [hids], hmem, fun _ => rfl⟩

/-- under `QI` the head of the queue is the head of the pending list: index 0 -/
theorem QI.idx {m : MsgPol} {ids : List Nat} (h : QI m ids) {c : PendQ.Chunk} {t : List PendQ.Chunk} (ho : m.ord = c :: t) :
    ids.idxOf c.id = 0 ∧ 0 < ids.length ∧ ids.eraseIdx 0 = ids.tail := by
  have : ids = c.id :: t.map (·.id) := by rw [← h.par, ho]; rfl
  rw [this]
  exact ⟨List.idxOf_cons_self, by simp, rfl⟩

theorem drain_zero (fuel : Nat) (m : MsgPol) (ids : List Nat) (h : QI m ids) : allZero (drain fuel m ids) = true := by
  induction fuel generalizing m ids with
  | zero => rfl
  | succ fuel ih =>
    simp only [drain]
    rw [h.peek]
    cases ho : m.ord with
    | nil => rfl
    | cons c t =>
      obtain ⟨i0, il, ie⟩ := h.idx ho
      simp only [List.head?_cons, i0, il, if_true]
      generalize hp : m.pop c = pp
      obtain ⟨m', r⟩ := pp
      cases r with
      | ok =>
        simp only
        rw [ie]
        have := ih m' ids.tail (h.pop ho hp)
        simpa [allZero] using this
      | err e => rfl
      | panic => rfl

theorem selOf_zero (q : Q) (h : q.err = false → QI q.pol q.ids) : allZero (selOf q) = true := by
  unfold selOf
  cases he : q.err with
  | true => rfl
  | false => simpa using drain_zero _ _ _ (h he)

theorem advance_qi (k : Nat) (q : Q) (h : q.err = false → QI q.pol q.ids) :
    (advance k q).err = false → QI (advance k q).pol (advance k q).ids := by
  induction k generalizing q with
  | zero => exact h
  | succ k ih =>
    simp only [advance]
    cases he : q.err with
    | true => simp only [if_true]; intro hc; rw [he] at hc; cases hc
    | false =>
      have hq := h he
      simp only [Bool.false_eq_true, if_false]
      rw [hq.peek]
      cases ho : q.pol.ord with
      | nil => simp only [List.head?_nil]; intro hc; cases hc
      | cons c t =>
        obtain ⟨i0, il, ie⟩ := hq.idx ho
        simp only [List.head?_cons, i0, il, if_true]
        generalize hp : q.pol.pop c = pp
        obtain ⟨m', r⟩ := pp
        cases r with
        | ok =>
          simp only
          apply ih
          intro _
          rw [ie]
          exact hq.pop ho hp
        | err e => simp only; intro hc; cases hc
        | panic => simp only; intro hc; cases hc

theorem pushAll_qi (q : Q) (cs : List Sender.Chunk) (h : q.err = false → QI q.pol q.ids) (hcs : ∀ c ∈ cs, c.unordered = false) :
    (pushAll q cs).err = false → QI (pushAll q cs).pol (pushAll q cs).ids := by
  induction cs generalizing q with
  | nil => exact h
  | cons c r ih =>
    simp only [pushAll]
    apply ih _ _ (fun x hx => hcs x (List.mem_cons_of_mem _ hx))
    intro he
    have hq := h he
    have hcu : c.unordered = false := hcs c List.mem_cons_self
    simp only [MsgPol.push, view, hcu, Bool.false_eq_true, if_false]
    refine ⟨hq.un, by simp [hq.par], ?_, hq.us⟩
    intro x hx
    rcases List.mem_append.1 hx with hx | hx
    · exact hq.ord x hx
    · simp only [List.mem_singleton] at hx; subst hx; rfl

/-! ## the sender's streams stay ordered -/

/-- every stream object of the sender is ordered -/
def OrdStreams (s : Sender.St) : Prop := ∀ si st, s.streams si = some st → st.unordered = false

theorem OrdStreams.of_sk {s s' : Sender.St} (h : OrdStreams s)
    (hs : ∀ si, (s'.streams si).map Stream.sk = (s.streams si).map Stream.sk) : OrdStreams s' := by
  intro si st' hst'
  have := hs si
  rw [hst'] at this
  cases hss : s.streams si with
  | none => rw [hss] at this; simp at this
  | some st =>
    rw [hss] at this
    simp only [Option.map_some, Option.some.injEq, Stream.sk, Prod.mk.injEq] at this
    rw [this.2.1]
    exact h si st hss

theorem writeChunks_ordered (s : Sender.St) (h : OrdStreams s) (si : BitVec 16) (ppi : BitVec 32) (len : Nat) :
    ∀ c ∈ writeChunks s si ppi len, c.unordered = false := by
  intro c hc
  unfold writeChunks at hc
  cases hs : s.streams si with
  | none => rw [hs] at hc; cases hc
  | some st =>
    rw [hs] at hc
    simp only at hc
    split at hc
    · cases hc
    · split at hc
      · cases hc
      · split at hc
        · cases hc
        · split at hc
          · simp only [packetize, h si st hs, Bool.and_false] at hc
            obtain ⟨i, hi⟩ := List.getElem?_of_mem hc
            exact (mkChunks_get _ _ _ _ _ _ _ _ _ i c hi).2.2.2.1
          · cases hc

theorem write_ordStreams (s : Sender.St) (h : OrdStreams s) (si : BitVec 16) (ppi : BitVec 32) (len : Nat) :
    OrdStreams (Sender.write s si ppi len).1 := by
  cases hacc : NetSys.accepts s si ppi len with
  | false =>
    rw [OrdStreams, (write_rejected s si ppi len hacc).2]
    exact h
  | true =>
    obtain ⟨st, hs, _, _, _, _, w2⟩ := write_accepted s si ppi len hacc
    intro k st' hk
    rw [w2] at hk
    by_cases hks : k = si
    · subst hks
      simp only [if_true, Option.some.injEq] at hk
      subst hk
      have := h k st hs
      simp only [packetize]
      split <;> (try split) <;> (try split) <;> exact this
    · simp only [hks, if_false] at hk
      exact h k st' hk

theorem step_ordStreams (s : Sender.St) (o : Sender.Op) (h : OrdStreams s) (ho : OrdOp o) : OrdStreams (Sender.step s o) := by
  cases o with
  | openS si u rt rv th =>
    simp only [OrdOp] at ho
    subst ho
    intro k st' hk
    simp only [Sender.step, openStream, setStream] at hk
    by_cases hks : k = si
    · simp only [hks, if_true, Option.some.injEq] at hk
      subst hk
      rfl
    · simp only [hks, if_false] at hk
      exact h k st' hk
  | unreg si => exact absurd ho (by simp [OrdOp])
  | setEstablished b => exact h
  | write si ppi len => exact write_ordStreams s h si ppi len
  | gather orc sel =>
    simp only [Sender.step]
    exact h.of_sk (fun si => by rw [gather_str])
  | sack cum arwnd gaps marks => exact h.of_sk (sack_still s cum arwnd gaps marks).q.str
  | t3 => exact h.of_sk (t3_still s).q.str
  | tick ms n marks => exact h.of_sk (tick_still s ms n marks).q.str

/-! ## runs -/

structure RInv (s : St) : Prop where
  qi : s.q.err = false → QI s.q.pol s.q.ids
  os : OrdStreams s.sys.snd

theorem init_rinv (P : Params) : RInv (init P) :=
  ⟨fun _ => ⟨rfl, rfl, (fun c hc => by cases hc), (fun hc => by cases hc)⟩, fun si st h => by simp [init, NetSys.init, Sender.init] at h⟩

theorem resolveOp_reliable (q : Q) (op : NetSys.Op) : ReliableOp (resolveOp q op) = ReliableOp op := by
  cases op with
  | snd so => cases so <;> rfl
  | _ => rfl

theorem resolveOp_fifo (q : Q) (op : NetSys.Op) (h : q.err = false → QI q.pol q.ids) : SelFifoOp (resolveOp q op) = true := by
  cases op with
  | snd so =>
    cases so with
    | gather orc sel => exact selOf_zero q h
    | _ => rfl
  | _ => rfl

theorem ordOp_of_reliable (P : Params) (s : Sender.St) (op : NetSys.Op) (o : Sender.Op) (hr : ReliableOp op = true)
    (h : sndOp P s op = some o) : OrdOp o :=
  sndOps_ord P s [op] (by simp [Reliable, hr]) o (by simp [sndOps, h])

theorem step_rinv (P : Params) (s : St) (op : NetSys.Op) (h : RInv s) (hr : ReliableOp op = true) : RInv (step P s op).1 := by
  have hr' : ReliableOp (resolveOp s.q op) = true := by rw [resolveOp_reliable]; exact hr
  simp only [step]
  generalize resolveOp s.q op = op' at hr'
  cases hso : sndOp P s.sys.snd op' with
  | none =>
    obtain ⟨e1, _⟩ := step_snd_none P s.sys op' hso
    refine ⟨?_, by rw [e1]; exact h.os⟩
    simp only
    rw [e1]
    cases op' with
    | write si ppi => simp [sndOp] at hso
    | snd so =>
      cases so with
      | gather orc sel => simp [sndOp] at hso
      | _ => exact h.qi
    | deliver is => exact h.qi
    | rcv ro => exact h.qi
  | some o =>
    have hord := ordOp_of_reliable P s.sys.snd op' o hr' hso
    have hstep := step_snd_some P s.sys op' o hso
    refine ⟨?_, by rw [hstep]; exact step_ordStreams _ o h.os hord⟩
    simp only
    rw [hstep]
    cases op' with
    | write si ppi =>
      simp only [sndOp, Option.some.injEq] at hso
      subst hso
      simp only [qStep, Sender.step, (write_queues _ _ _ _).2, List.drop_left]
      exact pushAll_qi _ _ h.qi (writeChunks_ordered _ h.os _ _ _)
    | snd so =>
      cases so with
      | gather orc sel => exact advance_qi _ _ h.qi
      | _ => exact h.qi
    | deliver is => exact h.qi
    | rcv ro => exact h.qi

/-- the resolved operation list of a run over reliable ordered streams is reliable, and all its gathers select index 0 -/
theorem resolve_fifo (P : Params) (s : St) (ops : List NetSys.Op) (h : RInv s) (hr : Reliable ops = true) :
    SelFifo (resolve P s ops) = true ∧ Reliable (resolve P s ops) = true := by
  induction ops generalizing s with
  | nil => exact ⟨rfl, rfl⟩
  | cons op ops ih =>
    simp only [Reliable, List.all_cons, Bool.and_eq_true] at hr
    obtain ⟨hr1, hr2⟩ := hr
    obtain ⟨i1, i2⟩ := ih (step P s op).1 (step_rinv P s op h hr1) hr2
    simp only [resolve, SelFifo, Reliable, List.all_cons, Bool.and_eq_true]
    refine ⟨⟨?_, i1⟩, ⟨?_, i2⟩⟩
    · exact resolveOp_fifo s.q op h.qi
    · show ReliableOp (resolveOp s.q op) = true
      rw [resolveOp_reliable]; exact hr1

theorem run_sys (P : Params) (s : St) (ops : List NetSys.Op) : (run P s ops).sys = NetSys.run P s.sys (resolve P s ops) := by
  induction ops generalizing s with
  | nil => rfl
  | cons op ops ih => simp only [run, resolve, NetSys.run]; rw [ih]; rfl

end NetSysQ
