import SctpVerif.Proofs.NetSys.Univ
import SctpVerif.Props.C01recv
/-!
Composition, I-DATA: the hypotheses of `C01_receiver_prefix_idata` hold for the receiver run of every NetSys run over
reliable ordered streams, with the universe built from the sender run (`sendersI`, `nuOf`).
-/
namespace NetSys
open SenderProofs SenderTsn Sender

/-- chunks created by the writes of the NetSys run (each needs one TSN) -/
def chunksWritten (P : Params) (ops : List Op) : Nat := (written (init P).snd (sndOps P (init P).snd ops)).length

/-- TSNs the NetSys run has assigned -/
def tsnsUsed (P : Params) (ops : List Op) : Nat := (moved (init P).snd (sndOps P (init P).snd ops)).length

theorem reliable_append (o1 o2 : List Op) (h : Reliable (o1 ++ o2) = true) : Reliable o1 = true ∧ Reliable o2 = true := by
  simpa [Reliable, List.all_append] using h

/-- the history at any moment of the run is part of the wire of the whole sender run -/
theorem wire_prefix_sub (P : Params) (o1 o2 : List Op) :
    ∀ c ∈ (run P (init P) o1).wire, c ∈ wire (init P).snd (sndOps P (init P).snd (o1 ++ o2)) := by
  intro c hc
  rw [(run_snd P (init P) o1).2] at hc
  rw [sndOps_append, wire_append]
  simpa [init] using List.mem_append_left _ (by simpa [init] using hc)

theorem accepted_prefix (P : Params) (o1 o2 : List Op) :
    ∃ r, accepted (init P).snd (sndOps P (init P).snd (o1 ++ o2)) = accepted (init P).snd (sndOps P (init P).snd o1) ++ r := by
  rw [sndOps_append, accepted_append]
  exact ⟨_, rfl⟩

theorem cntOf_append_le (a b : List Write) (si : BitVec 16) : cntOf a si ≤ cntOf (a ++ b) si := by
  simp [cntOf, List.filter_append]

theorem cntOf_le_length (a : List Write) (si : BitVec 16) : cntOf a si ≤ a.length := by
  simp only [cntOf]; exact List.length_filter_le _ _

/-- a receiver operation that is a packet was built by `deliver` -/
theorem rcvOp_pkt (P : Params) (w : List Chunk) (op : Op) (cs : List Receiver.InChunk) (h : rcvOp P w op = some (.pkt cs)) :
    ∃ is, cs = packetOf P w is := by
  cases op with
  | write a b => simp [rcvOp] at h
  | snd so => simp [rcvOp] at h
  | deliver is => simp only [rcvOp, Option.some.injEq, Receiver.Op.pkt.injEq] at h; exact ⟨is, h.symm⟩
  | rcv ro =>
    cases ro with
    | pkt cs' => simp [rcvOp] at h
    | _ => simp [rcvOp] at h

theorem ofNat32_inj {a b : Nat} (ha : a < 2^32) (hb : b < 2^32) (h : BitVec.ofNat 32 a = BitVec.ofNat 32 b) : a = b := by
  have := congrArg BitVec.toNat h
  simp only [BitVec.toNat_ofNat] at this
  omega

theorem netsys_prefix_idata (P : Params) (ops : List Op) (si : BitVec 16)
    (hil : P.cfg.useInterleaving = true) (hrel : Reliable ops = true)
    (hN : chunksWritten P ops < 2^31) (hwin : WinOk P si (2^31) (init P) ops = true) :
    readsOn P si (init P) ops <+: writesOn P si (init P) ops := by
  have hs0 : (init P).snd = Sender.init P.cfg P.tsn P.peerRwnd := rfl
  have hlen := sndOps_lenOk P (init P).snd ops
  have hord := sndOps_ord P (init P).snd ops hrel
  have hident := wire_ident P.cfg P.tsn P.peerRwnd (fun m => (P.pay m).length) (sndOps P (init P).snd ops) hord hlen
  obtain ⟨hal, hfr⟩ := accepted_le_written P.cfg P.tsn P.peerRwnd (fun m => (P.pay m).length) (sndOps P (init P).snd ops) hord hlen
  have hmv := moved_le_written P.cfg P.tsn P.peerRwnd (sndOps P (init P).snd ops)
  rw [← hs0] at hident hal hfr hmv
  simp only [chunksWritten] at hN
  generalize hacc : accepted (init P).snd (sndOps P (init P).snd ops) = acc at hident hal hfr
  generalize hmvd : moved (init P).snd (sndOps P (init P).snd ops) = mv at hident hmv
  generalize hW : (written (init P).snd (sndOps P (init P).snd ops)).length = W at hN hal hfr hmv
  -- every chunk of the sender run's wire is a fragment of the universe
  have hchunk : ∀ c ∈ wire (init P).snd (sndOps P (init P).snd ops), ∃ S ∈ sendersI P acc si, ∃ k i, k < S.msgs.length ∧ i < S.nf k ∧
      toWire P c = S.idataFrag (fun k i => P.tsn + BitVec.ofNat 32 (nuOf P acc mv S.si k i)) k i := by
    intro c hc
    obtain ⟨ws1, a, ws2, i, e1, e2, e3, e4, e5, e6⟩ := hident c hc
    have ha : a ∈ acc := by rw [e1]; simp
    obtain ⟨t1, t2, t3⟩ := toWire_idata P hil acc ws1 ws2 a e1 mv c i e2 (by have := (hfr a ha).2.1; omega) e3 e4 e5 e6
    refine ⟨senderI P acc a.si, ?_, cntOf ws1 a.si, i, t1, t2, t3⟩
    simp only [sendersI, List.mem_map]
    exact ⟨a.si, (uniq_mem _ _).2 (List.mem_cons_of_mem _ (List.mem_map.2 ⟨a, ha, rfl⟩)), rfl⟩
  have hS : senderI P acc si ∈ sendersI P acc si := by
    simp only [sendersI, List.mem_map]
    exact ⟨si, (uniq_mem _ _).2 List.mem_cons_self, rfl⟩
  have key := C01.C01_receiver_prefix_idata (sendersI P acc si) P.tsn (max mv.length 1) (by omega)
    (fun S => nuOf P acc mv S.si) ?hWF ?hidx ?hsi P.maxBuf P.maxEntries P.cfg.useInterleaving P.useFwd P.useIFwd P.ackMode
    (rcvOps P (init P) ops) ?hgood (senderI P acc si) hS ?hwin
  · -- conclusion
    rw [reads_eq]
    have hinit : (init P).rcv = Receiver.init P.maxBuf P.maxEntries P.cfg.useInterleaving P.useFwd P.useIFwd P.ackMode P.tsn := rfl
    rw [hinit]
    have hout : (senderI P acc si).msgs.map Reasm.Msg.out = writesOn P si (init P) ops := by
      simp only [writesOn, writes_eq, hacc, senderI, msgsOf, List.map_map]
      apply List.map_congr_left
      intro a ha
      have ha' : a ∈ acc := (List.mem_filter.1 ha).1
      simp only [Function.comp, Reasm.Msg.out, Reasm.Msg.payload, cut_flatten _ _ (hfr a ha').2.2]
    rw [← hout]
    exact key
  case hWF =>
    intro S hS'
    simp only [sendersI, List.mem_map] at hS'
    obtain ⟨x, _, rfl⟩ := hS'
    intro m hm
    simp only [senderI, msgsOf, List.mem_map] at hm
    obtain ⟨a, ha, rfl⟩ := hm
    have ha' : a ∈ acc := (List.mem_filter.1 ha).1
    simp only [Reasm.Msg.nf, cut_length]
    have := hfr a ha'
    omega
  case hidx =>
    intro S _ k i _ _
    simp only [nuOf]
    split <;> omega
  case hsi =>
    intro S hS1 S' hS2 he
    simp only [sendersI, List.mem_map] at hS1 hS2
    obtain ⟨x, _, rfl⟩ := hS1
    obtain ⟨y, _, rfl⟩ := hS2
    have : y = x := he
    rw [this]
  case hgood =>
    intro cs hcs ch hch
    right
    obtain ⟨r1, r2, hr⟩ := List.append_of_mem hcs
    obtain ⟨o1, op, o2, e, _, _, e3⟩ := rcvOps_split P (init P) ops r1 _ r2 hr
    obtain ⟨is, rfl⟩ := rcvOp_pkt P _ op cs e3
    obtain ⟨c, hc, imm, rfl⟩ := packetOf_mem P _ is ch hch
    have hc' := wire_prefix_sub P o1 (op :: o2) c hc
    rw [← e] at hc'
    obtain ⟨S, hS', k, i, h1, h2, h3⟩ := hchunk c hc'
    exact ⟨S, hS', k, i, imm, h1, h2, by rw [h3]⟩
  case hwin =>
    intro ops1 cs1 k i imm cs2 ops2 hr hk _ _
    obtain ⟨o1, op, o2, e, e1, _, e3⟩ := rcvOps_split P (init P) ops ops1 _ ops2 hr
    obtain ⟨is, hpk⟩ := rcvOp_pkt P _ op _ e3
    have hmem : Receiver.InChunk.data ((senderI P acc si).idataFrag
        (fun k i => P.tsn + BitVec.ofNat 32 (nuOf P acc mv (senderI P acc si).si k i)) k i) imm ∈ packetOf P (run P (init P) o1).wire is := by
      rw [← hpk]; simp
    obtain ⟨c, hc, imm', hceq⟩ := packetOf_mem P _ is _ hmem
    simp only [Receiver.InChunk.data.injEq] at hceq
    have hceq := hceq.1
    -- identify `c` in the PREFIX run
    rw [(run_snd P (init P) o1).2] at hc
    have hc1 : c ∈ wire (init P).snd (sndOps P (init P).snd o1) := by simpa [init] using hc
    have hrel1 : Reliable o1 = true := (reliable_append o1 (op :: o2) (by rw [← e]; exact hrel)).1
    have hid1 := wire_ident P.cfg P.tsn P.peerRwnd (fun m => (P.pay m).length) (sndOps P (init P).snd o1)
      (sndOps_ord P (init P).snd o1 hrel1) (sndOps_lenOk P (init P).snd o1)
    rw [← hs0] at hid1
    obtain ⟨ws1, a, ws2, i', a1, _, a3, _, _, _⟩ := hid1 c hc1
    obtain ⟨rest, hrest⟩ := accepted_prefix P o1 (op :: o2)
    rw [← e, hacc] at hrest
    simp only [Chunk.frag, fragOf, hil, if_true, Prod.mk.injEq] at a3
    obtain ⟨f1, _, _, _, _, _, _, f8, _⟩ := a3
    have hsi : c.si = si := by
      have := congrArg (fun x => x.si) hceq
      simpa [toWire, Reasm.Sender.idataFrag, senderI] using this.symm
    have hmid : c.mid = BitVec.ofNat 32 k := by
      have := congrArg (fun x => x.mid) hceq
      simpa [toWire, Reasm.Sender.idataFrag, hil] using this.symm
    have hasi : a.si = si := by rw [← f1]; exact hsi
    have hk1 : cntOf ws1 a.si < cntOf (accepted (init P).snd (sndOps P (init P).snd o1)) a.si := (filter_split _ ws1 ws2 a a1).2
    rw [hasi] at hk1
    have hle1 : cntOf (accepted (init P).snd (sndOps P (init P).snd o1)) si ≤ cntOf acc si := by
      rw [hrest]; exact cntOf_append_le _ _ _
    have hle2 := cntOf_le_length acc si
    have hklen : k < cntOf acc si := by
      have : (senderI P acc si).msgs.length = cntOf acc si := msgsOf_length P acc si
      omega
    have hkk : cntOf ws1 si = k := by
      apply ofNat32_inj (by omega) (by omega)
      rw [← hmid, f8, hasi]
    -- the window
    simp only [WinOk, List.all_eq_true, List.mem_range, decide_eq_true_eq] at hwin
    have hw := hwin o1.length (by rw [e]; simp; omega)
    have htake : ops.take o1.length = o1 := by rw [e]; simp
    rw [htake] at hw
    have hwl : (writesOn P si (init P) o1).length = cntOf (accepted (init P).snd (sndOps P (init P).snd o1)) si := by
      simp [writesOn, writes_eq, cntOf]
    rw [hwl, reads_eq, e1] at hw
    have hinit : (init P).rcv = Receiver.init P.maxBuf P.maxEntries P.cfg.useInterleaving P.useFwd P.useIFwd P.ackMode P.tsn := rfl
    rw [hinit] at hw
    show k < (Receiver.delivs si _ ops1).length + 2^31
    omega

end NetSys
