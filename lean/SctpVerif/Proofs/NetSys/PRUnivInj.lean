import SctpVerif.Proofs.NetSys.PRUniv
/-!
TSN injectivity of moved fragments in the universe `senderD`: a chunk on the wire sits at ONE position among the moves; a
fragment `(k0, i0)` of stream `si` whose offset in the universe is that position IS that chunk's fragment
(the `hkk` argument of `Proofs/NetSys/Data.lean`, without assuming the stream).
-/
namespace NetSys
open SenderProofs SenderTsn Sender

theorem UFacts.inj {P : Params} {acc : List Write} {mv : List Chunk} {W : Nat} {wr : List Chunk} (h : UFacts P acc mv W wr)
    (c : Chunk) (ws1 : List Write) (a : Write) (ws2 : List Write)
    (a1 : acc = ws1 ++ a :: ws2) (a2 : c.msg = a.msg)
    (t5 : (mv.map Chunk.frag).idxOf (Chunk.frag c) < mv.length)
    (si : BitVec 16) (k0 i0 : Nat) (hk0 : k0 < (senderD P acc mv si).msgs.length) (hi0 : i0 < (senderD P acc mv si).nf k0)
    (hJ : (senderD P acc mv si).base k0 + i0 = (mv.map Chunk.frag).idxOf (Chunk.frag c)) :
    a.si = si ∧ cntOf ws1 a.si = k0 := by
  have ctx := h.ctx
  have hklen : k0 < (acc.filter (·.si == si)).length := by
    have : (senderD P acc mv si).msgs.length = (acc.filter (·.si == si)).length := by simp [senderD, msgsOf]
    omega
  have hak : (acc.filter (·.si == si))[k0]? = some (acc.filter (·.si == si))[k0] := List.getElem?_eq_getElem hklen
  obtain ⟨u, v, eu, cu, hsu⟩ := filter_get_split acc si k0 _ hak
  generalize (acc.filter (·.si == si))[k0] = ak at hak eu hsu
  obtain ⟨hnfk, hbs⟩ := h.hbase si k0 hk0 ak hak
  by_cases hJ0 : (mv.map Chunk.frag).idxOf (fragOf false ak k0 0 (nfr P ak)) < mv.length
  · -- the first fragment of message `k0` was moved: its fragments follow it without a gap
    have hJ0' : (mv.map Chunk.frag).idxOf (fragOf false ak (cntOf u ak.si) 0 (nfr P ak)) < mv.length := by
      rw [hsu, cu]; exact hJ0
    obtain ⟨_, hbase⟩ := ctx.first u v ak eu hJ0'
    rw [hsu, cu] at hbase
    obtain ⟨b, hb, hbf⟩ := idxOf_get _ mv hJ0
    have hb0 : b.fsn = 0 := by
      have := congrArg (fun x => x.2.2.2.2.2.2.2.2) hbf
      simpa [Chunk.frag, fragOf] using this
    have hbm : b.msg = ak.msg := by
      have := congrArg (fun x => x.2.1) hbf
      simpa [Chunk.frag, fragOf] using this
    have hak' : ak ∈ acc := by rw [eu]; simp
    have hsm := ctx.small ak hak'
    have he : ∀ c' ∈ mv, c'.msg = b.msg → c'.efrag = (c'.fsn.toNat + 1 == nfr P ak) := by
      intro c' hc' hm'
      obtain ⟨j, hj⟩ := List.getElem?_of_mem hc'
      obtain ⟨i'', hi'', hf''⟩ := ctx.of_msg u v ak eu j c' hj (hm'.trans hbm)
      have g1 := congrArg (fun x => x.2.2.2.2.2.1) hf''
      have g2 := congrArg (fun x => x.2.2.2.2.2.2.2.2) hf''
      simp only [Chunk.frag, fragOf] at g1 g2
      rw [g1, g2, BitVec.toNat_ofNat, Nat.mod_eq_of_lt (by omega)]
    have hlt : (mv.map Chunk.frag).idxOf (fragOf false ak k0 0 (nfr P ak)) + i0 < mv.length := by
      rw [← hbase, hJ]; exact t5
    obtain ⟨y, hy, hym, _⟩ := ctx.contig.fwd _ b hb hb0 (nfr P ak) (by omega) he i0 (by rw [← hnfk]; exact hi0) hlt
    obtain ⟨m, hmJ, hmf⟩ := idxOf_get _ mv t5
    have hmm : m.msg = c.msg := by
      have := congrArg (fun x => x.2.1) hmf
      simpa [Chunk.frag] using this
    rw [← hbase, hJ] at hy
    have hym' : y = m := by rw [hy] at hmJ; exact Option.some.inj hmJ
    have hmsgeq : ak.msg = a.msg := by rw [← hbm, ← hym, hym', hmm, a2]
    obtain ⟨v1, v2, _⟩ := split_unique acc ctx.sorted u v ws1 ws2 ak a eu a1 hmsgeq
    rw [← v2, ← v1, hsu]
    exact ⟨rfl, cu⟩
  · -- the first fragment of message `k0` never moved: its offset is beyond every TSN in use
    exfalso
    have hle : (mv.map Chunk.frag).idxOf (fragOf false ak k0 0 (nfr P ak)) ≤ mv.length := by
      have := List.idxOf_le_length (l := mv.map Chunk.frag) (a := fragOf false ak k0 0 (nfr P ak))
      simpa using this
    omega

end NetSys
