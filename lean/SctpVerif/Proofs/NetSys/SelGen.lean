import SctpVerif.Proofs.NetSys.SelRun
/-!
The order in which the writes of a run create chunks (`gen` of the accepted writes: message after message, the
fragments of a message adjacent and in order — `C01_write_fragments` per write, `C01_ssn_assignment` per run) is
message-contiguous and per-stream first-in-first-out; so is every list of chunks that carries, position by position, the
fragment identities of a PREFIX of it. Positions are by index (`gen_get`), counts per stream by `gen_countP_si`.
-/
namespace SenderTsn
open SenderProofs
open Gen Sender
open NetSys (Write)

/-- position of a chunk of `gen`: behind the chunks of the earlier writes, at its fragment index in its own group -/
theorem gen_get (il : Bool) (mp : Nat) (lenOf : Nat → Nat) (pre ws : List Write) (j : Nat) (c : Chunk)
    (h : (gen il mp lenOf pre ws)[j]? = some c) :
    ∃ (ws1 : List Write) (a : Write) (ws2 : List Write) (i : Nat), ws = ws1 ++ a :: ws2 ∧
      j = (gen il mp lenOf pre ws1).length + i ∧ (grp il mp (lenOf a.msg) (cntOf (pre ++ ws1) a.si) a)[i]? = some c := by
  induction ws generalizing pre j with
  | nil => simp [gen] at h
  | cons a r ih =>
    simp only [gen] at h
    by_cases hj : j < (grp il mp (lenOf a.msg) (cntOf pre a.si) a).length
    · rw [List.getElem?_append_left hj] at h
      exact ⟨[], a, r, j, rfl, by simp [gen], by simpa using h⟩
    · rw [List.getElem?_append_right (by omega)] at h
      obtain ⟨ws1, b, ws2, i, e, ej, hi⟩ := ih (pre ++ [a]) _ h
      refine ⟨a :: ws1, b, ws2, i, by rw [e]; rfl, ?_, ?_⟩
      · simp only [gen, List.length_append]; omega
      · simpa [List.append_assoc] using hi

/-- the first chunk of `gen` is a first fragment -/
theorem gen_head (il : Bool) (mp : Nat) (lenOf : Nat → Nat) (pre ws : List Write) (c : Chunk)
    (h : (gen il mp lenOf pre ws)[0]? = some c) : c.bfrag = true := by
  obtain ⟨ws1, a, ws2, i, _, ej, hi⟩ := gen_get il mp lenOf pre ws 0 c h
  have hi0 : i = 0 := by omega
  subst hi0
  have := (grp_get _ _ _ _ _ _ _ hi).2.2.2.2.2.2.2.1
  simpa using this

/-- in `gen`: after a last fragment comes a first fragment, after any other fragment the next one of the same message -/
theorem gen_next (il : Bool) (mp : Nat) (lenOf : Nat → Nat) (pre ws : List Write) (j : Nat) (x y : Chunk)
    (hx : (gen il mp lenOf pre ws)[j]? = some x) (hy : (gen il mp lenOf pre ws)[j + 1]? = some y) :
    if x.efrag then y.bfrag = true else (y.msg = x.msg ∧ y.fsn = x.fsn + 1) := by
  obtain ⟨ws1, a, ws2, i, e, ej, hi⟩ := gen_get il mp lenOf pre ws j x hx
  subst e
  rw [gen_append] at hy
  simp only [gen] at hy
  rw [ej, Nat.add_assoc, List.getElem?_append_right (by omega)] at hy
  have hsub : (gen il mp lenOf pre ws1).length + (i + 1) - (gen il mp lenOf pre ws1).length = i + 1 := by omega
  rw [hsub] at hy
  obtain ⟨_, x2, _, _, _, _, x7, _, x9, _⟩ := grp_get _ _ _ _ _ _ _ hi
  have hil : i < (grp il mp (lenOf a.msg) (cntOf (pre ++ ws1) a.si) a).length := by
    rcases Nat.lt_or_ge i (grp il mp (lenOf a.msg) (cntOf (pre ++ ws1) a.si) a).length with h' | h'
    · exact h'
    · rw [List.getElem?_eq_none h'] at hi; cases hi
  have hgl := grp_length il mp (lenOf a.msg) (cntOf (pre ++ ws1) a.si) a
  by_cases hlt : i + 1 < (grp il mp (lenOf a.msg) (cntOf (pre ++ ws1) a.si) a).length
  · rw [List.getElem?_append_left hlt] at hy
    obtain ⟨_, y2, _, _, _, _, y7, _, _, _⟩ := grp_get _ _ _ _ _ _ _ hy
    have hxe : x.efrag = false := by rw [x9]; simp; omega
    simp only [hxe, Bool.false_eq_true, if_false]
    refine ⟨y2.trans x2.symm, ?_⟩
    rw [y7, x7]
    show _ = BitVec.ofNat 32 i + BitVec.ofNat 32 1
    rw [← BitVec.ofNat_add]
  · rw [List.getElem?_append_right (by omega)] at hy
    have h0 : i + 1 - (grp il mp (lenOf a.msg) (cntOf (pre ++ ws1) a.si) a).length = 0 := by omega
    rw [h0] at hy
    have hxe : x.efrag = true := by rw [x9]; simp; omega
    simp only [hxe, if_true]
    exact gen_head il mp lenOf _ ws2 y hy

theorem grp_si (il : Bool) (mp len k : Nat) (a : Write) : ∀ c ∈ grp il mp len k a, c.si = a.si :=
  fun c hc => ((mkChunks_spec _ _ _ _ _ _ _ _ _).2.2.2 c hc).2.2

theorem grp_countP_si (il : Bool) (mp len k : Nat) (a : Write) (si : BitVec 16) :
    (grp il mp len k a).countP (·.si == si) = if a.si = si then (fragSizes mp len).length else 0 := by
  by_cases ha : a.si = si
  · rw [if_pos ha, ← grp_length il mp len k a, List.countP_eq_length]
    intro c hc
    simp [grp_si _ _ _ _ _ c hc, ha]
  · rw [if_neg ha, List.countP_eq_zero]
    intro c hc
    simp [grp_si _ _ _ _ _ c hc, ha]

/-- chunks of stream `si` in `gen`: the fragments of the writes on `si` -/
theorem gen_countP_si (il : Bool) (mp : Nat) (lenOf : Nat → Nat) (pre ws : List Write) (si : BitVec 16) :
    (gen il mp lenOf pre ws).countP (·.si == si) =
      ((ws.filter (·.si == si)).map fun a => (fragSizes mp (lenOf a.msg)).length).sum := by
  induction ws generalizing pre with
  | nil => simp [gen]
  | cons a r ih =>
    simp only [gen, List.countP_append, ih, List.filter_cons, grp_countP_si]
    by_cases ha : a.si = si
    · simp [ha]
    · simp [ha]

/-- a first fragment in `gen` sits at a message boundary: the chunks of its stream before it are the fragments of the
writes on that stream before its own write -/
theorem gen_first (il : Bool) (mp : Nat) (lenOf : Nat → Nat) (pre ws : List Write) (j : Nat) (c : Chunk)
    (h : (gen il mp lenOf pre ws)[j]? = some c) (hb : c.bfrag = true) :
    ∃ (ws1 : List Write) (a : Write) (ws2 : List Write), ws = ws1 ++ a :: ws2 ∧ c.si = a.si ∧ c.msg = a.msg ∧
      ((gen il mp lenOf pre ws).take j).countP (·.si == a.si) =
        ((ws1.filter (·.si == a.si)).map fun x => (fragSizes mp (lenOf x.msg)).length).sum := by
  obtain ⟨ws1, a, ws2, i, e, ej, hi⟩ := gen_get il mp lenOf pre ws j c h
  obtain ⟨g1, g2, _, _, _, _, _, g8, _, _⟩ := grp_get _ _ _ _ _ _ _ hi
  have hi0 : i = 0 := by rw [hb] at g8; simpa using g8.symm
  subst hi0
  refine ⟨ws1, a, ws2, e, g1, g2, ?_⟩
  subst e
  rw [gen_append, ej, Nat.add_zero, List.take_left' rfl]
  exact gen_countP_si il mp lenOf pre ws1 a.si

/-! ## transfer to a list that carries the fragment identities of a prefix -/

theorem frag_get_of_prefix {G mv : List Chunk} {rest : List Frag} (h : G.map Chunk.frag = mv.map Chunk.frag ++ rest)
    (j : Nat) (c : Chunk) (hc : mv[j]? = some c) : ∃ w, G[j]? = some w ∧ Chunk.frag w = Chunk.frag c := by
  have hj : j < mv.length := by
    rcases Nat.lt_or_ge j mv.length with h' | h'
    · exact h'
    · rw [List.getElem?_eq_none h'] at hc; cases hc
  have h1 : (G.map Chunk.frag)[j]? = some (Chunk.frag c) := by
    rw [h, List.getElem?_append_left (by simpa using hj), List.getElem?_map, hc]; rfl
  rw [List.getElem?_map] at h1
  cases hg : G[j]? with
  | none => rw [hg] at h1; cases h1
  | some w => rw [hg] at h1; exact ⟨w, rfl, by simpa using h1⟩

theorem countP_si_take_of_prefix {G mv : List Chunk} {rest : List Frag} (h : G.map Chunk.frag = mv.map Chunk.frag ++ rest)
    (j : Nat) (hj : j ≤ mv.length) (si : BitVec 16) :
    (mv.take j).countP (·.si == si) = (G.take j).countP (·.si == si) := by
  have e1 : ∀ l : List Chunk, l.countP (·.si == si) = (l.map Chunk.frag).countP (fun f => f.1 == si) := by
    intro l; rw [List.countP_map]; rfl
  rw [e1, e1, List.map_take, List.map_take, h, List.take_append_of_le_length (by simpa using hj)]

end SenderTsn
