import SctpVerif.Proofs.ReasmUnordRun
/-!
Helper lemmas for C06 (unordered reassembly), part 8: ordered and unordered DATA messages on the SAME stream.
Frame lemmas (a push of one class never reads or writes the containers / cursor of the other class; `read` serves a
waiting unordered message first and then touches nothing of the ordered class) and the run that carries the ordered
refinement `OrdInv` (of `Proofs/ReasmOrd.lean`, on the queue with `unordered` masked) next to the unordered one `UInv`.
-/
set_option linter.unusedVariables false
set_option linter.unusedSimpArgs false
namespace Reasm
open Gen

/-- pushing an ORDERED DATA chunk never reads or writes the unordered containers: it commutes with masking
`unordered`, and leaves `unordered` / `unorderedChunks` as they are. -/
theorem pushO_frame (q : Q) (c : Chunk) (h1 : c.iData = false) (h3 : c.unordered = false) :
    (({ q with unordered := [] } : Q).pushWithError c).1 = { (q.pushWithError c).1 with unordered := [] } ∧
    (q.pushWithError c).1.unordered = q.unordered ∧ (q.pushWithError c).1.unorderedChunks = q.unorderedChunks ∧
    (q.pushWithError c).1.si = q.si ∧ (q.pushWithError c).1.useInterleaving = q.useInterleaving := by
  unfold Q.pushWithError
  simp only [h1, h3, Bool.false_eq_true, ↓reduceIte, Q.hasDataLimit, Q.isDataLimitReached, Q.orderedDataEntryCount]
  by_cases hb : (decide (q.maxEntries > 0#32) && isReassemblyQueueLimitReached q.maxEntries ↑(countChunks q.ordered)) = true <;>
    simp only [hb, Bool.false_eq_true, ↓reduceIte] <;> (repeat' split) <;> exact ⟨rfl, rfl, rfl, rfl, rfl⟩

theorem mask_eq (q : Q) (h : q.unordered = []) : ({ q with unordered := [] } : Q) = q := by
  cases q; simp_all

/-- `OrdInv` looks at five fields only. -/
theorem OrdInv.congr {S q d A P} (h : OrdInv S q d A P) (q' : Q) (h1 : q'.si = q.si)
    (h2 : q'.useInterleaving = q.useInterleaving) (h3 : q'.unordered = q.unordered) (h4 : q'.nextSSN = q.nextSSN)
    (h5 : q'.ordered = q.ordered) : OrdInv S q' d A P :=
  { si := by rw [h1, h.si], il := by rw [h2, h.il], un := by rw [h3, h.un], cur := by rw [h4, h.cur],
    ord := by rw [h5, h.ord], sorted := h.sorted, win := h.win, wf := h.wf, pushed := h.pushed, done := h.done }

/-- `UInv` looks at four fields only. -/
theorem UInv.congr {S σ q D W U P G} (h : UInv S σ q D W U P G) (q' : Q) (h1 : q'.si = q.si)
    (h2 : q'.useInterleaving = q.useInterleaving) (h3 : q'.unordered = q.unordered)
    (h4 : q'.unorderedChunks = q.unorderedChunks) : UInv S σ q' D W U P G :=
  { si := by rw [h1, h.si], il := by rw [h2, h.il], uc := by rw [h4, h.uc], un := by rw [h3, h.un],
    sorted := h.sorted, valid := h.valid, upush := h.upush, nodup := h.nodup, dwlen := h.dwlen, dwpush := h.dwpush,
    disj := h.disj, nocomp := h.nocomp, track := h.track }

/-- a stream that carries both classes: `pushO` = fragment of an ordered message (universe `SO`), `pushU` = fragment of
an unordered message (universe `SU`), `read`. -/
inductive MOp
  | pushO (k i : Nat)
  | pushU (k i : Nat)
  | read (buflen : Nat)
deriving Repr

/-- the successful reads of a mixed run, each tagged with the class that served it (`true` = a complete unordered
message was waiting in `unordered`: `read` serves that one). -/
def mixDeliveries (fo fu : Nat → Nat → Chunk) : Q → List MOp → List (Bool × PPI × List UInt8)
  | _, [] => []
  | q, .pushO k i :: ops => mixDeliveries fo fu (q.pushWithError (fo k i)).1 ops
  | q, .pushU k i :: ops => mixDeliveries fo fu (q.pushWithError (fu k i)).1 ops
  | q, .read n :: ops =>
    (if (q.read n).2.err = .ok then [(!q.unordered.isEmpty, (q.read n).2.ppi, (q.read n).2.data)] else []) ++
      mixDeliveries fo fu (q.read n).1 ops

def mixFinal (fo fu : Nat → Nat → Chunk) : Q → List MOp → Q
  | q, [] => q
  | q, .pushO k i :: ops => mixFinal fo fu (q.pushWithError (fo k i)).1 ops
  | q, .pushU k i :: ops => mixFinal fo fu (q.pushWithError (fu k i)).1 ops
  | q, .read n :: ops => mixFinal fo fu (q.read n).1 ops

/-- unordered fragments taken without error in a mixed run. -/
def mixAccepted (fo fu : Nat → Nat → Chunk) : Q → List MOp → List (Nat × Nat)
  | _, [] => []
  | q, .pushO k i :: ops => mixAccepted fo fu (q.pushWithError (fo k i)).1 ops
  | q, .pushU k i :: ops =>
    (if (q.pushWithError (fu k i)).2.2 = .none then [(k, i)] else []) ++ mixAccepted fo fu (q.pushWithError (fu k i)).1 ops
  | q, .read n :: ops => mixAccepted fo fu (q.read n).1 ops

/-- admissible mixed runs: per class what `Admissible` (ordered: window 2^15 relative to the number `d` of ORDERED
messages read) and `AdmissibleU` (unordered) ask; `PO` / `PU` = fragments pushed so far per class. -/
def AdmissibleM (SO SU : Sender) (fo fu : Nat → Nat → Chunk) :
    Q → Nat → List (Nat × Nat) → List (Nat × Nat) → List MOp → Prop
  | _, _, _, _, [] => True
  | q, d, PO, PU, .pushO k i :: ops =>
      k < SO.msgs.length ∧ i < SO.nf k ∧ (k, i) ∉ PO ∧ k < d + 2^15 ∧
      AdmissibleM SO SU fo fu (q.pushWithError (fo k i)).1 d ((k, i) :: PO) PU ops
  | q, d, PO, PU, .pushU k i :: ops =>
      k < SU.msgs.length ∧ i < SU.nf k ∧ (k, i) ∉ PU ∧
      AdmissibleM SO SU fo fu (q.pushWithError (fu k i)).1 d PO ((k, i) :: PU) ops
  | q, d, PO, PU, .read n :: ops =>
      AdmissibleM SO SU fo fu (q.read n).1
        (if (q.read n).2.err = .ok ∧ q.unordered.isEmpty = true then d + 1 else d) PO PU ops

instance decAdmissibleM (SO SU : Sender) (fo fu : Nat → Nat → Chunk) :
    ∀ q d PO PU ops, Decidable (AdmissibleM SO SU fo fu q d PO PU ops)
  | _, _, _, _, [] => isTrue trivial
  | q, d, PO, PU, .pushO k i :: ops =>
    have := decAdmissibleM SO SU fo fu (q.pushWithError (fo k i)).1 d ((k, i) :: PO) PU ops
    by unfold AdmissibleM; exact inferInstance
  | q, d, PO, PU, .pushU k i :: ops =>
    have := decAdmissibleM SO SU fo fu (q.pushWithError (fu k i)).1 d PO ((k, i) :: PU) ops
    by unfold AdmissibleM; exact inferInstance
  | q, d, PO, PU, .read n :: ops =>
    have := decAdmissibleM SO SU fo fu (q.read n).1
      (if (q.read n).2.err = .ok ∧ q.unordered.isEmpty = true then d + 1 else d) PO PU ops
    by unfold AdmissibleM; exact inferInstance

def ordPart (l : List (Bool × PPI × List UInt8)) : List (PPI × List UInt8) := (l.filter (fun x => !x.1)).map (·.2)
def unordPart (l : List (Bool × PPI × List UInt8)) : List (PPI × List UInt8) := (l.filter (fun x => x.1)).map (·.2)

theorem mix_run {SO SU : Sender} {σ} (hSO : SO.WF) (hSU : SU.UWF) (hsi : SU.si = SO.si) (ops : List MOp) :
    ∀ {q d A PO D W U PU G}, OrdInv SO { q with unordered := [] } d A PO → UInv SU σ q D W U PU G →
      AdmissibleM SO SU SO.dataFrag (SU.udataFrag σ) q d PO PU ops →
      ordPart (mixDeliveries SO.dataFrag (SU.udataFrag σ) q ops) <+: (SO.msgs.drop d).map Msg.out ∧
      ∃ D' W' U' PU' G', UInv SU σ (mixFinal SO.dataFrag (SU.udataFrag σ) q ops) (D ++ D') W' U' PU' G' ∧
        unordPart (mixDeliveries SO.dataFrag (SU.udataFrag σ) q ops) = D'.map SU.out ∧
        (∀ p, p ∈ G' ↔ p ∈ G ∨ p ∈ mixAccepted SO.dataFrag (SU.udataFrag σ) q ops) := by
  induction ops with
  | nil =>
    intro q d A PO D W U PU G ho hu _
    exact ⟨by simp [mixDeliveries, ordPart], [], W, U, PU, G, by simpa [mixFinal] using hu,
      by simp [mixDeliveries, unordPart], by simp [mixAccepted]⟩
  | cons op ops ih =>
    intro q d A PO D W U PU G ho hu hadm
    cases op with
    | pushO k i =>
      simp only [AdmissibleM] at hadm
      obtain ⟨hk, hi, hP, hw, hrest⟩ := hadm
      obtain ⟨A', ho'⟩ := ho.push hSO hk hi hP hw
      obtain ⟨hmask, f1, f2, f3, f4⟩ := pushO_frame q (SO.dataFrag k i) rfl rfl
      rw [hmask] at ho'
      have hu' := hu.congr (q.pushWithError (SO.dataFrag k i)).1 f3 f4 f1 f2
      simpa [mixDeliveries, mixFinal, mixAccepted] using ih ho' hu' hrest
    | pushU k i =>
      simp only [AdmissibleM] at hadm
      obtain ⟨hk, hi, hP, hrest⟩ := hadm
      obtain ⟨hfr, W1, U1, hu'⟩ := hu.push hSU hk hi hP
      have ho' : OrdInv SO { (q.pushWithError (SU.udataFrag σ k i)).1 with unordered := [] } d A PO :=
        ho.congr _ hfr.si hfr.il rfl hfr.nextSSN hfr.ordered
      obtain ⟨hpre, D', W', U', PU', G', h', hdel, hG⟩ := ih ho' hu' hrest
      refine ⟨by simpa [mixDeliveries] using hpre, D', W', U', PU', G', by simpa [mixFinal] using h',
        by simpa [mixDeliveries] using hdel, ?_⟩
      intro p
      rw [hG p]
      simp only [mixAccepted, List.mem_append]
      constructor
      · rintro ((h | h) | h)
        · exact .inr (.inl h)
        · exact .inl h
        · exact .inr (.inr h)
      · rintro (h | h | h)
        · exact .inl (.inr h)
        · exact .inl (.inl h)
        · exact .inr h
    | read n =>
      simp only [AdmissibleM] at hadm
      cases hW : W with
      | nil =>
        -- nothing unordered is waiting: the read is the ordered queue's
        have hun : q.unordered = [] := by rw [hu.un, hW]; rfl
        have hemp : q.unordered.isEmpty = true := by rw [hun]; rfl
        rw [mask_eq q hun] at ho
        rcases ho.read hSO n with ⟨hne, hq⟩ | ⟨hok, hd, hppi, hdata, A', ho'⟩
        · simp only [hne, false_and, ↓reduceIte] at hadm
          rw [hq] at hadm
          have := ih (by rw [mask_eq q hun]; exact ho) hu hadm
          simpa [mixDeliveries, mixFinal, mixAccepted, hne, hq] using this
        · simp only [hok, hemp, and_self, ↓reduceIte] at hadm
          -- the ordered read leaves the unordered containers alone
          have hre := read_effect q n
          have hun' : (q.read n).1.unordered = [] := ho'.un
          have huc' : (q.read n).1.unorderedChunks = q.unorderedChunks := by
            have := ho.il
            unfold Q.read
            simp only [ho.il, Bool.false_eq_true, ↓reduceIte, hun]
            repeat' split
            all_goals rfl
          have hu' : UInv SU σ (q.read n).1 D W U PU G := by
            rw [hW] at hu ⊢
            exact hu.congr _ (by rw [ho'.si, ho.si]) (by rw [ho'.il, ho.il]) (by rw [hun', hun]) huc'
          obtain ⟨hpre, D', W', U', PU', G', h', hdel, hG⟩ :=
            ih (by rw [mask_eq _ hun']; exact ho') hu' hadm
          refine ⟨?_, D', W', U', PU', G', by simpa [mixFinal] using h', ?_, by simpa [mixAccepted] using hG⟩
          · have hdrop : SO.msgs.drop d = SO.msgs[d] :: SO.msgs.drop (d + 1) := List.drop_eq_getElem_cons hd
            have hmsg : SO.msg d = SO.msgs[d] := by
              simp [Sender.msg, List.getD_eq_getElem?_getD, List.getElem?_eq_getElem hd]
            simp only [mixDeliveries, hok, ↓reduceIte, hemp, Bool.not_true, List.singleton_append, ordPart,
              List.filter_cons, List.map_cons]
            rw [hdrop, List.map_cons, hppi, hdata, hmsg]
            exact (List.prefix_cons_inj _).2 hpre
          · simpa [mixDeliveries, hok, hemp, unordPart, List.filter_cons] using hdel
      | cons k W0 =>
        have hne : q.unordered.isEmpty = false := by rw [hu.un, hW]; rfl
        simp only [hne, Bool.false_eq_true, and_false, ↓reduceIte] at hadm
        rcases hu.read hW n with ⟨herr, hq⟩ | ⟨hok, hppi, hdata, hfr, _, hu'⟩
        · rw [hq] at hadm
          have := ih ho hu hadm
          simpa [mixDeliveries, mixFinal, mixAccepted, herr, hq] using this
        · have ho' : OrdInv SO { (q.read n).1 with unordered := [] } d A PO :=
            ho.congr _ hfr.si hfr.il rfl hfr.nextSSN hfr.ordered
          obtain ⟨hpre, D', W', U', PU', G', h', hdel, hG⟩ := ih ho' hu' hadm
          refine ⟨?_, k :: D', W', U', PU', G', by simpa [mixFinal] using h', ?_, by simpa [mixAccepted] using hG⟩
          · simpa [mixDeliveries, hok, hne, ordPart, List.filter_cons] using hpre
          · simp only [mixDeliveries, hok, ↓reduceIte, hne, Bool.not_false, List.singleton_append, unordPart,
              List.filter_cons, List.map_cons, hppi, hdata]
            congr 1

end Reasm
