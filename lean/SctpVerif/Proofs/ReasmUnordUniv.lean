import SctpVerif.Proofs.ReasmUnordScan
/-!
Helper lemmas for C06 (unordered reassembly), part 2: the honest sender's universe of UNORDERED DATA fragments
(`Sender` of `Proofs/ReasmOrd.lean`: message `k` occupies the TSNs `t0 + base k + i`, `base k` = fragments of the
earlier messages + `skip k` TSNs of other traffic), what a `BERun` of such fragments is (exactly one message), and
that the scan finds a message whose fragments are all in the TSN-sorted slice.
-/
set_option linter.unusedVariables false
set_option linter.unusedSimpArgs false
namespace Reasm
open Gen

/-- unordered DATA fragment `i` of message `k`: as `dataFrag` with the U flag; the SSN field `σ k` is whatever the
sender put there (pion: the stream's current SSN, not incremented) — the unordered path never reads it. -/
def Sender.udataFrag (S : Sender) (σ : Nat → BitVec 16) (k i : Nat) : Chunk :=
  { S.dataFrag k i with unordered := true, ssn := σ k }

/-- offset of fragment `p = (k, i)` from `t0` in the TSN space. -/
def Sender.pos (S : Sender) (p : Nat × Nat) : Nat := S.base p.1 + p.2

def Sender.ufrag (S : Sender) (σ : Nat → BitVec 16) (p : Nat × Nat) : Chunk := S.udataFrag σ p.1 p.2

def Sender.Valid (S : Sender) (p : Nat × Nat) : Prop := p.1 < S.msgs.length ∧ p.2 < S.nf p.1

/-- the universe hypothesis for unordered DATA: messages well formed, disjoint TSN ranges in message order
(`skip` monotone: TSNs of other traffic in between, never overlapping), the whole universe inside one half-space
window of the TSN space. -/
structure Sender.UWF (S : Sender) : Prop where
  wf : S.WF
  mono : ∀ k, S.skip k ≤ S.skip (k + 1)
  span : S.base S.msgs.length ≤ 2^31

theorem Sender.base_succ (S : Sender) {k : Nat} (hk : k < S.msgs.length) :
    ((S.msgs.take (k + 1)).map Msg.nf).sum = ((S.msgs.take k).map Msg.nf).sum + S.nf k := by
  rw [List.take_add_one, List.getElem?_eq_getElem hk, Option.toList_some, List.map_append, List.sum_append]
  simp [Sender.nf, Sender.msg, List.getD_eq_getElem?_getD, List.getElem?_eq_getElem hk]

theorem Sender.base_step (S : Sender) (hS : S.UWF) {k : Nat} (hk : k < S.msgs.length) :
    S.base k + S.nf k ≤ S.base (k + 1) := by
  have := S.base_succ hk
  have := hS.mono k
  simp only [Sender.base] at *
  omega

theorem Sender.base_mono (S : Sender) (hS : S.UWF) {k k' : Nat} (h : k < k') (hk' : k' ≤ S.msgs.length) :
    S.base k + S.nf k ≤ S.base k' := by
  induction k' with
  | zero => omega
  | succ n ih =>
    rcases Nat.lt_or_ge k n with hlt | hge
    · have := ih hlt (by omega)
      have := S.base_step hS (k := n) (by omega)
      omega
    · have : k = n := by omega
      subst this
      exact S.base_step hS (by omega)

theorem Sender.pos_lt (S : Sender) (hS : S.UWF) {p : Nat × Nat} (hp : S.Valid p) : S.pos p < 2^31 := by
  have h1 := S.base_mono hS (k := p.1) (k' := S.msgs.length) hp.1 (Nat.le_refl _)
  have := hS.span
  have := hp.2
  simp only [Sender.pos]
  omega

/-- the next TSN after fragment `p` (not the last of its message) belongs to the next fragment of the same message. -/
theorem Sender.pos_succ (S : Sender) (hS : S.UWF) {p p' : Nat × Nat} (hp : S.Valid p) (hp' : S.Valid p')
    (hnl : p.2 + 1 < S.nf p.1) (h : S.pos p' = S.pos p + 1) : p' = (p.1, p.2 + 1) := by
  obtain ⟨k, i⟩ := p
  obtain ⟨k', i'⟩ := p'
  simp only [Sender.pos, Sender.Valid] at *
  rcases Nat.lt_trichotomy k' k with hlt | heq | hgt
  · have := S.base_mono hS hlt (by omega); omega
  · subst heq
    have : i' = i + 1 := by omega
    rw [this]
  · have := S.base_mono hS hgt (by omega); omega

theorem Sender.pos_inj (S : Sender) (hS : S.UWF) {p p' : Nat × Nat} (hp : S.Valid p) (hp' : S.Valid p')
    (h : S.pos p' = S.pos p) : p' = p := by
  obtain ⟨k, i⟩ := p
  obtain ⟨k', i'⟩ := p'
  simp only [Sender.pos, Sender.Valid] at *
  rcases Nat.lt_trichotomy k' k with hlt | heq | hgt
  · have := S.base_mono hS hlt (by omega); omega
  · subst heq
    have : i' = i := by omega
    rw [this]
  · have := S.base_mono hS hgt (by omega); omega

theorem ufrag_tsn (S : Sender) (σ) (p : Nat × Nat) :
    (S.ufrag σ p).tsn = S.t0 + BitVec.ofNat 32 (S.pos p) := rfl

theorem ufrag_tsn_lt (S : Sender) (hS : S.UWF) (σ) {a b : Nat × Nat} (ha : S.Valid a) (hb : S.Valid b) :
    sna32LT (S.ufrag σ a).tsn (S.ufrag σ b).tsn = decide (S.pos a < S.pos b) := by
  have := S.pos_lt hS ha
  have := S.pos_lt hS hb
  rw [ufrag_tsn, ufrag_tsn, sna32LT_add_left, sna32LT_ofNat _ _ (by omega) (by omega)]

theorem ufrag_tsn_succ (S : Sender) (hS : S.UWF) (σ) {a b : Nat × Nat} (ha : S.Valid a) (hb : S.Valid b)
    (h : (S.ufrag σ b).tsn = (S.ufrag σ a).tsn + 1) : S.pos b = S.pos a + 1 := by
  have := S.pos_lt hS ha
  have := S.pos_lt hS hb
  rw [ufrag_tsn, ufrag_tsn] at h
  have h' : BitVec.ofNat 32 (S.pos b) = BitVec.ofNat 32 (S.pos a + 1) := by
    have : BitVec.ofNat 32 (S.pos a + 1) = BitVec.ofNat 32 (S.pos a) + 1 := by
      rw [BitVec.ofNat_add]; rfl
    rw [this]; bv_omega
  have h2 := congrArg BitVec.toNat h'
  simp only [BitVec.toNat_ofNat] at h2
  omega

theorem udataFrag_tsn_next (S : Sender) (σ) (k j : Nat) :
    (S.udataFrag σ k (j + 1)).tsn = (S.udataFrag σ k j).tsn + 1 := by
  simp only [Sender.udataFrag, Sender.dataFrag]
  have : BitVec.ofNat 32 (S.base k + (j + 1)) = BitVec.ofNat 32 (S.base k + j) + 1 := by
    rw [← Nat.add_assoc, BitVec.ofNat_add]; rfl
  rw [this]; bv_omega

/-- the fragments of message `k`, as index pairs. -/
def msgIdx (k n : Nat) : List (Nat × Nat) := (List.range n).map (fun j => (k, j))

theorem msgIdx_succ (k n : Nat) : msgIdx k (n + 1) = msgIdx k n ++ [(k, n)] := by
  simp [msgIdx, List.range_succ]

theorem mem_msgIdx {k n : Nat} {p : Nat × Nat} : p ∈ msgIdx k n ↔ p.1 = k ∧ p.2 < n := by
  obtain ⟨a, b⟩ := p
  simp only [msgIdx, List.mem_map, List.mem_range, Prod.mk.injEq]
  constructor
  · rintro ⟨j, hj, rfl, rfl⟩; exact ⟨rfl, hj⟩
  · rintro ⟨rfl, h⟩; exact ⟨b, h, rfl, rfl⟩

theorem map_eq_snoc {α β} (f : α → β) {ps : List α} {r : List β} {c : β} (h : r ++ [c] = ps.map f) :
    ∃ ps0 p, ps = ps0 ++ [p] ∧ r = ps0.map f ∧ c = f p := by
  have h' := h.symm
  rw [List.map_eq_append_iff] at h'
  obtain ⟨l1, l2, rfl, h1, h2⟩ := h'
  rw [List.map_eq_singleton_iff] at h2
  obtain ⟨p, rfl, hp⟩ := h2
  exact ⟨l1, p, rfl, h1.symm, hp.symm⟩

/-- a run in progress made of universe fragments is the first `n` fragments of ONE message, `n < nf`. -/
theorem openRun_universe (S : Sender) (hS : S.UWF) (σ) {r : List Chunk} {last : BitVec 32} (h : OpenRun r last) :
    ∀ ps : List (Nat × Nat), r = ps.map (S.ufrag σ) → (∀ p ∈ ps, S.Valid p) →
      ∃ k n, ps = msgIdx k (n + 1) ∧ n + 1 < S.nf k ∧ k < S.msgs.length ∧ last = (S.udataFrag σ k n).tsn := by
  induction h with
  | one c hb he =>
    intro ps hps hv
    have hps' := hps.symm
    rw [List.map_eq_singleton_iff] at hps'
    obtain ⟨p, rfl, rfl⟩ := hps'
    obtain ⟨k, i⟩ := p
    have hvp := hv (k, i) (by simp)
    have hi : i = 0 := by simpa [Sender.ufrag, Sender.udataFrag, Sender.dataFrag] using hb
    subst hi
    have hne : ¬ (1 = S.nf k) := by simpa [Sender.ufrag, Sender.udataFrag, Sender.dataFrag] using he
    refine ⟨k, 0, by simp [msgIdx], ?_, hvp.1, rfl⟩
    have := hvp.2; simp only at this; omega
  | snoc c hr ht he ih =>
    rename_i r0 last0
    intro ps hps hv
    obtain ⟨ps0, p, rfl, hr0, rfl⟩ := map_eq_snoc _ hps
    obtain ⟨k, n, rfl, hn, hk, hlast⟩ := ih ps0 hr0 (fun x hx => hv x (by simp [hx]))
    have hvp := hv p (by simp)
    have hvk : S.Valid (k, n) := ⟨hk, by simp only; omega⟩
    have hpos := ufrag_tsn_succ S hS σ hvk hvp (by rw [ht, hlast]; rfl)
    have hp := S.pos_succ hS hvk hvp hn hpos
    subst hp
    have hne : ¬ (n + 1 + 1 = S.nf k) := by simpa [Sender.ufrag, Sender.udataFrag, Sender.dataFrag] using he
    refine ⟨k, n + 1, (msgIdx_succ k (n + 1)).symm, by omega, hk, rfl⟩

/-- ✱ the characterisation: a `B … E` run (as the scan extracts it) made of universe fragments is exactly ALL
fragments of ONE message — never a fragment, never a splice of two messages. -/
theorem beRun_universe (S : Sender) (hS : S.UWF) (σ) {r : List Chunk} (h : BERun r) (ps : List (Nat × Nat))
    (hps : r = ps.map (S.ufrag σ)) (hv : ∀ p ∈ ps, S.Valid p) :
    ∃ k, k < S.msgs.length ∧ ps = msgIdx k (S.nf k) := by
  cases h with
  | single c hb he =>
    have hps' := hps.symm
    rw [List.map_eq_singleton_iff] at hps'
    obtain ⟨p, rfl, rfl⟩ := hps'
    obtain ⟨k, i⟩ := p
    have hvp := hv (k, i) (by simp)
    have hi : i = 0 := by simpa [Sender.ufrag, Sender.udataFrag, Sender.dataFrag] using hb
    subst hi
    have hone : 1 = S.nf k := by simpa [Sender.ufrag, Sender.udataFrag, Sender.dataFrag] using he
    exact ⟨k, hvp.1, by rw [← hone]; simp [msgIdx]⟩
  | close c hr ht he =>
    rename_i r0 last0
    obtain ⟨ps0, p, rfl, hr0, rfl⟩ := map_eq_snoc _ hps
    obtain ⟨k, n, rfl, hn, hk, hlast⟩ := openRun_universe S hS σ hr ps0 hr0 (fun x hx => hv x (by simp [hx]))
    have hvp := hv p (by simp)
    have hvk : S.Valid (k, n) := ⟨hk, by simp only; omega⟩
    have hpos := ufrag_tsn_succ S hS σ hvk hvp (by rw [ht, hlast]; rfl)
    have hp := S.pos_succ hS hvk hvp hn hpos
    subst hp
    have hlast' : n + 1 + 1 = S.nf k := by simpa [Sender.ufrag, Sender.udataFrag, Sender.dataFrag] using he
    exact ⟨k, hk, by rw [← hlast']; exact (msgIdx_succ k (n + 1)).symm⟩

/-! ### the scan finds a message whose fragments are all there -/

theorem scan_run (S : Sender) (σ) (m : Nat) (B : List Chunk) :
    ∀ (n j i s cnt : Nat), 1 ≤ j → j + n = S.nf m → 1 ≤ n →
      scanUnordered ((List.range' j n).map (S.udataFrag σ m) ++ B) i (some s) cnt (S.udataFrag σ m (j - 1)).tsn ≠ none := by
  intro n
  induction n with
  | zero => intro j i s cnt _ _ h; omega
  | succ n ih =>
    intro j i s cnt hj hjn _
    obtain ⟨j0, rfl⟩ : ∃ j0, j = j0 + 1 := ⟨j - 1, by omega⟩
    rw [List.range'_succ, List.map_cons, List.cons_append, scanUnordered]
    have hbf : (S.udataFrag σ m (j0 + 1)).bf = false := by simp [Sender.udataFrag, Sender.dataFrag]
    have htsn : ((S.udataFrag σ m (j0 + 1)).tsn != (S.udataFrag σ m (j0 + 1 - 1)).tsn + 1) = false := by
      simp only [Nat.add_sub_cancel, bne_eq_false_iff_eq]
      exact udataFrag_tsn_next S σ m j0
    simp only [hbf, htsn, Bool.false_eq_true, ↓reduceIte]
    by_cases hn : n = 0
    · have hef : (S.udataFrag σ m (j0 + 1)).ef = true := by
        simp [Sender.udataFrag, Sender.dataFrag]; omega
      simp [hef]
    · have hef : (S.udataFrag σ m (j0 + 1)).ef = false := by
        simp [Sender.udataFrag, Sender.dataFrag]; omega
      simp only [hef, Bool.false_eq_true, ↓reduceIte]
      exact ih (j0 + 1 + 1) (i + 1) s (cnt + 1) (by omega) (by omega) (by omega)

theorem scan_full (S : Sender) (σ) (m : Nat) (hnf : 1 ≤ S.nf m) (B : List Chunk) :
    ∀ i st n last, scanUnordered ((msgIdx m (S.nf m)).map (S.ufrag σ) ++ B) i st n last ≠ none := by
  intro i st n last
  obtain ⟨n0, hn0⟩ : ∃ n0, S.nf m = n0 + 1 := ⟨S.nf m - 1, by omega⟩
  have e : (msgIdx m (S.nf m)).map (S.ufrag σ) = (List.range' 0 (n0 + 1)).map (S.udataFrag σ m) := by
    simp [msgIdx, hn0, List.range_eq_range', Sender.ufrag, Function.comp_def]
  rw [e, List.range'_succ, List.map_cons, List.cons_append]
  have hbf : (S.udataFrag σ m 0).bf = true := by simp [Sender.udataFrag, Sender.dataFrag]
  simp only [scanUnordered, hbf, ↓reduceIte]
  by_cases h1 : n0 = 0
  · have hef : (S.udataFrag σ m 0).ef = true := by simp [Sender.udataFrag, Sender.dataFrag, hn0, h1]
    simp [hef]
  · have hef : (S.udataFrag σ m 0).ef = false := by
      simp [Sender.udataFrag, Sender.dataFrag, hn0]; omega
    simp only [hef, Bool.false_eq_true, ↓reduceIte]
    exact scan_run S σ m B n0 1 (i + 1) i 1 (by omega) (by omega) (by omega)

/-- in a list strictly sorted by TSN offset, fragments `j … j+n-1` of message `m`, if all present and nothing in the
list lies below fragment `j`, are the first `n` elements. -/
theorem sorted_contig (S : Sender) (m : Nat) :
    ∀ (n j : Nat) (T : List (Nat × Nat)), T.Pairwise (fun a b => S.pos a < S.pos b) →
      (∀ p ∈ T, S.base m + j ≤ S.pos p) → (∀ j', j ≤ j' → j' < j + n → (m, j') ∈ T) →
      ∃ B, T = (List.range' j n).map (fun j => (m, j)) ++ B := by
  intro n
  induction n with
  | zero => intro j T _ _ _; exact ⟨T, by simp⟩
  | succ n ih =>
    intro j T hs hlo hall
    have hj := hall j (Nat.le_refl _) (by omega)
    cases T with
    | nil => simp at hj
    | cons h T' =>
      rw [List.pairwise_cons] at hs
      have hh : h = (m, j) := by
        rcases List.mem_cons.1 hj with e | hin
        · exact e.symm
        · have := hs.1 _ hin
          have := hlo h (List.mem_cons_self ..)
          simp only [Sender.pos] at *; omega
      subst hh
      obtain ⟨B, hB⟩ := ih (j + 1) T' hs.2
        (by intro p hp; have := hs.1 p hp; simp only [Sender.pos] at *; omega)
        (by
          intro j' h1 h2
          rcases List.mem_cons.1 (hall j' (by omega) (by omega)) with e | hin
          · simp only [Prod.mk.injEq] at e; omega
          · exact hin)
      exact ⟨B, by rw [List.range'_succ, List.map_cons, List.cons_append, ← hB]⟩

/-- a strictly sorted list that contains every fragment of message `m` has them side by side. -/
theorem sorted_has_all (S : Sender) (m : Nat) (hnf : 1 ≤ S.nf m) (U : List (Nat × Nat))
    (hs : U.Pairwise (fun a b => S.pos a < S.pos b)) (hall : ∀ j, j < S.nf m → (m, j) ∈ U) :
    ∃ A B, U = A ++ msgIdx m (S.nf m) ++ B := by
  obtain ⟨A, T, hU⟩ := List.append_of_mem (hall 0 (by omega))
  subst hU
  rw [List.pairwise_append] at hs
  obtain ⟨hA, hT, hAT⟩ := hs
  have hlow : ∀ a ∈ A, S.pos a < S.base m := by
    intro a ha
    have := hAT a ha (m, 0) (List.mem_cons_self ..)
    simpa [Sender.pos] using this
  obtain ⟨B, hB⟩ := sorted_contig S m (S.nf m) 0 ((m, 0) :: T) hT
    (by
      intro p hp
      rcases List.mem_cons.1 hp with rfl | hin
      · simp [Sender.pos]
      · rw [List.pairwise_cons] at hT
        have := hT.1 p hin
        simp only [Sender.pos] at *; omega)
    (by
      intro j' _ hj'
      rcases List.mem_append.1 (hall j' (by omega)) with hin | hin
      · have := hlow _ hin; simp only [Sender.pos] at this; omega
      · exact hin)
  refine ⟨A, B, ?_⟩
  rw [hB, List.append_assoc]
  simp [msgIdx, List.range_eq_range']

end Reasm
