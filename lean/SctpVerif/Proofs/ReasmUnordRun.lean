import SctpVerif.Proofs.ReasmUnordData
/-!
Helper lemmas for C06 (unordered reassembly), part 4: runs. `HOp` / `deliveries` are those of `Proofs/ReasmOrd.lean`.
-/
set_option linter.unusedVariables false
set_option linter.unusedSimpArgs false
namespace Reasm
open Gen

/-- admissible runs over an unordered universe: valid indices and no fragment handed over twice (the association's
TSN filter, C05). NOTHING else: no window relative to the reader (there is no cursor), any arrival order, any
interleaving with reads, any buffer sizes, loss (fragments never pushed), any entry limit. `P` = pushed so far. -/
def Sender.AdmissibleU (S : Sender) : List (Nat × Nat) → List HOp → Prop
  | _, [] => True
  | P, .push k i :: ops => k < S.msgs.length ∧ i < S.nf k ∧ (k, i) ∉ P ∧ S.AdmissibleU ((k, i) :: P) ops
  | P, .read _ :: ops => S.AdmissibleU P ops

instance Sender.decAdmissibleU (S : Sender) : ∀ P ops, Decidable (S.AdmissibleU P ops)
  | _, [] => isTrue trivial
  | P, .push k i :: ops =>
    have := Sender.decAdmissibleU S ((k, i) :: P) ops
    by unfold Sender.AdmissibleU; exact inferInstance
  | P, .read _ :: ops =>
    have := Sender.decAdmissibleU S P ops
    by unfold Sender.AdmissibleU; exact inferInstance

/-- the queue after a run. -/
def finalQ (frag : Nat → Nat → Chunk) : Q → List HOp → Q
  | q, [] => q
  | q, .push k i :: ops => finalQ frag (q.pushWithError (frag k i)).1 ops
  | q, .read n :: ops => finalQ frag (q.read n).1 ops

/-- the fragments `pushWithError` took without reporting an error (an entry / MID limit refuses with an error). -/
def accepted (frag : Nat → Nat → Chunk) : Q → List HOp → List (Nat × Nat)
  | _, [] => []
  | q, .push k i :: ops =>
    (if (q.pushWithError (frag k i)).2.2 = .none then [(k, i)] else []) ++ accepted frag (q.pushWithError (frag k i)).1 ops
  | q, .read n :: ops => accepted frag (q.read n).1 ops

/-- message `k` as the reader sees it. -/
def Sender.out (S : Sender) (k : Nat) : PPI × List UInt8 := (S.msg k).out

theorem map_out_range (S : Sender) : (List.range S.msgs.length).map S.out = S.msgs.map Msg.out := by
  have : (List.range S.msgs.length).map S.out
      = ((List.range S.msgs.length).map (fun i => S.msgs.getD i default)).map Msg.out := by
    simp [List.map_map, Function.comp_def, Sender.out, Sender.msg]
  rw [this, map_getD_range]

theorem read_nothing (q : Q) (h : q.useInterleaving = false) (hu : q.unordered = []) (ho : q.ordered = []) (n : Nat) :
    q.read n = (q, .tryAgain) := by
  unfold Q.read
  simp [h, hu, ho]

theorem UInv.run {S : Sender} {σ} (hS : S.UWF) (ops : List HOp) :
    ∀ {q D W U P G}, UInv S σ q D W U P G → q.ordered = [] → S.AdmissibleU P ops →
      ∃ D' W' U' P' G', UInv S σ (finalQ (S.udataFrag σ) q ops) (D ++ D') W' U' P' G' ∧
        S.deliveries (S.udataFrag σ) q ops = D'.map S.out ∧
        (∀ p, p ∈ G' ↔ p ∈ G ∨ p ∈ accepted (S.udataFrag σ) q ops) ∧
        (∀ p, p ∈ P' → p ∈ P ∨ HOp.push p.1 p.2 ∈ ops) ∧
        (finalQ (S.udataFrag σ) q ops).ordered = [] := by
  induction ops with
  | nil =>
    intro q D W U P G h ho _
    exact ⟨[], W, U, P, G, by simpa [finalQ] using h, by simp [Sender.deliveries], by simp [accepted],
      fun p hp => .inl hp, by simpa [finalQ] using ho⟩
  | cons op ops ih =>
    intro q D W U P G h ho hadm
    cases op with
    | push k i =>
      simp only [Sender.AdmissibleU] at hadm
      obtain ⟨hk, hi, hP, hrest⟩ := hadm
      obtain ⟨hfr, W1, U1, h1⟩ := h.push hS hk hi hP
      obtain ⟨D', W', U', P', G', h', hdel, hG, hPP, hord⟩ := ih h1 (by rw [hfr.ordered, ho]) hrest
      refine ⟨D', W', U', P', G', by simpa [finalQ] using h', by simpa [Sender.deliveries] using hdel, ?_, ?_,
        by simpa [finalQ] using hord⟩
      · intro p
        rw [hG p]
        simp only [accepted, List.mem_append]
        constructor
        · rintro ((h | h) | h)
          · exact .inr (.inl h)
          · exact .inl h
          · exact .inr (.inr h)
        · rintro (h | h | h)
          · exact .inl (.inr h)
          · exact .inl (.inl h)
          · exact .inr h
      · intro p hp
        rcases hPP p hp with h | h
        · rcases List.mem_cons.1 h with rfl | h
          · exact .inr (List.mem_cons_self ..)
          · exact .inl h
        · exact .inr (List.mem_cons_of_mem _ h)
    | read n =>
      simp only [Sender.AdmissibleU] at hadm
      cases hW : W with
      | nil =>
        have hr := read_nothing q h.il (by rw [h.un, hW]; rfl) ho n
        obtain ⟨D', W', U', P', G', h', hdel, hG, hPP, hord⟩ := ih h ho hadm
        refine ⟨D', W', U', P', G', by simpa [finalQ, hr] using h', ?_, by simpa [accepted, hr] using hG, ?_,
          by simpa [finalQ, hr] using hord⟩
        · simp only [Sender.deliveries, hr, ReadRes.tryAgain, reduceCtorEq, ↓reduceIte, List.nil_append]
          exact hdel
        · intro p hp
          rcases hPP p hp with h | h
          · exact .inl h
          · exact .inr (List.mem_cons_of_mem _ h)
      | cons k W0 =>
        rcases h.read hW n with ⟨herr, hq⟩ | ⟨hok, hppi, hdata, hfr, _, h1⟩
        · obtain ⟨D', W', U', P', G', h', hdel, hG, hPP, hord⟩ := ih h ho hadm
          refine ⟨D', W', U', P', G', by simpa [finalQ, hq] using h', ?_, by simpa [accepted, hq] using hG, ?_,
            by simpa [finalQ, hq] using hord⟩
          · simp only [Sender.deliveries, herr, reduceCtorEq, ↓reduceIte, List.nil_append, hq]
            exact hdel
          · intro p hp
            rcases hPP p hp with h | h
            · exact .inl h
            · exact .inr (List.mem_cons_of_mem _ h)
        · obtain ⟨D', W', U', P', G', h', hdel, hG, hPP, hord⟩ := ih h1 (by rw [hfr.ordered, ho]) hadm
          refine ⟨k :: D', W', U', P', G', by simpa [finalQ] using h', ?_, by simpa [accepted] using hG, ?_,
            by simpa [finalQ] using hord⟩
          · simp only [Sender.deliveries, hok, ↓reduceIte, List.singleton_append, List.map_cons, hdel, hppi, hdata]
            rfl
          · intro p hp
            rcases hPP p hp with h | h
            · exact .inl h
            · exact .inr (List.mem_cons_of_mem _ h)

end Reasm
