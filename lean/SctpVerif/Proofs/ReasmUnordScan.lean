import SctpVerif.Proofs.ReasmOrd
/-!
Helper lemmas for C06 (unordered reassembly), part 1 — universe free: what the scan of
`findCompleteUnorderedChunkSet` extracts from ANY slice. The scan restarts at every B, gives up a run at the
first TSN gap and stops at the first E: what it cuts out is a `BERun` — first chunk B, last chunk E, no E
before the last, every TSN the previous one + 1. (`chunksComplete` alone is weaker: it accepts B…E B…E with
consecutive TSNs, the splice of two adjacent messages; the scan never produces that.)
-/
set_option linter.unusedVariables false
set_option linter.unusedSimpArgs false
namespace Reasm
open Gen

/-- a run in progress: first chunk has B, nobody has E yet, TSNs consecutive; `last` = TSN of the last chunk. -/
inductive OpenRun : List Chunk → BitVec 32 → Prop
  | one (c : Chunk) : c.bf = true → c.ef = false → OpenRun [c] c.tsn
  | snoc {r : List Chunk} {last : BitVec 32} (c : Chunk) :
      OpenRun r last → c.tsn = last + 1 → c.ef = false → OpenRun (r ++ [c]) c.tsn

/-- what the scan extracts: `B … E`, TSN-consecutive, no `E` before the last chunk. -/
inductive BERun : List Chunk → Prop
  | single (c : Chunk) : c.bf = true → c.ef = true → BERun [c]
  | close {r : List Chunk} {last : BitVec 32} (c : Chunk) :
      OpenRun r last → c.tsn = last + 1 → c.ef = true → BERun (r ++ [c])

theorem OpenRun.ne_nil {r last} (h : OpenRun r last) : r ≠ [] := by
  cases h <;> simp

theorem BERun.ne_nil {r} (h : BERun r) : r ≠ [] := by
  cases h <;> simp

/-- soundness of the scan, both loop states (`startIdx < 0` / a run in progress). -/
theorem scan_found (cs : List Chunk) :
    (∀ (pre : List Chunk) (n : Nat) (last : BitVec 32) (s' n' : Nat),
      scanUnordered cs pre.length none n last = some (s', n') →
      ∃ a r b, pre ++ cs = a ++ r ++ b ∧ a.length = s' ∧ r.length = n' ∧ BERun r) ∧
    (∀ (pre r : List Chunk) (last : BitVec 32) (s' n' : Nat), OpenRun r last →
      scanUnordered cs (pre.length + r.length) (some pre.length) r.length last = some (s', n') →
      ∃ a r' b, pre ++ r ++ cs = a ++ r' ++ b ∧ a.length = s' ∧ r'.length = n' ∧ BERun r') := by
  induction cs with
  | nil =>
    exact ⟨by intro _ _ _ _ _ h; simp [scanUnordered] at h, by intro _ _ _ _ _ _ h; simp [scanUnordered] at h⟩
  | cons c cs ih =>
    obtain ⟨ih1, ih2⟩ := ih
    have hB : ∀ (full : List Chunk) (s' n' : Nat), c.bf = true →
        (if c.ef = true then some (full.length, 1)
          else scanUnordered cs (full.length + 1) (some full.length) 1 c.tsn) = some (s', n') →
        ∃ a r b, full ++ c :: cs = a ++ r ++ b ∧ a.length = s' ∧ r.length = n' ∧ BERun r := by
      intro full s' n' hb h
      by_cases he : c.ef = true
      · rw [if_pos he] at h
        cases h
        exact ⟨full, [c], cs, by simp, rfl, rfl, .single c hb he⟩
      · rw [if_neg he] at h
        have := ih2 full [c] c.tsn s' n' (.one c hb (by simpa using he)) (by simpa using h)
        simpa using this
    constructor
    · intro pre n last s' n' h
      simp only [scanUnordered] at h
      by_cases hb : c.bf = true
      · rw [if_pos hb] at h; exact hB pre s' n' hb h
      · rw [if_neg hb] at h
        have := ih1 (pre ++ [c]) n last s' n' (by simpa using h)
        simpa using this
    · intro pre r last s' n' hr h
      simp only [scanUnordered] at h
      by_cases hb : c.bf = true
      · rw [if_pos hb] at h
        have := hB (pre ++ r) s' n' hb (by simpa [List.length_append] using h)
        simpa using this
      · rw [if_neg hb] at h
        by_cases ht : (c.tsn != last + 1) = true
        · rw [if_pos ht] at h
          have := ih1 (pre ++ r ++ [c]) r.length last s' n' (by simpa [Nat.add_assoc] using h)
          simpa using this
        · rw [if_neg ht] at h
          have ht' : c.tsn = last + 1 := by simpa using ht
          by_cases he : c.ef = true
          · rw [if_pos he] at h; cases h
            exact ⟨pre, r ++ [c], cs, by simp, rfl, by simp, .close c hr ht' he⟩
          · rw [if_neg he] at h
            have := ih2 pre (r ++ [c]) c.tsn s' n' (.snoc c hr ht' (by simpa using he))
              (by simpa [Nat.add_assoc] using h)
            simpa using this

/-- `findCompleteUnorderedChunkSet` never panics; it either finds nothing (the scan ran to the end) or cuts a
`BERun` out of the slice, leaving the rest in order; the set's PPI is the first chunk's. -/
theorem findCompleteUnordered_cases (uc : List Chunk) :
    (findCompleteUnorderedChunkSet uc = .notFound ∧ scanUnordered uc 0 none 0 0 = none) ∨
    (∃ a r b c0 tl, uc = a ++ r ++ b ∧ BERun r ∧ r = c0 :: tl ∧
      findCompleteUnorderedChunkSet uc = .found { ssn := 0, ppi := c0.ppi, chunks := r } (a ++ b)) := by
  unfold findCompleteUnorderedChunkSet
  cases hs : scanUnordered uc 0 none 0 0 with
  | none => left; exact ⟨rfl, rfl⟩
  | some sn =>
    obtain ⟨s, n⟩ := sn
    right
    obtain ⟨a, r, b, huc, ha, hr, hrun⟩ := (scan_found uc).1 [] 0 0 s n (by simpa using hs)
    simp only [List.nil_append] at huc
    have h1 : (uc.drop s).take n = r := by
      rw [huc, List.append_assoc, List.drop_left' ha, List.take_left' hr]
    have h2 : uc.take s = a := by rw [huc, List.append_assoc, List.take_left' ha]
    have h3 : uc.drop (s + n) = b := by
      rw [huc]; exact List.drop_left' (by simp [ha, hr])
    cases hrc : r with
    | nil => exact absurd hrc hrun.ne_nil
    | cons c0 tl =>
      refine ⟨a, r, b, c0, tl, huc, hrun, hrc, ?_⟩
      simp only [h1, h2, h3]
      rw [hrc]

/-! ### completeness of the scan (structural part): a slice that contains a `B … E` run of the shape below somewhere
is never scanned to the end -/

theorem scan_skip_prefix (A R : List Chunk) (hR : ∀ i st n last, scanUnordered R i st n last ≠ none) :
    ∀ i st n last, scanUnordered (A ++ R) i st n last ≠ none := by
  induction A with
  | nil => simpa using hR
  | cons c A ih =>
    intro i st n last
    simp only [List.cons_append, scanUnordered]
    cases st with
    | none =>
      simp only
      split
      · split
        · simp
        · exact ih _ _ _ _
      · exact ih _ _ _ _
    | some s =>
      simp only
      split
      · split
        · simp
        · exact ih _ _ _ _
      · split
        · exact ih _ _ _ _
        · split
          · simp
          · exact ih _ _ _ _

end Reasm
