import SctpVerif.Proofs.ReasmFwdTab
/-!
Helper lemmas for C07 (receiver reassembly under skips), part 3: honest runs WITH skips, ordered DATA.

The op alphabet of `Proofs/ReasmOrd.lean` (`push k i`, `read n`) is extended with `skip L`: the stream's
entry of a FORWARD-TSN, i.e. `forwardTSNForOrdered (L mod 2^16)`. The refinement invariant `SkipInv`
replaces `OrdInv`: the cursor `c` (unwrapped `nextSSN`) may stand above complete sets that are still
held; the window is anchored at the floor `f` (oldest message held or waited for).
-/
set_option linter.unusedVariables false
set_option linter.unusedSimpArgs false
namespace Reasm
open Gen

/-! ### the fields of the state after `forwardTSNForOrdered` -/

theorem fwdO_ordered (q : Q) (L : BitVec 16) :
    (q.forwardTSNForOrdered L).ordered = q.ordered.filter (fun s => !purgedO L s) := by
  simp only [Q.forwardTSNForOrdered]; exact fwdOrderedLoop_keep ..

theorem fwdO_nextSSN (q : Q) (L : BitVec 16) :
    (q.forwardTSNForOrdered L).nextSSN = if sna16LTE q.nextSSN L then L + 1 else q.nextSSN := by
  simp only [Q.forwardTSNForOrdered]

theorem fwdO_nBytes (q : Q) (L : BitVec 16) :
    (q.forwardTSNForOrdered L).nBytes = (fwdOrderedLoop L q.ordered q.nBytes).1 := by
  simp only [Q.forwardTSNForOrdered]

theorem fwdO_rest (q : Q) (L : BitVec 16) :
    (q.forwardTSNForOrdered L).si = q.si ∧ (q.forwardTSNForOrdered L).useInterleaving = q.useInterleaving ∧
    (q.forwardTSNForOrdered L).unordered = q.unordered ∧
    (q.forwardTSNForOrdered L).unorderedChunks = q.unorderedChunks ∧
    (q.forwardTSNForOrdered L).orderedMID = q.orderedMID ∧ (q.forwardTSNForOrdered L).unorderedMID = q.unorderedMID ∧
    (q.forwardTSNForOrdered L).unorderedMIDMap = q.unorderedMIDMap ∧ (q.forwardTSNForOrdered L).nextMID = q.nextMID ∧
    (q.forwardTSNForOrdered L).maxEntries = q.maxEntries := by
  simp only [Q.forwardTSNForOrdered, and_self]

/-! ### ops, framings, runs -/

/-- what an honest peer + network + application can do to the queue of one stream when messages may
be abandoned: deliver fragment `i` of message `k`, read with a buffer of `buflen` bytes, or deliver a
FORWARD-TSN whose entry for this stream names message `L` (the largest abandoned one it covers). -/
inductive SOp
  | push (k i : Nat)
  | read (buflen : Nat)
  | skip (L : Nat)
deriving Repr

/-- DATA (SSN) or I-DATA (MID): how a fragment looks, which handler a skip calls, the raw delivery
cursor (only compared for equality), the unwrapped floor, the half-space window. -/
structure Framing where
  frag : Nat → Nat → Chunk
  fwd : Q → Nat → Q
  cursor : Q → Nat
  floor : Q → Nat → Nat → Nat
  W : Nat

def Framing.step (F : Framing) (q : Q) : SOp → Q
  | .push k i => (q.pushWithError (F.frag k i)).1
  | .read n => (q.read n).1
  | .skip L => F.fwd q L

def Framing.run (F : Framing) (q : Q) (ops : List SOp) : Q := ops.foldl F.step q

/-- the `(PPI, payload)` pairs returned by the successful reads of a run, in order. -/
def Framing.deliveries (F : Framing) : Q → List SOp → List (PPI × List UInt8)
  | _, [] => []
  | q, .push k i :: ops => F.deliveries (q.pushWithError (F.frag k i)).1 ops
  | q, .read n :: ops =>
    (if (q.read n).2.err = .ok then [((q.read n).2.ppi, (q.read n).2.data)] else []) ++
      F.deliveries (q.read n).1 ops
  | q, .skip L :: ops => F.deliveries (F.fwd q L) ops

/-- the fragments handed over in a run / the skip points of a run. -/
def pushedS : List SOp → List (Nat × Nat)
  | [] => []
  | .push k i :: ops => (k, i) :: pushedS ops
  | _ :: ops => pushedS ops

def skipsS : List SOp → List Nat
  | [] => []
  | .skip L :: ops => L :: skipsS ops
  | _ :: ops => skipsS ops

/-- the oldest message the queue still holds or waits for, unwrapped relative to the previous floor `f`
(`c` = unwrapped cursor): the smaller of the cursor and the SSN of the first set held. -/
def Q.floorSSN (q : Q) (f c : Nat) : Nat :=
  match q.ordered with
  | [] => c
  | s :: _ => min c (f + (s.ssn - BitVec.ofNat 16 f).toNat)

def Sender.dataFr (S : Sender) : Framing :=
  { frag := S.dataFrag, fwd := fun q L => q.forwardTSNForOrdered (BitVec.ofNat 16 L),
    cursor := fun q => q.nextSSN.toNat, floor := Q.floorSSN, W := 2^15 }

/-- the honest-sender premise of `skip L`, executable: every message up to `L` that is not abandoned has been
handed over completely. -/
def Sender.allPushed (S : Sender) (K : Nat → Bool) (P : List (Nat × Nat)) (L : Nat) : Bool :=
  (List.range (L + 1)).all fun k => K k || (List.range (S.nf k)).all fun i => P.contains (k, i)

theorem Sender.allPushed_iff (S : Sender) (K : Nat → Bool) (P : List (Nat × Nat)) (L : Nat) :
    S.allPushed K P L = true ↔ ∀ k, k < L + 1 → K k = false → ∀ i, i < S.nf k → (k, i) ∈ P := by
  simp only [Sender.allPushed, List.all_eq_true, List.mem_range, Bool.or_eq_true, List.contains_iff_mem]
  constructor
  · intro h k hk hK i hi
    rcases h k hk with h | h
    · rw [hK] at h; cases h
    · exact h i hi
  · intro h k hk
    cases hK : K k with
    | true => exact .inl rfl
    | false => exact .inr (fun i hi => h k hk hK i hi)

/-- admissible runs of an honest sender that abandons the messages `K` (and only those).
Ghost state: `f` floor (oldest message held or waited for), `c` unwrapped cursor, `P` fragments pushed so far.
* `push k i`: valid indices; no fragment handed over twice (TSN filter, C05); the message is fewer than `W`
  ahead of the floor and — if it is a late fragment of a message the cursor has passed — fewer than `W`
  behind the cursor; the push does not hit the entry limit `maxEntries` (a chunk rejected by the limit is
  lost whatever the skips do).
* `read n`: any buffer size. The cursor moved iff the raw cursor changed; the floor is recomputed.
* `skip L`: `L` is a message of the stream inside the window, and — the honest-sender premise — every
  message up to `L` that is NOT abandoned has been handed over completely (a FORWARD-TSN moves the
  cumulative point only over abandoned chunks, so everything else below it has been received).
  `K L` itself is not required (a skip naming a complete message is harmless), stale skips (`L < c`) are allowed. -/
def Sender.AdmissibleS (S : Sender) (K : Nat → Bool) (F : Framing) :
    Q → Nat → Nat → List (Nat × Nat) → List SOp → Prop
  | _, _, _, _, [] => True
  | q, f, c, P, .push k i :: ops =>
      k < S.msgs.length ∧ i < S.nf k ∧ (k, i) ∉ P ∧ k < f + F.W ∧ c < k + F.W ∧
      (q.pushWithError (F.frag k i)).2.2 = Err.none ∧
      S.AdmissibleS K F (q.pushWithError (F.frag k i)).1 f c ((k, i) :: P) ops
  | q, f, c, P, .read n :: ops =>
      S.AdmissibleS K F (q.read n).1
        (F.floor (q.read n).1 f (if F.cursor (q.read n).1 = F.cursor q then c else c + 1))
        (if F.cursor (q.read n).1 = F.cursor q then c else c + 1) P ops
  | q, f, c, P, .skip L :: ops =>
      L < S.msgs.length ∧ f ≤ L ∧ L + 1 < f + F.W ∧
      S.allPushed K P L = true ∧
      S.AdmissibleS K F (F.fwd q L) (F.floor (F.fwd q L) f (max c (L + 1))) (max c (L + 1)) P ops

instance Sender.decAdmissibleS (S : Sender) (K : Nat → Bool) (F : Framing) :
    ∀ q f c P ops, Decidable (S.AdmissibleS K F q f c P ops)
  | _, _, _, _, [] => isTrue trivial
  | q, f, c, P, .push k i :: ops =>
    have := Sender.decAdmissibleS S K F (q.pushWithError (F.frag k i)).1 f c ((k, i) :: P) ops
    by unfold Sender.AdmissibleS; exact inferInstance
  | q, f, c, P, .read n :: ops =>
    have := Sender.decAdmissibleS S K F (q.read n).1
        (F.floor (q.read n).1 f (if F.cursor (q.read n).1 = F.cursor q then c else c + 1))
        (if F.cursor (q.read n).1 = F.cursor q then c else c + 1) P ops
    by unfold Sender.AdmissibleS; exact inferInstance
  | q, f, c, P, .skip L :: ops =>
    have := Sender.decAdmissibleS S K F (F.fwd q L) (F.floor (F.fwd q L) f (max c (L + 1))) (max c (L + 1)) P ops
    by unfold Sender.AdmissibleS; exact inferInstance

/-! ### the refinement invariant -/

/-- `f` floor, `c` cursor, `A` table held, `P` fragments pushed, `D` messages delivered (in order). -/
structure SkipInv (S : Sender) (K : Nat → Bool) (q : Q) (f c : Nat) (A : Tab) (P : List (Nat × Nat))
    (D : List Nat) : Prop where
  si : q.si = S.si
  il : q.useInterleaving = false
  un : q.unordered = []
  cur : q.nextSSN = BitVec.ofNat 16 c
  tab : TabInv S q.ordered f A
  fc : f ≤ c ∧ c < f + 2^15
  pushed : ∀ e ∈ A, ∀ j ∈ e.2, (e.1, j) ∈ P
  /-- sets the cursor has passed are complete (they survived a skip) -/
  below : ∀ e ∈ A, e.1 < c → e.2 = List.range (S.nf e.1)
  /-- messages the cursor has passed are abandoned or were handed over completely -/
  done : ∀ k, k < c → K k = false → ∀ i, i < S.nf k → (k, i) ∈ P
  dsorted : D.Pairwise (· < ·)
  dlt : ∀ k ∈ D, k < c ∧ k < S.msgs.length ∧ ∀ e ∈ A, k < e.1
  /-- nothing of a message that is not abandoned is ever dropped: until it is delivered every fragment handed
  over sits in the table -/
  held : ∀ k, K k = false → k ∉ D → ∀ i, (k, i) ∈ P → ∃ js, (k, js) ∈ A ∧ i ∈ js

theorem SkipInv_new (S : Sender) (K : Nat → Bool) (me : BitVec 32) : SkipInv S K (new S.si me) 0 0 [] [] [] := by
  refine { si := rfl, il := rfl, un := rfl, cur := rfl, tab := ?_, fc := by omega, pushed := by simp,
           below := by simp, done := by simp, dsorted := List.Pairwise.nil, dlt := by simp, held := by simp }
  exact { ord := rfl, sorted := List.Pairwise.nil, win := by simp, wf := by simp }

/-- the floor can be raised to any sound value. -/
theorem SkipInv.raise {S K q f c A P D} (h : SkipInv S K q f c A P D) (f' : Nat) (hff : f ≤ f') (hfc : f' ≤ c)
    (hle : ∀ e ∈ A, f' ≤ e.1) : SkipInv S K q f' c A P D :=
  { h with tab := h.tab.raise f' hff hle, fc := ⟨hfc, by have := h.fc; omega⟩ }

theorem floorSSN_spec {S : Sender} {q : Q} {f c : Nat} {A : Tab} (h : TabInv S q.ordered f A) (hfc : f ≤ c) :
    f ≤ q.floorSSN f c ∧ q.floorSSN f c ≤ c ∧ (∀ e ∈ A, q.floorSSN f c ≤ e.1) ∧
    (q.floorSSN f c = c ∨ ∃ e ∈ A, q.floorSSN f c = e.1) := by
  unfold Q.floorSSN
  cases hA : A with
  | nil =>
    have : q.ordered = [] := by rw [h.ord, hA]; rfl
    rw [this]
    exact ⟨hfc, Nat.le_refl _, by simp, .inl rfl⟩
  | cons e rest =>
    have ho : q.ordered = S.concSet e :: rest.map S.concSet := by rw [h.ord, hA]; rfl
    rw [ho]
    have hw := h.win e (by rw [hA]; exact List.mem_cons_self ..)
    have hs := h.sorted
    rw [hA, List.pairwise_cons] at hs
    have hsub : ((S.concSet e).ssn - BitVec.ofNat 16 f).toNat = e.1 - f := by
      show (BitVec.ofNat 16 e.1 - BitVec.ofNat 16 f).toNat = _
      rw [ofNat16_sub f e.1 hw.1]; omega
    simp only [hsub]
    have e1 : f + (e.1 - f) = e.1 := by omega
    rw [e1]
    refine ⟨by omega, by omega, ?_, ?_⟩
    · intro x hx
      rcases List.mem_cons.1 hx with rfl | hx
      · omega
      · have := hs.1 x hx; omega
    · rcases Nat.le_total c e.1 with hle | hle
      · left; omega
      · right; exact ⟨e, List.mem_cons_self .., by omega⟩

theorem SkipInv.refloor {S K q f c A P D} (h : SkipInv S K q f c A P D) :
    SkipInv S K q (q.floorSSN f c) c A P D := by
  obtain ⟨h1, h2, h3, _⟩ := floorSSN_spec h.tab h.fc.1
  exact h.raise _ h1 h2 h3

/-- a fragment that is dropped at the door (late fragment of an abandoned message). -/
theorem SkipInv.late {S K q f c A P D} (h : SkipInv S K q f c A P D) {k i : Nat} (hK : K k = true) :
    SkipInv S K q f c A ((k, i) :: P) D :=
  { h with pushed := fun e he j hj => List.mem_cons_of_mem _ (h.pushed e he j hj),
           done := fun k' hk' hK' i' hi' => List.mem_cons_of_mem _ (h.done k' hk' hK' i' hi'),
           held := by
             intro k0 hK0 hD0 i0 hi0
             rcases List.mem_cons.1 hi0 with e | hi0
             · have : k0 = k := (Prod.mk.inj e).1
               rw [this, hK] at hK0; cases hK0
             · exact h.held k0 hK0 hD0 i0 hi0 }

/-- the state after an accepted push of fragment `i` of message `k ≥ c`, given how the table changed. -/
theorem SkipInv.afterPush {S K q f c A P D} (h : SkipInv S K q f c A P D) {k i : Nat} (hck : c ≤ k) (q' : Q) (A' : Tab)
    (hsi : q'.si = q.si) (hil : q'.useInterleaving = q.useInterleaving) (hun : q'.unordered = q.unordered)
    (hcur : q'.nextSSN = q.nextSSN) (htab : TabInv S q'.ordered f A')
    (m1 : ∀ e ∈ A', e ∈ A ∨ (e.1 = k ∧ ∀ j ∈ e.2, j = i ∨ ∃ js, (k, js) ∈ A ∧ j ∈ js))
    (m2 : ∀ e ∈ A, e.1 ≠ k → e ∈ A')
    (m3 : ∃ js', (k, js') ∈ A' ∧ i ∈ js' ∧ ∀ js, (k, js) ∈ A → ∀ j ∈ js, j ∈ js') :
    SkipInv S K q' f c A' ((k, i) :: P) D := by
  refine { si := by rw [hsi, h.si], il := by rw [hil, h.il], un := by rw [hun, h.un], cur := by rw [hcur, h.cur],
           tab := htab, fc := h.fc, pushed := ?_, below := ?_,
           done := fun k' hk' hK' i' hi' => List.mem_cons_of_mem _ (h.done k' hk' hK' i' hi'),
           dsorted := h.dsorted, dlt := ?_, held := ?_ }
  · intro e he j hj
    rcases m1 e he with he | ⟨hek, hjs⟩
    · exact List.mem_cons_of_mem _ (h.pushed e he j hj)
    · rcases hjs j hj with rfl | ⟨js, hjs, hjj⟩
      · rw [hek]; exact List.mem_cons_self ..
      · rw [hek]; exact List.mem_cons_of_mem _ (h.pushed _ hjs j hjj)
  · intro e he hec
    rcases m1 e he with he | ⟨hek, _⟩
    · exact h.below e he hec
    · omega
  · intro k0 hk0
    obtain ⟨a, b, d⟩ := h.dlt k0 hk0
    refine ⟨a, b, ?_⟩
    intro e he
    rcases m1 e he with he | ⟨hek, _⟩
    · exact d e he
    · omega
  · intro k0 hK0 hD0 i0 hi0
    obtain ⟨js', hjs', hi', hsup⟩ := m3
    rcases List.mem_cons.1 hi0 with e | hi0
    · obtain ⟨rfl, rfl⟩ := Prod.mk.inj e
      exact ⟨js', hjs', hi'⟩
    · obtain ⟨js0, hjs0, hij0⟩ := h.held k0 hK0 hD0 i0 hi0
      by_cases hkk : k0 = k
      · subst hkk
        exact ⟨js', hjs', hsup js0 hjs0 i0 hij0⟩
      · exact ⟨js0, m2 _ hjs0 hkk, hij0⟩

theorem SkipInv.push {S K q f c A P D} (h : SkipInv S K q f c A P D) (hS : S.WF) {k i : Nat}
    (hk : k < S.msgs.length) (hi : i < S.nf k) (hP : (k, i) ∉ P) (hw : k < f + 2^15) (hlate : c < k + 2^15)
    (hok : (q.pushWithError (S.dataFrag k i)).2.2 = Err.none) :
    ∃ A', SkipInv S K (q.pushWithError (S.dataFrag k i)).1 f c A' ((k, i) :: P) D := by
  have hnf := S.nf_pos hS hk
  have c1 : (S.dataFrag k i).iData = false := rfl
  have c2 : ((S.dataFrag k i).si != q.si) = false := by simp [Sender.dataFrag, h.si]
  have c3 : (S.dataFrag k i).unordered = false := rfl
  have c5 : (S.dataFrag k i).ssn = BitVec.ofNat 16 k := rfl
  have hfc := h.fc
  rcases Nat.lt_or_ge k c with hkc | hck
  · -- late fragment of a message the cursor has passed: dropped at the door
    have hKk : K k = true := by
      cases hK : K k with
      | true => rfl
      | false => exact absurd (h.done k hkc hK i hi) hP
    have hq : (q.pushWithError (S.dataFrag k i)).1 = q := by
      unfold Q.pushWithError
      have c4 : sna16LT (BitVec.ofNat 16 k) q.nextSSN = true := by
        rw [h.cur, sna16LT_ofNat _ _ (by omega) (by omega)]; simp; omega
      simp only [c1, c2, c3, c4, c5, Bool.false_eq_true, ↓reduceIte]
    rw [hq]
    exact ⟨A, h.late hKk⟩
  · have hfk : f ≤ k := by omega
    have hwinA : ∀ e ∈ A, e.1 < k + 2^15 ∧ k < e.1 + 2^15 := fun e he => by
      have := h.tab.win e he; omega
    have hwfA : ∀ e ∈ A, e.2 ≠ [] ∧ ∀ j ∈ e.2, j < S.nf e.1 := fun e he =>
      ⟨(h.tab.wf e he).1, (h.tab.wf e he).2.2⟩
    have c4 : sna16LT (BitVec.ofNat 16 k) q.nextSSN = false := by
      rw [h.cur, sna16LT_ofNat _ _ (by omega) (by omega)]; simp; omega
    -- the new-set path, shared by the unfragmented and the fragmented case
    have hnew : (∀ e ∈ A, e.1 ≠ k) → ∀ q' : Q, q'.si = q.si → q'.useInterleaving = q.useInterleaving →
        q'.unordered = q.unordered → q'.nextSSN = q.nextSSN →
        q'.ordered = sortChunksBySSN (q.ordered ++
          [((newChunkSet (S.dataFrag k i).ssn (S.dataFrag k i).ppi).pushNoDuplicate (S.dataFrag k i)).1]) →
        ∃ A', SkipInv S K q' f c A' ((k, i) :: P) D := by
      intro hfresh q' a b d e g
      obtain ⟨A', htab, hmem⟩ := h.tab.newSet hk hi hfk hw hfresh
      rw [← g] at htab
      refine ⟨A', h.afterPush hck q' A' a b d e htab ?_ ?_ ?_⟩
      · intro x hx
        rcases (hmem x).1 hx with hx | rfl
        · exact .inl hx
        · exact .inr ⟨rfl, fun j hj => .inl (by simpa using hj)⟩
      · intro x hx _; exact (hmem x).2 (.inl hx)
      · exact ⟨[i], (hmem _).2 (.inr rfl), by simp, fun js hjs => absurd rfl (hfresh _ hjs)⟩
    unfold Q.pushWithError at hok ⊢
    simp only [c1, c2, c3, c4, c5, Bool.false_eq_true, ↓reduceIte] at hok ⊢
    rw [dataFrag_isFragmented S k i hi, h.tab.ord] at hok ⊢
    by_cases hone : S.nf k = 1
    · simp only [hone, decide_true, Bool.not_true, Bool.false_eq_true, ↓reduceIte] at hok ⊢
      have hfresh : ∀ e ∈ A, e.1 ≠ k := by
        intro e he hek
        obtain ⟨hne, _, hlt⟩ := h.tab.wf e he
        cases hjs : e.2 with
        | nil => exact hne hjs
        | cons j0 tl =>
          have hj0 : j0 ∈ e.2 := by rw [hjs]; exact List.mem_cons_self ..
          have := hlt j0 hj0
          rw [hek, hone] at this
          have hi0 : i = 0 := by omega
          have hj00 : j0 = 0 := by omega
          have := h.pushed e he j0 hj0
          rw [hek, hj00, ← hi0] at this
          exact hP this
      by_cases hlim : (q.hasDataLimit && q.isDataLimitReached q.orderedDataEntryCount) = true
      · simp only [hlim, ↓reduceIte] at hok; cases hok
      · simp only [hlim, Bool.false_eq_true, ↓reduceIte]
        exact hnew hfresh _ rfl rfl rfl rfl (by rw [h.tab.ord]; rfl)
    · simp only [hone, decide_false, Bool.not_false, ↓reduceIte] at hok ⊢
      rcases findFragSet_conc S k hone A hwinA hwfA with ⟨hfresh, hnf'⟩ | ⟨pre, js, post, hA, hfound⟩
      · rw [hnf'] at hok ⊢
        simp only at hok ⊢
        by_cases hlim : (q.hasDataLimit && q.isDataLimitReached q.orderedDataEntryCount) = true
        · simp only [hlim, ↓reduceIte] at hok; cases hok
        · simp only [hlim, Bool.false_eq_true, ↓reduceIte]
          exact hnew hfresh _ rfl rfl rfl rfl (by rw [h.tab.ord]; rfl)
      · rw [hfound] at hok ⊢
        simp only at hok ⊢
        have hin : (k, js) ∈ A := by rw [hA]; simp
        have hnotin : i ∉ js := fun hij => hP (h.pushed _ hin i hij)
        have hwf := h.tab.wf _ hin
        have hno : (S.concSet (k, js)).hasTSN (S.dataFrag k i).tsn = false := by
          simp only [ChunkSet.hasTSN, Sender.concSet, List.any_map, List.any_eq_false, Function.comp]
          intro j hj
          simp only [beq_iff_eq]
          intro heq
          have hj' := hwf.2.2 j hj
          simp only at hj'
          have := dataFrag_tsn_inj S k j i (by omega) (by omega) heq
          exact hnotin (this ▸ hj)
        rw [hno] at hok ⊢
        simp only [Bool.false_eq_true, ↓reduceIte] at hok ⊢
        by_cases hlim : (q.hasDataLimit && q.isDataLimitReached q.orderedDataEntryCount) = true
        · simp only [hlim, ↓reduceIte] at hok; cases hok
        · simp only [hlim, Bool.false_eq_true, ↓reduceIte]
          have htab0 := h.tab
          rw [hA] at htab0
          obtain ⟨js', htab, hmem⟩ := htab0.intoSet hS hk hi hnotin
          have hun : ∀ js0, (k, js0) ∈ A → js0 = js := fun js0 h0 => h.tab.unique h0 hin
          refine ⟨pre ++ (k, js') :: post, h.afterPush hck _ _ rfl rfl rfl rfl htab ?_ ?_ ?_⟩
          · intro x hx
            simp only [List.mem_append, List.mem_cons] at hx
            rcases hx with hx | rfl | hx
            · left; rw [hA]; simp [hx]
            · right
              refine ⟨rfl, fun j hj => ?_⟩
              rcases (hmem j).1 hj with hj | rfl
              · exact .inr ⟨js, hin, hj⟩
              · exact .inl rfl
            · left; rw [hA]; simp [hx]
          · intro x hx hxk
            rw [hA] at hx
            simp only [List.mem_append, List.mem_cons] at hx ⊢
            rcases hx with hx | rfl | hx
            · exact .inl hx
            · exact absurd rfl hxk
            · exact .inr (.inr hx)
          · refine ⟨js', by simp, (hmem i).2 (.inr rfl), ?_⟩
            intro js0 h0 j hj
            rw [hun js0 h0] at hj
            exact (hmem j).2 (.inl hj)

end Reasm
