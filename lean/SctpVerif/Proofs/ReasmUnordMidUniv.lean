import SctpVerif.Proofs.ReasmUnordRun
/-!
Helper lemmas for C06 (unordered reassembly), part 5: the universe of UNORDERED I-DATA fragments (MID = message
index in the unordered MID space, FSN = fragment index, TSNs arbitrary), completeness of a `chunkSetMID`, and what
`pushUnorderedIData` does to the MID map (association list) in terms of a table of fragment indices.
-/
set_option linter.unusedVariables false
set_option linter.unusedSimpArgs false
namespace Reasm
open Gen

/-- unordered I-DATA fragment `i` of message `k`: as `idataFrag` with the U flag. -/
def Sender.uidataFrag (S : Sender) (τ : Nat → Nat → BitVec 32) (k i : Nat) : Chunk :=
  { S.idataFrag τ k i with unordered := true }

/-- a set of the unordered MID map / of `unorderedMID` holding fragments `e.2` of message `e.1`. -/
def Sender.usetMID (S : Sender) (τ : Nat → Nat → BitVec 32) (e : Nat × List Nat) : ChunkSetMID :=
  { mid := BitVec.ofNat 32 e.1, ppi := if 0 ∈ e.2 then (S.msg e.1).ppi else 0,
    chunks := e.2.map (S.uidataFrag τ e.1) }

/-- universe hypothesis for unordered I-DATA: messages well formed, at most 2^31 messages (one half-space window of
the unordered MID space; there is no cursor a sliding window could be anchored at). -/
structure Sender.UMWF (S : Sender) : Prop where
  wf : S.WF
  span : S.msgs.length ≤ 2^31

theorem ufsnContig_range (S : Sender) (τ) (k N : Nat) (hN : N < 2^31) (i : Nat) (js : List Nat)
    (hi : i < N) (hjs : ∀ j ∈ js, j < N)
    (h : fsnContig (S.uidataFrag τ k i).fsn (js.map (S.uidataFrag τ k)) = true) :
    js = List.range' (i + 1) js.length := by
  induction js generalizing i with
  | nil => rfl
  | cons j rest ih =>
    simp only [List.map_cons, fsnContig] at h
    split at h
    · cases h
    · rename_i hne
      simp only [bne_iff_ne, ne_eq, Decidable.not_not] at hne
      have hjN := hjs j (List.mem_cons_self ..)
      have hj : j = i + 1 := by
        simp only [Sender.uidataFrag, Sender.idataFrag] at hne
        have h' : BitVec.ofNat 32 j = BitVec.ofNat 32 (i + 1) := by
          rw [hne, BitVec.ofNat_add]; rfl
        exact (ofNat32_eq_iff _ _ (by omega) (by omega)).1 h'
      subst hj
      have := ih (i + 1) hjN (fun x hx => hjs x (List.mem_cons_of_mem _ hx)) h
      simp only [List.length_cons, List.range'_succ]
      rw [← this]

theorem ucompleteMID_imp_all (S : Sender) (τ) (k : Nat) (js : List Nat) (hnf : S.nf k < 2^31)
    (hjs : ∀ j ∈ js, j < S.nf k)
    (h : chunksCompleteMID (js.map (S.uidataFrag τ k)) = true) : js = List.range (S.nf k) := by
  cases js with
  | nil => simp [chunksCompleteMID] at h
  | cons j0 rest =>
    simp only [List.map_cons, chunksCompleteMID] at h
    split at h
    · cases h
    · rename_i hb
      split at h
      · cases h
      · rename_i he
        split at h
        · cases h
        · have hb' : j0 = 0 := by simpa [Sender.uidataFrag, Sender.idataFrag] using hb
          subst hb'
          have hc := ufsnContig_range S τ k (S.nf k) hnf 0 rest (hjs 0 (List.mem_cons_self ..))
            (fun j hj => hjs j (List.mem_cons_of_mem _ hj)) h
          have e : S.uidataFrag τ k 0 :: rest.map (S.uidataFrag τ k)
              = (List.range' 0 (rest.length + 1)).map (S.uidataFrag τ k) := by
            rw [List.range'_succ, List.map_cons, ← hc]
          have hlast : ((S.uidataFrag τ k 0 :: rest.map (S.uidataFrag τ k)).getLast (List.cons_ne_nil _ _)).ef = true := by
            simpa using he
          simp only [e] at hlast
          rw [getLast_map_range'] at hlast
          have hef : rest.length + 1 = S.nf k := by simpa [Sender.uidataFrag, Sender.idataFrag] using hlast
          rw [List.range_eq_range', ← hef, List.range'_succ, ← hc]

theorem ufsnContig_of_range (S : Sender) (τ) (k i n : Nat) :
    fsnContig (S.uidataFrag τ k i).fsn ((List.range' (i + 1) n).map (S.uidataFrag τ k)) = true := by
  induction n generalizing i with
  | zero => simp [fsnContig]
  | succ n ih =>
    rw [List.range'_succ, List.map_cons, fsnContig]
    have : ((S.uidataFrag τ k (i + 1)).fsn != (S.uidataFrag τ k i).fsn + 1) = false := by
      simp only [Sender.uidataFrag, Sender.idataFrag, bne_eq_false_iff_eq]
      rw [BitVec.ofNat_add]; rfl
    simp only [this, Bool.false_eq_true, ↓reduceIte]
    exact ih (i + 1)

theorem all_imp_ucompleteMID (S : Sender) (τ) (k : Nat) (hnf : 1 ≤ S.nf k) :
    chunksCompleteMID ((List.range (S.nf k)).map (S.uidataFrag τ k)) = true := by
  obtain ⟨n, hn⟩ : ∃ n, S.nf k = n + 1 := ⟨S.nf k - 1, by omega⟩
  rw [List.range_eq_range', hn, List.range'_succ, List.map_cons, chunksCompleteMID]
  have h1 : (!(S.uidataFrag τ k 0).bf) = false := by simp [Sender.uidataFrag, Sender.idataFrag]
  have h2 : (!((S.uidataFrag τ k 0 :: (List.range' (0 + 1) n).map (S.uidataFrag τ k)).getLast (List.cons_ne_nil _ _)).ef) = false := by
    have e : S.uidataFrag τ k 0 :: (List.range' (0 + 1) n).map (S.uidataFrag τ k)
        = (List.range' 0 (n + 1)).map (S.uidataFrag τ k) := by
      rw [List.range'_succ, List.map_cons]
    simp only [e]
    rw [getLast_map_range']
    simp [Sender.uidataFrag, Sender.idataFrag, hn]
  have h3 : ((S.uidataFrag τ k 0).fsn != 0) = false := by simp [Sender.uidataFrag, Sender.idataFrag]
  simp only [h1, h2, h3, Bool.false_eq_true, ↓reduceIte]
  exact ufsnContig_of_range S τ k 0 n

/-- `chunkSetMID.isComplete` on unordered fragments of message `k`: complete iff exactly all of them. -/
theorem ucompleteMID_iff (S : Sender) (hS : S.WF) (τ) (k : Nat) (hk : k < S.msgs.length) (js : List Nat)
    (hjs : ∀ j ∈ js, j < S.nf k) :
    chunksCompleteMID (js.map (S.uidataFrag τ k)) = true ↔ js = List.range (S.nf k) := by
  have hnf := S.nf_pos hS hk
  constructor
  · exact ucompleteMID_imp_all S τ k js hnf.2 hjs
  · intro h; rw [h]; exact all_imp_ucompleteMID S τ k hnf.1

theorem uidataFrags_payload (S : Sender) (τ) (k : Nat) :
    (((List.range (S.nf k)).map (S.uidataFrag τ k)).map (·.userData)).flatten = (S.msg k).payload := by
  rw [← idataFrags_payload S τ k]
  simp [List.map_map, Function.comp_def, Sender.uidataFrag]

theorem usortFSN_conc (S : Sender) (τ) (k : Nat) (js : List Nat) (h : ∀ j ∈ js, j < 2^31) :
    sortChunksByFSN (js.map (S.uidataFrag τ k)) = (goSort (fun a b => decide (a < b)) js).map (S.uidataFrag τ k) := by
  unfold sortChunksByFSN
  apply goSort_map
  intro a ha b hb
  have := h a ha; have := h b hb
  simp only [Sender.uidataFrag, Sender.idataFrag]
  exact sna32LT_ofNat _ _ (by omega) (by omega)

/-- pushing fragment `i` into a (possibly empty) incomplete set holding fragments `js ∌ i` of message `k`. -/
theorem upushAndCheck_conc (S : Sender) (τ) (k i : Nat) (js : List Nat) (s : ChunkSetMID)
    (hch : s.chunks = js.map (S.uidataFrag τ k)) (hinc : s.isComplete = false)
    (hjs : ∀ j ∈ js, j < 2^31) (hi : i < 2^31) (hnotin : i ∉ js) :
    s.pushAndCheck (S.uidataFrag τ k i) =
      ({ mid := s.mid, ppi := if i = 0 then (S.msg k).ppi else s.ppi,
         chunks := (goSort (fun a b => decide (a < b)) (js ++ [i])).map (S.uidataFrag τ k) },
       chunksCompleteMID ((goSort (fun a b => decide (a < b)) (js ++ [i])).map (S.uidataFrag τ k)), true) := by
  unfold ChunkSetMID.pushAndCheck
  have hdup : (s.chunks.any fun x => x.fsn == (S.uidataFrag τ k i).fsn) = false := by
    rw [hch]
    simp only [List.any_map, List.any_eq_false, Function.comp, beq_iff_eq]
    intro j hj heq
    simp only [Sender.uidataFrag, Sender.idataFrag] at heq
    have := (ofNat32_eq_iff _ _ (by have := hjs j hj; omega) (by have := hjs j hj; omega)).1 heq
    exact hnotin (this ▸ hj)
  simp only [hinc, hdup, Bool.false_eq_true, ↓reduceIte]
  have e : s.chunks ++ [S.uidataFrag τ k i] = (js ++ [i]).map (S.uidataFrag τ k) := by rw [hch]; simp
  rw [e, usortFSN_conc S τ k _ (by
    intro j hj
    rcases List.mem_append.1 hj with hj | hj
    · exact hjs j hj
    · simp only [List.mem_singleton] at hj; omega)]
  have hppi : (if (S.uidataFrag τ k i).bf = true then (S.uidataFrag τ k i).ppi else s.ppi)
      = if i = 0 then (S.msg k).ppi else s.ppi := by
    by_cases h0 : i = 0
    · simp [h0, Sender.uidataFrag, Sender.idataFrag]
    · simp [h0, Sender.uidataFrag, Sender.idataFrag]
  simp only [ChunkSetMID.isComplete, hppi]

/-! ### the association list `unorderedMIDMap` against a table keyed by message index -/

theorem findKey_conc (cs : Nat × List Nat → ChunkSetMID) (hmid : ∀ e, (cs e).mid = BitVec.ofNat 32 e.1)
    (k : Nat) (hk : k < 2^31) (A : Tab) (hwin : ∀ e ∈ A, e.1 < 2^31) :
    ((∀ e ∈ A, e.1 ≠ k) ∧ (A.map cs).find? (fun s => s.mid == BitVec.ofNat 32 k) = none) ∨
    (∃ pre js post, A = pre ++ (k, js) :: post ∧ (∀ e ∈ pre, e.1 ≠ k) ∧
      (A.map cs).find? (fun s => s.mid == BitVec.ofNat 32 k) = some (cs (k, js)) ∧
      (∀ s', updMID (BitVec.ofNat 32 k) s' (A.map cs) = pre.map cs ++ s' :: post.map cs) ∧
      delMID (BitVec.ofNat 32 k) (A.map cs) = pre.map cs ++ post.map cs) := by
  induction A with
  | nil => left; simp
  | cons e rest ih =>
    have ihr := ih (fun x hx => hwin x (List.mem_cons_of_mem _ hx))
    obtain ⟨k', js'⟩ := e
    have hw := hwin (k', js') (List.mem_cons_self ..)
    simp only at hw
    by_cases hkk : k' = k
    · subst hkk
      right
      refine ⟨[], js', rest, rfl, by simp, ?_, ?_, ?_⟩
      · simp [hmid]
      · intro s'; simp [updMID, hmid]
      · simp [delMID, hmid]
    · have hne : ((cs (k', js')).mid == BitVec.ofNat 32 k) = false := by
        rw [hmid]
        simp only [beq_eq_false_iff_ne, ne_eq]
        rw [ofNat32_eq_iff _ _ (by omega) (by omega)]; exact hkk
      rcases ihr with ⟨hall, hnf⟩ | ⟨pre, js, post, hA, hpre, hfound, hupd, hdel⟩
      · left
        refine ⟨?_, ?_⟩
        · intro x hx
          rcases List.mem_cons.1 hx with rfl | hx
          · exact hkk
          · exact hall x hx
        · simp only [List.map_cons, List.find?_cons, hne]; exact hnf
      · right
        refine ⟨(k', js') :: pre, js, post, by rw [hA]; rfl, ?_, ?_, ?_, ?_⟩
        · intro x hx
          rcases List.mem_cons.1 hx with rfl | hx
          · exact hkk
          · exact hpre x hx
        · simp only [List.map_cons, List.find?_cons, hne]; exact hfound
        · intro s'
          simp only [List.map_cons, updMID, hne, Bool.false_eq_true, ↓reduceIte, List.cons_append]
          rw [hupd s']
        · simp only [List.map_cons, delMID, hne, Bool.false_eq_true, ↓reduceIte, List.cons_append]
          rw [hdel]

theorem updMID_fresh (mid : BitVec 32) (s s' : ChunkSetMID) (l : List ChunkSetMID)
    (hl : ∀ x ∈ l, (x.mid == mid) = false) (hs : s.mid = mid) : updMID mid s' (l ++ [s]) = l ++ [s'] := by
  induction l with
  | nil => simp [updMID, hs]
  | cons x rest ih =>
    simp only [List.cons_append, updMID, hl x (List.mem_cons_self ..), Bool.false_eq_true, ↓reduceIte]
    rw [ih (fun y hy => hl y (List.mem_cons_of_mem _ hy))]

theorem delMID_fresh (mid : BitVec 32) (s : ChunkSetMID) (l : List ChunkSetMID)
    (hl : ∀ x ∈ l, (x.mid == mid) = false) (hs : s.mid = mid) : delMID mid (l ++ [s]) = l := by
  induction l with
  | nil => simp [delMID, hs]
  | cons x rest ih =>
    simp only [List.cons_append, delMID, hl x (List.mem_cons_self ..), Bool.false_eq_true, ↓reduceIte]
    rw [ih (fun y hy => hl y (List.mem_cons_of_mem _ hy))]

/-- a strictly ascending list of naturals below `n` that contains every natural below `n` is `range n`. -/
theorem sorted_nat_contig : ∀ (n j : Nat) (T : List Nat), T.Pairwise (· < ·) → (∀ x ∈ T, j ≤ x ∧ x < j + n) →
    (∀ j', j ≤ j' → j' < j + n → j' ∈ T) → T = List.range' j n := by
  intro n
  induction n with
  | zero =>
    intro j T _ hb _
    cases T with
    | nil => rfl
    | cons x _ => have := hb x (List.mem_cons_self ..); omega
  | succ n ih =>
    intro j T hs hb hall
    have hj := hall j (Nat.le_refl _) (by omega)
    cases T with
    | nil => simp at hj
    | cons h T' =>
      rw [List.pairwise_cons] at hs
      have hh : h = j := by
        rcases List.mem_cons.1 hj with e | hin
        · exact e.symm
        · have := hs.1 _ hin
          have := hb h (List.mem_cons_self ..)
          omega
      subst hh
      rw [List.range'_succ]
      congr 1
      apply ih (h + 1) T' hs.2
      · intro x hx
        have := hs.1 x hx
        have := hb x (List.mem_cons_of_mem _ hx)
        omega
      · intro j' h1 h2
        rcases List.mem_cons.1 (hall j' (by omega) (by omega)) with e | hin
        · omega
        · exact hin

theorem sorted_eq_range (n : Nat) (T : List Nat) (hs : T.Pairwise (· < ·)) (hb : ∀ x ∈ T, x < n)
    (hall : ∀ j, j < n → j ∈ T) : T = List.range n := by
  rw [List.range_eq_range']
  exact sorted_nat_contig n 0 T hs (fun x hx => ⟨Nat.zero_le _, by have := hb x hx; omega⟩)
    (fun j' _ h => hall j' (by omega))

end Reasm
