import SctpVerif.Proofs.ReasmUnordUniv
/-!
Helper lemmas for C06 (unordered reassembly), part 3: refinement of the unordered DATA containers
(`unorderedChunks`, `unordered`) to sets of fragment indices / message indices, the push step and the read step.
Nothing here mentions the ordered containers: the invariant `UInv` is about the unordered class only, so the
same steps serve the mixed-class theorem.
-/
set_option linter.unusedVariables false
set_option linter.unusedSimpArgs false
namespace Reasm
open Gen

/-- the complete set `findCompleteUnorderedChunkSet` builds for message `k`. -/
def Sender.uset (S : Sender) (σ : Nat → BitVec 16) (k : Nat) : ChunkSet :=
  { ssn := 0, ppi := (S.msg k).ppi, chunks := (msgIdx k (S.nf k)).map (S.ufrag σ) }

/-- what the three outcomes of pushing an unordered DATA chunk of this stream are (the `panic` arm is dead). -/
theorem pushU_cases (q : Q) (c : Chunk) (h1 : c.iData = false) (h2 : c.si = q.si) (h3 : c.unordered = true) :
    (q.pushWithError c = (q, false, .dataLimit)) ∨
    (findCompleteUnorderedChunkSet (sortChunksByTSN (q.unorderedChunks ++ [c])) = .notFound ∧
      scanUnordered (sortChunksByTSN (q.unorderedChunks ++ [c])) 0 none 0 0 = none ∧
      q.pushWithError c =
        ({ q.addBytes c.len with unorderedChunks := sortChunksByTSN (q.unorderedChunks ++ [c]) }, false, .none)) ∨
    (∃ a r b c0 tl, sortChunksByTSN (q.unorderedChunks ++ [c]) = a ++ r ++ b ∧ BERun r ∧ r = c0 :: tl ∧
      q.pushWithError c =
        ({ q.addBytes c.len with unorderedChunks := a ++ b,
                                 unordered := q.unordered ++ [{ ssn := 0, ppi := c0.ppi, chunks := r }] }, true, .none)) := by
  have hsi : (c.si != q.si) = false := by simp [h2]
  unfold Q.pushWithError
  simp only [h1, hsi, h3, Bool.false_eq_true, ↓reduceIte]
  split
  · left; rfl
  · right
    rcases findCompleteUnordered_cases (sortChunksByTSN (q.unorderedChunks ++ [c])) with ⟨hnf, hsc⟩ | ⟨a, r, b, c0, tl, huc, hrun, hr, hf⟩
    · left
      refine ⟨hnf, hsc, ?_⟩
      rw [hnf]
    · right
      refine ⟨a, r, b, c0, tl, huc, hrun, hr, ?_⟩
      rw [hf]
      rfl

/-- sorting the slice after appending a fresh universe fragment = inserting its index pair. -/
theorem usort_conc (S : Sender) (hS : S.UWF) (σ) (U : List (Nat × Nat)) (p : Nat × Nat)
    (hU : ∀ x ∈ U, S.Valid x) (hp : S.Valid p) (hs : U.Pairwise (fun a b => S.pos a < S.pos b)) (hfresh : p ∉ U) :
    ∃ U' : List (Nat × Nat), sortChunksByTSN (U.map (S.ufrag σ) ++ [S.ufrag σ p]) = U'.map (S.ufrag σ) ∧
      U'.Pairwise (fun a b => S.pos a < S.pos b) ∧ (∀ x, x ∈ U' ↔ x ∈ U ∨ x = p) := by
  refine ⟨goSort (fun a b => decide (S.pos a < S.pos b)) (U ++ [p]), ?_, ?_, ?_⟩
  · have e : U.map (S.ufrag σ) ++ [S.ufrag σ p] = (U ++ [p]).map (S.ufrag σ) := by simp
    rw [e]
    unfold sortChunksByTSN
    apply goSort_map
    intro a ha b hb
    have hva : S.Valid a := by
      rcases List.mem_append.1 ha with h | h
      · exact hU a h
      · simp only [List.mem_singleton] at h; subst h; exact hp
    have hvb : S.Valid b := by
      rcases List.mem_append.1 hb with h | h
      · exact hU b h
      · simp only [List.mem_singleton] at h; subst h; exact hp
    exact ufrag_tsn_lt S hS σ hva hvb
  · apply goSort_sorted S.pos
    rw [List.pairwise_append]
    refine ⟨hs.imp (fun h => by omega), by simp, ?_⟩
    intro a ha b hb
    simp only [List.mem_singleton] at hb; subst hb
    intro heq
    exact hfresh ((S.pos_inj hS (hU a ha) hp heq.symm) ▸ ha)
  · intro x; rw [goSort_mem]; simp

/-- refinement invariant of the unordered DATA containers. `D` = messages read (in read order), `W` = complete
messages waiting in `unordered`, `U` = fragments in `unorderedChunks`, `P` = fragments handed over so far,
`G` ⊆ `P` those that `pushWithError` took without error. -/
structure UInv (S : Sender) (σ : Nat → BitVec 16) (q : Q) (D W : List Nat) (U P G : List (Nat × Nat)) : Prop where
  si : q.si = S.si
  il : q.useInterleaving = false
  uc : q.unorderedChunks = U.map (S.ufrag σ)
  un : q.unordered = W.map (S.uset σ)
  sorted : U.Pairwise (fun a b => S.pos a < S.pos b)
  valid : ∀ p ∈ U, S.Valid p
  upush : ∀ p ∈ U, p ∈ P
  nodup : (D ++ W).Nodup
  dwlen : ∀ k ∈ D ++ W, k < S.msgs.length
  dwpush : ∀ k ∈ D ++ W, ∀ i, i < S.nf k → (k, i) ∈ P
  disj : ∀ p ∈ U, p.1 ∉ D ++ W
  /-- no message is complete inside `unorderedChunks`: a complete one is extracted by the push that completes it -/
  nocomp : ∀ m, m < S.msgs.length → ¬ ∀ j, j < S.nf m → (m, j) ∈ U
  track : ∀ p ∈ G, p ∈ U ∨ p.1 ∈ D ++ W

theorem UInv_new (S : Sender) (hS : S.UWF) (σ) (me : BitVec 32) : UInv S σ (new S.si me) [] [] [] [] [] := by
  refine { si := rfl, il := rfl, uc := rfl, un := rfl, sorted := List.Pairwise.nil, valid := by simp,
           upush := by simp, nodup := by simp, dwlen := by simp, dwpush := by simp, disj := by simp,
           nocomp := ?_, track := by simp }
  intro m hm h
  have := (S.nf_pos hS.wf hm).1
  exact absurd (h 0 (by omega)) (by simp)

theorem nodup_of_sorted (S : Sender) {U : List (Nat × Nat)} (h : U.Pairwise (fun a b => S.pos a < S.pos b)) :
    U.Nodup :=
  h.imp (fun {a b} hab heq => by rw [heq] at hab; omega)

/-- the other fields a push of an unordered DATA chunk leaves alone (frame). -/
structure FrameU (q q' : Q) : Prop where
  si : q'.si = q.si
  il : q'.useInterleaving = q.useInterleaving
  ordered : q'.ordered = q.ordered
  nextSSN : q'.nextSSN = q.nextSSN
  nextMID : q'.nextMID = q.nextMID
  orderedMID : q'.orderedMID = q.orderedMID
  unorderedMID : q'.unorderedMID = q.unorderedMID
  unorderedMIDMap : q'.unorderedMIDMap = q.unorderedMIDMap
  maxEntries : q'.maxEntries = q.maxEntries

theorem FrameU.refl (q : Q) : FrameU q q := by constructor <;> rfl

/-- pushing a fresh unordered fragment of the universe: the refinement is kept; the fragment is either refused
(entry limit), inserted at its TSN position, or completes its message — then exactly the fragments of THAT message
leave `unorderedChunks` and the complete set is appended to `unordered`. -/
theorem UInv.push {S σ q D W U P G} (h : UInv S σ q D W U P G) (hS : S.UWF) {k i : Nat}
    (hk : k < S.msgs.length) (hi : i < S.nf k) (hP : (k, i) ∉ P) :
    FrameU q (q.pushWithError (S.udataFrag σ k i)).1 ∧
    ∃ W' U', UInv S σ (q.pushWithError (S.udataFrag σ k i)).1 D W' U' ((k, i) :: P)
      ((if (q.pushWithError (S.udataFrag σ k i)).2.2 = .none then [(k, i)] else []) ++ G) := by
  have hvp : S.Valid (k, i) := ⟨hk, hi⟩
  have hfresh : (k, i) ∉ U := fun hin => hP (h.upush _ hin)
  have hkDW : k ∉ D ++ W := fun hin => hP (h.dwpush k hin i hi)
  obtain ⟨U', hsort, hsorted', hmem⟩ := usort_conc S hS σ U (k, i) h.valid hvp h.sorted hfresh
  have hvalid' : ∀ p ∈ U', S.Valid p := by
    intro p hp
    rcases (hmem p).1 hp with hp | rfl
    · exact h.valid p hp
    · exact hvp
  have hupush' : ∀ p ∈ U', p ∈ (k, i) :: P := by
    intro p hp
    rcases (hmem p).1 hp with hp | rfl
    · exact List.mem_cons_of_mem _ (h.upush p hp)
    · exact List.mem_cons_self ..
  have hdisj' : ∀ p ∈ U', p.1 ∉ D ++ W := by
    intro p hp
    rcases (hmem p).1 hp with hp | rfl
    · exact h.disj p hp
    · exact hkDW
  have hc : S.udataFrag σ k i = S.ufrag σ (k, i) := rfl
  rcases pushU_cases q (S.udataFrag σ k i) rfl (by simp [Sender.udataFrag, Sender.dataFrag, h.si]) rfl with
    hlim | ⟨hnf, hscan, hres⟩ | ⟨a, r, b, c0, tl, huc, hrun, hr, hres⟩
  · -- refused: nothing changes
    rw [hlim]
    refine ⟨FrameU.refl q, W, U, ?_⟩
    simp only [reduceCtorEq, ↓reduceIte, List.nil_append]
    exact { h with upush := fun p hp => List.mem_cons_of_mem _ (h.upush p hp),
                   dwpush := fun k' hk' j hj => List.mem_cons_of_mem _ (h.dwpush k' hk' j hj) }
  · -- inserted, nothing complete
    rw [hres]
    refine ⟨by constructor <;> rfl, W, U', ?_⟩
    simp only [↓reduceIte, List.singleton_append]
    rw [h.uc, hc, hsort] at hscan
    exact
      { si := h.si, il := h.il, uc := by simp only [Q.addBytes]; rw [h.uc, hc, hsort], un := h.un,
        sorted := hsorted', valid := hvalid', upush := hupush', nodup := h.nodup, dwlen := h.dwlen,
        dwpush := fun k' hk' j hj => List.mem_cons_of_mem _ (h.dwpush k' hk' j hj),
        disj := hdisj',
        nocomp := by
          intro m hm hall
          obtain ⟨A, B, hAB⟩ := sorted_has_all S m (S.nf_pos hS.wf hm).1 U' hsorted' hall
          rw [hAB, List.map_append, List.map_append, List.append_assoc] at hscan
          exact scan_skip_prefix _ _ (scan_full S σ m (S.nf_pos hS.wf hm).1 _) _ _ _ _ hscan
        track := by
          intro p hp
          rcases List.mem_cons.1 hp with rfl | hp
          · exact .inl ((hmem _).2 (.inr rfl))
          · rcases h.track p hp with hin | hin
            · exact .inl ((hmem _).2 (.inl hin))
            · exact .inr hin }
  · -- a message became complete and is extracted
    rw [hres]
    refine ⟨by constructor <;> rfl, ?_⟩
    simp only [↓reduceIte, List.singleton_append]
    rw [h.uc, hc, hsort] at huc
    -- pull the split back to index pairs
    rw [List.map_eq_append_iff] at huc
    obtain ⟨AR, B, hU', hAR, hB⟩ := huc
    rw [List.map_eq_append_iff] at hAR
    obtain ⟨A, R, rfl, hA, hR⟩ := hAR
    obtain ⟨k', hk', hRk⟩ := beRun_universe S hS σ hrun R hR.symm
      (fun p hp => hvalid' p (by rw [hU']; simp [hp]))
    have hnf' := S.nf_pos hS.wf hk'
    have hinR : ∀ j, j < S.nf k' → (k', j) ∈ U' := by
      intro j hj; rw [hU']
      have : (k', j) ∈ R := by rw [hRk]; exact mem_msgIdx.2 ⟨rfl, hj⟩
      simp [this]
    have hkk : k' = k := by
      apply Classical.byContradiction
      intro hne
      apply h.nocomp k' hk'
      intro j hj
      rcases (hmem _).1 (hinR j hj) with hin | heq
      · exact hin
      · simp only [Prod.mk.injEq] at heq; exact absurd heq.1 hne
    subst hkk
    have hnd := nodup_of_sorted S hsorted'
    rw [hU'] at hnd
    have hnotAB : ∀ p, p ∈ A ++ B → p.1 ≠ k' := by
      intro p hp hpk
      have hv : S.Valid p := hvalid' p (by rw [hU']; rcases List.mem_append.1 hp with h | h <;> simp [h])
      have hpR : p ∈ R := by rw [hRk]; exact mem_msgIdx.2 ⟨hpk, by have := hv.2; rwa [hpk] at this⟩
      rw [List.nodup_append] at hnd
      obtain ⟨hndAR, _, hdisjB⟩ := hnd
      rw [List.nodup_append] at hndAR
      rcases List.mem_append.1 hp with hpa | hpb
      · exact hndAR.2.2 p hpa p hpR rfl
      · exact hdisjB p (by simp [hpR]) p hpb rfl
    have hsubAB : ∀ p, p ∈ A ++ B → p ∈ U' := by
      intro p hp; rw [hU']; rcases List.mem_append.1 hp with h | h <;> simp [h]
    have hset : ({ ssn := 0, ppi := c0.ppi, chunks := r } : ChunkSet) = S.uset σ k' := by
      have hc0 : c0 ∈ R.map (S.ufrag σ) := by rw [hR, hr]; exact List.mem_cons_self ..
      obtain ⟨p0, hp0, rfl⟩ := List.mem_map.1 hc0
      have : p0.1 = k' := by rw [hRk] at hp0; exact (mem_msgIdx.1 hp0).1
      simp only [Sender.uset, ← hR, hRk]
      congr 1
      simp [Sender.ufrag, Sender.udataFrag, Sender.dataFrag, this]
    refine ⟨W ++ [k'], A ++ B, ?_⟩
    have hmemDW : ∀ x, x ∈ D ++ (W ++ [k']) ↔ x ∈ D ++ W ∨ x = k' := by
      intro x; simp only [List.mem_append, List.mem_singleton]; constructor
      · rintro (h | h | h) <;> simp [h]
      · rintro ((h | h) | h) <;> simp [h]
    exact
      { si := h.si, il := h.il,
        uc := by simp only [Q.addBytes]; rw [← hA, ← hB, List.map_append],
        un := by simp only [Q.addBytes]; rw [h.un, hset]; simp,
        sorted := by
          rw [hU'] at hsorted'
          exact hsorted'.sublist (by
            rw [List.append_assoc]
            exact (List.Sublist.refl A).append (List.sublist_append_right R B)),
        valid := fun p hp => hvalid' p (hsubAB p hp),
        upush := fun p hp => hupush' p (hsubAB p hp),
        nodup := by
          rw [← List.append_assoc, List.nodup_append]
          refine ⟨h.nodup, by simp, ?_⟩
          intro a ha b hb
          simp only [List.mem_singleton] at hb; subst hb
          intro hab; exact hkDW (hab ▸ ha)
        dwlen := by
          intro x hx
          rcases (hmemDW x).1 hx with hx | rfl
          · exact h.dwlen x hx
          · exact hk
        dwpush := by
          intro x hx j hj
          rcases (hmemDW x).1 hx with hx | rfl
          · exact List.mem_cons_of_mem _ (h.dwpush x hx j hj)
          · exact hupush' _ (hinR j hj)
        disj := by
          intro p hp hin
          rcases (hmemDW _).1 hin with hin | heq
          · exact hdisj' p (hsubAB p hp) hin
          · exact hnotAB p hp heq
        nocomp := by
          intro m hm hall
          by_cases hmk : m = k'
          · subst hmk
            exact hnotAB _ (hall 0 (by omega)) rfl
          · apply h.nocomp m hm
            intro j hj
            rcases (hmem _).1 (hsubAB _ (hall j hj)) with hin | heq
            · exact hin
            · simp only [Prod.mk.injEq] at heq; exact absurd heq.1 hmk
        track := by
          intro p hp
          have hcase : p ∈ U' ∨ p.1 ∈ D ++ W := by
            rcases List.mem_cons.1 hp with rfl | hp
            · exact .inl ((hmem _).2 (.inr rfl))
            · rcases h.track p hp with hin | hin
              · exact .inl ((hmem _).2 (.inl hin))
              · exact .inr hin
          rcases hcase with hin | hin
          · rw [hU'] at hin
            simp only [List.mem_append] at hin
            rcases hin with (hin | hin) | hin
            · exact .inl (by simp [hin])
            · right; rw [hmemDW]; right
              rw [hRk] at hin; exact (mem_msgIdx.1 hin).1
            · exact .inl (by simp [hin])
          · exact .inr ((hmemDW _).2 (.inl hin)) }

theorem ufrags_payload (S : Sender) (σ) (k : Nat) :
    (((msgIdx k (S.nf k)).map (S.ufrag σ)).map (·.userData)).flatten = (S.msg k).payload := by
  rw [← dataFrags_payload S k]
  simp [msgIdx, List.map_map, Function.comp_def, Sender.ufrag, Sender.udataFrag]

/-- `read` with a complete unordered message waiting: it serves the FIRST waiting unordered message (whatever the
ordered containers hold); either the buffer is too short and nothing changes, or exactly that message leaves. -/
theorem UInv.read {S σ q D W U P G} (h : UInv S σ q D W U P G) {k : Nat} {W' : List Nat} (hW : W = k :: W') (n : Nat) :
    ((q.read n).2.err = .shortBuffer ∧ (q.read n).1 = q) ∨
    ((q.read n).2.err = .ok ∧ (q.read n).2.ppi = (S.msg k).ppi ∧ (q.read n).2.data = (S.msg k).payload ∧
      FrameU q (q.read n).1 ∧ (q.read n).1.unorderedChunks = q.unorderedChunks ∧
      UInv S σ (q.read n).1 (D ++ [k]) W' U P G) := by
  subst hW
  unfold Q.read
  simp only [h.il, Bool.false_eq_true, ↓reduceIte, h.un, List.map_cons]
  cases herr : (copyLoop (n : Int) (S.uset σ k).chunks 0 false []).2.1 with
  | true => left; simp [herr]
  | false =>
    right
    have hdata := copyLoop_ok _ _ _ _ herr
    simp only [herr, Bool.false_eq_true, ↓reduceIte]
    have hmemDW : ∀ x, x ∈ (D ++ [k]) ++ W' ↔ x ∈ D ++ k :: W' := by intro x; simp
    refine ⟨trivial, rfl, ?_, by constructor <;> simp [Q.subtractNumBytes, h.il], rfl, ?_⟩
    · rw [hdata]; simp only [Sender.uset, List.nil_append]; exact ufrags_payload S σ k
    · exact
        { si := h.si, il := by simp [Q.subtractNumBytes], uc := h.uc, un := by simp [Q.subtractNumBytes],
          sorted := h.sorted, valid := h.valid, upush := h.upush,
          nodup := by have := h.nodup; simpa [List.append_assoc] using this,
          dwlen := fun x hx => h.dwlen x ((hmemDW x).1 hx),
          dwpush := fun x hx => h.dwpush x ((hmemDW x).1 hx),
          disj := fun p hp hin => h.disj p hp ((hmemDW _).1 hin),
          nocomp := h.nocomp,
          track := by
            intro p hp
            rcases h.track p hp with hin | hin
            · exact .inl hin
            · exact .inr ((hmemDW _).2 hin) }

end Reasm
