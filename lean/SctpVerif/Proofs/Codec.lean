import SctpVerif.Proofs.Codec.Stable
import SctpVerif.Proofs.Codec.Dispatch
/-! Helper lemmas for the codec properties C12 / C13 / C03 (decoder part), split over
`Proofs/Codec/{Basic,Total,Frame,RoundTrip,Chunks,Packet,Stable,Dispatch}.lean`. -/
