import SctpVerif.Proofs.PendQ
/-!
Helper lemmas for C17, part 2: the invariant of the `pendingQueue` wrapper over arbitrary lists of
proper operations (push / peek / peek-then-pop / setInterleaving), for every policy and every number
type: well-formedness, exact counters, FIFO per (stream, ordering class).
-/
namespace PendQ
open AMap

/-! ### counting lemmas -/

theorem amap_empty_of_msum_zero {β : Type} (m : AMap (List β)) (h0 : msum List.length m = 0)
    (hne : ∀ s l, get m s = some l → l ≠ []) : m = [] := by
  cases m with
  | nil => rfl
  | cons hd tl =>
    obtain ⟨k, l⟩ := hd
    have := hne k l (by simp [get_cons])
    simp only [msum_cons] at h0
    have : l.length = 0 := by omega
    exact absurd (List.length_eq_zero_iff.mp this) (hne k l (by simp [get_cons]))

namespace Policy
variable {α : Type} [Num α]

def WF : Policy α → Prop
  | .msg m => m.WF
  | .rr r => r.WF
  | .wfq w => w.WF

def count : Policy α → Nat
  | .msg m => m.count
  | .rr r => r.count
  | .wfq w => w.count

def bytes : Policy α → Nat
  | .msg m => m.bytes
  | .rr r => r.bytes
  | .wfq w => w.bytes

/-- chunks of stream `s` and ordering class `u` held by the policy, oldest first -/
def queued : Policy α → Nat → Bool → List Chunk
  | .msg m => m.queued
  | .rr r => r.queued
  | .wfq w => w.queued

omit [Num α] in
theorem queued_nil_of_count_zero {p : Policy α} (h : p.WF) (h0 : p.count = 0) :
    (∀ s u, p.queued s u = []) ∧ p.bytes = 0 := by
  cases p with
  | msg m =>
    simp only [count, MsgPol.count] at h0
    have h1 : m.unord = [] := List.length_eq_zero_iff.mp (by omega)
    have h2 : m.ord = [] := List.length_eq_zero_iff.mp (by omega)
    refine ⟨fun s u => ?_, by simp [bytes, MsgPol.bytes, h1, h2]⟩
    cases u <;> simp [queued, MsgPol.queued, h1, h2]
  | rr r =>
    have := amap_empty_of_msum_zero r.queues h0 (fun s l hl => (h.q1 s l hl).1)
    exact ⟨fun s u => by simp [queued, RR.queued, RR.sq, this], by simp [bytes, RR.bytes, this]⟩
  | wfq w =>
    have := amap_empty_of_msum_zero w.queues h0 (fun s l hl => (h.q1 s l hl).1)
    exact ⟨fun s u => by simp [queued, WFQ.queued, WFQ.sq, this], by simp [bytes, WFQ.bytes, this]⟩

theorem push_spec {p : Policy α} (h : p.WF) (c : Chunk) :
    (PQ.policyPush p c).WF ∧ (PQ.policyPush p c).count = p.count + 1 ∧
    (PQ.policyPush p c).bytes = p.bytes + c.len ∧ Appends p.queued (PQ.policyPush p c).queued c := by
  cases p with
  | msg m => exact ⟨MsgPol.push_wf h c, MsgPol.push_count m c, MsgPol.push_bytes m c, MsgPol.push_queued m c⟩
  | rr r => exact ⟨RR.push_wf h c, RR.push_count c, RR.push_bytes c, RR.push_queued r c⟩
  | wfq w => exact ⟨WFQ.push_wf h c, WFQ.push_count w c, WFQ.push_bytes w c, WFQ.push_queued w c⟩

/-- a successful pop of `c`: `p'` is the state before, `p''` after -/
structure Popped (p' p'' : Policy α) (c : Chunk) : Prop where
  wf : p''.WF
  cnt : p'.count = p''.count + 1
  byt : p'.bytes = p''.bytes + c.len
  rem : Removes p'.queued p''.queued c

/-- peek never panics on a well-formed policy and changes nothing that is counted; popping the
peeked chunk either succeeds (`Popped`) or — message policy only, head is not a B fragment — is
refused without any change. -/
theorem peek_pop_spec {p : Policy α} (h : p.WF) :
    (PQ.policyPeek p).1.WF ∧ (PQ.policyPeek p).1.count = p.count ∧ (PQ.policyPeek p).1.bytes = p.bytes ∧
    (PQ.policyPeek p).1.queued = p.queued ∧
    ((PQ.policyPeek p).2 = .chunk none ∨
      ∃ c, (PQ.policyPeek p).2 = .chunk (some c) ∧
        (PQ.policyPop (PQ.policyPeek p).1 c = ((PQ.policyPeek p).1, .err .qState) ∨
          ((PQ.policyPop (PQ.policyPeek p).1 c).2 = .ok ∧
            Popped (PQ.policyPeek p).1 (PQ.policyPop (PQ.policyPeek p).1 c).1 c))) := by
  cases p with
  | msg m =>
    refine ⟨h, rfl, rfl, rfl, ?_⟩
    cases hp : m.peek with
    | none => left; simp [PQ.policyPeek, hp]
    | some c =>
      right
      refine ⟨c, by simp [PQ.policyPeek, hp], ?_⟩
      rcases MsgPol.pop_peeked h hp with ⟨h1, _, _⟩ | ⟨h1, h2, h3, h4, h5, _⟩
      · left; simp [PQ.policyPeek, PQ.policyPop, h1]
      · right
        exact ⟨by simpa [PQ.policyPeek, PQ.policyPop] using h1, ⟨h2, h3, h4, h5⟩⟩
  | rr r =>
    obtain ⟨hwf', hq', ho', hres, _, _⟩ := RR.peek_spec h
    have hsq : ∀ s, (r.peek).1.sq s = r.sq s := fun s => by simp [RR.sq, hq']
    refine ⟨hwf', by simp [PQ.policyPeek, count, RR.count, hq'], by simp [PQ.policyPeek, bytes, RR.bytes, hq'],
      by funext s u; simp [PQ.policyPeek, queued, RR.queued, hsq], ?_⟩
    cases ho : r.order with
    | nil => left; simp [PQ.policyPeek, hres, ho]
    | cons s rest =>
      right
      obtain ⟨c, tl, hsqs, hpk, hok, hwf'', _, hsq'', _, hc, hb⟩ := RR.serve_spec h ho
      refine ⟨c, by simp [PQ.policyPeek, hpk], Or.inr ⟨by simpa [PQ.policyPeek, PQ.policyPop] using hok, ?_⟩⟩
      have hcs : c.sid = s := RR.sid_of_mem_sq h (by rw [hsqs]; simp)
      refine ⟨hwf'', ?_, ?_, ?_⟩
      · simpa [PQ.policyPeek, PQ.policyPop, count, RR.count, hq'] using hc
      · simpa [PQ.policyPeek, PQ.policyPop, bytes, RR.bytes, hq'] using hb
      · intro s' u
        simp only [PQ.policyPeek, PQ.policyPop, queued, RR.queued, hsq, hsq'']
        by_cases hs' : s' = s
        · subst hs'
          simp only [if_true, hsqs, key, hcs, beq_self_eq_true, Bool.true_and, List.filter_cons]
          by_cases hu : c.unordered = u <;> simp [hu]
        · have : ¬ c.sid = s' := by rw [hcs]; exact fun h => hs' h.symm
          simp [hs', key, this]
  | wfq w =>
    obtain ⟨hwf', hq', _, _, _, hres⟩ := WFQ.peek_spec h
    have hsq : ∀ s, (w.peek).1.sq s = w.sq s := fun s => by simp [WFQ.sq, hq']
    refine ⟨hwf', by simp [PQ.policyPeek, count, WFQ.count, hq'], by simp [PQ.policyPeek, bytes, WFQ.bytes, hq'],
      by funext s u; simp [PQ.policyPeek, queued, WFQ.queued, hsq], ?_⟩
    rcases hres with ⟨hn, _⟩ | ⟨c, f, tl, hpk, hsel, hg⟩
    · left; simp [PQ.policyPeek, hn]
    · right
      rw [← hq'] at hg
      obtain ⟨hok, hwf'', hsq'', _, _, _, _, hc, hb⟩ := WFQ.pop_spec hwf' hsel hg
      have hcs : c.sid = (w.peek).1.selStream := (hwf'.q1 _ _ hg).2 (c, f) (by simp)
      have hsqs : (w.peek).1.sq (w.peek).1.selStream = (c, f) :: tl := by simp [WFQ.sq, hg]
      refine ⟨c, by simp [PQ.policyPeek, hpk], Or.inr ⟨by simpa [PQ.policyPeek, PQ.policyPop] using hok, ?_⟩⟩
      refine ⟨hwf'', ?_, ?_, ?_⟩
      · simpa [PQ.policyPeek, PQ.policyPop, count] using hc
      · simpa [PQ.policyPeek, PQ.policyPop, bytes] using hb
      · intro s' u
        simp only [PQ.policyPeek, PQ.policyPop, queued, WFQ.queued, hsq'']
        by_cases hs' : s' = (w.peek).1.selStream
        · subst hs'
          simp only [if_true, hsqs, key, hcs, beq_self_eq_true, Bool.true_and, List.map_cons, List.filter_cons]
          by_cases hu : c.unordered = u <;> simp [hu]
        · have : ¬ c.sid = s' := by rw [hcs]; exact fun h => hs' h.symm
          simp [hs', key, this]

end Policy

/-! ### the wrapper invariant -/

/-- operations the association performs (everything except the two misuse ops) -/
def Op.proper : Op → Bool
  | .push _ | .peek | .pop | .setil _ => true
  | .rawPop _ | .popNil => false

def evPush : Op × Res → List Chunk
  | (.push c, _) => [c]
  | _ => []

def evPop : Op × Res → List Chunk
  | (_, .popped (some c) .ok) => [c]
  | _ => []

theorem pushesOf_cons (e : Op × Res) (tr : List (Op × Res)) : pushesOf (e :: tr) = evPush e ++ pushesOf tr := by
  obtain ⟨o, r⟩ := e
  cases o <;> simp [pushesOf, evPush]

theorem popsOf_cons (e : Op × Res) (tr : List (Op × Res)) : popsOf (e :: tr) = evPop e ++ popsOf tr := by
  obtain ⟨o, r⟩ := e
  cases r with
  | popped c pr =>
    cases c with
    | none => simp [popsOf, evPop]
    | some c => cases pr <;> simp [popsOf, evPop]
  | _ => simp [popsOf, evPop]

variable {α : Type} [Num α]

structure Inv (q : PQ α) (P Q : List Chunk) : Prop where
  wf : q.policy.WF
  cnt : q.nChunks = q.policy.count
  byt : q.nBytes = q.policy.bytes
  fifo : ∀ s u, P.filter (key s u) = Q.filter (key s u) ++ q.policy.queued s u

omit [Num α] in
theorem inv_new (f : Factory) : Inv (PQ.new f : PQ α) [] [] :=
  ⟨MsgPol.wf_empty, by simp [PQ.new, Policy.count, MsgPol.count], by simp [PQ.new, Policy.bytes, MsgPol.bytes],
    by intro s u; cases u <;> simp [PQ.new, Policy.queued, MsgPol.queued]⟩

theorem inv_setil {q : PQ α} {P Q : List Chunk} (h : Inv q P Q) (b : Bool) :
    Inv (q.setInterleaving b).1 P Q := by
  unfold PQ.setInterleaving
  by_cases h1 : q.interleaving = b
  · simpa [h1] using h
  · simp only [h1, if_false]
    by_cases h2 : q.nChunks ≠ 0
    · simpa [h2] using h
    · simp only [h2, if_false]
      have h0 : q.policy.count = 0 := by
        have := h.cnt; simp only [ne_eq, Decidable.not_not] at h2; omega
      obtain ⟨hq, hb⟩ := Policy.queued_nil_of_count_zero h.wf h0
      have hfifo : ∀ s u, P.filter (key s u) = Q.filter (key s u) := by
        intro s u; simpa [hq] using h.fifo s u
      have hnb : q.nBytes = 0 := by rw [h.byt, hb]; rfl
      have hnc : q.nChunks = 0 := by simpa using h2
      have hempty : ∀ (q' : PQ α) (p : Policy α), q'.policy = p → q'.nChunks = q.nChunks → q'.nBytes = q.nBytes →
          p.WF → p.count = 0 → p.bytes = 0 → (∀ s u, p.queued s u = []) → Inv q' P Q := by
        intro q' p hp h1 h2 hw hc hby hqd
        subst hp
        exact ⟨hw, by simp [h1, hnc, hc], by simp [h2, hnb, hby], by intro s u; simp [hqd, hfifo]⟩
      cases b with
      | false =>
        simp only [Bool.false_eq_true, if_false]
        exact hempty _ (.msg {}) rfl rfl rfl MsgPol.wf_empty (by simp [Policy.count, MsgPol.count])
          (by simp [Policy.bytes, MsgPol.bytes])
          (by intro s u; cases u <;> simp [Policy.queued, MsgPol.queued])
      | true =>
        simp only [if_true]
        cases hf : q.factory with
        | none => simp only; exact ⟨h.wf, h.cnt, h.byt, h.fifo⟩
        | nilSched => simp only; exact ⟨h.wf, h.cnt, h.byt, h.fifo⟩
        | rr =>
          simp only
          exact hempty _ (.rr {}) rfl rfl rfl RR.wf_empty (by simp [Policy.count, RR.count])
            (by simp [Policy.bytes, RR.bytes]) (by intro s u; simp [Policy.queued, RR.queued, RR.sq])
        | wfq ws =>
          simp only
          exact hempty _ (.wfq (WFQ.new ws)) rfl rfl rfl (WFQ.wf_new ws) (by simp [Policy.count, WFQ.count, WFQ.new])
            (by simp [Policy.bytes, WFQ.bytes, WFQ.new])
            (by intro s u; simp [Policy.queued, WFQ.queued, WFQ.sq, WFQ.new])

theorem filter_key_append_single (P : List Chunk) (c : Chunk) (s : Nat) (u : Bool) :
    (P ++ [c]).filter (key s u) = P.filter (key s u) ++ (if key s u c then [c] else []) := by
  simp [List.filter_append, List.filter_cons]

/-- one proper operation preserves the invariant; pushes and pops are appended to the histories -/
theorem inv_step {q : PQ α} {P Q : List Chunk} (h : Inv q P Q) (o : Op) (ho : o.proper = true) :
    Inv (q.step o).1 (P ++ evPush (o, (q.step o).2)) (Q ++ evPop (o, (q.step o).2)) := by
  cases o with
  | rawPop c => simp [Op.proper] at ho
  | popNil => simp [Op.proper] at ho
  | setil b => simpa [PQ.step, evPush, evPop] using inv_setil h b
  | push c =>
    obtain ⟨hw, hc, hb, ha⟩ := Policy.push_spec h.wf c
    simp only [PQ.step, evPush, evPop, List.append_nil]
    refine ⟨hw, ?_, ?_, ?_⟩
    · simp only [PQ.push, hc]; have := h.cnt; omega
    · simp only [PQ.push, hb]; have := h.byt; omega
    · intro s u
      simp only [PQ.push]
      rw [filter_key_append_single, ha s u, h.fifo s u, List.append_assoc]
  | peek =>
    obtain ⟨hw, hc, hb, hq, _⟩ := Policy.peek_pop_spec h.wf
    simp only [PQ.step, PQ.peek, evPush, evPop, List.append_nil]
    exact ⟨hw, by simpa [hc] using h.cnt, by simpa [hb] using h.byt, by intro s u; simpa [hq] using h.fifo s u⟩
  | pop =>
    obtain ⟨hw, hc, hb, hq, hres⟩ := Policy.peek_pop_spec h.wf
    have hunch : Inv ({ q with policy := (PQ.policyPeek q.policy).1 } : PQ α) P Q :=
      ⟨hw, by simpa [hc] using h.cnt, by simpa [hb] using h.byt, by intro s u; simpa [hq] using h.fifo s u⟩
    rcases hres with hn | ⟨c, hsome, hpop⟩
    · have : q.step .pop = ({ q with policy := (PQ.policyPeek q.policy).1 }, .popped none .ok) := by
        simp [PQ.step, PQ.peek, hn]
      rw [this]; simpa [evPush, evPop] using hunch
    · rcases hpop with herr | ⟨hok, hpd⟩
      · have : q.step .pop = ({ q with policy := (PQ.policyPeek q.policy).1 }, .popped (some c) (.err .qState)) := by
          simp [PQ.step, PQ.peek, hsome, PQ.pop, herr]
        rw [this]; simpa [evPush, evPop] using hunch
      · have hge : (q.nBytes - (c.len : Int)) ≥ 0 := by
          have := h.byt; have := hpd.byt; omega
        have : q.step .pop =
            ({ q with policy := (PQ.policyPop (PQ.policyPeek q.policy).1 c).1, nBytes := (q.nBytes - c.len), nChunks := (q.nChunks - 1) }, .popped (some c) .ok) := by
          simp only [PQ.step, PQ.peek, hsome, PQ.pop]
          generalize hpp : PQ.policyPop (PQ.policyPeek q.policy).1 c = pp at hok ⊢
          obtain ⟨p2, r2⟩ := pp
          simp only at hok
          subst hok
          have : ¬ (q.nBytes - (c.len : Int) < 0) := by omega
          simp [this]
        rw [this]
        simp only [evPush, evPop, List.append_nil]
        refine ⟨hpd.wf, ?_, ?_, ?_⟩
        · simp only; have := h.cnt; have := hpd.cnt; omega
        · simp only; have := h.byt; have := hpd.byt; omega
        · intro s u
          simp only
          rw [filter_key_append_single, h.fifo s u, ← hq, hpd.rem s u]
          simp [List.append_assoc]

/-- running a list of proper operations -/
theorem inv_run {q : PQ α} {P Q : List Chunk} (h : Inv q P Q) (ops : List Op) (hops : ∀ o ∈ ops, o.proper = true) :
    Inv (q.run ops).1 (P ++ pushesOf (q.run ops).2) (Q ++ popsOf (q.run ops).2) := by
  induction ops generalizing q P Q with
  | nil => simpa [PQ.run, pushesOf, popsOf] using h
  | cons o os ih =>
    have h1 := inv_step h o (hops o (by simp))
    have h2 := ih h1 (fun o' ho' => hops o' (by simp [ho']))
    simp only [PQ.run]
    rw [pushesOf_cons, popsOf_cons]
    simpa [List.append_assoc] using h2

end PendQ
