import SctpVerif.Proofs.Teardown.Inv
/-! every step of the system (environment included) preserves `Inv` -/
namespace Conc
set_option maxRecDepth 4000

theorem callerInv_reset (s : St) (sid : Nat) (c : Caller) (h : callerInv s c = true) :
    callerInv { s with rl := .reading, gone := sid :: s.gone, callers := wakeReaders .all (fun x => x == sid) s.callers }
      (wake1 (fun x => x == sid) c) = true := by
  cases c with
  | rdWait x w =>
    cases w with
    | true => simp_all [callerInv, wake1]
    | false =>
      simp only [wake1]
      split
      · simp [callerInv]
      · simp_all [callerInv]
  | _ => simp_all [callerInv, wake1]

theorem callerInv_unreg (s : St) (c : Caller) (h : callerInv s c = true) (k : Nat) :
    callerInv { s with unreg := true, callers := wakeReaders .all (fun x => !s.gone.contains x) s.callers, rl := .defer k }
      (wake1 (fun x => !s.gone.contains x) c) = true := by
  cases c with
  | rdWait x w =>
    cases w with
    | true => simp_all [callerInv, wake1]
    | false =>
      simp only [wake1]
      split
      · simp [callerInv]
      · simp_all [callerInv]
  | _ => simp_all [callerInv, wake1]

set_option hygiene false in
/-- normalise the invariant's `match s.rl` / `s.tc` with what the guard told us -/
macro "conc_norm" t:term : tactic => `(tactic| (simp only [lockOf, exclOk, prog, chBusy, leaving, $t:term] at *))

theorem inv_env (s s' : St) (a : Act) (ha : a.isEnv = true) (hi : Inv s) (h : step E s a = some s') : Inv s' := by
  conc_pre
  cases a <;> simp [Act.isEnv] at ha
  case envPacket p =>
    simp only [step] at h
    split at h
    · rename_i hg
      simp at h hg; subst h
      obtain ⟨⟨hr, _⟩, _⟩ := hg
      conc_norm hr
      conc_close
    · simp at h
  case envReadFail =>
    simp only [step] at h
    split at h
    · simp at h; subst h; conc_close
    · simp at h
  case envWriteFail =>
    simp only [step] at h
    split at h
    · simp at h; subst h; conc_close
    · simp at h
  case envCtxCancel =>
    simp only [step] at h
    split at h
    · simp at h; subst h; conc_close
    · simp at h
  case envFire f =>
    simp only [step] at h
    split at h
    · rename_i hg
      simp at h hg; subst h
      obtain ⟨⟨ht, _⟩, _⟩ := hg
      conc_norm ht
      conc_close
    · simp at h
  case envPoke =>
    simp only [step] at h
    split at h
    · simp at h; subst h; conc_close
    · simp at h
  case envDeadline sid =>
    simp only [step, E, Choreo.expected, Bool.true_or, ite_true] at h
    split at h
    · simp at h; subst h; conc_close
    · simp at h
  case envStart i =>
    simp only [step] at h
    split at h
    · split at h
      · rename_i k hk
        simp only [Option.some.injEq] at h; subst h
        constructor <;> (try simp only [setCaller, lockOf, exclOk, prog, chBusy, leaving]) <;> (try assumption)
        intro c hc
        rcases List.mem_or_eq_of_mem_set hc with hc | hc
        · exact callerInv_keep s _ c rfl rfl (by simp) (by simp) (by simp) (ics c hc)
        · subst hc; cases k <;> simp [callerInv, startCaller] <;> grind
      · simp at h
    · simp at h
  case envServe i =>
    simp only [step] at h
    split at h
    · split at h
      · simp only [Option.some.injEq] at h; subst h
        constructor <;> (try simp only [setCaller, lockOf, exclOk, prog, chBusy, leaving]) <;> (try assumption)
        intro c hc
        rcases List.mem_or_eq_of_mem_set hc with hc | hc
        · exact callerInv_keep s _ c rfl rfl (by simp) (by simp) (by simp) (ics c hc)
        · subst hc; simp [callerInv]
      · split at h
        · simp at h
        · simp only [Option.some.injEq] at h; subst h
          constructor <;> (try simp only [setCaller, lockOf, exclOk, prog, chBusy, leaving]) <;> (try assumption)
          intro c hc
          rcases List.mem_or_eq_of_mem_set hc with hc | hc
          · exact callerInv_keep s _ c rfl rfl (by simp) (by simp) (by simp) (ics c hc)
          · subst hc; simp [callerInv]
      · simp only [Option.some.injEq] at h; subst h
        constructor <;> (try simp only [setCaller, lockOf, exclOk, prog, chBusy, leaving]) <;> (try assumption)
        intro c hc
        rcases List.mem_or_eq_of_mem_set hc with hc | hc
        · exact callerInv_keep s _ c rfl rfl (by simp) (by simp) (by simp) (ics c hc)
        · subst hc; simp [callerInv]
      · simp at h
    · simp at h

theorem inv_rlReadErr (s s' : St) (hi : Inv s) (h : step E s .rlReadErr = some s') : Inv s' := by
  conc_pre
  simp only [step] at h
  split at h
  · rename_i hg
    simp at h hg; subst h
    obtain ⟨hr, _⟩ := hg
    conc_norm hr
    conc_close
  · simp at h

theorem inv_rlHandle (s s' : St) (hi : Inv s) (h : step E s .rlHandle = some s') : Inv s' := by
  conc_pre
  simp only [step] at h
  split at h
  · rename_i p hp
    split at h
    · rename_i hl
      conc_norm hp
      cases p with
      | data => simp at h; subst h; conc_close
      | hsFinal err =>
        simp only at h
        split at h <;> (simp at h; subst h; conc_close)
      | abort c =>
        simp only [E, Choreo.expected, applyOps, List.foldl, applyOp, Option.some.injEq] at h
        subst h; conc_close
      | reset sid =>
        simp only [E, Choreo.expected] at h
        split at h
        · simp at h; subst h; conc_close
        · simp only [Option.some.injEq] at h; subst h
          constructor <;> (try simp only [lockOf, exclOk, prog, chBusy, leaving]) <;> (try assumption)
          · intro k hk; cases hk
          · intro c hc
            simp only [wakeReaders_all, List.mem_map] at hc
            obtain ⟨c0, hc0, rfl⟩ := hc
            have := callerInv_reset s sid c0 (ics c0 hc0)
            simpa only [wakeReaders_all] using this
      | shutdownComplete =>
        simp only [E, Choreo.expected, applyOps, List.foldl, applyOp, Option.some.injEq] at h
        subst h; conc_close
      | shutdownAck => simp at h; subst h; conc_close
    · simp at h
  · simp at h

theorem inv_rlCH (s s' : St) (arm : Nat) (hi : Inv s) (h : step E s (.rlCH arm) = some s') : Inv s' := by
  conc_pre
  simp only [step] at h
  split at h
  · rename_i err hr
    conc_norm hr
    split at h
    · simp only [chArm, E, Choreo.expected, Bool.true_and, Bool.and_self, ite_self] at h
      split at h
      · split at h
        · rename_i client hcn
          simp at h; subst h; conc_close
          all_goals (cases err <;> simp_all [hsRes])
        · simp at h
      · split at h
        · simp at h; subst h; conc_close
        · simp at h
      · split at h
        · simp at h; subst h; conc_close
        · simp at h
      · simp at h
    · simp at h
  · simp at h

theorem inv_rlDefer (s s' : St) (hi : Inv s) (h : step E s .rlDefer = some s') : Inv s' := by
  conc_pre
  simp only [step] at h
  split at h
  · rename_i k hr
    have hk := idk k hr
    conc_norm hr
    rcases k with _|_|_|_|_|_|_|_|k
    · simp [E, Choreo.expected, execOp, applyOp] at h; subst h; conc_close
    · simp only [E, Choreo.expected, execOp, List.getElem?_cons_succ, List.getElem?_cons_zero] at h
      split at h
      · simp at h; subst h; conc_close
      · simp at h
    · simp [E, Choreo.expected, execOp, applyOp] at h; subst h; conc_close
    · simp [E, Choreo.expected, execOp, applyOp] at h; subst h
      constructor <;> (try simp only [lockOf, exclOk, prog, chBusy, leaving]) <;> (try assumption) <;> (try grind)
      intro c hc
      simp only [wakeReaders_all, List.mem_map] at hc
      obtain ⟨c0, hc0, rfl⟩ := hc
      have := callerInv_unreg s c0 (ics c0 hc0) 4
      simpa [wakeReaders_all] using this
    · simp [E, Choreo.expected, execOp, applyOp] at h; subst h; conc_close
    · simp [E, Choreo.expected, execOp, applyOp] at h; subst h; conc_close
    · simp [E, Choreo.expected, execOp, applyOp] at h; subst h; conc_close
    · simp [E, Choreo.expected, execOp, applyOp] at h; subst h; conc_close
    · have : k = 0 := by omega
      subst this
      simp [E, Choreo.expected] at h; subst h; conc_close
  · simp at h

theorem inv_wl (s s' : St) (a : Act) (hi : Inv s) (h : step E s a = some s')
    (ha : (∃ n f, a = .wlGather n f) ∨ a = .wlWrite ∨ (∃ arm, a = .wlSel arm) ∨ a = .wlCwArm ∨ a = .wlClosing ∨ a = .wlExit) : Inv s' := by
  conc_pre
  rcases ha with ⟨n, f, rfl⟩ | rfl | ⟨arm, rfl⟩ | rfl | rfl | rfl
  · -- gather
    simp only [step] at h
    split at h
    · rename_i hg
      simp at hg
      obtain ⟨hw, _⟩ := hg
      split at h
      · simp at h; subst h; conc_close
      · split at h
        · simp at h; subst h; conc_close
        · simp at h
    · simp at h
  · -- write
    simp only [step] at h
    split at h
    · simp at h; subst h; conc_close
    · rename_i n ok ab hw
      simp only [E, Choreo.expected, applyOp, ite_true] at h
      split at h
      · simp only [Option.some.injEq] at h; subst h
        cases ab <;> (simp only [Bool.false_eq_true, ite_false, ite_true]; conc_close)
      · simp only [Option.some.injEq] at h; subst h
        cases ab <;> (simp only [Bool.false_eq_true, ite_false, ite_true]; conc_close)
    · simp at h
  · -- select
    simp only [step, E, Choreo.expected] at h
    split at h
    · rename_i hw
      simp at hw
      split at h
      · simp only [Option.ite_none_right_eq_some, Option.some.injEq, Bool.true_and] at h
        obtain ⟨hg, rfl⟩ := h
        conc_close
      · simp only [Option.ite_none_right_eq_some, Option.some.injEq, Bool.true_and, ite_true] at h
        obtain ⟨hg, rfl⟩ := h
        conc_close
    · simp at h
  · simp only [step] at h
    split at h
    · rename_i hg; simp at hg
      simp at h; subst h; conc_close
    · simp at h
  · simp only [step] at h
    split at h
    · rename_i hg; simp at hg
      simp only [E, Choreo.expected, applyOps, List.foldl, applyOp, Option.some.injEq] at h
      subst h; conc_close
    · simp at h
  · simp only [step] at h
    split at h
    · rename_i hg; simp at hg
      simp only [applyOps, List.foldl, applyOp, Option.some.injEq] at h
      subst h; conc_close
    · simp at h

theorem inv_tl (s s' : St) (a : Act) (hi : Inv s) (h : step E s a = some s') (ha : a = .tlExit ∨ a = .tlCb) : Inv s' := by
  conc_pre
  rcases ha with rfl | rfl
  · simp only [step, Option.ite_none_right_eq_some, Option.some.injEq] at h
    obtain ⟨hg, rfl⟩ := h
    conc_close
  · simp only [step, Option.ite_none_right_eq_some, Option.some.injEq] at h
    obtain ⟨hg, rfl⟩ := h
    conc_close

theorem inv_tcRun (s s' : St) (hi : Inv s) (h : step E s .tcRun = some s') : Inv s' := by
  conc_pre
  simp only [step] at h
  split at h
  · rename_i f ht
    conc_norm ht
    split at h
    · rename_i hl
      cases hrl : s.rl <;> simp only [hrl] at * <;>
        (split at h <;> (simp at h; subst h; conc_close))
    · simp at h
  · simp at h

theorem inv_tcCH (s s' : St) (arm : Nat) (hi : Inv s) (h : step E s (.tcCH arm) = some s') : Inv s' := by
  conc_pre
  simp only [step] at h
  split at h
  · rename_i hg
    simp at hg
    obtain ⟨ht, hl⟩ := hg
    conc_norm ht
    simp only [chArm, E, Choreo.expected, Bool.true_and, Bool.and_self, ite_self] at h
    split at h
    · split at h
      · rename_i client hcn
        simp at h; subst h; conc_close
        all_goals (simp_all [hsRes])
      · simp at h
    · split at h
      · simp at h; subst h; conc_close
      · simp at h
    · split at h
      · simp at h; subst h; conc_close
      · simp at h
    · simp at h
  · simp at h

theorem inv_cn (s s' : St) (arm : Nat) (hi : Inv s) (h : step E s (.cn arm) = some s') : Inv s' := by
  conc_pre
  simp only [step] at h
  split at h
  · rename_i client hcn
    split at h
    · simp only [E, Choreo.expected, ite_self, Bool.true_and, Option.ite_none_right_eq_some, Option.some.injEq] at h
      obtain ⟨hg, rfl⟩ := h
      conc_close
      all_goals (simp_all [hsRes])
    · simp only [E, Choreo.expected, Bool.and_true, Option.ite_none_right_eq_some, Option.some.injEq] at h
      obtain ⟨hg, rfl⟩ := h
      conc_close
  · rename_i k hcn
    have hk := (icnC k hcn).2.2.2
    rcases k with _|_|_|_|_|k
    · simp [E, Choreo.expected, execOp, applyOp] at h; subst h; conc_close
    · simp [E, Choreo.expected, execOp, applyOp] at h; subst h; conc_close
    · simp [E, Choreo.expected, execOp, applyOp] at h; subst h; conc_close
    · simp [E, Choreo.expected, execOp, applyOp] at h; subst h; conc_close
    · simp only [E, Choreo.expected, execOp, List.getElem?_cons_succ, List.getElem?_cons_zero] at h
      split at h
      · simp at h; subst h; conc_close
      · simp at h
    · have : k = 0 := by omega
      subst this
      simp [E, Choreo.expected] at h; subst h; conc_close
      all_goals (simp_all [hsRes])
  · simp at h

set_option hygiene false in
macro "conc_close_call" : tactic => `(tactic| (
  constructor <;> (try simp only [setCaller]) <;> (try assumption) <;>
    (try (intro c hc
          rcases List.mem_or_eq_of_mem_set hc with hc | hc
          · exact callerInv_keep s _ c rfl rfl (by simp) (by simp) (by simp) (ics c hc)
          · subst hc; simp [callerInv] <;> grind)) <;> (try grind)))

theorem inv_call (s s' : St) (i arm : Nat) (hi : Inv s) (h : step E s (.call i arm) = some s') : Inv s' := by
  conc_pre
  simp only [step, callerStep] at h
  split at h
  · simp at h
  · rename_i c hci
    have hmem : c ∈ s.callers := List.mem_of_getElem? hci
    have hc0 := ics c hmem
    cases c with
    | idle k => simp at h
    | fin k r => simp at h
    | rdWait sid w =>
      simp only [Option.ite_none_right_eq_some, Option.some.injEq] at h
      obtain ⟨hg, rfl⟩ := h
      conc_close_call
    | wrBegin =>
      simp only at h
      split at h
      · split at h
        · simp at h; subst h; conc_close_call
        · split at h <;> (simp at h; subst h; conc_close_call)
      · simp at h
    | wrWait =>
      simp only [E, Choreo.expected, Bool.true_and] at h
      split at h <;>
        (simp only [Option.ite_none_right_eq_some, Option.some.injEq] at h; obtain ⟨hg, rfl⟩ := h; conc_close_call)
    | accWait =>
      simp only [E, Choreo.expected, Bool.true_and, Option.ite_none_right_eq_some, Option.some.injEq] at h
      obtain ⟨hg, rfl⟩ := h
      conc_close_call
    | shBegin =>
      simp only at h
      split at h
      · split at h
        · simp at h; subst h; conc_close_call
        · simp only [E, Choreo.expected, applyOp, ite_true, Option.some.injEq] at h; subst h; conc_close_call
      · simp at h
    | shWait =>
      simp only [E, Choreo.expected, Bool.true_and, ite_true] at h
      split at h
      · simp only [Option.ite_none_right_eq_some, Option.some.injEq] at h
        obtain ⟨hg, hl, rfl⟩ := h
        conc_close_call
      · simp only [Option.ite_none_right_eq_some, Option.some.injEq] at h; obtain ⟨hg, rfl⟩ := h; conc_close_call
    | cl k =>
      simp only [callerInv, Bool.and_eq_true, Bool.or_eq_true, decide_eq_true_eq] at hc0
      rcases k with _|_|_|_|_|k
      · simp [E, Choreo.expected, execOp, applyOp] at h; subst h; conc_close_call
      · simp [E, Choreo.expected, execOp, applyOp] at h; subst h; conc_close_call
      · simp [E, Choreo.expected, execOp, applyOp] at h; subst h; conc_close_call
      · simp [E, Choreo.expected, execOp, applyOp] at h; subst h; conc_close_call
      · simp only [E, Choreo.expected, execOp, List.getElem?_cons_succ, List.getElem?_cons_zero] at h
        split at h
        · simp at h; subst h; conc_close_call
        · simp at h
      · have : k = 0 := by omega
        subst this
        simp [E, Choreo.expected] at h; subst h; conc_close_call
    | ab cause k =>
      simp only [callerInv, Bool.and_eq_true, Bool.or_eq_true, decide_eq_true_eq] at hc0
      rcases k with _|_|_|_|_|_|_|k
      · simp only [E, Choreo.expected, execOp, List.getElem?_cons_zero] at h
        split at h
        · simp at h; subst h; conc_close_call
        · simp at h
      · simp [E, Choreo.expected, execOp, applyOp] at h; subst h; conc_close_call
      · simp [E, Choreo.expected, execOp, applyOp] at h; subst h; conc_close_call
      · simp [E, Choreo.expected, execOp, applyOp] at h; subst h; conc_close_call
      · simp [E, Choreo.expected, execOp, applyOp] at h; subst h; conc_close_call
      · simp only [E, Choreo.expected, execOp, List.getElem?_cons_succ, List.getElem?_cons_zero] at h
        split at h
        · simp at h; subst h; conc_close_call
        · simp at h
      · simp [E, Choreo.expected, execOp, applyOp] at h; subst h; conc_close_call
      · have : k = 0 := by omega
        subst this
        simp [E, Choreo.expected] at h; subst h; conc_close_call

/-- **every step preserves the invariant** -/
theorem inv_step (s s' : St) (a : Act) (hi : Inv s) (h : step E s a = some s') : Inv s' := by
  cases ha : a.isEnv
  · cases a <;> simp [Act.isEnv] at ha
    · exact inv_rlReadErr s s' hi h
    · exact inv_rlHandle s s' hi h
    · exact inv_rlCH s s' _ hi h
    · exact inv_rlDefer s s' hi h
    · exact inv_wl s s' _ hi h (by simp)
    · exact inv_wl s s' _ hi h (by simp)
    · exact inv_wl s s' _ hi h (by simp)
    · exact inv_wl s s' _ hi h (by simp)
    · exact inv_wl s s' _ hi h (by simp)
    · exact inv_wl s s' _ hi h (by simp)
    · exact inv_tl s s' _ hi h (by simp)
    · exact inv_tl s s' _ hi h (by simp)
    · exact inv_tcRun s s' hi h
    · exact inv_tcCH s s' _ hi h
    · exact inv_cn s s' _ hi h
    · exact inv_call s s' _ _ hi h
  · exact inv_env s s' a ha hi h

theorem inv_init (cs : List Caller) (fuel : Nat) (client : Bool) (hcs : ∀ c ∈ cs, ∃ k, c = .idle k) :
    Inv { callers := cs, fuel := fuel, cn := .sel client } := by
  constructor <;> (try simp [lockOf, exclOk, prog, chBusy, leaving])
  intro c hc
  obtain ⟨k, rfl⟩ := hcs c hc
  simp [callerInv]

theorem inv_run (s s' : St) (as : List Act) (hi : Inv s) (h : run E s as = some s') : Inv s' := by
  induction as generalizing s with
  | nil => simp [run] at h; subst h; exact hi
  | cons a as ih =>
    simp only [run] at h
    split at h
    · rename_i s1 h1
      exact ih s1 (inv_step s s1 a hi h1) h
    · simp at h

end Conc
