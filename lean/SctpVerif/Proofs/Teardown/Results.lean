import SctpVerif.Proofs.Teardown.Measure
import SctpVerif.Proofs.Teardown.Progress
/-!
What callers get, what reaches the wire, idempotence of Close, and: a teardown, once set off, stays set off.
-/
namespace Conc
set_option maxRecDepth 4000

/-! ### `triggered` is stable -/

theorem any_active_wake (m : Wake) (sel : Nat → Bool) (cs : List Caller) :
    (wakeReaders m sel cs).any Caller.active = cs.any Caller.active := by
  induction cs generalizing sel with
  | nil => rfl
  | cons c cs ih =>
    cases c with
    | rdWait sid w =>
      cases w with
      | false =>
        simp only [wakeReaders]
        split
        · cases m <;> simp [Caller.active, ih]
        · simp [Caller.active, ih]
      | true => simp [wakeReaders, Caller.active, ih]
    | _ => simp [wakeReaders, ih]

theorem any_active_set (cs : List Caller) (i : Nat) (c c' : Caller) (h : cs[i]? = some c)
    (hc : c.active = false ∨ c'.active = true) (ha : cs.any Caller.active = true) : (cs.set i c').any Caller.active = true := by
  induction cs generalizing i with
  | nil => simp at ha
  | cons x xs ih =>
    cases i with
    | zero =>
      simp at h; subst h
      simp only [List.set_cons_zero, List.any_cons, Bool.or_eq_true] at *
      rcases hc with hc | hc
      · rw [hc] at ha; simp only [Bool.false_eq_true, false_or] at ha; exact Or.inr ha
      · exact Or.inl hc
    | succ i =>
      simp at h
      simp only [List.set_cons_succ, List.any_cons, Bool.or_eq_true] at *
      rcases ha with ha | ha
      · exact Or.inl ha
      · exact Or.inr (ih i h ha)

set_option hygiene false in
macro "trig_close" : tactic => `(tactic| (simp_all [St.triggered, applyOp, applyOps, any_active_wake] <;> (try grind)))

theorem trig_env (s s' : St) (a : Act) (ha : a.isEnv = true) (ht : s.triggered = true) (h : step E s a = some s') :
    s'.triggered = true := by
  cases a <;> simp [Act.isEnv] at ha
  case envPacket p =>
    simp only [step] at h
    split at h
    · rename_i hg; simp at h hg; subst h; trig_close
    · simp at h
  case envReadFail =>
    simp only [step] at h
    split at h
    · simp at h; subst h; simp [St.triggered]
    · simp at h
  case envWriteFail =>
    simp only [step] at h
    split at h
    · simp at h; subst h; simp only [St.triggered] at *; revert ht; cases s.wl <;> simp <;> grind
    · simp at h
  case envCtxCancel =>
    simp only [step] at h
    split at h
    · simp at h; subst h; simpa [St.triggered] using ht
    · simp at h
  case envFire f =>
    simp only [step] at h
    split at h
    · simp at h; subst h; simpa [St.triggered] using ht
    · simp at h
  case envPoke =>
    simp only [step] at h
    split at h
    · simp at h; subst h; simpa [St.triggered] using ht
    · simp at h
  case envDeadline sid =>
    simp only [step] at h
    split at h
    · simp at h; subst h; simpa [St.triggered] using ht
    · simp at h
  case envStart i =>
    simp only [step] at h
    split at h
    · split at h
      · rename_i k hk
        simp only [Option.some.injEq] at h; subst h
        simp only [St.triggered, setCaller, Bool.or_eq_true] at *
        rcases ht with ht | ht
        · exact Or.inl ht
        · exact Or.inr (any_active_set _ _ _ _ hk (Or.inl rfl) ht)
      · simp at h
    · simp at h
  case envServe i =>
    simp only [step] at h
    split at h
    · split at h
      · rename_i sid w hk
        simp only [Option.some.injEq] at h; subst h
        simp only [St.triggered, setCaller, Bool.or_eq_true] at *
        rcases ht with ht | ht
        · exact Or.inl ht
        · exact Or.inr (any_active_set _ _ _ _ hk (Or.inl rfl) ht)
      · rename_i hk
        split at h
        · simp at h
        · simp only [Option.some.injEq] at h; subst h
          simp only [St.triggered, setCaller, Bool.or_eq_true] at *
          rcases ht with ht | ht
          · exact Or.inl ht
          · exact Or.inr (any_active_set _ _ _ _ hk (Or.inl rfl) ht)
      · rename_i hk
        simp only [Option.some.injEq] at h; subst h
        simp only [St.triggered, setCaller, Bool.or_eq_true] at *
        rcases ht with ht | ht
        · exact Or.inl ht
        · exact Or.inr (any_active_set _ _ _ _ hk (Or.inl rfl) ht)
      · simp at h
    · simp at h

theorem trig_rl (s s' : St) (a : Act) (hi : Inv s) (ht : s.triggered = true) (h : step E s a = some s')
    (ha : a = .rlReadErr ∨ a = .rlHandle ∨ (∃ arm, a = .rlCH arm) ∨ a = .rlDefer) : s'.triggered = true := by
  rcases ha with rfl | rfl | ⟨arm, rfl⟩ | rfl
  · simp only [step] at h
    split at h
    · simp at h; subst h; simp [St.triggered]
    · simp at h
  · simp only [step] at h
    split at h
    · rename_i p hp
      split at h
      · cases p with
        | data => simp at h; subst h; trig_close
        | hsFinal err =>
          simp only at h
          split at h <;> (simp at h; subst h; trig_close)
        | abort c =>
          simp only [E, Choreo.expected, applyOps, List.foldl, applyOp, Option.some.injEq] at h
          subst h; simp [St.triggered]
        | reset sid =>
          simp only [E, Choreo.expected] at h
          split at h <;> (simp at h; subst h; trig_close)
        | shutdownComplete =>
          simp only [E, Choreo.expected, applyOps, List.foldl, applyOp, Option.some.injEq] at h
          subst h; simp [St.triggered]
        | shutdownAck => simp at h; subst h; trig_close
      · simp at h
    · simp at h
  · simp only [step] at h
    split at h
    · rename_i err hr
      split at h
      · simp only [chArm, E, Choreo.expected, Bool.true_and, Bool.and_self, ite_self] at h
        split at h
        · split at h
          · rename_i client hcn
            simp at h; subst h; trig_close
          · simp at h
        · split at h
          · simp at h; subst h; trig_close
          · simp at h
        · split at h
          · simp at h; subst h; trig_close
          · simp at h
        · simp at h
      · simp at h
    · simp at h
  · simp only [step] at h
    split at h
    · rename_i k hr
      split at h
      · simp at h; subst h; simp [St.triggered]
      · rename_i op hop
        simp only [Option.map_eq_some_iff] at h
        obtain ⟨s1, _, rfl⟩ := h
        simp [St.triggered]
    · simp at h

theorem trig_wl (s s' : St) (a : Act) (ht : s.triggered = true) (h : step E s a = some s')
    (ha : (∃ n f, a = .wlGather n f) ∨ a = .wlWrite ∨ (∃ arm, a = .wlSel arm) ∨ a = .wlCwArm ∨ a = .wlClosing ∨ a = .wlExit) :
    s'.triggered = true := by
  rcases ha with ⟨n, f, rfl⟩ | rfl | ⟨arm, rfl⟩ | rfl | rfl | rfl
  · simp only [step] at h
    split at h
    · rename_i hg
      simp at hg
      split at h
      · simp at h; subst h; trig_close
      · split at h
        · simp at h; subst h; trig_close
        · simp at h
    · simp at h
  · simp only [step] at h
    split at h
    · rename_i ok ab hw
      simp at h; subst h; trig_close
    · rename_i n ok ab hw
      simp only [E, Choreo.expected, applyOp, ite_true] at h
      cases ab <;> simp only [Bool.false_eq_true, ite_false, ite_true] at h <;>
        (split at h <;> (simp only [Option.some.injEq] at h; subst h; trig_close))
    · simp at h
  · simp only [step, E, Choreo.expected] at h
    split at h
    · rename_i hw
      simp at hw
      split at h
      · simp only [Option.ite_none_right_eq_some, Option.some.injEq, Bool.true_and] at h
        obtain ⟨hg, rfl⟩ := h
        trig_close
      · simp only [Option.ite_none_right_eq_some, Option.some.injEq, Bool.true_and, ite_true] at h
        obtain ⟨hg, rfl⟩ := h
        trig_close
    · simp at h
  · simp only [step] at h
    split at h
    · rename_i hg; simp at hg
      simp at h; subst h; trig_close
    · simp at h
  · simp only [step] at h
    split at h
    · rename_i hg; simp at hg
      simp only [E, Choreo.expected, applyOps, List.foldl, applyOp, Option.some.injEq] at h
      subst h; simp [St.triggered]
    · simp at h
  · simp only [step] at h
    split at h
    · rename_i hg; simp at hg
      simp only [applyOps, List.foldl, applyOp, Option.some.injEq] at h
      subst h; trig_close
    · simp at h

theorem trig_tl_tc (s s' : St) (a : Act) (ht : s.triggered = true) (h : step E s a = some s')
    (ha : a = .tlExit ∨ a = .tlCb ∨ a = .tcRun ∨ ∃ arm, a = .tcCH arm) : s'.triggered = true := by
  rcases ha with rfl | rfl | rfl | ⟨arm, rfl⟩
  · simp only [step, Option.ite_none_right_eq_some, Option.some.injEq] at h
    obtain ⟨hg, rfl⟩ := h
    simpa [St.triggered] using ht
  · simp only [step, Option.ite_none_right_eq_some, Option.some.injEq] at h
    obtain ⟨hg, rfl⟩ := h
    simpa [St.triggered] using ht
  · simp only [step] at h
    split at h
    · split at h
      · split at h <;> (simp at h; subst h; simpa [St.triggered] using ht)
      · simp at h
    · simp at h
  · simp only [step] at h
    split at h
    · simp only [chArm, E, Choreo.expected, Bool.true_and, Bool.and_self, ite_self] at h
      split at h
      · split at h
        · rename_i client hcn
          simp at h; subst h; trig_close
        · simp at h
      · split at h
        · simp at h; subst h; simpa [St.triggered] using ht
        · simp at h
      · split at h
        · simp at h; subst h; simpa [St.triggered] using ht
        · simp at h
      · simp at h
    · simp at h

theorem trig_cn (s s' : St) (arm : Nat) (hi : Inv s) (ht : s.triggered = true) (h : step E s (.cn arm) = some s') :
    s'.triggered = true := by
  simp only [step] at h
  split at h
  · rename_i client hcn
    split at h
    · simp only [E, Choreo.expected, ite_self, Bool.true_and, Option.ite_none_right_eq_some, Option.some.injEq] at h
      obtain ⟨hg, rfl⟩ := h
      trig_close
    · simp only [E, Choreo.expected, Bool.and_true, Option.ite_none_right_eq_some, Option.some.injEq] at h
      obtain ⟨hg, rfl⟩ := h
      simp [St.triggered]
  · rename_i k hcn
    obtain ⟨h2, h4, h5, hk⟩ := hi.cnClosing k hcn
    split at h
    · simp at h; subst h
      rename_i hnone
      have hk5 : k = 5 := by
        rcases k with _|_|_|_|_|k <;> simp [E, Choreo.expected] at hnone
        omega
      have := hi.cf (h2 (by omega))
      simp [St.triggered, this]
    · simp only [Option.map_eq_some_iff] at h
      obtain ⟨s1, _, rfl⟩ := h
      simp [St.triggered]
  · simp at h

theorem trig_call (s s' : St) (i arm : Nat) (hi : Inv s) (ht : s.triggered = true) (h : step E s (.call i arm) = some s') :
    s'.triggered = true := by
  simp only [step, callerStep] at h
  split at h
  · simp at h
  · rename_i c hci
    have hmem : c ∈ s.callers := List.mem_of_getElem? hci
    have hc0 := hi.cs c hmem
    have keep : ∀ (c' : Caller) (s1 : St), s1.callers = s.callers → (s.rdFail = true → s1.rdFail = true) → s1.rl = s.rl → s1.wl = s.wl →
        s1.wrFail = s.wrFail → s1.cn = s.cn → (c.active = false ∨ c'.active = true ∨ s1.rdFail = true) → (setCaller s1 i c').triggered = true := by
      intro c' s1 e1 e2 e3 e4 e5 e6 hc
      simp only [St.triggered, setCaller, Bool.or_eq_true, e1, e3, e4, e5, e6] at *
      rcases hc with hc | hc | hc
      · rcases ht with (((ht | ht) | ht) | ht) | ht
        · exact Or.inl (Or.inl (Or.inl (Or.inl (e2 ht))))
        · exact Or.inl (Or.inl (Or.inl (Or.inr ht)))
        · exact Or.inl (Or.inl (Or.inr ht))
        · exact Or.inl (Or.inr ht)
        · exact Or.inr (any_active_set _ _ _ _ hci (Or.inl hc) ht)
      · rcases ht with (((ht | ht) | ht) | ht) | ht
        · exact Or.inl (Or.inl (Or.inl (Or.inl (e2 ht))))
        · exact Or.inl (Or.inl (Or.inl (Or.inr ht)))
        · exact Or.inl (Or.inl (Or.inr ht))
        · exact Or.inl (Or.inr ht)
        · exact Or.inr (any_active_set _ _ _ _ hci (Or.inr hc) ht)
      · exact Or.inl (Or.inl (Or.inl (Or.inl hc)))
    cases c with
    | idle k => simp at h
    | fin k r => simp at h
    | rdWait sid w =>
      simp only [Option.ite_none_right_eq_some, Option.some.injEq] at h
      obtain ⟨hg, rfl⟩ := h
      exact keep _ s rfl id rfl rfl rfl rfl (Or.inl rfl)
    | wrBegin =>
      simp only at h
      split at h
      · split at h
        · simp at h; subst h; exact keep _ s rfl id rfl rfl rfl rfl (Or.inl rfl)
        · split at h
          · simp at h; subst h; exact keep _ s rfl id rfl rfl rfl rfl (Or.inl rfl)
          · simp at h; subst h; exact keep _ _ rfl id rfl rfl rfl rfl (Or.inl rfl)
      · simp at h
    | wrWait =>
      simp only [E, Choreo.expected, Bool.true_and] at h
      split at h <;>
        (simp only [Option.ite_none_right_eq_some, Option.some.injEq] at h; obtain ⟨hg, rfl⟩ := h
         exact keep _ s rfl id rfl rfl rfl rfl (Or.inl rfl))
    | accWait =>
      simp only [E, Choreo.expected, Bool.true_and, Option.ite_none_right_eq_some, Option.some.injEq] at h
      obtain ⟨hg, rfl⟩ := h
      exact keep _ s rfl id rfl rfl rfl rfl (Or.inl rfl)
    | shBegin =>
      simp only at h
      split at h
      · split at h
        · simp at h; subst h; exact keep _ s rfl id rfl rfl rfl rfl (Or.inl rfl)
        · simp only [E, Choreo.expected, applyOp, ite_true, Option.some.injEq] at h; subst h
          exact keep _ _ rfl id rfl rfl rfl rfl (Or.inl rfl)
      · simp at h
    | shWait =>
      simp only [E, Choreo.expected, Bool.true_and, ite_true] at h
      split at h
      · simp only [Option.ite_none_right_eq_some, Option.some.injEq] at h
        obtain ⟨hg, hl, rfl⟩ := h
        exact keep _ s rfl id rfl rfl rfl rfl (Or.inl rfl)
      · simp only [Option.ite_none_right_eq_some, Option.some.injEq] at h
        obtain ⟨hg, rfl⟩ := h
        exact keep _ s rfl id rfl rfl rfl rfl (Or.inl rfl)
    | cl k =>
      simp only [callerInv, Bool.and_eq_true, Bool.or_eq_true, decide_eq_true_eq] at hc0
      rcases k with _|_|_|_|_|k
      · simp [E, Choreo.expected, execOp, applyOp] at h; subst h; exact keep _ _ rfl id rfl rfl rfl rfl (Or.inr (Or.inl rfl))
      · simp [E, Choreo.expected, execOp, applyOp] at h; subst h; exact keep _ _ rfl (fun _ => rfl) rfl rfl rfl rfl (Or.inr (Or.inl rfl))
      · simp [E, Choreo.expected, execOp, applyOp] at h; subst h; exact keep _ _ rfl id rfl rfl rfl rfl (Or.inr (Or.inl rfl))
      · simp [E, Choreo.expected, execOp, applyOp] at h; subst h; exact keep _ _ rfl id rfl rfl rfl rfl (Or.inr (Or.inl rfl))
      · simp only [E, Choreo.expected, execOp, List.getElem?_cons_succ, List.getElem?_cons_zero] at h
        split at h
        · simp at h; subst h; exact keep _ s rfl id rfl rfl rfl rfl (Or.inr (Or.inl rfl))
        · simp at h
      · have : k = 0 := by omega
        subst this
        simp [E, Choreo.expected] at h; subst h
        have := hi.cf (hc0.1.1.resolve_left (by omega))
        exact keep _ s rfl id rfl rfl rfl rfl (Or.inr (Or.inr this))
    | ab cause k =>
      simp only [callerInv, Bool.and_eq_true, Bool.or_eq_true, decide_eq_true_eq] at hc0
      rcases k with _|_|_|_|_|_|_|k
      · simp only [E, Choreo.expected, execOp, List.getElem?_cons_zero] at h
        split at h
        · simp at h; subst h; exact keep _ _ rfl id rfl rfl rfl rfl (Or.inr (Or.inl rfl))
        · simp at h
      · simp [E, Choreo.expected, execOp, applyOp] at h; subst h; exact keep _ _ rfl id rfl rfl rfl rfl (Or.inr (Or.inl rfl))
      · simp [E, Choreo.expected, execOp, applyOp] at h; subst h; exact keep _ _ rfl id rfl rfl rfl rfl (Or.inr (Or.inl rfl))
      · simp [E, Choreo.expected, execOp, applyOp] at h; subst h; exact keep _ _ rfl id rfl rfl rfl rfl (Or.inr (Or.inl rfl))
      · simp [E, Choreo.expected, execOp, applyOp] at h; subst h; exact keep _ _ rfl (fun _ => rfl) rfl rfl rfl rfl (Or.inr (Or.inl rfl))
      · simp only [E, Choreo.expected, execOp, List.getElem?_cons_succ, List.getElem?_cons_zero] at h
        split at h
        · simp at h; subst h; exact keep _ s rfl id rfl rfl rfl rfl (Or.inr (Or.inl rfl))
        · simp at h
      · simp [E, Choreo.expected, execOp, applyOp] at h; subst h; exact keep _ _ rfl id rfl rfl rfl rfl (Or.inr (Or.inl rfl))
      · have : k = 0 := by omega
        subst this
        simp [E, Choreo.expected] at h; subst h
        have := hc0.1.resolve_left (by omega)
        exact keep _ s rfl id rfl rfl rfl rfl (Or.inr (Or.inr this))

/-- **a teardown, once set off, stays set off** -/
theorem trig_step (s s' : St) (a : Act) (hi : Inv s) (ht : s.triggered = true) (h : step E s a = some s') : s'.triggered = true := by
  cases ha : a.isEnv
  · cases a <;> simp [Act.isEnv] at ha
    · exact trig_rl s s' _ hi ht h (by simp)
    · exact trig_rl s s' _ hi ht h (by simp)
    · exact trig_rl s s' _ hi ht h (by simp)
    · exact trig_rl s s' _ hi ht h (by simp)
    · exact trig_wl s s' _ ht h (by simp)
    · exact trig_wl s s' _ ht h (by simp)
    · exact trig_wl s s' _ ht h (by simp)
    · exact trig_wl s s' _ ht h (by simp)
    · exact trig_wl s s' _ ht h (by simp)
    · exact trig_wl s s' _ ht h (by simp)
    · exact trig_tl_tc s s' _ ht h (by simp)
    · exact trig_tl_tc s s' _ ht h (by simp)
    · exact trig_tl_tc s s' _ ht h (by simp)
    · exact trig_tl_tc s s' _ ht h (by simp)
    · exact trig_cn s s' _ hi ht h
    · exact trig_call s s' _ _ hi ht h
  · exact trig_env s s' a ha ht h

theorem trig_run (s s' : St) (as : List Act) (hi : Inv s) (ht : s.triggered = true) (h : run E s as = some s') :
    s'.triggered = true := by
  induction as generalizing s with
  | nil => simp [run] at h; subst h; exact ht
  | cons a as ih =>
    simp only [run] at h
    split at h
    · rename_i s1 h1
      exact ih s1 (inv_step s s1 a hi h1) (trig_step s s1 a hi ht h1) h
    · simp at h

/-! ### what the callers get -/

def Res.isFailure : Res → Bool
  | .eof | .err _ => true
  | _ => false

theorem applyOp_len (ch : Choreo) (s : St) (op : Op) : (applyOp ch s op).callers.length = s.callers.length := by
  cases op <;> simp only [applyOp, wakeReaders_length] <;> (try split) <;> rfl

theorem execOp_len (ch : Choreo) (s s1 : St) (c : String) (op : Op) (h : execOp ch s c op = some s1) :
    s1.callers.length = s.callers.length := by
  cases op <;> simp only [execOp, Option.some.injEq] at h <;> (try (subst h; exact applyOp_len ch s _))
  all_goals (split at h <;> simp at h; subst h; rfl)

/-- the result with which the package (not the environment) lets a call return, by the place it was waiting at -/
theorem call_result (s s' : St) (i arm : Nat) (c : Caller) (k : Kind) (r : Res)
    (hc : s.callers[i]? = some c) (h : step E s (.call i arm) = some s') (hf : s'.callers[i]? = some (.fin k r)) :
    match c with
    | .rdWait sid _ => r = readRes s sid ∧ r.isFailure = true
    | .wrBegin => (r = .ok ∧ s.notEst = false) ∨ (r = .err .notEstablished ∧ s.notEst = true)
    | .wrWait => r = .err .ctx
    | .accWait => r = .eof
    | .shBegin => r = .err .shutdownNonEstablished
    | .shWait => (r = .nil ∧ s.cw = true ∧ s.sdAcked = true) ∨ (r = .err .shutdownIncomplete ∧ s.cw = true ∧ s.sdAcked = false) ∨ r = .err .ctx
    | .cl _ => r = .ok
    | .ab _ _ => r = .ok
    | _ => False := by
  have hlt : i < s.callers.length := by
    rcases Nat.lt_or_ge i s.callers.length with h | h
    · exact h
    · simp [List.getElem?_eq_none h] at hc
  simp only [step, callerStep, hc] at h
  cases c with
  | idle k0 => simp at h
  | fin k0 r0 => simp at h
  | rdWait sid w =>
    simp only [Option.ite_none_right_eq_some, Option.some.injEq] at h
    obtain ⟨hg, rfl⟩ := h
    simp [setCaller, hlt] at hf
    refine ⟨hf.2.symm, ?_⟩
    rw [← hf.2]; unfold readRes; split
    · rfl
    · split <;> rfl
  | wrBegin =>
    simp only at h
    split at h
    · split at h
      · rename_i hn
        simp at h; subst h; simp [setCaller, hlt] at hf; exact Or.inr ⟨hf.2.symm, hn⟩
      · rename_i hn
        split at h
        · simp at h; subst h; simp [setCaller, hlt] at hf
        · simp at h; subst h; simp [setCaller, hlt] at hf
          exact Or.inl ⟨hf.2.symm, by simpa using hn⟩
    · simp at h
  | wrWait =>
    simp only [E, Choreo.expected, Bool.true_and] at h
    split at h
    · simp only [Option.ite_none_right_eq_some, Option.some.injEq] at h
      obtain ⟨hg, rfl⟩ := h
      simp [setCaller, hlt] at hf
    · simp only [Option.ite_none_right_eq_some, Option.some.injEq] at h
      obtain ⟨hg, rfl⟩ := h
      simp [setCaller, hlt] at hf; exact hf.2.symm
  | accWait =>
    simp only [E, Choreo.expected, Bool.true_and, Option.ite_none_right_eq_some, Option.some.injEq] at h
    obtain ⟨hg, rfl⟩ := h
    simp [setCaller, hlt] at hf; exact hf.2.symm
  | shBegin =>
    simp only at h
    split at h
    · split at h
      · simp at h; subst h; simp [setCaller, hlt] at hf; exact hf.2.symm
      · simp only [E, Choreo.expected, applyOp, ite_true, Option.some.injEq] at h; subst h
        simp [setCaller, hlt] at hf
    · simp at h
  | shWait =>
    simp only [E, Choreo.expected, Bool.true_and, ite_true] at h
    split at h
    · simp only [Option.ite_none_right_eq_some, Option.some.injEq] at h
      obtain ⟨hg, hl, rfl⟩ := h
      simp [setCaller, hlt] at hf
      cases hsa : s.sdAcked
      · simp [hsa] at hf; exact Or.inr (Or.inl ⟨hf.2.symm, hg, rfl⟩)
      · simp [hsa] at hf; exact Or.inl ⟨hf.2.symm, hg, rfl⟩
    · simp only [Option.ite_none_right_eq_some, Option.some.injEq] at h
      obtain ⟨hg, rfl⟩ := h
      simp [setCaller, hlt] at hf; exact Or.inr (Or.inr hf.2.symm)
  | cl k0 =>
    simp only at h
    split at h
    · simp at h; subst h; simp [setCaller, hlt] at hf; exact hf.2.symm
    · simp only [Option.map_eq_some_iff] at h
      obtain ⟨s1, hs1, rfl⟩ := h
      have := execOp_len _ _ _ _ _ hs1
      simp [setCaller, this, hlt] at hf
  | ab cause k0 =>
    simp only at h
    split at h
    · simp at h; subst h; simp [setCaller, hlt] at hf; exact hf.2.symm
    · simp only [Option.map_eq_some_iff] at h
      obtain ⟨s1, hs1, rfl⟩ := h
      have := execOp_len _ _ _ _ _ hs1
      simp [setCaller, this, hlt] at hf

/-! ### the wire -/

/-- a `netConn.Write` issued after `netConn.Close()` fails and ends `writeLoop`: it goes to its exit path and writes nothing more -/
theorem write_after_close_fails (s s' : St) (n : Nat) (ok ab : Bool) (hw : s.wl = .write (n+1) ok ab) (hc : s.conn = true)
    (h : step E s .wlWrite = some s') : s'.wl = .exit ∧ s'.lateWrites = s.lateWrites + 1 := by
  simp only [step, hw, hc, Bool.true_or, ite_true, E, Choreo.expected, applyOp, Option.some.injEq] at h
  subst h
  cases ab <;> simp

/-- `Abort(cause)`: what the next gather puts on the wire is exactly the stored cause, as a lone terminal packet -/
theorem gather_abort (s s' : St) (n : Nat) (f : Bool) (c : String) (hwa : s.willAbort = some c)
    (h : step E s (.wlGather n f) = some s') : s'.wireAbort = some c ∧ s'.wl = .write 1 false true ∧ s'.willAbort = none := by
  simp only [step] at h
  split at h
  · simp only [hwa, Option.some.injEq] at h
    subst h; simp
  · simp at h

/-- an inbound ABORT makes its cause the close error and sends `readLoop` into its deferred block -/
theorem handle_abort (s s' : St) (c : String) (hr : s.rl = .handling (.abort c)) (h : step E s .rlHandle = some s') :
    s'.closeErr = some (.abort c) ∧ s'.rl = .defer 0 ∧ s'.conn = true ∧ s'.cw = true := by
  simp only [step, hr] at h
  split at h
  · simp only [E, Choreo.expected, applyOps, List.foldl, applyOp, Option.some.injEq] at h
    subst h; simp
  · simp at h

theorem applyOp_closeErr (ch : Choreo) (s : St) (op : Op) : (applyOp ch s op).closeErr = s.closeErr := by
  cases op <;> simp only [applyOp] <;> (try split) <;> rfl

theorem execOp_closeErr (ch : Choreo) (s s1 : St) (c : String) (op : Op) (h : execOp ch s c op = some s1) :
    s1.closeErr = s.closeErr := by
  cases op <;> simp only [execOp, Option.some.injEq] at h <;> (try (subst h; exact applyOp_closeErr ch s _))
  all_goals (split at h <;> simp at h; subst h; rfl)

theorem chArm_closeErr (ch : Choreo) (s s1 : St) (err : Bool) (arm : Nat) (h : chArm ch s err arm = some s1) :
    s1.closeErr = s.closeErr := by
  unfold chArm at h
  (repeat' split at h) <;> simp at h <;> (try (obtain ⟨_, rfl⟩ := h)) <;> (try subst h) <;> rfl

/-- once `readLoop` is on its way out, the close error never changes -/
theorem closeErr_stable (s s' : St) (a : Act) (hl : leaving s = true) (h : step E s a = some s') : s'.closeErr = s.closeErr := by
  cases a
  case rlReadErr => simp only [step] at h; split at h <;> simp_all [leaving]
  case rlHandle => simp only [step] at h; split at h <;> simp_all [leaving]
  case rlDefer =>
    simp only [step] at h
    split at h
    · split at h
      · simp at h; subst h; rfl
      · simp only [Option.map_eq_some_iff] at h
        obtain ⟨s1, hs1, rfl⟩ := h
        (have := execOp_closeErr _ _ _ _ _ hs1; simpa [setCaller] using this)
    · simp at h
  case cn arm =>
    simp only [step] at h
    split at h
    · split at h <;> (simp only [Option.ite_none_right_eq_some, Option.some.injEq] at h; obtain ⟨_, rfl⟩ := h; rfl)
    · split at h
      · simp at h; subst h; rfl
      · simp only [Option.map_eq_some_iff] at h
        obtain ⟨s1, hs1, rfl⟩ := h
        (have := execOp_closeErr _ _ _ _ _ hs1; simpa [setCaller] using this)
    · simp at h
  case call i arm =>
    simp only [step, callerStep] at h
    split at h
    · simp at h
    · rename_i c hci
      cases c <;> simp only at h
      case idle => simp at h
      case fin => simp at h
      case rdWait => simp only [Option.ite_none_right_eq_some, Option.some.injEq] at h; obtain ⟨_, rfl⟩ := h; rfl
      case wrBegin => (repeat' split at h) <;> simp at h <;> subst h <;> rfl
      case wrWait => (repeat' split at h) <;> simp at h <;> (obtain ⟨_, rfl⟩ := h; rfl)
      case accWait => simp only [Option.ite_none_right_eq_some, Option.some.injEq] at h; obtain ⟨_, rfl⟩ := h; rfl
      case shBegin =>
        split at h
        · split at h
          · simp at h; subst h; rfl
          · simp only [Option.some.injEq] at h; subst h; simp [setCaller, applyOp_closeErr]
        · simp at h
      case shWait => (repeat' split at h) <;> simp at h <;> (obtain ⟨_, rfl⟩ := h; rfl)
      case cl =>
        split at h
        · simp at h; subst h; rfl
        · simp only [Option.map_eq_some_iff] at h
          obtain ⟨s1, hs1, rfl⟩ := h
          (have := execOp_closeErr _ _ _ _ _ hs1; simpa [setCaller] using this)
      case ab =>
        split at h
        · simp at h; subst h; rfl
        · simp only [Option.map_eq_some_iff] at h
          obtain ⟨s1, hs1, rfl⟩ := h
          (have := execOp_closeErr _ _ _ _ _ hs1; simpa [setCaller] using this)
  all_goals (simp only [step] at h; (repeat' split at h) <;> (try simp at h) <;> (try subst h) <;> (try rfl))
  all_goals (
    obtain ⟨s1, hs1, rfl⟩ := h
    have := chArm_closeErr _ _ _ _ _ hs1
    simpa using this)

theorem applyOp_sdAcked (ch : Choreo) (s : St) (op : Op) : (applyOp ch s op).sdAcked = s.sdAcked := by
  cases op <;> simp only [applyOp] <;> (try split) <;> rfl

theorem execOp_sdAcked (ch : Choreo) (s s1 : St) (c : String) (op : Op) (h : execOp ch s c op = some s1) :
    s1.sdAcked = s.sdAcked := by
  cases op <;> simp only [execOp, Option.some.injEq] at h <;> (try (subst h; exact applyOp_sdAcked ch s _))
  all_goals (split at h <;> simp at h; subst h; rfl)

theorem chArm_sdAcked (ch : Choreo) (s s1 : St) (err : Bool) (arm : Nat) (h : chArm ch s err arm = some s1) :
    s1.sdAcked = s.sdAcked := by
  unfold chArm at h
  (repeat' split at h) <;> simp at h <;> (try (obtain ⟨_, rfl⟩ := h)) <;> (try subst h) <;> rfl

/-- only `rlHandle` touches the completion flag of Shutdown -/
theorem sdAcked_unchanged (s s' : St) (a : Act) (ha : a ≠ .rlHandle) (h : step E s a = some s') : s'.sdAcked = s.sdAcked := by
  cases a
  case rlReadErr => simp only [step] at h; split at h <;> (simp at h; try subst h; try rfl)
  case rlHandle => exact absurd rfl ha
  case rlDefer =>
    simp only [step] at h
    split at h
    · split at h
      · simp at h; subst h; rfl
      · simp only [Option.map_eq_some_iff] at h
        obtain ⟨s1, hs1, rfl⟩ := h
        (have := execOp_sdAcked _ _ _ _ _ hs1; simpa [setCaller] using this)
    · simp at h
  case cn arm =>
    simp only [step] at h
    split at h
    · split at h <;> (simp only [Option.ite_none_right_eq_some, Option.some.injEq] at h; obtain ⟨_, rfl⟩ := h; rfl)
    · split at h
      · simp at h; subst h; rfl
      · simp only [Option.map_eq_some_iff] at h
        obtain ⟨s1, hs1, rfl⟩ := h
        (have := execOp_sdAcked _ _ _ _ _ hs1; simpa [setCaller] using this)
    · simp at h
  case call i arm =>
    simp only [step, callerStep] at h
    split at h
    · simp at h
    · rename_i c hci
      cases c <;> simp only at h
      case idle => simp at h
      case fin => simp at h
      case rdWait => simp only [Option.ite_none_right_eq_some, Option.some.injEq] at h; obtain ⟨_, rfl⟩ := h; rfl
      case wrBegin => (repeat' split at h) <;> simp at h <;> subst h <;> rfl
      case wrWait => (repeat' split at h) <;> simp at h <;> (obtain ⟨_, rfl⟩ := h; rfl)
      case accWait => simp only [Option.ite_none_right_eq_some, Option.some.injEq] at h; obtain ⟨_, rfl⟩ := h; rfl
      case shBegin =>
        split at h
        · split at h
          · simp at h; subst h; rfl
          · simp only [Option.some.injEq] at h; subst h; simp [setCaller, applyOp_sdAcked]
        · simp at h
      case shWait => (repeat' split at h) <;> simp at h <;> (obtain ⟨_, rfl⟩ := h; rfl)
      case cl =>
        split at h
        · simp at h; subst h; rfl
        · simp only [Option.map_eq_some_iff] at h
          obtain ⟨s1, hs1, rfl⟩ := h
          (have := execOp_sdAcked _ _ _ _ _ hs1; simpa [setCaller] using this)
      case ab =>
        split at h
        · simp at h; subst h; rfl
        · simp only [Option.map_eq_some_iff] at h
          obtain ⟨s1, hs1, rfl⟩ := h
          (have := execOp_sdAcked _ _ _ _ _ hs1; simpa [setCaller] using this)
  all_goals (simp only [step] at h; (repeat' split at h) <;> (try simp at h) <;> (try subst h) <;> (try rfl))
  all_goals (
    obtain ⟨s1, hs1, rfl⟩ := h
    have := chArm_sdAcked _ _ _ _ _ hs1
    simpa using this)

/-! ### the terminal read error is sticky -/

theorem applyOp_gone_unreg (s : St) (op : Op) : (applyOp E s op).gone = s.gone ∧ (s.unreg = true → (applyOp E s op).unreg = true) := by
  cases op <;> simp [applyOp, E, Choreo.expected]

theorem execOp_gone_unreg (s s1 : St) (c : String) (op : Op) (h : execOp E s c op = some s1) :
    s1.gone = s.gone ∧ (s.unreg = true → s1.unreg = true) := by
  cases op <;> simp only [execOp, Option.some.injEq] at h <;> (try (subst h; exact applyOp_gone_unreg s _))
  all_goals (split at h <;> simp at h; subst h; exact ⟨rfl, id⟩)

theorem chArm_gone_unreg (s s1 : St) (err : Bool) (arm : Nat) (h : chArm E s err arm = some s1) :
    s1.gone = s.gone ∧ s1.unreg = s.unreg := by
  unfold chArm at h
  (repeat' split at h) <;> simp at h <;> (try (obtain ⟨_, rfl⟩ := h)) <;> (try subst h) <;> exact ⟨rfl, rfl⟩

/-- Once every stream has been unregistered with the close error (`unreg`), no step - in particular no read deadline that
expires afterwards (`envDeadline`) - changes what a read on any stream returns: `unreg` stays, the set of streams that ended
with EOF stays, the close error stays (`closeErr_stable`), and no terminal error is ever lost (`Inv.lost`). -/
theorem terminal_sticky (s s' : St) (a : Act) (hi : Inv s) (hu : s.unreg = true) (h : step E s a = some s') :
    s'.unreg = true ∧ s'.gone = s.gone ∧ s'.closeErr = s.closeErr ∧ s'.lost = [] := by
  have hl : leaving s = true := by
    have := hi.u4 hu
    unfold leaving; unfold prog at this
    cases hrl : s.rl <;> simp [hrl] at this ⊢
  have hce := closeErr_stable s s' a hl h
  have hlost := (inv_step s s' a hi h).lost
  refine ⟨?_, ?_, hce, hlost⟩ <;>
  · cases a
    case rlHandle =>
      simp only [step] at h
      split at h
      · rename_i p hp; simp [leaving, hp] at hl
      · simp at h
    case rlDefer =>
      simp only [step] at h
      split at h
      · split at h
        · simp at h; subst h; first | exact hu | rfl
        · simp only [Option.map_eq_some_iff] at h
          obtain ⟨s1, hs1, rfl⟩ := h
          have := execOp_gone_unreg s s1 _ _ hs1
          first | exact this.2 hu | exact this.1
      · simp at h
    case cn arm =>
      simp only [step] at h
      split at h
      · split at h <;> (simp only [Option.ite_none_right_eq_some, Option.some.injEq] at h; obtain ⟨_, rfl⟩ := h; first | exact hu | rfl)
      · split at h
        · simp at h; subst h; first | exact hu | rfl
        · simp only [Option.map_eq_some_iff] at h
          obtain ⟨s1, hs1, rfl⟩ := h
          have := execOp_gone_unreg s s1 _ _ hs1
          first | exact this.2 hu | exact this.1
      · simp at h
    case rlCH arm =>
      simp only [step] at h
      split at h
      · split at h
        · obtain ⟨s1, hs1, rfl⟩ := Option.map_eq_some_iff.mp h
          have := chArm_gone_unreg s s1 _ _ hs1
          first | (show s1.unreg = true; rw [this.2]; exact hu) | exact this.1
        · simp at h
      · simp at h
    case tcCH arm =>
      simp only [step] at h
      split at h
      · obtain ⟨s1, hs1, rfl⟩ := Option.map_eq_some_iff.mp h
        have := chArm_gone_unreg s s1 _ _ hs1
        first | (show s1.unreg = true; rw [this.2]; exact hu) | exact this.1
      · simp at h
    case call i arm =>
      simp only [step, callerStep] at h
      split at h
      · simp at h
      · rename_i c hci
        cases c <;> simp only at h
        case idle => simp at h
        case fin => simp at h
        case cl =>
          split at h
          · simp at h; subst h; first | exact hu | rfl
          · simp only [Option.map_eq_some_iff] at h
            obtain ⟨s1, hs1, rfl⟩ := h
            have := execOp_gone_unreg s s1 _ _ hs1
            first | exact this.2 hu | exact this.1
        case ab =>
          split at h
          · simp at h; subst h; first | exact hu | rfl
          · simp only [Option.map_eq_some_iff] at h
            obtain ⟨s1, hs1, rfl⟩ := h
            have := execOp_gone_unreg s s1 _ _ hs1
            first | exact this.2 hu | exact this.1
        all_goals ((repeat' split at h) <;> (try simp at h) <;> (try (obtain ⟨_, rfl⟩ := h)) <;> (try subst h) <;>
          (first | exact hu | rfl | (simp [setCaller, applyOp, E, Choreo.expected]; try exact hu)))
    all_goals ((simp only [step] at h; (repeat' split at h) <;> (try simp at h) <;> (try (obtain ⟨_, rfl⟩ := h)) <;> (try subst h) <;>
      (first | exact hu | rfl | (simp [applyOps, applyOp, E, Choreo.expected]; try exact hu))))

/-! ### Close on a closed association -/

structure Closed (s : St) : Prop where
  conn : s.conn = true
  rdFail : s.rdFail = true
  stClosed : s.stClosed = true
  notEst : s.notEst = true
  timers : s.timersClosed = true
  cw : s.cw = true
  rc : s.rc = true

theorem applyOp_closed (s : St) (hc : Closed s) (op : Op) (hop : op ∈ [Op.setClosed, .closeConn, .closeTimers, .closeCw]) :
    applyOp E s op = s := by
  obtain ⟨h1, h2, h3, h4, h5, h6, h7⟩ := hc
  cases s
  simp only at h1 h2 h3 h4 h5 h6 h7
  subst h1 h2 h3 h4 h5 h6 h7
  simp only [List.mem_cons, List.not_mem_nil, or_false] at hop
  rcases hop with rfl | rfl | rfl | rfl <;> simp [applyOp]

theorem setCaller_get (s : St) (i : Nat) (c : Caller) (h : i < s.callers.length) : (setCaller s i c).callers[i]? = some c := by
  simp [setCaller, h]

theorem setCaller_setCaller (s : St) (i : Nat) (c c' : Caller) : setCaller (setCaller s i c) i c' = setCaller s i c' := by
  simp [setCaller]

theorem closed_setCaller (s : St) (i : Nat) (c : Caller) (h : Closed s) : Closed (setCaller s i c) := by
  obtain ⟨h1, h2, h3, h4, h5, h6, h7⟩ := h
  constructor <;> simpa [setCaller]

/-- one statement of `Close()` executed on an association that is already closed changes nothing but the caller's program counter -/
theorem close_step_closed (s : St) (i k : Nat) (hc : Closed s) (hi : s.callers[i]? = some (.cl k)) (hk : k < 5) :
    step E s (.call i 0) = some (setCaller s i (.cl (k+1))) := by
  simp only [step, callerStep, hi]
  rcases k with _|_|_|_|_|k
  · simp [E, Choreo.expected, execOp, applyOp_closed s hc .setClosed (by simp)]
    exact congrArg (fun t => setCaller t i (.cl 1)) (applyOp_closed s hc .setClosed (by simp))
  · simp [E, Choreo.expected, execOp]
    exact congrArg (fun t => setCaller t i (.cl 2)) (applyOp_closed s hc .closeConn (by simp))
  · simp [E, Choreo.expected, execOp]
    exact congrArg (fun t => setCaller t i (.cl 3)) (applyOp_closed s hc .closeTimers (by simp))
  · simp [E, Choreo.expected, execOp]
    exact congrArg (fun t => setCaller t i (.cl 4)) (applyOp_closed s hc .closeCw (by simp))
  · simp [E, Choreo.expected, execOp, hc.rc]
  · omega

/-- **Close on a closed association**: the call runs through its five statements and returns; the shared state is
untouched (in particular `netConn.Close()` is not called again: `connCloses` is part of the state) -/
theorem close_again (s : St) (i : Nat) (hc : Closed s) (hi : s.callers[i]? = some (.cl 0)) :
    run E s (List.replicate 6 (.call i 0)) = some (setCaller s i (.fin .cl .ok)) := by
  have hlt : i < s.callers.length := by
    rcases Nat.lt_or_ge i s.callers.length with h | h
    · exact h
    · simp [List.getElem?_eq_none h] at hi
  have len : ∀ c, i < (setCaller s i c).callers.length := by intro c; simp [setCaller, hlt]
  simp only [List.replicate, run]
  rw [close_step_closed s i 0 hc hi (by omega)]
  simp only
  rw [close_step_closed _ i 1 (closed_setCaller s i _ hc) (setCaller_get s i _ hlt) (by omega), setCaller_setCaller]
  simp only
  rw [close_step_closed _ i 2 (closed_setCaller s i _ hc) (setCaller_get s i _ hlt) (by omega), setCaller_setCaller]
  simp only
  rw [close_step_closed _ i 3 (closed_setCaller s i _ hc) (setCaller_get s i _ hlt) (by omega), setCaller_setCaller]
  simp only
  rw [close_step_closed _ i 4 (closed_setCaller s i _ hc) (setCaller_get s i _ hlt) (by omega), setCaller_setCaller]
  simp only [step, callerStep, setCaller_get s i _ hlt, E, Choreo.expected]
  simp [setCaller_setCaller]

/-- the completion flag of Shutdown is raised only by handling the peer's SHUTDOWN-ACK or SHUTDOWN-COMPLETE -/
theorem sdAcked_only_by_peer (s s' : St) (a : Act) (h : step E s a = some s') (hs : s'.sdAcked = true) :
    s.sdAcked = true ∨ (a = .rlHandle ∧ (s.rl = .handling .shutdownAck ∨ s.rl = .handling .shutdownComplete)) := by
  cases hsa : s.sdAcked
  · right
    cases a
    case rlHandle =>
      refine ⟨rfl, ?_⟩
      simp only [step] at h
      split at h
      · rename_i p hp
        split at h
        · cases p with
          | shutdownAck => exact Or.inl hp
          | shutdownComplete => exact Or.inr hp
          | data => simp at h; subst h; simp [hsa] at hs
          | hsFinal e => simp only at h; split at h <;> (simp at h; subst h; simp [hsa] at hs)
          | abort c =>
            simp only [E, Choreo.expected, applyOps, List.foldl, applyOp, Option.some.injEq] at h
            subst h; simp [hsa] at hs
          | reset sid => simp only at h; split at h <;> (simp at h; subst h; simp [hsa] at hs)
        · simp at h
      · simp at h
    all_goals (have := sdAcked_unchanged s s' _ (by simp) h; rw [this, hsa] at hs; cases hs)
  · exact Or.inl rfl

end Conc
