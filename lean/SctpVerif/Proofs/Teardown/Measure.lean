import SctpVerif.Proofs.Teardown.Step
/-!
Termination: a measure that every step (of the package AND of the environment, which spends `fuel`) strictly decreases.
-/
namespace Conc
set_option maxRecDepth 4000

def rlP : RL → Nat
  | .done => 0
  | .defer k => 10 - k
  | .reading => 11
  | .inCH _ => 12
  | .handling _ => 17

def wlP (abortPending : Bool) : WL → Nat
  | .done => 0
  | .exit => 1
  | .closing => 1
  | .write n ok _ => n + 1 + (if ok then 10 else 2)
  | .sel => 10
  | .cwArm => 6
  | .gather => if abortPending then 5 else 12

def tlP : TL → Nat
  | .done => 0
  | .sel => 2
  | .cb => 3

def tcP : TC → Nat
  | .idle => 0
  | .inCH => 2
  | .spawned _ => 6

def cnP : CN → Nat
  | .fin _ => 0
  | .closing k => 7 - k
  | .sel _ => 8

def callerP (notEst : Bool) : Caller → Nat
  | .idle _ => 0
  | .fin _ _ => 0
  | .rdWait _ _ => 1
  | .wrBegin => if notEst then 1 else 6
  | .wrWait => 2
  | .accWait => 1
  | .shBegin => 5
  | .shWait => 1
  | .cl k => 7 - k
  | .ab _ k => 4 * (8 - k)

def sumP (notEst : Bool) (cs : List Caller) : Nat := (cs.map (callerP notEst)).sum

/-- the measure -/
def mu (s : St) : Nat :=
  40 * s.fuel + rlP s.rl + wlP s.willAbort.isSome s.wl + (if s.awake then 3 else 0) + tlP s.tl + tcP s.tc + cnP s.cn +
    sumP s.notEst s.callers

theorem callerP_mono (c : Caller) (b : Bool) : callerP true c ≤ callerP b c := by
  cases c <;> cases b <;> simp [callerP]

theorem sumP_mono (cs : List Caller) (b : Bool) : sumP true cs ≤ sumP b cs := by
  induction cs with
  | nil => simp [sumP]
  | cons c cs ih =>
    have := callerP_mono c b
    simp only [sumP, List.map_cons, List.sum_cons] at *
    omega

theorem sumP_wake (m : Wake) (sel : Nat → Bool) (b : Bool) (cs : List Caller) : sumP b (wakeReaders m sel cs) = sumP b cs := by
  induction cs generalizing sel with
  | nil => rfl
  | cons c cs ih =>
    cases c with
    | rdWait sid w =>
      cases w with
      | false =>
        simp only [wakeReaders]
        split
        · cases m <;> simp only [sumP, List.map_cons, List.sum_cons, callerP] at * <;> rw [ih]
        · simp only [sumP, List.map_cons, List.sum_cons, callerP] at *; rw [ih]
      | true => simp only [wakeReaders, sumP, List.map_cons, List.sum_cons] at *; rw [ih]
    | _ => simp only [wakeReaders, sumP, List.map_cons, List.sum_cons] at * <;> rw [ih]

theorem sumP_set (b : Bool) (cs : List Caller) (i : Nat) (c c' : Caller) (h : cs[i]? = some c) :
    sumP b (cs.set i c') + callerP b c = sumP b cs + callerP b c' := by
  induction cs generalizing i with
  | nil => simp at h
  | cons x xs ih =>
    cases i with
    | zero =>
      simp at h; subst h
      simp only [List.set_cons_zero, sumP, List.map_cons, List.sum_cons]; omega
    | succ i =>
      simp at h
      have := ih i h
      simp only [List.set_cons_succ, sumP, List.map_cons, List.sum_cons] at *; omega

set_option hygiene false in
/-- unfold the measure on both sides, split the two token conditionals, arithmetic -/
macro "mu_close" t:term : tactic => `(tactic| (
  have hmono := sumP_mono s.callers s.notEst
  simp only [mu] at *
  simp only [$t:term, rlP, wlP, tlP, tcP, cnP, sumP_wake, Option.isSome_some, Option.isSome_none] at *
  cases hAw : s.awake <;> cases hWa : s.willAbort <;> simp only [hAw, hWa, Option.isSome_some, Option.isSome_none] at * <;>
    (try simp) <;> (try split) <;> omega))

set_option hygiene false in
macro "mu_omega" : tactic => `(tactic| (
  simp only [mu, setCaller] at *
  cases hAw : s.awake <;> simp only [hAw, ite_true, ite_false, Bool.false_eq_true] at * <;> omega))

set_option hygiene false in
macro "mu_close0" : tactic => `(tactic| (
  have hmono := sumP_mono s.callers s.notEst
  simp only [mu] at *
  simp only [rlP, wlP, tlP, tcP, cnP, sumP_wake, Option.isSome_some, Option.isSome_none] at *
  cases hAw : s.awake <;> cases hWa : s.willAbort <;> simp only [hAw, hWa, Option.isSome_some, Option.isSome_none] at * <;>
    (try simp) <;> (try split) <;> omega))

theorem mu_env (s s' : St) (a : Act) (ha : a.isEnv = true) (hi : Inv s) (h : step E s a = some s') : mu s' < mu s := by
  cases a <;> simp [Act.isEnv] at ha
  case envPacket p =>
    simp only [step] at h
    split at h
    · rename_i hg
      simp at h hg; subst h
      obtain ⟨⟨hr, _⟩, hf⟩ := hg
      mu_close hr
    · simp at h
  case envReadFail =>
    simp only [step] at h
    split at h
    · rename_i hg; simp at h hg; subst h; mu_close0
    · simp at h
  case envWriteFail =>
    simp only [step] at h
    split at h
    · rename_i hg; simp at h hg; subst h; mu_close0
    · simp at h
  case envCtxCancel =>
    simp only [step] at h
    split at h
    · rename_i hg; simp at h hg; subst h; mu_close0
    · simp at h
  case envDeadline sid =>
    simp only [step] at h
    split at h
    · rename_i hg; simp at h hg; subst h; mu_close0
    · simp at h
  case envFire f =>
    simp only [step] at h
    split at h
    · rename_i hg
      simp at h hg; subst h
      obtain ⟨⟨ht, _⟩, hf⟩ := hg
      mu_close ht
    · simp at h
  case envPoke =>
    simp only [step] at h
    split at h
    · rename_i hg
      simp at h hg; subst h
      obtain ⟨ht, hf⟩ := hg
      mu_close ht
    · simp at h
  case envStart i =>
    simp only [step] at h
    split at h
    · rename_i hg
      simp at hg
      split at h
      · rename_i k hk
        simp only [Option.some.injEq] at h; subst h
        have hs := sumP_set s.notEst s.callers i (.idle k) (startCaller s k) hk
        have hb : callerP s.notEst (startCaller s k) ≤ 32 := by
          cases k <;> simp [callerP, startCaller] <;> (try split) <;> omega
        have h0 : callerP s.notEst (.idle k) = 0 := rfl
        mu_omega
      · simp at h
    · simp at h
  case envServe i =>
    simp only [step] at h
    split at h
    · rename_i hg
      simp at hg
      split at h
      · rename_i sid w hk
        simp only [Option.some.injEq] at h; subst h
        have hs := sumP_set s.notEst s.callers i _ (.fin (.rd sid) .ok) hk
        simp only [callerP] at hs
        mu_omega
      · rename_i hk
        split at h
        · simp at h
        · simp only [Option.some.injEq] at h; subst h
          have hs := sumP_set s.notEst s.callers i _ (.fin .acc .ok) hk
          simp only [callerP] at hs
          mu_omega
      · rename_i hk
        simp only [Option.some.injEq] at h; subst h
        have hs := sumP_set s.notEst s.callers i _ .wrBegin hk
        have : callerP s.notEst .wrBegin ≤ 6 := by simp [callerP]; split <;> omega
        have h2 : callerP s.notEst .wrWait = 2 := rfl
        mu_omega
      · simp at h
    · simp at h

theorem mu_rl (s s' : St) (a : Act) (hi : Inv s) (h : step E s a = some s')
    (ha : a = .rlReadErr ∨ a = .rlHandle ∨ (∃ arm, a = .rlCH arm) ∨ a = .rlDefer) : mu s' < mu s := by
  rcases ha with rfl | rfl | ⟨arm, rfl⟩ | rfl
  · simp only [step] at h
    split at h
    · rename_i hg
      simp at h hg; subst h
      obtain ⟨hr, _⟩ := hg
      mu_close hr
    · simp at h
  · simp only [step] at h
    split at h
    · rename_i p hp
      split at h
      · cases p with
        | data => simp at h; subst h; mu_close hp
        | hsFinal err =>
          simp only at h
          split at h <;> (simp at h; subst h; mu_close hp)
        | abort c =>
          simp only [E, Choreo.expected, applyOps, List.foldl, applyOp, Option.some.injEq] at h
          subst h; mu_close hp
        | reset sid =>
          simp only [E, Choreo.expected] at h
          split at h <;> (simp at h; subst h; mu_close hp)
        | shutdownComplete =>
          simp only [E, Choreo.expected, applyOps, List.foldl, applyOp, Option.some.injEq] at h
          subst h; mu_close hp
        | shutdownAck => simp at h; subst h; mu_close hp
      · simp at h
    · simp at h
  · simp only [step] at h
    split at h
    · rename_i err hr
      split at h
      · simp only [chArm, E, Choreo.expected, Bool.true_and, Bool.and_self, ite_self] at h
        split at h
        · split at h
          · rename_i client hcn
            simp at h; subst h; simp only [hcn] at *; mu_close hr
          · simp at h
        · split at h
          · simp at h; subst h; mu_close hr
          · simp at h
        · split at h
          · simp at h; subst h; mu_close hr
          · simp at h
        · simp at h
      · simp at h
    · simp at h
  · simp only [step] at h
    split at h
    · rename_i k hr
      have hk := hi.dk k hr
      rcases k with _|_|_|_|_|_|_|_|k
      · simp [E, Choreo.expected, execOp, applyOp] at h; subst h; mu_close hr
      · simp only [E, Choreo.expected, execOp, List.getElem?_cons_succ, List.getElem?_cons_zero] at h
        split at h
        · simp at h; subst h; mu_close hr
        · simp at h
      · simp [E, Choreo.expected, execOp, applyOp] at h; subst h; mu_close hr
      · simp [E, Choreo.expected, execOp, applyOp] at h; subst h; mu_close hr
      · simp [E, Choreo.expected, execOp, applyOp] at h; subst h; mu_close hr
      · simp [E, Choreo.expected, execOp, applyOp] at h; subst h; mu_close hr
      · simp [E, Choreo.expected, execOp, applyOp] at h; subst h; mu_close hr
      · simp [E, Choreo.expected, execOp, applyOp] at h; subst h; mu_close hr
      · have : k = 0 := by omega
        subst this
        simp [E, Choreo.expected] at h; subst h; mu_close hr
    · simp at h

theorem mu_wl (s s' : St) (a : Act) (h : step E s a = some s')
    (ha : (∃ n f, a = .wlGather n f) ∨ a = .wlWrite ∨ (∃ arm, a = .wlSel arm) ∨ a = .wlCwArm ∨ a = .wlClosing ∨ a = .wlExit) : mu s' < mu s := by
  rcases ha with ⟨n, f, rfl⟩ | rfl | ⟨arm, rfl⟩ | rfl | rfl | rfl
  · simp only [step] at h
    split at h
    · rename_i hg
      simp at hg
      obtain ⟨hw, _⟩ := hg
      split at h
      · rename_i cause hwa
        simp at h; subst h
        have hmono := sumP_mono s.callers s.notEst
        simp only [mu, hw, hwa, rlP, wlP, tlP, tcP, cnP, Option.isSome_some, Option.isSome_none] at *
        cases hAw : s.awake <;> simp [hAw] <;> omega
      · rename_i hwa
        split at h
        · rename_i hn
          simp at h; subst h
          simp only [mu, hw, hwa, rlP, wlP, tlP, tcP, cnP, Option.isSome_some, Option.isSome_none] at *
          cases hAw : s.awake <;> cases f <;> simp [hAw] <;> omega
        · simp at h
    · simp at h
  · simp only [step] at h
    split at h
    · rename_i ok ab hw
      simp at h; subst h
      simp only [mu, hw, wlP] at *
      cases hAw : s.awake <;> cases ok <;> simp [hAw, wlP] <;> omega
    · rename_i n ok ab hw
      simp only [E, Choreo.expected, applyOp, ite_true] at h
      cases ab <;> simp only [Bool.false_eq_true, ite_false, ite_true] at h <;>
        (split at h <;> (simp only [Option.some.injEq] at h; subst h; simp only [mu, hw, wlP]
                         cases hAw : s.awake <;> cases ok <;> simp <;> omega))
    · simp at h
  · simp only [step, E, Choreo.expected] at h
    split at h
    · rename_i hw
      simp at hw
      split at h
      · simp only [Option.ite_none_right_eq_some, Option.some.injEq, Bool.true_and] at h
        obtain ⟨hg, rfl⟩ := h
        simp only [mu, hw, hg, wlP]
        cases hWa : s.willAbort <;> simp <;> omega
      · simp only [Option.ite_none_right_eq_some, Option.some.injEq, Bool.true_and, ite_true] at h
        obtain ⟨hg, rfl⟩ := h
        simp only [mu, hw, wlP]; omega
    · simp at h
  · simp only [step] at h
    split at h
    · rename_i hg; simp at hg
      simp at h; subst h
      simp only [mu, hg.1, wlP]
      cases hWa : s.willAbort <;> simp <;> omega
    · simp at h
  · simp only [step] at h
    split at h
    · rename_i hg; simp at hg
      simp only [E, Choreo.expected, applyOps, List.foldl, applyOp, Option.some.injEq] at h
      subst h
      have hmono := sumP_mono s.callers s.notEst
      simp only [mu, hg, wlP]; omega
    · simp at h
  · simp only [step] at h
    split at h
    · rename_i hg; simp at hg
      simp only [applyOps, List.foldl, applyOp, Option.some.injEq] at h
      subst h
      have hmono := sumP_mono s.callers s.notEst
      simp only [mu, hg, wlP]; omega
    · simp at h

theorem mu_tl_tc (s s' : St) (a : Act) (h : step E s a = some s')
    (ha : a = .tlExit ∨ a = .tlCb ∨ a = .tcRun ∨ ∃ arm, a = .tcCH arm) : mu s' < mu s := by
  rcases ha with rfl | rfl | rfl | ⟨arm, rfl⟩
  · simp only [step, Option.ite_none_right_eq_some, Option.some.injEq] at h
    obtain ⟨hg, rfl⟩ := h
    simp at hg
    simp only [mu, hg.1.1, tlP]; omega
  · simp only [step, Option.ite_none_right_eq_some, Option.some.injEq] at h
    obtain ⟨hg, rfl⟩ := h
    simp at hg
    simp only [mu, hg.1, tlP]; omega
  · simp only [step] at h
    split at h
    · rename_i f ht
      split at h
      · split at h
        · simp at h; subst h; simp only [mu, ht, tcP]; omega
        · simp at h; subst h; simp only [mu, ht, tcP]
          cases hAw : s.awake <;> simp <;> omega
      · simp at h
    · simp at h
  · simp only [step] at h
    split at h
    · rename_i hg
      simp at hg
      obtain ⟨ht, hl⟩ := hg
      simp only [chArm, E, Choreo.expected, Bool.true_and, Bool.and_self, ite_self] at h
      split at h
      · split at h
        · rename_i client hcn
          simp at h; subst h; simp only [mu, ht, hcn, tcP, cnP]; omega
        · simp at h
      · split at h
        · simp at h; subst h; simp only [mu, ht, tcP]; omega
        · simp at h
      · split at h
        · simp at h; subst h; simp only [mu, ht, tcP]; omega
        · simp at h
      · simp at h
    · simp at h

theorem mu_cn (s s' : St) (arm : Nat) (hi : Inv s) (h : step E s (.cn arm) = some s') : mu s' < mu s := by
  simp only [step] at h
  split at h
  · rename_i client hcn
    split at h
    · simp only [E, Choreo.expected, ite_self, Bool.true_and, Option.ite_none_right_eq_some, Option.some.injEq] at h
      obtain ⟨hg, rfl⟩ := h
      simp only [mu, hcn, cnP]; omega
    · simp only [E, Choreo.expected, Bool.and_true, Option.ite_none_right_eq_some, Option.some.injEq] at h
      obtain ⟨hg, rfl⟩ := h
      simp only [mu, hcn, cnP]; omega
  · rename_i k hcn
    have hk := (hi.cnClosing k hcn).2.2.2
    have hmono := sumP_mono s.callers s.notEst
    rcases k with _|_|_|_|_|k
    · simp [E, Choreo.expected, execOp, applyOp] at h; subst h; simp only [mu, hcn, cnP]; omega
    · simp [E, Choreo.expected, execOp, applyOp] at h; subst h; simp only [mu, hcn, cnP]; omega
    · simp [E, Choreo.expected, execOp, applyOp] at h; subst h; simp only [mu, hcn, cnP]; omega
    · simp [E, Choreo.expected, execOp, applyOp] at h; subst h; simp only [mu, hcn, cnP]; omega
    · simp only [E, Choreo.expected, execOp, List.getElem?_cons_succ, List.getElem?_cons_zero] at h
      split at h
      · simp at h; subst h; simp only [mu, hcn, cnP]; omega
      · simp at h
    · have : k = 0 := by omega
      subst this
      simp [E, Choreo.expected] at h; subst h; simp only [mu, hcn, cnP]; omega
  · simp at h

set_option hygiene false in
/-- caller `i` moves from `c` to `c'` (flags may be raised): bookkeeping of the sum, then arithmetic -/
macro "mu_call_close" c':term : tactic => `(tactic| (
  have hmono := sumP_mono s.callers s.notEst
  have hsT := sumP_set true s.callers i _ $c' hci
  have hsN := sumP_set s.notEst s.callers i _ $c' hci
  simp only [callerP] at hsT hsN
  simp only [mu, setCaller] at *
  rcases Bool.eq_false_or_eq_true s.awake with hAw | hAw <;> rcases Bool.eq_false_or_eq_true s.notEst with hNe | hNe <;>
    simp [hAw, hNe] at * <;> omega))

theorem mu_call (s s' : St) (i arm : Nat) (hi : Inv s) (h : step E s (.call i arm) = some s') : mu s' < mu s := by
  simp only [step, callerStep] at h
  split at h
  · simp at h
  · rename_i c hci
    have hmem : c ∈ s.callers := List.mem_of_getElem? hci
    have hc0 := hi.cs c hmem
    cases c with
    | idle k => simp at h
    | fin k r => simp at h
    | rdWait sid w =>
      simp only [Option.ite_none_right_eq_some, Option.some.injEq] at h
      obtain ⟨hg, rfl⟩ := h
      mu_call_close (.fin (.rd sid) (readRes s sid))
    | wrBegin =>
      simp only at h
      split at h
      · split at h
        · simp at h; subst h; mu_call_close (.fin .wr (.err .notEstablished))
        · split at h
          · simp at h; subst h; mu_call_close .wrWait
          · simp at h; subst h; mu_call_close (.fin .wr .ok)
      · simp at h
    | wrWait =>
      simp only [E, Choreo.expected, Bool.true_and] at h
      split at h
      · simp only [Option.ite_none_right_eq_some, Option.some.injEq] at h
        obtain ⟨hg, rfl⟩ := h
        have := hi.wn hg
        mu_call_close .wrBegin
      · simp only [Option.ite_none_right_eq_some, Option.some.injEq] at h
        obtain ⟨hg, rfl⟩ := h
        mu_call_close (.fin .wr (.err .ctx))
    | accWait =>
      simp only [E, Choreo.expected, Bool.true_and, Option.ite_none_right_eq_some, Option.some.injEq] at h
      obtain ⟨hg, rfl⟩ := h
      mu_call_close (.fin .acc .eof)
    | shBegin =>
      simp only at h
      split at h
      · split at h
        · simp at h; subst h; mu_call_close (.fin .sh (.err .shutdownNonEstablished))
        · simp only [E, Choreo.expected, applyOp, ite_true, Option.some.injEq] at h; subst h; mu_call_close .shWait
      · simp at h
    | shWait =>
      simp only [E, Choreo.expected, Bool.true_and, ite_true] at h
      split at h
      · simp only [Option.ite_none_right_eq_some, Option.some.injEq] at h
        obtain ⟨hg, hl, rfl⟩ := h
        mu_call_close (.fin .sh (if s.sdAcked then .nil else .err .shutdownIncomplete))
      · simp only [Option.ite_none_right_eq_some, Option.some.injEq] at h
        obtain ⟨hg, rfl⟩ := h
        mu_call_close (.fin .sh (.err .ctx))
    | cl k =>
      simp only [callerInv, Bool.and_eq_true, Bool.or_eq_true, decide_eq_true_eq] at hc0
      rcases k with _|_|_|_|_|k
      · simp [E, Choreo.expected, execOp, applyOp] at h; subst h; mu_call_close (.cl 1)
      · simp [E, Choreo.expected, execOp, applyOp] at h; subst h; mu_call_close (.cl 2)
      · simp [E, Choreo.expected, execOp, applyOp] at h; subst h; mu_call_close (.cl 3)
      · simp [E, Choreo.expected, execOp, applyOp] at h; subst h; mu_call_close (.cl 4)
      · simp only [E, Choreo.expected, execOp, List.getElem?_cons_succ, List.getElem?_cons_zero] at h
        split at h
        · simp at h; subst h; mu_call_close (.cl 5)
        · simp at h
      · have : k = 0 := by omega
        subst this
        simp [E, Choreo.expected] at h; subst h; mu_call_close (.fin .cl .ok)
    | ab cause k =>
      simp only [callerInv, Bool.and_eq_true, Bool.or_eq_true, decide_eq_true_eq] at hc0
      rcases k with _|_|_|_|_|_|_|k
      · simp only [E, Choreo.expected, execOp, List.getElem?_cons_zero] at h
        split at h
        · simp at h; subst h
          have : wlP true s.wl ≤ wlP s.willAbort.isSome s.wl := by
            cases s.wl <;> cases s.willAbort <;> simp [wlP]
          mu_call_close (.ab cause 1)
        · simp at h
      · simp [E, Choreo.expected, execOp, applyOp] at h; subst h; mu_call_close (.ab cause 2)
      · simp [E, Choreo.expected, execOp, applyOp] at h; subst h; mu_call_close (.ab cause 3)
      · simp [E, Choreo.expected, execOp, applyOp] at h; subst h; mu_call_close (.ab cause 4)
      · simp [E, Choreo.expected, execOp, applyOp] at h; subst h; mu_call_close (.ab cause 5)
      · simp only [E, Choreo.expected, execOp, List.getElem?_cons_succ, List.getElem?_cons_zero] at h
        split at h
        · simp at h; subst h; mu_call_close (.ab cause 6)
        · simp at h
      · simp [E, Choreo.expected, execOp, applyOp] at h; subst h; mu_call_close (.ab cause 7)
      · have : k = 0 := by omega
        subst this
        simp [E, Choreo.expected] at h; subst h; mu_call_close (.fin (.ab cause) .ok)

/-- **every step strictly decreases the measure** -/
theorem mu_step (s s' : St) (a : Act) (hi : Inv s) (h : step E s a = some s') : mu s' < mu s := by
  cases ha : a.isEnv
  · cases a <;> simp [Act.isEnv] at ha
    · exact mu_rl s s' _ hi h (by simp)
    · exact mu_rl s s' _ hi h (by simp)
    · exact mu_rl s s' _ hi h (by simp)
    · exact mu_rl s s' _ hi h (by simp)
    · exact mu_wl s s' _ h (by simp)
    · exact mu_wl s s' _ h (by simp)
    · exact mu_wl s s' _ h (by simp)
    · exact mu_wl s s' _ h (by simp)
    · exact mu_wl s s' _ h (by simp)
    · exact mu_wl s s' _ h (by simp)
    · exact mu_tl_tc s s' _ h (by simp)
    · exact mu_tl_tc s s' _ h (by simp)
    · exact mu_tl_tc s s' _ h (by simp)
    · exact mu_tl_tc s s' _ h (by simp)
    · exact mu_cn s s' _ hi h
    · exact mu_call s s' _ _ hi h
  · exact mu_env s s' a ha hi h

/-- every run is at most `mu` steps long -/
theorem run_length_le (s s' : St) (as : List Act) (hi : Inv s) (h : run E s as = some s') : as.length + mu s' ≤ mu s := by
  induction as generalizing s with
  | nil => simp [run] at h; subst h; simp
  | cons a as ih =>
    simp only [run] at h
    split at h
    · rename_i s1 h1
      have := ih s1 (inv_step s s1 a hi h1) h
      have := mu_step s s1 a hi h1
      simp only [List.length_cons]; omega
    · simp at h

end Conc
