import SctpVerif.Model.Teardown
/-!
The inductive invariant of the `Teardown` system under the expected choreography, and its preservation by every step.
-/
namespace Conc

abbrev E : Choreo := Choreo.expected

/-- how far `readLoop` has come on its way out -/
def prog : RL → Nat
  | .defer k => k
  | .done => 9
  | _ => 0

def lockOf (s : St) : Option Holder :=
  match s.rl with
  | .inCH _ => some .rlCH
  | .defer k => if 2 ≤ k && k ≤ 5 then some .rlDefer else (if s.tc == .inCH then some .tcCH else none)
  | _ => if s.tc == .inCH then some .tcCH else none

def exclOk (s : St) : Bool :=
  match s.rl with
  | .inCH _ => s.tc != .inCH
  | .defer k => !(2 ≤ k && k ≤ 5) || s.tc != .inCH
  | _ => true

def chBusy (s : St) : Bool := (match s.rl with | .inCH _ => true | _ => false) || s.tc == .inCH

def leaving (s : St) : Bool := match s.rl with | .defer _ | .done => true | _ => false

def hsRes (r : Res) : Bool := r == .ok || r == .err .handshake

def callerInv (s : St) : Caller → Bool
  | .rdWait sid w => !(s.unreg || s.gone.contains sid) || w
  | .cl k => (k < 2 || s.conn) && (k < 4 || s.cw) && k ≤ 5
  | .ab _ k => (k < 5 || s.rdFail) && k ≤ 7
  | _ => true

/-- the inductive invariant (expected choreography) -/
structure Inv (s : St) : Prop where
  lock : s.lock = lockOf s
  excl : exclOk s = true
  -- the deferred block sets its flags in order …
  d1 : 1 ≤ prog s.rl → s.cw = true
  d3 : 3 ≤ prog s.rl → s.stClosed = true ∧ s.notEst = true
  d4 : 4 ≤ prog s.rl → s.unreg = true
  d5 : 5 ≤ prog s.rl → s.wn = true
  d7 : 7 ≤ prog s.rl → s.ac = true
  d8 : 8 ≤ prog s.rl → s.rc = true
  dk : ∀ k, s.rl = .defer k → k ≤ 8
  -- … and nobody else sets these
  u4 : s.unreg = true → 4 ≤ prog s.rl
  u7 : s.ac = true → 7 ≤ prog s.rl
  u8 : s.rc = true → 8 ≤ prog s.rl
  ce : leaving s = true → s.closeErr.isSome = true
  wn : s.wn = true → s.notEst = true
  sc : s.stClosed = true → s.notEst = true
  -- transport
  cf : s.conn = true → s.rdFail = true
  cc : s.connCloses = if s.conn then 1 else 0
  lw : s.lateWrites = 0 ∨ (s.lateWrites = 1 ∧ (s.wl = .exit ∨ s.wl = .done))
  -- handshake hand-over
  hb : chBusy s = true → s.hsTried = true
  hd : s.hsDone = true → s.cn = .fin .ok
  cnClosing : ∀ k, s.cn = .closing k → (2 ≤ k → s.conn = true) ∧ (4 ≤ k → s.cw = true) ∧ (5 ≤ k → s.rc = true) ∧ k ≤ 5
  cnHs : ∀ r, s.cn = .fin r → hsRes r = true → s.hsTried = true ∧ chBusy s = false
  cnRc : ∀ r, s.cn = .fin r → hsRes r = false → s.rc = true ∧ (r = .err .closedBeforeConn ∨ (r = .err .ctx ∧ s.conn = true))
  lost : s.lost = []
  cs : ∀ c ∈ s.callers, callerInv s c = true

/-! ### readers -/

def wake1 (sel : Nat → Bool) : Caller → Caller
  | .rdWait sid false => if sel sid then .rdWait sid true else .rdWait sid false
  | c => c

theorem wakeReaders_all (sel : Nat → Bool) (cs : List Caller) : wakeReaders .all sel cs = cs.map (wake1 sel) := by
  induction cs with
  | nil => rfl
  | cons c cs ih =>
    cases c with
    | rdWait sid w =>
      cases w with
      | false => simp only [wakeReaders, List.map_cons, wake1]; split <;> simp [ih]
      | true => simp [wakeReaders, wake1, ih]
    | _ => simp [wakeReaders, wake1, ih]

theorem wakeReaders_length (m : Wake) (sel : Nat → Bool) (cs : List Caller) : (wakeReaders m sel cs).length = cs.length := by
  induction cs generalizing sel with
  | nil => rfl
  | cons c cs ih =>
    cases c with
    | rdWait sid w =>
      cases w with
      | false => simp only [wakeReaders]; split <;> (try cases m) <;> simp [ih]
      | true => simp [wakeReaders, ih]
    | _ => simp [wakeReaders, ih]

/-- a step that leaves the callers, `unreg` and `gone` alone and only raises `conn`, `cw`, `rdFail` keeps every caller's invariant -/
theorem callerInv_keep (s s' : St) (c : Caller) (hu : s'.unreg = s.unreg) (hg : s'.gone = s.gone)
    (hc : s.conn = true → s'.conn = true) (hw : s.cw = true → s'.cw = true) (hr : s.rdFail = true → s'.rdFail = true)
    (h : callerInv s c = true) : callerInv s' c = true := by
  cases c <;> simp_all [callerInv] <;> grind

set_option hygiene false in
macro "conc_pre" : tactic => `(tactic| (
  obtain ⟨ilock, iexcl, id1, id3, id4, id5, id7, id8, idk, iu4, iu7, iu8, ice, iwn, isc, icf, icc, ilw, ihb, ihd, icnC, icnH, icnR, ilost, ics⟩ := hi))

set_option hygiene false in
macro "conc_close" : tactic => `(tactic| (
  constructor <;> (try simp only [lockOf, exclOk, prog, chBusy, leaving]) <;> (try assumption) <;>
    (try (intro c hc; exact callerInv_keep s _ c rfl rfl (by simp) (by simp) (by simp) (ics c hc))) <;> (try grind)))

end Conc
