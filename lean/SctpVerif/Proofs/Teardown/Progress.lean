import SctpVerif.Proofs.Teardown.Step
/-!
No reachable state of the teardown is stuck: once a teardown has been set off, either everything is finished or some
process of the package can take a step WITHOUT any help from the environment.
-/
namespace Conc
set_option maxRecDepth 4000

/-- what "nothing of the package is enabled" means, action by action -/
structure Blocked (s : St) : Prop where
  all : ∀ a ∈ procActs s, step E s a = none

theorem Blocked.sk {s : St} (hb : Blocked s) (a : Act)
    (ha : a ∈ [Act.rlReadErr, .rlHandle, .rlCH 0, .rlCH 1, .rlCH 2, .rlDefer, .wlGather 0 false, .wlWrite, .wlSel 0, .wlSel 1, .wlCwArm,
      .wlClosing, .wlExit, .tlExit, .tlCb, .tcRun, .tcCH 0, .tcCH 1, .tcCH 2, .cn 0, .cn 1]) : step E s a = none :=
  hb.all a (by simp only [procActs, List.mem_append]; exact Or.inl ha)

theorem Blocked.call {s : St} (hb : Blocked s) (c : Caller) (hc : c ∈ s.callers) :
    ∃ i, s.callers[i]? = some c ∧ callerStep E s i 0 = none ∧ callerStep E s i 1 = none := by
  obtain ⟨i, hi, rfl⟩ := List.getElem_of_mem hc
  refine ⟨i, by simp [hi], ?_, ?_⟩
  · have := hb.all (.call i 0) (by simp [procActs, List.mem_flatMap]; exact hi)
    simpa [step] using this
  · have := hb.all (.call i 1) (by simp [procActs, List.mem_flatMap]; exact hi)
    simpa [step] using this

/-- whoever sits in `completeHandshake` has an arm ready, unless the constructor itself can move -/
theorem ch_ready (s : St) (hi : Inv s) (hb : Blocked s) (hch : chBusy s = true) :
    s.cw = true ∨ s.rc = true ∨ ∃ client, s.cn = .sel client := by
  conc_pre
  have c0 := hb.sk (.cn 0) (by simp)
  cases hcn : s.cn with
  | sel client => exact Or.inr (Or.inr ⟨client, rfl⟩)
  | closing k =>
    obtain ⟨h2, h4, h5, hk⟩ := icnC k hcn
    simp only [step, hcn] at c0
    rcases k with _|_|_|_|_|k
    · simp [E, Choreo.expected, execOp] at c0
    · simp [E, Choreo.expected, execOp] at c0
    · simp [E, Choreo.expected, execOp] at c0
    · simp [E, Choreo.expected, execOp] at c0
    · exact Or.inl (h4 (by omega))
    · have : k = 0 := by omega
      subst this
      simp [E, Choreo.expected] at c0
  | fin r =>
    cases hr : hsRes r with
    | true => have := (icnH r hcn hr).2; simp [hch] at this
    | false => exact Or.inr (Or.inl (icnR r hcn hr).1)

/-- A: nobody is parked inside a critical section -/
theorem blocked_lock_free (s : St) (hi : Inv s) (hb : Blocked s) : s.lock = none := by
  have hi' := hi
  conc_pre
  have a0 := hb.sk (.rlCH 0) (by simp)
  have a1 := hb.sk (.rlCH 1) (by simp)
  have a2 := hb.sk (.rlCH 2) (by simp)
  have ad := hb.sk .rlDefer (by simp)
  have t0 := hb.sk (.tcCH 0) (by simp)
  have t1 := hb.sk (.tcCH 1) (by simp)
  have t2 := hb.sk (.tcCH 2) (by simp)
  -- the timer callback is not parked in completeHandshake
  have htc : s.tc ≠ .inCH := by
    intro htc
    have hl : s.lock = some .tcCH := by
      rw [ilock]; unfold lockOf
      cases hrl : s.rl <;> simp_all [exclOk] <;> omega
    rcases ch_ready s hi' hb (by simp [chBusy, htc]) with h | h | ⟨cl, h⟩
    · simp [step, htc, hl, chArm, E, Choreo.expected, h] at t1
    · simp [step, htc, hl, chArm, E, Choreo.expected, h] at t2
    · simp [step, htc, hl, chArm, E, Choreo.expected, h] at t0
  cases hrl : s.rl with
  | inCH err =>
    exfalso
    have hl : s.lock = some .rlCH := by rw [ilock]; simp [lockOf, hrl]
    rcases ch_ready s hi' hb (by simp [chBusy, hrl]) with h | h | ⟨cl, h⟩
    · simp [step, hrl, hl, chArm, E, Choreo.expected, h] at a1
    · simp [step, hrl, hl, chArm, E, Choreo.expected, h] at a2
    · simp [step, hrl, hl, chArm, E, Choreo.expected, h] at a0
  | defer k =>
    by_cases hk : 2 ≤ k ∧ k ≤ 5
    · exfalso
      simp only [step, hrl] at ad
      obtain ⟨h2, h5⟩ := hk
      rcases k with _|_|_|_|_|_|k
      · omega
      · omega
      · simp [E, Choreo.expected, execOp] at ad
      · simp [E, Choreo.expected, execOp] at ad
      · simp [E, Choreo.expected, execOp] at ad
      · simp [E, Choreo.expected, execOp] at ad
      · omega
    · rw [ilock]; simp only [lockOf, hrl]
      have : (decide (2 ≤ k) && decide (k ≤ 5)) = false := by
        simp only [Bool.and_eq_false_imp, decide_eq_true_eq, decide_eq_false_iff_not]; omega
      simp [this, htc]
  | reading => rw [ilock]; simp [lockOf, hrl, htc]
  | handling p => rw [ilock]; simp [lockOf, hrl, htc]
  | done => rw [ilock]; simp [lockOf, hrl, htc]

/-- B: with the lock free, every process that is not waiting on a channel can move -/
theorem blocked_shapes (s : St) (hi : Inv s) (hb : Blocked s) :
    (s.rl = .reading ∨ s.rl = .done) ∧ (s.wl = .sel ∨ s.wl = .done) ∧ (s.tl = .sel ∨ s.tl = .done) ∧ s.tc = .idle := by
  have hl := blocked_lock_free s hi hb
  have hk := hi.dk
  refine ⟨?_, ?_, ?_, ?_⟩
  · have ah := hb.sk .rlHandle (by simp)
    have ad := hb.sk .rlDefer (by simp)
    cases hrl : s.rl with
    | reading => simp
    | done => simp
    | handling p =>
      exfalso
      simp only [step, hrl, hl, Option.isNone_none, ite_true] at ah
      cases p <;> simp at ah
      all_goals (split at ah <;> simp at ah)
    | inCH err =>
      exfalso
      have := hi.lock
      simp [lockOf, hrl, hl] at this
    | defer k =>
      exfalso
      have := hk k hrl
      simp only [step, hrl] at ad
      rcases k with _|_|_|_|_|_|_|_|k
      · simp [E, Choreo.expected, execOp] at ad
      · simp [E, Choreo.expected, execOp, hl] at ad
      · simp [E, Choreo.expected, execOp] at ad
      · simp [E, Choreo.expected, execOp] at ad
      · simp [E, Choreo.expected, execOp] at ad
      · simp [E, Choreo.expected, execOp] at ad
      · simp [E, Choreo.expected, execOp] at ad
      · simp [E, Choreo.expected, execOp] at ad
      · have : k = 0 := by omega
        subst this
        simp [E, Choreo.expected] at ad
  · have ag := hb.sk (.wlGather 0 false) (by simp)
    have aw := hb.sk .wlWrite (by simp)
    have ac := hb.sk .wlCwArm (by simp)
    have acl := hb.sk .wlClosing (by simp)
    have ae := hb.sk .wlExit (by simp)
    cases hwl : s.wl with
    | sel => simp
    | done => simp
    | gather =>
      exfalso
      simp only [step, hwl, hl] at ag
      cases hwa : s.willAbort <;> simp [hwa] at ag
    | write n ok ab =>
      exfalso
      cases n with
      | zero => simp [step, hwl] at aw
      | succ n =>
        simp only [step, hwl] at aw
        split at aw <;> cases aw
    | cwArm => simp [step, hwl, hl] at ac
    | closing => simp [step, hwl] at acl
    | exit => simp [step, hwl] at ae
  · have acb := hb.sk .tlCb (by simp)
    cases htl : s.tl with
    | sel => simp
    | done => simp
    | cb => simp [step, htl, hl] at acb
  · have ar := hb.sk .tcRun (by simp)
    cases htc : s.tc with
    | idle => rfl
    | spawned f =>
      exfalso
      simp only [step, htc, hl, Option.isNone_none, ite_true] at ar
      split at ar <;> simp at ar
    | inCH =>
      exfalso
      have := hi.lock
      rw [hl] at this
      unfold lockOf at this
      cases hrl : s.rl <;> simp [hrl, htc] at this
      split at this <;> simp at this

/-- a blocked caller that is not quiet is parked at one of five places -/
theorem blocked_caller (s : St) (hi : Inv s) (hb : Blocked s) (c : Caller) (hc : c ∈ s.callers) (hq : c.quiet = false) :
    (∃ sid, c = .rdWait sid false) ∨ (c = .wrWait ∧ s.wn = false) ∨ (c = .accWait ∧ s.ac = false) ∨ (c = .shWait ∧ s.cw = false) ∨
    (c = .cl 4 ∧ s.rc = false) ∨ (∃ cause, c = .ab cause 5 ∧ s.rc = false) := by
  have hl := blocked_lock_free s hi hb
  have hci := hi.cs c hc
  obtain ⟨i, hi0, h0, h1⟩ := hb.call c hc
  cases c with
  | idle k => simp [Caller.quiet] at hq
  | fin k r => simp [Caller.quiet] at hq
  | rdWait sid w =>
    cases w with
    | false => exact Or.inl ⟨sid, rfl⟩
    | true => simp [callerStep, hi0, hi.lost] at h0
  | wrBegin =>
    exfalso
    simp only [callerStep, hi0, hl, Option.isNone_none, ite_true] at h0
    split at h0 <;> simp at h0
  | wrWait =>
    refine Or.inr (Or.inl ⟨rfl, ?_⟩)
    simp [callerStep, hi0, E, Choreo.expected] at h0
    simpa using h0
  | accWait =>
    refine Or.inr (Or.inr (Or.inl ⟨rfl, ?_⟩))
    simp [callerStep, hi0, E, Choreo.expected] at h0
    simpa using h0
  | shBegin =>
    exfalso
    simp only [callerStep, hi0, hl, Option.isNone_none, ite_true] at h0
    split at h0 <;> simp at h0
  | shWait =>
    refine Or.inr (Or.inr (Or.inr (Or.inl ⟨rfl, ?_⟩)))
    simp [callerStep, hi0, E, Choreo.expected, hl] at h0
    simpa using h0
  | cl k =>
    simp only [callerInv, Bool.and_eq_true, Bool.or_eq_true, decide_eq_true_eq] at hci
    simp only [callerStep, hi0] at h0
    rcases k with _|_|_|_|_|k
    · simp [E, Choreo.expected, execOp] at h0
    · simp [E, Choreo.expected, execOp] at h0
    · simp [E, Choreo.expected, execOp] at h0
    · simp [E, Choreo.expected, execOp] at h0
    · refine Or.inr (Or.inr (Or.inr (Or.inr (Or.inl ⟨rfl, ?_⟩))))
      simp [E, Choreo.expected, execOp] at h0
      simpa using h0
    · have : k = 0 := by omega
      subst this
      simp [E, Choreo.expected] at h0
  | ab cause k =>
    simp only [callerInv, Bool.and_eq_true, Bool.or_eq_true, decide_eq_true_eq] at hci
    simp only [callerStep, hi0] at h0
    rcases k with _|_|_|_|_|_|_|k
    · simp [E, Choreo.expected, execOp, hl] at h0
    · simp [E, Choreo.expected, execOp] at h0
    · simp [E, Choreo.expected, execOp] at h0
    · simp [E, Choreo.expected, execOp] at h0
    · simp [E, Choreo.expected, execOp] at h0
    · refine Or.inr (Or.inr (Or.inr (Or.inr (Or.inr ⟨cause, rfl, ?_⟩))))
      simp [E, Choreo.expected, execOp] at h0
      simpa using h0
    · simp [E, Choreo.expected, execOp] at h0
    · have : k = 0 := by omega
      subst this
      simp [E, Choreo.expected] at h0

/-- C: once a teardown is under way, a blocked system has its read loop gone -/
theorem blocked_rl_done (s : St) (hi : Inv s) (hb : Blocked s) (ht : s.triggered = true) : s.rl = .done := by
  obtain ⟨hrl, hwl, _, _⟩ := blocked_shapes s hi hb
  rcases hrl with hrl | hrl
  · exfalso
    have a := hb.sk .rlReadErr (by simp)
    have hrd : s.rdFail = false := by
      simp [step, hrl] at a
      simpa using a
    simp only [St.triggered, hrd, hrl, Bool.false_or, Bool.or_eq_true] at ht
    rcases ht with (ht | ht) | ht
    · rcases hwl with h | h <;> simp [h] at ht
    · -- the constructor is running Close()
      have c0 := hb.sk (.cn 0) (by simp)
      cases hcn : s.cn with
      | sel c => simp [hcn] at ht
      | fin r => simp [hcn] at ht
      | closing k =>
        obtain ⟨h2, h4, h5, hk⟩ := hi.cnClosing k hcn
        simp only [step, hcn] at c0
        rcases k with _|_|_|_|_|k
        · simp [E, Choreo.expected, execOp] at c0
        · simp [E, Choreo.expected, execOp] at c0
        · simp [E, Choreo.expected, execOp] at c0
        · simp [E, Choreo.expected, execOp] at c0
        · have := hi.cf (h2 (by omega)); simp [hrd] at this
        · have : k = 0 := by omega
          subst this
          simp [E, Choreo.expected] at c0
    · -- a Close / Abort call is under way
      simp only [List.any_eq_true] at ht
      obtain ⟨c, hc, hact⟩ := ht
      have hq : c.quiet = false := by cases c <;> simp [Caller.active] at hact <;> rfl
      have hci := hi.cs c hc
      rcases blocked_caller s hi hb c hc hq with ⟨sid, rfl⟩ | ⟨rfl, _⟩ | ⟨rfl, _⟩ | ⟨rfl, _⟩ | ⟨rfl, _⟩ | ⟨cause, rfl, _⟩
      · simp [Caller.active] at hact
      · simp [Caller.active] at hact
      · simp [Caller.active] at hact
      · simp [Caller.active] at hact
      · simp [callerInv] at hci
        have := hi.cf hci.1; simp [hrd] at this
      · simp [callerInv, hrd] at hci
  · exact hrl

/-- **No stuck state.** Under the invariant, once a teardown has been set off: if anything is still pending, some process of
the package itself is enabled. -/
theorem no_stuck (s : St) (hi : Inv s) (ht : s.triggered = true) : s.stuck E = false := by
  cases hst : s.stuck E
  · rfl
  · exfalso
    simp only [St.stuck, Bool.and_eq_true, Bool.not_eq_eq_eq_not, Bool.not_true, List.all_eq_true, Option.isNone_iff_eq_none] at hst
    obtain ⟨hnd, hall⟩ := hst
    have hb : Blocked s := ⟨hall⟩
    have hl := blocked_lock_free s hi hb
    obtain ⟨_, hwl, htl, htc⟩ := blocked_shapes s hi hb
    have hrl := blocked_rl_done s hi hb ht
    have hp : prog s.rl = 9 := by simp [prog, hrl]
    have hcw := hi.d1 (by omega)
    have hrc := hi.d8 (by omega)
    have hac := hi.d7 (by omega)
    have hwn := hi.d5 (by omega)
    have hun := hi.d4 (by omega)
    -- writeLoop and timerLoop see closeWriteLoopCh
    have hwl' : s.wl = .done := by
      rcases hwl with h | h
      · have a := hb.sk (.wlSel 1) (by simp)
        simp [step, h, E, Choreo.expected, hcw] at a
      · exact h
    have htl' : s.tl = .done := by
      rcases htl with h | h
      · have a := hb.sk .tlExit (by simp)
        simp [step, h, E, Choreo.expected, hcw] at a
      · exact h
    -- the constructor sees readLoopCloseCh
    have hcn : ∃ r, s.cn = .fin r := by
      have c0 := hb.sk (.cn 0) (by simp)
      cases hcn : s.cn with
      | fin r => exact ⟨r, rfl⟩
      | sel client => cases client <;> simp [step, hcn, E, Choreo.expected, hrc] at c0
      | closing k =>
        exfalso
        obtain ⟨h2, h4, h5, hk⟩ := hi.cnClosing k hcn
        simp only [step, hcn] at c0
        rcases k with _|_|_|_|_|k
        · simp [E, Choreo.expected, execOp] at c0
        · simp [E, Choreo.expected, execOp] at c0
        · simp [E, Choreo.expected, execOp] at c0
        · simp [E, Choreo.expected, execOp] at c0
        · simp [E, Choreo.expected, execOp, hrc] at c0
        · have : k = 0 := by omega
          subst this
          simp [E, Choreo.expected] at c0
    -- every caller has returned
    have hcs : s.callers.all Caller.quiet = true := by
      simp only [List.all_eq_true]
      intro c hc
      cases hq : c.quiet
      · exfalso
        have hci := hi.cs c hc
        rcases blocked_caller s hi hb c hc hq with ⟨sid, rfl⟩ | ⟨rfl, h⟩ | ⟨rfl, h⟩ | ⟨rfl, h⟩ | ⟨rfl, h⟩ | ⟨cause, rfl, h⟩
        · simp [callerInv, hun] at hci
        · simp [hwn] at h
        · simp [hac] at h
        · simp [hcw] at h
        · simp [hrc] at h
        · simp [hrc] at h
      · rfl
    obtain ⟨r, hcn⟩ := hcn
    simp [St.done, hrl, hwl', htl', htc, hcn, hcs] at hnd

end Conc
