import SctpVerif.Proofs.Reset.Schedule
/-!
Evaluation lemmas for the reset handshake (close, request, perform, response) on endpoints of which only some fields
are known, and the explicit schedule "write, close, both resets complete, re-open, write" for every message count.
-/
namespace Rs

theorem close_eq (e : Ep) (h : Nat) (o : Obj) (ho : e.objs[h]? = some o) (hopen : o.state = Gen.StreamStateOpen) :
    (close e h).1 = { e with objs := e.objs.set h { o with state := if o.readErr then Gen.StreamStateClosed else Gen.StreamStateClosing }, pend := e.pend ++ [Item.marker o.sid h] } := by
  unfold close
  rw [ho]
  simp [hopen]

theorem mayPop_marker (il : Bool) (s h : Nat) : mayPop il [Item.marker s h] 0 = true := by
  unfold mayPop
  cases il <;> simp [Item.isUnord]

/-- the write loop pops the end-of-stream marker (nothing else is pending, no timer has fired) and sends the request -/
theorem gather_marker_eq (e : Ep) (sid h : Nat) (hp : e.pend = [Item.marker sid h]) (hwr : e.wr = false) :
    gather e [0] [] [] false = some ({ e with pend := [], ctl := [], wr := false, nextRSN := e.nextRSN + 1, reconfigs := e.reconfigs ++ [(e.nextRSN, e.nextTSN - 1, [sid])], reqLog := e.reqLog ++ [{ rsn := e.nextRSN, last := e.nextTSN - 1, sids := [sid], wobjs := [h] }] }, e.ctl ++ [Msg.req e.nextRSN (e.nextTSN - 1) [sid]]) := by
  have hpop : popSel e.il e.pend [0] = some ([Item.marker sid h], []) := by
    rw [hp]; simp [popSel, mayPop_marker]
  unfold gather
  rw [hpop]
  simp [assign, mkDatas, gatherEp, gatherOut, hwr, newReqRec]

/-- the write loop with nothing pending: only the control queue goes out -/
theorem gather_idle_eq (e : Ep) (hwr : e.wr = false) :
    gather e [] [] [] false = some ({ e with ctl := [] }, e.ctl) := by
  unfold gather
  simp only [popSel, mkDatas]
  simp only [gatherEp, gatherOut, assign, List.isEmpty_nil, ↓reduceIte, hwr, Bool.false_eq_true, List.append_nil]

/-- a fresh request for one registered identifier whose last TSN has been reached is performed at once -/
theorem handleReq_perform_eq (e : Ep) (rsn last sid h : Nat) (o : Obj) (hnp : rsn ∉ e.perf) (hle : last ≤ e.cum)
    (hl : lookup sid e.reg = some h) (ho : e.objs[h]? = some o) (hrr : e.rreqs = []) :
    handleReq e rsn last [sid] = ({ e with objs := e.objs.set h (inboundReset o), reg := erase sid e.reg, perf := rsn :: e.perf }, [Msg.resp rsn Gen.reconfigResultSuccessPerformed]) := by
  unfold handleReq
  have h1 : e.perf.contains rsn = false := by simpa using hnp
  have h2 : ¬ (e.cum < last) := by omega
  simp only [h1, Bool.false_eq_true, ↓reduceIte, h2, decide_false, Bool.false_and]
  unfold resetStreamsIfAny
  simp only [hle, ↓reduceIte, List.foldl_cons, List.foldl_nil]
  unfold resetOne
  simp only [hl, ho, hrr, insert, erase, List.filter_nil, List.filter_cons, bne_self_eq_false, Bool.false_eq_true, ↓reduceIte]

/-- the reader finds nothing queued and the stream reset: EOF -/
theorem read_eof_eq (e : Ep) (h : Nat) (o : Obj) (ho : e.objs[h]? = some o) (hord : o.ord = []) (hun : o.unord = []) (hre : o.readErr = true) :
    (read e h).1 = { e with objs := e.objs.set h { o with eofSeen := true } } := by
  unfold read
  rw [ho]
  simp [hord, hun, drain, hre]

/-- the response to my request arrives while the object it closed is still registered and not open: counters rewound -/
theorem handleResp_eq (e : Ep) (rsn last sid h : Nat) (o : Obj) (hrc : e.reconfigs = [(rsn, last, [sid])])
    (hl : lookup sid e.reg = some h) (ho : e.objs[h]? = some o) (hclosed : o.state ≠ Gen.StreamStateOpen) :
    handleResp e rsn Gen.reconfigResultSuccessPerformed = { e with objs := e.objs.set h (zeroCounters o), reconfigs := [] } := by
  unfold handleResp
  have : (Gen.reconfigResultSuccessPerformed == Gen.reconfigResultInProgress) = false := by decide
  simp only [this, Bool.false_eq_true, ↓reduceIte, beq_self_eq_true, hrc, lookup_cons, List.foldl_cons, List.foldl_nil]
  unfold rewindOne
  have hc : (o.state != Gen.StreamStateOpen) = true := by simpa using hclosed
  simp [hl, ho, hc, erase, hrc]

/-- … or after the stream has left the table: only the request is forgotten -/
theorem handleResp_unreg_eq (e : Ep) (rsn last sid : Nat) (hrc : e.reconfigs = [(rsn, last, [sid])]) (hl : lookup sid e.reg = none) :
    handleResp e rsn Gen.reconfigResultSuccessPerformed = { e with reconfigs := [] } := by
  unfold handleResp
  have : (Gen.reconfigResultSuccessPerformed == Gen.reconfigResultInProgress) = false := by decide
  simp only [this, Bool.false_eq_true, ↓reduceIte, beq_self_eq_true, hrc, lookup_cons, List.foldl_cons, List.foldl_nil]
  unfold rewindOne
  simp [hl, erase, hrc]

/-! ### single steps of the system, spelled out -/

theorem step_close_a (s : Sys) (h : Nat) : s.step (.close false h) = { s with a := (close s.a h).1 } := rfl
theorem step_close_b (s : Sys) (h : Nat) : s.step (.close true h) = { s with b := (close s.b h).1 } := rfl
theorem step_read_a (s : Sys) (h : Nat) : s.step (.read false h) = { s with a := (read s.a h).1 } := rfl
theorem step_read_b (s : Sys) (h : Nat) : s.step (.read true h) = { s with b := (read s.b h).1 } := rfl

theorem step_gather_a (s : Sys) (sel : List Nat) (pre post : List (List Nat)) (sack : Bool) (e : Ep) (out : List Msg)
    (hg : gather s.a sel pre post sack = some (e, out)) : s.step (.gather false sel pre post sack) = { s with a := e, ha := s.ha ++ out } := by
  simp only [Sys.step, Sys.ep, Bool.false_eq_true, ↓reduceIte, hg, Sys.put]

theorem step_gather_b (s : Sys) (sel : List Nat) (pre post : List (List Nat)) (sack : Bool) (e : Ep) (out : List Msg)
    (hg : gather s.b sel pre post sack = some (e, out)) : s.step (.gather true sel pre post sack) = { s with b := e, hb := s.hb ++ out } := by
  simp only [Sys.step, Sys.ep, ↓reduceIte, hg, Sys.put]

theorem step_deliver_a (s : Sys) (i : Nat) (p : Msg) (hp : s.ha[i]? = some p) : s.step (.deliver false i) = { s with b := handle s.b p } := by
  simp only [Sys.step, Sys.hist, Bool.false_eq_true, ↓reduceIte, hp, Bool.not_false, Sys.ep, Sys.setEp]

theorem step_deliver_b (s : Sys) (i : Nat) (p : Msg) (hp : s.hb[i]? = some p) : s.step (.deliver true i) = { s with a := handle s.a p } := by
  simp only [Sys.step, Sys.hist, ↓reduceIte, hp, Bool.not_true, Sys.ep, Sys.setEp, Bool.false_eq_true]

theorem handle_req_eq (e : Ep) (rsn last : Nat) (sids : List Nat) (e' : Ep) (out : List Msg) (h : handleReq e rsn last sids = (e', out)) :
    handle e (Msg.req rsn last sids) = { e' with ctl := e'.ctl ++ out } := by
  simp [handle, h]

/-- the eleven operations that close stream 1 from both ends, A first -/
def resetOps (hA hB la lb : Nat) : List Op :=
  [.close false hA, .gather false [0] [] [] false, .deliver false la, .read true hB, .close true hB, .gather true [0] [] [] false,
   .deliver true lb, .deliver true (lb + 1), .read false hA, .gather false [] [] [] false, .deliver false (la + 1)]

theorem erase_single (k v : Nat) : erase k [(k, v)] = ([] : List (Nat × Nat)) := by simp [erase]

theorem lookup_single (k v : Nat) : lookup k [(k, v)] = some v := by simp [lookup]

/-- Both applications close stream 1, A first; every packet arrives. Afterwards the identifier is in neither stream table,
both objects are closed, have been reset and their readers have seen EOF, nothing is pending or outstanding. -/
theorem handshake (s : Sys) (hA hB : Nat) (wo ro : Obj)
    (a1 : s.a.objs[hA]? = some wo) (a2 : wo.state = Gen.StreamStateOpen) (a3 : wo.sid = 1) (a4 : wo.readErr = false) (a5 : wo.ord = [])
    (a6 : wo.unord = []) (a7 : s.a.pend = []) (a8 : s.a.ctl = []) (a9 : s.a.wr = false) (a10 : s.a.reconfigs = [])
    (a11 : s.a.reg = [(1, hA)]) (a12 : s.a.rreqs = []) (a13 : s.b.nextRSN ∉ s.a.perf) (a14 : s.b.nextTSN - 1 ≤ s.a.cum)
    (b1 : s.b.objs[hB]? = some ro) (b2 : ro.state = Gen.StreamStateOpen) (b3 : ro.sid = 1) (_b4 : ro.readErr = false) (b5 : ro.ord = [])
    (b6 : ro.unord = []) (b7 : s.b.pend = []) (b8 : s.b.ctl = []) (b9 : s.b.wr = false) (b10 : s.b.reconfigs = [])
    (b11 : s.b.reg = [(1, hB)]) (b12 : s.b.rreqs = []) (b13 : s.a.nextRSN ∉ s.b.perf) (b14 : s.a.nextTSN - 1 ≤ s.b.cum) :
    s.run (resetOps hA hB s.ha.length s.hb.length) =
      { s with
        a := { s.a with objs := s.a.objs.set hA { wo with state := Gen.StreamStateClosed, ssn := 0, omid := 0, umid := 0, readErr := true, eofSeen := true },
                        reg := [], perf := s.b.nextRSN :: s.a.perf, nextRSN := s.a.nextRSN + 1,
                        reqLog := s.a.reqLog ++ [{ rsn := s.a.nextRSN, last := s.a.nextTSN - 1, sids := [1], wobjs := [hA] }] },
        b := { s.b with objs := s.b.objs.set hB { ro with state := Gen.StreamStateClosed, readErr := true, eofSeen := true },
                        reg := [], perf := s.a.nextRSN :: s.b.perf, nextRSN := s.b.nextRSN + 1,
                        reqLog := s.b.reqLog ++ [{ rsn := s.b.nextRSN, last := s.b.nextTSN - 1, sids := [1], wobjs := [hB] }] },
        ha := s.ha ++ [Msg.req s.a.nextRSN (s.a.nextTSN - 1) [1], Msg.resp s.b.nextRSN Gen.reconfigResultSuccessPerformed],
        hb := s.hb ++ [Msg.resp s.a.nextRSN Gen.reconfigResultSuccessPerformed, Msg.req s.b.nextRSN (s.b.nextTSN - 1) [1]] } := by
  have hltA := getElem?_lt a1
  have hltB := getElem?_lt b1
  have hperf : Gen.reconfigResultSuccessPerformed = 1 := rfl
  -- the objects on their way
  obtain ⟨wo1, hwo1⟩ : ∃ x : Obj, x = { wo with state := Gen.StreamStateClosing } := ⟨_, rfl⟩
  obtain ⟨wo2, hwo2⟩ : ∃ x : Obj, x = zeroCounters wo1 := ⟨_, rfl⟩
  obtain ⟨wo3, hwo3⟩ : ∃ x : Obj, x = inboundReset wo2 := ⟨_, rfl⟩
  obtain ⟨ro1, hro1⟩ : ∃ x : Obj, x = inboundReset ro := ⟨_, rfl⟩
  obtain ⟨ro2, hro2⟩ : ∃ x : Obj, x = { ro1 with eofSeen := true } := ⟨_, rfl⟩
  -- 1. A closes
  obtain ⟨A1, hA1⟩ : ∃ x : Ep, x = { s.a with objs := s.a.objs.set hA wo1, pend := [Item.marker 1 hA] } := ⟨_, rfl⟩
  have e1 : s.step (.close false hA) = { s with a := A1 } := by
    rw [step_close_a, close_eq s.a hA wo a1 a2, hA1, hwo1]
    simp only [a4, a3, a7, Bool.false_eq_true, ↓reduceIte, List.nil_append]
  -- 2. A's write loop sends the request
  obtain ⟨A2, hA2⟩ : ∃ x : Ep, x = { A1 with pend := [], ctl := [], wr := false, nextRSN := A1.nextRSN + 1, reconfigs := A1.reconfigs ++ [(A1.nextRSN, A1.nextTSN - 1, [1])], reqLog := A1.reqLog ++ [{ rsn := A1.nextRSN, last := A1.nextTSN - 1, sids := [1], wobjs := [hA] }] } := ⟨_, rfl⟩
  have g2 : gather A1 [0] [] [] false = some (A2, [Msg.req s.a.nextRSN (s.a.nextTSN - 1) [1]]) := by
    rw [gather_marker_eq A1 1 hA (by rw [hA1]) (by rw [hA1]; exact a9), hA2]
    have : A1.ctl = [] := by rw [hA1]; exact a8
    rw [this, hA1]; rfl
  have e2 : ({ s with a := A1 } : Sys).step (.gather false [0] [] [] false) = { s with a := A2, ha := s.ha ++ [Msg.req s.a.nextRSN (s.a.nextTSN - 1) [1]] } :=
    step_gather_a _ _ _ _ _ _ _ g2
  -- 3. B gets it and performs it at once
  obtain ⟨B1, hB1⟩ : ∃ x : Ep, x = { s.b with objs := s.b.objs.set hB ro1, reg := [], perf := s.a.nextRSN :: s.b.perf, ctl := [Msg.resp s.a.nextRSN Gen.reconfigResultSuccessPerformed] } := ⟨_, rfl⟩
  have h3 : handle s.b (Msg.req s.a.nextRSN (s.a.nextTSN - 1) [1]) = B1 := by
    rw [handle_req_eq _ _ _ _ _ _ (handleReq_perform_eq s.b s.a.nextRSN (s.a.nextTSN - 1) 1 hB ro b13 b14 (by rw [b11]; exact lookup_single 1 hB) b1 b12)]
    rw [hB1, hro1, b11, erase_single, b8]; rfl
  have e3 : ({ s with a := A2, ha := s.ha ++ [Msg.req s.a.nextRSN (s.a.nextTSN - 1) [1]] } : Sys).step (.deliver false s.ha.length) =
      { s with a := A2, b := B1, ha := s.ha ++ [Msg.req s.a.nextRSN (s.a.nextTSN - 1) [1]] } := by
    rw [step_deliver_a _ s.ha.length (Msg.req s.a.nextRSN (s.a.nextTSN - 1) [1]) (by simp), h3]
  -- 4. B's reader is given EOF
  obtain ⟨B2, hB2⟩ : ∃ x : Ep, x = { B1 with objs := B1.objs.set hB ro2 } := ⟨_, rfl⟩
  have hB1o : B1.objs[hB]? = some ro1 := by rw [hB1]; simp [hltB]
  have h4 : (read B1 hB).1 = B2 := by
    rw [read_eof_eq B1 hB ro1 hB1o (by rw [hro1]; exact b5) (by rw [hro1]; exact b6) (by rw [hro1]; rfl), hB2, hro2]
  -- 5. B closes
  obtain ⟨ro3, hro3⟩ : ∃ x : Obj, x = { ro2 with state := Gen.StreamStateClosed } := ⟨_, rfl⟩
  obtain ⟨B3, hB3⟩ : ∃ x : Ep, x = { B2 with objs := B2.objs.set hB ro3, pend := [Item.marker 1 hB] } := ⟨_, rfl⟩
  have hB2o : B2.objs[hB]? = some ro2 := by rw [hB2, hB1]; simp [hltB]
  have h5 : (close B2 hB).1 = B3 := by
    have hst : ro2.state = Gen.StreamStateOpen := by
      rw [hro2, hro1]
      show (if ro.state == Gen.StreamStateClosing then Gen.StreamStateClosed else ro.state) = Gen.StreamStateOpen
      rw [b2]; rfl
    have hre : ro2.readErr = true := by rw [hro2, hro1]; rfl
    have hsid : ro2.sid = 1 := by rw [hro2, hro1]; exact b3
    have hp : B2.pend = [] := by rw [hB2, hB1]; exact b7
    rw [close_eq B2 hB ro2 hB2o hst, hB3, hro3]
    simp only [hre, hsid, hp, ↓reduceIte, List.nil_append]
  -- 6. B's write loop: the response, then its own request
  obtain ⟨B4, hB4⟩ : ∃ x : Ep, x = { B3 with pend := [], ctl := [], wr := false, nextRSN := B3.nextRSN + 1, reconfigs := B3.reconfigs ++ [(B3.nextRSN, B3.nextTSN - 1, [1])], reqLog := B3.reqLog ++ [{ rsn := B3.nextRSN, last := B3.nextTSN - 1, sids := [1], wobjs := [hB] }] } := ⟨_, rfl⟩
  have g6 : gather B3 [0] [] [] false = some (B4, [Msg.resp s.a.nextRSN Gen.reconfigResultSuccessPerformed, Msg.req s.b.nextRSN (s.b.nextTSN - 1) [1]]) := by
    rw [gather_marker_eq B3 1 hB (by rw [hB3]) (by rw [hB3, hB2, hB1]; exact b9), hB4]
    have : B3.ctl = [Msg.resp s.a.nextRSN Gen.reconfigResultSuccessPerformed] := by rw [hB3, hB2, hB1]
    rw [this, hB3, hB2, hB1]; rfl
  -- 7. the response reaches A
  obtain ⟨A3, hA3⟩ : ∃ x : Ep, x = { A2 with objs := A2.objs.set hA wo2, reconfigs := [] } := ⟨_, rfl⟩
  have hA2o : A2.objs[hA]? = some wo1 := by rw [hA2, hA1]; simp [hltA]
  have h7 : handle A2 (Msg.resp s.a.nextRSN Gen.reconfigResultSuccessPerformed) = A3 := by
    show handleResp A2 s.a.nextRSN Gen.reconfigResultSuccessPerformed = A3
    rw [handleResp_eq A2 s.a.nextRSN (s.a.nextTSN - 1) 1 hA wo1 (by rw [hA2, hA1]; simp [a10]) (by rw [hA2, hA1]; simp [a11, lookup])
      hA2o (by rw [hwo1]; exact (by decide : Gen.StreamStateClosing ≠ Gen.StreamStateOpen)), hA3, hwo2]
  -- 8. B's request reaches A
  obtain ⟨A4, hA4⟩ : ∃ x : Ep, x = { A3 with objs := A3.objs.set hA wo3, reg := [], perf := s.b.nextRSN :: A3.perf, ctl := [Msg.resp s.b.nextRSN Gen.reconfigResultSuccessPerformed] } := ⟨_, rfl⟩
  have hA3o : A3.objs[hA]? = some wo2 := by rw [hA3, hA2, hA1]; simp [hltA]
  have h8 : handle A3 (Msg.req s.b.nextRSN (s.b.nextTSN - 1) [1]) = A4 := by
    rw [handle_req_eq _ _ _ _ _ _ (handleReq_perform_eq A3 s.b.nextRSN (s.b.nextTSN - 1) 1 hA wo2 (by rw [hA3, hA2, hA1]; exact a13)
      (by rw [hA3, hA2, hA1]; exact a14) (by rw [hA3, hA2, hA1]; simp [a11, lookup]) hA3o (by rw [hA3, hA2, hA1]; exact a12))]
    have hreg : A3.reg = [(1, hA)] := by rw [hA3, hA2, hA1]; exact a11
    have hctl : A3.ctl = [] := by rw [hA3, hA2]
    rw [hA4, hwo3, hreg, erase_single, hctl]; rfl
  -- 9. A's reader is given EOF
  obtain ⟨wo4, hwo4⟩ : ∃ x : Obj, x = { wo3 with eofSeen := true } := ⟨_, rfl⟩
  obtain ⟨A5, hA5⟩ : ∃ x : Ep, x = { A4 with objs := A4.objs.set hA wo4 } := ⟨_, rfl⟩
  have hA4o : A4.objs[hA]? = some wo3 := by rw [hA4, hA3, hA2, hA1]; simp [hltA]
  have h9 : (read A4 hA).1 = A5 := by
    rw [read_eof_eq A4 hA wo3 hA4o (by rw [hwo3, hwo2, hwo1]; exact a5) (by rw [hwo3, hwo2, hwo1]; exact a6) (by rw [hwo3]; rfl), hA5, hwo4]
  -- 10. A's write loop sends the response
  obtain ⟨A6, hA6⟩ : ∃ x : Ep, x = { A5 with ctl := [] } := ⟨_, rfl⟩
  have g10 : gather A5 [] [] [] false = some (A6, [Msg.resp s.b.nextRSN Gen.reconfigResultSuccessPerformed]) := by
    rw [gather_idle_eq A5 (by rw [hA5, hA4, hA3, hA2]), hA6]
    have : A5.ctl = [Msg.resp s.b.nextRSN Gen.reconfigResultSuccessPerformed] := by rw [hA5, hA4]
    rw [this]
  -- 11. which reaches B
  obtain ⟨B5, hB5⟩ : ∃ x : Ep, x = { B4 with reconfigs := [] } := ⟨_, rfl⟩
  have h11 : handle B4 (Msg.resp s.b.nextRSN Gen.reconfigResultSuccessPerformed) = B5 := by
    show handleResp B4 s.b.nextRSN Gen.reconfigResultSuccessPerformed = B5
    rw [handleResp_unreg_eq B4 s.b.nextRSN (s.b.nextTSN - 1) 1 (by rw [hB4, hB3, hB2, hB1]; simp [b10]) (by rw [hB4, hB3, hB2, hB1]; rfl), hB5]
  -- run the eleven steps
  have hrun : s.run (resetOps hA hB s.ha.length s.hb.length) =
      { s with a := A6, b := B5, ha := s.ha ++ [Msg.req s.a.nextRSN (s.a.nextTSN - 1) [1]] ++ [Msg.resp s.b.nextRSN Gen.reconfigResultSuccessPerformed],
               hb := s.hb ++ [Msg.resp s.a.nextRSN Gen.reconfigResultSuccessPerformed, Msg.req s.b.nextRSN (s.b.nextTSN - 1) [1]] } := by
    simp only [resetOps, Sys.run, List.foldl_cons, List.foldl_nil]
    rw [e1, e2, e3, step_read_b]
    simp only []
    rw [h4, step_close_b]
    simp only []
    rw [h5, step_gather_b _ _ _ _ _ _ _ (by exact g6)]
    rw [step_deliver_b _ s.hb.length (Msg.resp s.a.nextRSN Gen.reconfigResultSuccessPerformed) (by simp)]
    simp only []
    rw [h7, step_deliver_b _ (s.hb.length + 1) (Msg.req s.b.nextRSN (s.b.nextTSN - 1) [1]) (by simp)]
    simp only []
    rw [h8, step_read_a]
    simp only []
    rw [h9, step_gather_a _ _ _ _ _ _ _ (by exact g10)]
    rw [step_deliver_a _ (s.ha.length + 1) (Msg.resp s.b.nextRSN Gen.reconfigResultSuccessPerformed) (by simp)]
    simp only []
    rw [h11]
  rw [hrun]
  have hwoF : wo4 = { wo with state := Gen.StreamStateClosed, ssn := 0, omid := 0, umid := 0, readErr := true, eofSeen := true } := by
    rw [hwo4, hwo3, hwo2, hwo1]; rfl
  have hroF : ro3 = { ro with state := Gen.StreamStateClosed, readErr := true, eofSeen := true } := by
    rw [hro3, hro2, hro1]; rfl
  have oA : A6.objs = s.a.objs.set hA wo4 := by
    rw [hA6, hA5, hA4, hA3, hA2, hA1]; simp only [List.set_set]
  have oB : B5.objs = s.b.objs.set hB ro3 := by
    rw [hB5, hB4, hB3, hB2, hB1]; simp only [List.set_set]
  have eA : A6 = { s.a with objs := s.a.objs.set hA wo4, reg := [], perf := s.b.nextRSN :: s.a.perf, nextRSN := s.a.nextRSN + 1, reqLog := s.a.reqLog ++ [{ rsn := s.a.nextRSN, last := s.a.nextTSN - 1, sids := [1], wobjs := [hA] }] } := by
    apply ep_ext
    · rw [hA6, hA5, hA4, hA3, hA2, hA1]
    · rw [hA6, hA5, hA4, hA3, hA2, hA1]
    · rw [hA6, hA5, hA4, hA3, hA2, hA1]
    · rw [hA6, hA5, hA4, hA3, hA2, hA1]
    · rw [hA6, hA5, hA4, hA3, hA2, hA1]
    · rw [hA6, hA5, hA4, hA3, hA2, hA1]
    · rw [hA6, hA5, hA4, hA3, hA2, hA1]
    · rw [hA6, hA5, hA4, hA3, hA2, hA1]
    · rw [hA6, hA5, hA4, hA3, hA2, hA1]
    · rw [hA6, hA5, hA4, hA3, hA2]; exact a7.symm
    · rw [hA6, hA5, hA4, hA3, hA2, hA1]
    · rw [hA6]; exact a8.symm
    · rw [hA6, hA5, hA4, hA3]; exact a10.symm
    · rw [hA6, hA5, hA4, hA3, hA2]; exact a9.symm
    · rw [hA6, hA5, hA4, hA3, hA2, hA1]
    · rw [hA6, hA5, hA4, hA3, hA2, hA1]
    · rw [hA6, hA5, hA4, hA3, hA2, hA1]
    · rw [hA6, hA5, hA4]
    · exact oA
    · rw [hA6, hA5, hA4, hA3, hA2, hA1]
    · rw [hA6, hA5, hA4, hA3, hA2, hA1]
    · rw [hA6, hA5, hA4, hA3, hA2, hA1]
  have eB : B5 = { s.b with objs := s.b.objs.set hB ro3, reg := [], perf := s.a.nextRSN :: s.b.perf, nextRSN := s.b.nextRSN + 1, reqLog := s.b.reqLog ++ [{ rsn := s.b.nextRSN, last := s.b.nextTSN - 1, sids := [1], wobjs := [hB] }] } := by
    apply ep_ext
    · rw [hB5, hB4, hB3, hB2, hB1]
    · rw [hB5, hB4, hB3, hB2, hB1]
    · rw [hB5, hB4, hB3, hB2, hB1]
    · rw [hB5, hB4, hB3, hB2, hB1]
    · rw [hB5, hB4, hB3, hB2, hB1]
    · rw [hB5, hB4, hB3, hB2, hB1]
    · rw [hB5, hB4, hB3, hB2, hB1]
    · rw [hB5, hB4, hB3, hB2, hB1]
    · rw [hB5, hB4, hB3, hB2, hB1]
    · rw [hB5, hB4]; exact b7.symm
    · rw [hB5, hB4, hB3, hB2, hB1]
    · rw [hB5, hB4]; exact b8.symm
    · rw [hB5]; exact b10.symm
    · rw [hB5, hB4]; exact b9.symm
    · rw [hB5, hB4, hB3, hB2, hB1]
    · rw [hB5, hB4, hB3, hB2, hB1]
    · rw [hB5, hB4, hB3, hB2, hB1]
    · rw [hB5, hB4, hB3, hB2, hB1]
    · exact oB
    · rw [hB5, hB4, hB3, hB2, hB1]
    · rw [hB5, hB4, hB3, hB2, hB1]
    · rw [hB5, hB4, hB3, hB2, hB1]
  rw [eA, eB, hwoF, hroF]
  simp only [List.append_assoc, List.cons_append, List.nil_append]

/-! ### the explicit schedule -/

/-- A opens stream 1 and sends `v1 :: ms1` one message at a time (write, write loop, delivery, read); both applications
close (A first), every RE-CONFIG packet arrives; A opens stream 1 again and sends `v2 :: ms2` the same way. -/
def scheduleOps (tsnA : Nat) (v1 : Nat) (ms1 : List Nat) (v2 : Nat) (ms2 : List Nat) : List Op :=
  [.openS false 1] ++ transferOps 0 0 tsnA 0 (v1 :: ms1) ++ resetOps 0 0 (ms1.length + 1) 0 ++ [.openS false 1] ++
    transferOps 1 1 (tsnA + (ms1.length + 1)) (ms1.length + 1 + 2) (v2 :: ms2)

theorem reopen_schedule (il : Bool) (tsnA tsnB : Nat) (ha : 0 < tsnA) (v1 : Nat) (ms1 : List Nat) (v2 : Nat) (ms2 : List Nat) :
    ∃ (o1 o2 w2 : Obj), (((Sys.init il tsnA tsnB).run (scheduleOps tsnA v1 ms1 v2 ms2)).ep true).objs = [o1, o2] ∧
      o1.eofSeen = true ∧ o1.got = (v1 :: ms1).map (fun m => (m, false)) ∧
      o2.got = (v2 :: ms2).map (fun m => (m, false)) ∧ o2.gen = 2 ∧ o2.readErr = false ∧ o2.nextSeq = ms2.length + 1 ∧
      (((Sys.init il tsnA tsnB).run (scheduleOps tsnA v1 ms1 v2 ms2)).ep false).objs[1]? = some w2 ∧
      w2.wrote = (v2 :: ms2).map (fun m => (m, false)) ∧ w2.gen = 2 ∧
      ((Sys.init il tsnA tsnB).run (scheduleOps tsnA v1 ms1 v2 ms2)).taint = [] := by
  -- incarnation 1
  obtain ⟨s1, hs1⟩ : ∃ x : Sys, x = (Sys.init il tsnA tsnB).step (.openS false 1) := ⟨_, rfl⟩
  have e1 : s1 = { a := { il := il, nextTSN := tsnA, nextRSN := tsnA, cum := tsnB - 1, objs := [{ sid := 1, gen := 1 }], reg := [(1, 0)] },
                   b := { il := il, nextTSN := tsnB, nextRSN := tsnB, cum := tsnA - 1 }, gen := fun i => if i = 1 then 1 else 0 } := by
    rw [hs1]; rfl
  obtain ⟨woN, roN, cs, pk, hrun2, p1, p2, p3, p4, p5, p6, p7, q1, q2, q3, q4, q5, q6, q7, q8, q9, r1, r2, r3, _⟩ :=
    transfer 0 1 v1 ms1 s1 { sid := 1, gen := 1 } (by rw [e1]; rfl) rfl rfl rfl (by rw [e1]; cases il <;> rfl) (by rw [e1]) (by rw [e1])
      (by rw [e1]) (by rw [e1]; show (8 : Nat) ≤ 1200; decide) (by rw [e1]; intro c hc; cases hc) (by rw [e1]) (by rw [e1]) (by rw [e1]; simp only; omega)
      (by rw [e1]; show (1 : Nat) ≤ 8448; decide) (by rw [e1]) (by rw [e1]; show (0 : Nat) < 1048576; decide) (by rw [e1]; show (0 : Nat) < Gen.acceptChSize; decide)
  obtain ⟨s2, hs2⟩ : ∃ x : Sys, x = s1.run (transferOps 0 s1.b.objs.length s1.a.nextTSN s1.ha.length (v1 :: ms1)) := ⟨_, rfl⟩
  rw [← hs2] at hrun2
  have hB0 : s1.b.objs.length = 0 := by rw [e1]; rfl
  have hT0 : s1.a.nextTSN = tsnA := by rw [e1]
  have hH0 : s1.ha.length = 0 := by rw [e1]; rfl
  rw [hB0, hT0, hH0] at hs2
  -- the reset handshake
  have hk := handshake s2 0 0 woN roN (by rw [hrun2, e1]; rfl) p3 p4 r1 r2 r3 (by rw [hrun2, e1]) (by rw [hrun2, e1]) (by rw [hrun2, e1])
    (by rw [hrun2, e1]) (by rw [hrun2, e1]) (by rw [hrun2, e1]) (by rw [hrun2, e1]; simp) (by rw [hrun2, e1]; simp)
    (by rw [hrun2, e1]; rfl) q9 q5 q4 q1 q2 (by rw [hrun2, e1]) (by rw [hrun2, e1]) (by rw [hrun2, e1]) (by rw [hrun2, e1])
    (by rw [hrun2, hB0]) (by rw [hrun2, e1]) (by rw [hrun2, e1]; simp) (by rw [hrun2, e1]; simp only; omega)
  have hl2 : s2.ha.length = ms1.length + 1 := by rw [hrun2, e1]; simp [p1]
  have hl2b : s2.hb.length = 0 := by rw [hrun2, e1]; rfl
  rw [hl2, hl2b] at hk
  obtain ⟨s3, hs3⟩ : ∃ x : Sys, x = s2.run (resetOps 0 0 (ms1.length + 1) 0) := ⟨_, rfl⟩
  rw [← hs3] at hk
  -- what the system looks like after the handshake
  obtain ⟨woF, hwoF⟩ : ∃ x : Obj, x = { woN with state := Gen.StreamStateClosed, ssn := 0, omid := 0, umid := 0, readErr := true, eofSeen := true } := ⟨_, rfl⟩
  obtain ⟨roF, hroF⟩ : ∃ x : Obj, x = { roN with state := Gen.StreamStateClosed, readErr := true, eofSeen := true } := ⟨_, rfl⟩
  have a3objs : s3.a.objs = [woF] := by rw [hk, hrun2, e1, hwoF]; rfl
  have b3objs : s3.b.objs = [roF] := by rw [hk, hrun2, e1, hroF]; rfl
  have a3reg : s3.a.reg = [] := by rw [hk]
  have b3reg : s3.b.reg = [] := by rw [hk]
  have a3pend : s3.a.pend = [] := by rw [hk, hrun2, e1]
  have b3pend : s3.b.pend = [] := by rw [hk, hrun2, e1]
  have a3log : s3.a.reqLog = [{ rsn := tsnA, last := tsnA + (ms1.length + 1) - 1, sids := [1], wobjs := [0] }] := by rw [hk, hrun2, e1]; rfl
  have b3log : s3.b.reqLog = [{ rsn := tsnB, last := tsnB - 1, sids := [1], wobjs := [0] }] := by rw [hk, hrun2, e1]; rfl
  have a3perf : s3.a.perf = [tsnB] := by rw [hk, hrun2, e1]
  have b3perf : s3.b.perf = [tsnA] := by rw [hk, hrun2, e1]
  have g3 : s3.gen 1 = 1 := by rw [hk, hrun2, e1]; rfl
  have t3 : s3.taint = [] := by rw [hk, hrun2, e1]
  have hquiet : s3.quiet 1 = true := by
    unfold Sys.quiet sideQuiet reqsDone
    rw [a3objs, b3objs, a3reg, b3reg, a3pend, b3pend, a3log, b3log, a3perf, b3perf, hwoF, hroF]
    simp [lookup]
    exact ⟨Or.inr (by decide), Or.inr (by decide)⟩
  -- A opens the identifier again: a new object, the next incarnation
  obtain ⟨s4, hs4⟩ : ∃ x : Sys, x = s3.step (.openS false 1) := ⟨_, rfl⟩
  have e4 : s4 = { s3 with a := addObjEp s3.a 1 2, gen := fun i => if i = 1 then 2 else s3.gen i } := by
    rw [hs4]
    simp only [Sys.step, Sys.ep, Bool.false_eq_true, ↓reduceIte, openStream_none _ _ _ (by rw [a3reg]; rfl : lookup 1 s3.a.reg = none), hquiet, g3,
      Sys.setEp]
  have a3ctl : s3.a.ctl = [] := by rw [hk, hrun2, e1]
  have a3wr : s3.a.wr = false := by rw [hk, hrun2, e1]
  have a3mps : s3.a.mps = 1200 := by rw [hk, hrun2, e1]
  have a3next : s3.a.nextTSN = tsnA + (ms1.length + 1) := by rw [hk, hrun2, e1]
  have a3sent : s3.a.sent = cs := by rw [hk, hrun2, e1]; rfl
  have b3rcv : s3.b.rcv = [] := by rw [hk, hrun2, e1]
  have b3cum : s3.b.cum = tsnA - 1 + (ms1.length + 1) := by rw [hk, hrun2, e1]
  have b3off : s3.b.maxOff = 8448 := by rw [hk, hrun2, e1]
  have b3rr : s3.b.rreqs = [] := by rw [hk, hrun2, e1]
  have b3buf : s3.b.buf = 1048576 := by rw [hk, hrun2, e1]
  have b3acq : s3.b.acq = [0] := by rw [hk, hrun2, e1]; rfl
  have b3cap : s3.b.accCap = Gen.acceptChSize := by rw [hk, hrun2, e1]
  have e4a : s4.a = addObjEp s3.a 1 2 := by rw [e4]
  have e4b : s4.b = s3.b := by rw [e4]
  obtain ⟨w2N, r2N, cs2, pk2, hrun5, p1', p2', p3', p4', p5', p6', p7', q1', q2', q3', q4', q5', q6', q7', q8', q9', _, _, _, _⟩ :=
    transfer 1 2 v2 ms2 s4 { sid := 1, gen := 2 } (by rw [e4a]; simp [addObjEp, a3objs]) rfl rfl rfl
      (by rw [e4a]; cases hil : s3.a.il <;> simp [addObjEp, seqOf, hil])
      (by rw [e4a]; exact a3pend) (by rw [e4a]; exact a3ctl) (by rw [e4a]; exact a3wr)
      (by rw [e4a]; show 8 ≤ s3.a.mps; rw [a3mps]; decide)
      (by
        rw [e4a]
        show ∀ c ∈ s3.a.sent, c.tsn < s3.a.nextTSN
        rw [a3sent, a3next]
        intro c hc
        have := p2 c hc
        rw [hT0] at this
        exact this)
      (by rw [e4b]; exact b3reg) (by rw [e4b]; exact b3rcv)
      (by rw [e4b, e4a]; show s3.b.cum + 1 = s3.a.nextTSN; rw [b3cum, a3next]; omega)
      (by rw [e4b, b3off]; decide) (by rw [e4b]; exact b3rr) (by rw [e4b, b3buf]; decide)
      (by rw [e4b, b3acq, b3cap]; decide)
  have hB4 : s4.b.objs.length = 1 := by rw [e4]; simp [b3objs]
  have hT4 : s4.a.nextTSN = tsnA + (ms1.length + 1) := by rw [e4a]; exact a3next
  have hH4 : s4.ha.length = ms1.length + 1 + 2 := by rw [e4, hk]; simp [hl2]
  rw [hB4, hT4, hH4] at hrun5
  -- put the pieces together
  have hall : (Sys.init il tsnA tsnB).run (scheduleOps tsnA v1 ms1 v2 ms2) =
      s4.run (transferOps 1 1 (tsnA + (ms1.length + 1)) (ms1.length + 1 + 2) (v2 :: ms2)) := by
    unfold scheduleOps
    rw [run_append, run_append, run_append, run_append]
    have h1 : (Sys.init il tsnA tsnB).run [Op.openS false 1] = s1 := by rw [hs1]; rfl
    rw [h1, ← hs2, ← hs3]
    have h4 : s3.run [Op.openS false 1] = s4 := by rw [hs4]; rfl
    rw [h4]
  rw [hall, hrun5]
  refine ⟨roF, r2N, w2N, ?_, ?_, ?_, q8', q6', q4', q3', ?_, ?_, p5', ?_⟩
  · simp only [Sys.ep, ↓reduceIte]
    rw [e4]; simp [b3objs]
  · rw [hroF]
  · rw [hroF]; exact q8
  · simp only [Sys.ep, Bool.false_eq_true, ↓reduceIte]
    rw [e4]; simp [addObjEp, a3objs]
  · rw [p7']; simp
  · rw [e4]; exact t3

end Rs
