import SctpVerif.Proofs.Reset.Cross
/-!
The invariant of the two-endpoint system, for every operation list: both endpoints satisfy their local invariants
(`SInv`, `WInv`, `RInv`) and both directions satisfy `XInv`.
-/
namespace Rs

structure DirInv (s : Sys) (x : Bool) : Prop where
  si : SInv (s.ep x)
  wi : WInv (s.ep x)
  ri : RInv (s.ep x)
  xi : XInv (s.ep x) (s.ep (!x)) (s.hist x)

def SysInv (s : Sys) : Prop := ∀ x, DirInv s x

@[simp] theorem ep_setEp_self (s : Sys) (x : Bool) (e : Ep) : (s.setEp x e).ep x = e := by
  cases x <;> simp [Sys.setEp, Sys.ep]
@[simp] theorem ep_setEp_other (s : Sys) (x : Bool) (e : Ep) : (s.setEp x e).ep (!x) = s.ep (!x) := by
  cases x <;> simp [Sys.setEp, Sys.ep]
@[simp] theorem hist_setEp (s : Sys) (x y : Bool) (e : Ep) : (s.setEp x e).hist y = s.hist y := by
  cases x <;> cases y <;> simp [Sys.setEp, Sys.hist]
@[simp] theorem ep_put_self (s : Sys) (x : Bool) (e : Ep) (o : List Msg) : (s.put x e o).ep x = e := by
  cases x <;> simp [Sys.put, Sys.ep]
@[simp] theorem ep_put_other (s : Sys) (x : Bool) (e : Ep) (o : List Msg) : (s.put x e o).ep (!x) = s.ep (!x) := by
  cases x <;> simp [Sys.put, Sys.ep]
@[simp] theorem hist_put_self (s : Sys) (x : Bool) (e : Ep) (o : List Msg) : (s.put x e o).hist x = s.hist x ++ o := by
  cases x <;> simp [Sys.put, Sys.hist]
@[simp] theorem hist_put_other (s : Sys) (x : Bool) (e : Ep) (o : List Msg) : (s.put x e o).hist (!x) = s.hist (!x) := by
  cases x <;> simp [Sys.put, Sys.hist]

/-- the ghost fields do not matter for the endpoint invariants -/
theorem Sys.ep_ghost (s : Sys) (t : List Nat) (g : Nat → Nat) (x : Bool) : ({ s with taint := t, gen := g } : Sys).ep x = s.ep x := by
  cases x <;> rfl
theorem Sys.hist_ghost (s : Sys) (t : List Nat) (g : Nat → Nat) (x : Bool) : ({ s with taint := t, gen := g } : Sys).hist x = s.hist x := by
  cases x <;> rfl

/-- one endpoint `z` moved from `s.ep z` to `e'` (and put `out` on the wire): what has to be shown -/
theorem SysInv.update {s : Sys} (inv : SysInv s) (z : Bool) (e' : Ep) (out : List Msg)
    (hs : SInv e') (hw : WInv e') (hr : RInv e')
    (hsend : XInv e' (s.ep (!z)) (s.hist z ++ out))
    (hrecv : XInv (s.ep (!z)) e' (s.hist (!z))) : SysInv (s.put z e' out) := by
  intro x
  by_cases hx : x = z
  · subst hx
    refine ⟨by simpa using hs, by simpa using hw, by simpa using hr, ?_⟩
    simpa using hsend
  · have hxz : x = !z := by cases x <;> cases z <;> simp_all
    subst hxz
    have d := inv (!z)
    refine ⟨by simpa using d.si, by simpa using d.wi, by simpa using d.ri, ?_⟩
    have : (s.put z e' out).ep (!(!z)) = e' := by simp
    rw [this]
    simpa using hrecv

theorem put_nil (s : Sys) (z : Bool) (e : Ep) : s.put z e [] = s.setEp z e := by
  cases z <;> simp [Sys.put, Sys.setEp]

theorem SysInv.updateEp {s : Sys} (inv : SysInv s) (z : Bool) (e' : Ep)
    (hs : SInv e') (hw : WInv e') (hr : RInv e')
    (hsend : XInv e' (s.ep (!z)) (s.hist z))
    (hrecv : XInv (s.ep (!z)) e' (s.hist (!z))) : SysInv (s.setEp z e') := by
  rw [← put_nil]
  exact inv.update z e' [] hs hw hr (by simpa using hsend) hrecv

/-! ### field facts about the application calls -/

theorem openStream_fields (e : Ep) (sid gen : Nat) :
    (openStream e sid gen).1.sent = e.sent ∧ (openStream e sid gen).1.reqLog = e.reqLog ∧ (openStream e sid gen).1.nextTSN = e.nextTSN ∧
    (openStream e sid gen).1.reconfigs = e.reconfigs ∧ (openStream e sid gen).1.rreqs = e.rreqs ∧ (openStream e sid gen).1.perf = e.perf ∧
    (openStream e sid gen).1.rcv = e.rcv ∧ (openStream e sid gen).1.cum = e.cum := by
  unfold openStream
  split <;> exact ⟨rfl, rfl, rfl, rfl, rfl, rfl, rfl, rfl⟩

theorem write_fields (e : Ep) (h len : Nat) (u : Bool) (m : Nat) :
    (write e h len u m).1.sent = e.sent ∧ (write e h len u m).1.reqLog = e.reqLog ∧ (write e h len u m).1.nextTSN = e.nextTSN ∧
    (write e h len u m).1.reconfigs = e.reconfigs ∧ (write e h len u m).1.rreqs = e.rreqs ∧ (write e h len u m).1.perf = e.perf ∧
    (write e h len u m).1.rcv = e.rcv ∧ (write e h len u m).1.cum = e.cum ∧ ObjsRel ReaderSame e.objs (write e h len u m).1.objs := by
  unfold write
  split
  · exact ⟨rfl, rfl, rfl, rfl, rfl, rfl, rfl, rfl, ObjsRel.refl ReaderSame.refl _⟩
  · rename_i o ho
    split
    · exact ⟨rfl, rfl, rfl, rfl, rfl, rfl, rfl, rfl, ObjsRel.refl ReaderSame.refl _⟩
    · split
      · exact ⟨rfl, rfl, rfl, rfl, rfl, rfl, rfl, rfl, ObjsRel.refl ReaderSame.refl _⟩
      · have rs : ReaderSame o { bump e.il o u with wrote := o.wrote ++ [(m, u)] } := by
          obtain ⟨a1, a2, a3, a4, a5, a6, a7, a8, a9⟩ := bump_readerSame e.il o u
          exact ⟨a1, a2, a3, a4, a5, a6, a7, a8, a9⟩
        exact ⟨rfl, rfl, rfl, rfl, rfl, rfl, rfl, rfl, ObjsRel.set ReaderSame.refl _ _ _ _ ho rs⟩

theorem close_fields (e : Ep) (h : Nat) :
    (close e h).1.sent = e.sent ∧ (close e h).1.reqLog = e.reqLog ∧ (close e h).1.nextTSN = e.nextTSN ∧
    (close e h).1.reconfigs = e.reconfigs ∧ (close e h).1.rreqs = e.rreqs ∧ (close e h).1.perf = e.perf ∧
    (close e h).1.rcv = e.rcv ∧ (close e h).1.cum = e.cum ∧ ObjsRel ReaderSame e.objs (close e h).1.objs := by
  unfold close
  split
  · exact ⟨rfl, rfl, rfl, rfl, rfl, rfl, rfl, rfl, ObjsRel.refl ReaderSame.refl _⟩
  · rename_i o ho
    split
    · exact ⟨rfl, rfl, rfl, rfl, rfl, rfl, rfl, rfl,
        ObjsRel.set ReaderSame.refl _ _ _ _ ho ⟨rfl, rfl, rfl, rfl, rfl, rfl, rfl, rfl, rfl⟩⟩
    · exact ⟨rfl, rfl, rfl, rfl, rfl, rfl, rfl, rfl, ObjsRel.refl ReaderSame.refl _⟩

theorem read_fields (e : Ep) (h : Nat) :
    (read e h).1.sent = e.sent ∧ (read e h).1.reqLog = e.reqLog ∧ (read e h).1.nextTSN = e.nextTSN ∧
    (read e h).1.reconfigs = e.reconfigs ∧ (read e h).1.rreqs = e.rreqs ∧ (read e h).1.perf = e.perf ∧
    (read e h).1.rcv = e.rcv ∧ (read e h).1.cum = e.cum ∧ ObjsRel RxSame e.objs (read e h).1.objs := by
  unfold read
  split
  · exact ⟨rfl, rfl, rfl, rfl, rfl, rfl, rfl, rfl, ObjsRel.refl RxSame.refl _⟩
  · rename_i o ho
    obtain ⟨s1, _, _, s4, _⟩ := drain_same (o.ord.length + o.unord.length) o []
    have rs : RxSame o (if (drain (o.ord.length + o.unord.length) o []).1.readErr
        then { (drain (o.ord.length + o.unord.length) o []).1 with eofSeen := true } else (drain (o.ord.length + o.unord.length) o []).1) := by
      split <;> exact ⟨s1, s4⟩
    exact ⟨rfl, rfl, rfl, rfl, rfl, rfl, rfl, rfl, ObjsRel.set RxSame.refl _ _ _ _ ho rs⟩

theorem accept_fields (e : Ep) :
    (accept e).1.sent = e.sent ∧ (accept e).1.reqLog = e.reqLog ∧ (accept e).1.nextTSN = e.nextTSN ∧
    (accept e).1.reconfigs = e.reconfigs ∧ (accept e).1.rreqs = e.rreqs ∧ (accept e).1.perf = e.perf ∧
    (accept e).1.rcv = e.rcv ∧ (accept e).1.cum = e.cum ∧ (accept e).1.objs = e.objs := by
  unfold accept
  split <;> exact ⟨rfl, rfl, rfl, rfl, rfl, rfl, rfl, rfl, rfl⟩

/-! ### every operation keeps the system invariant -/

theorem init_inv (il : Bool) (tsnA tsnB : Nat) (ha : 0 < tsnA) (hb : 0 < tsnB) : SysInv (Sys.init il tsnA tsnB) := by
  have hS : ∀ e : Ep, e.pend = [] → e.sent = [] → e.reqLog = [] → e.objs = [] → e.ctl = [] → SInv e := by
    intro e h1 h2 h3 h4 h5
    refine ⟨?_, ?_, ?_, ?_, ?_, ?_, ?_, ?_, ?_, ?_⟩
    · rw [h2]; intro c hc; cases hc
    · rw [h2]; intro c hc; cases hc
    · rw [h1]; intro s h hm; cases hm
    · rw [h1]; exact List.Pairwise.nil
    · rw [h1]; exact List.Pairwise.nil
    · rw [h4]; intro h o ho; simp at ho
    · rw [h3]; intro r hr; cases hr
    · rw [h3]; intro r hr; cases hr
    · rw [h3]; intro r hr; cases hr
    · rw [h5]; intro p hp; cases hp
  have hW : ∀ e : Ep, e.pend = [] → e.sent = [] → e.objs = [] → WInv e := by
    intro e h1 h2 h4
    refine ⟨?_, ?_, ?_, ?_⟩
    · intro d hd; simp [Ep.items, h1, h2, pendData] at hd
    · rw [h4]; intro h o ho; simp at ho
    · rw [h4]; intro h o ho; simp at ho
    · rw [h4]; intro h o ho; simp at ho
  have hR : ∀ e : Ep, e.reg = [] → e.objs = [] → e.rcv = [] → RInv e := by
    intro e h1 h2 h3
    refine ⟨?_, ?_, ?_, ?_, ?_⟩
    · rw [h1]; intro sid h hl; simp [lookup] at hl
    · rw [h2]; intro h o ho; simp at ho
    · rw [h3]; intro t ht; cases ht
    · rw [h2]; intro h o ho; simp at ho
    · rw [h2]; intro h o ho; simp at ho
  have hX : ∀ S R : Ep, S.sent = [] → S.reconfigs = [] → R.rreqs = [] → R.perf = [] → R.rcv = [] → R.objs = [] →
      R.cum < S.nextTSN → XInv S R [] := by
    intro S R h1 h2 h3 h4 h5 h6 h7
    refine ⟨?_, ?_, ?_, ?_, ?_, ?_, h7, ?_, ?_⟩
    · intro p hp; cases hp
    · rw [h2]; intro r hr; cases hr
    · rw [h3]; intro r hr; cases hr
    · rw [h3]; exact List.Pairwise.nil
    · rw [h4]; intro r hr; cases hr
    · rw [h5]; intro r hr; cases hr
    · rw [h6]; intro h o ho; simp at ho
    · rw [h1]; intro c hc; cases hc
  intro x
  cases x
  · exact ⟨hS _ rfl rfl rfl rfl rfl, hW _ rfl rfl rfl, hR _ rfl rfl rfl,
      hX _ _ rfl rfl rfl rfl rfl rfl (by simp [Sys.init, Sys.ep]; omega)⟩
  · exact ⟨hS _ rfl rfl rfl rfl rfl, hW _ rfl rfl rfl, hR _ rfl rfl rfl,
      hX _ _ rfl rfl rfl rfl rfl rfl (by simp [Sys.init, Sys.ep]; omega)⟩

theorem SysInv.ghost {s : Sys} (inv : SysInv s) (t : List Nat) (g : Nat → Nat) : SysInv { s with taint := t, gen := g } := by
  intro x
  have d := inv x
  exact ⟨by rw [Sys.ep_ghost]; exact d.si, by rw [Sys.ep_ghost]; exact d.wi, by rw [Sys.ep_ghost]; exact d.ri,
    by rw [Sys.ep_ghost, Sys.ep_ghost, Sys.hist_ghost]; exact d.xi⟩

theorem step_inv (s : Sys) (op : Op) (inv : SysInv s) : SysInv (s.step op) := by
  cases op with
  | openS z sid =>
    simp only [Sys.step]
    have d := inv z
    have d' := inv (!z)
    obtain ⟨f1, f2, f3, f4, f5, f6, f7, f8⟩ := openStream_fields (s.ep z) sid (s.gen sid + 1)
    obtain ⟨i1, i2⟩ := openStream_inv (s.ep z) sid (s.gen sid + 1) d.si d.wi
    have i3 := openStream_rinv (s.ep z) sid (s.gen sid + 1) d.ri
    have hsend : XInv (openStream (s.ep z) sid (s.gen sid + 1)).1 (s.ep (!z)) (s.hist z) :=
      d.xi.senderSame f1 f2 f3 (fun r hr => by rw [f4] at hr; exact hr)
    have hrecv : XInv (s.ep (!z)) (openStream (s.ep z) sid (s.gen sid + 1)).1 (s.hist (!z)) := by
      have dx := d'.xi
      simp only [Bool.not_not] at dx
      unfold openStream
      split
      · exact dx
      · exact dx.addObj { sid := sid, gen := s.gen sid + 1 } rfl rfl rfl rfl rfl rfl
    have base := inv.updateEp z _ i1 i2 i3 hsend hrecv
    split
    · split
      · exact base.ghost _ _
      · exact base.ghost _ _
    · exact base
  | write z h len u m =>
    simp only [Sys.step]
    have d := inv z
    have d' := inv (!z)
    obtain ⟨f1, f2, f3, f4, f5, f6, f7, f8, f9⟩ := write_fields (s.ep z) h len u m
    obtain ⟨i1, i2⟩ := write_inv (s.ep z) h len u m d.si d.wi
    have dx := d'.xi
    simp only [Bool.not_not] at dx
    exact inv.updateEp z _ i1 i2 (write_rinv _ _ _ _ _ d.ri)
      (d.xi.senderSame f1 f2 f3 (fun r hr => by rw [f4] at hr; exact hr)) (dx.recvSame f5 f6 f7 f8 f9)
  | close z h =>
    simp only [Sys.step]
    have d := inv z
    have d' := inv (!z)
    obtain ⟨f1, f2, f3, f4, f5, f6, f7, f8, f9⟩ := close_fields (s.ep z) h
    obtain ⟨i1, i2⟩ := close_inv (s.ep z) h d.si d.wi
    have dx := d'.xi
    simp only [Bool.not_not] at dx
    exact inv.updateEp z _ i1 i2 (close_rinv _ _ d.ri)
      (d.xi.senderSame f1 f2 f3 (fun r hr => by rw [f4] at hr; exact hr)) (dx.recvSame f5 f6 f7 f8 f9)
  | gather z sel pre post sack =>
    simp only [Sys.step]
    split
    · rename_i e out hg
      have d := inv z
      have d' := inv (!z)
      obtain ⟨i1, i2⟩ := gather_inv _ _ _ _ _ _ _ hg d.si d.wi
      have dx := d'.xi
      simp only [Bool.not_not] at dx
      have hrecv : XInv (s.ep (!z)) e (s.hist (!z)) := by
        unfold gather at hg
        split at hg
        · cases hg
        · rename_i popped left hp
          simp only at hg
          split at hg
          · simp only [Option.some.injEq, Prod.mk.injEq] at hg
            rw [← hg.1]
            obtain ⟨a1, a2, a3, a4, a5, a6, a7, a8⟩ := gatherEp_fields (s.ep z) popped left
            exact dx.recvSame a6 a7 a3 a2 (a5 ▸ ObjsRel.refl ReaderSame.refl _)
          · cases hg
      exact inv.update z e out i1 i2 (gather_rinv _ _ _ _ _ _ _ hg d.ri) (d.xi.gather d.si sel pre post sack e out hg) hrecv
    · exact inv
  | deliver x i =>
    simp only [Sys.step]
    split
    · exact inv
    · rename_i p hp
      -- the endpoint !x handles a packet of x's history
      have d := inv x
      have d' := inv (!x)
      have hmem : p ∈ s.hist x := List.mem_of_getElem? hp
      have hok : PktOK (s.ep x) p := d.xi.hist p hmem
      obtain ⟨i1, i2⟩ := handle_inv (s.ep (!x)) p d'.si d'.wi
      have i3 := handle_rinv (s.ep (!x)) p d'.ri
      have hsend : XInv (handle (s.ep (!x)) p) (s.ep (!(!x))) (s.hist (!x)) := handle_xinv_send d'.xi p
      have hrecv : XInv (s.ep (!(!x))) (handle (s.ep (!x)) p) (s.hist (!(!x))) := by
        simp only [Bool.not_not]
        exact handle_xinv_recv d.xi d.si d'.ri p hok
      exact inv.updateEp (!x) _ i1 i2 i3 hsend hrecv
  | trc z =>
    simp only [Sys.step]
    have d := inv z
    have d' := inv (!z)
    obtain ⟨i1, i2⟩ := trc_inv (s.ep z) d.si d.wi
    have dx := d'.xi
    simp only [Bool.not_not] at dx
    exact inv.updateEp z _ i1 i2 (d.ri.irrelevant rfl rfl rfl rfl rfl)
      (d.xi.senderSame rfl rfl rfl (fun r hr => hr)) (dx.recvSame rfl rfl rfl rfl (ObjsRel.refl ReaderSame.refl _))
  | t3 z => exact inv
  | read z h =>
    simp only [Sys.step]
    have d := inv z
    have d' := inv (!z)
    obtain ⟨f1, f2, f3, f4, f5, f6, f7, f8, f9⟩ := read_fields (s.ep z) h
    obtain ⟨i1, i2⟩ := read_inv (s.ep z) h d.si d.wi
    have dx := d'.xi
    simp only [Bool.not_not] at dx
    exact inv.updateEp z _ i1 i2 (read_rinv _ _ d.ri)
      (d.xi.senderSame f1 f2 f3 (fun r hr => by rw [f4] at hr; exact hr)) (dx.recvRx f5 f6 f7 f8 f9)
  | accept z =>
    simp only [Sys.step]
    have d := inv z
    have d' := inv (!z)
    obtain ⟨f1, f2, f3, f4, f5, f6, f7, f8, f9⟩ := accept_fields (s.ep z)
    obtain ⟨i1, i2⟩ := accept_inv (s.ep z) d.si d.wi
    have dx := d'.xi
    simp only [Bool.not_not] at dx
    exact inv.updateEp z _ i1 i2 (accept_rinv _ d.ri)
      (d.xi.senderSame f1 f2 f3 (fun r hr => by rw [f4] at hr; exact hr)) (dx.recvSame f5 f6 f7 f8 (f9 ▸ ObjsRel.refl ReaderSame.refl _))

theorem run_inv (il : Bool) (tsnA tsnB : Nat) (ha : 0 < tsnA) (hb : 0 < tsnB) (ops : List Op) :
    SysInv ((Sys.init il tsnA tsnB).run ops) := by
  unfold Sys.run
  have : ∀ s, SysInv s → SysInv (ops.foldl Sys.step s) := by
    induction ops with
    | nil => intro s h; exact h
    | cons op rest ih => intro s h; simp only [List.foldl_cons]; exact ih _ (step_inv s op h)
  exact this _ (init_inv il tsnA tsnB ha hb)

end Rs
