import SctpVerif.Proofs.Reset.Gens
/-!
One inbound packet, step by step, for everything at once: `HCtx S R H taint gen` bundles what is known about the
direction `S → R` (sender invariants, `XInv`, the receiver invariant of `R`) with the incarnation bookkeeping of both
endpoints, and every micro-step of `handle` at `R` keeps it.
-/
namespace Rs

structure HCtx (S R : Ep) (H : List Msg) (taint : List Nat) (gen : Nat → Nat) : Prop where
  sS : SInv S
  wS : WInv S
  x : XInv S R H
  rR : RInv R
  gR : GDir R S taint gen
  gS : GDir S R taint gen

theorem resetStreamsIfAny_eq (R : Ep) (rsn last : Nat) (sids : List Nat) :
    (resetStreamsIfAny R rsn last sids).1 = if last ≤ R.cum then performEp R rsn sids else R := by
  unfold resetStreamsIfAny performEp
  split <;> rfl

theorem performEp_rinv (R : Ep) (rsn : Nat) (sids : List Nat) (inv : RInv R) : RInv (performEp R rsn sids) :=
  (foldl_resetOne_rinv sids R inv).irrelevant rfl rfl rfl rfl rfl

/-- objects of `R` keep their handle, identifier and incarnation when a request is performed -/
theorem performEp_handles (R : Ep) (rsn : Nat) (sids : List Nat) (hw : Nat) (w : Obj) (h : R.objs[hw]? = some w) :
    ∃ w', (performEp R rsn sids).objs[hw]? = some w' ∧ w'.sid = w.sid ∧ w'.gen = w.gen := by
  obtain ⟨w', hw', q⟩ := (foldl_resetOne_objs sids R).2 hw w h
  exact ⟨w', hw', q.sid, q.gen⟩

theorem HCtx.perform {S R : Ep} {H : List Msg} {taint : List Nat} {gen : Nat → Nat} (c : HCtx S R H taint gen)
    (rq : ReqRec) (hrq : rq ∈ S.reqLog) (hle : rq.last ≤ R.cum) (hfresh : rq.rsn ∉ R.perf) :
    HCtx S (performEp R rq.rsn rq.sids) H taint gen := by
  obtain ⟨sS, wS, x, rR, gR, gS⟩ := c
  have hlog : (rq.sids.foldl resetOne R).reqLog = R.reqLog := (foldl_resetOne_frame rq.sids R).same.reqLog
  have hsent : (rq.sids.foldl resetOne R).sent = R.sent := (foldl_resetOne_frame rq.sids R).same.sent
  obtain ⟨_, _, _, _, f5, _⟩ := foldl_resetOne_fields rq.sids R
  refine ⟨sS, wS, x.perform rq.rsn rq.last rq.sids ⟨rq, hrq, rfl, rfl, rfl⟩ hle, performEp_rinv R _ _ rR,
    gR.perform gS sS wS x rR rq hrq hle hfresh, ?_⟩
  refine gS.mono (ObjsRel.refl GSame.refl _) rfl (fun _ h => h) ?_ (performEp_handles R _ _) ?_ (fun _ h => h) ?_
  · intro r hr
    show r ∈ rq.rsn :: (rq.sids.foldl resetOne R).perf
    rw [f5]; exact List.mem_cons_of_mem _ hr
  · intro r hr
    show r ∈ (rq.sids.foldl resetOne R).reqLog
    rw [hlog]; exact hr
  · intro c hc
    left
    have : c ∈ (rq.sids.foldl resetOne R).sent := hc
    rw [hsent] at this; exact this

theorem HCtx.reset {S R : Ep} {H : List Msg} {taint : List Nat} {gen : Nat → Nat} (c : HCtx S R H taint gen)
    (rsn last : Nat) (sids : List Nat) (hm : ReqMatch S rsn last sids) (hfresh : rsn ∉ R.perf) :
    HCtx S (resetStreamsIfAny R rsn last sids).1 H taint gen := by
  rw [resetStreamsIfAny_eq]
  split
  · rename_i hle
    obtain ⟨rq, hrq, rfl, rfl, rfl⟩ := hm
    exact c.perform rq hrq hle hfresh
  · exact c

/-- what performing does to the performed set: only this request's number is added -/
theorem resetStreamsIfAny_perf (R : Ep) (rsn last : Nat) (sids : List Nat) :
    ∀ r ∈ (resetStreamsIfAny R rsn last sids).1.perf, r = rsn ∨ r ∈ R.perf := by
  rw [resetStreamsIfAny_eq]
  split
  · intro r hr
    obtain ⟨_, _, _, _, f5, _⟩ := foldl_resetOne_fields sids R
    have : r ∈ rsn :: (sids.foldl resetOne R).perf := hr
    rw [f5] at this
    rcases List.mem_cons.mp this with h | h
    · exact Or.inl h
    · exact Or.inr h
  · intro r hr; exact Or.inr hr

theorem HCtx.recheck {S : Ep} {H : List Msg} {taint : List Nat} {gen : Nat → Nat} (l : List (Nat × Nat × List Nat))
    (hl : ∀ r ∈ l, ReqMatch S r.1 r.2.1 r.2.2) (hnd : l.Pairwise (fun a b => a.1 ≠ b.1)) :
    ∀ R, (∀ r ∈ l, r.1 ∉ R.perf) → HCtx S R H taint gen → HCtx S (Rs.recheck R l).1 H taint gen := by
  induction l with
  | nil => intro R _ c; exact c
  | cons r rest ih =>
    intro R hf c
    simp only [Rs.recheck]
    obtain ⟨hr, hrest⟩ := List.pairwise_cons.mp hnd
    apply ih (fun x hx => hl x (List.mem_cons_of_mem _ hx)) hrest
    · intro x hx hmem
      rcases resetStreamsIfAny_perf R r.1 r.2.1 r.2.2 _ hmem with h | h
      · exact hr x hx h.symm
      · exact hf x (List.mem_cons_of_mem _ hx) h
    · exact c.reset r.1 r.2.1 r.2.2 (hl r List.mem_cons_self) (hf r List.mem_cons_self)

theorem HCtx.bumpCum {S R : Ep} {H : List Msg} {taint : List Nat} {gen : Nat → Nat} (c : HCtx S R H taint gen)
    (hc : R.rcv.contains (R.cum + 1) = true) :
    HCtx S { R with rcv := R.rcv.filter (· != R.cum + 1), cum := R.cum + 1 } H taint gen := by
  obtain ⟨sS, wS, x, rR, gR, gS⟩ := c
  refine ⟨sS, wS, x.bumpCum sS hc, ?_, ?_, ?_⟩
  · obtain ⟨h1, h2, h3, h4, h5⟩ := rR
    refine ⟨h1, h2, ?_, h4, h5⟩
    intro t ht
    simp only [List.mem_filter, bne_iff_ne, ne_eq] at ht
    have := h3 t ht.1
    simp only; omega
  · exact gR.mono (ObjsRel.refl GSame.refl _) rfl (fun _ h => h) (fun _ h => h) (fun hw w h => ⟨w, h, rfl, rfl⟩)
      (fun _ h => h) (fun _ h => h) (fun c hc => Or.inl hc)
  · exact gS.mono (ObjsRel.refl GSame.refl _) rfl (fun _ h => h) (fun _ h => h) (fun hw w h => ⟨w, h, rfl, rfl⟩)
      (fun _ h => h) (fun _ h => h) (fun c hc => Or.inl hc)

theorem HCtx.advance {S : Ep} {H : List Msg} {taint : List Nat} {gen : Nat → Nat} (fuel : Nat) :
    ∀ R, HCtx S R H taint gen → HCtx S (Rs.advance fuel R).1 H taint gen := by
  induction fuel with
  | zero => intro R c; exact c
  | succ n ih =>
    intro R c
    simp only [Rs.advance]
    split
    · rename_i hc
      apply ih
      have c1 := c.bumpCum hc
      exact HCtx.recheck _ (fun r hr => (c1.x.rreqs r hr).1) c1.x.rreqUniq _ (fun r hr => (c1.x.rreqs r hr).2) c1
    · exact c

/-- fields no invariant of the direction reads -/
theorem HCtx.sameR {S R R' : Ep} {H : List Msg} {taint : List Nat} {gen : Nat → Nat} (c : HCtx S R H taint gen)
    (hil : R'.il = R.il) (hcum : R'.cum = R.cum) (hrcv : R'.rcv = R.rcv) (hreg : R'.reg = R.reg) (hobjs : R'.objs = R.objs)
    (hrreqs : R'.rreqs = R.rreqs) (hperf : R'.perf = R.perf) (hlog : R'.reqLog = R.reqLog) (hsent : R'.sent = R.sent) :
    HCtx S R' H taint gen := by
  obtain ⟨sS, wS, x, rR, gR, gS⟩ := c
  refine ⟨sS, wS, x.recvSame hrreqs hperf hrcv hcum (hobjs ▸ ObjsRel.refl ReaderSame.refl _), rR.irrelevant hil hcum hrcv hreg hobjs, ?_, ?_⟩
  · exact gR.mono (hobjs ▸ ObjsRel.refl GSame.refl _) hreg (fun r hr => by rw [hlog]; exact hr) (fun _ h => h)
      (fun hw w h => ⟨w, h, rfl, rfl⟩) (fun _ h => h) (fun r hr => by rw [hperf]; exact hr) (fun c hc => Or.inl hc)
  · exact gS.mono (ObjsRel.refl GSame.refl _) rfl (fun _ h => h) (fun r hr => by rw [hperf]; exact hr)
      (fun hw w h => ⟨w, by rw [hobjs]; exact h, rfl, rfl⟩) (fun r hr => by rw [hlog]; exact hr) (fun _ h => h)
      (fun c hc => Or.inl (by rw [hsent] at hc; exact hc))

theorem HCtx.handleData {S R : Ep} {H : List Msg} {taint : List Nat} {gen : Nat → Nat} (c : HCtx S R H taint gen)
    (ch : Chunk) (hch : ch ∈ S.sent) : HCtx S (Rs.handleData R ch).1 H taint gen := by
  unfold Rs.handleData
  simp only
  split
  · rename_i hcan
    simp only [Bool.and_eq_true, Bool.not_eq_true', decide_eq_true_eq] at hcan
    have hfresh : ¬ Recvd R ch.tsn := by
      rintro (h | h)
      · omega
      · have := hcan.1.1; simp at this; exact this h
    split
    · exact c
    · rename_i r e1 h hr1
      -- the stream table after getOrCreateStream
      have h1 : HCtx S e1 H taint gen ∧ lookup ch.d.sid e1.reg = some h ∧ e1.cum = R.cum ∧ e1.il = R.il ∧ e1.rcv = R.rcv := by
        split at hr1
        · rename_i h' hl
          cases hr1; exact ⟨c, hl, rfl, rfl, rfl⟩
        · rename_i hl
          split at hr1
          · cases hr1
            refine ⟨?_, lookup_insert_self _ _ _, rfl, rfl, rfl⟩
            obtain ⟨sS, wS, x, rR, gR, gS⟩ := c
            refine ⟨sS, wS, x.addObj { sid := ch.d.sid, gen := ch.d.gen } rfl rfl rfl rfl rfl rfl,
              rR.addObj ch.d.sid ch.d.gen hl rfl rfl rfl rfl rfl, ?_, ?_⟩
            · refine gR.addObj rR ch.d.sid ch.d.gen hl ?_ rfl rfl rfl rfl
              intro ht
              obtain ⟨hg, ow, how, hows, howg⟩ := fresh_gen gS sS wS x ch hch hfresh ht
              refine ⟨hg, ?_⟩
              intro j oj hoj hojs hojg
              -- an object of the current incarnation that is not registered was reset: its partner is dead, and the
              -- partner is the writer of this chunk — which would then have been received long ago
              have hre : oj.readErr = true := by
                rcases rR.unregErr j oj hoj with h | h
                · rw [hojs, hl] at h; cases h
                · exact h
              obtain ⟨hw, w, a1, a2, a3, a4, _⟩ := gR.eofLink j oj hoj (by rw [hojs]; exact ht) hre
              have : hw = ch.d.wobj := gS.uniq hw ch.d.wobj w ow a1 how (by rw [a2, hojs]; exact ht) (by rw [a2, hojs, hows])
                (by rw [a3, hojg, howg, hg])
              subst this
              have := dead_chunk_recvd sS x ch hch a4
              omega
            · exact gS.mono (ObjsRel.refl GSame.refl _) rfl (fun _ h => h) (fun _ h => h)
                (fun hw w h => ⟨w, by simp only; rw [List.getElem?_append_left (getElem?_lt h)]; exact h, rfl, rfl⟩)
                (fun _ h => h) (fun _ h => h) (fun c hc => Or.inl hc)
          · cases hr1
      obtain ⟨c1, hl1, hcum1, hil1, hrcv1⟩ := h1
      split
      · exact c1.sameR rfl rfl rfl rfl rfl rfl rfl rfl rfl
      · split
        · exact c1.sameR rfl rfl rfl rfl rfl rfl rfl rfl rfl
        · rename_i o ho
          obtain ⟨o2, ho2, hsid, hne⟩ := c1.rR.regOK _ _ hl1
          rw [ho] at ho2; cases ho2
          apply HCtx.advance
          obtain ⟨sS, wS, x, rR, gR, gS⟩ := c1
          have hfresh1 : ¬ Recvd e1 ch.tsn := by unfold Recvd; rw [hcum1, hrcv1]; exact hfresh
          refine ⟨sS, wS, x.push sS h o ch ho hch hsid rfl rfl rfl rfl rfl,
            rR.push h o ch ho hne (by rw [hcum1]; exact hcan.1.2) rfl rfl rfl rfl rfl, ?_, ?_⟩
          · refine gR.push h o ch ho ?_ rfl rfl rfl rfl
            intro ht
            have ht' : ch.d.sid ∉ taint := by rw [← hsid]; exact ht
            obtain ⟨hg, _⟩ := fresh_gen gS sS wS x ch hch hfresh1 ht'
            rw [hg, gR.regCur ch.d.sid h o ht' hl1 ho]
          · obtain ⟨p1, p2, _⟩ := pushObj_same e1.il o ch
            refine gS.mono (ObjsRel.refl GSame.refl _) rfl (fun _ h => h) (fun _ h => h) ?_ (fun _ h => h) (fun _ h => h) (fun c hc => Or.inl hc)
            intro hw w hwo
            by_cases hj : hw = h
            · subst hj; rw [ho] at hwo; cases hwo
              exact ⟨_, by simp [getElem?_lt ho], p1, p2⟩
            · exact ⟨w, by simp only; rw [List.getElem?_set_ne (Ne.symm hj)]; exact hwo, rfl, rfl⟩
  · exact HCtx.advance _ R c

theorem HCtx.handleDatas {S : Ep} {H : List Msg} {taint : List Nat} {gen : Nat → Nat} (cs : List Chunk) (hcs : ∀ c ∈ cs, c ∈ S.sent) :
    ∀ R, HCtx S R H taint gen → HCtx S (Rs.handleDatas R cs).1 H taint gen := by
  induction cs with
  | nil => intro R c; exact c
  | cons ch rest ih =>
    intro R c
    simp only [Rs.handleDatas]
    exact ih (fun x hx => hcs x (List.mem_cons_of_mem _ hx)) _ (c.handleData ch (hcs ch List.mem_cons_self))

theorem HCtx.handleReq {S R : Ep} {H : List Msg} {taint : List Nat} {gen : Nat → Nat} (c : HCtx S R H taint gen)
    (rsn last : Nat) (sids : List Nat) (hm : ReqMatch S rsn last sids) : HCtx S (Rs.handleReq R rsn last sids).1 H taint gen := by
  unfold Rs.handleReq
  split
  · exact c
  · rename_i hnp
    split
    · exact c
    · have hnp' : rsn ∉ R.perf := by simpa using hnp
      have c1 : HCtx S { R with rreqs := insert rsn (last, sids) R.rreqs } H taint gen := by
        obtain ⟨sS, wS, x, rR, gR, gS⟩ := c
        refine ⟨sS, wS, x.addRreq rsn last sids hm hnp', rR.irrelevant rfl rfl rfl rfl rfl, ?_, ?_⟩
        · exact gR.mono (ObjsRel.refl GSame.refl _) rfl (fun _ h => h) (fun _ h => h) (fun hw w h => ⟨w, h, rfl, rfl⟩)
            (fun _ h => h) (fun _ h => h) (fun c hc => Or.inl hc)
        · exact gS.mono (ObjsRel.refl GSame.refl _) rfl (fun _ h => h) (fun _ h => h) (fun hw w h => ⟨w, h, rfl, rfl⟩)
            (fun _ h => h) (fun _ h => h) (fun c hc => Or.inl hc)
      exact c1.reset rsn last sids hm hnp'

theorem HCtx.handleResp {S R : Ep} {H : List Msg} {taint : List Nat} {gen : Nat → Nat} (c : HCtx S R H taint gen)
    (rsn result : Nat) : HCtx S (Rs.handleResp R rsn result) H taint gen := by
  obtain ⟨sS, wS, x, rR, gR, gS⟩ := c
  obtain ⟨a1, a2, a3, a4, a5, _, a7⟩ := handleResp_spec R rsn result
  have f := handleResp_frame R rsn result
  refine ⟨sS, wS, x.recvSame a1 a2 a3 a4 a7, handleResp_rinv R rsn result rR, ?_, ?_⟩
  · exact gR.mono (a7.imp (fun _ _ r => ⟨r.sid, r.gen, r.rx, r.readErr⟩)) a5 (fun r hr => by rw [f.same.reqLog]; exact hr) (fun _ h => h)
      (fun hw w h => ⟨w, h, rfl, rfl⟩) (fun _ h => h) (fun r hr => by rw [a2]; exact hr) (fun c hc => Or.inl hc)
  · refine gS.mono (ObjsRel.refl GSame.refl _) rfl (fun _ h => h) (fun r hr => by rw [a2]; exact hr) ?_
      (fun r hr => by rw [f.same.reqLog]; exact hr) (fun _ h => h) (fun c hc => Or.inl (by rw [f.same.sent] at hc; exact hc))
    intro hw w hwo
    obtain ⟨w', hw', r⟩ := a7.2 hw w hwo
    exact ⟨w', hw', r.sid, r.gen⟩

theorem HCtx.handle {S R : Ep} {H : List Msg} {taint : List Nat} {gen : Nat → Nat} (c : HCtx S R H taint gen)
    (p : Msg) (hp : PktOK S p) : HCtx S (Rs.handle R p) H taint gen := by
  cases p with
  | data cs => exact (HCtx.handleDatas cs hp R c).sameR rfl rfl rfl rfl rfl rfl rfl rfl rfl
  | sack cum => exact c
  | req rsn last sids => exact (c.handleReq rsn last sids hp).sameR rfl rfl rfl rfl rfl rfl rfl rfl rfl
  | resp rsn result => exact c.handleResp rsn result

end Rs
