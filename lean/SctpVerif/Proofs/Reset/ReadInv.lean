import SctpVerif.Proofs.Reset.SendInv
/-!
The receive queues of one stream object (`pushObj`, `readOne`, `drain`), unfragmented messages: what is queued comes
from what was received, ordered messages come out in sequence-number order without skipping one, and nothing that was
received is lost before it is read. Entirely local to the object (`ReaderInv`), whoever the writer is.
-/
namespace Rs

/-- ids of the ordered messages Read has returned, in order -/
def ordGot (o : Obj) : List Nat := (o.got.filter (fun p => !p.2)).map (·.1)

structure ReaderInv (il : Bool) (o : Obj) : Prop where
  sorted : o.ord.Pairwise (fun a b => a.seq ≤ b.seq)
  ordFrom : ∀ q ∈ o.ord, ∃ c ∈ o.rx, c.d.unord = false ∧ c.d.seq = q.seq ∧ c.d.msg = q.msg
  ordCover : ∀ c ∈ o.rx, c.d.unord = false → c.d.seq < o.nextSeq ∨ ∃ q ∈ o.ord, q.seq = c.d.seq
  unordFrom : ∀ q ∈ o.unord, ∃ c ∈ o.rx, c.d.unord = true ∧ c.d.seq = q.seq ∧ c.d.msg = q.msg
  unordCover : ∀ c ∈ o.rx, c.d.unord = true → ∃ c' ∈ o.rx, c'.d.unord = true ∧ (il = true → c'.d.seq = c.d.seq) ∧
      (il = false → c' = c) ∧ ((c'.d.msg, true) ∈ o.got ∨ ∃ q ∈ o.unord, q.msg = c'.d.msg)
  pref : ∀ W : List Nat, (∀ c ∈ o.rx, c.d.unord = false → W[c.d.seq]? = some c.d.msg) → (W.take o.nextSeq).Sublist (ordGot o)

/-- the part of a stream object the receive half depends on -/
structure ReaderSame (o o' : Obj) : Prop where
  sid : o'.sid = o.sid
  gen : o'.gen = o.gen
  readErr : o'.readErr = o.readErr
  nextSeq : o'.nextSeq = o.nextSeq
  ord : o'.ord = o.ord
  unord : o'.unord = o.unord
  got : o'.got = o.got
  eofSeen : o'.eofSeen = o.eofSeen
  rx : o'.rx = o.rx

theorem ReaderSame.refl (o : Obj) : ReaderSame o o := ⟨rfl, rfl, rfl, rfl, rfl, rfl, rfl, rfl, rfl⟩

theorem ReaderInv.transport {il : Bool} {o o' : Obj} (h : ReaderInv il o) (s : ReaderSame o o') : ReaderInv il o' := by
  obtain ⟨h1, h2, h3, h4, h5, h6⟩ := h
  have hg : ordGot o' = ordGot o := by unfold ordGot; rw [s.got]
  refine ⟨?_, ?_, ?_, ?_, ?_, ?_⟩
  · rw [s.ord]; exact h1
  · rw [s.ord, s.rx]; exact h2
  · rw [s.ord, s.rx, s.nextSeq]; exact h3
  · rw [s.unord, s.rx]; exact h4
  · rw [s.unord, s.rx, s.got]; exact h5
  · rw [s.rx, s.nextSeq, hg]; exact h6

theorem readerInv_new (il : Bool) (sid gen : Nat) : ReaderInv il { sid := sid, gen := gen } :=
  ⟨List.Pairwise.nil, fun _ h => (by cases h), fun _ h => (by cases h), fun _ h => (by cases h), fun _ h => (by cases h),
   fun W _ => (by simp [ordGot])⟩

/-! ### pushObj -/

theorem mem_insOrd (q x : QMsg) (l : List QMsg) : x ∈ insOrd q l ↔ x = q ∨ x ∈ l := by
  induction l with
  | nil => simp [insOrd]
  | cons y rest ih =>
    simp only [insOrd]
    split
    · simp only [List.mem_cons, ih]
      constructor
      · rintro (h | h | h)
        · exact Or.inr (Or.inl h)
        · exact Or.inl h
        · exact Or.inr (Or.inr h)
      · rintro (h | h | h)
        · exact Or.inr (Or.inl h)
        · exact Or.inl h
        · exact Or.inr (Or.inr h)
    · simp [List.mem_cons]

theorem sorted_insOrd (q : QMsg) (l : List QMsg) (h : l.Pairwise (fun a b => a.seq ≤ b.seq)) :
    (insOrd q l).Pairwise (fun a b => a.seq ≤ b.seq) := by
  induction l with
  | nil => simp [insOrd]
  | cons y rest ih =>
    obtain ⟨hy, hr⟩ := List.pairwise_cons.mp h
    simp only [insOrd]
    split
    · rename_i hle
      refine List.pairwise_cons.mpr ⟨?_, ih hr⟩
      intro x hx
      rcases (mem_insOrd q x rest).mp hx with rfl | hx
      · exact hle
      · exact hy x hx
    · rename_i hgt
      refine List.pairwise_cons.mpr ⟨?_, h⟩
      intro x hx
      rcases List.mem_cons.mp hx with rfl | hx
      · omega
      · have := hy x hx; omega

theorem pushObj_readerInv (il : Bool) (o : Obj) (c : Chunk) (h : ReaderInv il o) : ReaderInv il (pushObj il o c) := by
  obtain ⟨h1, h2, h3, h4, h5, h6⟩ := h
  -- the chunk is recorded; everything known about the old chunks stays true
  have base : ReaderInv il { o with rx := o.rx ++ [c] } → ReaderInv il { o with rx := o.rx ++ [c] } := id
  unfold pushObj
  simp only
  by_cases hu : c.d.unord = true
  · rw [if_pos hu]
    by_cases hdup : (il && o.unord.any (fun x => x.seq == c.d.seq)) = true
    · -- an unordered I-DATA message with this MID is already queued: dropped
      rw [if_pos hdup]
      simp only [Bool.and_eq_true, List.any_eq_true, beq_iff_eq] at hdup
      obtain ⟨hil, q, hq, hqs⟩ := hdup
      refine ⟨h1, ?_, ?_, ?_, ?_, ?_⟩
      · intro q' hq'
        obtain ⟨c', hc', r⟩ := h2 q' hq'
        exact ⟨c', List.mem_append_left _ hc', r⟩
      · intro c' hc' hcu
        rcases List.mem_append.mp hc' with hc' | hc'
        · exact h3 c' hc' hcu
        · simp only [List.mem_singleton] at hc'; subst hc'; rw [hu] at hcu; cases hcu
      · intro q' hq'
        obtain ⟨c', hc', r⟩ := h4 q' hq'
        exact ⟨c', List.mem_append_left _ hc', r⟩
      · intro c' hc' hcu
        rcases List.mem_append.mp hc' with hc' | hc'
        · obtain ⟨c'', hc'', r⟩ := h5 c' hc' hcu
          exact ⟨c'', List.mem_append_left _ hc'', r⟩
        · simp only [List.mem_singleton] at hc'; subst hc'
          obtain ⟨c'', hc'', r1, r2, r3⟩ := h4 q hq
          refine ⟨c'', List.mem_append_left _ hc'', r1, fun _ => (by rw [r2, hqs]), fun hf => (by rw [hil] at hf; cases hf), Or.inr ⟨q, hq, r3.symm⟩⟩
      · intro W hW
        exact h6 W (fun c' hc' => hW c' (List.mem_append_left _ hc'))
    · rw [if_neg hdup]
      refine ⟨h1, ?_, ?_, ?_, ?_, ?_⟩
      · intro q' hq'
        obtain ⟨c', hc', r⟩ := h2 q' hq'
        exact ⟨c', List.mem_append_left _ hc', r⟩
      · intro c' hc' hcu
        rcases List.mem_append.mp hc' with hc' | hc'
        · exact h3 c' hc' hcu
        · simp only [List.mem_singleton] at hc'; subst hc'; rw [hu] at hcu; cases hcu
      · intro q' hq'
        rcases List.mem_append.mp hq' with hq' | hq'
        · obtain ⟨c', hc', r⟩ := h4 q' hq'
          exact ⟨c', List.mem_append_left _ hc', r⟩
        · simp only [List.mem_singleton] at hq'; subst hq'
          exact ⟨c, List.mem_append_right _ (List.mem_singleton.mpr rfl), hu, rfl, rfl⟩
      · intro c' hc' hcu
        rcases List.mem_append.mp hc' with hc' | hc'
        · obtain ⟨c'', hc'', r1, r2, r3, r4⟩ := h5 c' hc' hcu
          refine ⟨c'', List.mem_append_left _ hc'', r1, r2, r3, ?_⟩
          rcases r4 with r4 | ⟨q, hq, r4⟩
          · exact Or.inl r4
          · exact Or.inr ⟨q, List.mem_append_left _ hq, r4⟩
        · simp only [List.mem_singleton] at hc'; subst hc'
          exact ⟨c', List.mem_append_right _ (List.mem_singleton.mpr rfl), hu, fun _ => rfl, fun _ => rfl,
            Or.inr ⟨_, List.mem_append_right _ (List.mem_singleton.mpr rfl), rfl⟩⟩
      · intro W hW
        exact h6 W (fun c' hc' => hW c' (List.mem_append_left _ hc'))
  · rw [if_neg hu]
    have hu' : c.d.unord = false := by simpa using hu
    -- facts shared by the three ordered cases (the chunk is only recorded, or recorded and queued)
    have keepFrom : ∀ q' ∈ o.ord, ∃ c' ∈ o.rx ++ [c], c'.d.unord = false ∧ c'.d.seq = q'.seq ∧ c'.d.msg = q'.msg := by
      intro q' hq'
      obtain ⟨c', hc', r⟩ := h2 q' hq'
      exact ⟨c', List.mem_append_left _ hc', r⟩
    have keepU : ∀ q' ∈ o.unord, ∃ c' ∈ o.rx ++ [c], c'.d.unord = true ∧ c'.d.seq = q'.seq ∧ c'.d.msg = q'.msg := by
      intro q' hq'
      obtain ⟨c', hc', r⟩ := h4 q' hq'
      exact ⟨c', List.mem_append_left _ hc', r⟩
    have keepUC : ∀ c' ∈ o.rx ++ [c], c'.d.unord = true → ∃ c'' ∈ o.rx ++ [c], c''.d.unord = true ∧ (il = true → c''.d.seq = c'.d.seq) ∧
        (il = false → c'' = c') ∧ ((c''.d.msg, true) ∈ o.got ∨ ∃ q ∈ o.unord, q.msg = c''.d.msg) := by
      intro c' hc' hcu
      rcases List.mem_append.mp hc' with hc' | hc'
      · obtain ⟨c'', hc'', r⟩ := h5 c' hc' hcu
        exact ⟨c'', List.mem_append_left _ hc'', r⟩
      · simp only [List.mem_singleton] at hc'; subst hc'; rw [hu'] at hcu; cases hcu
    have keepP : ∀ W : List Nat, (∀ c' ∈ o.rx ++ [c], c'.d.unord = false → W[c'.d.seq]? = some c'.d.msg) → (W.take o.nextSeq).Sublist (ordGot o) :=
      fun W hW => h6 W (fun c' hc' => hW c' (List.mem_append_left _ hc'))
    by_cases hold : c.d.seq < o.nextSeq
    · rw [if_pos hold]
      refine ⟨h1, keepFrom, ?_, keepU, keepUC, keepP⟩
      intro c' hc' hcu
      rcases List.mem_append.mp hc' with hc' | hc'
      · exact h3 c' hc' hcu
      · simp only [List.mem_singleton] at hc'; subst hc'; exact Or.inl hold
    · rw [if_neg hold]
      by_cases hdup : (il && o.ord.any (fun x => x.seq == c.d.seq)) = true
      · rw [if_pos hdup]
        simp only [Bool.and_eq_true, List.any_eq_true, beq_iff_eq] at hdup
        obtain ⟨_, q, hq, hqs⟩ := hdup
        refine ⟨h1, keepFrom, ?_, keepU, keepUC, keepP⟩
        intro c' hc' hcu
        rcases List.mem_append.mp hc' with hc' | hc'
        · exact h3 c' hc' hcu
        · simp only [List.mem_singleton] at hc'; subst hc'; exact Or.inr ⟨q, hq, hqs⟩
      · rw [if_neg hdup]
        refine ⟨sorted_insOrd _ _ h1, ?_, ?_, keepU, keepUC, keepP⟩
        · intro q' hq'
          rcases (mem_insOrd _ q' _).mp hq' with rfl | hq'
          · exact ⟨c, List.mem_append_right _ (List.mem_singleton.mpr rfl), hu', rfl, rfl⟩
          · exact keepFrom q' hq'
        · intro c' hc' hcu
          rcases List.mem_append.mp hc' with hc' | hc'
          · rcases h3 c' hc' hcu with h | ⟨q, hq, hqs⟩
            · exact Or.inl h
            · exact Or.inr ⟨q, (mem_insOrd _ q _).mpr (Or.inr hq), hqs⟩
          · simp only [List.mem_singleton] at hc'; subst hc'
            exact Or.inr ⟨_, (mem_insOrd _ _ _).mpr (Or.inl rfl), rfl⟩

/-! ### readOne / drain -/

theorem take_succ_of_getElem? (W : List Nat) (n m : Nat) (h : W[n]? = some m) : W.take (n + 1) = W.take n ++ [m] := by
  rw [List.take_add_one, h]; rfl

theorem readOne_readerInv (il : Bool) (o : Obj) (m : Nat × Bool) (o' : Obj) (hr : readOne o = some (m, o'))
    (h : ReaderInv il o) : ReaderInv il { o' with got := o'.got ++ [m] } := by
  obtain ⟨h1, h2, h3, h4, h5, h6⟩ := h
  unfold readOne at hr
  split at hr
  · -- an unordered message is handed out
    rename_i q rest hq
    simp only [Option.some.injEq, Prod.mk.injEq] at hr
    obtain ⟨rfl, rfl⟩ := hr
    have hg : ordGot { o with unord := rest, got := o.got ++ [(q.msg, true)] } = ordGot o := by
      simp [ordGot, List.filter_append]
    refine ⟨h1, h2, h3, ?_, ?_, ?_⟩
    · intro q' hq'
      exact h4 q' (by rw [hq]; exact List.mem_cons_of_mem _ hq')
    · intro c hc hcu
      obtain ⟨c', hc', r1, r2, r3, r4⟩ := h5 c hc hcu
      refine ⟨c', hc', r1, r2, r3, ?_⟩
      rcases r4 with r4 | ⟨q', hq', r4⟩
      · exact Or.inl (List.mem_append_left _ r4)
      · rw [hq] at hq'
        rcases List.mem_cons.mp hq' with rfl | hq'
        · left; simp only [List.mem_append, List.mem_singleton]; right; rw [r4]
        · exact Or.inr ⟨q', hq', r4⟩
    · intro W hW
      simp only at hg ⊢
      rw [hg]; exact h6 W hW
  · split at hr
    · cases hr
    · rename_i hun q rest hq
      split at hr
      · rename_i hle
        simp only [Option.some.injEq, Prod.mk.injEq] at hr
        obtain ⟨rfl, rfl⟩ := hr
        have hsorted := List.pairwise_cons.mp (hq ▸ h1)
        have hg : ordGot { o with ord := rest, nextSeq := if q.seq = o.nextSeq then o.nextSeq + 1 else o.nextSeq, got := o.got ++ [(q.msg, false)] }
            = ordGot o ++ [q.msg] := by
          simp [ordGot, List.filter_append]
        refine ⟨hsorted.2, ?_, ?_, ?_, ?_, ?_⟩
        · intro q' hq'
          exact h2 q' (by rw [hq]; exact List.mem_cons_of_mem _ hq')
        · intro c hc hcu
          simp only
          rcases h3 c hc hcu with h | ⟨q', hq', hqs⟩
          · left; split <;> omega
          · rw [hq] at hq'
            rcases List.mem_cons.mp hq' with rfl | hq'
            · left; split <;> omega
            · exact Or.inr ⟨q', hq', hqs⟩
        · exact h4
        · intro c hc hcu
          obtain ⟨c', hc', r1, r2, r3, r4⟩ := h5 c hc hcu
          refine ⟨c', hc', r1, r2, r3, ?_⟩
          rcases r4 with r4 | r4
          · exact Or.inl (List.mem_append_left _ r4)
          · exact Or.inr r4
        · intro W hW
          simp only at hg ⊢
          rw [hg]
          have hp := h6 W hW
          split
          · rename_i heq
            obtain ⟨c, hc, r1, r2, r3⟩ := h2 q (by rw [hq]; exact List.mem_cons_self)
            have := hW c hc r1
            rw [r2, r3, heq] at this
            rw [take_succ_of_getElem? W o.nextSeq q.msg this]
            exact List.Sublist.append hp (List.Sublist.refl _)
          · exact hp.trans (List.sublist_append_left _ _)
      · cases hr

theorem drain_readerInv (il : Bool) (fuel : Nat) : ∀ (o : Obj) (acc : List Nat), ReaderInv il o → ReaderInv il (drain fuel o acc).1 := by
  induction fuel with
  | zero => intro o acc h; exact h
  | succ n ih =>
    intro o acc h
    simp only [drain]
    split
    · rename_i m o' hr
      exact ih _ _ (readOne_readerInv il o m o' hr h)
    · exact h

/-- one successful read takes exactly one entry out of the two queues -/
theorem readOne_size (o : Obj) (m : Nat × Bool) (o' : Obj) (hr : readOne o = some (m, o')) :
    o'.ord.length + o'.unord.length + 1 = o.ord.length + o.unord.length := by
  unfold readOne at hr
  split at hr
  · rename_i q rest hq
    simp only [Option.some.injEq, Prod.mk.injEq] at hr
    obtain ⟨_, rfl⟩ := hr
    simp only [hq, List.length_cons]; omega
  · split at hr
    · cases hr
    · rename_i hun q rest hq
      split at hr
      · simp only [Option.some.injEq, Prod.mk.injEq] at hr
        obtain ⟨_, rfl⟩ := hr
        simp only [hq, List.length_cons]; omega
      · cases hr

/-- with enough fuel the drain stops only when nothing more is readable -/
theorem drain_done (fuel : Nat) : ∀ (o : Obj) (acc : List Nat), o.ord.length + o.unord.length ≤ fuel →
    readOne (drain fuel o acc).1 = none := by
  induction fuel with
  | zero =>
    intro o acc hle
    have h1 : o.ord = [] := List.eq_nil_of_length_eq_zero (by omega)
    have h2 : o.unord = [] := List.eq_nil_of_length_eq_zero (by omega)
    simp [drain, readOne, h1, h2]
  | succ n ih =>
    intro o acc hle
    simp only [drain]
    split
    · rename_i m o' hr
      have := readOne_size o m o' hr
      exact ih _ _ (by simp only; omega)
    · rename_i hnone; exact hnone

/-- the read error and the identity of the object are not touched by reading -/
theorem readOne_same (o : Obj) (m : Nat × Bool) (o' : Obj) (hr : readOne o = some (m, o')) :
    o'.sid = o.sid ∧ o'.gen = o.gen ∧ o'.readErr = o.readErr ∧ o'.rx = o.rx ∧ o'.eofSeen = o.eofSeen ∧ o'.got = o.got := by
  unfold readOne at hr
  split at hr
  · simp only [Option.some.injEq, Prod.mk.injEq] at hr
    obtain ⟨_, rfl⟩ := hr
    exact ⟨rfl, rfl, rfl, rfl, rfl, rfl⟩
  · split at hr
    · cases hr
    · split at hr
      · simp only [Option.some.injEq, Prod.mk.injEq] at hr
        obtain ⟨_, rfl⟩ := hr
        exact ⟨rfl, rfl, rfl, rfl, rfl, rfl⟩
      · cases hr

theorem drain_same (fuel : Nat) : ∀ (o : Obj) (acc : List Nat),
    (drain fuel o acc).1.sid = o.sid ∧ (drain fuel o acc).1.gen = o.gen ∧ (drain fuel o acc).1.readErr = o.readErr ∧
    (drain fuel o acc).1.rx = o.rx ∧ (drain fuel o acc).1.eofSeen = o.eofSeen := by
  induction fuel with
  | zero => intro o acc; exact ⟨rfl, rfl, rfl, rfl, rfl⟩
  | succ n ih =>
    intro o acc
    simp only [drain]
    split
    · rename_i m o' hr
      obtain ⟨a, b, c, d, f, _⟩ := readOne_same o m o' hr
      obtain ⟨a', b', c', d', f'⟩ := ih { o' with got := o'.got ++ [m] } (acc ++ [m.1])
      exact ⟨a'.trans a, b'.trans b, c'.trans c, d'.trans d, f'.trans f⟩
    · exact ⟨rfl, rfl, rfl, rfl, rfl⟩

/-- nothing readable is left and every sequence number below `n` was received: the cursor is past `n` -/
theorem cursor_past (il : Bool) (o : Obj) (h : ReaderInv il o) (hnone : readOne o = none) (n : Nat)
    (hall : ∀ k, k < n → ∃ c ∈ o.rx, c.d.unord = false ∧ c.d.seq = k) : n ≤ o.nextSeq := by
  rcases Nat.lt_or_ge o.nextSeq n with hlt | hge
  · exfalso
    obtain ⟨c, hc, hcu, hcs⟩ := hall o.nextSeq hlt
    rcases h.ordCover c hc hcu with hx | ⟨q, hq, hqs⟩
    · omega
    · unfold readOne at hnone
      split at hnone
      · cases hnone
      · split at hnone
        · rename_i hnil; rw [hnil] at hq; cases hq
        · rename_i q0 rest hq0
          split at hnone
          · cases hnone
          · rename_i hgt
            have hs := h.sorted
            rw [hq0] at hs hq
            rcases List.mem_cons.mp hq with rfl | hq
            · omega
            · have := (List.pairwise_cons.mp hs).1 q hq; omega
  · exact hge

/-- nothing readable is left: every unordered message received has been handed out -/
theorem unord_all_read (il : Bool) (o : Obj) (h : ReaderInv il o) (hnone : readOne o = none) (c : Chunk) (hc : c ∈ o.rx)
    (hcu : c.d.unord = true) : ∃ c' ∈ o.rx, c'.d.unord = true ∧ (il = true → c'.d.seq = c.d.seq) ∧ (il = false → c' = c) ∧
      (c'.d.msg, true) ∈ o.got := by
  obtain ⟨c', hc', r1, r2, r3, r4⟩ := h.unordCover c hc hcu
  refine ⟨c', hc', r1, r2, r3, ?_⟩
  rcases r4 with r4 | ⟨q, hq, _⟩
  · exact r4
  · exfalso
    unfold readOne at hnone
    split at hnone
    · cases hnone
    · rename_i hnil; rw [hnil] at hq; cases hq

end Rs
