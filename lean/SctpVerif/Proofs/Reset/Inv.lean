import SctpVerif.Proofs.Reset.Pop
/-!
Invariants of one endpoint of the stream-reset model, sender half:
* `SInv` — structure of the pending queue, the sent log and the request log (TSNs, where the end-of-stream marker
  sits, what a request closes);
* `WInv` — how the messages an application wrote on a stream object are numbered on the wire.
Both only look at the "writer part" of the stream objects (`WriterSame`), so everything the receive half of the same
endpoint does to its objects leaves them intact (`SInv.transport`, `WInv.transport`).
-/
namespace Rs

def Ep.items (e : Ep) : List Data := e.sent.map (·.d) ++ pendData e.pend

/-- ids of the messages of one kind (ordered / unordered) written on an object, in order -/
def wroteCls (o : Obj) (u : Bool) : List Nat := (o.wrote.filter (fun p => p.2 == u)).map (·.1)

/-- does a chunk of this kind carry a sequence number of its own? (DATA: ordered only; I-DATA: both) -/
def numbered (il u : Bool) : Bool := il || !u

def isOpen (o : Obj) : Prop := o.state = Gen.StreamStateOpen

instance (o : Obj) : Decidable (isOpen o) := by unfold isOpen; infer_instance

/-- the part of a stream object the send half depends on -/
structure WriterSame (o o' : Obj) : Prop where
  sid : o'.sid = o.sid
  gen : o'.gen = o.gen
  wrote : o'.wrote = o.wrote
  openIff : isOpen o' ↔ isOpen o
  ctr : isOpen o → o'.ssn = o.ssn ∧ o'.omid = o.omid ∧ o'.umid = o.umid

theorem WriterSame.refl (o : Obj) : WriterSame o o := ⟨rfl, rfl, rfl, Iff.rfl, fun _ => ⟨rfl, rfl, rfl⟩⟩

theorem WriterSame.trans {a b c : Obj} (h1 : WriterSame a b) (h2 : WriterSame b c) : WriterSame a c :=
  ⟨h2.sid.trans h1.sid, h2.gen.trans h1.gen, h2.wrote.trans h1.wrote, h2.openIff.trans h1.openIff,
   fun ha => by
     obtain ⟨x1, x2, x3⟩ := h1.ctr ha
     obtain ⟨y1, y2, y3⟩ := h2.ctr (h1.openIff.mpr ha)
     exact ⟨y1.trans x1, y2.trans x2, y3.trans x3⟩⟩

/-- a stream object nobody has written to or closed yet -/
structure FreshW (o : Obj) : Prop where
  isOpen : isOpen o
  wrote : o.wrote = []
  ssn : o.ssn = 0
  omid : o.omid = 0
  umid : o.umid = 0

/-- object tables: old handles keep their writer part, new handles are fresh objects -/
structure ObjsStep (l l' : List Obj) : Prop where
  len : l.length ≤ l'.length
  old : ∀ (h : Nat) (o : Obj), l[h]? = some o → ∃ o', l'[h]? = some o' ∧ WriterSame o o'
  new : ∀ (h : Nat) (o' : Obj), l'[h]? = some o' → l.length ≤ h → FreshW o'

theorem ObjsStep.refl (l : List Obj) : ObjsStep l l :=
  ⟨Nat.le_refl _, fun _ o h => ⟨o, h, WriterSame.refl o⟩, fun h o' ho hl => by
    have : h < l.length := by
      rcases Nat.lt_or_ge h l.length with x | x
      · exact x
      · rw [List.getElem?_eq_none x] at ho; cases ho
    omega⟩

/-- an object of the new table is either an old one with the same writer part, or fresh -/
theorem ObjsStep.back {l l' : List Obj} (st : ObjsStep l l') (h : Nat) (o' : Obj) (ho : l'[h]? = some o') :
    (∃ o, l[h]? = some o ∧ WriterSame o o') ∨ (l.length ≤ h ∧ FreshW o') := by
  rcases Nat.lt_or_ge h l.length with hl | hl
  · left
    have : l[h]? = some l[h] := List.getElem?_eq_getElem hl
    obtain ⟨o'', ho'', ws⟩ := st.old h _ this
    rw [ho] at ho''; cases ho''
    exact ⟨_, this, ws⟩
  · exact Or.inr ⟨hl, st.new h o' ho hl⟩

theorem ObjsStep.ofRel {l l' : List Obj} {R : Obj → Obj → Prop} (hR : ∀ o o', R o o' → WriterSame o o')
    (h : ObjsRel R l l') : ObjsStep l l' := by
  refine ⟨Nat.le_of_eq h.1.symm, ?_, ?_⟩
  · intro j o ho
    obtain ⟨o', ho', r⟩ := h.2 j o ho
    exact ⟨o', ho', hR _ _ r⟩
  · intro j o' ho' hl
    have : j < l'.length := by
      rcases Nat.lt_or_ge j l'.length with x | x
      · exact x
      · rw [List.getElem?_eq_none x] at ho'; cases ho'
    rw [h.1] at this
    omega

theorem ObjsStep.append (l : List Obj) (o : Obj) (hf : FreshW o) : ObjsStep l (l ++ [o]) := by
  refine ⟨by simp, ?_, ?_⟩
  · intro j oj hj
    have hlt : j < l.length := by
      rcases Nat.lt_or_ge j l.length with x | x
      · exact x
      · rw [List.getElem?_eq_none x] at hj; cases hj
    exact ⟨oj, by rw [List.getElem?_append_left hlt]; exact hj, WriterSame.refl _⟩
  · intro j o' ho' hl
    rcases Nat.lt_or_ge j (l.length + 1) with x | x
    · have : j = l.length := by omega
      subst this
      simp at ho'
      subst ho'; exact hf
    · rw [List.getElem?_eq_none (by simp; omega)] at ho'; cases ho'

/-! ### structure of the send half -/

structure SInv (e : Ep) : Prop where
  tsnLt : ∀ c ∈ e.sent, c.tsn < e.nextTSN
  tsnInj : ∀ c ∈ e.sent, ∀ c' ∈ e.sent, c.tsn = c'.tsn → c = c'
  markerClosed : ∀ s h, Item.marker s h ∈ e.pend → ∃ o, e.objs[h]? = some o ∧ o.sid = s ∧ ¬ isOpen o
  markerLast : e.pend.Pairwise MarkerBefore
  markerUniq : e.pend.Pairwise (fun a b => ∀ s h s', a = Item.marker s h → b ≠ Item.marker s' h)
  closedHas : ∀ (h : Nat) (o : Obj), e.objs[h]? = some o → ¬ isOpen o →
      (∃ s, Item.marker s h ∈ e.pend) ∨ (∃ rec ∈ e.reqLog, h ∈ rec.wobjs)
  recOK : ∀ rec ∈ e.reqLog, rec.sids.length = rec.wobjs.length ∧ rec.rsn < e.nextRSN ∧
      ∀ p ∈ rec.sids.zip rec.wobjs, ∃ o, e.objs[p.2]? = some o ∧ o.sid = p.1 ∧ ¬ isOpen o ∧
        (∀ s, Item.marker s p.2 ∉ e.pend) ∧ (∀ d, Item.data d ∈ e.pend → d.wobj ≠ p.2) ∧
        (∀ c ∈ e.sent, c.d.wobj = p.2 → c.tsn ≤ rec.last)
  rsnInj : ∀ r ∈ e.reqLog, ∀ r' ∈ e.reqLog, r.rsn = r'.rsn → r = r'
  recUniq : ∀ r ∈ e.reqLog, ∀ r' ∈ e.reqLog, ∀ h, h ∈ r.wobjs → h ∈ r'.wobjs → r = r'
  ctlResp : ∀ p ∈ e.ctl, ∃ r v, p = Msg.resp r v

/-- how written messages are numbered -/
structure WInv (e : Ep) : Prop where
  item : ∀ d ∈ e.items, ∃ o, e.objs[d.wobj]? = some o ∧ o.sid = d.sid ∧ o.gen = d.gen ∧ (d.msg, d.unord) ∈ o.wrote ∧
      (numbered e.il d.unord = true → (wroteCls o d.unord)[d.seq]? = some d.msg)
  cover : ∀ (h : Nat) (o : Obj), e.objs[h]? = some o → ∀ m u, (m, u) ∈ o.wrote →
      ∃ d ∈ e.items, d.wobj = h ∧ d.unord = u ∧ d.msg = m
  coverN : ∀ (h : Nat) (o : Obj), e.objs[h]? = some o → ∀ u k m, numbered e.il u = true → (wroteCls o u)[k]? = some m →
      ∃ d ∈ e.items, d.wobj = h ∧ d.unord = u ∧ d.seq = k ∧ d.msg = m
  ctr : ∀ (h : Nat) (o : Obj), e.objs[h]? = some o → isOpen o → ∀ u, numbered e.il u = true →
      seqOf e.il o u = (wroteCls o u).length

/-- the fields of an endpoint the send-half invariants read, apart from the object table -/
structure SendSame (e e' : Ep) : Prop where
  il : e'.il = e.il
  nextTSN : e'.nextTSN = e.nextTSN
  nextRSN : e'.nextRSN = e.nextRSN
  pend : e'.pend = e.pend
  sent : e'.sent = e.sent
  reqLog : e'.reqLog = e.reqLog

theorem wroteCls_same {o o' : Obj} (h : o'.wrote = o.wrote) (u : Bool) : wroteCls o' u = wroteCls o u := by
  unfold wroteCls; rw [h]

theorem seqOf_same {o o' : Obj} (il : Bool) (h : o'.ssn = o.ssn ∧ o'.omid = o.omid ∧ o'.umid = o.umid) (u : Bool) :
    seqOf il o' u = seqOf il o u := by
  unfold seqOf; rw [h.1, h.2.1, h.2.2]

theorem Ep.items_same {e e' : Ep} (h : SendSame e e') : e'.items = e.items := by
  unfold Ep.items; rw [h.pend, h.sent]

/-- the send-half structure survives anything that keeps the writer part of the objects (and may add fresh objects)
and only appends responses to the control queue -/
theorem SInv.transport {e e' : Ep} (inv : SInv e) (same : SendSame e e') (st : ObjsStep e.objs e'.objs)
    (hctl : ∀ p ∈ e'.ctl, ∃ r v, p = Msg.resp r v) : SInv e' := by
  obtain ⟨h1, h2, h3, h4, h5, h6, h7, h8, h9, _⟩ := inv
  refine ⟨?_, ?_, ?_, ?_, ?_, ?_, ?_, ?_, ?_, hctl⟩
  · rw [same.sent, same.nextTSN]; exact h1
  · rw [same.sent]; exact h2
  · rw [same.pend]
    intro s h hm
    obtain ⟨o, ho, hs, hc⟩ := h3 s h hm
    obtain ⟨o', ho', ws⟩ := st.old h o ho
    exact ⟨o', ho', ws.sid.trans hs, fun x => hc (ws.openIff.mp x)⟩
  · rw [same.pend]; exact h4
  · rw [same.pend]; exact h5
  · rw [same.pend, same.reqLog]
    intro h o' ho' hc
    rcases st.back h o' ho' with ⟨o, ho, ws⟩ | ⟨_, hf⟩
    · exact h6 h o ho (fun x => hc (ws.openIff.mpr x))
    · exact absurd hf.isOpen hc
  · rw [same.reqLog, same.nextRSN, same.pend, same.sent]
    intro rec hr
    obtain ⟨a, b, c⟩ := h7 rec hr
    refine ⟨a, b, ?_⟩
    intro p hp
    obtain ⟨o, ho, hs, hc, r1, r2, r3⟩ := c p hp
    obtain ⟨o', ho', ws⟩ := st.old p.2 o ho
    exact ⟨o', ho', ws.sid.trans hs, fun x => hc (ws.openIff.mp x), r1, r2, r3⟩
  · rw [same.reqLog]; exact h8
  · rw [same.reqLog]; exact h9

theorem WInv.transport {e e' : Ep} (inv : WInv e) (same : SendSame e e') (st : ObjsStep e.objs e'.objs) : WInv e' := by
  obtain ⟨h1, h2, h3, h4⟩ := inv
  have hitems := Ep.items_same same
  refine ⟨?_, ?_, ?_, ?_⟩
  · rw [hitems, same.il]
    intro d hd
    obtain ⟨o, ho, a, b, c, f⟩ := h1 d hd
    obtain ⟨o', ho', ws⟩ := st.old _ o ho
    refine ⟨o', ho', ws.sid.trans a, ws.gen.trans b, by rw [ws.wrote]; exact c, ?_⟩
    intro hn
    rw [wroteCls_same ws.wrote]; exact f hn
  · rw [hitems]
    intro h o' ho' m u hm
    rcases st.back h o' ho' with ⟨o, ho, ws⟩ | ⟨_, hf⟩
    · exact h2 h o ho m u (by rw [← ws.wrote]; exact hm)
    · rw [hf.wrote] at hm; cases hm
  · rw [hitems, same.il]
    intro h o' ho' u k m hn hk
    rcases st.back h o' ho' with ⟨o, ho, ws⟩ | ⟨_, hf⟩
    · exact h3 h o ho u k m hn (by rw [← wroteCls_same ws.wrote]; exact hk)
    · simp [wroteCls, hf.wrote] at hk
  · rw [same.il]
    intro h o' ho' hop u hn
    rcases st.back h o' ho' with ⟨o, ho, ws⟩ | ⟨_, hf⟩
    · have hop' := ws.openIff.mp hop
      rw [seqOf_same e.il (ws.ctr hop'), wroteCls_same ws.wrote]
      exact h4 h o ho hop' u hn
    · simp [seqOf, wroteCls, hf.wrote, hf.ssn, hf.omid, hf.umid]

end Rs
